/-
  Model of the UDP message codec and the fragmentation layer:

    core/internal/protocol/proxy.go   UDPMessage.HeaderSize / Size / Serialize, ParseUDPMessage
    core/internal/frag/frag.go        FragUDPMessage, Defragger.Feed

  Conventions (DESIGN §3): bytes are `Fin 256`; the fixed-width header fields are `Fin`s of
  their Go width, so "for every message" in a theorem is literally every value the Go types
  can hold; Go's `uint8(x)` conversion is `byte x` (= x % 256); indexing, slicing and the nil
  dereference in the reassembly loop go through `Res` so that a panic is a value of the model.

  `fragUDP` is FragUDPMessage WITH the repair of defect D1 (fixes/D1.patch: the fragment
  count is computed as an `int` and a message that needs more than 255 fragments is
  discarded).  `fragUDPPinned` is the code of the pinned tree, where the count is narrowed to
  `uint8` before the slice is made; the two share the loop `fragLoop`, whose fragment index
  is a `uint8` in both.
-/
import Hy.Base.Bytes
import Hy.Base.Res
import Hy.Base.Varint
import Hy.Gen.Core
namespace Hy.Frag
open Hy

abbrev U16 := Fin 65536
abbrev U32 := Fin 4294967296

def u16 (n : Nat) : U16 := ⟨n % 65536, Nat.mod_lt _ (by decide)⟩
def u32 (n : Nat) : U32 := ⟨n % 4294967296, Nat.mod_lt _ (by decide)⟩

/-- protocol.UDPMessage -/
structure UDPMessage where
  sessionID : U32
  packetID  : U16
  fragID    : Byte
  fragCount : Byte
  addr      : Bytes
  data      : Bytes
  deriving DecidableEq, Repr

/-- the zero value (what `make([]protocol.UDPMessage, n)` is filled with) -/
def zeroMsg : UDPMessage := ⟨0, 0, 0, 0, [], []⟩

/-- UDPMessage.HeaderSize: 4 + 2 + 1 + 1 + quicvarint.Len(len(addr)) + len(addr) -/
def headerSize (m : UDPMessage) : Nat :=
  8 + Varint.wlen (Varint.minW m.addr.length) + m.addr.length

/-- UDPMessage.Size -/
def size (m : UDPMessage) : Nat := headerSize m + m.data.length

/-- the bytes `Serialize` writes (when the buffer is large enough) -/
def serialize (m : UDPMessage) : Bytes :=
  be32 m.sessionID.val ++ be16 m.packetID.val ++ [m.fragID, m.fragCount]
    ++ Varint.enc m.addr.length ++ m.addr ++ m.data

/-- UDPMessage.Serialize(buf): `none` is the return value -1 (buffer too small) -/
def serializeInto (bufLen : Nat) (m : UDPMessage) : Option Bytes :=
  if bufLen < size m then none else some (serialize m)

/-- big-endian value of a byte string (binary.Read with binary.BigEndian) -/
def beNat (bs : Bytes) : Nat := bs.foldl (fun a b => a * 256 + b.val) 0

/-- binary.Read of an n-byte field from a bytes.Buffer: a short buffer is an error -/
def takeN (n : Nat) (bs : Bytes) : Res (Bytes × Bytes) :=
  if n ≤ bs.length then .ok (bs.take n, bs.drop n) else .reject

/-- protocol.ParseUDPMessage.  `reject` = the function returned an error. -/
def parseUDPMessage (msg : Bytes) : Res UDPMessage :=
  (takeN 4 msg).bind fun p1 =>
  (takeN 2 p1.2).bind fun p2 =>
  (takeN 1 p2.2).bind fun p3 =>
  (takeN 1 p3.2).bind fun p4 =>
  match Varint.dec p4.2 with
  | none => .reject
  | some (lAddr, bs) =>
    if lAddr = 0 ∨ lAddr > Gen.MaxMessageLength then .reject
    else if bs.length ≤ lAddr then .reject
    else
      (Res.sliceTo bs lAddr).bind fun addr =>
      (Res.sliceFrom bs lAddr).bind fun data =>
      .ok { sessionID := u32 (beNat p1.1), packetID := u16 (beNat p2.1),
            fragID := byte (beNat p3.1), fragCount := byte (beNat p4.1),
            addr := addr, data := data }

/-! ### FragUDPMessage -/

/-- `l[i] = v` on a Go slice -/
def setIdx {α} (l : List α) (i : Nat) (v : α) : Res (List α) :=
  if i < l.length then .ok (l.set i v) else .panic

/-- The loop `for off < len(fullPayload) { … }` (frag.go:20-32).  `fragID` is the `uint8`
    counter (`fragID++` wraps), `cnt` the value stored in every fragment's FragCount,
    `frags` the pre-allocated result slice.  The first argument is fuel: the loop advances
    by at least one byte per iteration when `mps > 0`, so `len + 1` is enough; running out
    of it is reported as `panic` and `frag_total` shows that this never happens. -/
def fragLoop (m : UDPMessage) (mps : Nat) (cnt : Byte) :
    Nat → Nat → Byte → List UDPMessage → Res (List UDPMessage)
  | 0, _, _, _ => .panic
  | fuel + 1, off, fragID, frags =>
    if off < m.data.length then
      let ps := if m.data.length - off > mps then mps else m.data.length - off
      (Res.slice m.data off (off + ps)).bind fun d =>
      (setIdx frags fragID.val { m with fragID := fragID, fragCount := cnt, data := d }).bind fun frags' =>
      fragLoop m mps cnt fuel (off + ps) (byte (fragID.val + 1)) frags'
    else .ok frags

/-- the number of fragments as an `int`: ⌈len / mps⌉ -/
def fragCountOf (m : UDPMessage) (mps : Nat) : Nat := (m.data.length + mps - 1) / mps

/-- FragUDPMessage with fixes/D1.patch.  `.ok []` is the Go result `nil` (message discarded). -/
def fragUDP (m : UDPMessage) (maxSize : Int) : Res (List UDPMessage) :=
  if (size m : Int) ≤ maxSize then .ok [m]
  else
    let mpsI : Int := maxSize - (headerSize m : Int)
    if mpsI ≤ 0 then .ok []
    else
      let mps := mpsI.toNat
      let count := fragCountOf m mps
      if count > 255 then .ok []
      else fragLoop m mps (byte count) (m.data.length + 1) 0 0 (List.replicate count zeroMsg)

/-- FragUDPMessage of the pinned tree: `fragCount := uint8(⌈len/mps⌉)`, no bound check. -/
def fragUDPPinned (m : UDPMessage) (maxSize : Int) : Res (List UDPMessage) :=
  if (size m : Int) ≤ maxSize then .ok [m]
  else
    let mpsI : Int := maxSize - (headerSize m : Int)
    if mpsI ≤ 0 then .ok []
    else
      let mps := mpsI.toNat
      let cnt := byte (fragCountOf m mps)
      fragLoop m mps cnt (m.data.length + 1) 0 0 (List.replicate cnt.val zeroMsg)

/-! ### Defragger -/

/-- frag.Defragger.  `count` is a `uint8` (incremented modulo 256), `size` an `int`. -/
structure Defragger where
  pktID : U16 := 0
  frags : List (Option UDPMessage) := []
  count : Nat := 0
  size  : Nat := 0
  deriving DecidableEq, Repr

/-- `for _, frag := range d.frags { … frag.Data … }`: a nil slot is a nil-pointer panic -/
def allData : List (Option UDPMessage) → Res Bytes
  | [] => .ok []
  | none :: _ => .panic
  | some f :: r => (allData r).bind fun t => .ok (f.data ++ t)

/-- `data := make([]byte, size)` then `off += copy(data[off:], frag.Data)` for every
    fragment: what does not fit is cut, what is not written stays zero -/
def fitTo (size : Nat) (flat : Bytes) : Bytes :=
  (flat ++ List.replicate (size - flat.length) (0 : Byte)).take size

/-- Defragger.Feed.  The result is the new state and the returned message (`none` = nil).
    The emitted message is the fed `*m` with Data/FragID/FragCount overwritten; the slot
    that aliases it is never read again (a full table has no nil slot), so the state keeps
    the fragment as it arrived. -/
def feed (d : Defragger) (m : UDPMessage) : Res (Defragger × Option UDPMessage) :=
  if m.fragCount.val ≤ 1 then .ok (d, some m)
  else if m.fragID.val ≥ m.fragCount.val then .ok (d, none)
  else if m.packetID ≠ d.pktID ∨ m.fragCount.val ≠ d.frags.length % 256 then
    (setIdx (List.replicate m.fragCount.val none) m.fragID.val (some m)).bind fun fr =>
    .ok ({ pktID := m.packetID, frags := fr, count := 1, size := m.data.length }, none)
  else
    (Res.idx d.frags m.fragID.val).bind fun slot =>
    match slot with
    | some _ => .ok (d, none)
    | none =>
      (setIdx d.frags m.fragID.val (some m)).bind fun fr =>
      let d' : Defragger := { d with frags := fr, count := (d.count + 1) % 256, size := d.size + m.data.length }
      if d'.count = fr.length then
        (allData fr).bind fun flat =>
        .ok (d', some { m with data := fitTo d'.size flat, fragID := 0, fragCount := 1 })
      else .ok (d', none)

/-- a history of fed messages: final state and what each call returned -/
def feedAll : Defragger → List UDPMessage → Res (Defragger × List (Option UDPMessage))
  | d, [] => .ok (d, [])
  | d, m :: ms =>
    (feed d m).bind fun p =>
    (feedAll p.1 ms).bind fun q => .ok (q.1, p.2 :: q.2)

/-- a state the Defragger can be in: reached from the zero value by some history of Feed calls -/
def Reachable (d : Defragger) : Prop := ∃ ms outs, feedAll {} ms = .ok (d, outs)

/-! ### splitter specification: consecutive chunks of `n` bytes -/

set_option linter.unusedVariables false in
def chunksOf (n : Nat) (l : Bytes) : List Bytes :=
  if h : n = 0 ∨ l = [] then []
  else l.take n :: chunksOf n (l.drop n)
termination_by l.length
decreasing_by
  have hn : n ≠ 0 := fun e => h (Or.inl e)
  have hl : l ≠ [] := fun e => h (Or.inr e)
  have : 0 < l.length := List.length_pos_iff.mpr hl
  simp only [List.length_drop]; omega

/-- fragment `k`, `k+1`, … carrying the given payload pieces -/
def mkFrags (m : UDPMessage) (cnt : Byte) : Nat → List Bytes → List UDPMessage
  | _, [] => []
  | k, c :: cs => { m with fragID := byte k, fragCount := cnt, data := c } :: mkFrags m cnt (k + 1) cs

/-- what the receiver hands on for an original message `m` -/
def reassembled (m : UDPMessage) : UDPMessage := { m with fragID := 0, fragCount := 1 }

/-- `fs` is a fragment set of the message `m`: 2..255 fragments numbered 0..n-1, all carrying
    the count n and `m`'s session, packet id and address, whose payloads concatenate to
    `m`'s payload.  (What `fragUDP` produces when it splits — `frag_reassembles` — but also
    any other way a conforming peer may cut the payload.) -/
structure IsFragSet (m : UDPMessage) (fs : List UDPMessage) : Prop where
  two  : 2 ≤ fs.length
  le   : fs.length ≤ 255
  fid  : ∀ i (h : i < fs.length), fs[i].fragID.val = i
  cnt  : ∀ f ∈ fs, f.fragCount.val = fs.length
  pid  : ∀ f ∈ fs, f.packetID = m.packetID
  sid  : ∀ f ∈ fs, f.sessionID = m.sessionID
  addr : ∀ f ∈ fs, f.addr = m.addr
  data : (fs.map (·.data)).flatten = m.data

/-- every fragment of `fs` occurs in `l` -/
def Complete (fs l : List UDPMessage) : Prop := ∀ f ∈ fs, f ∈ l

instance (fs l : List UDPMessage) : Decidable (Complete fs l) := by
  unfold Complete; exact inferInstance

/-- the outputs of a history, flattened to the messages handed on -/
def emitted (outs : List (Option UDPMessage)) : List UDPMessage := outs.filterMap id

end Hy.Frag
