/-
  Model of the two UDP send paths that call the splitter (C05):

    core/server/udp.go   sendMessageAutoFrag (called by udpSessionEntry.receiveLoop with a
                         MaxUDPSize buffer and a message PacketID 0 / FragID 0 / FragCount 1)
    core/client/udp.go   udpConn.Send (SendBuf of MaxUDPSize, same message shape)
    core/server/server.go, core/client/client.go   udpIOImpl.SendMessage: [traffic logger
                         verdict (server only)] → Serialize into the fixed buffer, -1 = silent
                         drop → Conn.SendDatagram

  The two paths are the same function up to the logger, so there is one model with a flag.
  Inputs that the code does not choose are inputs of the model: the value `rand.Intn(0xFFFF)`
  returned (`draw`), and for the i-th SendMessage call of one send (0 = the whole attempt,
  1.. = the fragments) the logger's verdict and what `SendDatagram` answered (`env i`).
-/
import Hy.Model.Frag
namespace Hy.Frag
open Hy

/-- what quic.Conn.SendDatagram answered -/
inductive Resp where
  | ok
  | tooLarge (limit : Int)     -- *quic.DatagramTooLargeError{MaxDatagramPayloadSize: limit}
  | fail                       -- any other error
  deriving DecidableEq, Repr

/-- the environment's part in one SendMessage call -/
structure Env1 where
  logOk : Bool := true         -- TrafficLogger.LogTraffic (server path only)
  resp  : Resp := .ok
  deriving DecidableEq, Repr

/-- the error a send path returns -/
inductive SendErr where
  | tooLarge (limit : Int)
  | other
  | disconnect                 -- errDisconnect: the traffic logger refused
  deriving DecidableEq, Repr

/-- a datagram handed to SendDatagram, with the answer -/
structure Handed where
  bytes : Bytes
  resp  : Resp
  deriving DecidableEq, Repr

/-- `uint16(rand.Intn(0xFFFF)) + 1` in uint16 arithmetic; `draw` is what Intn returned -/
def pktIDOfDraw (draw : Nat) : U16 := u16 ((u16 draw).val + 1)

def errOfResp : Resp → Option SendErr
  | .ok => none
  | .tooLarge L => some (.tooLarge L)
  | .fail => some .other

/-- udpIOImpl.SendMessage(buf, msg) with len(buf) = bufLen -/
def ioSend (logger : Bool) (bufLen : Nat) (m : UDPMessage) (e : Env1) : List Handed × Option SendErr :=
  if logger ∧ e.logOk = false then ([], some .disconnect)
  else
    match serializeInto bufLen m with
    | none => ([], none)                           -- message larger than buffer, silent drop
    | some bs => ([⟨bs, e.resp⟩], errOfResp e.resp)

/-- `for _, fMsg := range fMsgs { err := SendMessage(buf, &fMsg); if err != nil { return err } }`;
    `i` is the index of the next SendMessage call -/
def sendFrags (logger : Bool) (bufLen : Nat) (env : Nat → Env1) : Nat → List UDPMessage → List Handed × Option SendErr
  | _, [] => ([], none)
  | i, f :: fs =>
    match ioSend logger bufLen f (env i) with
    | (hs, some err) => (hs, some err)
    | (hs, none) => (hs ++ (sendFrags logger bufLen env (i + 1) fs).1, (sendFrags logger bufLen env (i + 1) fs).2)

/-- sendMessageAutoFrag / udpConn.Send: everything handed to SendDatagram, in order, and the
    returned error -/
def autoFrag (logger : Bool) (bufLen : Nat) (m : UDPMessage) (draw : Nat) (env : Nat → Env1) :
    Res (List Handed × Option SendErr) :=
  match ioSend logger bufLen m (env 0) with
  | (hs, some (.tooLarge L)) =>
    (fragUDP { m with packetID := pktIDOfDraw draw } L).bind fun fs =>
      .ok (hs ++ (sendFrags logger bufLen env 1 fs).1, (sendFrags logger bufLen env 1 fs).2)
  | r => .ok r

/-! ### a session: the packets one receiveLoop / one udpConn sends, one after the other -/

/-- one packet of a session with everything the environment contributes to ITS send: the value
    `rand.Intn` returns for it and the logger/transport answers to its SendMessage calls -/
structure Pkt where
  m    : UDPMessage
  draw : Nat
  env  : Nat → Env1

/-- the message as fragmented: the packet id drawn for THIS packet -/
def Pkt.withID (p : Pkt) : UDPMessage := { p.m with packetID := pktIDOfDraw p.draw }

/-- The packets of one session, in order.  Nothing is carried from one packet to the next:
    each send starts from a fresh message (packet id 0, FragID 0, FragCount 1) and draws its own
    id.  The server's receiveLoop ends the session at the first error (`stopOnErr`); the
    client's udpConn.Send just returns it. -/
def sessionSend (logger stopOnErr : Bool) (bufLen : Nat) : List Pkt → Res (List (List Handed × Option SendErr))
  | [] => .ok []
  | p :: ps =>
    (autoFrag logger bufLen p.m p.draw p.env).bind fun r =>
      if stopOnErr ∧ r.2.isSome then .ok [r]
      else (sessionSend logger stopOnErr bufLen ps).bind fun rs => .ok (r :: rs)

/-- the datagrams that actually left (SendDatagram returned nil) -/
def delivered (hs : List Handed) : List Bytes := (hs.filter (fun h => h.resp = .ok)).map (·.bytes)

/-- the receive side of either peer: udpIOImpl.ReceiveMessage skips what does not parse -/
def recvAll (dgs : List Bytes) : List UDPMessage :=
  dgs.filterMap fun b => match parseUDPMessage b with | .ok m => some m | _ => none

/-- a message as both send paths build it -/
def SenderShaped (m : UDPMessage) : Prop :=
  m.packetID = 0 ∧ m.fragID = 0 ∧ m.fragCount = 1 ∧ 1 ≤ m.addr.length ∧ m.addr.length ≤ 2048 ∧ 1 ≤ m.data.length

end Hy.Frag
