/-
  Executable model of extras/transport/udphop/conn.go (C19): udpHopPacketConn.
  Core Lean only (linked into `hydrv`).

  Atomic steps (labels): one call of `hop()` (whole body under connMutex.Lock), `WriteTo`
  (RLock region), `Close`, the Set* methods (Lock regions), one iteration of a socket's
  `recvLoop` (a packet or a timeout error arrives and is pushed to the queue), and the two
  halves of `ReadFrom`: the non-blocking test of `closeChan` (`readBegin`; this test is the
  repair of defect D10 — `readBeginG false` is the pinned code that goes straight to the
  select) and the `select` between `recvQueue` and `closeChan` (`readSelect pick …`), whose
  choice when both are ready is the INPUT `pick`.
  A schedule is a `List Label`; `run = foldl step`; a label that is not enabled (blocked
  select, packet for a closed socket) leaves the state unchanged, so every list is a schedule.

  Sockets are numbered in the order `ListenUDPFunc` returned them (`mark` = how many so
  far); a failed listen consumes no number.  The random draws (`rand.Intn(len(Addrs))`)
  and the result of `ListenUDPFunc` are inputs carried by the label.
  Not modelled: a `recvLoop` blocked in `recvQueue <- timeoutErr` on a FULL queue (the
  `rtimeout` label is simply not enabled then); `SyscallConn`.
-/
import Hy.Base.Bytes
import Hy.Base.Res
import Hy.Gen.Extras
import Hy.Model.HopAddr
namespace Hy.Hop
open Hy
open Hy.HopAddr (IP Dest)

/-- what the model tracks of one local UDP socket -/
structure Sock where
  closed : Bool
  rbuf : Int
  wbuf : Int
  rdl : Nat
  wdl : Nat
deriving DecidableEq, Repr

def Sock.fresh : Sock := ⟨false, 0, 0, 0, 0⟩

/-- an element of `recvQueue` -/
inductive Item where
  | pkt (data : Bytes)
  | timeout
deriving DecidableEq, Repr

def upd (f : Nat → Sock) (k : Nat) (v : Sock) : Nat → Sock := fun i => if i = k then v else f i

def closeSock (f : Nat → Sock) (k : Nat) : Nat → Sock := upd f k { f k with closed := true }

structure St where
  /-- `Addrs` (one UDP destination per port of the union; `nil` after Close) -/
  ports : List Dest
  prev : Option Nat
  cur : Nat
  addrIndex : Nat
  closed : Bool
  /-- sockets `0 … mark-1` have been returned by ListenUDPFunc -/
  mark : Nat
  sock : Nat → Sock
  queue : List Item
  /-- readBufferSize / writeBufferSize / deadline / readDeadline / writeDeadline (0 = zero time) -/
  rbuf : Int
  wbuf : Int
  dl : Nat
  rdl : Nat
  wdl : Nat
  /-- a reader is parked at the `select` of ReadFrom -/
  atSelect : Bool

inductive Label where
  | hop (listenOk : Bool) (idx : Nat)
  | write
  | recv (k : Nat) (data : Bytes)
  | rtimeout (k : Nat)
  | readBegin
  | readSelect (pickQueue : Bool) (blen : Nat)
  | setDeadline (t : Nat)
  | setReadDeadline (t : Nat)
  | setWriteDeadline (t : Nat)
  | setReadBuffer (n : Int)
  | setWriteBuffer (n : Int)
  | localAddr
  | close
deriving DecidableEq, Repr

/-- what a step lets the caller / the environment observe -/
inductive Out where
  | idle                                   -- label not enabled, nothing happened
  | hopOk (new : Nat) (closedPrev : Option Nat)
  | hopListenErr
  | hopClosed
  | wrote (k : Nat) (dst : Dest)
  | writeSockErr (k : Nat)
  | writeClosed
  | queued
  | dropped
  | readWaiting
  | readPkt (data : Bytes)
  | readTimeout
  | readErrClosed
  | setOk
  | setErr
  | addr (k : Nat)
  | closeOk
  | closeErr
  | closeAgain
  | panic
deriving DecidableEq, Repr

/-! ### hop -/

/-- "Set buffer sizes / deadlines if previously set" on the new socket -/
def applyCfg (s : St) (k : Sock) : Sock :=
  let k := if s.rbuf > 0 then { k with rbuf := s.rbuf } else k
  let k := if s.wbuf > 0 then { k with wbuf := s.wbuf } else k
  let k := if s.dl ≠ 0 then { k with rdl := s.dl, wdl := s.dl } else k
  let k := if s.rdl ≠ 0 then { k with rdl := s.rdl } else k
  let k := if s.wdl ≠ 0 then { k with wdl := s.wdl } else k
  k

def closePrev (s : St) : Nat → Sock :=
  match s.prev with
  | some k => closeSock s.sock k
  | none => s.sock

def hop (s : St) (listenOk : Bool) (idx : Nat) : St × Out :=
  if s.closed then (s, .hopClosed)
  else if !listenOk then (s, .hopListenErr)
  else
    let new := s.mark
    let s1 : St := { s with
      sock := upd (closePrev s) new (applyCfg s Sock.fresh)
      prev := some s.cur
      cur := new
      mark := s.mark + 1 }
    -- prevRemote := u.Addrs[u.addrIndex]; u.addrIndex = rand.Intn(len(u.Addrs))
    if s.addrIndex < s.ports.length then ({ s1 with addrIndex := idx }, .hopOk new s.prev)
    else (s1, .panic)

/-! ### WriteTo -/

def write (s : St) : St × Out :=
  if s.closed then (s, .writeClosed)
  else
    match s.ports[s.addrIndex]? with
    | none => (s, .panic)
    | some p => if (s.sock s.cur).closed then (s, .writeSockErr s.cur) else (s, .wrote s.cur p)

/-! ### recvLoop -/

def live (s : St) (k : Nat) : Bool := decide (k < s.mark) && !(s.sock k).closed

def recv (s : St) (k : Nat) (data : Bytes) : St × Out :=
  if live s k then
    if s.queue.length < Gen.udphopPacketQueueSize then
      ({ s with queue := s.queue ++ [.pkt (data.take Gen.udphopUdpBufferSize)] }, .queued)
    else (s, .dropped)
  else (s, .idle)

def rtimeout (s : St) (k : Nat) : St × Out :=
  if live s k ∧ s.queue.length < Gen.udphopPacketQueueSize then
    ({ s with queue := s.queue ++ [.timeout] }, .queued)
  else (s, .idle)

/-! ### ReadFrom -/

/-- entry of ReadFrom.  `checkFirst = true`: the repaired code tests `closeChan` before
    selecting; `false`: the pinned code (defect D10). -/
def readBeginG (checkFirst : Bool) (s : St) : St × Out :=
  if s.atSelect then (s, .idle)
  else if checkFirst && s.closed then (s, .readErrClosed)
  else ({ s with atSelect := true }, .readWaiting)

def deliver (s : St) (it : Item) (q : List Item) (blen : Nat) : St × Out :=
  let s' := { s with queue := q, atSelect := false }
  match it with
  | .pkt d => (s', .readPkt (d.take blen))
  | .timeout => (s', .readTimeout)

/-- the `select { case p := <-recvQueue … case <-closeChan … }` -/
def readSelect (s : St) (pickQueue : Bool) (blen : Nat) : St × Out :=
  if !s.atSelect then (s, .idle)
  else
    match s.queue with
    | [] => if s.closed then ({ s with atSelect := false }, .readErrClosed) else (s, .idle)
    | it :: q =>
      if s.closed && !pickQueue then ({ s with atSelect := false }, .readErrClosed)
      else deliver s it q blen

/-! ### Set* -/

/-- apply `f` to prevConn (result ignored) and currentConn (result returned); a closed
    socket refuses and keeps its settings -/
def setPrev (s : St) (f : Sock → Sock) : Nat → Sock :=
  match s.prev with
  | some k => if (s.sock k).closed then s.sock else upd s.sock k (f (s.sock k))
  | none => s.sock

def setOn (s : St) (f : Sock → Sock) : St × Out :=
  if (setPrev s f s.cur).closed then ({ s with sock := setPrev s f }, .setErr)
  else ({ s with sock := upd (setPrev s f) s.cur (f (setPrev s f s.cur)) }, .setOk)

/-! ### Close -/

def close (s : St) : St × Out :=
  if s.closed then (s, .closeAgain)
  else
    let sock1 := closePrev s
    let err := (sock1 s.cur).closed
    ({ s with sock := closeSock sock1 s.cur, closed := true, ports := [] },
      if err then .closeErr else .closeOk)

/-! ### step / run -/

def stepG (checkFirst : Bool) (s : St) : Label → St × Out
  | .hop ok idx => hop s ok idx
  | .write => write s
  | .recv k d => recv s k d
  | .rtimeout k => rtimeout s k
  | .readBegin => readBeginG checkFirst s
  | .readSelect pick blen => readSelect s pick blen
  | .setDeadline t => setOn { s with dl := t, rdl := t, wdl := t } (fun k => { k with rdl := t, wdl := t })
  | .setReadDeadline t => setOn { s with dl := 0, rdl := t } (fun k => { k with rdl := t })
  | .setWriteDeadline t => setOn { s with dl := 0, wdl := t } (fun k => { k with wdl := t })
  | .setReadBuffer n => setOn { s with rbuf := n } (fun k => { k with rbuf := n })
  | .setWriteBuffer n => setOn { s with wbuf := n } (fun k => { k with wbuf := n })
  | .localAddr => (s, .addr s.cur)
  | .close => close s

/-- the repaired code (fixes/D10.patch) -/
def step : St → Label → St × Out := stepG true
/-- the pinned code -/
def stepPinned : St → Label → St × Out := stepG false

def runG (checkFirst : Bool) (s : St) (sched : List Label) : St :=
  sched.foldl (fun s l => (stepG checkFirst s l).1) s

def run : St → List Label → St := runG true

/-- the outputs along a schedule -/
def traceG (checkFirst : Bool) : St → List Label → List Out
  | _, [] => []
  | s, l :: ls => (stepG checkFirst s l).2 :: traceG checkFirst (stepG checkFirst s l).1 ls

/-! ### HopIntervalConfig.normalized, nextHopInterval, NewUDPHopPacketConn -/

structure Interval where
  min : Int
  max : Int
deriving DecidableEq, Repr

def second : Int := 1000000000

def normalized (c : Interval) : Option Interval :=
  if c.min = 0 ∧ c.max = 0 then some ⟨Gen.udphopDefaultHopIntervalNs, Gen.udphopDefaultHopIntervalNs⟩
  else if c.min = 0 ∨ c.max = 0 then none
  else if c.min > c.max then none
  else if c.min < 5 * second then none
  else some c

/-- `r` is the value drawn by `rand.Int63n(int64(Max-Min)+1)` (not drawn when Min = Max) -/
def nextHopInterval (c : Interval) (r : Int) : Int :=
  if c.min = c.max then c.min else c.min + r

def initSt (ports : List Dest) (idx : Nat) : St :=
  { ports := ports, prev := none, cur := 0, addrIndex := idx, closed := false, mark := 1,
    sock := fun _ => Sock.fresh, queue := [], rbuf := 0, wbuf := 0, dl := 0, rdl := 0, wdl := 0,
    atSelect := false }

/-- NewUDPHopPacketConn: `reject` = returned an error (bad interval, or the first listen
    failed: no socket exists); `panic` = `rand.Intn(0)` on an empty address list -/
def newConn (ports : List Dest) (iv : Interval) (listenOk : Bool) (idx : Nat) : Res St :=
  match normalized iv with
  | none => .reject
  | some _ =>
    if !listenOk then .reject
    else if ports.isEmpty then .panic
    else .ok (initSt ports idx)

end Hy.Hop
