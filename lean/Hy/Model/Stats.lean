/-
  C15 — model of the traffic stats server (extras/trafficlogger/http.go) and of the way the
  core server reports online state to it (core/server/server.go: handleClient / h3sHandler).

  Every operation below is ONE critical section of `trafficStatsServerImpl.Mutex` in the Go
  code (LogTraffic, LogOnlineState, getTraffic's clear branch, getTraffic's read branch, kick's
  loop, getOnline); that each is a single Lock…Unlock region of the current source is a
  regenerated fact (Hy.Gen.c15_*), checked at the top of Hy.Props.C15.  A history is a list of
  operations — the order in which the critical sections were entered — so "for every
  interleaving of concurrent callers" is "for every `List (Op Id)`".

  Maps are total functions into `Option` (absent = `none`), which keeps the proofs pointwise;
  the model is executable and the driver prints a map by iterating over the ids it has seen.
  Counters are Go `uint64`: addition wraps at `W = 2^64` and the model wraps the same way.
  Core Lean only (linked into `hydrv`).
-/
namespace Hy.Stats

/-- 2^64: `trafficStatsEntry.Tx/Rx` are `uint64` -/
def W : Nat := 18446744073709551616

structure Entry where
  tx : Nat
  rx : Nat
  deriving DecidableEq, Repr

/-- pointwise map update -/
def upd {Id α : Type} [DecidableEq Id] (f : Id → α) (i : Id) (v : α) : Id → α :=
  fun j => if j = i then v else f j

/-- `StatsMap`, `KickMap`, `OnlineMap` of `trafficStatsServerImpl` -/
structure St (Id : Type) where
  stats : Id → Option Entry
  kick : Id → Bool
  online : Id → Option Int

def init {Id : Type} : St Id := ⟨fun _ => none, fun _ => false, fun _ => none⟩

section ops
variable {Id : Type} [DecidableEq Id]

/-- `LogTraffic(id, tx, rx)` (http.go:52-71): a pending kick is consumed and the report is
    refused WITHOUT being counted; otherwise the entry is created on demand and both counters
    are added to (uint64 arithmetic). -/
def logTraffic (s : St Id) (id : Id) (tx rx : Nat) : St Id × Bool :=
  if s.kick id then ({ s with kick := upd s.kick id false }, false)
  else
    let e := (s.stats id).getD ⟨0, 0⟩
    ({ s with stats := upd s.stats id (some ⟨(e.tx + tx) % W, (e.rx + rx) % W⟩) }, true)

/-- `getTraffic` (http.go:130-150): the reply is the whole map; with `clear` the map is
    replaced by an empty one in the same critical section. -/
def getTraffic (s : St Id) (clear : Bool) : St Id × (Id → Option Entry) :=
  (if clear then { s with stats := fun _ => none } else s, s.stats)

/-- `kick` (http.go:286-300): every listed id is put in `KickMap` (one critical section for the
    whole list; a set, so a second kick of a pending id changes nothing). -/
def kickIds (s : St Id) (ids : List Id) : St Id :=
  { s with kick := ids.foldl (fun k id => upd k id true) s.kick }

/-- `LogOnlineState(id, online)` (http.go:74-86).  Go's map yields 0 for an absent key;
    `OnlineMap[id]--` followed by `if OnlineMap[id] <= 0 { delete }`. -/
def logOnline (s : St Id) (id : Id) (on : Bool) : St Id :=
  let cur : Int := (s.online id).getD 0
  if on then { s with online := upd s.online id (some (cur + 1)) }
  else if cur - 1 ≤ 0 then { s with online := upd s.online id none }
  else { s with online := upd s.online id (some (cur - 1)) }

/-- `getOnline` (http.go:152-163) -/
def getOnline (s : St Id) : Id → Option Int := s.online

/-! ### histories -/

inductive Op (Id : Type) where
  | log (id : Id) (tx rx : Nat)
  | getTraffic (clear : Bool)
  | kick (ids : List Id)
  | online (id : Id) (on : Bool)
  | getOnline

inductive Ret (Id : Type) where
  | accepted (b : Bool)
  | traffic (snap : Id → Option Entry)
  | census (snap : Id → Option Int)
  | done

def step (s : St Id) : Op Id → St Id × Ret Id
  | .log id tx rx => let r := logTraffic s id tx rx; (r.1, .accepted r.2)
  | .getTraffic c => let r := getTraffic s c; (r.1, .traffic r.2)
  | .kick ids => (kickIds s ids, .done)
  | .online id on => (logOnline s id on, .done)
  | .getOnline => (s, .census (getOnline s))

/-- state after a history -/
def run (s : St Id) (ops : List (Op Id)) : St Id := ops.foldl (fun s o => (step s o).1) s

/-- an event = an operation with what it returned -/
abbrev Ev (Id : Type) := Op Id × Ret Id

/-- the history with every operation's return value -/
def trace (s : St Id) : List (Op Id) → List (Ev Id)
  | [] => []
  | o :: os => (o, (step s o).2) :: trace (step s o).1 os

/-! ### vocabulary of the property (functions of the observable history only) -/

/-- bytes of `id` the server was told were allowed: Σ over `LogTraffic(id,…)` that returned true -/
def allowed (id : Id) : List (Ev Id) → Entry
  | [] => ⟨0, 0⟩
  | (.log i tx rx, .accepted true) :: t =>
    let a := allowed id t
    if i = id then ⟨a.tx + tx, a.rx + rx⟩ else a
  | _ :: t => allowed id t

/-- Σ of what the snapshots taken WITH clear showed for `id` -/
def cleared (id : Id) : List (Ev Id) → Entry
  | [] => ⟨0, 0⟩
  | (.getTraffic true, .traffic snap) :: t =>
    let a := cleared id t
    let e := (snap id).getD ⟨0, 0⟩
    ⟨a.tx + e.tx, a.rx + e.rx⟩
  | _ :: t => cleared id t

/-- number of refused reports of `id` -/
def refusals (id : Id) : List (Ev Id) → Nat
  | [] => 0
  | (.log i _ _, .accepted false) :: t => (if i = id then 1 else 0) + refusals id t
  | _ :: t => refusals id t

/-- what a snapshot shows for `id` (absent = 0,0) -/
def shown (m : Id → Option Entry) (id : Id) : Entry := (m id).getD ⟨0, 0⟩

/-- Is a kick of `id` outstanding after the history?  Defined on the operations alone: the
    last kick-relevant operation was a kick naming `id` (no report of `id` since). -/
def pendingAfter (id : Id) (ops : List (Op Id)) : Bool :=
  ops.foldl (fun p o => match o with
    | .kick ids => if id ∈ ids then true else p
    | .log i _ _ => if i = id then false else p
    | _ => p) false

/-- kicks of `id` that were not absorbed by an already outstanding one -/
def effectiveKicks (id : Id) (ops : List (Op Id)) : Nat × Bool :=
  ops.foldl (fun (acc : Nat × Bool) o => match o with
    | .kick ids => if id ∈ ids then (if acc.2 then acc else (acc.1 + 1, true)) else acc
    | .log i _ _ => if i = id then (acc.1, false) else acc
    | _ => acc) (0, false)

/-- number of kick requests naming `id` -/
def kickCount (id : Id) (ops : List (Op Id)) : Nat :=
  ops.countP (fun o => match o with | .kick ids => decide (id ∈ ids) | _ => false)

/-- no kick of `id` is issued while an earlier one is still outstanding -/
def SoloKicks (id : Id) (ops : List (Op Id)) : Prop :=
  ∀ pre ids post, ops = pre ++ .kick ids :: post → id ∈ ids → pendingAfter id pre = false

/-- is `o` the notification `LogOnlineState(id, on)`? -/
def isNote (id : Id) (on : Bool) : Op Id → Bool
  | .online i b => decide (i = id) && (b == on)
  | _ => false

def onCount (id : Id) (ops : List (Op Id)) : Nat := ops.countP (isNote id true)

def offCount (id : Id) (ops : List (Op Id)) : Nat := ops.countP (isNote id false)

/-- the count the Go code keeps for ANY notification sequence: +1 on online, −1 floored at 0
    on offline -/
def balance (id : Id) (ops : List (Op Id)) : Nat :=
  ops.foldl (fun b o => match o with
    | .online i on => if i = id then (if on then b + 1 else b - 1) else b
    | _ => b) 0

/-- an entry of `OnlineMap`: present exactly when the count is positive -/
def ofCount (n : Nat) : Option Int := if n = 0 then none else some (n : Int)

/-- every offline notification of `id` is preceded by its own online notification -/
def WellPaired (id : Id) (ops : List (Op Id)) : Prop :=
  ∀ pre, pre <+: ops → offCount id pre ≤ onCount id pre

/-! ### the HTTP front (ServeHTTP, http.go:102-128)

Strings are byte strings (one `Char` per byte).  What `net/url` and `encoding/json` make of
the request (the value of the `clear` query parameter; the decoded body) is an input. -/

/-- result of `json.NewDecoder(r.Body).Decode(&ids)` with `ids []string` -/
inductive Body (Id : Type) where
  | bad
  | ids (l : List Id)

structure Req (Id : Type) where
  authz : String          -- r.Header.Get("Authorization")
  method : String
  path : String           -- r.URL.Path
  clear : String          -- r.URL.Query().Get("clear")
  body : Body Id

inductive Resp (Id : Type) where
  | unauthorized          -- 401
  | index                 -- 200, the HTML page
  | notFound              -- 404
  | badRequest            -- 400
  | okEmpty               -- 200, empty body (kick)
  | traffic (snap : Id → Option Entry)
  | census (snap : Id → Option Int)
  | dump                  -- 200, /dump/streams (stream table: outside this property)

/-- `strconv.ParseBool` with the error ignored (`bClear, _ :=`): true exactly on these -/
def parseBoolTrue (s : String) : Bool :=
  s = "1" || s = "t" || s = "T" || s = "TRUE" || s = "true" || s = "True"

def serve (secret : String) (s : St Id) (r : Req Id) : St Id × Resp Id :=
  if secret ≠ "" ∧ r.authz ≠ secret then (s, .unauthorized)
  else if r.method = "GET" ∧ r.path = "/" then (s, .index)
  else if r.method = "GET" ∧ r.path = "/traffic" then
    let x := getTraffic s (parseBoolTrue r.clear); (x.1, .traffic x.2)
  else if r.method = "POST" ∧ r.path = "/kick" then
    match r.body with
    | .bad => (s, .badRequest)
    | .ids l => (kickIds s l, .okEmpty)
  else if r.method = "GET" ∧ r.path = "/online" then (s, .census (getOnline s))
  else if r.method = "GET" ∧ r.path = "/dump/streams" then (s, .dump)
  else (s, .notFound)

/-- the atomic operation a request amounts to, if any -/
def reqOp (secret : String) (r : Req Id) : Option (Op Id) :=
  if secret ≠ "" ∧ r.authz ≠ secret then none
  else if r.method = "GET" ∧ r.path = "/" then none
  else if r.method = "GET" ∧ r.path = "/traffic" then some (.getTraffic (parseBoolTrue r.clear))
  else if r.method = "POST" ∧ r.path = "/kick" then
    match r.body with
    | .bad => none
    | .ids l => some (.kick l)
  else if r.method = "GET" ∧ r.path = "/online" then some .getOnline
  else none

/-! ### order-independent consequences, evaluated by the driver on the totals of a concurrent run -/

/-- totals of one id over a concurrent run (one component: tx or rx) -/
structure Totals where
  allowed : Nat      -- Σ of the reports that returned true
  cleared : Nat      -- Σ of what the clearing snapshots showed
  final : Nat        -- the last snapshot, taken after everything has stopped
  refusals : Nat     -- reports that returned false
  kicks : Nat        -- kick requests naming the id that returned 200
  pending : Bool     -- a kick is still outstanding at the end
  solo : Bool        -- the run guarantees that no kick was issued while another was outstanding

def Totals.ok (t : Totals) : Bool :=
  decide (t.cleared + t.final ≤ t.allowed) && decide ((t.allowed - (t.cleared + t.final)) % W = 0)
  && decide (t.allowed < W → t.cleared + t.final = t.allowed)
  && decide (t.refusals + (if t.pending then 1 else 0) ≤ t.kicks)
  && decide (t.kicks > 0 → t.refusals + (if t.pending then 1 else 0) ≥ 1)
  && decide (t.solo = true → t.refusals + (if t.pending then 1 else 0) = t.kicks)

end ops

/-! ### how the core server produces the online/offline notifications

One QUIC connection = one `handleClient` goroutine plus the HTTP/3 handlers it serves
(server.go:119-136, 151-230).  Atomic steps:
* `authReq res` — one auth POST handled by `h3sHandler.ServeHTTP` under `authMutex`; `res` is
  the authenticator's verdict (`some id` = accepted).  Only the first accepted one sets
  `authenticated`/`authID` and calls `LogOnlineState(id, true)`; later ones answer 233 without
  logging.  Enabled only while `ServeQUICConn` has not returned (contract of the pinned
  quic-go: it "blocks until all HTTP handlers for all streams have returned").
* `serveReturn` — `h3s.ServeQUICConn(conn)` returns, for whatever reason the connection ended
  (client close, server close, idle timeout, error).
* `finish` — the tail of `handleClient`: `if handler.authenticated { LogOnlineState(authID,false) }`.
-/
namespace Server

inductive Phase where
  | serving | returned | done
  deriving DecidableEq, Repr

structure Conn (Id : Type) where
  phase : Phase
  auth : Option Id

def Conn.fresh {Id : Type} : Conn Id := ⟨.serving, none⟩

inductive Act (Id : Type) where
  | authReq (res : Option Id)
  | serveReturn
  | finish

section
variable {Id : Type} [DecidableEq Id]

/-- one step of a connection; the second component is the notification it sends, if any -/
def connStep (c : Conn Id) : Act Id → Conn Id × Option (Id × Bool)
  | .authReq res =>
    match c.phase, c.auth, res with
    | .serving, none, some id => ({ c with auth := some id }, some (id, true))
    | _, _, _ => (c, none)
  | .serveReturn =>
    match c.phase with
    | .serving => ({ c with phase := .returned }, none)
    | _ => (c, none)
  | .finish =>
    match c.phase with
    | .returned => ({ c with phase := .done }, c.auth.map (fun id => (id, false)))
    | _ => (c, none)

/-- labels of the whole system: a step of connection `cid`, or a call of the stats API by
    anybody else (reports from relays, HTTP requests) — everything except `LogOnlineState`,
    which only `connStep` issues -/
inductive Label (Id : Type) where
  | conn (cid : Nat) (a : Act Id)
  | api (o : Op Id)

structure Sys (Id : Type) where
  conns : Nat → Conn Id
  stats : St Id
  notes : List (Nat × Id × Bool)     -- ghost: every notification sent, oldest first

def Sys.init {Id : Type} : Sys Id := ⟨fun _ => Conn.fresh, Stats.init, []⟩

/-- `n` = number of connections the listener ever accepts (labels for others are disabled) -/
def sysStep (n : Nat) (y : Sys Id) : Label Id → Sys Id
  | .conn cid a =>
    if cid < n then
      let r := connStep (y.conns cid) a
      match r.2 with
      | none => { y with conns := upd y.conns cid r.1 }
      | some (id, on) =>
        { conns := upd y.conns cid r.1, stats := logOnline y.stats id on,
          notes := y.notes ++ [(cid, id, on)] }
    else y
  | .api o =>
    match o with
    | .online _ _ => y
    | o => { y with stats := (step y.stats o).1 }

def sysRun (n : Nat) (sched : List (Label Id)) : Sys Id := sched.foldl (sysStep n) Sys.init

/-- the connection is authenticated as `id` and its handler has not finished -/
def live (c : Conn Id) (id : Id) : Bool := decide (c.auth = some id) && decide (c.phase ≠ .done)

/-- number of connections `cid < n` that are live as `id` -/
def liveCount (conns : Nat → Conn Id) (id : Id) : Nat → Nat
  | 0 => 0
  | n + 1 => liveCount conns id n + (if live (conns n) id then 1 else 0)

/-- the notifications a connection in this state must have sent so far, in order -/
def expectedNotes (c : Conn Id) : List (Id × Bool) :=
  match c.auth with
  | none => []
  | some id => if c.phase = .done then [(id, true), (id, false)] else [(id, true)]

def notesOf (cid : Nat) (notes : List (Nat × Id × Bool)) : List (Id × Bool) :=
  (notes.filter (fun x => x.1 = cid)).map (fun x => x.2)

end
end Server

end Hy.Stats
