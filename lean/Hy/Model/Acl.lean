/-
  Model of the ACL of apernet/hysteria (C09):
    extras/outbounds/acl/parse.go     ParseTextRules / parseLine (the line regexp)
    extras/outbounds/acl/compile.go   Compile, parseProtoPort, compileHostMatcher,
                                      compiledRule.Match, compiledRuleSetImpl.Match (LRU cache)
    extras/outbounds/acl/matchers.go  ip / cidr / domain (exact, wildcard, suffix) / all matchers
    extras/outbounds/acl.go           aclEngine.handle (default fallback, hijack rewriting)

  Conventions.  A string is `List Nat` (code points; the supported fragment is ASCII, i.e.
  every element < 128 — there bytes, runes and code points coincide).  An IP (`net.IP`) is the
  list of its bytes (length 0 = nil, 4, 16, or anything else Go would carry around).
  `idna.ToUnicode` is a PARAMETER `U : Str → Str` of the model (applied to the normalised
  name, with the code's "on error keep the name" already folded in); theorems hold for every
  `U`, the driver is given its value for each query by the harness.
  The LRU is an abstract store; what it evicts is an INPUT (`evict : Key → Bool`).
  geoip:/geosite: matchers are outside the model (`Front.unsupported`).

  `portOk` is the range test of compile.go WITH the repair of defect D8 (fixes/D8.patch);
  `portOkPinned` is the pinned tree's test.

  Core Lean only (linked into `hydrv`).  Everything is structurally recursive so that
  `decide` evaluates it in the kernel.
-/
namespace Hy.Acl

abbrev Str := List Nat
abbrev IP := List Nat

/-! ### ASCII strings: strings.ToLower, strings.TrimRight(·, "."), strings.TrimSpace -/

def lower (c : Nat) : Nat := if 65 ≤ c ∧ c ≤ 90 then c + 32 else c

def toLower (s : Str) : Str := s.map lower

/-- `strings.TrimRight(s, ".")` -/
def trimRightDots : Str → Str
  | [] => []
  | c :: s =>
    match trimRightDots s with
    | [] => if c = 46 then [] else [c]
    | t :: ts => c :: t :: ts

/-- `strings.TrimRight(strings.ToLower(s), ".")` — applied to queried names and to rule addresses -/
def normalise (s : Str) : Str := trimRightDots (toLower s)

/-- `unicode.IsSpace` on ASCII -/
def isSpace (c : Nat) : Bool := c == 9 || c == 10 || c == 11 || c == 12 || c == 13 || c == 32

/-- regexp `\s` (Perl class: no vertical tab) -/
def isReSpace (c : Nat) : Bool := c == 9 || c == 10 || c == 12 || c == 13 || c == 32

/-- regexp `\w` -/
def isWord (c : Nat) : Bool :=
  (48 ≤ c && c ≤ 57) || (65 ≤ c && c ≤ 90) || c == 95 || (97 ≤ c && c ≤ 122)

def isDigit (c : Nat) : Bool := 48 ≤ c && c ≤ 57

def isHex (c : Nat) : Bool := (48 ≤ c && c ≤ 57) || (97 ≤ c && c ≤ 102) || (65 ≤ c && c ≤ 70)

def trimSpace (s : Str) : Str := ((s.dropWhile isSpace).reverse.dropWhile isSpace).reverse

/-- `strings.Split(s, sep)` for a one-byte separator (always at least one part) -/
def splitOn (sep : Nat) : Str → List Str
  | [] => [[]]
  | c :: s =>
    if c = sep then [] :: splitOn sep s
    else match splitOn sep s with
      | [] => [[c]]
      | p :: ps => (c :: p) :: ps

/-- `strings.SplitN(s, sep, 2)`: `none` when the separator does not occur (one part),
    else the text before and after its FIRST occurrence -/
def cut (sep : Nat) : Str → Option (Str × Str)
  | [] => none
  | c :: s =>
    if c = sep then some ([], s)
    else match cut sep s with
      | none => none
      | some (a, b) => some (c :: a, b)

def parseDec (s : Str) : Nat := s.foldl (fun acc d => acc * 10 + (d - 48)) 0

def hexVal (c : Nat) : Nat :=
  if 48 ≤ c ∧ c ≤ 57 then c - 48 else if 97 ≤ c ∧ c ≤ 102 then c - 87 else c - 55

def parseHex (s : Str) : Nat := s.foldl (fun acc d => acc * 16 + hexVal d) 0

/-- `strconv.ParseUint(s, 10, 16)`: non-empty, digits only, value ≤ 65535 -/
def parseU16 (s : Str) : Option Nat :=
  if s ≠ [] ∧ s.all isDigit = true ∧ parseDec s ≤ 65535 then some (parseDec s) else none

/-! ### string constants (explicit code points: no `String` in the model) -/
def cStar : Str := [42]                                   -- "*"
def cAll : Str := [97, 108, 108]                          -- "all"
def cStarSlashStar : Str := [42, 47, 42]                  -- "*/*"
def cTcp : Str := [116, 99, 112]                          -- "tcp"
def cUdp : Str := [117, 100, 112]                         -- "udp"
def cGeoip : Str := [103, 101, 111, 105, 112, 58]         -- "geoip:"
def cGeosite : Str := [103, 101, 111, 115, 105, 116, 101, 58]  -- "geosite:"
def cSuffix : Str := [115, 117, 102, 102, 105, 120, 58]   -- "suffix:"

/-! ### matchers.go -/

/-- `deepMatchRune(str, pattern)`: `*` (42) matches any, possibly empty, run; the recursion of
    the Go code (`deep(str, pattern[1:]) || (len(str) > 0 && deep(str[1:], pattern))`) is the
    inner loop `starLoop`. Argument order here: pattern first. -/
def starLoop (k : Str → Bool) : Str → Bool
  | [] => k []
  | x :: s => k (x :: s) || starLoop k s

def deepMatch : (pattern : Str) → (str : Str) → Bool
  | [], s => s.isEmpty
  | c :: ps, s =>
    if c = 42 then starLoop (deepMatch ps) s
    else match s with
      | [] => false
      | x :: s' => x == c && deepMatch ps s'

def v4InV6Prefix : IP := [0, 0, 0, 0, 0, 0, 0, 0, 0, 0, 255, 255]

/-- `net.IP.To4` (`none` = Go's nil) -/
def to4 (ip : IP) : Option IP :=
  if ip.length = 4 then some ip
  else if ip.length = 16 ∧ ip.take 12 = v4InV6Prefix then some (ip.drop 12)
  else none

/-- `if x := ip.To4(); x != nil { ip = x }` -/
def canon (ip : IP) : IP := (to4 ip).getD ip

/-- `net.IP.Equal` -/
def ipEqual (a x : IP) : Bool :=
  if a.length = x.length then a == x
  else if a.length = 4 ∧ x.length = 16 then x.take 12 == v4InV6Prefix && a == x.drop 12
  else if a.length = 16 ∧ x.length = 4 then a.take 12 == v4InV6Prefix && a.drop 12 == x
  else false

/-- `net.networkNumberAndMask` -/
def networkNumberAndMask (net mask : IP) : Option (IP × IP) :=
  let ip? : Option IP :=
    match to4 net with
    | some p => some p
    | none => if net.length = 16 then some net else none
  match ip? with
  | none => none
  | some ip =>
    if mask.length = 4 then (if ip.length = 4 then some (ip, mask) else none)
    else if mask.length = 16 then (if ip.length = 4 then some (ip, mask.drop 12) else some (ip, mask))
    else none

def maskedEq : IP → IP → IP → Bool
  | n :: nn, m :: ms, x :: xs => (n &&& m) == (x &&& m) && maskedEq nn ms xs
  | _, _, _ => true

/-- `(*net.IPNet).Contains` -/
def cidrContains (net mask ip : IP) : Bool :=
  let ip' := canon ip
  match networkNumberAndMask net mask with
  | none => ip'.length == 0
  | some (nn, m) => ip'.length == nn.length && maskedEq nn m ip'

inductive Matcher where
  | all
  | exact (p : Str)
  | wildcard (p : Str)
  | suffix (p : Str)
  | ip (a : IP)
  | cidr (net mask : IP)
  deriving DecidableEq, Repr

/-- `hostMatcher.Match` on a normalised host; `uname` is `idna.ToUnicode(host.Name)` -/
def hostMatch (m : Matcher) (uname : Str) (v4 v6 : IP) : Bool :=
  match m with
  | .all => true
  | .exact p => uname == p
  | .wildcard p => deepMatch p uname
  | .suffix p => uname == p || (46 :: p).isSuffixOf uname
  | .ip a => ipEqual a v4 || ipEqual a v6
  | .cidr n k => cidrContains n k v4 || cidrContains n k v6

/-! ### compile.go: rules, the per-rule predicate, first match -/

inductive Proto where
  | both | tcp | udp
  deriving DecidableEq, Repr

structure Rule where
  outbound : Str
  matcher : Matcher
  proto : Proto
  startPort : Nat
  endPort : Nat
  hijack : Option IP
  deriving DecidableEq, Repr

structure Query where
  name : Str
  v4 : IP
  v6 : IP
  proto : Proto
  port : Nat
  deriving DecidableEq, Repr

/-- `!(r.Protocol != ProtocolBoth && r.Protocol != proto)` -/
def protoOk (rp qp : Proto) : Bool := rp == .both || rp == qp

/-- the range test WITH the D8 repair: `(0, 0)` alone means "any port" -/
def portOk (s e port : Nat) : Bool := !((s != 0 || e != 0) && (port < s || e < port))

/-- the pinned tree: `StartPort == 0` alone means "any port" (defect D8) -/
def portOkPinned (s e port : Nat) : Bool := !(s != 0 && (port < s || e < port))

/-- `compiledRule.Match` after `compiledRuleSetImpl.Match` normalised the name; generic in the
    port test so that the pinned behaviour can be stated beside the repaired one -/
def ruleMatchG (pok : Nat → Nat → Nat → Bool) (U : Str → Str) (r : Rule) (q : Query) : Bool :=
  protoOk r.proto q.proto && pok r.startPort r.endPort q.port &&
    hostMatch r.matcher (U (normalise q.name)) q.v4 q.v6

def ruleMatch := ruleMatchG portOk

/-- a decision: `none` = the zero outbound and nil hijack (no rule matched) -/
abbrev Dec := Option (Str × Option IP)

/-- the uncached loop of `compiledRuleSetImpl.Match`: first rule in file order that matches -/
def evalG (pok : Nat → Nat → Nat → Bool) (U : Str → Str) (rules : List Rule) (q : Query) : Dec :=
  (rules.find? (fun r => ruleMatchG pok U r q)).map (fun r => (r.outbound, r.hijack))

def eval := evalG portOk
def evalPinned := evalG portOkPinned

/-! ### the cache key: `{HostInfo.String(), proto, port}`

`HostInfo.String()` is `fmt.Sprintf("%s|%s|%s", Name, IPv4, IPv6)`; `net.IP.String()` prints
`<nil>` for length 0, `?hex` for a length other than 4/16, the dotted quad of `To4()` when that
is non-nil, else the IPv6 text.  The model keeps the case analysis and the bytes that get
printed; that the printing itself is injective is assumed (trusted base). -/

inductive IPKey where
  | nil
  | v4 (b : IP)
  | v6 (b : IP)
  | odd (b : IP)
  deriving DecidableEq, Repr

def ipKey (ip : IP) : IPKey :=
  if ip.length = 0 then .nil
  else if ip.length ≠ 4 ∧ ip.length ≠ 16 then .odd ip
  else match to4 ip with
    | some p => .v4 p
    | none => .v6 ip

structure Key where
  name : Str
  k4 : IPKey
  k6 : IPKey
  proto : Proto
  port : Nat
  deriving DecidableEq, Repr

def key (q : Query) : Key := ⟨normalise q.name, ipKey q.v4, ipKey q.v6, q.proto, q.port⟩

/-! ### `compiledRuleSetImpl.Match` with the LRU as an abstract store -/

abbrev Store := List (Key × Dec)

def lookup (c : Store) (k : Key) : Option Dec := (c.find? (fun e => e.1 == k)).map (·.2)

/-- one `Match` call. `evict` is whatever the cache drops during the call (the LRU's oldest
    entry, nothing, everything: the theorems do not care). -/
def cachedMatchG (pok : Nat → Nat → Nat → Bool) (U : Str → Str) (rules : List Rule)
    (c : Store) (q : Query) (evict : Key → Bool) : Store × Dec :=
  match lookup c (key q) with
  | some r => (c.filter (fun e => !evict e.1), r)
  | none =>
    let r := evalG pok U rules q
    (((key q, r) :: c).filter (fun e => !evict e.1), r)

def cachedMatch := cachedMatchG portOk

/-- a whole lookup history, each call with its own eviction choice -/
def runQueries (U : Str → Str) (rules : List Rule) : Store → List (Query × (Key → Bool)) → List Dec
  | _, [] => []
  | c, (q, ev) :: rest =>
    (cachedMatch U rules c q ev).2 :: runQueries U rules (cachedMatch U rules c q ev).1 rest

/-! ### concurrent lookups

`Match` is called from one goroutine per connection.  The LRU serialises `Get` and `Add`
(its own mutex) but a `Match` call is NOT atomic: between its `Get` miss and its `Add`, other
calls run.  Atomic steps: `get` (the `Cache.Get`; on a miss the thread then walks the immutable
rule list, which involves no shared state) and `add` (the `Cache.Add`, with whatever the LRU
evicts, then return).  A step whose thread is not in the right phase is the identity, so every
list of steps is a schedule. -/

inductive Step where
  | get (t : Nat) (q : Query)
  | add (t : Nat) (evict : Key → Bool)

structure CState where
  store : Store := []
  pending : List (Nat × Query × Dec) := []   -- threads between a `Get` miss and their `Add`
  answers : List (Query × Dec) := []         -- what the finished calls returned

def cstep (pok : Nat → Nat → Nat → Bool) (U : Str → Str) (rules : List Rule)
    (s : CState) : Step → CState
  | .get t q =>
    if s.pending.any (fun p => p.1 == t) then s
    else match lookup s.store (key q) with
      | some d => { s with answers := (q, d) :: s.answers }
      | none => { s with pending := (t, q, evalG pok U rules q) :: s.pending }
  | .add t ev =>
    match s.pending.find? (fun p => p.1 == t) with
    | none => s
    | some (_, q, d) =>
      { store := ((key q, d) :: s.store).filter (fun e => !ev e.1)
        pending := s.pending.filter (fun p => p.1 != t)
        answers := (q, d) :: s.answers }

def crun (pok : Nat → Nat → Nat → Bool) (U : Str → Str) (rules : List Rule)
    (s : CState) (sched : List Step) : CState :=
  sched.foldl (cstep pok U rules) s

/-! ### acl.go: `aclEngine.handle` -/

structure Rewrite where
  host : IP            -- reqAddr.Host = hijackIP.String()  (kept as the IP that is printed)
  r4 : Option IP       -- ResolveInfo.IPv4
  r6 : Option IP       -- ResolveInfo.IPv6
  deriving DecidableEq, Repr

/-- outbound that serves the request and the rewriting of the request address -/
def handle (dflt : Str) (d : Dec) : Str × Option Rewrite :=
  match d with
  | none => (dflt, none)
  | some (ob, none) => (ob, none)
  | some (ob, some h) =>
    (ob, some (match to4 h with
      | some p => ⟨h, some p, none⟩
      | none => ⟨h, none, some h⟩))

/-- `ResolveInfo` of a request (extras/outbounds/interface.go): it can carry an error AND
    addresses (one of the A/AAAA lookups failed, the other did not) -/
structure RInfo where
  v4 : IP
  v6 : IP
  err : Bool
  deriving DecidableEq, Repr

/-- the `acl.HostInfo` that `aclEngine.handle` builds from the request: the name, and BOTH
    addresses of the resolution whenever the request has a `ResolveInfo` at all — the code's
    guard is `reqAddr.ResolveInfo != nil` and nothing else; in particular not `Err == nil` -/
def reqQuery (name : Str) (ri : Option RInfo) (proto : Proto) (port : Nat) : Query :=
  match ri with
  | none => ⟨name, [], [], proto, port⟩
  | some r => ⟨name, r.v4, r.v6, proto, port⟩

/-- one `aclEngine.handle` call: build the HostInfo, `Match` (cached), default / hijack -/
def engineHandle (U : Str → Str) (rules : List Rule) (dflt : Str) (c : Store)
    (name : Str) (ri : Option RInfo) (proto : Proto) (port : Nat) (evict : Key → Bool) :
    Store × Dec × (Str × Option Rewrite) :=
  let r := cachedMatch U rules c (reqQuery name ri proto port) evict
  (r.1, r.2, handle dflt r.2)

/-! ### net.ParseIP / net.ParseCIDR (netip.ParseAddr of Go 1.25, zone ⇒ invalid) -/

def parseV4Field (f : Str) : Option Nat :=
  if f = [] ∨ f.all isDigit = false ∨ (1 < f.length ∧ f.head? = some 48) ∨ 255 < parseDec f then none
  else some (parseDec f)

/-- `parseIPv4Fields` on a whole string: four dot-separated decimal fields 0..255, at least one
    digit each, no leading zero -/
def parseIPv4 (s : Str) : Option (List Nat) :=
  match splitOn 46 s with
  | [a, b, c, d] =>
    match parseV4Field a, parseV4Field b, parseV4Field c, parseV4Field d with
    | some a, some b, some c, some d => some [a, b, c, d]
    | _, _, _, _ => none
  | _ => none

def zeros (n : Nat) : List Nat := List.replicate n 0

/-- the end of `parseIPv6`: whole string used, ellipsis expanded -/
def v6Finish (s : Str) (i : Nat) (acc : List Nat) (ell : Option Nat) : Option IP :=
  if s ≠ [] then none
  else if i < 16 then
    match ell with
    | none => none
    | some e => some (acc.take e ++ zeros (16 - i) ++ acc.drop e)
  else if ell.isSome then none
  else some acc

/-- the main loop of `parseIPv6` (`i` = bytes filled = `acc.length`; at most 8 rounds) -/
def v6Loop : (fuel : Nat) → (s : Str) → (i : Nat) → (acc : List Nat) → (ell : Option Nat) → Option IP
  | 0, s, i, acc, ell => v6Finish s i acc ell
  | fuel + 1, s, i, acc, ell =>
    if 16 ≤ i then v6Finish s i acc ell
    else
      let digits := s.takeWhile isHex
      let off := digits.length
      if 4 < off then none
      else if off = 0 then none
      else
        let rest := s.drop off
        if rest.head? = some 46 then
          if ell.isNone ∧ i ≠ 12 then none
          else if 16 < i + 4 then none
          else match parseIPv4 s with
            | none => none
            | some f => v6Finish [] (i + 4) (acc ++ f) ell
        else
          let v := parseHex digits
          let acc := acc ++ [v / 256, v % 256]
          let i := i + 2
          match rest with
          | [] => v6Finish [] i acc ell
          | c :: s1 =>
            if c ≠ 58 then none
            else match s1 with
              | [] => none
              | c2 :: s2 =>
                if c2 = 58 then
                  if ell.isSome then none
                  else match s2 with
                    | [] => v6Finish [] i acc (some i)
                    | _ => v6Loop fuel s2 i acc (some i)
                else v6Loop fuel s1 i acc ell

def parseIPv6 (s : Str) : Option IP :=
  if s.contains 37 then none            -- '%': empty zone is an error, a zone is refused by net.ParseIP
  else match s with
    | 58 :: 58 :: rest =>
      match rest with
      | [] => some (zeros 16)
      | _ => v6Loop 9 rest 0 [] (some 0)
    | _ => v6Loop 9 s 0 [] none

/-- `netip.ParseAddr` as used by net.ParseIP/ParseCIDR: the first of `.` `:` `%` decides.
    Result: (is the 4-byte kind, 16-byte form) -/
def parseAddr (s : Str) : Option (Bool × IP) :=
  match s.find? (fun c => c == 46 || c == 58 || c == 37) with
  | some 46 => (parseIPv4 s).map (fun f => (true, v4InV6Prefix ++ f))
  | some 58 => (parseIPv6 s).map (fun a => (false, a))
  | _ => none

/-- `net.ParseIP` (always the 16-byte form) -/
def parseIP (s : Str) : Option IP := (parseAddr s).map (·.2)

def maskByte (k : Nat) : Nat := 256 - 2 ^ (8 - k)

/-- `net.CIDRMask(ones, 8 * n)` -/
def cidrMask (ones : Nat) : (n : Nat) → List Nat
  | 0 => []
  | n + 1 => maskByte (min ones 8) :: cidrMask (ones - 8) n

def andBytes : List Nat → List Nat → List Nat
  | a :: as, b :: bs => (a &&& b) :: andBytes as bs
  | _, _ => []

/-- `net.ParseCIDR`: the `*IPNet` (network number, mask) -/
def parseCIDR (s : Str) : Option (IP × IP) :=
  match cut 47 s with
  | none => none
  | some (a, m) =>
    match parseAddr a with
    | none => none
    | some (is4, ip16) =>
      let bits := if is4 then 32 else 128
      if m = [] ∨ m.all isDigit = false ∨ bits < parseDec m then none
      else
        let mask := cidrMask (parseDec m) (bits / 8)
        let ip := if is4 then ip16.drop 12 else ip16
        some (andBytes ip mask, mask)

/-! ### compile.go: parseProtoPort, compileHostMatcher, Compile -/

/-- the `switch parts[0]` of `parseProtoPort` (after `strings.ToLower`) -/
def protoOfTok (a : Str) : Option Proto :=
  if a = cTcp then some .tcp else if a = cUdp then some .udp
  else if a = cStar then some .both else none

/-- the port half of `parseProtoPort`: `*`, a single port, or `lo-hi`.  Note the code's
    asymmetry: the range is cut out of the TRIMMED text, a single port is parsed untrimmed. -/
def parsePorts (b : Str) : Option (Nat × Nat) :=
  if b = cStar then some (0, 0)
  else match cut 45 (trimSpace b) with
    | none =>
      match parseU16 b with
      | some p => some (p, p)
      | none => none
    | some (x, y) =>
      match parseU16 x, parseU16 y with
      | some lo, some hi => if hi < lo then none else some (lo, hi)
      | _, _ => none

/-- `parseProtoPort`: (protocol, start, end) or `none` for `ok == false` -/
def parseProtoPort (protoPort : Str) : Option (Proto × Nat × Nat) :=
  let pp := toLower protoPort
  if pp = [] ∨ pp = cStar ∨ pp = cStarSlashStar then some (.both, 0, 0)
  else match cut 47 pp with
    | none =>
      if pp = cTcp then some (.tcp, 0, 0)
      else if pp = cUdp then some (.udp, 0, 0)
      else none
    | some (a, b) =>
      match protoOfTok a, parsePorts b with
      | some proto, some (s, e) => some (proto, s, e)
      | _, _ => none

inductive HM where
  | ok (m : Matcher)
  | err            -- compileHostMatcher returned an error string
  | unsupported    -- geoip: / geosite: (outside the model)
  deriving DecidableEq, Repr

/-- `compileHostMatcher`: classification of the address field, in the order of the code -/
def compileHostMatcher (address : Str) : HM :=
  let addr := normalise address
  if addr = cStar ∨ addr = cAll then .ok .all
  else if cGeoip.isPrefixOf addr then .unsupported
  else if cGeosite.isPrefixOf addr then .unsupported
  else if cSuffix.isPrefixOf addr then
    (if addr.drop 7 = [] then .err else .ok (.suffix (addr.drop 7)))
  else if addr.contains 47 then
    match parseCIDR addr with
    | some (n, m) => .ok (.cidr n m)
    | none => .err
  else match parseIP addr with
    | some ip => .ok (.ip ip)
    | none => if addr.contains 42 then .ok (.wildcard addr) else .ok (.exact addr)

/-! ### parse.go -/

structure TextRule where
  outbound : Str
  address : Str
  protoPort : Str
  hijack : Str
  line : Nat
  deriving DecidableEq, Repr

/-- `parseLine`: the regexp `^(\w+)\s*\(([^,]+)(?:,([^,]+))?(?:,([^,]+))?\)$` on a trimmed,
    comment-free line.  Its match is unique: maximal word prefix, blanks, `(`, then up to the
    LAST character (which must be `)`) one to three non-empty comma-free fields. -/
def parseLine (line : Str) (num : Nat) : Option TextRule :=
  let name := line.takeWhile isWord
  if name = [] then none
  else match (line.dropWhile isWord).dropWhile isReSpace with
    | 40 :: r =>
      if r.getLast? ≠ some 41 then none
      else
        let parts := splitOn 44 r.dropLast
        if parts.any (· == []) then none
        else match parts with
          | [a] => some ⟨name, trimSpace a, [], [], num⟩
          | [a, b] => some ⟨name, trimSpace a, trimSpace b, [], num⟩
          | [a, b, c] => some ⟨name, trimSpace a, trimSpace b, trimSpace c, num⟩
          | _ => none
    | _ => none

/-- outcome of the text front end -/
inductive Front (α : Type) where
  | ok (a : α)
  | syntaxErr (line : Nat)
  | compileErr (line : Nat) (what : Nat)   -- 1 outbound, 2 address, 3 proto/port, 4 hijack
  | unsupported (line : Nat)
  deriving DecidableEq, Repr

/-- the loop of `ParseTextRules` over the lines (`num` = number of the line before `lines`) -/
def parseLines : List Str → Nat → Front (List TextRule)
  | [], _ => .ok []
  | l :: ls, num =>
    let line := trimSpace (l.takeWhile (· != 35))
    if line = [] then parseLines ls (num + 1)
    else match parseLine line (num + 1) with
      | none => .syntaxErr (num + 1)
      | some r =>
        match parseLines ls (num + 1) with
        | .ok rs => .ok (r :: rs)
        | e => e

def parseTextRules (text : Str) : Front (List TextRule) := parseLines (splitOn 10 text) 0

def lookupOutbound (obs : List (Str × Str)) (name : Str) : Option Str :=
  (obs.find? (fun e => e.1 == name)).map (·.2)

/-- one iteration of the loop of `Compile`; `obs` = the outbounds map (name ↦ identity) -/
def compileRule (obs : List (Str × Str)) (t : TextRule) : Front Rule :=
  match lookupOutbound obs (toLower t.outbound) with
  | none => .compileErr t.line 1
  | some ob =>
    match compileHostMatcher t.address with
    | .err => .compileErr t.line 2
    | .unsupported => .unsupported t.line
    | .ok m =>
      match parseProtoPort t.protoPort with
      | none => .compileErr t.line 3
      | some (proto, s, e) =>
        if t.hijack = [] then .ok ⟨ob, m, proto, s, e, none⟩
        else match parseIP t.hijack with
          | none => .compileErr t.line 4
          | some h => .ok ⟨ob, m, proto, s, e, some h⟩

def compile (obs : List (Str × Str)) : List TextRule → Front (List Rule)
  | [] => .ok []
  | t :: ts =>
    match compileRule obs t with
    | .ok r =>
      (match compile obs ts with
       | .ok rs => .ok (r :: rs)
       | e => e)
    | .syntaxErr n => .syntaxErr n
    | .compileErr n w => .compileErr n w
    | .unsupported n => .unsupported n

/-- `ParseTextRules` then `Compile` (what `NewACLEngineFromString` does) -/
def loadRules (obs : List (Str × Str)) (text : Str) : Front (List Rule) :=
  match parseTextRules text with
  | .ok ts => compile obs ts
  | .syntaxErr n => .syntaxErr n
  | .compileErr n w => .compileErr n w
  | .unsupported n => .unsupported n

def isAscii (s : Str) : Bool := s.all (· < 128)

end Hy.Acl
