/-
  Model of app/internal/http/server.go: the `dispatch` loop, the Proxy-Authorization
  check, CONNECT vs plain request, and `cachedConn` (buffered bytes first, then the conn)
  as a stream transformer under every sequence of read sizes.

  net/http is NOT modelled: `http.ReadRequest(bufReader)` is an ORACLE. One `Req` is what
  one call returned together with the state it left behind: method (CONNECT or not),
  URL.Hostname()/URL.Port(), the Proxy-Authorization header value, the bytes still
  buffered in the bufio.Reader, the chunks not yet read from the conn, and for plain
  requests what net/http derives from the request (dial address, keep-alive, URL ok).
  The loop is driven by the LIST of the oracle's successive results; the list ending =
  ReadRequest returning an error. Environment choices (dial result) are fields too.
  Theorems quantify over every such list, so over every behaviour of the parser.
  Core Lean only.
-/
import Hy.Model.Conn
namespace Hy.HttpIn
open Hy Hy.Conn

def ascii (s : String) : Bytes := s.toList.map (fun ch => byte ch.toNat)

/-! ### base64.StdEncoding.DecodeString (padding '=', non-strict trailing bits;
    header values contain no CR/LF, so the skip-newline rule never applies) -/
def b64val (b : Byte) : Option Nat :=
  let n := b.val
  if 65 ≤ n ∧ n ≤ 90 then some (n - 65)
  else if 97 ≤ n ∧ n ≤ 122 then some (n - 71)
  else if 48 ≤ n ∧ n ≤ 57 then some (n + 4)
  else if n = 43 then some 62
  else if n = 47 then some 63
  else none

def b64decode : Bytes → Option Bytes
  | [] => some []
  | [a, b, c, d] =>
    match b64val a, b64val b with
    | some x, some y =>
      if c.val = 61 ∧ d.val = 61 then some [byte (x * 4 + y / 16)]
      else match b64val c with
        | none => none
        | some z =>
          if d.val = 61 then some [byte (x * 4 + y / 16), byte (y % 16 * 16 + z / 4)]
          else match b64val d with
            | none => none
            | some w => some [byte (x * 4 + y / 16), byte (y % 16 * 16 + z / 4), byte (z % 4 * 64 + w)]
    | _, _ => none
  | a :: b :: c :: d :: rest =>
    match b64val a, b64val b, b64val c, b64val d, b64decode rest with
    | some x, some y, some z, some w, some r =>
      some (byte (x * 4 + y / 16) :: byte (y % 16 * 16 + z / 4) :: byte (z % 4 * 64 + w) :: r)
    | _, _, _, _, _ => none
  | _ => none

/-- strings.SplitN(s, ":", 2) with len == 2: split at the first ':' -/
def splitColon : Bytes → Option (Bytes × Bytes)
  | [] => none
  | b :: r =>
    if b.val = 58 then some ([], r)
    else match splitColon r with
      | some (u, p) => some (b :: u, p)
      | none => none

def asciiLower (b : Byte) : Byte := if 65 ≤ b.val ∧ b.val ≤ 90 then byte (b.val + 32) else b

inductive Eff where
  | authCall (u p : Bytes) (r : Bool)   -- s.AuthFunc(u, p) returned r
  | status (code : Nat)                 -- a response with this status code written to the client
  | hyTCP (addr : Bytes)                -- s.HyClient.TCP(addr)
  | upstream (bs : Bytes)               -- what the upstream conn received from io.Copy(rConn, conn)
  | close                               -- conn.Close()
  deriving DecidableEq, Repr

/-- the credentials a Proxy-Authorization value carries, as server.go:61-66 extracts them -/
def credsOf (pauth : Bytes) : Option (Bytes × Bytes) :=
  if (pauth.take 6).map asciiLower = ascii "basic " then
    match b64decode (pauth.drop 6) with
    | none => none
    | some up => splitColon up
  else none

/-- server.go:58-77: (effects, authOK) -/
def checkAuth (auth : Bytes → Bytes → Bool) (pauth : Bytes) : List Eff × Bool :=
  match credsOf pauth with
  | none => ([], false)
  | some (u, p) => ([.authCall u p (auth u p)], auth u p)

/-! ### cachedConn -/
structure Cached where
  buf : Bytes          -- cachedConn.Buffer
  conn : Stream        -- the embedded net.Conn
  deriving DecidableEq, Repr

def Cached.pending (s : Cached) : Bytes := s.buf ++ s.conn.flatten

/-- cachedConn.Read with a buffer of n bytes -/
def Cached.read (n : Nat) (s : Cached) : Bytes × Cached :=
  if s.buf.length > 0 then (s.buf.take n, { s with buf := s.buf.drop n })
  else let r := readC n s.conn; (r.1, { s with conn := r.2 })

def Cached.reads : List Nat → Cached → List Bytes × Cached
  | [], s => ([], s)
  | n :: ns, s =>
    let r := s.read n
    let rr := Cached.reads ns r.2
    (r.1 :: rr.1, rr.2)

/-- number of 32 KiB reads after which io.Copy has certainly reached the end of the stream -/
def Cached.fuel (s : Cached) : Nat := s.buf.length + (s.conn.map (fun c => c.length + 1)).sum

/-- io.Copy(rConn, conn): 32 KiB reads until EOF; everything read is written upstream -/
def relayAll (s : Cached) : Bytes := (Cached.reads (List.replicate s.fuel 32768) s).1.flatten

/-! ### the dispatch loop -/
structure Req where
  isConnect : Bool
  host : Bytes := []       -- CONNECT: req.URL.Hostname()
  port : Bytes := []       -- CONNECT: req.URL.Port()
  pauth : Bytes := []      -- req.Header.Get("Proxy-Authorization")
  buffered : Bytes := []   -- bufReader's unread bytes after ReadRequest (req.Body is never read or closed
                           -- on the CONNECT path, so a declared body is part of these bytes)
  connRest : Stream := []  -- chunks the conn still holds
  urlOk : Bool := true     -- plain: URL.Scheme != "" && URL.Host != ""
  dials : Bool := true     -- plain: net/http accepts the URL (scheme http/https) and goes on to dial
  dialAddr : Bytes := []   -- plain: the address net/http's Transport dials for this request
  keepAlive : Bool := false  -- plain: HTTP/1.1 and (Proxy-)Connection: keep-alive
  dialOk : Bool := true    -- environment: HyClient.TCP succeeds (and the upstream answers 200)
  deriving DecidableEq, Repr

structure Cfg where
  authSet : Bool
  auth : Bytes → Bytes → Bool

def joinHostPort (host port : Bytes) : Bytes :=
  if host.any (fun b => b.val == 58) then ascii "[" ++ host ++ ascii "]:" ++ port
  else host ++ ascii ":" ++ port

/-- handleConnect's reqAddr (server.go:140-145) -/
def connectAddr (r : Req) : Bytes := joinHostPort r.host (if r.port = [] then ascii "80" else r.port)

/-- handleConnect, after the cachedConn decision of dispatch (server.go:78-98) -/
def handleConnect (r : Req) : List Eff :=
  .hyTCP (connectAddr r) ::
    (if r.dialOk then
      [.status 200,
       .upstream (if r.buffered.length > 0 then relayAll { buf := r.buffered, conn := r.connRest }
                  else relayAll { buf := [], conn := r.connRest }),
       .close]
     else [.status 502, .close])

/-- handleRequest: (effects, keepAlive) -/
def handleRequest (r : Req) : List Eff × Bool :=
  if ¬ r.urlOk then ([.status 400], false)
  else if ¬ r.dials then ([.status 502], false)
  else if r.dialOk then ([.hyTCP r.dialAddr, .status 200], r.keepAlive)
  else ([.hyTCP r.dialAddr, .status 502], false)

/-- one iteration of the loop: (effects, continue?) -/
def iter (c : Cfg) (r : Req) : List Eff × Bool :=
  let a := if c.authSet then checkAuth c.auth r.pauth else ([], true)
  if ¬ a.2 then (a.1 ++ [.status 407, .close], false)
  else if r.isConnect then (a.1 ++ handleConnect r, false)
  else
    let h := handleRequest r
    if h.2 then (a.1 ++ h.1, true) else (a.1 ++ h.1 ++ [.close], false)

/-- `Server.dispatch(conn)`; the list ends when ReadRequest fails -/
def dispatch (c : Cfg) : List Req → List Eff
  | [] => [.close]
  | r :: rs =>
    let i := iter c r
    if i.2 then i.1 ++ dispatch c rs else i.1

end Hy.HttpIn
