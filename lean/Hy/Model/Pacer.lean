/-
  Model of core/internal/congestion/common/pacer.go (the token bucket used by Brutal).

  The model follows the Go code operation by operation with Go's integer semantics:
  `congestion.ByteCount`, `monotime.Time` and `time.Duration` are int64, so every
  product/sum/difference is wrapped (`wrap64`), `/` on int64 is truncated division
  (`Int.tdiv`), the arithmetic inside TimeUntilSend is on uint64 (`wrapU64`, ordinary
  division of non-negative numbers) and a zero divisor is a Go runtime panic.
  `getBandwidth()` is a function of the environment (for Brutal: ⌊bps / ackRate⌋ computed
  in float64): every operation that calls it takes the value returned as the argument `bw`.

  Time is an int64 count of nanoseconds; `lastSentTime = 0` is `monotime.Time.IsZero()`
  ("nothing sent yet"), exactly as in the Go code.

  The theorems (Hy.Props.C11) carry explicit range hypotheses under which no wrap occurs
  ("rate × gap fits 63 bits"); the executable model itself wraps like the code does, so
  the differential agrees outside that range too.
-/
import Hy.Base.Res
import Hy.Gen.Core
namespace Hy.Pacer
open Hy

/-- int64 wrap-around of a mathematical integer -/
def wrap64 (x : Int) : Int :=
  (x + 9223372036854775808) % 18446744073709551616 - 9223372036854775808

/-- uint64 wrap-around (also the int64 → uint64 conversion) -/
def wrapU64 (x : Int) : Int := x % 18446744073709551616

/-- `congestion.ByteCount(1<<62 - 1)`, the value Budget substitutes for a negative sum -/
def overflowBudget : Int := 4611686018427387903

structure Pacer where
  budgetAtLastSent : Int
  maxDatagramSize : Int
  lastSentTime : Int
  deriving Repr, DecidableEq, Inhabited

/-- NewPacer (pacer.go:23-30); both products are Go constant expressions -/
def new : Pacer :=
  { budgetAtLastSent := (Gen.maxBurstPackets * Gen.InitialPacketSize : Nat)
    maxDatagramSize := (Gen.InitialPacketSize : Nat)
    lastSentTime := 0 }

/-- `(maxBurstPacingDelayMultiplier * MinPacingDelay).Nanoseconds()`, a constant -/
def burstNs : Int := (Gen.maxBurstPacingDelayMultiplier * Gen.MinPacingDelayNs : Nat)

/-- maxBurstSize (pacer.go:55-60) -/
def maxBurstSize (p : Pacer) (bw : Int) : Int :=
  max (Int.tdiv (wrap64 (burstNs * bw)) 1000000000)
      (wrap64 ((Gen.maxBurstPackets : Nat) * p.maxDatagramSize))

/-- Budget (pacer.go:42-53) -/
def budget (p : Pacer) (bw now : Int) : Int :=
  if p.lastSentTime = 0 then maxBurstSize p bw
  else
    let dt := wrap64 (now - p.lastSentTime)
    let b := wrap64 (p.budgetAtLastSent + Int.tdiv (wrap64 (bw * dt)) 1000000000)
    let b := if b < 0 then overflowBudget else b
    min (maxBurstSize p bw) b

/-- SentPacket (pacer.go:32-40) -/
def sentPacket (p : Pacer) (bw sendTime size : Int) : Pacer :=
  let b := budget p bw sendTime
  { p with
    budgetAtLastSent := if size > b then 0 else wrap64 (b - size)
    lastSentTime := sendTime }

/-- the integer ceiling division of TimeUntilSend (pacer.go:68-75), on uint64 -/
def ceilDivU (diff bw : Int) : Int :=
  let d := diff / bw
  if diff % bw > 0 then wrapU64 (d + 1) else d

/-- TimeUntilSend (pacer.go:62-76); `0` is "send immediately"; a zero bandwidth is an
    integer division by zero -/
def timeUntilSend (p : Pacer) (bw : Int) : Res Int :=
  if p.budgetAtLastSent ≥ p.maxDatagramSize then .ok 0
  else
    let diff := wrapU64 (1000000000 * wrapU64 (wrap64 (p.maxDatagramSize - p.budgetAtLastSent)))
    let bwu := wrapU64 bw
    if bwu = 0 then .panic
    else
      let d := wrap64 (ceilDivU diff bwu)            -- time.Duration(d) * time.Nanosecond
      .ok (wrap64 (p.lastSentTime + max ((Gen.MinPacingDelayNs : Nat) : Int) d))

/-- SetMaxDatagramSize (pacer.go:78-80) -/
def setMaxDatagramSize (p : Pacer) (s : Int) : Pacer := { p with maxDatagramSize := s }

end Hy.Pacer
