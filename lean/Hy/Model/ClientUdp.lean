/-
  Model of the client's UDP receive side (core/client/udp.go): `udpSessionManager` with its session
  table, `feed` (a reply arriving from the server), `NewUDP`, `udpConn.Close` / `close`, and
  `closeCleanup` (the receive loop ended).  C03: "replies arriving at a client" must not panic.

  The one fault site is the channel send in `feed`: a send on a CLOSED channel panics in Go.  The model
  makes it explicit: every session ever created is kept (the application holds the handle), with
  `inMap` (still in `m.m`), `chanOpen` (ReceiveCh not closed) and `closedFlag` (`conn.Closed`).
  Every operation is one critical section of `m.mutex` (regenerated facts `Hy.Gen.c03_*`:
  the send in `feed` lies inside the RLock region; `close` is only called with the lock held).
-/
import Hy.Base.Res
namespace Hy.ClientUdp

structure Conn where
  id : Nat
  queued : Nat
  inMap : Bool
  chanOpen : Bool
  closedFlag : Bool
deriving Repr, DecidableEq

structure St where
  chanSize : Nat
  conns : List Conn
  nextID : Nat
  closed : Bool
deriving Repr

def init (chanSize : Nat) : St := { chanSize, conns := [], nextID := 1, closed := false }

inductive Op where
  | new
  | feed (id : Nat)
  | recv (id : Nat)
  | close (id : Nat)
  | closeAll
  | race (rounds : Nat)     -- `rounds` fresh sessions, each fed and closed concurrently (harness schedule)
deriving Repr

inductive Out where
  | newId (id : Nat) | mgrClosed
  | unknown | deliver | drop
  | msg | empty | eof | noSuch
  | ok
  | panic                    -- send on closed channel
deriving Repr, DecidableEq

/-- `m.close(conn)` -/
def closeConn (c : Conn) : Conn :=
  if c.closedFlag then c else { c with closedFlag := true, chanOpen := false, inMap := false }

def lookup (s : St) (id : Nat) : Option Conn := s.conns.find? (fun c => c.inMap && c.id == id)

def step (s : St) : Op → St × Out
  | .new =>
    if s.closed then (s, .mgrClosed)
    else ({ s with conns := s.conns ++ [{ id := s.nextID, queued := 0, inMap := true, chanOpen := true, closedFlag := false }],
                   nextID := s.nextID + 1 }, .newId s.nextID)
  | .feed id =>
    match lookup s id with
    | none => (s, .unknown)
    | some c =>
      if !c.chanOpen then (s, .panic)
      else if c.queued < s.chanSize then
        ({ s with conns := s.conns.map (fun d => if d.inMap && d.id == id then { d with queued := d.queued + 1 } else d) }, .deliver)
      else (s, .drop)
  | .recv id =>
    match s.conns.find? (fun c => c.id == id) with
    | none => (s, .noSuch)
    | some c =>
      if c.queued > 0 then
        ({ s with conns := s.conns.map (fun d => if d.id == id then { d with queued := d.queued - 1 } else d) }, .msg)
      else if c.chanOpen then (s, .empty) else (s, .eof)
  | .close id =>
    match s.conns.find? (fun c => c.id == id) with
    | none => (s, .noSuch)
    | some _ => ({ s with conns := s.conns.map (fun d => if d.id == id then closeConn d else d) }, .ok)
  | .closeAll =>
    ({ s with conns := s.conns.map (fun d => if d.inMap then closeConn d else d), closed := true }, .ok)
  | .race n =>
    if s.closed then (s, .mgrClosed) else ({ s with nextID := s.nextID + n }, .ok)

def run (s : St) : List Op → St × List Out
  | [] => (s, [])
  | o :: os => let (s1, out) := step s o; let (s2, outs) := run s1 os; (s2, out :: outs)

/-- the invariant that makes `feed` total: whatever is in the table has an open channel -/
def Inv (s : St) : Prop := ∀ c ∈ s.conns, c.inMap = true → c.chanOpen = true

end Hy.ClientUdp
