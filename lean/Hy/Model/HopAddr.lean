/-
  Executable model of extras/transport/udphop/addr.go (C19): ResolveUDPHopAddr,
  UDPHopAddr.addrs / String / Network, and of the two net functions it is built from that
  are pure string functions: net.SplitHostPort and net.JoinHostPort.  Core Lean only.

  Strings are `List Char` (byte b = Char.ofNat b, as in Hy.Model.PortUnion).
  `net.ResolveIPAddr("ip", host)` (literal parsing, /etc/hosts, DNS) and `net.IP.String()`
  are PARAMETERS of the model (`resolve`, `ipText`); the harness records what they returned
  and passes it on the model-op line.
-/
import Hy.Base.Bytes
import Hy.Model.PortUnion
namespace Hy.HopAddr
open Hy

/-- an IP address as the bytes of the `net.IP` slice (empty = nil) -/
abbrev IP := Bytes
/-- a UDP destination: (IP, port) -/
abbrev Dest := IP × Nat

/-! ### net.SplitHostPort -/

inductive SplitErr where
  | missingPort | tooManyColons | missingBracket | unexpectedOpen | unexpectedClose
deriving DecidableEq, Repr

/-- bytealg.IndexByteString -/
def idxOf (c : Char) : List Char → Option Nat
  | [] => none
  | x :: xs => if x = c then some 0 else (idxOf c xs).map (· + 1)

/-- bytealg.LastIndexByteString -/
def lastIdxOf (c : Char) : List Char → Option Nat
  | [] => none
  | x :: xs =>
    match lastIdxOf c xs with
    | some i => some (i + 1)
    | none => if x = c then some 0 else none

def splitHostPort (hp : List Char) : Except SplitErr (List Char × List Char) :=
  match lastIdxOf ':' hp with
  | none => .error .missingPort
  | some i =>
    if hp.head? = some '[' then
      match idxOf ']' hp with
      | none => .error .missingBracket
      | some e =>
        if e + 1 = hp.length then .error .missingPort
        else if e + 1 = i then
          -- host = hostport[1:end]; j, k = 1, end+1
          if (idxOf '[' (hp.drop 1)).isSome then .error .unexpectedOpen
          else if (idxOf ']' (hp.drop (e + 1))).isSome then .error .unexpectedClose
          else .ok ((hp.take e).drop 1, hp.drop (i + 1))
        else if hp[e + 1]? = some ':' then .error .tooManyColons
        else .error .missingPort
    else
      let host := hp.take i
      if (idxOf ':' host).isSome then .error .tooManyColons
      else if (idxOf '[' hp).isSome then .error .unexpectedOpen
      else if (idxOf ']' hp).isSome then .error .unexpectedClose
      else .ok (host, hp.drop (i + 1))

/-- net.JoinHostPort -/
def joinHostPort (host port : List Char) : List Char :=
  if (idxOf ':' host).isSome then '[' :: host ++ ']' :: ':' :: port else host ++ ':' :: port

/-! ### UDPHopAddr -/

structure HopAddr where
  ip : IP
  ports : List Nat
  portStr : List Char
deriving DecidableEq, Repr

inductive ResolveErr where
  | split (e : SplitErr)     -- net.SplitHostPort failed
  | resolve                  -- net.ResolveIPAddr failed
  | badPort                  -- InvalidPortError{portStr}
deriving DecidableEq, Repr

/-- ResolveUDPHopAddr(addr).  `resolve host` = what net.ResolveIPAddr("ip", host) returns
    (none = error). -/
def resolveUDPHopAddr (resolve : List Char → Option IP) (addr : List Char) : Except ResolveErr HopAddr :=
  match splitHostPort addr with
  | .error e => .error (.split e)
  | .ok (host, portStr) =>
    match resolve host with
    | none => .error .resolve
    | some ip =>
      match PortUnion.parseChars portStr with
      | none => .error .badPort
      | some u => .ok { ip := ip, ports := PortUnion.ports u, portStr := portStr }

/-- `addrs()`: one `&net.UDPAddr{IP: a.IP, Port: int(port)}` per port, in order (never fails) -/
def addrs (a : HopAddr) : List Dest := a.ports.map fun p => (a.ip, p)

def network : String := "udphop"

/-- `String()`: net.JoinHostPort(a.IP.String(), a.PortStr) -/
def toText (ipText : IP → List Char) (a : HopAddr) : List Char := joinHostPort (ipText a.ip) a.portStr

end Hy.HopAddr
