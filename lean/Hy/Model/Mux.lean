/-
  Model of app/internal/proxymux/mux.go.

  1. `connWithOneByte` as a stream transformer (`OneByte`): reads with ANY sequence of
     buffer sizes, zero-length buffers included.
  2. The mux as a transition system. Every goroutine of mux.go is cut into atomic steps
     (one lock region / one channel operation / one call to the environment); a `Label`
     names one such step of one goroutine; `step` is the identity on a label that is not
     enabled, so every `List Label` is a schedule and "every interleaving of registration,
     close, arrival and dispatch" is `∀ sched`.

       acceptLoop : baseAccept c | baseAcceptErr → handToMain | aloopQuit
       mainLoop   : (handToMain) | mainSeesSubClosed k | mainSeesAcceptClosed → exitA → exitB
       dispatch c : firstByte c b | readFail c → pick c → deliver c | dropClosed c | sendPanic c
       API calls  : listen k (ListenSOCKS / ListenHTTP), closeSub t (subListener.Close)

     The model is parametrised by a `Variant` saying, for the three places where the pinned
     tree is defective, what the code does there; `fixed` is the tree with fixes/D6.patch,
     fixes/D7.patch and fixes/D13.patch applied (theorems), `pinned` the tree as found
     (`decide`d counterexamples).

  Abstraction notes (all are sound for safety: every behaviour of the code is a behaviour
  of the model): mainLoop's "capture the close channels, then select" is merged into
  `mainSeesSubClosed`, enabled whenever the registered sub-listener of that kind is closed
  (a capture that has been replaced by a newer registration makes the real step a no-op);
  the hand-over acceptLoop → mainLoop → `go dispatch` is one step.
  Core Lean only.
-/
import Hy.Model.Conn
namespace Hy.Mux
open Hy Hy.Conn

/-! ## connWithOneByte -/
structure OneByte where
  b : Byte
  bRead : Bool
  conn : Stream
  deriving DecidableEq, Repr

/-- connWithOneByte.Read with a buffer of n bytes -/
def OneByte.read (n : Nat) (s : OneByte) : Bytes × OneByte :=
  if s.bRead then let r := readC n s.conn; (r.1, { s with conn := r.2 })
  else if n = 0 then ([], s)
  else ([s.b], { s with bRead := true })

def OneByte.reads : List Nat → OneByte → List Bytes × OneByte
  | [], s => ([], s)
  | n :: ns, s =>
    let r := s.read n
    let rr := OneByte.reads ns r.2
    (r.1 :: rr.1, rr.2)

/-- what the reader of the wrapper has still to receive -/
def OneByte.pending (s : OneByte) : Bytes := (if s.bRead then [] else [s.b]) ++ s.conn.flatten

/-! ## the mux -/
inductive Kind where
  | socks | http
  deriving DecidableEq, Repr

/-- dispatch's routing rule (mux.go:127-131) -/
def route (b : Byte) : Kind := if b.val = 5 then .socks else .http

inductive CStat where
  | fresh                         -- not yet returned by base.Accept
  | held                          -- in acceptLoop's hand: select { <-l.closeChan | l.acceptChan <- conn }
  | reading                       -- dispatch: io.ReadFull(conn, b[:])
  | got (b : Byte)                -- first byte read, before the lock region
  | pending (b : Byte) (t : Nat)  -- select { <-target.closeChan | target.acceptChan <- wconn }
  | delivered (b : Byte) (t : Nat)  -- received by sub-listener t's Accept as connWithOneByte{b}
  | closed                        -- conn.Close() by the mux
  | leaked                        -- the goroutine returned: neither delivered nor closed
  deriving DecidableEq, Repr

structure Sub where
  kind : Kind
  closed : Bool := false       -- closeChan closed
  chanClosed : Bool := false   -- acceptChan closed (pinned exit path)
  deriving DecidableEq, Repr

inductive Phase where
  | running       -- mainLoop in its for/select
  | exiting       -- mainLoop returned; deferred function not yet at close(l.closeChan)
  | chanClosed    -- l.closeChan closed (deleteFunc and base.Close() done)
  | exited        -- sub-listeners notified, slots cleared
  deriving DecidableEq, Repr

inductive ALoop where
  | idle | holding (c : Nat) | done
  deriving DecidableEq, Repr

inductive ListenRes where
  | ok (t : Nat) | inUse | errClosed
  deriving DecidableEq, Repr

inductive Ev where
  | delivered (c : Nat) (t : Nat)
  | closed (c : Nat)
  | listen (k : Kind) (r : ListenRes)
  deriving DecidableEq, Repr

structure Variant where
  closeOnDrop : Bool    -- D6: dispatch closes the conn in the `<-target.closeChan` branch
  closeOnQuit : Bool    -- D13: acceptLoop closes the conn it holds in the `<-l.closeChan` branch
  exitClosesSub : Bool  -- D7: the exit path calls sl.Close() instead of close(sl.acceptChan)
  deriving DecidableEq, Repr

def fixed : Variant := ⟨true, true, true⟩
def pinned : Variant := ⟨false, false, false⟩

structure St where
  subs : List Sub := []          -- every sub-listener ever created; id = index
  socks : Option Nat := none     -- l.socksListener
  http : Option Nat := none      -- l.httpListener
  phase : Phase := .running
  aloop : ALoop := .idle
  conn : Nat → CStat := fun _ => .fresh
  panicked : Bool := false
  log : List Ev := []            -- newest first

def init : St := {}

inductive Label where
  | listen (k : Kind)
  | closeSub (t : Nat)
  | baseAccept (c : Nat)
  | baseAcceptErr
  | handToMain
  | aloopQuit
  | firstByte (c : Nat) (b : Byte)
  | readFail (c : Nat)
  | pick (c : Nat)
  | deliver (c : Nat)
  | dropClosed (c : Nat)
  | sendPanic (c : Nat)
  | mainSeesSubClosed (k : Kind)
  | mainSeesAcceptClosed
  | exitA
  | exitB
  deriving DecidableEq, Repr

def St.slot (s : St) : Kind → Option Nat
  | .socks => s.socks
  | .http => s.http

def St.setSlot (s : St) (k : Kind) (v : Option Nat) : St :=
  match k with
  | .socks => { s with socks := v }
  | .http => { s with http := v }

def St.setConn (s : St) (c : Nat) (v : CStat) : St :=
  { s with conn := fun i => if i = c then v else s.conn i }

def St.setAloop (s : St) (a : ALoop) : St := { s with aloop := a }
def St.setPhase (s : St) (p : Phase) : St := { s with phase := p }
def St.setSubs (s : St) (subs : List Sub) : St := { s with subs := subs }
def St.addLog (s : St) (e : Ev) : St := { s with log := e :: s.log }
def St.setPanicked (s : St) : St := { s with panicked := true }

def subClosed (subs : List Sub) (t : Nat) : Bool :=
  match subs[t]? with
  | some sb => sb.closed
  | none => false

def subChanClosed (subs : List Sub) (t : Nat) : Bool :=
  match subs[t]? with
  | some sb => sb.chanClosed
  | none => false

/-- `close(closeChan)` of sub-listener t -/
def markClosed (subs : List Sub) (t : Nat) : List Sub :=
  subs.modify t (fun sb => { sb with closed := true })

def markChanClosed (subs : List Sub) (t : Nat) : List Sub :=
  subs.modify t (fun sb => { sb with chanClosed := true })

def notify (v : Variant) (subs : List Sub) : Option Nat → List Sub
  | none => subs
  | some t => if v.exitClosesSub then markClosed subs t else markChanClosed subs t

/-- ListenSOCKS / ListenHTTP (one lock region) -/
def listen (s : St) (k : Kind) : St :=
  let inUse : Bool := match s.slot k with
    | some t => !subClosed s.subs t
    | none => false
  if inUse then s.addLog (.listen k .inUse)
  else if s.phase = .chanClosed ∨ s.phase = .exited then (s.setSlot k none).addLog (.listen k .errClosed)
  else
    ((s.setSubs (s.subs ++ [({ kind := k } : Sub)])).setSlot k (some s.subs.length)).addLog
      (.listen k (.ok s.subs.length))

def step (v : Variant) (s : St) : Label → St
  | .listen k => listen s k
  | .closeSub t => s.setSubs (markClosed s.subs t)
  | .baseAccept c =>
    if s.aloop = .idle ∧ s.conn c = .fresh then (s.setConn c .held).setAloop (.holding c) else s
  | .baseAcceptErr =>
    if s.aloop = .idle then s.setAloop .done else s
  | .handToMain =>
    match s.aloop with
    | .holding c => if s.phase = .running then (s.setConn c .reading).setAloop .idle else s
    | _ => s
  | .aloopQuit =>
    match s.aloop with
    | .holding c =>
      if s.phase = .chanClosed ∨ s.phase = .exited then
        if v.closeOnQuit then ((s.setConn c .closed).setAloop .done).addLog (.closed c)
        else (s.setConn c .leaked).setAloop .done
      else s
    | _ => s
  | .firstByte c b =>
    if s.conn c = .reading then s.setConn c (.got b) else s
  | .readFail c =>
    if s.conn c = .reading then (s.setConn c .closed).addLog (.closed c) else s
  | .pick c =>
    match s.conn c with
    | .got b =>
      match s.slot (route b) with
      | none => (s.setConn c .closed).addLog (.closed c)
      | some t => s.setConn c (.pending b t)
    | _ => s
  | .deliver c =>
    match s.conn c with
    | .pending b t =>
      if subChanClosed s.subs t then s
      else (s.setConn c (.delivered b t)).addLog (.delivered c t)
    | _ => s
  | .dropClosed c =>
    match s.conn c with
    | .pending _ t =>
      if subClosed s.subs t then
        if v.closeOnDrop then (s.setConn c .closed).addLog (.closed c)
        else s.setConn c .leaked
      else s
    | _ => s
  | .sendPanic c =>
    match s.conn c with
    | .pending _ t =>
      if subChanClosed s.subs t then (s.setConn c .leaked).setPanicked else s
    | _ => s
  | .mainSeesSubClosed k =>
    if s.phase = .running then
      match s.slot k with
      | some t =>
        if subClosed s.subs t then
          if (s.setSlot k none).socks = none ∧ (s.setSlot k none).http = none
          then (s.setSlot k none).setPhase .exiting else s.setSlot k none
        else s
      | none => s
    else s
  | .mainSeesAcceptClosed =>
    if s.phase = .running ∧ s.aloop = .done then s.setPhase .exiting else s
  | .exitA =>
    if s.phase = .exiting then s.setPhase .chanClosed else s
  | .exitB =>
    if s.phase = .chanClosed then
      (((s.setSubs (notify v (notify v s.subs s.http) s.socks)).setSlot .socks none).setSlot .http none).setPhase .exited
    else s

def run (v : Variant) (s : St) (sched : List Label) : St := sched.foldl (step v) s

/-! ### reading the detection byte (mux.go:119-123), explicit over the conn's chunks

`io.ReadFull(conn, b[:])` with a one-byte buffer on a conn that delivers the client's bytes
as the chunk list `cs`: it loops over empty chunks — (0,nil) reads — until it has the byte, or
fails at end of stream. `readLabel c cs` is the label of the step dispatch takes for
connection c on such a conn; every chunking, leading empty chunks included, goes through it. -/
def detect (cs : Stream) : Option (Byte × Stream) :=
  match takeC 1 cs with
  | some ([b], rest) => some (b, rest)
  | _ => none

def readLabel (c : Nat) (cs : Stream) : Label :=
  match detect cs with
  | some (b, _) => .firstByte c b
  | none => .readFail c

/-- what the handler then reads: connWithOneByte{b} over the rest of the conn -/
def wrapped (cs : Stream) : Option OneByte :=
  match detect cs with
  | some (b, rest) => some { b := b, bRead := false, conn := rest }
  | none => none

/-- a single `conn.Read(b[:])` instead of io.ReadFull (NOT what mux.go does): an empty first
    read leaves b[0] = 0 and "succeeds" -/
def detectOneRead (cs : Stream) : Byte × Stream :=
  match readC 1 cs with
  | ([b], rest) => (b, rest)
  | (_, rest) => (byte 0, rest)

/-- terminal events about connection c -/
def evAbout (c : Nat) : Ev → Bool
  | .delivered c' _ => c' = c
  | .closed c' => c' = c
  | .listen _ _ => false

end Hy.Mux
