/-
  C07 — server UDP session manager (core/server/udp.go) as goroutine programs of atomic steps.

  Goroutines and their steps (one `Label` each; a label that is not enabled is the identity, so
  every `List Label` is a schedule and "every interleaving" is `∀ sched`):

    receive loop   Run():   ReceiveMessage → feed(msg) → …                     udp.go:262-275,309-351
        recv m        ReceiveMessage returned m
        lookup        RLock; entry := m.m[id]; RUnlock                   → hit: feed i m | miss: create m
        insert now    newUDPSessionEntry (Last := now); Lock; m.m[id] = entry; Unlock
        feedA now d   entry.Feed part 1: Last.Set(now); D.Feed(msg); if conn == nil: initConn =
                      connLock{ if closed → error; DialFunc (Hook → log New → io.UDP);
                                on error: unlock (CloseWithErr follows as `rlCloseA`);
                                conn := c; override/original; go receiveLoop }; seed aclCache
        rlCloseA      CloseWithErr(err) after the failed dial, first half (see closeA)
        feedB v wok   entry.Feed part 2: override / checkAddr (C08's `route`) and conn.WriteTo
        recvErr       ReceiveMessage returned an error → deferred cleanup(false): RLock-scan of all entries
        rlStopClose i CloseWithErr(nil) on a scanned entry, first half
        rlStopDone    scan list exhausted → close(stopCh); Run returns
    sweeper        idleCleanupLoop / cleanup(true)                              udp.go:277-307
        tick now      ticker fired: RLock-scan, select entries with now − Last > idleTimeout
        swClose i     CloseWithErr(nil) on a selected entry, first half
        swDone        list exhausted, back to select
        swStop        stopCh closed → return
    reply loop of entry i   receiveLoop()                                       udp.go:181-213
        loopRead i now (some p)   ReadFrom returned a packet: Last.Set(now); build message with
                                  SessionID := e.ID, Addr := OriginalAddr or source; call SendMessage
        loopRead i now none       ReadFrom returned an error
        loopSent i ok             SendMessage returned
        loopCloseA i              CloseWithErr(err), first half; the goroutine ends
    CloseWithErr   udp.go:72-89, split at the unlock:
        closeA  = connLock{ if closed → return; closed := true; if conn != nil → conn.Close() }
        exitB i = ExitFunc: log Close(entry.ID); Lock; delete(m.m, entry.ID); Unlock
      Exactly one caller gets past the `closed` test; it is recorded in the entry (`exitPending`) rather
      than in that goroutine's program counter, i.e. the model lets the second half run at any later
      point (a superset of the real schedules: safety theorems transfer; for the quiescence theorem
      a pending second half counts as an enabled step).
    environment
        connLost      the QUIC connection dies: ReceiveMessage and SendMessage fail from now on

  Tables are `Nat → Option _` with allocation marks (DESIGN §3).  `tbl` is the Go map `m.m`
  (session id ↦ entry), and `exitB` deletes BY ID exactly as the Go code does — that it removes the
  entry that is exiting and not a newer one with the same id is a theorem, not a modelling choice.
  Sockets are tokens `k < nSock`; `sock k` counts `Close()` calls on it.
  Core Lean only (linked into hydrv).
-/
import Hy.Model.UdpAcl
namespace Hy.UdpSession
open Hy.UdpAcl (Addr DialRes)

structure Msg where
  sid  : Nat
  pid  : Nat
  fid  : Nat
  fcnt : Nat
  addr : Addr
  data : String
  deriving DecidableEq, Repr

/-! ### frag.Defragger (one packet id at a time) — core/internal/frag/frag.go:44-83 -/

structure Defrag where
  pid   : Nat := 0
  frags : List (Option String) := []
  count : Nat := 0
  deriving DecidableEq, Repr

def Defrag.feed (d : Defrag) (m : Msg) : Defrag × Option Msg :=
  if m.fcnt ≤ 1 then (d, some m)
  else if m.fid ≥ m.fcnt then (d, none)
  else if m.pid ≠ d.pid ∨ m.fcnt ≠ d.frags.length then
    ({ pid := m.pid, frags := (List.replicate m.fcnt none).set m.fid (some m.data), count := 1 }, none)
  else match d.frags[m.fid]? with
    | some none =>
      let fr := d.frags.set m.fid (some m.data)
      let d' : Defrag := { d with frags := fr, count := d.count + 1 }
      if d.count + 1 = fr.length then
        (d', some { m with data := String.join (fr.map (fun o => o.getD "")), fid := 0, fcnt := 1 })
      else (d', none)
    | _ => (d, none)

/-! ### state -/

inductive LoopPc where
  | off       -- not started, or returned
  | read      -- blocked in conn.ReadFrom
  | send      -- inside SendMessage
  | closing   -- about to call CloseWithErr(err)
  deriving DecidableEq, Repr

structure Entry where
  sid         : Nat
  last        : Nat
  conn        : Option Nat := none
  closed      : Bool := false
  exitPending : Bool := false     -- closeA done by some goroutine, its ExitFunc not yet run
  exitErr     : Bool := false     -- the err that ExitFunc will log is non-nil
  lp          : LoopPc := .off
  df          : Defrag := {}
  acl         : UdpAcl.St := {}
  deriving DecidableEq, Repr

inductive RlPc where
  | idle
  | got (m : Msg)
  | create (m : Msg)
  | feed (i : Nat) (m : Msg)
  | closing (i : Nat)
  | write (i : Nat) (m : Msg)
  | stopping (pending : List Nat)
  | done
  deriving DecidableEq, Repr

inductive SwPc where
  | idle
  /-- `sel` is what the scan at time `now` selected (ghost, never read by `step`); `pending` what is left -/
  | closing (now : Nat) (sel pending : List Nat)
  | done
  deriving DecidableEq, Repr

inductive Ev where
  | hook (addr : Addr) (res : Option Addr)           -- Hook(_, &addr): none = error, some a = addr afterwards
  | new (sid : Nat) (addr : Addr)                    -- eventLogger.New
  | dial (sid : Nat) (addr : Addr) (k : Option Nat)  -- io.UDP(addr) on behalf of session sid: the socket token, or failure
  | check (addr : Addr) (ok : Bool)                  -- io.CheckUDP
  | write (k : Nat) (msgSid : Nat) (addr : Addr) (data : String) (ok : Bool)  -- conn k .WriteTo of a datagram of session msgSid
  | close (k : Nat)                                  -- conn k .Close()
  | logClose (sid : Nat) (err : Bool)                -- eventLogger.Close
  | up (k : Nat) (sid : Nat) (src : Addr) (data : String)   -- SendMessage of a packet read from socket k, tagged sid
  deriving DecidableEq, Repr

structure Cfg where
  P       : Addr → Bool      -- outbound policy (C08)
  cap     : Nat              -- maxSessionACLCache
  timeout : Nat              -- idleTimeout

structure St where
  ent     : Nat → Option Entry := fun _ => none
  nEnt    : Nat := 0
  tbl     : Nat → Option Nat := fun _ => none     -- m.m : session id ↦ entry
  sock    : Nat → Nat := fun _ => 0               -- Close() calls per socket token
  sockEnt : Nat → Nat := fun _ => 0               -- the entry whose dial opened the socket
  nSock   : Nat := 0
  rl      : RlPc := .idle
  sw      : SwPc := .idle
  down    : Bool := false                         -- connection lost
  stopped : Bool := false                         -- stopCh closed
  evs     : List Ev := []                         -- newest first

inductive Label where
  | recv (m : Msg)
  | connLost
  | recvErr
  | lookup
  | insert (now : Nat)
  | feedA (now : Nat) (d : DialRes)
  | rlCloseA
  | feedB (victim : Addr) (wok : Bool)
  | rlStopClose (i : Nat)
  | rlStopDone
  | tick (now : Nat)
  | swClose (i : Nat)
  | swDone
  | swStop
  | exitB (i : Nat)
  | loopRead (i : Nat) (now : Nat) (pkt : Option (Addr × String))
  | loopSent (i : Nat) (ok : Bool)
  | loopCloseA (i : Nat)
  deriving DecidableEq, Repr

def upd {α} (f : Nat → α) (i : Nat) (v : α) : Nat → α := fun j => if j = i then v else f j

def setEnt (s : St) (i : Nat) (e : Entry) : St := { s with ent := upd s.ent i (some e) }

def emit (s : St) (es : List Ev) : St := { s with evs := es.reverse ++ s.evs }

/-- entry i is what the table holds under its id -/
def inTbl (s : St) (i : Nat) : Bool :=
  match s.ent i with
  | some e => s.tbl e.sid == some i
  | none => false

def idleAt (c : Cfg) (s : St) (now : Nat) (i : Nat) : Bool :=
  match s.ent i with
  | some e => s.tbl e.sid == some i && decide (e.last + c.timeout < now)
  | none => false

/-- first half of CloseWithErr -/
def closeA (s : St) (i : Nat) (isErr : Bool) : St :=
  match s.ent i with
  | none => s
  | some e =>
    if e.closed then s
    else
      let e' := { e with closed := true, exitPending := true, exitErr := isErr }
      match e.conn with
      | none => setEnt s i e'
      | some k => emit { setEnt s i e' with sock := upd s.sock k (s.sock k + 1) } [Ev.close k]

def dialEvs (sid : Nat) (addr : Addr) (d : DialRes) (k : Nat) : List Ev :=
  match d with
  | .hookErr => [Ev.hook addr none]
  | .fail a => [Ev.hook addr (some a), Ev.new sid a, Ev.dial sid a none]
  | .ok a => [Ev.hook addr (some a), Ev.new sid a, Ev.dial sid a (some k)]

def step (c : Cfg) (s : St) : Label → St
  | .recv m =>
    match s.rl with
    | .idle => if s.down then s else { s with rl := .got m }
    | _ => s
  | .connLost => { s with down := true }
  | .recvErr =>
    match s.rl with
    | .idle => if s.down then { s with rl := .stopping ((List.range s.nEnt).filter (inTbl s)) } else s
    | _ => s
  | .lookup =>
    match s.rl with
    | .got m =>
      match s.tbl m.sid with
      | some i => { s with rl := .feed i m }
      | none => { s with rl := .create m }
    | _ => s
  | .insert now =>
    match s.rl with
    | .create m =>
      { s with ent := upd s.ent s.nEnt (some { sid := m.sid, last := now }), nEnt := s.nEnt + 1,
               tbl := upd s.tbl m.sid (some s.nEnt), rl := .feed s.nEnt m }
    | _ => s
  | .feedA now d =>
    match s.rl with
    | .feed i m =>
      match s.ent i with
      | none => { s with rl := .idle }
      | some e =>
        let r := e.df.feed m
        let e1 := { e with last := now, df := r.1 }
        match r.2 with
        | none => { setEnt s i e1 with rl := .idle }
        | some dm =>
          match e.conn with
          | some _ => { setEnt s i e1 with rl := .write i dm }
          | none =>
            if e.closed then { setEnt s i e1 with rl := .idle }           -- "session is closed"
            else match d with
              | .ok a =>
                let e2 := { e1 with conn := some s.nSock, lp := .read, acl := UdpAcl.afterDial dm.addr a }
                emit { setEnt s i e2 with sock := upd s.sock s.nSock 0, sockEnt := upd s.sockEnt s.nSock i,
                                          nSock := s.nSock + 1, rl := .write i dm }
                  (dialEvs e.sid dm.addr d s.nSock)
              | _ => emit { setEnt s i e1 with rl := .closing i } (dialEvs e.sid dm.addr d s.nSock)
    | _ => s
  | .rlCloseA =>
    match s.rl with
    | .closing i => { closeA s i true with rl := .idle }
    | _ => s
  | .feedB victim wok =>
    match s.rl with
    | .write i m =>
      match s.ent i with
      | none => { s with rl := .idle }
      | some e =>
        match e.conn with
        | none => { s with rl := .idle }
        | some k =>
          let r := UdpAcl.route c.P c.cap e.acl m.addr victim
          let s1 := { setEnt s i { e with acl := r.1 } with rl := .idle }
          let chk := if r.2.1 then [Ev.check m.addr (c.P m.addr)] else []
          match r.2.2 with
          | none => emit s1 chk
          | some a => emit s1 (chk ++ [Ev.write k m.sid a m.data (wok && s.sock k == 0)])
    | _ => s
  | .rlStopClose i =>
    match s.rl with
    | .stopping pending =>
      if pending.contains i then { closeA s i false with rl := .stopping (pending.erase i) } else s
    | _ => s
  | .rlStopDone =>
    match s.rl with
    | .stopping [] => { s with rl := .done, stopped := true }
    | _ => s
  | .tick now =>
    match s.sw with
    | .idle =>
      let sel := (List.range s.nEnt).filter (idleAt c s now)
      { s with sw := .closing now sel sel }
    | _ => s
  | .swClose i =>
    match s.sw with
    | .closing now sel pending =>
      if pending.contains i then { closeA s i false with sw := .closing now sel (pending.erase i) } else s
    | _ => s
  | .swDone =>
    match s.sw with
    | .closing _ _ [] => { s with sw := .idle }
    | _ => s
  | .swStop =>
    match s.sw with
    | .idle => if s.stopped then { s with sw := .done } else s
    | _ => s
  | .exitB i =>
    match s.ent i with
    | some e =>
      if e.exitPending then
        emit { setEnt s i { e with exitPending := false } with tbl := upd s.tbl e.sid none }
          [Ev.logClose e.sid e.exitErr]
      else s
    | none => s
  | .loopRead i now pkt =>
    match s.ent i with
    | some e =>
      match e.lp, e.conn with
      | .read, some k =>
        match pkt with
        | some (src, data) =>
          if s.sock k == 0 then
            emit (setEnt s i { e with last := now, lp := .send })
              [Ev.up k e.sid (UdpAcl.replyFrom e.acl src) data]
          else s                                       -- a closed socket delivers nothing
        | none => setEnt s i { e with lp := .closing }
      | _, _ => s
    | none => s
  | .loopSent i ok =>
    match s.ent i with
    | some e =>
      match e.lp with
      | .send => setEnt s i { e with lp := if ok && !s.down then .read else .closing }
      | _ => s
    | none => s
  | .loopCloseA i =>
    match s.ent i with
    | some e =>
      match e.lp with
      | .closing =>
        let s1 := closeA s i true
        match s1.ent i with
        | some e1 => setEnt s1 i { e1 with lp := .off }
        | none => s1
      | _ => s
    | none => s

def run (c : Cfg) (s : St) (sched : List Label) : St := sched.foldl (step c) s

end Hy.UdpSession
