/-
  C12(a) — packetNumberIndexedQueue[T] of core/internal/congestion/bbr/packet_number_indexed_queue.go
  on top of the RingBuffer model.  Packet numbers and `numberOfPresentEntries` are Go ints
  (`Int` here; `invalidPacketNumber = -1`).  The payload `T` is a type parameter (the container
  never inspects it).  Loops (`clearup`, `RemoveUpTo`, the gap filling of `Emplace`) carry a
  fuel equal to the number of slots in use; running out of fuel is reported as `panic`, so the
  no-panic theorem also shows the fuel is always sufficient (the model runs the loops to
  completion exactly as Go does).
  Core Lean only (linked into hydrv).
-/
import Hy.Model.Ring
namespace Hy.Pnq
open Hy Hy.Ring

/-- `entryWrapper[T]` -/
structure Entry (α : Type) where
  present : Bool
  val : α
  deriving Repr, DecidableEq

instance {α : Type} [Inhabited α] : Inhabited (Entry α) := ⟨⟨false, default⟩⟩

def invalidPn : Int := -1

structure PNQ (α : Type) where
  entries : RB (Entry α)
  present : Int        -- numberOfPresentEntries
  first : Int          -- firstPacket
  deriving Repr, DecidableEq

variable {α : Type} [Inhabited α]

/-- `newPacketNumberIndexedQueue(size)` -/
def new (size : Nat) : PNQ α := { entries := init size, present := 0, first := invalidPn }

def PNQ.isEmpty (q : PNQ α) : Bool := q.present == 0

/-- `EntrySlotsUsed()` -/
def PNQ.slotsUsed (q : PNQ α) : Nat := q.entries.len

/-- `LastPacket()` -/
def PNQ.lastPacket (q : PNQ α) : Int :=
  if q.isEmpty then invalidPn else q.first + ((q.entries.len : Int) - 1)

/-- `for i := 0; i < gap; i++ { p.entries.PushBack(entryWrapper[T]{}) }` -/
def pushN : Nat → RB (Entry α) → Res (RB (Entry α))
  | 0, r => Res.ok r
  | n + 1, r => do
    let r' ← r.pushBack default
    pushN n r'

/-- `Emplace(packetNumber, entry)`; `v = none` is `entry == nil` -/
def PNQ.emplace (q : PNQ α) (pn : Int) (v : Option α) : Res (Bool × PNQ α) :=
  match v with
  | none => Res.ok (false, q)
  | some v =>
    if pn = invalidPn then Res.ok (false, q)
    else if q.isEmpty then do
      let e ← q.entries.pushBack ⟨true, v⟩
      pure (true, { entries := e, present := 1, first := pn })
    else if pn ≤ q.lastPacket then Res.ok (false, q)      -- no out-of-order insertion
    else do
      let offset : Int := pn - q.first
      let gap : Int := offset - (q.entries.len : Int)
      let e1 ← if gap > 0 then pushN gap.toNat q.entries else pure q.entries
      let e2 ← e1.pushBack ⟨true, v⟩
      pure (true, { q with entries := e2, present := q.present + 1 })

/-- `getEntryWraper`: offset and wrapper of a present entry -/
def PNQ.getWrapper (q : PNQ α) (pn : Int) : Res (Option (Int × Entry α)) :=
  if pn = invalidPn ∨ q.isEmpty ∨ pn < q.first then Res.ok none
  else
    let offset : Int := pn - q.first
    if offset ≥ (q.entries.len : Int) then Res.ok none
    else do
      let ew ← q.entries.offset offset
      if !ew.present then pure none else pure (some (offset, ew))

/-- `GetEntry` (the value behind the returned pointer, `none` = nil) -/
def PNQ.getEntry (q : PNQ α) (pn : Int) : Res (Option α) := do
  let w ← q.getWrapper pn
  pure (w.map (fun p => p.2.val))

/-- the loop of `clearup()` -/
def clearupLoop : Nat → PNQ α → Res (PNQ α)
  | 0, q =>
    if q.entries.empty then Res.ok q
    else do
      let f ← q.entries.front
      if f.present then Res.ok q else Res.panic          -- fuel exhausted (never, see pnq_no_panic)
  | k + 1, q =>
    if q.entries.empty then Res.ok q
    else do
      let f ← q.entries.front
      if f.present then Res.ok q
      else do
        let (_, e) ← q.entries.popFront
        clearupLoop k { q with entries := e, first := q.first + 1 }

/-- `clearup()` -/
def PNQ.clearup (q : PNQ α) : Res (PNQ α) := do
  let q1 ← clearupLoop q.entries.len q
  pure (if q1.entries.empty then { q1 with first := invalidPn } else q1)

/-- `Remove(packetNumber, f)`: result, the value handed to `f`, the new queue -/
def PNQ.remove (q : PNQ α) (pn : Int) : Res (Option α × PNQ α) := do
  let w ← q.getWrapper pn
  match w with
  | none => pure (none, q)
  | some (off, ew) =>
    let e ← q.entries.modifyOffset off (fun w => { w with present := false })
    let q1 : PNQ α := { q with entries := e, present := q.present - 1 }
    if pn = q1.first then do
      let q2 ← q1.clearup
      pure (some ew.val, q2)
    else pure (some ew.val, q1)

/-- the loop of `RemoveUpTo(packetNumber)` -/
def removeLoop (n : Int) : Nat → PNQ α → Res (PNQ α)
  | 0, q =>
    if !q.entries.empty ∧ q.first ≠ invalidPn ∧ q.first < n then Res.panic   -- fuel exhausted (never)
    else Res.ok q
  | k + 1, q =>
    if !q.entries.empty ∧ q.first ≠ invalidPn ∧ q.first < n then do
      let f ← q.entries.front
      let c := if f.present then q.present - 1 else q.present
      let (_, e) ← q.entries.popFront
      removeLoop n k { entries := e, present := c, first := q.first + 1 }
    else Res.ok q

/-- `RemoveUpTo(packetNumber)` -/
def PNQ.removeUpTo (q : PNQ α) (n : Int) : Res (PNQ α) := do
  let q1 ← removeLoop n q.entries.len q
  q1.clearup

end Hy.Pnq

namespace Hy.Pnq
open Hy Hy.Ring
variable {α : Type} [Inhabited α]

/-! ### operation sequences (driver, `pnq_no_panic`) -/

inductive Op (α : Type) where
  | emplace (pn : Int) (v : Option α)
  | getEntry (pn : Int)
  | remove (pn : Int)
  | removeUpTo (n : Int)
  deriving Repr

/-- result reported to the caller -/
inductive Ret (α : Type) where
  | flag (b : Bool) | entry (v : Option α) | unit
  deriving Repr, DecidableEq

def PNQ.step (q : PNQ α) : Op α → Res (PNQ α × Ret α)
  | .emplace pn v => do let (b, q') ← q.emplace pn v; pure (q', .flag b)
  | .getEntry pn => do let v ← q.getEntry pn; pure (q, .entry v)
  | .remove pn => do let (v, q') ← q.remove pn; pure (q', .entry v)
  | .removeUpTo n => do let q' ← q.removeUpTo n; pure (q', .unit)

/-- QUIC packet numbers are non-negative; −1 is the `invalidPacketNumber` marker -/
def Op.wellFormed : Op α → Prop
  | .emplace pn _ => -1 ≤ pn
  | _ => True

def PNQ.run : PNQ α → List (Op α) → Res (PNQ α)
  | q, [] => Res.ok q
  | q, op :: ops => do
    let (q', _) ← q.step op
    q'.run ops

end Hy.Pnq
