/-
  The server's side of the request hook (C17): what the proxied target ends up receiving.
    core/server/server.go handleTCPRequest (hook branch): Check → response header "RequestHook
      enabled" → putback, err = hook.TCP(stream, &reqAddr) → Outbound.TCP(reqAddr) →
      tConn.Write(putback) → relay (copyTwoWay) of whatever is still unread on the stream
    core/server/udp.go udpSessionEntry.Feed/initConn + server.go udpIOImpl.Hook: the hook runs
      on the first (defragmented) datagram of a session, Outbound.UDP is dialled with the
      address the hook left, and that same datagram slice is written to the new conn
  Core Lean only.

  The relay itself (copy loop, accounting) is C06's subject; here it is "every byte still
  unread on the stream reaches the target, in order".  The client's whole byte stream — what
  it sends during sniffing and everything afterwards — is the `Stream` of Hy.Model.Sniff: the
  deadline (`dl`) only exists while the sniffer runs (it is reset on return), so after the
  hook every remaining chunk is relayed.
-/
import Hy.Model.Sniff
import Hy.Model.QuicInitial
namespace Hy.SniffServer
open Hy Hy.Sniff

structure TcpWorld where
  /-- address handed to Outbound.TCP (`none`: the stream was closed before dialling) -/
  dial : Option Bytes
  /-- bytes written to the target connection, in order -/
  target : Bytes
  /-- TCP response headers written to the client -/
  responses : Nat
deriving DecidableEq, Repr

/-- `handleTCPRequest` from the point where the request address has been read.
    `hooked` = `RequestHook.Check(false, reqAddr)`; `written` = the `n` of `tConn.Write(putback)`
    (the code ignores that call's error); the dial is assumed to succeed (a failed dial closes
    the stream: nothing reaches any target). -/
def hookedTCP (cfg : Cfg) (P : Parsers) (hooked : Bool) (written : Nat) (addr : Bytes) (s : Stream) :
    Res TcpWorld :=
  if hooked then
    match sniffTCP cfg P addr s with
    | .ok o => .ok ⟨some o.addr, o.putback.take written ++ o.s.unread, 1⟩
    | .reject => .ok ⟨none, [], 1⟩                       -- hook error: stream closed
    | .panic => .panic
  else .ok ⟨some addr, s.unread, 1⟩

structure UdpWorld where
  /-- address handed to Outbound.UDP (`none`: no session connection was created) -/
  dial : Option Bytes
  /-- (payload, destination) of the first WriteTo on the session's connection -/
  first : Option (Bytes × Bytes)
deriving DecidableEq, Repr

/-- first datagram of a UDP session: `Feed` → `initConn` → `DialFunc` (hook, then Outbound.UDP
    with the address the hook left) → `conn.WriteTo(dfMsg.Data, OverrideAddr or dfMsg.Addr)`.
    The hook receives `dfMsg.Data` itself, so what is written is the slice AFTER the hook. -/
def hookedUDP (cfg : Quic.Cfg) (C : Quic.Crypto) (sortFn : List Quic.Frame → List Quic.Frame)
    (sni : Bytes → Option Bytes) (hooked : Bool) (addr data : Bytes) : Res UdpWorld :=
  if hooked then
    match Quic.sniffUDP cfg C sortFn sni addr data with
    | .ok o => if o.err then .ok ⟨none, none⟩ else .ok ⟨some o.addr, some (o.data, o.addr)⟩
    | .reject => .ok ⟨none, none⟩
    | .panic => .panic
  else .ok ⟨some addr, some (data, addr)⟩

end Hy.SniffServer
