/-
  Model of extras/obfs/salamander.go (Obfuscate / Deobfuscate / newSalamanderObfuscator)
  and of the socket wrapper extras/obfs/conn.go (obfsPacketConn.ReadFrom / WriteTo; the
  UDP flavour obfsPacketConnUDP embeds the same two methods).

  The hash is a PARAMETER `H` of every definition: the round-trip theorems are proved for
  an arbitrary `H`, the wire-format theorems instantiate it with `Hy.blake2b256`
  (Hy/Crypto/Blake2b.lean, written from RFC 7693).

  What is an input of the model (chosen by the code or its environment at run time):
    * the 8 salt bytes drawn from `RandSrc`                      (`salt`)
    * whether the inner socket's WriteTo fails                   (`innerErr`)
    * the datagrams the inner socket's ReadFrom hands out, each with the source address
      and with whether it came together with a non-nil error     (`Inc`)
    * the length of the caller's buffer `p` in ReadFrom          (`cap`)
  Environment contract used (trusted, listed in C13.py): the inner `ReadFrom(buf)` copies
  `min(len(datagram), len(buf))` bytes of ONE datagram into `buf` and reports that count.

  Nothing in these functions can panic: `in[:smSaltLen]` is reached only when
  `len(in) > smSaltLen`, `out[:smSaltLen]` only when `len(out) ≥ len(in)+smSaltLen`,
  `key[i%smKeyLen]` indexes a `[smKeyLen]byte`; the harness oracle reports any panic.

  Core Lean only (linked into `hydrv`).
-/
import Hy.Base.Bytes
import Hy.Gen.Extras
namespace Hy.Salamander
open Hy

/-- `for i, c := range in { out[i] = c ^ key[i % smKeyLen] }` started at index `i`.
    `key` is a `[smKeyLen]byte` in Go; for a shorter list the missing positions read 0
    (never happens for BLAKE2b-256, see `blake2b256_length`). -/
def xorAt (key : Bytes) : Nat → Bytes → Bytes
  | _, [] => []
  | i, c :: cs => bxor c (key.getD (i % Gen.smKeyLen) 0) :: xorAt key (i + 1) cs

/-- keyLocked: `copy(keyInput[len(PSK):], salt[:smSaltLen]); Sum256(keyInput)` where
    `keyInput[:len(PSK)] = PSK` — the hash of PSK ‖ salt. -/
def keyOf (H : Bytes → Bytes) (psk salt : Bytes) : Bytes := H (psk ++ salt)

/-- newSalamanderObfuscator: refuses a PSK shorter than smPSKMinLen -/
def accepts (psk : Bytes) : Bool := !(decide (psk.length < Gen.smPSKMinLen))

/-- Obfuscate(in, out) with `len(out) = outCap`; the result is `out[:n]` for the returned
    `n` (`[]` when it returns 0). -/
def obfuscate (H : Bytes → Bytes) (psk salt inp : Bytes) (outCap : Nat) : Bytes :=
  if outCap < inp.length + Gen.smSaltLen then []
  else salt ++ xorAt (keyOf H psk salt) 0 inp

/-- Deobfuscate(in, out) with `len(out) = outCap`: `none` when it returns 0, otherwise
    `out[:n]`.  `outLen <= 0` on Go's `int` is `len(in) ≤ smSaltLen`. -/
def deobfuscate (H : Bytes → Bytes) (psk inp : Bytes) (outCap : Nat) : Option Bytes :=
  if inp.length ≤ Gen.smSaltLen ∨ outCap < inp.length - Gen.smSaltLen then none
  else some (xorAt (keyOf H psk (inp.take Gen.smSaltLen)) 0 (inp.drop Gen.smSaltLen))

/-! ### the wrapper (conn.go) -/

/-- what WriteTo hands to the inner socket and what it reports to its caller -/
structure WriteRes where
  wire : Bytes
  n : Nat
  err : Bool
  deriving DecidableEq, Repr

/-- obfsPacketConn.WriteTo: `nn := Obfuscate(p, writeBuf); _, err = Conn.WriteTo(writeBuf[:nn])`
    with `len(writeBuf) = udpBufferSize`; `n = len(p)` iff the inner write succeeded. -/
def writeTo (H : Bytes → Bytes) (psk salt p : Bytes) (innerErr : Bool) : WriteRes :=
  { wire := obfuscate H psk salt p Gen.udpBufferSize,
    n := if innerErr then 0 else p.length,
    err := innerErr }

/-- one datagram on the inner socket -/
structure Inc where
  data : Bytes
  addr : Nat
  err : Bool
  deriving DecidableEq, Repr

/-- what ReadFrom returns: the bytes put into the caller's buffer, n, addr, err ≠ nil -/
structure Delivery where
  payload : Bytes
  n : Nat
  addr : Nat
  err : Bool
  deriving DecidableEq, Repr

/-- ONE iteration of the `for` loop of obfsPacketConn.ReadFrom (one readMutex region):
    `some d` = the call returns `d`, `none` = "Invalid packet, try again". -/
def readStep (H : Bytes → Bytes) (psk : Bytes) (cap : Nat) (i : Inc) : Option Delivery :=
  let got := i.data.take Gen.udpBufferSize          -- readBuf[:n]
  if got.length = 0 then                             -- `if n <= 0 { return n, addr, err }`
    some { payload := [], n := 0, addr := i.addr, err := i.err }
  else
    match deobfuscate H psk got cap with
    | some p => some { payload := p, n := p.length, addr := i.addr, err := i.err }
    | none =>                                        -- n = 0
      if i.err then some { payload := [], n := 0, addr := i.addr, err := true } else none

/-- obfsPacketConn.ReadFrom on the queue of datagrams the inner socket will hand out:
    the value returned and the rest of the queue; `none` = every datagram was skipped and
    the call is still blocked in the inner ReadFrom. -/
def readFrom (H : Bytes → Bytes) (psk : Bytes) (cap : Nat) : List Inc → Option (Delivery × List Inc)
  | [] => none
  | i :: rest =>
    match readStep H psk cap i with
    | some d => some (d, rest)
    | none => readFrom H psk cap rest

/-- the results of successive ReadFrom calls until the queue is exhausted -/
def deliveries (H : Bytes → Bytes) (psk : Bytes) (cap : Nat) : List Inc → List Delivery
  | [] => []
  | i :: rest =>
    match readStep H psk cap i with
    | some d => d :: deliveries H psk cap rest
    | none => deliveries H psk cap rest

/-! ### concurrent use of ONE wrapped socket whose inner socket loops back

  Atomic steps (DESIGN §3): a WriteTo call is one step (writeMutex region: obfuscate into
  writeBuf, inner WriteTo), one iteration of ReadFrom's loop is one step (readMutex
  region: inner ReadFrom into readBuf, deobfuscate into the caller's buffer), the
  environment dropping a datagram into the socket is one step.  A schedule is a list of
  labels; a `recv` on an empty queue is not enabled (the goroutine is blocked in the inner
  ReadFrom) and leaves the state unchanged. -/

inductive Label where
  | send (writer : Nat) (salt p : Bytes) (addr : Nat)   -- a writer goroutine's WriteTo
  | inject (i : Inc)                                     -- the network delivers a datagram
  | recv (reader : Nat) (cap : Nat)                      -- one loop iteration of a reader
  deriving Repr

structure Sys where
  queue : List Inc                      -- datagrams waiting in the inner socket, oldest first
  got : List (Nat × Delivery)           -- (reader, what its ReadFrom returned), oldest first
  sentN : List (Nat × Nat)              -- (writer, n reported by WriteTo), oldest first
  deriving Repr

def Sys.init : Sys := { queue := [], got := [], sentN := [] }

def step (H : Bytes → Bytes) (psk : Bytes) (s : Sys) : Label → Sys
  | .send w salt p addr =>
    let r := writeTo H psk salt p false
    { s with queue := s.queue ++ [{ data := r.wire, addr := addr, err := false }],
             sentN := s.sentN ++ [(w, r.n)] }
  | .inject i => { s with queue := s.queue ++ [i] }
  | .recv rd cap =>
    match s.queue with
    | [] => s
    | i :: rest =>
      match readStep H psk cap i with
      | some d => { s with queue := rest, got := s.got ++ [(rd, d)] }
      | none => { s with queue := rest }

def run (H : Bytes → Bytes) (psk : Bytes) (sched : List Label) : Sys :=
  sched.foldl (step H psk) Sys.init

end Hy.Salamander
