/-
  C12(b) — the control logic of core/internal/congestion/bbr/bbr_sender.go: the mode / recovery
  state machine, the round and gain-cycle counters, and the window / pacing updates.

  What the bandwidth sampler returns, what the max-bandwidth filter holds afterwards, what
  QUIC's RTT statistics say, the random gain-cycle offset, and every float-scaled quantity
  (`gain × x`, `x × 1.25`, `x × 0.02`, float→int conversions) are fields of `Env`: arbitrary
  numbers supplied by the environment.  Every theorem quantifies over all of them, which
  over-approximates the real sampler and IEEE arithmetic and is therefore sound for safety.
  The correspondence harness records, for each event, the values the real code computed and
  `hydrv bbr` replays the step with them (trace validation with recorded nondeterminism).

  Byte counts, bandwidths and times (ns) are `Nat`; packet numbers are `Int`
  (`invalidPacketNumber = -1`).  Go panic sites are explicit (`Res.panic`): the `lostPackets[len-1]`
  index when both lists are empty, the `pacingGain[...]` table index, the integer division in
  `BandwidthFromDelta`, the `panic(...)` and the division in `SetMaxDatagramSize`.
  Assumed (stated in the evidence): int64/uint64 arithmetic does not overflow (byte counters of
  one connection stay below 2^62), `rttStats` is non-nil (QUIC calls SetRTTStatsProvider when
  the controller is installed).
  Core Lean only (linked into hydrv).
-/
import Hy.Base.Res
import Hy.Gen.Core
namespace Hy.Bbr
open Hy

inductive Mode where
  | startup | drain | probeBw | probeRtt
  deriving DecidableEq, Repr

inductive Rec where
  | none | conservation | growth
  deriving DecidableEq, Repr

/-- the float field `pacingGain`: `highGain`, `drainGain = 1/highGain`, or a literal in
    hundredths (1.0 and the entries of the PROBE_BW cycle) -/
inductive Gain where
  | high | drain | val (centi : Nat)
  deriving DecidableEq, Repr

/-- the float field `congestionWindowGain` -/
inductive CGain where
  | highCwnd | one | const
  deriving DecidableEq, Repr

/-- profile parameters that stay fixed after construction -/
structure Cfg where
  numStartupRtts : Nat
  drainToTarget : Bool
  bytesLostMultiplier : Nat
  ackAggStartup : Bool
  expireAckAggStartup : Bool
  detectOvershooting : Bool          -- initial value of the mutable flag
  deriving DecidableEq, Repr

structure S where
  cfg : Cfg
  mode : Mode
  roundTripCount : Nat
  lastSentPacket : Int
  currentRoundTripEnd : Int
  numLossEventsInRound : Nat
  bytesLostInRound : Nat
  minRtt : Nat
  minRttTimestamp : Nat
  cwnd : Nat
  initCwnd : Nat
  maxCwnd : Nat
  minCwnd : Nat
  pacingRate : Nat
  pacingGain : Gain
  cwndGain : CGain
  cycleOffset : Nat
  lastCycleStart : Nat
  isAtFullBandwidth : Bool
  roundsWithoutGain : Nat
  bandwidthAtLastRound : Nat
  exitingQuiescence : Bool
  exitProbeRttAt : Nat
  probeRttRoundPassed : Bool
  lastSampleIsAppLimited : Bool
  hasNoAppLimitedSample : Bool
  rcv : Rec
  endRecoveryAt : Int
  recWnd : Nat
  detectOvershooting : Bool
  bytesLostOvershoot : Nat
  cwndForMinPacing : Nat
  maxCwndAdjusted : Nat
  mds : Nat
  bytesInFlight : Nat
  deriving DecidableEq, Repr

/-! ### constants (regenerated from the compiled packages) -/

def minPk : Nat := Gen.bbr_minCongestionWindowPackets
def initPk : Nat := Gen.bbr_initialCongestionWindowPackets
def maxPk : Nat := Gen.quic_MaxCongestionWindowPackets
def minBps : Nat := Gen.bbr_minBps
def cycleLen : Nat := Gen.bbr_gainCycleLength
def invalidPn : Int := -1

/-- `var pacingGain = [...]float64{...}` in hundredths -/
def gainTable : List Nat :=
  [Gen.bbr_pacingGain_0, Gen.bbr_pacingGain_1, Gen.bbr_pacingGain_2, Gen.bbr_pacingGain_3,
   Gen.bbr_pacingGain_4, Gen.bbr_pacingGain_5, Gen.bbr_pacingGain_6, Gen.bbr_pacingGain_7]

/-- `pacingGain > 1.0` (highGain > 1 and drainGain = 1/highGain < 1 for all three profiles:
    obligation `profiles_high_gain` in Props) -/
def Gain.gtOne : Gain → Bool
  | .high => true
  | .drain => false
  | .val c => decide (c > 100)

def Gain.ltOne : Gain → Bool
  | .high => false
  | .drain => true
  | .val c => decide (c < 100)

/-! ### environment: sampler outputs, QUIC's RTT statistics, float-scaled values -/

structure Env where
  sampleValid : Bool        -- sample.lastPacketSendState.isValid
  sampleAppLimited : Bool   -- sample.lastPacketSendState.isAppLimited
  sendStateInflight : Nat   -- sample.lastPacketSendState.bytesInFlight
  sampleRtt : Option Nat    -- sample.sampleRtt (`none` = infRTT)
  bytesAcked : Nat          -- sampler.TotalBytesAcked() after − before
  bytesLost : Nat           -- sampler.TotalBytesLost() after − before
  totalAcked : Nat          -- sampler.TotalBytesAcked() after
  excessAcked : Nat         -- sample.extraAcked
  maxAckHeight : Nat        -- sampler.MaxAckHeight() when calculateCongestionWindow reads it
  bw : Nat                  -- maxBandwidth.GetBest() after this event's filter update
  rttMin : Nat              -- rttStats.MinRTT()
  tgtPacing : Nat           -- getTargetCongestionWindow(pacingGain) in updateGainCyclePhase
  tgt1 : Nat                -- getTargetCongestionWindow(1)
  tgtCwnd : Nat             -- getTargetCongestionWindow(congestionWindowGain) in calculateCongestionWindow
  growthTarget : Nat        -- Bandwidth(float64(bandwidthAtLastRound) * startupGrowthTarget)
  lossThresh : Nat          -- ByteCount(float64(inflightAtSend) * quicBbr2DefaultLossThreshold)
  targetRate : Nat          -- Bandwidth(pacingGain * float64(bandwidthEstimate())) in calculatePacingRate
  rnd : Nat                 -- rand.Int31n(PacketsPerConnectionID)
  deriving Repr

/-- one call of OnCongestionEventEx -/
structure Ev where
  prior : Nat
  now : Nat
  acked : List (Int × Nat)      -- (packet number, bytes), ascending as QUIC delivers them
  lost : List (Int × Nat)
  env : Env
  deriving Repr

/-! ### construction -/

/-- `NewBbrSender(clock, initialMaxDatagramSize, profile)` (bbr_sender.go:321-380) -/
def new (cfg : Cfg) (mds : Nat) : S :=
  { cfg := cfg
    mode := .startup
    roundTripCount := 0
    lastSentPacket := invalidPn
    currentRoundTripEnd := invalidPn
    numLossEventsInRound := 0
    bytesLostInRound := 0
    minRtt := 0
    minRttTimestamp := 0
    cwnd := initPk * mds
    initCwnd := initPk * mds
    maxCwnd := maxPk * mds
    minCwnd := minPk * mds
    pacingRate := 0
    pacingGain := .high            -- enterStartupMode
    cwndGain := .highCwnd
    cycleOffset := 0
    lastCycleStart := 0
    isAtFullBandwidth := false
    roundsWithoutGain := 0
    bandwidthAtLastRound := 0
    exitingQuiescence := false
    exitProbeRttAt := 0
    probeRttRoundPassed := false
    lastSampleIsAppLimited := false
    hasNoAppLimitedSample := false
    rcv := .none
    endRecoveryAt := invalidPn
    recWnd := maxPk * mds
    detectOvershooting := cfg.detectOvershooting
    bytesLostOvershoot := 0
    cwndForMinPacing := initPk * mds
    maxCwndAdjusted := maxPk * mds
    mds := mds
    bytesInFlight := 0 }

/-! ### outputs -/

/-- `GetCongestionWindow()` (bbr_sender.go:522-532) -/
def getCwnd (s : S) : Nat :=
  if s.mode = .probeRtt then s.minCwnd
  else if s.rcv ≠ .none then min s.cwnd s.recWnd
  else s.cwnd

/-- `CanSend(bytesInFlight)` -/
def canSend (s : S) (inflight : Nat) : Bool := decide (inflight < getCwnd s)

/-- `bandwidthForPacer()` (bbr_sender.go:663-672); `bps` is the result of the float→int64
    conversion `ByteCount(float64(PacingRate()) / 8)` — any int64, negative included -/
def bandwidthForPacer (bps : Int) : Nat :=
  if bps < (minBps : Int) then minBps else bps.toNat

/-! ### OnPacketSent / SetMaxDatagramSize -/

/-- `OnPacketSent` (bbr_sender.go:444-461), the sender's own fields -/
def onPacketSent (s : S) (inflight : Nat) (pn : Int) : S :=
  { s with lastSentPacket := pn, bytesInFlight := inflight,
           exitingQuiescence := if inflight = 0 then true else s.exitingQuiescence }

/-- `scaleByteWindowForDatagramSize` (uint64 division) -/
def scaleWnd (w old new : Nat) : Res Nat :=
  if old = new then .ok w
  else if old = 0 then .panic            -- integer divide by zero
  else .ok (w * new / old)

/-- `SetMaxDatagramSize(s)` (bbr_sender.go:489-509) -/
def setMds (s : S) (n : Nat) : Res S := do
  if n < s.mds then .panic               -- panic("congestion BUG: decreased max datagram size ...")
  else
    let oldMin := s.minCwnd
    let oldInit := s.initCwnd
    let newInit ← scaleWnd s.initCwnd s.mds n
    let newMax ← scaleWnd s.maxCwnd s.mds n
    let newMin := minPk * n
    let newForMin ← scaleWnd s.cwndForMinPacing s.mds n
    let newAdj ← scaleWnd s.maxCwndAdjusted s.mds n
    let c := if s.cwnd = oldMin then newMin
             else if s.cwnd = oldInit then newInit
             else min newMax (max s.cwnd newMin)
    pure { s with mds := n, initCwnd := newInit, maxCwnd := newMax, minCwnd := newMin,
                  cwndForMinPacing := newForMin, maxCwndAdjusted := newAdj, cwnd := c,
                  recWnd := min newMax (max s.recWnd newMin) }

/-! ### the pieces of OnCongestionEventEx -/

def sumBytes (l : List (Int × Nat)) : Nat := l.foldl (fun a p => a + p.2) 0

/-- `getMinRtt()` (bbr_sender.go:676-689) -/
def getMinRtt (s : S) (rttMin : Nat) : Nat :=
  if s.minRtt ≠ 0 then s.minRtt
  else if rttMin = 0 then Gen.bbr_defaultRttNs else rttMin

/-- `updateRoundTripCounter` (bbr_sender.go:756-763) -/
def updateRoundTripCounter (s : S) (lastAcked : Int) : S × Bool :=
  if s.currentRoundTripEnd = invalidPn ∨ lastAcked > s.currentRoundTripEnd then
    ({ s with roundTripCount := s.roundTripCount + 1, currentRoundTripEnd := s.lastSentPacket }, true)
  else (s, false)

/-- `updateRecoveryState` (bbr_sender.go:902-935) -/
def updateRecoveryState (s : S) (lastAcked : Int) (hasLosses isRoundStart : Bool) : S :=
  if !s.isAtFullBandwidth then s
  else
    let s := if hasLosses then { s with endRecoveryAt := s.lastSentPacket } else s
    match s.rcv with
    | .none =>
      if hasLosses then
        { s with rcv := .conservation, recWnd := 0, currentRoundTripEnd := s.lastSentPacket }
      else s
    | .conservation =>
      let s := if isRoundStart then { s with rcv := .growth } else s
      -- fallthrough
      if !hasLosses ∧ lastAcked > s.endRecoveryAt then { s with rcv := .none } else s
    | .growth =>
      if !hasLosses ∧ lastAcked > s.endRecoveryAt then { s with rcv := .none } else s

/-- `maybeUpdateMinRtt` (bbr_sender.go:709-718) -/
def maybeUpdateMinRtt (s : S) (now sampleRtt : Nat) : S × Bool :=
  let expired := s.minRtt ≠ 0 ∧ now > s.minRttTimestamp + Gen.bbr_minRttExpiryNs
  if expired ∨ sampleRtt < s.minRtt ∨ s.minRtt = 0 then
    ({ s with minRtt := sampleRtt, minRttTimestamp := now }, decide expired)
  else (s, decide expired)

/-- `pacingGain[i]` with Go's bounds check -/
def gainAt (i : Nat) : Res Gain := do
  let c ← Res.idx gainTable i
  pure (.val c)

/-- `updateGainCyclePhase` (bbr_sender.go:766-798) -/
def updateGainCyclePhase (s : S) (e : Ev) (hasLosses : Bool) : Res S := do
  let adv0 := decide (e.now > s.lastCycleStart + getMinRtt s e.env.rttMin)
  let adv1 := if s.pacingGain.gtOne ∧ !hasLosses ∧ e.prior < e.env.tgtPacing then false else adv0
  let adv := if s.pacingGain.ltOne ∧ s.bytesInFlight ≤ e.env.tgt1 then true else adv1
  if adv then
    let off := (s.cycleOffset + 1) % cycleLen
    let s1 := { s with cycleOffset := off, lastCycleStart := e.now }
    let g ← gainAt off
    if s.cfg.drainToTarget ∧ s.pacingGain.ltOne ∧ g = .val 100 ∧ s.bytesInFlight > e.env.tgt1 then
      pure s1
    else pure { s1 with pacingGain := g }
  else pure s

/-- `shouldExitStartupDueToLoss` (bbr_sender.go:1043-1057) -/
def shouldExitStartupDueToLoss (s : S) (e : Ev) : Bool :=
  if s.numLossEventsInRound < Gen.bbr_defaultStartupFullLossCount ∨ !e.env.sampleValid then false
  else if e.env.sendStateInflight > 0 ∧ s.bytesLostInRound > 0 then
    decide (s.bytesLostInRound > e.env.lossThresh)
  else false

/-- `checkIfFullBandwidthReached` (bbr_sender.go:802-823) -/
def checkIfFullBandwidthReached (s : S) (e : Ev) : S :=
  if s.lastSampleIsAppLimited then s
  else if e.env.bw ≥ e.env.growthTarget then
    { s with bandwidthAtLastRound := e.env.bw, roundsWithoutGain := 0 }
  else
    let s := { s with roundsWithoutGain := s.roundsWithoutGain + 1 }
    if s.roundsWithoutGain ≥ s.cfg.numStartupRtts ∨ shouldExitStartupDueToLoss s e then
      { s with isAtFullBandwidth := true }
    else s

/-- `enterProbeBandwidthMode` (bbr_sender.go:733-752) -/
def enterProbeBw (s : S) (now rnd : Nat) : Res S := do
  let o := (rnd % Gen.quic_PacketsPerConnectionID) % (cycleLen - 1)
  let off := if o ≥ 1 then o + 1 else o
  let g ← gainAt off
  pure { s with mode := .probeBw, cwndGain := .const, cycleOffset := off, lastCycleStart := now,
                pacingGain := g }

/-- `enterStartupMode` -/
def enterStartup (s : S) : S :=
  { s with mode := .startup, pacingGain := .high, cwndGain := .highCwnd }

/-- `maybeExitStartupOrDrain` (bbr_sender.go:833-847) -/
def maybeExitStartupOrDrain (s : S) (e : Ev) : Res S := do
  let s := if s.mode = .startup ∧ s.isAtFullBandwidth then
      { s with mode := .drain, pacingGain := .drain, cwndGain := .highCwnd } else s
  if s.mode = .drain ∧ s.bytesInFlight ≤ e.env.tgt1 then enterProbeBw s e.now e.env.rnd
  else pure s

/-- `maybeEnterOrExitProbeRtt` (bbr_sender.go:850-898) -/
def maybeEnterOrExitProbeRtt (s : S) (e : Ev) (isRoundStart minRttExpired : Bool) : Res S := do
  let s := if minRttExpired ∧ !s.exitingQuiescence ∧ s.mode ≠ .probeRtt then
      { s with mode := .probeRtt, pacingGain := .val 100, exitProbeRttAt := 0 } else s
  let s ←
    if s.mode = .probeRtt then
      if s.exitProbeRttAt = 0 then
        if s.bytesInFlight < s.minCwnd + Gen.quic_MaxPacketBufferSize then
          pure { s with exitProbeRttAt := e.now + Gen.bbr_probeRttTimeNs, probeRttRoundPassed := false }
        else pure s
      else
        let s := if isRoundStart then { s with probeRttRoundPassed := true } else s
        if e.now ≥ s.exitProbeRttAt ∧ s.probeRttRoundPassed then
          let s := { s with minRttTimestamp := e.now }
          if !s.isAtFullBandwidth then pure (enterStartup s) else enterProbeBw s e.now e.env.rnd
        else pure s
    else pure s
  pure { s with exitingQuiescence := false }

/-- `BandwidthFromDelta(bytes, delta)` (bandwidth.go:25-27): uint64 division, panics on delta = 0 -/
def bandwidthFromDelta (bytes delta : Nat) : Res Nat :=
  if delta = 0 then .panic else .ok (bytes * 1000000000 / delta * 8)

/-- `calculatePacingRate` (bbr_sender.go:938-975) -/
def calculatePacingRate (s : S) (e : Ev) : Res S := do
  if e.env.bw = 0 then pure s
  else
    let targetRate := e.env.targetRate
    if s.isAtFullBandwidth then pure { s with pacingRate := targetRate }
    else if s.pacingRate = 0 ∧ e.env.rttMin ≠ 0 then do
      let r ← bandwidthFromDelta s.initCwnd e.env.rttMin
      pure { s with pacingRate := r }
    else
      let s ←
        if s.detectOvershooting then
          let s := { s with bytesLostOvershoot := s.bytesLostOvershoot + e.env.bytesLost }
          if s.pacingRate > targetRate ∧ s.bytesLostOvershoot > 0 then
            if s.hasNoAppLimitedSample ∨ s.bytesLostOvershoot * s.cfg.bytesLostMultiplier > s.initCwnd then do
              let r ← bandwidthFromDelta s.cwndForMinPacing e.env.rttMin      -- NOT guarded by MinRTT() != 0
              pure { s with pacingRate := max targetRate r, bytesLostOvershoot := 0, detectOvershooting := false }
            else pure s
          else pure s
        else pure s
      pure { s with pacingRate := max s.pacingRate targetRate }

/-- `calculateCongestionWindow` (bbr_sender.go:978-1008) -/
def calculateCongestionWindow (s : S) (e : Ev) : S :=
  if s.mode = .probeRtt then s
  else
    let target := e.env.tgtCwnd
    let target := if s.isAtFullBandwidth then target + e.env.maxAckHeight
                  else if s.cfg.ackAggStartup then target + e.env.excessAcked else target
    let c := if s.isAtFullBandwidth then min target (s.cwnd + e.env.bytesAcked)
             else if s.cwnd < target ∨ e.env.totalAcked < s.initCwnd then s.cwnd + e.env.bytesAcked
             else s.cwnd
    let c := max c s.minCwnd
    let c := min c s.maxCwnd
    { s with cwnd := c }

/-- `calculateRecoveryWindow` (bbr_sender.go:1011-1040) -/
def calculateRecoveryWindow (s : S) (e : Ev) : S :=
  if s.rcv = .none then s
  else if s.recWnd = 0 then
    { s with recWnd := max s.minCwnd (s.bytesInFlight + e.env.bytesAcked) }
  else
    let r := if s.recWnd ≥ e.env.bytesLost then s.recWnd - e.env.bytesLost else s.mds
    let r := if s.rcv = .growth then r + e.env.bytesAcked else r
    let r := max r (s.bytesInFlight + e.env.bytesAcked)
    { s with recWnd := max s.minCwnd r }

/-- the packet number handed to `sampler.RemoveObsoletePackets` (bbr_sender.go:626-632);
    `lostPackets[len(lostPackets)-1]` faults when both lists are empty -/
def leastUnacked (e : Ev) : Res Int :=
  match e.acked.getLast? with
  | some p => .ok (p.1 - 2)
  | none =>
    match e.lost.getLast? with
    | some p => .ok (p.1 + 1)
    | none => .panic

/-- `OnCongestionEventEx` (bbr_sender.go:538-638): new state and the `leastUnacked` it prunes with -/
def onCongestionEvent (s : S) (e : Ev) : Res (S × Int) := do
  let hasLosses := !e.lost.isEmpty
  let s := { s with bytesInFlight := e.prior - sumBytes e.acked - sumBytes e.lost }
  let (s, isRoundStart) :=
    match e.acked.getLast? with
    | some p =>
      let (s, rs) := updateRoundTripCounter s p.1
      (updateRecoveryState s p.1 hasLosses rs, rs)
    | none => (s, false)
  let s := if e.env.sampleValid then
      { s with lastSampleIsAppLimited := e.env.sampleAppLimited,
               hasNoAppLimitedSample := s.hasNoAppLimitedSample || !e.env.sampleAppLimited }
    else s
  let (s, minRttExpired) :=
    match e.env.sampleRtt with
    | some r => maybeUpdateMinRtt s e.now r
    | none => (s, false)
  let s := if hasLosses then
      { s with numLossEventsInRound := s.numLossEventsInRound + 1,
               bytesLostInRound := s.bytesLostInRound + e.env.bytesLost }
    else s
  let s ← if s.mode = .probeBw then updateGainCyclePhase s e hasLosses else pure s
  let s := if isRoundStart ∧ !s.isAtFullBandwidth then checkIfFullBandwidthReached s e else s
  let s ← maybeExitStartupOrDrain s e
  let s ← maybeEnterOrExitProbeRtt s e isRoundStart minRttExpired
  let s ← calculatePacingRate s e
  let s := calculateCongestionWindow s e
  let s := calculateRecoveryWindow s e
  let lu ← leastUnacked e
  let s := if isRoundStart then { s with numLossEventsInRound := 0, bytesLostInRound := 0 } else s
  pure (s, lu)

/-! ### events of a connection -/

inductive Event where
  | sent (inflight : Nat) (pn : Int)
  | mds (n : Nat)
  | cong (e : Ev)
  deriving Repr

def step (s : S) : Event → Res S
  | .sent inflight pn => .ok (onPacketSent s inflight pn)
  | .mds n => setMds s n
  | .cong e => do let (s', _) ← onCongestionEvent s e; pure s'

def run : S → List Event → Res S
  | s, [] => .ok s
  | s, ev :: evs => do
    let s' ← step s ev
    run s' evs

/-! ### the pacer (core/internal/congestion/common/pacer.go), non-zero `lastSentTime` case -/

structure Pacer where
  budgetAtLastSent : Nat
  mds : Nat
  last : Nat
  deriving DecidableEq, Repr

def maxBurst (bw mds : Nat) : Nat :=
  max (4 * Gen.quic_MinPacingDelayNs * bw / 1000000000) (10 * mds)

/-- `Budget(now)` -/
def Pacer.budget (p : Pacer) (bw now : Nat) : Nat :=
  min (maxBurst bw p.mds) (p.budgetAtLastSent + bw * (now - p.last) / 1000000000)

def ceilDiv (a b : Nat) : Nat := a / b + (if a % b > 0 then 1 else 0)

/-- `TimeUntilSend()`: `diff / bw` on uint64 faults when the bandwidth is 0 -/
def Pacer.timeUntilSend (p : Pacer) (bw : Nat) : Res Nat :=
  if p.budgetAtLastSent ≥ p.mds then .ok 0
  else if bw = 0 then .panic
  else .ok (p.last + max Gen.quic_MinPacingDelayNs (ceilDiv (1000000000 * (p.mds - p.budgetAtLastSent)) bw))

end Hy.Bbr
