/-
  Model of app/internal/socks5/server.go (`Server.dispatch`, `negotiate`, `handleTCP`,
  `handleUDP` up to the point where relaying starts) on top of the byte-level RFC 1928 /
  RFC 1929 parsers of github.com/txthinking/socks5 (server_side.go:
  NewNegotiationRequestFrom, NewUserPassNegotiationRequestFrom, NewRequestFrom, and
  util.go: Request.Address).

  The client's byte stream is a `List Bytes`: the chunks in which the transport
  delivers it (any chunking; an empty chunk is a `(0, nil)` read). The only primitive
  the parsers use on the conn is `io.ReadFull` (`takeC`). Everything the server does
  that is visible outside (writes to the client, the AuthFunc call with its arguments and
  verdict, HyClient.TCP(addr), HyClient.UDP(), what the upstream conn receives, Close)
  is an `Eff`; a run is the list of effects in program order.

  Inputs that are the environment's choice are parameters: the AuthFunc itself, the
  result of the dial (`dialOk`), of HyClient.UDP() (`udpOk`) and of the local UDP bind
  (`localOk`). Writes to the client are assumed to succeed (a failing write only ends
  the run earlier: `negotiate` returns false and the conn is closed).
  Core Lean only.
-/
import Hy.Model.Conn
namespace Hy.Socks5
open Hy

export Hy.Conn (Stream takeC)

inductive Eff where
  | write (bs : Bytes)                    -- conn.Write (a reply to the local client)
  | authCall (u p : Bytes) (r : Bool)     -- s.AuthFunc(u, p) returned r
  | hyTCP (addr : Bytes)                  -- s.HyClient.TCP(addr)
  | hyUDP                                 -- s.HyClient.UDP()
  | udpReply                              -- sendUDPReply (bind address is the environment's)
  | upstream (bs : Bytes)                 -- everything the upstream conn received (io.Copy(rConn, conn))
  | hold (bs : Bytes)                     -- UDP associate: the TCP conn is drained into io.Discard
  | close                                 -- conn.Close()
  deriving DecidableEq, Repr

structure Cfg where
  authSet : Bool                 -- s.AuthFunc != nil
  auth : Bytes → Bytes → Bool    -- s.AuthFunc
  disableUDP : Bool
  dialOk : Bool                  -- HyClient.TCP succeeds
  udpOk : Bool                   -- HyClient.UDP succeeds
  localOk : Bool                 -- SplitHostPort(LocalAddr) / ResolveUDPAddr / ListenUDP succeed

/-! ### constants of txthinking/socks5 (socks5.go) -/
def ver : Nat := 5
def methodNone : Nat := 0
def methodUserPass : Nat := 2
def methodUnsupportAll : Nat := 255
def userPassVer : Nat := 1
def cmdConnect : Nat := 1
def cmdUDP : Nat := 3
def atypIPv4 : Nat := 1
def atypDomain : Nat := 3
def atypIPv6 : Nat := 4
def repSuccess : Nat := 0
def repServerFailure : Nat := 1
def repHostUnreachable : Nat := 4
def repCommandNotSupported : Nat := 7

/-- sendSimpleReply(conn, rep): VER REP RSV ATYP=IPv4 0.0.0.0 port 0 -/
def simpleReply (rep : Nat) : Bytes :=
  [byte ver, byte rep, byte 0, byte atypIPv4, byte 0, byte 0, byte 0, byte 0, byte 0, byte 0]

/-! ### NewNegotiationRequestFrom -/
def readMethods (s : Stream) : Option (Bytes × Stream) :=
  match takeC 2 s with
  | some ([v, n], s1) =>
    if v.val ≠ ver then none
    else if n.val = 0 then none
    else takeC n.val s1
  | _ => none

/-- NewUserPassNegotiationRequestFrom: VER=1 ULEN UNAME PLEN PASSWD, both lengths ≥ 1 -/
def readUserPass (s : Stream) : Option (Bytes × Bytes × Stream) :=
  match takeC 2 s with
  | some ([v, ul], s1) =>
    if v.val ≠ userPassVer then none
    else if ul.val = 0 then none
    else match takeC (ul.val + 1) s1 with
      | none => none
      | some (ub, s2) =>
        match ub[ul.val]? with
        | none => none           -- unreachable: ub has ul+1 bytes
        | some pl =>
          if pl.val = 0 then none
          else match takeC pl.val s2 with
            | none => none
            | some (p, s3) => some (ub.take ul.val, p, s3)
  | _ => none

/-- `Server.negotiate`: (ok, effects, unread stream) -/
def negotiate (c : Cfg) (s : Stream) : Bool × List Eff × Stream :=
  match readMethods s with
  | none => (false, [], s)
  | some (ms, s1) =>
    let serverMethod := if c.authSet then methodUserPass else methodNone
    if ¬ ms.any (fun m => m.val == serverMethod) then
      (false, [.write [byte ver, byte methodUnsupportAll]], s1)
    else
      let w1 := Eff.write [byte ver, byte serverMethod]
      if c.authSet then
        match readUserPass s1 with
        | none => (false, [w1], s1)
        | some (u, p, s2) =>
          if c.auth u p then
            (true, [w1, .authCall u p true, .write [byte userPassVer, byte 0]], s2)
          else
            (false, [w1, .authCall u p false, .write [byte userPassVer, byte 1]], s2)
      else (true, [w1], s1)

/-! ### NewRequestFrom -/
structure Req where
  cmd : Nat
  atyp : Nat
  addr : Bytes      -- DstAddr (for a domain: including the leading length byte)
  port : Bytes
  deriving DecidableEq, Repr

def readRequest (s : Stream) : Option (Req × Stream) :=
  match takeC 4 s with
  | some ([v, cmd, _rsv, atyp], s1) =>
    if v.val ≠ ver then none
    else
      let addrR : Option (Bytes × Stream) :=
        if atyp.val = atypIPv4 then takeC 4 s1
        else if atyp.val = atypIPv6 then takeC 16 s1
        else if atyp.val = atypDomain then
          match takeC 1 s1 with
          | some ([dl], s2) =>
            if dl.val = 0 then none
            else match takeC dl.val s2 with
              | some (a, s3) => some (dl :: a, s3)
              | none => none
          | _ => none
        else none
      match addrR with
      | none => none
      | some (addr, s4) =>
        match takeC 2 s4 with
        | some (port, s5) => some ({ cmd := cmd.val, atyp := atyp.val, addr := addr, port := port }, s5)
        | none => none
  | _ => none

/-! ### Request.Address(): net.IP.String / net.JoinHostPort / strconv.Itoa -/
def ascii (s : String) : Bytes := s.toList.map (fun ch => byte ch.toNat)

def decimal (n : Nat) : Bytes := ascii (toString n)

def hexDigitB (n : Nat) : Byte := if n < 10 then byte (48 + n) else byte (87 + n)

/-- lower-case hex without leading zeros (netip appendHex) -/
def hexNoLead (n : Nat) : Bytes :=
  if n ≥ 4096 then [hexDigitB (n / 4096), hexDigitB (n / 256 % 16), hexDigitB (n / 16 % 16), hexDigitB (n % 16)]
  else if n ≥ 256 then [hexDigitB (n / 256), hexDigitB (n / 16 % 16), hexDigitB (n % 16)]
  else if n ≥ 16 then [hexDigitB (n / 16), hexDigitB (n % 16)]
  else [hexDigitB n]

def dotted (a : Bytes) : Bytes :=
  (ascii ".").intercalate (a.map (fun b => decimal b.val))

def groups16 : Bytes → List Nat
  | hi :: lo :: r => (hi.val * 256 + lo.val) :: groups16 r
  | _ => []

/-- length of the run of zero groups starting at index i -/
def zeroRun (g : List Nat) (i : Nat) : Nat := ((g.drop i).takeWhile (· == 0)).length

/-- netip.Addr.appendTo6: the longest run (≥ 2) of zero groups, the first one on a tie;
    (255, 255) = none, as in the Go code -/
def bestZeroRun (g : List Nat) : Nat × Nat :=
  (List.range 8).foldl (fun (best : Nat × Nat) i =>
    let l := zeroRun g i
    if l ≥ 2 ∧ l > best.2 - best.1 then (i, i + l) else best) (255, 255)

/-- the printing loop of appendTo6: at the gap print "::" and continue with the group
    after it WITHOUT a separator (`i = zeroEnd` skips the `else if i > 0` branch) -/
def ipv6Loop (g : List Nat) (z : Nat × Nat) : Nat → Nat → Bytes
  | 0, _ => []
  | fuel+1, i =>
    if i ≥ 8 then []
    else if i = z.1 then
      ascii "::" ++ (if z.2 ≥ 8 then [] else hexNoLead (g.getD z.2 0) ++ ipv6Loop g z fuel (z.2 + 1))
    else (if i > 0 then ascii ":" else []) ++ hexNoLead (g.getD i 0) ++ ipv6Loop g z fuel (i + 1)

def ipv6String (a : Bytes) : Bytes :=
  let g := groups16 a
  ipv6Loop g (bestZeroRun g) 9 0

def isV4Mapped (a : Bytes) : Bool :=
  (a.take 10).all (fun b => b.val == 0) && (a.getD 10 (byte 0)).val == 255 && (a.getD 11 (byte 0)).val == 255

/-- net.IP(a).String() for len 4 / 16 -/
def ipString (a : Bytes) : Bytes :=
  if a.length = 4 then dotted a
  else if isV4Mapped a then dotted (a.drop 12)
  else ipv6String a

def joinHostPort (host port : Bytes) : Bytes :=
  if host.any (fun b => b.val == 58) then ascii "[" ++ host ++ ascii "]:" ++ port
  else host ++ ascii ":" ++ port

def Req.address (r : Req) : Bytes :=
  let host := if r.atyp = atypDomain then r.addr.drop 1 else ipString r.addr
  let port := match r.port with
    | [hi, lo] => decimal (hi.val * 256 + lo.val)
    | _ => decimal 0
  joinHostPort host port

/-! ### handleTCP / handleUDP / dispatch -/
def handleTCP (c : Cfg) (r : Req) (rest : Stream) : List Eff :=
  .hyTCP r.address ::
    (if c.dialOk then [.write (simpleReply repSuccess), .upstream rest.flatten, .close]
     else [.write (simpleReply repHostUnreachable), .close])

def handleUDP (c : Cfg) (rest : Stream) : List Eff :=
  if ¬ c.localOk then [.write (simpleReply repServerFailure), .close]
  else .hyUDP ::
    (if c.udpOk then [.udpReply, .hold rest.flatten, .close]
     else [.write (simpleReply repServerFailure), .close])

/-- what follows a successful negotiation -/
def serve (c : Cfg) (s : Stream) : List Eff :=
  match readRequest s with
  | none => [.close]
  | some (r, rest) =>
    if r.cmd = cmdConnect then handleTCP c r rest
    else if r.cmd = cmdUDP then
      if c.disableUDP then [.write (simpleReply repCommandNotSupported), .close]
      else handleUDP c rest
    else [.write (simpleReply repCommandNotSupported), .close]

/-- `Server.dispatch(conn)` -/
def run (c : Cfg) (s : Stream) : List Eff :=
  match negotiate c s with
  | (false, effs, _) => effs ++ [.close]
  | (true, effs, s1) => effs ++ serve c s1

end Hy.Socks5
