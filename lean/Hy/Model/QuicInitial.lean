/-
  Model of the QUIC sniffer chain (C17 `udp_unmodified`, C03 `quic_sniff_total`):
    extras/sniff/internal/quic/header.go   parseLongHeader / ParseInitialHeader
    extras/sniff/internal/quic/payload.go  ReadCryptoPayload, extractCryptoFrames, assembleCryptoFrames
    extras/sniff/internal/quic/packet_protector.go  UnProtect
    extras/sniff/sniff.go                  Sniffer.UDP
  Core Lean only.

  * Everything runs in `Res` (ok | reject | panic); every Go index / slice expression whose
    bound is not the loop's own guard is a `Res` primitive, so a panic is explicit.
  * AES / HKDF / AEAD are PARAMETERS (`Crypto`): `mask` is the header-protection function
    (AES block of the 16-byte sample), `open_` the AEAD (`none` = authentication failure),
    `scribble` what a failed in-place Open leaves in its output buffer (Go's GCM zeroes it).
    They receive the key material (version, DCID) so nothing the real functions depend on is hidden.
  * The packet buffer is a VALUE that is threaded through UnProtect and returned, so the
    in-place writes (first byte, packet-number bytes, decrypted payload) are visible.
    A Go slice is (backing array from the slice start up to its capacity, length): a
    two-index slice expression is checked against the CAPACITY, an index and `s[a:]` against
    the length — exactly Go's rules; that is what makes the pinned tree's 10-byte crash a
    faithful fact (`[:29] with capacity 10`).
  * `Cfg.checkAll` = the D2 repair (minimum-length test for every header form, not only long
    headers); `Cfg.copyFirst` = the D3 repair (ReadCryptoPayload unprotects a copy).
  * `sort.Slice` is not stable: the order it produces is a parameter (`sortFn`); the only
    contract the theorems use is that it permutes in place, i.e. keeps the length.
-/
import Hy.Base.Bytes
import Hy.Base.Res
import Hy.Base.Varint
import Hy.Model.Sniff
namespace Hy.Quic
open Hy

structure Cfg where
  checkAll : Bool
  copyFirst : Bool
deriving DecidableEq, Repr

def fixed : Cfg := ⟨true, true⟩
def pinned : Cfg := ⟨false, false⟩

structure Crypto where
  mask : (ver : Nat) → (dcid : Bytes) → (sample : Bytes) → Bytes
  open_ : (ver : Nat) → (dcid : Bytes) → (pn : Nat) → (hdr : Bytes) → (ct : Bytes) → Option Bytes
  scribble : Bytes → Bytes

def V1 : Nat := 1
def V2 : Nat := 0x6b3343cf

structure Header where
  typeByte : Byte
  version : Nat
  dcid : Bytes
  scid : Bytes
  token : Bytes
  length : Nat
deriving DecidableEq, Repr

/-! ### header.go -/

/-- `bytes.Reader.ReadByte` on the unread remainder -/
def readByte : Bytes → Res (Byte × Bytes)
  | [] => .reject
  | b :: r => .ok (b, r)

/-- `beUint32`: io.ReadFull of 4 bytes -/
def beUint32 (r : Bytes) : Res (Nat × Bytes) :=
  match r with
  | a :: b :: c :: d :: r' => .ok (a.val * 16777216 + b.val * 65536 + c.val * 256 + d.val, r')
  | _ => .reject

/-- `readConnectionID`: io.ReadFull into a zeroed `make([]byte, n)`; only a PARTIAL fill is an
    error — an empty reader yields io.EOF, which the function swallows (the id stays zero). -/
def readConnID (n : Nat) (r : Bytes) : Res (Bytes × Bytes) :=
  if n ≤ r.length then .ok (r.take n, r.drop n)
  else if r.isEmpty then .ok (List.replicate n 0, [])
  else .reject

def readVarint (r : Bytes) : Res (Nat × Bytes) :=
  match Varint.dec r with
  | some x => .ok x
  | none => .reject

def parseLongHeader (data : Bytes) : Res (Header × Bytes) := do
  let (typeByte, r) ← readByte data
  let (ver, r) ← beUint32 r
  if ver ≠ 0 ∧ typeByte.val / 64 % 2 = 0 then .reject else
  let (dl, r) ← readByte r
  let (dcid, r) ← readConnID dl.val r
  let (sl, r) ← readByte r
  let (scid, r) ← readConnID sl.val r
  let initialType := if ver = V2 then 1 else 0
  let (token, r) ←
    (if typeByte.val / 16 % 4 = initialType then do
        let (tl, r) ← readVarint r
        if tl > r.length then .reject else
        pure (r.take tl, r.drop tl)
      else pure ([], r) : Res (Bytes × Bytes))
  let (pl, r) ← readVarint r
  pure (⟨typeByte, ver, dcid, scid, token, pl⟩, r)

/-! ### packet_protector.go -/

/-- `decodePacketNumber(largest, truncated, nbits)` (values stay far below 2^62 here) -/
def decodePacketNumber (largest truncated nbits : Nat) : Nat :=
  let expected := largest + 1
  let win := 2 ^ (nbits * 8)
  let hwin := win / 2
  let candidate := expected / win * win + truncated
  if candidate + hwin ≤ expected ∧ candidate + win < 2 ^ 62 then candidate + win
  else if candidate > expected + hwin ∧ candidate ≥ win then candidate - win
  else candidate

/-- the loop `for i < pnLen { packet[pnOffset:][i] ^= mask[1+i]; pn = pn<<8 | ... }`;
    `packet[pnOffset:]` needs `pnOffset ≤ len`, the index `i < len - pnOffset`. -/
def pnLoop (m : Bytes) (len pnOffset : Nat) : Nat → Nat → Bytes → Nat → Res (Bytes × Nat)
  | 0, _, arr, pn => .ok (arr, pn)
  | n + 1, i, arr, pn => do
    if pnOffset > len then .panic else
    if i ≥ len - pnOffset then .panic else
    let b ← Res.idx arr (pnOffset + i)
    let mi ← Res.idx m (1 + i)
    let b' := bxor b mi
    pnLoop m len pnOffset n (i + 1) (arr.set (pnOffset + i) b') (pn * 256 + b'.val)

/-- in-place write of `bs` at `off` -/
def writeAt (arr : Bytes) (off : Nat) (bs : Bytes) : Bytes :=
  arr.take off ++ bs ++ arr.drop (off + bs.length)

/-- `UnProtect(packet, pnOffset, pnMax)`: `arr` is the backing array of `packet` from its
    start to its capacity, `len` its length.  Returns the array afterwards and the result
    (`none` = an error was returned). -/
def unprotect (cfg : Cfg) (C : Crypto) (ver : Nat) (dcid : Bytes)
    (arr : Bytes) (len pnOffset pnMax : Nat) : Res (Bytes × Option Bytes) := do
  if len = 0 then .panic else                                   -- packet[0]
  let b0 ← Res.idx arr 0
  let isLong := decide (b0.val ≥ 128)
  if (isLong || cfg.checkAll) && decide (len < pnOffset + 4 + 16) then pure (arr, none) else
  let sample ← Res.slice arr (pnOffset + 4) (pnOffset + 4 + 16) -- bound: capacity
  let m := C.mask ver dcid sample
  let m0 ← Res.idx m 0
  let b0' := bxor b0 (byte (m0.val % (if isLong then 16 else 32)))
  let arr := arr.set 0 b0'
  let pnLen := b0'.val % 4 + 1
  let (arr, pnT) ← pnLoop m len pnOffset pnLen 0 arr 0
  let pn := decodePacketNumber pnMax pnT pnLen
  let hdr ← Res.slice arr 0 (pnOffset + pnLen)                  -- packet[:pnOffset+pnLen], bound: capacity
  if pnOffset > len then .panic else                            -- packet[pnOffset:]
  if pnLen > len - pnOffset then .panic else                    -- [pnLen:]
  let payload := (arr.take len).drop (pnOffset + pnLen)
  if payload.length < 16 then pure (arr, none) else             -- GCM: ciphertext shorter than the tag
  match C.open_ ver dcid pn hdr payload with
  | some dec => pure (writeAt arr (pnOffset + pnLen) dec, some dec)
  | none =>
    let z := (C.scribble payload).take (payload.length - 16)
    pure (writeAt arr (pnOffset + pnLen) z, none)

/-! ### payload.go -/

structure Frame where
  offset : Nat
  data : Bytes
deriving DecidableEq, Repr

def maxCryptoFrameDataLen : Nat := 256 * 1024
def maxCryptoPayloadLen : Nat := 256 * 1024

/-- `extractCryptoFrames` over the reader's remainder (fuel: each round consumes ≥ 1 byte) -/
def extractAux : Nat → Bytes → List Frame → Res (List Frame)
  | 0, _, _ => .reject                       -- unreachable with fuel = length + 1
  | fuel + 1, r, acc =>
    if r.isEmpty then .ok acc.reverse else do
    let (typ, r) ← readVarint r
    if typ = 0 ∨ typ = 1 then extractAux fuel r acc else
    if typ ≠ 6 then .reject else
    let (off, r) ← readVarint r
    let (dl, r) ← readVarint r
    if dl > maxCryptoFrameDataLen then .reject else
    if dl > r.length then .reject else
    extractAux fuel (r.drop dl) (⟨off, r.take dl⟩ :: acc)

def extractCryptoFrames (r : Bytes) : Res (List Frame) := extractAux (r.length + 1) r []

/-- the contiguity loop (`frames[i]`, `frames[i-1]` are within the loop's own guard) -/
def contiguous : List Frame → Bool
  | a :: b :: rest => b.offset == a.offset + a.data.length && contiguous (b :: rest)
  | _ => true

/-- `copy(data[frame.Offset:], frame.Data)` for every frame -/
def copyFrames : List Frame → Bytes → Res Bytes
  | [], data => .ok data
  | f :: fs, data => do
    let dst ← Res.sliceFrom data f.offset
    copyFrames fs (data.take f.offset ++ f.data.take dst.length ++ dst.drop f.data.length)

/-- `assembleCryptoFrames`; `reject` = returned nil -/
def assembleCryptoFrames (sortFn : List Frame → List Frame) (frames : List Frame) : Res Bytes :=
  match frames with
  | [] => .reject
  | [f] => .ok f.data
  | f1 :: f2 :: rest => do
    let fs := sortFn (f1 :: f2 :: rest)
    if !contiguous fs then .reject else
    if fs.length = 0 then .panic else                            -- frames[len(frames)-1]
    let last ← Res.idx fs (fs.length - 1)
    if last.offset > maxCryptoPayloadLen then .reject else
    let end_ := last.offset + last.data.length
    if end_ > maxCryptoPayloadLen then .reject else
    copyFrames fs (List.replicate end_ 0)

/-- turn a Go error return into a value so the threaded buffer survives it -/
def catchReject {α} (r : Res α) : Res (Option α) :=
  match r with
  | .ok a => .ok (some a)
  | .reject => .ok none
  | .panic => .panic

/-- `ReadCryptoPayload(packet)`: (the caller's slice afterwards, payload or `none` for an error).
    The caller's slice has cap == len (the harness guarantees it; a larger capacity only
    turns some of the pinned tree's panics into over-reads). -/
def readCryptoPayload (cfg : Cfg) (C : Crypto) (sortFn : List Frame → List Frame)
    (data : Bytes) : Res (Bytes × Option Bytes) := do
  let some (hdr, rest) ← catchReject (parseLongHeader data) | pure (data, none)
  let offset := data.length - rest.length
  if hdr.version ≠ V1 ∧ hdr.version ≠ V2 then pure (data, none) else
  if offset = 0 ∨ hdr.length = 0 then pure (data, none) else
  if data.length < offset + hdr.length then pure (data, none) else
  let n := offset + hdr.length
  let pkt ← Res.sliceTo data n                                   -- packet[:offset+hdr.Length]
  -- copyFirst: bytes.Clone — a fresh array; only its first n bytes are ever addressed
  -- (the repaired UnProtect never goes past the length).  Otherwise the caller's array itself.
  let arr := if cfg.copyFirst then pkt else data
  let (arr', r) ← unprotect cfg C hdr.version hdr.dcid arr n offset 2
  let data' := if cfg.copyFirst then data else arr'
  match r with
  | none => pure (data', none)
  | some dec =>
    let some frs ← catchReject (extractCryptoFrames dec) | pure (data', none)
    let some pl ← catchReject (assembleCryptoFrames sortFn frs) | pure (data', none)
    pure (data', some pl)

/-! ### Sniffer.UDP -/

structure UdpOut where
  data : Bytes        -- the slice the server forwards next
  addr : Bytes
  err : Bool          -- the hook returned an error (session is not created)
deriving DecidableEq, Repr

def sniffUDP (cfg : Cfg) (C : Crypto) (sortFn : List Frame → List Frame)
    (sni : Bytes → Option Bytes) (addr data : Bytes) : Res UdpOut := do
  let (data', pl) ← readCryptoPayload cfg C sortFn data
  match pl with
  | none => pure ⟨data', addr, false⟩
  | some pl =>
    if pl.length < 4 then pure ⟨data', addr, false⟩ else
    let p0 ← Res.idx pl 0
    if p0.val ≠ 1 then pure ⟨data', addr, false⟩ else
    match sni pl with
    | some name =>
      if name ≠ [] then
        match Sniff.splitHostPort addr with
        | none => pure ⟨data', addr, true⟩
        | some (_, port) => pure ⟨data', Sniff.joinHostPort name port, false⟩
      else pure ⟨data', addr, false⟩
    | none => pure ⟨data', addr, false⟩

end Hy.Quic
