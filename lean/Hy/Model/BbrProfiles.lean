/- C12(b): the three profiles of configForProfile (bbr_sender.go:132-165) as `Cfg` values,
   built from constants regenerated from the compiled package. Core Lean only. -/
import Hy.Model.BbrCore
namespace Hy.Bbr

def stdCfg : Cfg :=
  { numStartupRtts := Gen.bbr_standard_numStartupRtts
    drainToTarget := Gen.bbr_standard_drainToTarget == 1
    bytesLostMultiplier := Gen.bbr_standard_bytesLostMultiplier
    ackAggStartup := Gen.bbr_standard_ackAggStartup == 1
    expireAckAggStartup := Gen.bbr_standard_expireAckAggStartup == 1
    detectOvershooting := Gen.bbr_standard_detectOvershooting == 1 }

def conCfg : Cfg :=
  { numStartupRtts := Gen.bbr_conservative_numStartupRtts
    drainToTarget := Gen.bbr_conservative_drainToTarget == 1
    bytesLostMultiplier := Gen.bbr_conservative_bytesLostMultiplier
    ackAggStartup := Gen.bbr_conservative_ackAggStartup == 1
    expireAckAggStartup := Gen.bbr_conservative_expireAckAggStartup == 1
    detectOvershooting := Gen.bbr_conservative_detectOvershooting == 1 }

def aggCfg : Cfg :=
  { numStartupRtts := Gen.bbr_aggressive_numStartupRtts
    drainToTarget := Gen.bbr_aggressive_drainToTarget == 1
    bytesLostMultiplier := Gen.bbr_aggressive_bytesLostMultiplier
    ackAggStartup := Gen.bbr_aggressive_ackAggStartup == 1
    expireAckAggStartup := Gen.bbr_aggressive_expireAckAggStartup == 1
    detectOvershooting := Gen.bbr_aggressive_detectOvershooting == 1 }

def cfgOf (p : String) : Option Cfg :=
  if p = "std" then some stdCfg else if p = "con" then some conCfg else if p = "agg" then some aggCfg else none

end Hy.Bbr
