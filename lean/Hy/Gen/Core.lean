/- REGENERATED from /repo on every run by tools/run.py (`verif-core consts`). Do not edit. -/
namespace Hy.Gen
def FrameTypeTCPRequest : Nat := 1025
def MaxAddressLength : Nat := 2048
def MaxDatagramFrameSize : Nat := 1200
def MaxMessageLength : Nat := 2048
def MaxPaddingLength : Nat := 4096
def MaxUDPSize : Nat := 4096
def authRequestPaddingMax : Nat := 2048
def authRequestPaddingMin : Nat := 256
def authResponsePaddingMax : Nat := 2048
def authResponsePaddingMin : Nat := 256
def tcpRequestPaddingMax : Nat := 512
def tcpRequestPaddingMin : Nat := 64
def tcpResponsePaddingMax : Nat := 1024
def tcpResponsePaddingMin : Nat := 128
end Hy.Gen
