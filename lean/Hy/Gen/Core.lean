/- REGENERATED from /repo on every run by tools/run.py (harness/gen). Do not edit. -/
namespace Hy.Gen
def FrameTypeTCPRequest : Nat := 1025
def MaxAddressLength : Nat := 2048
def MaxMessageLength : Nat := 2048
def MaxPaddingLength : Nat := 4096
def MaxDatagramFrameSize : Nat := 1200
def MaxUDPSize : Nat := 4096
def tcpRequestPaddingMin : Nat := 64
def tcpRequestPaddingMax : Nat := 512
def tcpResponsePaddingMin : Nat := 128
def tcpResponsePaddingMax : Nat := 1024
def authRequestPaddingMin : Nat := 256
def authRequestPaddingMax : Nat := 2048
def authResponsePaddingMin : Nat := 256
def authResponsePaddingMax : Nat := 2048
end Hy.Gen
