/-
  Lemmas about Hy.Model.PortUnion (C19): the specification of port expressions
  (`IsPortNum`, `ItemDen`, `Denotes`), parser soundness/completeness, Normalize keeps the
  denoted set and produces the normal form, Ports enumerates exactly the set.
-/
import Hy.Model.PortUnion
namespace Hy.PortUnion

/-! ## Specification (independent of the parser's control flow) -/

/-- positional decimal value -/
def decFrom (n : Nat) (cs : List Char) : Nat := cs.foldl (fun n c => 10 * n + digitVal c) n
def decVal (cs : List Char) : Nat := decFrom 0 cs

/-- `cs` is a decimal numeral (digits only, at least one, any number of leading zeros)
    of a port number `v` -/
def IsPortNum (cs : List Char) (v : Nat) : Prop :=
  cs ≠ [] ∧ (∀ c ∈ cs, c.isDigit = true) ∧ decVal cs = v ∧ v ≤ 65535

/-- an item is a port `n` (denoting `[n, n]`) or `a-b` (denoting `[min a b, max a b]`) -/
def ItemDen (cs : List Char) (lo hi : Nat) : Prop :=
  (IsPortNum cs lo ∧ hi = lo) ∨
  (∃ a b x y, cs = a ++ '-' :: b ∧ IsPortNum a x ∧ IsPortNum b y ∧ lo = min x y ∧ hi = max x y)

/-- pointwise relation between two lists of the same length -/
inductive All₂ {α β : Type} (P : α → β → Prop) : List α → List β → Prop
  | nil : All₂ P [] []
  | cons {a b l m} : P a b → All₂ P l m → All₂ P (a :: l) (b :: m)

/-- texts joined with a separator (the inverse of `strings.Split`) -/
def join (sep : Char) : List (List Char) → List Char
  | [] => []
  | [p] => p
  | p :: q :: r => p ++ sep :: join sep (q :: r)

/-- the expression `cs` lists exactly the inclusive ranges `L` (in order):
    `all`, `*`, or a non-empty comma-separated list of items -/
def Denotes (cs : List Char) (L : List (Nat × Nat)) : Prop :=
  ((cs = allChars ∨ cs = ['*']) ∧ L = [(0, 65535)]) ∨
  (∃ texts, texts ≠ [] ∧ cs = join ',' texts ∧
      All₂ (fun t (lh : Nat × Nat) => ItemDen t lh.1 lh.2) texts L)

/-- membership in the union of the listed ranges -/
def InUnion (L : List (Nat × Nat)) (p : Nat) : Prop := ∃ lh ∈ L, lh.1 ≤ p ∧ p ≤ lh.2

/-- well-formed list of ranges: Start ≤ End ≤ 65535 -/
def WF (u : PU) : Prop := ∀ r ∈ u, r.s ≤ r.e ∧ r.e ≤ 65535

/-- sorted by start, pairwise disjoint and not even adjacent -/
def NormalForm (u : PU) : Prop := WF u ∧ List.Pairwise (fun a b => a.e + 1 < b.s) u

/-! ## ParseUint -/

theorem decFrom_ge (n : Nat) (cs : List Char) : n ≤ decFrom n cs := by
  induction cs generalizing n with
  | nil => simp [decFrom]
  | cons c cs ih =>
    have := ih (10 * n + digitVal c)
    simp only [decFrom, List.foldl_cons] at this ⊢
    omega

theorem parseUintLoop_spec (n : Nat) (cs : List Char) (v : Nat) (hn : n ≤ 65535) :
    parseUintLoop n cs = some v ↔ (∀ c ∈ cs, c.isDigit = true) ∧ decFrom n cs = v ∧ v ≤ 65535 := by
  induction cs generalizing n with
  | nil =>
    simp only [parseUintLoop, decFrom, List.foldl_nil, Option.some.injEq]
    constructor
    · intro h; subst h; exact ⟨by simp, rfl, hn⟩
    · rintro ⟨_, h, _⟩; exact h
  | cons c cs ih =>
    simp only [parseUintLoop]
    by_cases hd : c.isDigit = true
    · simp only [hd, if_true]
      by_cases hbig : 10 * n + digitVal c > 65535
      · simp only [hbig, if_true]
        constructor
        · intro h; cases h
        · rintro ⟨_, h, hv⟩
          have := decFrom_ge (10 * n + digitVal c) cs
          simp only [decFrom, List.foldl_cons] at h this
          omega
      · simp only [hbig, if_false]
        rw [ih _ (by omega)]
        constructor
        · rintro ⟨h1, h2, h3⟩
          refine ⟨?_, ?_, h3⟩
          · intro c' hc'
            rcases List.mem_cons.mp hc' with h | h
            · subst h; exact hd
            · exact h1 c' h
          · simpa [decFrom] using h2
        · rintro ⟨h1, h2, h3⟩
          refine ⟨fun c' hc' => h1 c' (List.mem_cons_of_mem _ hc'), ?_, h3⟩
          simpa [decFrom] using h2
    · simp only [hd]
      constructor
      · intro h; cases h
      · rintro ⟨h1, _⟩
        exact absurd (h1 c (List.mem_cons_self)) hd

theorem parseUint16_spec (cs : List Char) (v : Nat) :
    parseUint16 cs = some v ↔ IsPortNum cs v := by
  unfold parseUint16 IsPortNum decVal
  cases cs with
  | nil => simp
  | cons c cs =>
    simp only [List.isEmpty_cons, Bool.false_eq_true, if_false, ne_eq, reduceCtorEq,
      not_false_eq_true, true_and]
    rw [parseUintLoop_spec _ _ _ (by omega)]

theorem IsPortNum.unique {cs : List Char} {v w : Nat} (h1 : IsPortNum cs v) (h2 : IsPortNum cs w) :
    v = w := by
  rw [← h1.2.2.1, ← h2.2.2.1]

/-! ## Split / join -/

theorem splitOn_ne_nil (sep : Char) (cs : List Char) : splitOn sep cs ≠ [] := by
  induction cs with
  | nil => simp [splitOn]
  | cons c cs ih =>
    simp only [splitOn]
    split
    · simp
    · split <;> simp

theorem join_splitOn (sep : Char) (cs : List Char) : join sep (splitOn sep cs) = cs := by
  induction cs with
  | nil => simp [splitOn, join]
  | cons c cs ih =>
    simp only [splitOn]
    split
    · rename_i h
      subst h
      have hne := splitOn_ne_nil c cs
      cases hs : splitOn c cs with
      | nil => exact absurd hs hne
      | cons h t => rw [hs] at ih; simp [join, ih]
    · have hne := splitOn_ne_nil sep cs
      cases hs : splitOn sep cs with
      | nil => exact absurd hs hne
      | cons h t =>
        rw [hs] at ih
        simp only
        cases t with
        | nil => simp only [join] at ih ⊢; rw [ih]
        | cons q r => simp only [join, List.cons_append] at ih ⊢; rw [ih]

theorem splitOn_no_sep (sep : Char) (cs : List Char) : ∀ p ∈ splitOn sep cs, sep ∉ p := by
  induction cs with
  | nil => simp [splitOn]
  | cons c cs ih =>
    simp only [splitOn]
    split
    · intro p hp
      rcases List.mem_cons.mp hp with h | h
      · subst h; simp
      · exact ih p h
    · rename_i hc
      have hne := splitOn_ne_nil sep cs
      cases hs : splitOn sep cs with
      | nil => exact absurd hs hne
      | cons h t =>
        rw [hs] at ih
        intro p hp
        simp only [List.mem_cons] at hp
        rcases hp with hp | hp
        · subst hp
          intro hm
          rcases List.mem_cons.mp hm with h' | h'
          · exact hc h'.symm
          · exact ih h (by simp) h'
        · exact ih p (by simp [hp])

theorem splitOn_nosep {sep : Char} {p : List Char} (h : sep ∉ p) : splitOn sep p = [p] := by
  induction p with
  | nil => simp [splitOn]
  | cons c cs ih =>
    have hc : c ≠ sep := fun e => h (by simp [e])
    have hcs : sep ∉ cs := fun e => h (by simp [e])
    simp [splitOn, hc, ih hcs]

theorem splitOn_append {sep : Char} {p : List Char} (h : sep ∉ p) (rest : List Char) :
    splitOn sep (p ++ sep :: rest) = p :: splitOn sep rest := by
  induction p with
  | nil => simp [splitOn]
  | cons c cs ih =>
    have hc : c ≠ sep := fun e => h (by simp [e])
    have hcs : sep ∉ cs := fun e => h (by simp [e])
    simp [splitOn, hc, ih hcs]

theorem splitOn_join (sep : Char) (parts : List (List Char)) (hne : parts ≠ [])
    (h : ∀ p ∈ parts, sep ∉ p) : splitOn sep (join sep parts) = parts := by
  induction parts with
  | nil => exact absurd rfl hne
  | cons p rest ih =>
    cases rest with
    | nil => simp only [join]; exact splitOn_nosep (h p (by simp))
    | cons q r =>
      simp only [join]
      rw [splitOn_append (h p (by simp))]
      rw [ih (by simp) (fun x hx => h x (List.mem_cons_of_mem _ hx))]

theorem mem_join {sep : Char} {parts : List (List Char)} {c : Char} (h : c ∈ join sep parts) :
    c = sep ∨ ∃ p ∈ parts, c ∈ p := by
  induction parts with
  | nil => simp [join] at h
  | cons p rest ih =>
    cases rest with
    | nil => simp only [join] at h; exact Or.inr ⟨p, by simp, h⟩
    | cons q r =>
      simp only [join, List.mem_append, List.mem_cons] at h
      rcases h with h | h | h
      · exact Or.inr ⟨p, by simp, h⟩
      · exact Or.inl h
      · rcases ih h with h' | ⟨x, hx, hc⟩
        · exact Or.inl h'
        · exact Or.inr ⟨x, List.mem_cons_of_mem _ hx, hc⟩

/-! ## Items -/

theorem IsPortNum.no_dash {cs : List Char} {v : Nat} (h : IsPortNum cs v) : '-' ∉ cs := by
  intro hm
  have := h.2.1 '-' hm
  revert this; decide

theorem IsPortNum.chars {cs : List Char} {v : Nat} (h : IsPortNum cs v) :
    ∀ c ∈ cs, c.isDigit = true := h.2.1

theorem parseItem_spec (cs : List Char) (r : R) :
    parseItem cs = some r ↔ ItemDen cs r.s r.e := by
  unfold parseItem
  by_cases hc : cs.contains '-' = true
  · rw [if_pos hc]
    have hmem : '-' ∈ cs := by simpa using hc
    constructor
    · intro h
      have hj := join_splitOn '-' cs
      cases hs : splitOn '-' cs with
      | nil => rw [hs] at h; simp at h
      | cons a t =>
        cases t with
        | nil => rw [hs] at h; simp at h
        | cons b t2 =>
          cases t2 with
          | cons _ _ => rw [hs] at h; simp at h
          | nil =>
            rw [hs] at h hj
            simp only [join] at hj
            simp only at h
            cases ha : parseUint16 a with
            | none => rw [ha] at h; simp at h
            | some s =>
              cases hb : parseUint16 b with
              | none => rw [ha, hb] at h; simp at h
              | some e =>
                rw [ha, hb] at h
                simp only at h
                have hS := (parseUint16_spec a s).mp ha
                have hE := (parseUint16_spec b e).mp hb
                have := hS.2.2.2; have := hE.2.2.2
                right
                refine ⟨a, b, s, e, hj.symm, hS, hE, ?_, ?_⟩ <;>
                  (split at h <;> (cases h; simp only; omega))
    · rintro (⟨h, _⟩ | ⟨a, b, x, y, hcs, ha, hb, hlo, hhi⟩)
      · exact absurd hmem h.no_dash
      · subst hcs
        rw [splitOn_append ha.no_dash, splitOn_nosep hb.no_dash]
        simp only
        rw [(parseUint16_spec a x).mpr ha, (parseUint16_spec b y).mpr hb]
        simp only
        have := ha.2.2.2; have := hb.2.2.2
        cases r with
        | mk rs re =>
          simp only at hlo hhi
          split
          · simp only [Option.some.injEq, R.mk.injEq]; omega
          · simp only [Option.some.injEq, R.mk.injEq]; omega
  · rw [if_neg hc]
    have hmem : '-' ∉ cs := by simpa using hc
    constructor
    · intro h
      cases hp : parseUint16 cs with
      | none => rw [hp] at h; simp at h
      | some p =>
        rw [hp] at h
        simp only at h
        have hP := (parseUint16_spec cs p).mp hp
        have := hP.2.2.2
        cases h
        left
        simp only
        rw [Nat.mod_eq_of_lt (by omega)]
        exact ⟨hP, trivial⟩
    · rintro (⟨h, hhi⟩ | ⟨a, b, x, y, hcs, _⟩)
      · rw [(parseUint16_spec cs r.s).mpr h]
        have := h.2.2.2
        cases r with
        | mk rs re =>
          simp only at hhi this ⊢
          subst hhi
          rw [Nat.mod_eq_of_lt (by omega)]
      · subst hcs
        exact absurd (by simp) hmem

theorem ItemDen.wf {cs : List Char} {lo hi : Nat} (h : ItemDen cs lo hi) : lo ≤ hi ∧ hi ≤ 65535 := by
  rcases h with ⟨h, hhi⟩ | ⟨a, b, x, y, _, ha, hb, hlo, hhi⟩
  · have := h.2.2.2; omega
  · have := ha.2.2.2; have := hb.2.2.2; omega

theorem ItemDen.chars {cs : List Char} {lo hi : Nat} (h : ItemDen cs lo hi) :
    ∀ c ∈ cs, c.isDigit = true ∨ c = '-' := by
  rcases h with ⟨h, _⟩ | ⟨a, b, x, y, hcs, ha, hb, _, _⟩
  · intro c hc; exact Or.inl (h.chars c hc)
  · subst hcs
    intro c hc
    simp only [List.mem_append, List.mem_cons] at hc
    rcases hc with hc | hc | hc
    · exact Or.inl (ha.chars c hc)
    · exact Or.inr hc
    · exact Or.inl (hb.chars c hc)

theorem ItemDen.ne_nil {cs : List Char} {lo hi : Nat} (h : ItemDen cs lo hi) : cs ≠ [] := by
  rcases h with ⟨h, _⟩ | ⟨a, b, x, y, hcs, _⟩
  · exact h.1
  · subst hcs; simp

theorem ItemDen.unique {cs : List Char} {lo hi lo' hi' : Nat}
    (h : ItemDen cs lo hi) (h' : ItemDen cs lo' hi') : lo = lo' ∧ hi = hi' := by
  have h1 := (parseItem_spec cs ⟨lo, hi⟩).mpr h
  have h2 := (parseItem_spec cs ⟨lo', hi'⟩).mpr h'
  rw [h1] at h2
  simpa using h2

theorem parseItems_spec (texts : List (List Char)) (rs : PU) :
    parseItems texts = some rs ↔
      All₂ (fun t (r : R) => ItemDen t r.s r.e) texts rs := by
  induction texts generalizing rs with
  | nil =>
    simp only [parseItems, Option.some.injEq]
    constructor
    · intro h; subst h; exact .nil
    · intro h; cases h; rfl
  | cons t rest ih =>
    simp only [parseItems]
    constructor
    · intro h
      split at h
      · cases h
      · rename_i r hr
        split at h
        · cases h
        · rename_i rs' hrs
          cases h
          exact .cons ((parseItem_spec t r).mp hr) ((ih rs').mp hrs)
    · intro h
      cases h with
      | cons h1 h2 =>
        rename_i r rs'
        rw [(parseItem_spec t r).mpr h1, (ih rs').mpr h2]

/-! ## Contains -/

theorem contains_iff (u : PU) (p : Nat) :
    contains u p = true ↔ ∃ r ∈ u, r.s ≤ p ∧ p ≤ r.e := by
  simp [contains, R.has]

theorem contains_perm {u v : PU} (h : u.Perm v) (p : Nat) : contains u p = contains v p := by
  apply Bool.eq_iff_iff.mpr
  rw [contains_iff, contains_iff]
  constructor
  · rintro ⟨r, hr, h'⟩; exact ⟨r, h.mem_iff.mp hr, h'⟩
  · rintro ⟨r, hr, h'⟩; exact ⟨r, h.mem_iff.mpr hr, h'⟩

theorem contains_reverse (u : PU) (p : Nat) : contains u.reverse p = contains u p :=
  contains_perm (List.reverse_perm u) p

/-! ## Normalize -/

theorem insertBy_perm (a : R) (l : List R) : (insertBy a l).Perm (a :: l) := by
  induction l with
  | nil => exact List.Perm.refl _
  | cons b l ih =>
    simp only [insertBy]
    split
    · exact List.Perm.refl _
    · exact (List.Perm.cons b ih).trans (List.Perm.swap a b l)

theorem sortR_perm (u : PU) : (sortR u).Perm u := by
  induction u with
  | nil => exact List.Perm.refl _
  | cons a l ih => exact (insertBy_perm a (sortR l)).trans (List.Perm.cons a ih)

theorem insertBy_sorted (a : R) (l : List R) (h : List.Pairwise (fun x y => le x y = true) l) :
    List.Pairwise (fun x y => le x y = true) (insertBy a l) := by
  induction l with
  | nil => simp [insertBy]
  | cons b l ih =>
    have hb := List.pairwise_cons.mp h
    simp only [insertBy]
    split
    · rename_i hab
      refine List.pairwise_cons.mpr ⟨?_, h⟩
      intro x hx
      rcases List.mem_cons.mp hx with e | e
      · subst e; exact hab
      · have hbx := hb.1 x e
        simp only [le, Bool.or_eq_true, decide_eq_true_eq, Bool.and_eq_true, beq_iff_eq] at hab hbx ⊢
        omega
    · rename_i hab
      refine List.pairwise_cons.mpr ⟨?_, ih hb.2⟩
      intro x hx
      rcases List.mem_cons.mp ((insertBy_perm a l).mem_iff.mp hx) with e | e
      · subst e
        simp only [le, Bool.or_eq_true, decide_eq_true_eq, Bool.and_eq_true, beq_iff_eq] at hab ⊢
        omega
      · exact hb.1 x e

theorem sortR_sorted (u : PU) : List.Pairwise (fun x y => le x y = true) (sortR u) := by
  induction u with
  | nil => simp [sortR]
  | cons a l ih => exact insertBy_sorted a _ ih

theorem sorted_starts (u : PU) : List.Pairwise (fun a b => a.s ≤ b.s) (sortR u) := by
  refine (sortR_sorted u).imp ?_
  intro a b
  simp only [le, Bool.or_eq_true, decide_eq_true_eq, Bool.and_eq_true, beq_iff_eq]
  omega

theorem touches_iff {last c : R} (hl : last.e ≤ 65535) (hc : c.s ≤ 65535) :
    touches last c = true ↔ c.s ≤ last.e + 1 := by
  unfold touches
  rw [Nat.mod_eq_of_lt (by omega), Nat.mod_eq_of_lt (by omega), Nat.mod_eq_of_lt (by omega)]
  simp

/-- invariant of the merge loop on the reversed accumulator -/
def AccInv (acc : PU) : Prop := WF acc ∧ List.Pairwise (fun a b => b.e + 1 < a.s) acc

def StartsGE (b : Nat) (l : PU) : Prop := ∀ r ∈ l, b ≤ r.s

theorem WF.tail {r : R} {u : PU} (h : WF (r :: u)) : WF u :=
  fun x hx => h x (List.mem_cons_of_mem _ hx)

theorem mergeLoop_spec (p : Nat) :
    ∀ (rest acc : PU), WF rest → AccInv acc →
      (∀ last, acc.head? = some last → StartsGE last.s rest) →
      List.Pairwise (fun a b => a.s ≤ b.s) rest →
      AccInv (mergeLoop acc rest) ∧
      contains (mergeLoop acc rest) p = (contains acc p || contains rest p) := by
  intro rest
  induction rest with
  | nil => intro acc _ ha _ _; cases acc <;> simp [mergeLoop, contains, ha]
  | cons c rest ih =>
    intro acc hwr hacc hhead hsorted
    have hc := hwr c (by simp)
    have hwr' : WF rest := hwr.tail
    have hs' : List.Pairwise (fun a b => a.s ≤ b.s) rest := (List.pairwise_cons.mp hsorted).2
    have hcrest : StartsGE c.s rest := fun r hr => (List.pairwise_cons.mp hsorted).1 r hr
    cases acc with
    | nil =>
      simp only [mergeLoop]
      have := ih [c] hwr'
        ⟨by intro r hr; simp at hr; subst hr; exact hc, by simp⟩
        (by intro last hl; simp at hl; subst hl; exact hcrest) hs'
      refine ⟨this.1, ?_⟩
      rw [this.2]; simp [contains]
    | cons last acc =>
      have hl := hacc.1 last (by simp)
      have hlc : last.s ≤ c.s := hhead last (by simp) c (by simp)
      have hpw := List.pairwise_cons.mp hacc.2
      simp only [mergeLoop]
      split
      · rename_i hov
        rw [touches_iff (by omega) (by omega)] at hov
        have := ih ({ last with e := if c.e > last.e then c.e else last.e } :: acc) hwr'
          ⟨by
            intro r hr
            simp only [List.mem_cons] at hr
            rcases hr with hr | hr
            · subst hr; simp only; split <;> omega
            · exact hacc.1 r (by simp [hr]),
           by
            refine List.pairwise_cons.mpr ⟨?_, hpw.2⟩
            intro r hr; exact hpw.1 r hr⟩
          (by intro l' hl'; simp at hl'; subst hl'
              intro r hr; have := hcrest r hr; simp only; omega) hs'
        refine ⟨this.1, ?_⟩
        rw [this.2]
        simp only [contains, List.any_cons, R.has]
        have hmax : (decide (last.s ≤ p) && decide (p ≤ (if c.e > last.e then c.e else last.e)))
             = ((decide (last.s ≤ p) && decide (p ≤ last.e)) || (decide (c.s ≤ p) && decide (p ≤ c.e))) := by
          by_cases h1 : last.s ≤ p <;> by_cases h2 : p ≤ last.e <;> by_cases h3 : c.s ≤ p <;>
            by_cases h4 : p ≤ c.e <;> by_cases h5 : c.e > last.e <;>
            simp [h1, h2, h3, h4, h5] <;> omega
        rw [hmax]
        cases (decide (last.s ≤ p) && decide (p ≤ last.e)) <;>
          cases (decide (c.s ≤ p) && decide (p ≤ c.e)) <;> simp
      · rename_i hov
        rw [touches_iff (by omega) (by omega)] at hov
        have := ih (c :: last :: acc) hwr'
          ⟨by
            intro r hr
            simp only [List.mem_cons] at hr
            rcases hr with hr | hr | hr
            · subst hr; exact hc
            · subst hr; exact hl
            · exact hacc.1 r (by simp [hr]),
           by
            refine List.pairwise_cons.mpr ⟨?_, hacc.2⟩
            intro r hr
            simp only [List.mem_cons] at hr
            rcases hr with hr | hr
            · subst hr; omega
            · have := hpw.1 r hr; omega⟩
          (by intro l' hl'; simp at hl'; subst hl'; exact hcrest) hs'
        refine ⟨this.1, ?_⟩
        rw [this.2]
        simp only [contains, List.any_cons]
        cases c.has p <;> cases last.has p <;> simp

theorem WF_sortR {u : PU} (h : WF u) : WF (sortR u) :=
  fun r hr => h r ((sortR_perm u).mem_iff.mp hr)

theorem normalize_contains {u : PU} (h : WF u) (p : Nat) :
    contains (normalize u) p = contains u p := by
  unfold normalize
  split
  · rfl
  · rw [contains_reverse]
    have := (mergeLoop_spec p (sortR u) [] (WF_sortR h) ⟨(by intro r hr; cases hr), by simp⟩
      (by intro l hl; simp at hl) (sorted_starts u)).2
    rw [this]
    simp only [contains, List.any_nil, Bool.false_or]
    exact contains_perm (sortR_perm u) p

theorem normalize_normalForm {u : PU} (h : WF u) : NormalForm (normalize u) := by
  unfold normalize
  split
  · rename_i he
    have : u = [] := by simpa using he
    subst this
    exact ⟨(by intro r hr; cases hr), by simp⟩
  · have := (mergeLoop_spec 0 (sortR u) [] (WF_sortR h) ⟨(by intro r hr; cases hr), by simp⟩
      (by intro l hl; simp at hl) (sorted_starts u)).1
    refine ⟨?_, ?_⟩
    · intro r hr; exact this.1 r (List.mem_reverse.mp hr)
    · rw [List.pairwise_reverse]; exact this.2

theorem mergeLoop_ne_nil (acc rest : PU) (h : acc ≠ [] ∨ rest ≠ []) : mergeLoop acc rest ≠ [] := by
  induction rest generalizing acc with
  | nil =>
    cases acc with
    | nil => simp at h
    | cons a acc => simp [mergeLoop]
  | cons c rest ih =>
    cases acc with
    | nil => simp only [mergeLoop]; exact ih _ (Or.inl (by simp))
    | cons a acc =>
      simp only [mergeLoop]
      split <;> exact ih _ (Or.inl (by simp))

theorem normalize_ne_nil {u : PU} (h : u ≠ []) : normalize u ≠ [] := by
  unfold normalize
  split
  · exact h
  · intro he
    have hl : sortR u ≠ [] := by
      intro e
      have := (sortR_perm u).length_eq
      rw [e] at this
      exact h (List.length_eq_zero_iff.mp this.symm)
    exact mergeLoop_ne_nil [] _ (Or.inr hl) (List.reverse_eq_nil_iff.mp he)

/-! ## Ports -/

theorem mem_portsOfRange {r : R} (h : r.s ≤ r.e ∧ r.e ≤ 65535) (p : Nat) :
    p ∈ portsOfRange r ↔ r.s ≤ p ∧ p ≤ r.e := by
  unfold portsOfRange
  rw [Nat.mod_eq_of_lt (by omega : r.s < 4294967296), Nat.mod_eq_of_lt (by omega : r.e < 4294967296)]
  simp only [List.mem_map, List.mem_range'_1]
  constructor
  · rintro ⟨a, ⟨h1, h2⟩, h3⟩
    rw [Nat.mod_eq_of_lt (by omega)] at h3
    omega
  · intro hp
    exact ⟨p, by omega, Nat.mod_eq_of_lt (by omega)⟩

theorem portsOfRange_eq {r : R} (h : r.s ≤ r.e ∧ r.e ≤ 65535) :
    portsOfRange r = List.range' r.s (r.e + 1 - r.s) := by
  unfold portsOfRange
  rw [Nat.mod_eq_of_lt (by omega : r.s < 4294967296), Nat.mod_eq_of_lt (by omega : r.e < 4294967296)]
  have : ∀ a ∈ List.range' r.s (r.e + 1 - r.s), a % 65536 = a := by
    intro a ha
    rw [List.mem_range'_1] at ha
    exact Nat.mod_eq_of_lt (by omega)
  rw [List.map_congr_left this]
  simp

theorem mem_ports {u : PU} (h : WF u) (p : Nat) : p ∈ ports u ↔ contains u p = true := by
  rw [contains_iff]
  unfold ports
  simp only [List.mem_flatMap]
  constructor
  · rintro ⟨r, hr, hp⟩; exact ⟨r, hr, (mem_portsOfRange (h r hr) p).mp hp⟩
  · rintro ⟨r, hr, hp⟩; exact ⟨r, hr, (mem_portsOfRange (h r hr) p).mpr hp⟩

/-- on a normal form `Ports` is strictly increasing (hence duplicate free) -/
theorem ports_sorted {u : PU} (h : NormalForm u) : List.Pairwise (· < ·) (ports u) := by
  unfold ports
  rw [List.pairwise_flatMap]
  constructor
  · intro r hr
    rw [portsOfRange_eq (h.1 r hr)]
    exact List.pairwise_lt_range'
  · refine h.2.imp_of_mem ?_
    intro a b ha hb hab x hx y hy
    rw [mem_portsOfRange (h.1 a ha)] at hx
    rw [mem_portsOfRange (h.1 b hb)] at hy
    omega

theorem ports_length_range {r : R} (h : r.s ≤ r.e ∧ r.e ≤ 65535) :
    (portsOfRange r).length = r.e - r.s + 1 := by
  rw [portsOfRange_eq h]; simp; omega

/-! ## The parser against the specification -/

theorem Forall₂_wf {texts : List (List Char)} {rs : PU}
    (h : All₂ (fun t (r : R) => ItemDen t r.s r.e) texts rs) : WF rs := by
  induction h with
  | nil => intro r hr; cases hr
  | cons h1 _ ih =>
    intro r hr
    rcases List.mem_cons.mp hr with e | e
    · subst e; exact h1.wf
    · exact ih r e

theorem Forall₂_texts {texts : List (List Char)} {L : List (Nat × Nat)}
    (h : All₂ (fun t (lh : Nat × Nat) => ItemDen t lh.1 lh.2) texts L) :
    ∀ t ∈ texts, ∃ lo hi, ItemDen t lo hi := by
  induction h with
  | nil => intro t ht; cases ht
  | cons h1 _ ih =>
    intro t ht
    rcases List.mem_cons.mp ht with e | e
    · subst e; exact ⟨_, _, h1⟩
    · exact ih t e

theorem Forall₂_toR {texts : List (List Char)} {L : List (Nat × Nat)}
    (h : All₂ (fun t (lh : Nat × Nat) => ItemDen t lh.1 lh.2) texts L) :
    All₂ (fun t (r : R) => ItemDen t r.s r.e) texts (L.map fun lh => ⟨lh.1, lh.2⟩) := by
  induction h with
  | nil => exact .nil
  | cons h1 _ ih => exact .cons h1 ih

theorem Forall₂_ofR {texts : List (List Char)} {rs : PU}
    (h : All₂ (fun t (r : R) => ItemDen t r.s r.e) texts rs) :
    All₂ (fun t (lh : Nat × Nat) => ItemDen t lh.1 lh.2) texts (rs.map fun r => (r.s, r.e)) := by
  induction h with
  | nil => exact .nil
  | cons h1 _ ih => exact .cons h1 ih

theorem Forall₂_ne_nil {α β} {P : α → β → Prop} {l : List α} {m : List β}
    (h : All₂ P l m) (hl : l ≠ []) : m ≠ [] := by
  cases h with
  | nil => exact absurd rfl hl
  | cons _ _ => simp

theorem list_not_special {texts : List (List Char)} (_hne : texts ≠ [])
    (h : ∀ t ∈ texts, ∃ lo hi, ItemDen t lo hi) :
    ¬ (join ',' texts = allChars ∨ join ',' texts = ['*']) := by
  have hchars : ∀ c ∈ join ',' texts, c = ',' ∨ c.isDigit = true ∨ c = '-' := by
    intro c hc
    rcases mem_join hc with e | ⟨t, ht, hct⟩
    · exact Or.inl e
    · obtain ⟨lo, hi, hd⟩ := h t ht
      exact Or.inr (hd.chars c hct)
  rintro (e | e)
  · have := hchars 'a' (by rw [e]; simp [allChars])
    revert this; decide
  · have := hchars '*' (by rw [e]; simp)
    revert this; decide

theorem inUnion_map (rs : PU) (p : Nat) :
    InUnion (rs.map fun r => (r.s, r.e)) p ↔ contains rs p = true := by
  rw [contains_iff]
  unfold InUnion
  constructor
  · rintro ⟨lh, hlh, h⟩
    obtain ⟨r, hr, e⟩ := List.mem_map.mp hlh
    subst e; exact ⟨r, hr, h⟩
  · rintro ⟨r, hr, h⟩
    exact ⟨(r.s, r.e), List.mem_map.mpr ⟨r, hr, rfl⟩, h⟩

theorem inUnion_toR (L : List (Nat × Nat)) (p : Nat) :
    contains (L.map fun lh => (⟨lh.1, lh.2⟩ : R)) p = true ↔ InUnion L p := by
  rw [contains_iff]
  unfold InUnion
  constructor
  · rintro ⟨r, hr, h⟩
    obtain ⟨lh, hlh, e⟩ := List.mem_map.mp hr
    subst e; exact ⟨lh, hlh, h⟩
  · rintro ⟨lh, hlh, h⟩
    exact ⟨⟨lh.1, lh.2⟩, List.mem_map.mpr ⟨lh, hlh, rfl⟩, h⟩

/-- completeness: every well-formed expression parses, to a normal form denoting the union -/
theorem parse_complete {cs : List Char} {L : List (Nat × Nat)} (h : Denotes cs L) :
    ∃ u, parseChars cs = some u ∧ NormalForm u ∧ u ≠ [] ∧
      ∀ p, contains u p = true ↔ InUnion L p := by
  rcases h with ⟨hs, hL⟩ | ⟨texts, hne, hcs, hall⟩
  · subst hL
    refine ⟨[⟨0, 65535⟩], by simp [parseChars, hs], ⟨by intro r hr; simp at hr; subst hr; simp, by simp⟩,
      by simp, ?_⟩
    intro p
    simp [contains, R.has, InUnion]
  · have hitems := Forall₂_texts hall
    have hnot := list_not_special hne hitems
    rw [← hcs] at hnot
    have hsplit : splitOn ',' cs = texts := by
      rw [hcs]
      apply splitOn_join _ _ hne
      intro t ht hm
      obtain ⟨lo, hi, hd⟩ := hitems t ht
      have := hd.chars ',' hm
      revert this; decide
    have hR := Forall₂_toR hall
    have hrs := (parseItems_spec texts _).mpr hR
    have hwf := Forall₂_wf hR
    have hrne := Forall₂_ne_nil hR hne
    refine ⟨normalize (L.map fun lh => ⟨lh.1, lh.2⟩), ?_, normalize_normalForm hwf,
      normalize_ne_nil hrne, ?_⟩
    · unfold parseChars
      rw [if_neg hnot, hsplit, hrs]
      simp only
      rw [if_neg (by simpa using hrne)]
    · intro p
      rw [normalize_contains hwf, inUnion_toR]

/-- soundness: whatever parses is a well-formed expression -/
theorem parse_sound {cs : List Char} {u : PU} (h : parseChars cs = some u) :
    ∃ L, Denotes cs L := by
  unfold parseChars at h
  split at h
  · rename_i hs
    exact ⟨[(0, 65535)], Or.inl ⟨hs, rfl⟩⟩
  · split at h
    · cases h
    · rename_i rs hrs
      have hF := (parseItems_spec _ rs).mp hrs
      exact ⟨rs.map fun r => (r.s, r.e), Or.inr ⟨splitOn ',' cs, splitOn_ne_nil _ _,
        (join_splitOn ',' cs).symm, Forall₂_ofR hF⟩⟩

end Hy.PortUnion
