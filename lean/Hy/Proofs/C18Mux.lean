/- C18 helper lemmas: invariants of the mux transition system (fixed variant). -/
import Hy.Model.Mux
set_option linter.unusedSimpArgs false
set_option linter.unusedVariables false
namespace Hy.Mux
open Hy

/-! ### projections of the state setters (generated) -/
@[simp] theorem setConn_subs (s : St) (c : Nat) (v : CStat) : (s.setConn c v).subs = s.subs := rfl
@[simp] theorem setConn_socks (s : St) (c : Nat) (v : CStat) : (s.setConn c v).socks = s.socks := rfl
@[simp] theorem setConn_http (s : St) (c : Nat) (v : CStat) : (s.setConn c v).http = s.http := rfl
@[simp] theorem setConn_phase (s : St) (c : Nat) (v : CStat) : (s.setConn c v).phase = s.phase := rfl
@[simp] theorem setConn_aloop (s : St) (c : Nat) (v : CStat) : (s.setConn c v).aloop = s.aloop := rfl
@[simp] theorem setConn_conn (s : St) (c : Nat) (v : CStat) : (s.setConn c v).conn = fun i => if i = c then v else s.conn i := rfl
@[simp] theorem setConn_panicked (s : St) (c : Nat) (v : CStat) : (s.setConn c v).panicked = s.panicked := rfl
@[simp] theorem setConn_log (s : St) (c : Nat) (v : CStat) : (s.setConn c v).log = s.log := rfl
@[simp] theorem setConn_slot (s : St) (c : Nat) (v : CStat) (k : Kind) : (s.setConn c v).slot k = s.slot k := by cases k <;> rfl
@[simp] theorem setAloop_subs (s : St) (a : ALoop) : (s.setAloop a).subs = s.subs := rfl
@[simp] theorem setAloop_socks (s : St) (a : ALoop) : (s.setAloop a).socks = s.socks := rfl
@[simp] theorem setAloop_http (s : St) (a : ALoop) : (s.setAloop a).http = s.http := rfl
@[simp] theorem setAloop_phase (s : St) (a : ALoop) : (s.setAloop a).phase = s.phase := rfl
@[simp] theorem setAloop_aloop (s : St) (a : ALoop) : (s.setAloop a).aloop = a := rfl
@[simp] theorem setAloop_conn (s : St) (a : ALoop) : (s.setAloop a).conn = s.conn := rfl
@[simp] theorem setAloop_panicked (s : St) (a : ALoop) : (s.setAloop a).panicked = s.panicked := rfl
@[simp] theorem setAloop_log (s : St) (a : ALoop) : (s.setAloop a).log = s.log := rfl
@[simp] theorem setAloop_slot (s : St) (a : ALoop) (k : Kind) : (s.setAloop a).slot k = s.slot k := by cases k <;> rfl
@[simp] theorem setPhase_subs (s : St) (p : Phase) : (s.setPhase p).subs = s.subs := rfl
@[simp] theorem setPhase_socks (s : St) (p : Phase) : (s.setPhase p).socks = s.socks := rfl
@[simp] theorem setPhase_http (s : St) (p : Phase) : (s.setPhase p).http = s.http := rfl
@[simp] theorem setPhase_phase (s : St) (p : Phase) : (s.setPhase p).phase = p := rfl
@[simp] theorem setPhase_aloop (s : St) (p : Phase) : (s.setPhase p).aloop = s.aloop := rfl
@[simp] theorem setPhase_conn (s : St) (p : Phase) : (s.setPhase p).conn = s.conn := rfl
@[simp] theorem setPhase_panicked (s : St) (p : Phase) : (s.setPhase p).panicked = s.panicked := rfl
@[simp] theorem setPhase_log (s : St) (p : Phase) : (s.setPhase p).log = s.log := rfl
@[simp] theorem setPhase_slot (s : St) (p : Phase) (k : Kind) : (s.setPhase p).slot k = s.slot k := by cases k <;> rfl
@[simp] theorem setSubs_subs (s : St) (l : List Sub) : (s.setSubs l).subs = l := rfl
@[simp] theorem setSubs_socks (s : St) (l : List Sub) : (s.setSubs l).socks = s.socks := rfl
@[simp] theorem setSubs_http (s : St) (l : List Sub) : (s.setSubs l).http = s.http := rfl
@[simp] theorem setSubs_phase (s : St) (l : List Sub) : (s.setSubs l).phase = s.phase := rfl
@[simp] theorem setSubs_aloop (s : St) (l : List Sub) : (s.setSubs l).aloop = s.aloop := rfl
@[simp] theorem setSubs_conn (s : St) (l : List Sub) : (s.setSubs l).conn = s.conn := rfl
@[simp] theorem setSubs_panicked (s : St) (l : List Sub) : (s.setSubs l).panicked = s.panicked := rfl
@[simp] theorem setSubs_log (s : St) (l : List Sub) : (s.setSubs l).log = s.log := rfl
@[simp] theorem setSubs_slot (s : St) (l : List Sub) (k : Kind) : (s.setSubs l).slot k = s.slot k := by cases k <;> rfl
@[simp] theorem addLog_subs (s : St) (e : Ev) : (s.addLog e).subs = s.subs := rfl
@[simp] theorem addLog_socks (s : St) (e : Ev) : (s.addLog e).socks = s.socks := rfl
@[simp] theorem addLog_http (s : St) (e : Ev) : (s.addLog e).http = s.http := rfl
@[simp] theorem addLog_phase (s : St) (e : Ev) : (s.addLog e).phase = s.phase := rfl
@[simp] theorem addLog_aloop (s : St) (e : Ev) : (s.addLog e).aloop = s.aloop := rfl
@[simp] theorem addLog_conn (s : St) (e : Ev) : (s.addLog e).conn = s.conn := rfl
@[simp] theorem addLog_panicked (s : St) (e : Ev) : (s.addLog e).panicked = s.panicked := rfl
@[simp] theorem addLog_log (s : St) (e : Ev) : (s.addLog e).log = e :: s.log := rfl
@[simp] theorem addLog_slot (s : St) (e : Ev) (k : Kind) : (s.addLog e).slot k = s.slot k := by cases k <;> rfl
@[simp] theorem setPanicked_subs (s : St)  : (s.setPanicked ).subs = s.subs := rfl
@[simp] theorem setPanicked_socks (s : St)  : (s.setPanicked ).socks = s.socks := rfl
@[simp] theorem setPanicked_http (s : St)  : (s.setPanicked ).http = s.http := rfl
@[simp] theorem setPanicked_phase (s : St)  : (s.setPanicked ).phase = s.phase := rfl
@[simp] theorem setPanicked_aloop (s : St)  : (s.setPanicked ).aloop = s.aloop := rfl
@[simp] theorem setPanicked_conn (s : St)  : (s.setPanicked ).conn = s.conn := rfl
@[simp] theorem setPanicked_panicked (s : St)  : (s.setPanicked ).panicked = true := rfl
@[simp] theorem setPanicked_log (s : St)  : (s.setPanicked ).log = s.log := rfl
@[simp] theorem setPanicked_slot (s : St)  (k : Kind) : (s.setPanicked ).slot k = s.slot k := by cases k <;> rfl
@[simp] theorem setSlot_subs (s : St) (k : Kind) (o : Option Nat) : (s.setSlot k o).subs = s.subs := by cases k <;> rfl
@[simp] theorem setSlot_phase (s : St) (k : Kind) (o : Option Nat) : (s.setSlot k o).phase = s.phase := by cases k <;> rfl
@[simp] theorem setSlot_aloop (s : St) (k : Kind) (o : Option Nat) : (s.setSlot k o).aloop = s.aloop := by cases k <;> rfl
@[simp] theorem setSlot_conn (s : St) (k : Kind) (o : Option Nat) : (s.setSlot k o).conn = s.conn := by cases k <;> rfl
@[simp] theorem setSlot_panicked (s : St) (k : Kind) (o : Option Nat) : (s.setSlot k o).panicked = s.panicked := by cases k <;> rfl
@[simp] theorem setSlot_log (s : St) (k : Kind) (o : Option Nat) : (s.setSlot k o).log = s.log := by cases k <;> rfl
theorem setSlot_slot (s : St) (k k' : Kind) (o : Option Nat) : (s.setSlot k o).slot k' = if k' = k then o else s.slot k' := by
  cases k <;> cases k' <;> simp [St.setSlot, St.slot]
@[simp] theorem setSlot_socks_socks (s : St) (o : Option Nat) : (s.setSlot .socks o).socks = o := rfl
@[simp] theorem setSlot_socks_http (s : St) (o : Option Nat) : (s.setSlot .socks o).http = s.http := rfl
@[simp] theorem setSlot_http_http (s : St) (o : Option Nat) : (s.setSlot .http o).http = o := rfl
@[simp] theorem setSlot_http_socks (s : St) (o : Option Nat) : (s.setSlot .http o).socks = s.socks := rfl

/-! ### the sub-listener table -/
theorem getElem?_markClosed (subs : List Sub) (t i : Nat) :
    (markClosed subs t)[i]? = (subs[i]?).map (fun sb => if t = i then { sb with closed := true } else sb) := by
  unfold markClosed
  rw [List.getElem?_modify]
  cases subs[i]? <;> simp

/-- how a table `l'` relates to an earlier table `l`: ids stay, kinds stay, closed only
    grows, accept channels stay open -/
def SubLe (l l' : List Sub) : Prop :=
  ∀ (t : Nat) (sb : Sub), l[t]? = some sb →
    ∃ sb', l'[t]? = some sb' ∧ sb'.kind = sb.kind ∧ (sb.closed = true → sb'.closed = true) ∧ sb'.chanClosed = sb.chanClosed

theorem SubLe.refl (l : List Sub) : SubLe l l := fun t sb h => ⟨sb, h, rfl, id, rfl⟩

theorem SubLe.trans {a b c : List Sub} (h1 : SubLe a b) (h2 : SubLe b c) : SubLe a c := by
  intro t sb h
  obtain ⟨sb1, g1, k1, c1, d1⟩ := h1 t sb h
  obtain ⟨sb2, g2, k2, c2, d2⟩ := h2 t sb1 g1
  exact ⟨sb2, g2, k2.trans k1, fun x => c2 (c1 x), d2.trans d1⟩

theorem subLe_markClosed (l : List Sub) (t : Nat) : SubLe l (markClosed l t) := by
  intro i sb h
  rw [getElem?_markClosed, h]
  by_cases hti : t = i <;> simp [hti]

theorem markClosed_closed (l : List Sub) (t : Nat) (sb : Sub) (h : l[t]? = some sb) :
    ∃ sb', (markClosed l t)[t]? = some sb' ∧ sb'.closed = true := by
  rw [getElem?_markClosed, h]; simp

theorem subLe_append (l : List Sub) (x : Sub) : SubLe l (l ++ [x]) := by
  intro i sb h
  have hi : i < l.length := by
    rcases Nat.lt_or_ge i l.length with h1 | h1
    · exact h1
    · rw [List.getElem?_eq_none_iff.mpr h1] at h; simp at h
  exact ⟨sb, by rw [List.getElem?_append_left hi]; exact h, rfl, id, rfl⟩

theorem notify_fixed (subs : List Sub) (o : Option Nat) :
    notify fixed subs o = match o with | none => subs | some t => markClosed subs t := by
  cases o <;> simp [notify, fixed]

theorem subLe_notify (l : List Sub) (o : Option Nat) : SubLe l (notify fixed l o) := by
  rw [notify_fixed]; cases o
  · exact SubLe.refl l
  · exact subLe_markClosed l _

theorem notify_closed (l : List Sub) (t : Nat) (sb : Sub) (h : l[t]? = some sb) :
    ∃ sb', (notify fixed l (some t))[t]? = some sb' ∧ sb'.closed = true := by
  rw [notify_fixed]; exact markClosed_closed l t sb h

/-- every step of the fixed code only extends / closes entries of the table -/
theorem step_subLe (s : St) (l : Label) : SubLe s.subs (step fixed s l).subs := by
  cases l <;> simp only [step, listen]
  all_goals (repeat' split)
  all_goals (try simp)
  all_goals first
    | exact SubLe.refl _
    | exact subLe_append _ _
    | exact subLe_markClosed _ _
    | exact SubLe.trans (subLe_notify _ _) (subLe_notify _ _)

def ChanOpen (s : St) : Prop := ∀ (t : Nat) (sb : Sub), s.subs[t]? = some sb → sb.chanClosed = false

theorem subChanClosed_false (s : St) (h : ChanOpen s) (t : Nat) : subChanClosed s.subs t = false := by
  unfold subChanClosed
  split
  · rename_i sb hsb; exact h _ _ hsb
  · rfl

theorem markClosed_origin (l : List Sub) (t i : Nat) (sb' : Sub) (h : (markClosed l t)[i]? = some sb') :
    ∃ sb, l[i]? = some sb := by
  rw [getElem?_markClosed] at h
  cases h0 : l[i]? with
  | none => simp [h0] at h
  | some sb => exact ⟨sb, rfl⟩

theorem notify_origin (l : List Sub) (o : Option Nat) (i : Nat) (sb' : Sub) (h : (notify fixed l o)[i]? = some sb') :
    ∃ sb, l[i]? = some sb := by
  rw [notify_fixed] at h
  cases o
  · exact ⟨sb', h⟩
  · exact markClosed_origin _ _ _ _ h

/-- an entry of the table after a step is an entry of the table before, or the freshly
    registered (open) sub-listener -/
theorem step_subs_origin (s : St) (l : Label) (i : Nat) (sb' : Sub) (h : (step fixed s l).subs[i]? = some sb') :
    (∃ sb, s.subs[i]? = some sb) ∨ (sb'.chanClosed = false ∧ sb'.closed = false ∧ i = s.subs.length) := by
  cases l <;> simp only [step, listen] at h
  case exitB =>
    split at h
    · simp at h
      obtain ⟨sb1, h1⟩ := notify_origin _ _ _ _ h
      exact Or.inl (notify_origin _ _ _ _ h1)
    · exact Or.inl ⟨sb', h⟩
  case closeSub t => simp at h; exact Or.inl (markClosed_origin _ _ _ _ h)
  case listen k =>
    (repeat' split at h) <;> (try simp at h)
    all_goals first
      | exact Or.inl ⟨sb', h⟩
      | (rcases Nat.lt_or_ge i s.subs.length with hi | hi
         · rw [List.getElem?_append_left hi] at h; exact Or.inl ⟨sb', h⟩
         · rw [List.getElem?_append_right hi] at h
           cases hj : i - s.subs.length with
           | zero => simp [hj] at h; subst h; exact Or.inr ⟨rfl, rfl, by omega⟩
           | succ j => simp [hj] at h)
  all_goals
    (repeat' split at h) <;> (try simp at h) <;> exact Or.inl ⟨sb', h⟩

theorem step_chanOpen (s : St) (l : Label) (hc : ChanOpen s) : ChanOpen (step fixed s l) := by
  intro t sb' h
  rcases step_subs_origin s l t sb' h with ⟨sb, h0⟩ | ⟨h1, _, _⟩
  · obtain ⟨sb2, g, _, _, d⟩ := step_subLe s l t sb h0
    rw [h] at g; cases g
    rw [d]; exact hc _ _ h0
  · exact h1

/-! ### the invariant -/
def terminal : CStat → Bool
  | .delivered _ _ => true
  | .closed => true
  | _ => false

def SlotValid (s : St) : Prop :=
  ∀ (k : Kind) (t : Nat), s.slot k = some t → ∃ sb, s.subs[t]? = some sb ∧ sb.kind = k

theorem subClosed_true (l : List Sub) (t : Nat) (h : subClosed l t = true) :
    ∃ sb, l[t]? = some sb ∧ sb.closed = true := by
  unfold subClosed at h
  split at h
  · rename_i sb hsb; exact ⟨sb, hsb, h⟩
  · simp at h

theorem closed_after (s : St) (l : Label) (t : Nat) (h : subClosed s.subs t = true) :
    ∃ sb', (step fixed s l).subs[t]? = some sb' ∧ sb'.closed = true := by
  obtain ⟨sb, g, gc⟩ := subClosed_true _ _ h
  obtain ⟨sb', g', _, c', _⟩ := step_subLe s l t sb g
  exact ⟨sb', g', c' gc⟩

/-- what a step does to a registration slot: nothing; or it clears / re-registers it, and
    then the sub-listener that was registered is closed afterwards -/
theorem step_slot (s : St) (l : Label) (hv : SlotValid s) (k : Kind) :
    (step fixed s l).slot k = s.slot k ∨
    ((∀ t, s.slot k = some t → ∃ sb', (step fixed s l).subs[t]? = some sb' ∧ sb'.closed = true) ∧
      ((step fixed s l).slot k = none ∨
       ((step fixed s l).slot k = some s.subs.length ∧ (step fixed s l).subs = s.subs ++ [{ kind := k }]))) := by
  cases l
  case listen k' =>
    by_cases hk : k = k'
    · subst hk
      have hstep : step fixed s (.listen k) = listen s k := rfl
      cases hs : s.slot k with
      | none =>
        right
        refine ⟨by intro t ht; simp at ht, ?_⟩
        simp only [hstep, listen, hs, Bool.false_eq_true, ↓reduceIte]
        split
        · left; simp [setSlot_slot]
        · right; simp [setSlot_slot]
      | some t =>
        by_cases hc : subClosed s.subs t = true
        · right
          refine ⟨?_, ?_⟩
          · intro t' ht'; simp at ht'; subst ht'; exact closed_after s _ _ hc
          · simp only [hstep, listen, hs, hc, Bool.not_true, Bool.false_eq_true, ↓reduceIte]
            split
            · left; simp [setSlot_slot]
            · right; simp [setSlot_slot]
        · left
          simp only [hstep, listen, hs]
          simp [hc, hs]
    · left
      simp only [step, listen]
      (repeat' split) <;> simp [setSlot_slot, hk]
  case mainSeesSubClosed k' =>
    simp only [step]
    split
    · split
      · rename_i t ht
        split
        · rename_i hc
          by_cases hk : k = k'
          · subst hk
            right
            refine ⟨?_, ?_⟩
            · intro t' ht'; rw [ht] at ht'; cases ht'
              obtain ⟨sb, g, gc⟩ := subClosed_true _ _ hc
              exact ⟨sb, by split <;> simpa using g, gc⟩
            · left; split <;> simp [setSlot_slot]
          · left; split <;> simp [setSlot_slot, hk]
        · left; rfl
      · left; rfl
    · left; rfl
  case exitB =>
    simp only [step]
    split
    · rename_i hp
      right
      refine ⟨?_, ?_⟩
      · intro t ht
        obtain ⟨sb, g, _⟩ := hv k t ht
        have hst : (step fixed s .exitB).subs = notify fixed (notify fixed s.subs s.http) s.socks := by
          simp [step, hp]
        simp only [step, hp, ↓reduceIte] at hst ⊢
        rw [show ((((s.setSubs (notify fixed (notify fixed s.subs s.http) s.socks)).setSlot Kind.socks none).setSlot Kind.http none).setPhase Phase.exited).subs = notify fixed (notify fixed s.subs s.http) s.socks by simp]
        cases k
        · -- socks slot: closed by the outer notify
          have ht' : s.socks = some t := ht
          obtain ⟨sb1, g1, _, _, _⟩ := subLe_notify s.subs s.http t sb g
          rw [ht']
          exact notify_closed _ _ _ g1
        · have ht' : s.http = some t := ht
          rw [ht']
          obtain ⟨sb1, g1, c1⟩ := notify_closed s.subs t sb g
          obtain ⟨sb2, g2, _, c2, _⟩ := subLe_notify (notify fixed s.subs (some t)) s.socks t sb1 g1
          exact ⟨sb2, g2, c2 c1⟩
      · left; cases k <;> simp [St.slot]
    · left; rfl
  all_goals
    left
    simp only [step]
    (repeat' split) <;> simp


/-! ### what a step does to one connection -/
inductive Trans (s : St) : CStat → CStat → Prop
  | accept : s.aloop = .idle → Trans s .fresh .held
  | hand : Trans s .held .reading
  | quit : Trans s .held .closed
  | byte (b : Byte) : Trans s .reading (.got b)
  | fail : Trans s .reading .closed
  | pickNone (b : Byte) : s.slot (route b) = none → Trans s (.got b) .closed
  | pick (b : Byte) (t : Nat) : s.slot (route b) = some t → Trans s (.got b) (.pending b t)
  | deliver (b : Byte) (t : Nat) : Trans s (.pending b t) (.delivered b t)
  | drop (b : Byte) (t : Nat) : subClosed s.subs t = true → Trans s (.pending b t) .closed

def HeldInv (s : St) : Prop := ∀ c, s.conn c = .held ↔ s.aloop = .holding c

theorem step_conn (s : St) (l : Label) (hc : ChanOpen s) (hh : HeldInv s) (c : Nat) :
    (step fixed s l).conn c = s.conn c ∨ Trans s (s.conn c) ((step fixed s l).conn c) := by
  cases l <;> simp only [step, listen]
  case baseAccept c0 =>
    split
    · rename_i h
      by_cases e : c = c0
      · subst e; right; simp [h.2]; exact Trans.accept h.1
      · left; simp [e]
    · left; rfl
  case handToMain =>
    split
    · rename_i c0 ha
      split
      · by_cases e : c = c0
        · subst e; right; simp [(hh c).mpr ha]; exact Trans.hand
        · left; simp [e]
      · left; rfl
    · left; rfl
  case aloopQuit =>
    split
    · rename_i c0 ha
      split
      · by_cases e : c = c0
        · subst e; right; simp [(hh c).mpr ha, fixed]; exact Trans.quit
        · left; simp [e, fixed]
      · left; rfl
    · left; rfl
  case firstByte c0 b =>
    split
    · rename_i h
      by_cases e : c = c0
      · subst e; right; simp [h]; exact Trans.byte b
      · left; simp [e]
    · left; rfl
  case readFail c0 =>
    split
    · rename_i h
      by_cases e : c = c0
      · subst e; right; simp [h]; exact Trans.fail
      · left; simp [e]
    · left; rfl
  case pick c0 =>
    split
    · rename_i b h
      split
      · rename_i hs
        by_cases e : c = c0
        · subst e; right; simp [h]; exact Trans.pickNone b hs
        · left; simp [e]
      · rename_i t hs
        by_cases e : c = c0
        · subst e; right; simp [h]; exact Trans.pick b t hs
        · left; simp [e]
    · left; rfl
  case deliver c0 =>
    split
    · rename_i b t h
      split
      · left; rfl
      · by_cases e : c = c0
        · subst e; right; simp [h]; exact Trans.deliver b t
        · left; simp [e]
    · left; rfl
  case dropClosed c0 =>
    split
    · rename_i b t h
      split
      · rename_i hcl
        by_cases e : c = c0
        · subst e; right; simp [h, fixed]; exact Trans.drop b t hcl
        · left; simp [e, fixed]
      · left; rfl
    · left; rfl
  case sendPanic c0 =>
    split
    · rename_i b t h
      simp [subChanClosed_false s hc]
    · left; rfl
  all_goals
    left
    (repeat' split) <;> simp


theorem step_heldInv (s : St) (l : Label) (hc : ChanOpen s) (hh : HeldInv s) : HeldInv (step fixed s l) := by
  intro c
  cases l <;> simp only [step, listen]
  case baseAccept c0 =>
    split
    · rename_i h
      by_cases e : c = c0
      · subst e; simp
      · have := hh c; simp [h.1] at this
        have e' : ¬ c0 = c := fun x => e x.symm
        simp [e, e', this]
    · exact hh c
  case baseAcceptErr =>
    split
    · rename_i h
      have := hh c; simp [h] at this
      simp [this]
    · exact hh c
  case handToMain =>
    split
    · rename_i c0 ha
      split
      · by_cases e : c = c0
        · subst e; simp
        · have e' : ¬ c0 = c := fun x => e x.symm
          have := hh c; simp [ha, e'] at this
          simp [e, this]
      · exact hh c
    · exact hh c
  case aloopQuit =>
    split
    · rename_i c0 ha
      split
      · by_cases e : c = c0
        · subst e; simp [fixed]
        · have e' : ¬ c0 = c := fun x => e x.symm
          have := hh c; simp [ha, e'] at this
          simp [e, this, fixed]
      · exact hh c
    · exact hh c
  case firstByte c0 b =>
    split
    · rename_i h
      by_cases e : c = c0
      · subst e; have := hh c; simp [h] at this; simp [this]
      · simp [e]; exact hh c
    · exact hh c
  case readFail c0 =>
    split
    · rename_i h
      by_cases e : c = c0
      · subst e; have := hh c; simp [h] at this; simp [this]
      · simp [e]; exact hh c
    · exact hh c
  case pick c0 =>
    split
    · rename_i b h
      split
      · by_cases e : c = c0
        · subst e; have := hh c; simp [h] at this; simp [this]
        · simp [e]; exact hh c
      · by_cases e : c = c0
        · subst e; have := hh c; simp [h] at this; simp [this]
        · simp [e]; exact hh c
    · exact hh c
  case deliver c0 =>
    split
    · rename_i b t h
      split
      · exact hh c
      · by_cases e : c = c0
        · subst e; have := hh c; simp [h] at this; simp [this]
        · simp [e]; exact hh c
    · exact hh c
  case dropClosed c0 =>
    split
    · rename_i b t h
      split
      · by_cases e : c = c0
        · subst e; have := hh c; simp [h] at this; simp [this, fixed]
        · simp [e, fixed]; exact hh c
      · exact hh c
    · exact hh c
  case sendPanic c0 =>
    split
    · simp [subChanClosed_false s hc]; exact hh c
    · exact hh c
  all_goals
    (repeat' split) <;> (try simp) <;> exact hh c

def ExitedSlots (s : St) : Prop := s.phase = .exited → s.socks = none ∧ s.http = none

theorem step_exitedSlots (s : St) (l : Label) (h : ExitedSlots s) : ExitedSlots (step fixed s l) := by
  intro hp
  cases l <;> simp only [step, listen] at hp ⊢
  case listen k =>
    by_cases he : s.phase = .exited
    · obtain ⟨h1, h2⟩ := h he
      have hs : s.slot k = none := by cases k <;> simp [St.slot, h1, h2]
      simp only [hs, he, Bool.false_eq_true, ↓reduceIte, or_true]
      cases k <;> simp [h1, h2]
    · exfalso
      revert hp
      (repeat' split) <;> simp [he]
  case exitB =>
    split
    · simp
    · rename_i hne
      split at hp
      · contradiction
      · exact h hp
  all_goals
    (repeat' split at hp) <;> (try simp at hp) <;> (repeat' split) <;> (try simp) <;> (try exact h hp)
  all_goals simp_all

/-- a connection waiting in dispatch's select waits on a sub-listener of the kind its first
    byte selects, and that sub-listener is either closed (the `<-closeChan` branch is
    enabled) or still the registered one (its owner's Accept will take the connection) -/
def PendInv (s : St) : Prop :=
  ∀ (c : Nat) (b : Byte) (t : Nat), s.conn c = .pending b t →
    ∃ sb, s.subs[t]? = some sb ∧ sb.kind = route b ∧ (sb.closed = true ∨ s.slot (route b) = some t)

theorem step_pendInv (s : St) (l : Label) (hc : ChanOpen s) (hh : HeldInv s) (hv : SlotValid s)
    (hp : PendInv s) : PendInv (step fixed s l) := by
  intro c b t h'
  have old : ∃ sb, s.subs[t]? = some sb ∧ sb.kind = route b ∧ (sb.closed = true ∨ s.slot (route b) = some t) := by
    rcases step_conn s l hc hh c with e | tr
    · rw [e] at h'; exact hp c b t h'
    · rw [h'] at tr
      generalize s.conn c = x at tr
      cases tr with
      | pick b t hs => obtain ⟨sb, g, gk⟩ := hv _ _ hs; exact ⟨sb, g, gk, Or.inr hs⟩
  obtain ⟨sb, g, gk, hd⟩ := old
  obtain ⟨sb', g', gk', gc', _⟩ := step_subLe s l t sb g
  refine ⟨sb', g', gk'.trans gk, ?_⟩
  rcases hd with hcl | hsl
  · exact Or.inl (gc' hcl)
  · rcases step_slot s l hv (route b) with e | ⟨hcl, _⟩
    · exact Or.inr (e ▸ hsl)
    · obtain ⟨sb2, g2, c2⟩ := hcl t hsl
      rw [g'] at g2; cases g2; exact Or.inl c2

/-- routing: a delivered connection went to a sub-listener of the kind its first byte selects -/
def DelivInv (s : St) : Prop :=
  ∀ (c : Nat) (b : Byte) (t : Nat), s.conn c = .delivered b t → ∃ sb, s.subs[t]? = some sb ∧ sb.kind = route b

theorem step_delivInv (s : St) (l : Label) (hc : ChanOpen s) (hh : HeldInv s)
    (hp : PendInv s) (hd : DelivInv s) : DelivInv (step fixed s l) := by
  intro c b t h'
  have old : ∃ sb, s.subs[t]? = some sb ∧ sb.kind = route b := by
    rcases step_conn s l hc hh c with e | tr
    · rw [e] at h'; exact hd c b t h'
    · rw [h'] at tr
      generalize hx : s.conn c = x at tr
      cases tr with
      | deliver b t => obtain ⟨sb, g, gk, _⟩ := hp c b t hx; exact ⟨sb, g, gk⟩
  obtain ⟨sb, g, gk⟩ := old
  obtain ⟨sb', g', gk', _, _⟩ := step_subLe s l t sb g
  exact ⟨sb', g', gk'.trans gk⟩

theorem step_noLeak (s : St) (l : Label) (hc : ChanOpen s) (hh : HeldInv s) (c : Nat)
    (h : s.conn c ≠ .leaked) : (step fixed s l).conn c ≠ .leaked := by
  intro h'
  rcases step_conn s l hc hh c with e | tr
  · rw [e] at h'; exact h h'
  · rw [h'] at tr
    generalize s.conn c = x at tr
    cases tr

/-- delivered / closed are final -/
theorem step_terminal (s : St) (l : Label) (hc : ChanOpen s) (hh : HeldInv s) (c : Nat)
    (h : terminal (s.conn c) = true) : (step fixed s l).conn c = s.conn c := by
  rcases step_conn s l hc hh c with e | tr
  · exact e
  · generalize hx : s.conn c = x at tr h
    generalize hy : (step fixed s l).conn c = y at tr
    cases tr <;> simp [terminal] at h

theorem step_panicked (s : St) (l : Label) (h : s.panicked = false) (hc : ChanOpen s) :
    (step fixed s l).panicked = false := by
  cases l <;> simp only [step, listen]
  all_goals (repeat' split) <;> simp_all [subChanClosed_false]

/-- the log holds exactly one terminal event (delivered / closed) for a connection that is
    delivered or closed, and none for any other connection -/
def nEv (s : St) (c : Nat) : Nat := (s.log.filter (evAbout c)).length

def CountInv (s : St) : Prop := ∀ c, nEv s c = (terminal (s.conn c)).toNat

theorem nEv_listen (s : St) (k : Kind) (r : ListenRes) (c : Nat) : nEv (s.addLog (.listen k r)) c = nEv s c := by
  simp [nEv, List.filter_cons, evAbout]
theorem nEv_closed_self (s : St) (c : Nat) : nEv (s.addLog (.closed c)) c = nEv s c + 1 := by
  simp [nEv, List.filter_cons, evAbout]
theorem nEv_closed_other (s : St) (c0 c : Nat) (h : ¬ c0 = c) : nEv (s.addLog (.closed c0)) c = nEv s c := by
  simp [nEv, List.filter_cons, evAbout, h]
theorem nEv_delivered_self (s : St) (c t : Nat) : nEv (s.addLog (.delivered c t)) c = nEv s c + 1 := by
  simp [nEv, List.filter_cons, evAbout]
theorem nEv_delivered_other (s : St) (c0 c t : Nat) (h : ¬ c0 = c) : nEv (s.addLog (.delivered c0 t)) c = nEv s c := by
  simp [nEv, List.filter_cons, evAbout, h]
@[simp] theorem nEv_setConn (s : St) (c0 : Nat) (v : CStat) (c : Nat) : nEv (s.setConn c0 v) c = nEv s c := rfl
@[simp] theorem nEv_setAloop (s : St) (a : ALoop) (c : Nat) : nEv (s.setAloop a) c = nEv s c := rfl
@[simp] theorem nEv_setPhase (s : St) (a : Phase) (c : Nat) : nEv (s.setPhase a) c = nEv s c := rfl
@[simp] theorem nEv_setSubs (s : St) (a : List Sub) (c : Nat) : nEv (s.setSubs a) c = nEv s c := rfl
@[simp] theorem nEv_setSlot (s : St) (k : Kind) (o : Option Nat) (c : Nat) : nEv (s.setSlot k o) c = nEv s c := by
  cases k <;> rfl

/-- a step that moves connection c0 from a non-terminal status to `closed`, logging it -/
theorem count_close (s s1 : St) (c0 : Nat) (hn : CountInv s) (h0 : terminal (s.conn c0) = false)
    (hlog : ∀ c, nEv s1 c = nEv s c) (hconn : s1.conn = s.conn) :
    CountInv ((s1.setConn c0 .closed).addLog (.closed c0)) := by
  intro c
  by_cases e : c = c0
  · subst e
    have h1 : terminal ((((s1.setConn c .closed).addLog (.closed c)).conn) c) = true := by simp [terminal]
    rw [nEv_closed_self, nEv_setConn, hlog, hn c, h0, h1]; rfl
  · have e' : ¬ c0 = c := fun x => e x.symm
    rw [nEv_closed_other _ _ _ e', nEv_setConn, hlog, hn c]; simp [e, hconn]

theorem count_setConn (s : St) (c0 : Nat) (v : CStat) (hn : CountInv s) (h0 : terminal (s.conn c0) = false)
    (hv : terminal v = false) : CountInv (s.setConn c0 v) := by
  intro c
  by_cases e : c = c0
  · subst e; rw [nEv_setConn, hn c, h0]; simp [hv]
  · rw [nEv_setConn, hn c]; simp [e]

theorem step_countInv (s : St) (l : Label) (hc : ChanOpen s) (hh : HeldInv s) (hn : CountInv s) :
    CountInv (step fixed s l) := by
  cases l <;> simp only [step, listen]
  case listen k =>
    (repeat' split) <;> (intro c; simp [nEv_listen]; exact hn c)
  case aloopQuit =>
    split
    · rename_i c0 ha
      split
      · have h0 : s.conn c0 = .held := (hh c0).mpr ha
        simp only [fixed, ↓reduceIte]
        intro c
        by_cases e : c = c0
        · subst e; rw [nEv_closed_self]; simp [hn c, h0, terminal]
        · have e' : ¬ c0 = c := fun x => e x.symm
          rw [nEv_closed_other _ _ _ e']; simp [hn c, e]
      · exact hn
    · exact hn
  case readFail c0 =>
    split
    · rename_i h0
      exact count_close s s c0 hn (by simp [h0, terminal]) (fun _ => rfl) rfl
    · exact hn
  case pick c0 =>
    split
    · rename_i b h0
      split
      · exact count_close s s c0 hn (by simp [h0, terminal]) (fun _ => rfl) rfl
      · exact count_setConn s c0 _ hn (by simp [h0, terminal]) (by simp [terminal])
    · exact hn
  case deliver c0 =>
    split
    · rename_i b t h0
      split
      · exact hn
      · intro c
        by_cases e : c = c0
        · subst e; rw [nEv_delivered_self]; simp [hn c, h0, terminal]
        · have e' : ¬ c0 = c := fun x => e x.symm
          rw [nEv_delivered_other _ _ _ _ e']; simp [hn c, e]
    · exact hn
  case dropClosed c0 =>
    split
    · rename_i b t h0
      split
      · simp only [fixed, ↓reduceIte]
        exact count_close s s c0 hn (by simp [h0, terminal]) (fun _ => rfl) rfl
      · exact hn
    · exact hn
  case sendPanic c0 =>
    split
    · simp [subChanClosed_false s hc]; exact hn
    · exact hn
  case baseAccept c0 =>
    split
    · rename_i h
      intro c
      have := count_setConn s c0 .held hn (by simp [h.2, terminal]) (by simp [terminal]) c
      simpa using this
    · exact hn
  case handToMain =>
    split
    · rename_i c0 ha
      split
      · have h0 : s.conn c0 = .held := (hh c0).mpr ha
        intro c
        have := count_setConn s c0 .reading hn (by simp [h0, terminal]) (by simp [terminal]) c
        simpa using this
      · exact hn
    · exact hn
  case firstByte c0 b =>
    split
    · rename_i h0
      exact count_setConn s c0 _ hn (by simp [h0, terminal]) (by simp [terminal])
    · exact hn
  all_goals
    (repeat' split) <;> (try exact hn) <;> (intro c; simp; exact hn c)

/-! ### all invariants together, along every schedule -/
structure Inv (s : St) : Prop where
  chanOpen : ChanOpen s
  held : HeldInv s
  slotValid : SlotValid s
  exitedSlots : ExitedSlots s
  pend : PendInv s
  deliv : DelivInv s
  noLeak : ∀ c, s.conn c ≠ .leaked
  noPanic : s.panicked = false
  count : CountInv s

theorem step_slotValid (s : St) (l : Label) (h : SlotValid s) : SlotValid (step fixed s l) := by
  intro k t hk
  rcases step_slot s l h k with e | ⟨_, e | ⟨e1, e2⟩⟩
  · rw [e] at hk
    obtain ⟨sb, g, gk⟩ := h k t hk
    obtain ⟨sb', g', gk', _, _⟩ := step_subLe s l t sb g
    exact ⟨sb', g', gk'.trans gk⟩
  · rw [e] at hk; simp at hk
  · rw [e1] at hk; cases hk
    exact ⟨{ kind := k }, by rw [e2]; simp, rfl⟩

theorem inv_init : Inv init := by
  refine ⟨?_, ?_, ?_, ?_, ?_, ?_, ?_, rfl, ?_⟩
  · intro t sb h; simp [init] at h
  · intro c; simp [init]
  · intro k t h; cases k <;> simp [init, St.slot] at h
  · intro h; simp [init] at h
  · intro c b t h; simp [init] at h
  · intro c b t h; simp [init] at h
  · intro c; simp [init]
  · intro c; simp [init, terminal, nEv]

theorem inv_step (s : St) (l : Label) (h : Inv s) : Inv (step fixed s l) :=
  ⟨step_chanOpen s l h.chanOpen, step_heldInv s l h.chanOpen h.held, step_slotValid s l h.slotValid,
   step_exitedSlots s l h.exitedSlots, step_pendInv s l h.chanOpen h.held h.slotValid h.pend,
   step_delivInv s l h.chanOpen h.held h.pend h.deliv,
   fun c => step_noLeak s l h.chanOpen h.held c (h.noLeak c),
   step_panicked s l h.noPanic h.chanOpen, step_countInv s l h.chanOpen h.held h.count⟩

theorem inv_run (s : St) (sched : List Label) (h : Inv s) : Inv (run fixed s sched) := by
  induction sched generalizing s with
  | nil => exact h
  | cons l ls ih => exact ih _ (inv_step s l h)

theorem run_terminal (s : St) (sched : List Label) (h : Inv s) (c : Nat)
    (ht : terminal (s.conn c) = true) : (run fixed s sched).conn c = s.conn c := by
  induction sched generalizing s with
  | nil => rfl
  | cons l ls ih =>
    have e := step_terminal s l h.chanOpen h.held c ht
    have := ih (step fixed s l) (inv_step s l h) (by rw [e]; exact ht)
    simp only [run, List.foldl] at this ⊢
    rw [this, e]

theorem run_append (v : Variant) (s : St) (a b : List Label) : run v s (a ++ b) = run v (run v s a) b := by
  simp [run, List.foldl_append]

end Hy.Mux
