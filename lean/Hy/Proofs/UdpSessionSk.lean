/-
  C07 proofs, layer 1: the lifecycle skeleton.

  Every entry is projected to the five fields the lifecycle depends on (`CoreE`); a state to its
  skeleton `Sk`.  All eighteen labels of the model act on the skeleton as one of five primitive
  transitions (or not at all): insert, dial, closeA, closeA+loop-off, exitB.  The invariant
  `InvSk` and the monotonicity relation `Mono` are proved once per primitive here.
-/
import Hy.Model.UdpSession
namespace Hy.UdpSession

structure CoreE where
  sid    : Nat
  conn   : Option Nat
  closed : Bool
  pend   : Bool
  live   : Bool
  deriving DecidableEq, Repr

structure Sk where
  ce      : Nat → Option CoreE
  nEnt    : Nat
  tbl     : Nat → Option Nat
  sock    : Nat → Nat
  sockEnt : Nat → Nat
  nSock   : Nat

@[simp] theorem upd_same {α} (f : Nat → α) (i : Nat) (v : α) : upd f i v i = v := by simp [upd]
theorem upd_ne {α} (f : Nat → α) {i j : Nat} (v : α) (h : j ≠ i) : upd f i v j = f j := by simp [upd, h]

/-! ### primitive transitions -/

def skInsert (k : Sk) (sid : Nat) : Sk :=
  { k with ce := upd k.ce k.nEnt (some ⟨sid, none, false, false, false⟩), nEnt := k.nEnt + 1,
           tbl := upd k.tbl sid (some k.nEnt) }

def skDial (k : Sk) (i : Nat) (e : CoreE) : Sk :=
  { k with ce := upd k.ce i (some { e with conn := some k.nSock, live := true }),
           sock := upd k.sock k.nSock 0, sockEnt := upd k.sockEnt k.nSock i, nSock := k.nSock + 1 }

def skCloseA (k : Sk) (i : Nat) : Sk :=
  match k.ce i with
  | none => k
  | some e =>
    if e.closed then k
    else
      let e' := { e with closed := true, pend := true }
      match e.conn with
      | none => { k with ce := upd k.ce i (some e') }
      | some c => { k with ce := upd k.ce i (some e'), sock := upd k.sock c (k.sock c + 1) }

def skOff (k : Sk) (i : Nat) : Sk :=
  match k.ce i with
  | none => k
  | some e => { k with ce := upd k.ce i (some { e with live := false }) }

def skExitB (k : Sk) (i : Nat) : Sk :=
  match k.ce i with
  | none => k
  | some e =>
    if e.pend then { k with ce := upd k.ce i (some { e with pend := false }), tbl := upd k.tbl e.sid none }
    else k

/-! ### invariant -/

structure InvSk (k : Sk) : Prop where
  fresh   : ∀ i, k.nEnt ≤ i → k.ce i = none
  conn    : ∀ i e c, k.ce i = some e → e.conn = some c →
              c < k.nSock ∧ k.sockEnt c = i ∧ k.sock c = (if e.closed then 1 else 0)
  sockOwn : ∀ c, c < k.nSock → ∃ e, k.ce (k.sockEnt c) = some e ∧ e.conn = some c
  tblT    : ∀ sid i, k.tbl sid = some i → ∃ e, k.ce i = some e ∧ e.sid = sid ∧ (e.closed = false ∨ e.pend = true)
  tblU    : ∀ i e, k.ce i = some e → (e.closed = false ∨ e.pend = true) → k.tbl e.sid = some i
  pend    : ∀ i e, k.ce i = some e → e.pend = true → e.closed = true
  live    : ∀ i e, k.ce i = some e → e.live = true → e.conn.isSome = true

def sk0 : Sk := ⟨fun _ => none, 0, fun _ => none, fun _ => 0, fun _ => 0, 0⟩

theorem invSk_init : InvSk sk0 := by
  constructor <;> intros <;> simp_all [sk0]

/-- Entries persist; id fixed; a socket once set stays; closed is monotone; a closed entry's socket
    field never changes (no dial after exit); sockets keep their opener. -/
structure Mono (k k' : Sk) : Prop where
  ent  : ∀ i e, k.ce i = some e → ∃ e', k'.ce i = some e' ∧ e'.sid = e.sid ∧
            (e.conn.isSome = true → e'.conn = e.conn) ∧ (e.closed = true → e'.closed = true ∧ e'.conn = e.conn)
  nS   : k.nSock ≤ k'.nSock
  sE   : ∀ c, c < k.nSock → k'.sockEnt c = k.sockEnt c
  nE   : k.nEnt ≤ k'.nEnt

theorem Mono.refl (k : Sk) : Mono k k :=
  ⟨fun i e h => ⟨e, h, rfl, fun _ => rfl, fun hc => ⟨hc, rfl⟩⟩, Nat.le_refl _, fun _ _ => rfl, Nat.le_refl _⟩

theorem Mono.trans {a b c : Sk} (h1 : Mono a b) (h2 : Mono b c) : Mono a c := by
  refine ⟨?_, Nat.le_trans h1.nS h2.nS, ?_, Nat.le_trans h1.nE h2.nE⟩
  · intro i e he
    obtain ⟨e1, he1, hs1, hc1, hd1⟩ := h1.ent i e he
    obtain ⟨e2, he2, hs2, hc2, hd2⟩ := h2.ent i e1 he1
    refine ⟨e2, he2, by rw [hs2, hs1], ?_, ?_⟩
    · intro hc; have := hc1 hc; rw [hc2 (by rw [this]; exact hc), this]
    · intro hcl
      obtain ⟨a1, a2⟩ := hd1 hcl
      obtain ⟨b1, b2⟩ := hd2 a1
      exact ⟨b1, by rw [b2, a2]⟩
  · intro x hx
    rw [h2.sE x (Nat.lt_of_lt_of_le hx h1.nS), h1.sE x hx]

/-! ### insert -/

theorem invSk_insert (k : Sk) (sid : Nat) (h : InvSk k) (hn : k.tbl sid = none) : InvSk (skInsert k sid) := by
  have hfr : k.ce k.nEnt = none := h.fresh _ (Nat.le_refl _)
  constructor
  · intro i hi
    simp only [skInsert] at hi ⊢
    rw [upd_ne _ _ (by omega)]; exact h.fresh i (by omega)
  · intro i e c hi hc
    simp only [skInsert] at hi ⊢
    by_cases hin : i = k.nEnt
    · subst hin; simp at hi; subst hi; simp at hc
    · rw [upd_ne _ _ hin] at hi; exact h.conn i e c hi hc
  · intro c hc
    simp only [skInsert] at hc ⊢
    obtain ⟨e, he, hec⟩ := h.sockOwn c hc
    have : k.sockEnt c ≠ k.nEnt := by intro heq; rw [heq, hfr] at he; simp at he
    exact ⟨e, by rw [upd_ne _ _ this]; exact he, hec⟩
  · intro sid' i hi
    simp only [skInsert] at hi ⊢
    by_cases hs : sid' = sid
    · subst hs; simp at hi; subst hi; exact ⟨_, upd_same _ _ _, rfl, Or.inl rfl⟩
    · rw [upd_ne _ _ hs] at hi
      obtain ⟨e, he, hes, hl⟩ := h.tblT sid' i hi
      have : i ≠ k.nEnt := by intro heq; rw [heq, hfr] at he; simp at he
      exact ⟨e, by rw [upd_ne _ _ this]; exact he, hes, hl⟩
  · intro i e hi hl
    simp only [skInsert] at hi ⊢
    by_cases hin : i = k.nEnt
    · subst hin; simp at hi; subst hi; simp
    · rw [upd_ne _ _ hin] at hi
      have ht := h.tblU i e hi hl
      have : e.sid ≠ sid := by intro heq; rw [heq, hn] at ht; simp at ht
      rw [upd_ne _ _ this]; exact ht
  · intro i e hi hp
    simp only [skInsert] at hi
    by_cases hin : i = k.nEnt
    · subst hin; simp at hi; subst hi; simp at hp
    · rw [upd_ne _ _ hin] at hi; exact h.pend i e hi hp
  · intro i e hi hp
    simp only [skInsert] at hi
    by_cases hin : i = k.nEnt
    · subst hin; simp at hi; subst hi; simp at hp
    · rw [upd_ne _ _ hin] at hi; exact h.live i e hi hp

theorem mono_insert (k : Sk) (sid : Nat) (h : InvSk k) : Mono k (skInsert k sid) := by
  refine ⟨?_, Nat.le_refl _, fun _ _ => rfl, by simp [skInsert]⟩
  intro i e he
  have : i ≠ k.nEnt := by intro heq; rw [heq, h.fresh _ (Nat.le_refl _)] at he; simp at he
  exact ⟨e, by simp only [skInsert]; rw [upd_ne _ _ this]; exact he, rfl, fun _ => rfl, fun hc => ⟨hc, rfl⟩⟩

/-! ### dial -/

theorem invSk_dial (k : Sk) (i : Nat) (e : CoreE) (h : InvSk k) (he : k.ce i = some e)
    (hc : e.conn = none) (hcl : e.closed = false) : InvSk (skDial k i e) := by
  constructor
  · intro j hj
    simp only [skDial]
    have : j ≠ i := by intro heq; subst heq; rw [h.fresh j hj] at he; simp at he
    rw [upd_ne _ _ this]; exact h.fresh j hj
  · intro j ej c hj hcj
    simp only [skDial] at hj ⊢
    by_cases hji : j = i
    · subst hji; simp at hj; subst hj; simp at hcj; subst hcj
      simp [hcl]
    · rw [upd_ne _ _ hji] at hj
      obtain ⟨a, b, d⟩ := h.conn j ej c hj hcj
      have : c ≠ k.nSock := by omega
      rw [upd_ne _ _ this, upd_ne _ _ this]
      exact ⟨by omega, b, d⟩
  · intro c hcn
    simp only [skDial] at hcn ⊢
    by_cases hcc : c = k.nSock
    · subst hcc; simp
    · rw [upd_ne _ _ hcc]
      obtain ⟨e1, he1, hec⟩ := h.sockOwn c (by omega)
      have : k.sockEnt c ≠ i := by
        intro heq; rw [heq, he] at he1; simp at he1; subst he1; rw [hc] at hec; simp at hec
      exact ⟨e1, by rw [upd_ne _ _ this]; exact he1, hec⟩
  · intro sid j hj
    simp only [skDial] at hj ⊢
    obtain ⟨e1, he1, hs, hl⟩ := h.tblT sid j hj
    by_cases hji : j = i
    · subst hji; rw [he] at he1; simp at he1; subst he1
      exact ⟨_, upd_same _ _ _, hs, hl⟩
    · exact ⟨e1, by rw [upd_ne _ _ hji]; exact he1, hs, hl⟩
  · intro j ej hj hl
    simp only [skDial] at hj ⊢
    by_cases hji : j = i
    · subst hji; simp at hj; subst hj; exact h.tblU j e he hl
    · rw [upd_ne _ _ hji] at hj; exact h.tblU j ej hj hl
  · intro j ej hj hp
    simp only [skDial] at hj
    by_cases hji : j = i
    · subst hji; simp at hj; subst hj; exact h.pend j e he hp
    · rw [upd_ne _ _ hji] at hj; exact h.pend j ej hj hp
  · intro j ej hj hp
    simp only [skDial] at hj
    by_cases hji : j = i
    · subst hji; simp at hj; subst hj; simp
    · rw [upd_ne _ _ hji] at hj; exact h.live j ej hj hp

theorem mono_dial (k : Sk) (i : Nat) (e : CoreE) (he : k.ce i = some e)
    (hc : e.conn = none) (hcl : e.closed = false) : Mono k (skDial k i e) := by
  refine ⟨?_, by simp [skDial], ?_, Nat.le_refl _⟩
  · intro j ej hj
    simp only [skDial]
    by_cases hji : j = i
    · subst hji; rw [he] at hj; simp at hj; subst hj
      exact ⟨_, upd_same _ _ _, rfl, fun h => by rw [hc] at h; simp at h, fun h => by rw [hcl] at h; simp at h⟩
    · exact ⟨ej, by rw [upd_ne _ _ hji]; exact hj, rfl, fun _ => rfl, fun h => ⟨h, rfl⟩⟩
  · intro c hcn
    simp only [skDial]; rw [upd_ne _ _ (by omega)]

/-! ### closeA -/

theorem invSk_closeA (k : Sk) (i : Nat) (h : InvSk k) : InvSk (skCloseA k i) := by
  unfold skCloseA
  split
  · exact h
  · rename_i e he
    split
    · exact h
    · rename_i hcl
      have hcl' : e.closed = false := by simpa using hcl
      -- facts shared by both branches: the table and ids are untouched, entry i becomes closed+pending
      have key : ∀ (sock' : Nat → Nat),
          (∀ j ej c, (upd k.ce i (some { e with closed := true, pend := true })) j = some ej → ej.conn = some c →
              c < k.nSock ∧ k.sockEnt c = j ∧ sock' c = (if ej.closed then 1 else 0)) →
          InvSk { k with ce := upd k.ce i (some { e with closed := true, pend := true }), sock := sock' } := by
        intro sock' hconn
        constructor
        · intro j hj
          have : j ≠ i := by intro heq; subst heq; rw [h.fresh j hj] at he; simp at he
          simp only; rw [upd_ne _ _ this]; exact h.fresh j hj
        · exact hconn
        · intro c hc
          obtain ⟨e1, he1, hec⟩ := h.sockOwn c hc
          simp only
          by_cases hsi : k.sockEnt c = i
          · rw [hsi] at he1 ⊢; rw [he] at he1; simp at he1; subst he1
            exact ⟨_, upd_same _ _ _, hec⟩
          · exact ⟨e1, by rw [upd_ne _ _ hsi]; exact he1, hec⟩
        · intro sid j hj
          simp only at hj ⊢
          obtain ⟨e1, he1, hs, hl⟩ := h.tblT sid j hj
          by_cases hji : j = i
          · subst hji; rw [he] at he1; simp at he1; subst he1
            exact ⟨_, upd_same _ _ _, hs, Or.inr rfl⟩
          · exact ⟨e1, by rw [upd_ne _ _ hji]; exact he1, hs, hl⟩
        · intro j ej hj hl
          simp only at hj ⊢
          by_cases hji : j = i
          · subst hji; simp at hj; subst hj; exact h.tblU j e he (Or.inl hcl')
          · rw [upd_ne _ _ hji] at hj; exact h.tblU j ej hj hl
        · intro j ej hj hp
          simp only at hj
          by_cases hji : j = i
          · subst hji; simp at hj; subst hj; rfl
          · rw [upd_ne _ _ hji] at hj; exact h.pend j ej hj hp
        · intro j ej hj hp
          simp only at hj
          by_cases hji : j = i
          · subst hji; simp at hj; subst hj; exact h.live j e he hp
          · rw [upd_ne _ _ hji] at hj; exact h.live j ej hj hp
      split
      · rename_i hconn
        apply key k.sock
        intro j ej c hj hcj
        by_cases hji : j = i
        · subst hji; simp at hj; subst hj; simp [hconn] at hcj
        · rw [upd_ne _ _ hji] at hj; exact h.conn j ej c hj hcj
      · rename_i c0 hconn
        obtain ⟨a0, b0, d0⟩ := h.conn i e c0 he hconn
        apply key (upd k.sock c0 (k.sock c0 + 1))
        intro j ej c hj hcj
        by_cases hji : j = i
        · subst hji; simp at hj; subst hj
          simp at hcj; rw [hconn] at hcj; simp at hcj; subst hcj
          refine ⟨a0, b0, ?_⟩
          simp [d0, hcl']
        · rw [upd_ne _ _ hji] at hj
          obtain ⟨a, b, d⟩ := h.conn j ej c hj hcj
          have : c ≠ c0 := by intro heq; subst heq; rw [b0] at b; exact hji b.symm
          rw [upd_ne _ _ this]; exact ⟨a, b, d⟩

theorem mono_closeA (k : Sk) (i : Nat) : Mono k (skCloseA k i) := by
  unfold skCloseA
  split
  · exact Mono.refl k
  · rename_i e he
    split
    · exact Mono.refl k
    · rename_i hcl
      have hcl' : e.closed = false := by simpa using hcl
      have key : ∀ (sock' : Nat → Nat),
          Mono k { k with ce := upd k.ce i (some { e with closed := true, pend := true }), sock := sock' } := by
        intro sock'
        refine ⟨?_, Nat.le_refl _, fun _ _ => rfl, Nat.le_refl _⟩
        intro j ej hj
        simp only
        by_cases hji : j = i
        · subst hji; rw [he] at hj; simp at hj; subst hj
          exact ⟨_, upd_same _ _ _, rfl, fun _ => rfl, fun hc => by rw [hcl'] at hc; simp at hc⟩
        · exact ⟨ej, by rw [upd_ne _ _ hji]; exact hj, rfl, fun _ => rfl, fun hc => ⟨hc, rfl⟩⟩
      split
      · exact key _
      · exact key _

/-- after closeA the entry (if it exists) is closed -/
theorem closeA_closed (k : Sk) (i : Nat) (e : CoreE) (he : k.ce i = some e) :
    ∃ e', (skCloseA k i).ce i = some e' ∧ e'.closed = true := by
  unfold skCloseA
  rw [he]
  simp only
  split
  · rename_i hc; exact ⟨e, he, hc⟩
  · split <;> exact ⟨_, upd_same _ _ _, rfl⟩

/-- closeA touches only entry i -/
theorem closeA_other (k : Sk) (i j : Nat) (hji : j ≠ i) : (skCloseA k i).ce j = k.ce j := by
  unfold skCloseA
  split
  · rfl
  · split
    · rfl
    · split <;> simp [upd_ne _ _ hji]

theorem closeA_tbl (k : Sk) (i : Nat) : (skCloseA k i).tbl = k.tbl ∧ (skCloseA k i).nEnt = k.nEnt ∧
    (skCloseA k i).nSock = k.nSock ∧ (skCloseA k i).sockEnt = k.sockEnt := by
  unfold skCloseA
  split
  · simp
  · split
    · simp
    · split <;> simp

theorem closeA_none (k : Sk) (i j : Nat) (h : k.ce j = none) : (skCloseA k i).ce j = none := by
  by_cases hji : j = i
  · subst hji; unfold skCloseA; rw [h]; simpa using h
  · rw [closeA_other k i j hji]; exact h

/-! ### loop off -/

theorem invSk_off (k : Sk) (i : Nat) (h : InvSk k) : InvSk (skOff k i) := by
  unfold skOff
  split
  · exact h
  · rename_i e he
    constructor
    · intro j hj
      have : j ≠ i := by intro heq; subst heq; rw [h.fresh j hj] at he; simp at he
      simp only; rw [upd_ne _ _ this]; exact h.fresh j hj
    · intro j ej c hj hcj
      simp only at hj ⊢
      by_cases hji : j = i
      · subst hji; simp at hj; subst hj; exact h.conn j e c he hcj
      · rw [upd_ne _ _ hji] at hj; exact h.conn j ej c hj hcj
    · intro c hc
      obtain ⟨e1, he1, hec⟩ := h.sockOwn c hc
      simp only
      by_cases hsi : k.sockEnt c = i
      · rw [hsi] at he1 ⊢; rw [he] at he1; simp at he1; subst he1
        exact ⟨_, upd_same _ _ _, hec⟩
      · exact ⟨e1, by rw [upd_ne _ _ hsi]; exact he1, hec⟩
    · intro sid j hj
      simp only at hj ⊢
      obtain ⟨e1, he1, hs, hl⟩ := h.tblT sid j hj
      by_cases hji : j = i
      · subst hji; rw [he] at he1; simp at he1; subst he1
        exact ⟨_, upd_same _ _ _, hs, hl⟩
      · exact ⟨e1, by rw [upd_ne _ _ hji]; exact he1, hs, hl⟩
    · intro j ej hj hl
      simp only at hj ⊢
      by_cases hji : j = i
      · subst hji; simp at hj; subst hj; exact h.tblU j e he hl
      · rw [upd_ne _ _ hji] at hj; exact h.tblU j ej hj hl
    · intro j ej hj hp
      simp only at hj
      by_cases hji : j = i
      · subst hji; simp at hj; subst hj; exact h.pend j e he hp
      · rw [upd_ne _ _ hji] at hj; exact h.pend j ej hj hp
    · intro j ej hj hp
      simp only at hj
      by_cases hji : j = i
      · subst hji; simp at hj; subst hj; simp at hp
      · rw [upd_ne _ _ hji] at hj; exact h.live j ej hj hp

theorem mono_off (k : Sk) (i : Nat) : Mono k (skOff k i) := by
  unfold skOff
  split
  · exact Mono.refl k
  · rename_i e he
    refine ⟨?_, Nat.le_refl _, fun _ _ => rfl, Nat.le_refl _⟩
    intro j ej hj
    simp only
    by_cases hji : j = i
    · subst hji; rw [he] at hj; simp at hj; subst hj
      exact ⟨_, upd_same _ _ _, rfl, fun _ => rfl, fun hc => ⟨hc, rfl⟩⟩
    · exact ⟨ej, by rw [upd_ne _ _ hji]; exact hj, rfl, fun _ => rfl, fun hc => ⟨hc, rfl⟩⟩

/-! ### exitB -/

theorem invSk_exitB (k : Sk) (i : Nat) (h : InvSk k) : InvSk (skExitB k i) := by
  unfold skExitB
  split
  · exact h
  · rename_i e he
    split
    · rename_i hp
      have hclosed := h.pend i e he hp
      have htbl := h.tblU i e he (Or.inr hp)
      constructor
      · intro j hj
        have : j ≠ i := by intro heq; subst heq; rw [h.fresh j hj] at he; simp at he
        simp only; rw [upd_ne _ _ this]; exact h.fresh j hj
      · intro j ej c hj hcj
        simp only at hj ⊢
        by_cases hji : j = i
        · subst hji; simp at hj; subst hj; exact h.conn j e c he hcj
        · rw [upd_ne _ _ hji] at hj; exact h.conn j ej c hj hcj
      · intro c hc
        obtain ⟨e1, he1, hec⟩ := h.sockOwn c hc
        simp only
        by_cases hsi : k.sockEnt c = i
        · rw [hsi] at he1 ⊢; rw [he] at he1; simp at he1; subst he1
          exact ⟨_, upd_same _ _ _, hec⟩
        · exact ⟨e1, by rw [upd_ne _ _ hsi]; exact he1, hec⟩
      · intro sid j hj
        simp only at hj ⊢
        by_cases hs : sid = e.sid
        · subst hs; simp at hj
        · rw [upd_ne _ _ hs] at hj
          obtain ⟨e1, he1, hs1, hl⟩ := h.tblT sid j hj
          have hji : j ≠ i := by
            intro heq; subst heq; rw [he] at he1; simp at he1; subst he1; exact hs hs1.symm
          exact ⟨e1, by rw [upd_ne _ _ hji]; exact he1, hs1, hl⟩
      · intro j ej hj hl
        simp only at hj ⊢
        by_cases hji : j = i
        · subst hji; simp at hj; subst hj
          simp only at hl
          rcases hl with hl | hl
          · rw [hclosed] at hl; simp at hl
          · simp at hl
        · rw [upd_ne _ _ hji] at hj
          have ht := h.tblU j ej hj hl
          have : ej.sid ≠ e.sid := by
            intro heq; rw [heq, htbl] at ht; simp at ht; exact hji ht.symm
          rw [upd_ne _ _ this]; exact ht
      · intro j ej hj hp'
        simp only at hj
        by_cases hji : j = i
        · subst hji; simp at hj; subst hj; simp at hp'
        · rw [upd_ne _ _ hji] at hj; exact h.pend j ej hj hp'
      · intro j ej hj hp'
        simp only at hj
        by_cases hji : j = i
        · subst hji; simp at hj; subst hj; exact h.live j e he hp'
        · rw [upd_ne _ _ hji] at hj; exact h.live j ej hj hp'
    · exact h

theorem mono_exitB (k : Sk) (i : Nat) : Mono k (skExitB k i) := by
  unfold skExitB
  split
  · exact Mono.refl k
  · rename_i e he
    split
    · refine ⟨?_, Nat.le_refl _, fun _ _ => rfl, Nat.le_refl _⟩
      intro j ej hj
      simp only
      by_cases hji : j = i
      · subst hji; rw [he] at hj; simp at hj; subst hj
        exact ⟨_, upd_same _ _ _, rfl, fun _ => rfl, fun hc => ⟨hc, rfl⟩⟩
      · exact ⟨ej, by rw [upd_ne _ _ hji]; exact hj, rfl, fun _ => rfl, fun hc => ⟨hc, rfl⟩⟩
    · exact Mono.refl k

end Hy.UdpSession
