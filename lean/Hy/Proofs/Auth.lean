/-
  Helper lemmas for C01/C02 over Hy.Model.Auth: per-connection facts about `cstep`, the
  global invariant, and its lifting to arbitrary schedules.
-/
import Hy.Model.Auth
set_option linter.unusedSimpArgs false
set_option linter.unusedVariables false
namespace Hy.Auth

/-! ### per-connection facts -/

/-- local well-formedness: nothing proxy-capable exists on an unauthenticated connection, and
    an authenticated one is not in the middle of an authenticator call -/
structure Wf (k : Conn) : Prop where
  locked : k.authed = false → k.udpUp = false ∧ k.tcp = [] ∧ k.sess = 0
  idle   : k.authed = true → k.phase = .idle

/-- the flag is set, or the verdict that will set it has been returned -/
def Armed (k : Conn) : Prop := k.authed = true ∨ k.phase = .decided true

theorem wf_init : Wf {} := ⟨fun _ => ⟨rfl, rfl, rfl⟩, fun h => by simp at h⟩

theorem not_armed_init : ¬ Armed {} := by simp [Armed]

/-- every effect of a step of connection `c` is tagged `c` -/
theorem cstep_conn (cfg : Cfg) (c : ConnId) (k : Conn) (a : Act) (e : Eff)
    (he : e ∈ (cstep cfg c k a).2) : e.conn = c := by
  cases a <;> simp only [cstep] at he <;> (repeat' split at he) <;>
    simp_all [Eff.conn]
  all_goals (rcases he with he | he <;> simp [he, Eff.conn])

theorem cstep_authed_mono (cfg : Cfg) (c : ConnId) (k : Conn) (a : Act)
    (h : k.authed = true) : (cstep cfg c k a).1.authed = true := by
  cases a <;> simp only [cstep] <;> (repeat' split) <;> simp_all [setPc]

theorem cstep_wf (cfg : Cfg) (c : ConnId) (k : Conn) (a : Act) (hw : Wf k) :
    Wf (cstep cfg c k a).1 := by
  obtain ⟨hl, hi⟩ := hw
  cases hk : k.authed with
  | true =>
    have hp := hi hk
    cases a <;> simp only [cstep] <;> (repeat' split) <;>
      (constructor <;> simp_all [setPc])
  | false =>
    obtain ⟨hu, ht, hs⟩ := hl hk
    cases a <;> simp only [cstep] <;> (repeat' split) <;>
      (constructor <;> simp_all [setPc])

/-- a gated effect (dial, relayed payload, TCPResponse, UDPMessage to the client) is only ever
    emitted by a connection whose flag is set -/
theorem cstep_gated (cfg : Cfg) (c : ConnId) (k : Conn) (a : Act) (hw : Wf k) (e : Eff)
    (he : e ∈ (cstep cfg c k a).2) (hg : e.gated = true) : k.authed = true := by
  cases hk : k.authed with
  | true => rfl
  | false =>
    exfalso
    obtain ⟨hu, ht, hs⟩ := hw.locked hk
    cases a <;> simp only [cstep] at he <;> (repeat' split at he) <;>
      simp_all [setPc, Eff.gated, Eff.isProxy, Eff.isReply]
    all_goals (rcases he with he | he <;> simp_all [Eff.gated, Eff.isProxy, Eff.isReply])

/-- the flag (or the accepting verdict) can only appear through an accepting verdict of THIS
    connection emitted by this very step -/
theorem cstep_armed (cfg : Cfg) (c : ConnId) (k : Conn) (a : Act)
    (h : Armed (cstep cfg c k a).1) : Armed k ∨ accepted c ∈ (cstep cfg c k a).2 := by
  unfold Armed at *
  cases a <;> simp only [cstep] at h ⊢ <;> (repeat' split at h) <;>
    simp_all [setPc, accepted]

/-- once authenticated, no step of the connection calls the authenticator or obtains a verdict -/
theorem cstep_no_reeval (cfg : Cfg) (c : ConnId) (k : Conn) (a : Act) (hw : Wf k)
    (ha : k.authed = true) (e : Eff) (he : e ∈ (cstep cfg c k a).2) :
    (∀ d cred, e ≠ .authCall d cred) ∧ (∀ d v, e ≠ .verdict d v) := by
  have hp := hw.idle ha
  cases a <;> simp only [cstep] at he <;> (repeat' split at he) <;> simp_all
  all_goals (rcases he with he | he <;> simp [he])

/-! ### the log discipline -/

/-- newest-first log: every gated effect has an acceptance of its own connection below it -/
def Good : List Eff → Prop
  | [] => True
  | e :: l => (e.gated = true → accepted e.conn ∈ l) ∧ Good l

theorem good_append (xs l : List Eff) (hl : Good l)
    (hx : ∀ e ∈ xs, e.gated = true → accepted e.conn ∈ l) : Good (xs ++ l) := by
  induction xs with
  | nil => simpa using hl
  | cons x xs ih =>
    refine ⟨fun hg => ?_, ih (fun e he => hx e (List.mem_cons_of_mem _ he))⟩
    exact List.mem_append_right _ (hx x List.mem_cons_self hg)

theorem good_split (l : List Eff) (hl : Good l) (post pre : List Eff) (e : Eff)
    (h : l = post ++ e :: pre) (hg : e.gated = true) : accepted e.conn ∈ pre := by
  induction post generalizing l with
  | nil => subst h; exact hl.1 hg
  | cons p ps ih => subst h; exact ih _ hl.2 rfl

/-! ### global invariant -/

structure Inv (s : St) : Prop where
  wf    : ∀ c, Wf (s.conn c)
  armed : ∀ c, Armed (s.conn c) → accepted c ∈ s.log
  good  : Good s.log

theorem inv_init : Inv {} :=
  ⟨fun _ => wf_init, fun _ h => absurd h not_armed_init, trivial⟩

theorem step_conn_self (cfg : Cfg) (s : St) (l : Label) :
    (step cfg s l).conn l.conn = (cstep cfg l.conn (s.conn l.conn) l.act).1 := by
  simp [step, upd]

/-- frame: a step of one connection leaves every other connection's state untouched -/
theorem step_conn_other (cfg : Cfg) (s : St) (l : Label) (c : ConnId) (h : l.conn ≠ c) :
    (step cfg s l).conn c = s.conn c := by
  have : ¬ c = l.conn := fun e => h e.symm
  simp [step, upd, this]

theorem step_log (cfg : Cfg) (s : St) (l : Label) :
    (step cfg s l).log = (cstep cfg l.conn (s.conn l.conn) l.act).2.reverse ++ s.log := rfl

theorem upd_self (f : ConnId → Conn) (c : ConnId) : upd f c (f c) = f := by
  funext j
  by_cases hj : j = c
  · subst hj; simp [upd]
  · simp [upd, hj]

/-- a step that leaves its connection's local state alone only extends the log -/
theorem step_same_conn (cfg : Cfg) (s : St) (c : ConnId) (a : Act) (effs : List Eff)
    (h : cstep cfg c (s.conn c) a = (s.conn c, effs)) :
    step cfg s ⟨c, a⟩ = { s with log := effs.reverse ++ s.log } := by
  cases s with
  | mk conn log =>
    simp only [step] at h ⊢
    rw [h]
    simp [upd_self]

theorem step_noop (cfg : Cfg) (s : St) (c : ConnId) (a : Act)
    (h : cstep cfg c (s.conn c) a = (s.conn c, [])) : step cfg s ⟨c, a⟩ = s := by
  rw [step_same_conn cfg s c a [] h]
  cases s; simp

theorem inv_step (cfg : Cfg) (s : St) (l : Label) (h : Inv s) : Inv (step cfg s l) := by
  refine ⟨fun c => ?_, fun c hc => ?_, ?_⟩
  · by_cases hcl : l.conn = c
    · subst hcl; rw [step_conn_self]; exact cstep_wf _ _ _ _ (h.wf _)
    · rw [step_conn_other _ _ _ _ hcl]; exact h.wf c
  · rw [step_log]
    by_cases hcl : l.conn = c
    · subst hcl
      rw [step_conn_self] at hc
      rcases cstep_armed _ _ _ _ hc with hk | hk
      · exact List.mem_append_right _ (h.armed _ hk)
      · exact List.mem_append_left _ (List.mem_reverse.mpr hk)
    · rw [step_conn_other _ _ _ _ hcl] at hc
      exact List.mem_append_right _ (h.armed c hc)
  · rw [step_log]
    refine good_append _ _ h.good (fun e he hg => ?_)
    have he' := List.mem_reverse.mp he
    have hc := cstep_conn _ _ _ _ _ he'
    rw [hc]
    exact h.armed _ (Or.inl (cstep_gated _ _ _ _ (h.wf _) e he' hg))

theorem inv_run (cfg : Cfg) (sched : List Label) : ∀ s, Inv s → Inv (run cfg s sched) := by
  induction sched with
  | nil => intro s h; exact h
  | cons l ls ih => intro s h; exact ih (step cfg s l) (inv_step cfg s l h)

/-- every gated effect in the chronological log of any schedule is preceded by the acceptance
    of its own connection -/
theorem gated_after_accept (cfg : Cfg) (sched : List Label) (pre post : List Eff) (e : Eff)
    (hl : (run cfg {} sched).effects = pre ++ e :: post) (hg : e.gated = true) :
    accepted e.conn ∈ pre := by
  have hinv := inv_run cfg sched {} inv_init
  have hlog : (run cfg {} sched).log = post.reverse ++ e :: pre.reverse := by
    have := congrArg List.reverse hl
    simpa [St.effects] using this
  have := good_split _ hinv.good post.reverse pre.reverse e hlog hg
  simpa using this

theorem run_append (cfg : Cfg) (s : St) (a b : List Label) :
    run cfg s (a ++ b) = run cfg (run cfg s a) b := by
  simp [run, List.foldl_append]

/-! ### the authenticator is not consulted after an acceptance (trace form) -/

theorem cstep_armed_mono (cfg : Cfg) (c : ConnId) (k : Conn) (a : Act) (hw : Wf k)
    (h : Armed k) : Armed (cstep cfg c k a).1 := by
  unfold Armed at *
  rcases h with h | h
  · exact Or.inl (cstep_authed_mono cfg c k a h)
  · have hna : k.authed = false := by
      cases hk : k.authed with
      | false => rfl
      | true => have := hw.idle hk; simp [this] at h
    cases a <;> simp only [cstep] <;> (repeat' split) <;> simp_all [setPc]

/-- an acceptance is emitted only by a step that leaves the connection armed -/
theorem cstep_accept_arms (cfg : Cfg) (c : ConnId) (k : Conn) (a : Act) (d : ConnId)
    (h : accepted d ∈ (cstep cfg c k a).2) : d = c ∧ Armed (cstep cfg c k a).1 := by
  unfold Armed
  cases a <;> simp only [cstep] at h ⊢ <;> (repeat' split at h) <;> simp_all [accepted, setPc]

/-- a call of the authenticator is emitted only by a connection that is not armed -/
theorem cstep_call_unarmed (cfg : Cfg) (c : ConnId) (k : Conn) (a : Act) (d : ConnId) (cred : String)
    (h : Eff.authCall d cred ∈ (cstep cfg c k a).2) :
    d = c ∧ ¬ Armed k ∧ (cstep cfg c k a).2 = [Eff.authCall c cred] := by
  unfold Armed
  cases a <;> simp only [cstep] at h ⊢ <;> (repeat' split at h) <;> simp_all [accepted, setPc]

/-- newest-first log: below every authenticator call of `c` there is no acceptance of `c` -/
def Good2 : List Eff → Prop
  | [] => True
  | e :: l => (∀ c cred, e = .authCall c cred → accepted c ∉ l) ∧ Good2 l

theorem good2_split (l : List Eff) (hl : Good2 l) (post pre : List Eff) (c : ConnId) (cred : String)
    (h : l = post ++ Eff.authCall c cred :: pre) : accepted c ∉ pre := by
  induction post generalizing l with
  | nil => subst h; exact hl.1 c cred rfl
  | cons p ps ih => subst h; exact ih _ hl.2 rfl

structure Inv2 (s : St) : Prop where
  inv   : Inv s
  acc   : ∀ c, accepted c ∈ s.log → Armed (s.conn c)
  good2 : Good2 s.log

theorem inv2_init : Inv2 {} := ⟨inv_init, fun _ h => by simp at h, trivial⟩

theorem good2_append_noncall (xs l : List Eff) (hl : Good2 l)
    (hx : ∀ e ∈ xs, ∀ c cred, e ≠ .authCall c cred) : Good2 (xs ++ l) := by
  induction xs with
  | nil => simpa using hl
  | cons x xs ih =>
    refine ⟨fun c cred he => absurd he (hx x List.mem_cons_self c cred), ih (fun e he => hx e (List.mem_cons_of_mem _ he))⟩

theorem inv2_step (cfg : Cfg) (s : St) (l : Label) (h : Inv2 s) : Inv2 (step cfg s l) := by
  refine ⟨inv_step cfg s l h.inv, fun c hc => ?_, ?_⟩
  · rw [step_log] at hc
    rcases List.mem_append.mp hc with hc | hc
    · have := cstep_accept_arms cfg _ _ _ c (List.mem_reverse.mp hc)
      obtain ⟨rfl, ha⟩ := this
      rw [step_conn_self]; exact ha
    · have ha := h.acc c hc
      by_cases hcl : l.conn = c
      · subst hcl; rw [step_conn_self]; exact cstep_armed_mono _ _ _ _ (h.inv.wf _) ha
      · rw [step_conn_other _ _ _ _ hcl]; exact ha
  · rw [step_log]
    by_cases hcall : ∃ d cred, Eff.authCall d cred ∈ (cstep cfg l.conn (s.conn l.conn) l.act).2
    · obtain ⟨d, cred, hd⟩ := hcall
      obtain ⟨rfl, hna, heq⟩ := cstep_call_unarmed cfg _ _ _ d cred hd
      rw [heq]
      refine ⟨fun c cr he => ?_, h.good2⟩
      simp at he
      obtain ⟨rfl, _⟩ := he
      exact fun hin => hna (h.acc _ hin)
    · refine good2_append_noncall _ _ h.good2 (fun e he c cred heq => hcall ⟨c, cred, ?_⟩)
      subst heq
      exact List.mem_reverse.mp he

theorem inv2_run (cfg : Cfg) (sched : List Label) : ∀ s, Inv2 s → Inv2 (run cfg s sched) := by
  induction sched with
  | nil => intro s h; exact h
  | cons l ls ih => intro s h; exact ih (step cfg s l) (inv2_step cfg s l h)

/-- in the chronological log of any schedule, no authenticator call for `c` comes after an
    acceptance of `c` -/
theorem no_call_after_accept (cfg : Cfg) (sched : List Label) (pre post : List Eff) (c : ConnId) (cred : String)
    (hl : (run cfg {} sched).effects = pre ++ Eff.authCall c cred :: post) : accepted c ∉ pre := by
  have hinv := inv2_run cfg sched {} inv2_init
  have hlog : (run cfg {} sched).log = post.reverse ++ Eff.authCall c cred :: pre.reverse := by
    have := congrArg List.reverse hl
    simpa [St.effects] using this
  have := good2_split _ hinv.good2 post.reverse pre.reverse c cred hlog
  simpa using this

/-! ### the executable monitors decide the two trace properties -/

theorem gateMonitorFrom_iff (effs : List Eff) : ∀ seen,
    gateMonitorFrom seen effs = true ↔
      ∀ pre e post, effs = pre ++ e :: post → e.gated = true → (e.conn ∈ seen ∨ accepted e.conn ∈ pre) := by
  induction effs with
  | nil => intro seen; simp [gateMonitorFrom]
  | cons x xs ih =>
    intro seen
    simp only [gateMonitorFrom, Bool.and_eq_true, Bool.or_eq_true, Bool.not_eq_true']
    rw [ih]
    constructor
    · rintro ⟨h1, h2⟩ pre e post heq hg
      cases pre with
      | nil =>
        simp at heq; obtain ⟨rfl, rfl⟩ := heq
        rcases h1 with h1 | h1
        · simp [h1] at hg
        · exact Or.inl (by simpa using h1)
      | cons p ps =>
        simp at heq; obtain ⟨rfl, rfl⟩ := heq
        rcases h2 ps e post rfl hg with h | h
        · by_cases hx : x = accepted e.conn
          · exact Or.inr (by simp [hx])
          · cases x <;> simp_all [accepted]
            rename_i c ok
            cases ok <;> simp_all
            rcases h with h | h
            · exact absurd h.symm hx
            · exact Or.inl h
        · exact Or.inr (List.mem_cons_of_mem _ h)
    · intro h
      constructor
      · cases hg : x.gated with
        | false => exact Or.inl rfl
        | true =>
          rcases h [] x xs rfl hg with h' | h'
          · exact Or.inr (by simpa using h')
          · simp at h'
      · intro pre e post heq hg
        rcases h (x :: pre) e post (by simp [heq]) hg with h' | h'
        · left
          cases x <;> simp_all
          rename_i c ok
          cases ok <;> simp_all
        · rcases List.mem_cons.mp h' with h'' | h''
          · left; rw [← h'']; simp [accepted]
          · exact Or.inr h''

theorem reevalMonitorFrom_iff (effs : List Eff) : ∀ seen,
    reevalMonitorFrom seen effs = true ↔
      ∀ pre c cred post, effs = pre ++ Eff.authCall c cred :: post → (c ∉ seen ∧ accepted c ∉ pre) := by
  induction effs with
  | nil => intro seen; simp [reevalMonitorFrom]
  | cons x xs ih =>
    intro seen
    simp only [reevalMonitorFrom, Bool.and_eq_true]
    rw [ih]
    constructor
    · rintro ⟨h1, h2⟩ pre c cred post heq
      cases pre with
      | nil =>
        simp at heq; obtain ⟨rfl, rfl⟩ := heq
        simpa using h1
      | cons p ps =>
        simp at heq; obtain ⟨rfl, rfl⟩ := heq
        obtain ⟨ha, hb⟩ := h2 ps c cred post rfl
        cases x <;> simp_all [accepted]
        rename_i d ok
        cases ok <;> simp_all
    · intro h
      constructor
      · cases x <;> simp
        rename_i c cred
        exact (h [] c cred xs rfl).1
      · intro pre c cred post heq
        obtain ⟨ha, hb⟩ := h (x :: pre) c cred post (by simp [heq])
        cases x <;> simp_all [accepted]
        rename_i d ok
        cases ok <;> simp_all

/-! ### locality -/

/-- the state of connection `c` after any schedule is the local run of its own acts -/
theorem run_conn_local (cfg : Cfg) (c : ConnId) (sched : List Label) :
    ∀ s, (run cfg s sched).conn c = crun cfg c (s.conn c) (actsOf c sched) := by
  induction sched with
  | nil => intro s; rfl
  | cons l ls ih =>
    intro s
    show (run cfg (step cfg s l) ls).conn c = _
    rw [ih]
    by_cases hcl : l.conn = c
    · subst hcl
      simp [actsOf, crun, step_conn_self]
    · have : ¬ (l.conn = c) := hcl
      rw [step_conn_other _ _ _ _ hcl]
      simp [actsOf, this]

/-! ### monotonicity and no re-evaluation -/

theorem step_authed_mono (cfg : Cfg) (s : St) (l : Label) (c : ConnId)
    (h : (s.conn c).authed = true) : ((step cfg s l).conn c).authed = true := by
  by_cases hcl : l.conn = c
  · subst hcl; rw [step_conn_self]; exact cstep_authed_mono _ _ _ _ h
  · rw [step_conn_other _ _ _ _ hcl]; exact h

theorem run_authed_mono (cfg : Cfg) (c : ConnId) (sched : List Label) :
    ∀ s, (s.conn c).authed = true → ((run cfg s sched).conn c).authed = true := by
  induction sched with
  | nil => intro s h; exact h
  | cons l ls ih => intro s h; exact ih _ (step_authed_mono cfg s l c h)

/-- from a state in which `c` is authenticated, whatever is appended to the log contains no
    authenticator call and no verdict for `c` -/
theorem run_no_reeval (cfg : Cfg) (c : ConnId) (sched : List Label) :
    ∀ s, Inv s → (s.conn c).authed = true →
      ∃ new, (run cfg s sched).log = new ++ s.log ∧
        ∀ e ∈ new, (∀ cred, e ≠ .authCall c cred) ∧ (∀ v, e ≠ .verdict c v) := by
  induction sched with
  | nil => intro s _ _; exact ⟨[], rfl, by simp⟩
  | cons l ls ih =>
    intro s hi ha
    obtain ⟨new, hlog, hnew⟩ := ih (step cfg s l) (inv_step cfg s l hi) (step_authed_mono cfg s l c ha)
    refine ⟨new ++ (cstep cfg l.conn (s.conn l.conn) l.act).2.reverse, ?_, ?_⟩
    · show (run cfg (step cfg s l) ls).log = _
      rw [hlog, step_log, List.append_assoc]
    · intro e he
      rcases List.mem_append.mp he with he | he
      · exact hnew e he
      · have he' := List.mem_reverse.mp he
        by_cases hcl : l.conn = c
        · subst hcl
          have := cstep_no_reeval cfg _ _ _ (hi.wf _) ha e he'
          exact ⟨fun cred => this.1 _ cred, fun v => this.2 _ v⟩
        · have hc := cstep_conn _ _ _ _ _ he'
          constructor
          · intro cred heq; subst heq; exact hcl (by simpa [Eff.conn] using hc.symm)
          · intro v heq; subst heq; exact hcl (by simpa [Eff.conn] using hc.symm)

/-! ### acceptance is needed: without an accepting verdict step of `c`, nothing is armed -/

theorem cstep_armed_needs_verdict (cfg : Cfg) (c : ConnId) (k : Conn) (a : Act)
    (hn : ¬ Armed k) (ha : a ≠ .authVerdict true) : ¬ Armed (cstep cfg c k a).1 := by
  intro h
  rcases cstep_armed cfg c k a h with h | h
  · exact hn h
  · cases a <;> simp only [cstep] at h <;> (repeat' split at h) <;> simp_all [accepted]

theorem run_never_armed (cfg : Cfg) (c : ConnId) (sched : List Label)
    (hs : ∀ l ∈ sched, ¬ (l.conn = c ∧ l.act = .authVerdict true)) :
    ∀ s, ¬ Armed (s.conn c) → ¬ Armed ((run cfg s sched).conn c) := by
  induction sched with
  | nil => intro s h; exact h
  | cons l ls ih =>
    intro s h
    refine ih (fun l' hl' => hs l' (List.mem_cons_of_mem _ hl')) (step cfg s l) ?_
    by_cases hcl : l.conn = c
    · subst hcl
      rw [step_conn_self]
      exact cstep_armed_needs_verdict _ _ _ _ h (fun e => hs l List.mem_cons_self ⟨rfl, e⟩)
    · rw [step_conn_other _ _ _ _ hcl]; exact h

/-- ... and then the log never contains a gated effect of `c` -/
theorem run_never_gated (cfg : Cfg) (c : ConnId) (sched : List Label)
    (hs : ∀ l ∈ sched, ¬ (l.conn = c ∧ l.act = .authVerdict true)) :
    ∀ s, Inv s → ¬ Armed (s.conn c) → (∀ e ∈ s.log, e.conn = c → e.gated = false) →
      ∀ e ∈ (run cfg s sched).log, e.conn = c → e.gated = false := by
  induction sched with
  | nil => intro s _ _ h; exact h
  | cons l ls ih =>
    intro s hi hna hlog
    have hs' : ∀ l' ∈ ls, ¬ (l'.conn = c ∧ l'.act = .authVerdict true) :=
      fun l' hl' => hs l' (List.mem_cons_of_mem _ hl')
    have hna' : ¬ Armed ((step cfg s l).conn c) := by
      have := run_never_armed cfg c [l] (fun l' hl' => by
        have : l' = l := by simpa using hl'
        subst this; exact hs l' List.mem_cons_self) s hna
      simpa [run] using this
    refine ih hs' (step cfg s l) (inv_step cfg s l hi) hna' ?_
    intro e he hc
    rw [step_log] at he
    rcases List.mem_append.mp he with he | he
    · have he' := List.mem_reverse.mp he
      have hcl := cstep_conn _ _ _ _ _ he'
      cases hg : e.gated with
      | false => rfl
      | true =>
        exfalso
        have := cstep_gated _ _ _ _ (hi.wf _) e he' hg
        rw [hcl] at hc
        rw [hc] at this
        exact hna (Or.inl this)
    · exact hlog e he hc

end Hy.Auth
