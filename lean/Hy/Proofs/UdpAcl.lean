/- Helper lemmas for C08 (model: Hy.Model.UdpAcl). -/
import Hy.Model.UdpAcl
namespace Hy.UdpAcl

/-! ### cache primitives -/

theorem lookup_mem {c : Cache} {a : Addr} {v : Bool} (h : lookup c a = some v) : (a, v) ∈ c := by
  induction c with
  | nil => simp [lookup] at h
  | cons e rest ih =>
    obtain ⟨k, w⟩ := e
    simp only [lookup] at h
    split at h
    · rename_i hk; subst hk; simp at h; subst h; exact List.mem_cons_self
    · exact List.mem_cons_of_mem _ (ih h)

theorem lookup_none_not_key {c : Cache} {a : Addr} (h : lookup c a = none) : ∀ v, (a, v) ∉ c := by
  induction c with
  | nil => intro v; simp
  | cons e rest ih =>
    obtain ⟨k, w⟩ := e
    simp only [lookup] at h
    split at h
    · simp at h
    · rename_i hk
      intro v hm
      rcases List.mem_cons.mp hm with heq | hm'
      · simp only [Prod.mk.injEq] at heq; exact hk heq.1.symm
      · exact ih h v hm'

theorem erase_sub (c : Cache) (a : Addr) : ∀ e, e ∈ erase c a → e ∈ c := by
  intro e h; exact (List.mem_filter.mp h).1

theorem evict_sub (c : Cache) (a : Addr) : ∀ e, e ∈ evict c a → e ∈ c := by
  intro e h
  unfold evict at h
  split at h
  · exact erase_sub c a e h
  · exact List.mem_of_mem_drop h

theorem erase_length_lt {c : Cache} {a : Addr} (h : (lookup c a).isSome) :
    (erase c a).length < c.length := by
  induction c with
  | nil => simp [lookup] at h
  | cons e rest ih =>
    obtain ⟨k, w⟩ := e
    simp only [lookup] at h
    unfold erase
    simp only [List.filter_cons]
    split at h
    · rename_i hk
      have : ¬ (decide ((k, w).1 ≠ a) = true) := by simp [hk]
      rw [if_neg this]
      have := List.length_filter_le (fun e : Addr × Bool => decide (e.1 ≠ a)) rest
      simp only [List.length_cons]; omega
    · rename_i hk
      have : (decide ((k, w).1 ≠ a) = true) := by simp [hk]
      rw [if_pos this]
      have := ih h
      unfold erase at this
      simp only [List.length_cons]; omega

theorem evict_length_lt {c : Cache} (a : Addr) (h : 0 < c.length) : (evict c a).length < c.length := by
  unfold evict
  split
  · rename_i hs; exact erase_length_lt hs
  · simp only [List.length_drop]; omega

/-- keys of a cache -/
def keys (c : Cache) : List Addr := c.map (·.1)

theorem lookup_none_not_in_keys {c : Cache} {a : Addr} (h : lookup c a = none) : a ∉ keys c := by
  intro hm
  unfold keys at hm
  obtain ⟨e, he, hk⟩ := List.mem_map.mp hm
  obtain ⟨k, v⟩ := e
  simp only at hk; subst hk
  exact lookup_none_not_key h v he

theorem keys_erase_sublist (c : Cache) (a : Addr) : (keys (erase c a)).Sublist (keys c) := by
  unfold keys erase
  exact (List.filter_sublist (l := c)).map _

theorem keys_evict_sublist (c : Cache) (a : Addr) : (keys (evict c a)).Sublist (keys c) := by
  unfold evict
  split
  · exact keys_erase_sublist c a
  · unfold keys; exact (List.drop_sublist 1 c).map _

/-! ### checkAddr -/

def Sound (P : Addr → Bool) (c : Cache) : Prop := ∀ k v, (k, v) ∈ c → v = P k

theorem checkAddr_verdict (P : Addr → Bool) (cap : Nat) (c : Cache) (a victim : Addr) (h : Sound P c) :
    (checkAddr P cap c a victim).2.1 = P a := by
  unfold checkAddr
  split
  · rename_i v hl; exact h a v (lookup_mem hl)
  · rfl

theorem checkAddr_sound (P : Addr → Bool) (cap : Nat) (c : Cache) (a victim : Addr) (h : Sound P c) :
    Sound P (checkAddr P cap c a victim).1 := by
  unfold checkAddr
  split
  · exact h
  · intro k v hm
    simp only at hm
    rcases List.mem_cons.mp hm with heq | hm'
    · simp only [Prod.mk.injEq] at heq; rw [heq.1, heq.2]
    · split at hm'
      · exact h k v (evict_sub c victim _ hm')
      · exact h k v hm'

theorem checkAddr_bounded (P : Addr → Bool) (cap : Nat) (hcap : 1 ≤ cap) (c : Cache) (a victim : Addr)
    (h : c.length ≤ cap) : (checkAddr P cap c a victim).1.length ≤ cap := by
  unfold checkAddr
  split
  · exact h
  · simp only [List.length_cons]
    split
    · rename_i hge
      have := evict_length_lt (c := c) victim (by omega)
      omega
    · omega

theorem checkAddr_nodup (P : Addr → Bool) (cap : Nat) (c : Cache) (a victim : Addr)
    (h : (keys c).Nodup) : (keys (checkAddr P cap c a victim).1).Nodup := by
  unfold checkAddr
  split
  · exact h
  · rename_i hl
    have hnk := lookup_none_not_in_keys hl
    simp only [keys, List.map_cons, List.nodup_cons]
    split
    · have hs := keys_evict_sublist c victim
      exact ⟨fun hm => hnk (hs.subset hm), h.sublist hs⟩
    · exact ⟨hnk, h⟩

/-- called ↔ it was a miss; a hit never calls the policy -/
theorem checkAddr_called (P : Addr → Bool) (cap : Nat) (c : Cache) (a victim : Addr) :
    (checkAddr P cap c a victim).2.2 = (lookup c a).isNone := by
  unfold checkAddr
  split <;> simp_all

/-! ### session invariant -/

structure Inv (P : Addr → Bool) (cap : Nat) (s : Sess) : Prop where
  sound   : Sound P s.acl.cache
  ovr     : s.acl.override ≠ "" → P s.acl.override = true
  bounded : s.acl.cache.length ≤ cap
  nodup   : (keys s.acl.cache).Nodup
  fresh   : s.conn = false → s.acl = {}

theorem inv_init (P : Addr → Bool) (cap : Nat) : Inv P cap {} := by
  constructor
  · intro k v h; simp at h
  · intro h; simp at h
  · simp
  · simp [keys]
  · intro _; rfl

theorem afterDial_sound (P : Addr → Bool) (hP : P "" = false) (first actual : Addr)
    (hc : P actual = true) : Sound P (afterDial first actual).cache := by
  unfold afterDial
  split
  · split
    · rename_i he; subst he; rw [hP] at hc; simp at hc
    · intro k v h; simp at h
  · rename_i he
    have he' : first = actual := by simpa using he
    intro k v h
    simp only [List.mem_singleton, Prod.mk.injEq] at h
    rw [h.1, h.2, he', hc]

theorem afterDial_ovr (P : Addr → Bool) (first actual : Addr) (hc : P actual = true) :
    (afterDial first actual).override ≠ "" → P (afterDial first actual).override = true := by
  unfold afterDial
  split
  · split
    · intro h; simp at h
    · intro _; exact hc
  · intro h; simp at h

theorem afterDial_len (first actual : Addr) : (afterDial first actual).cache.length ≤ 1 := by
  unfold afterDial; split
  · split <;> simp
  · simp

theorem afterDial_nodup (first actual : Addr) : (keys (afterDial first actual).cache).Nodup := by
  unfold afterDial; split
  · split <;> simp [keys]
  · simp [keys]

theorem inv_feedConn (P : Addr → Bool) (cap : Nat) (hcap : 1 ≤ cap) (s : Sess) (addr victim : Addr)
    (hconn : s.conn = true) (h : Inv P cap s) : Inv P cap (feedConn P cap s addr victim).1 := by
  unfold feedConn route
  split
  · exact ⟨h.sound, h.ovr, h.bounded, h.nodup, fun hc => by simp [hconn] at hc⟩
  · constructor
    · exact checkAddr_sound P cap _ addr victim h.sound
    · exact h.ovr
    · exact checkAddr_bounded P cap hcap _ addr victim h.bounded
    · exact checkAddr_nodup P cap _ addr victim h.nodup
    · intro hc; simp [hconn] at hc

/-- every WriteTo emitted by the connected part of Feed goes to an allowed destination -/
theorem feedConn_writes (P : Addr → Bool) (cap : Nat) (s : Sess) (addr victim : Addr)
    (hsound : Sound P s.acl.cache) (hovr : s.acl.override ≠ "" → P s.acl.override = true) :
    ∀ a, Ev.write a ∈ (feedConn P cap s addr victim).2 → P a = true := by
  intro a hm
  unfold feedConn route at hm
  split at hm
  · rename_i hov
    simp [writeEvs] at hm
    subst hm; exact hovr hov
  · simp only [writeEvs, List.mem_append] at hm
    rcases hm with hm | hm
    · split at hm <;> simp at hm
    · have hv := checkAddr_verdict P cap s.acl.cache addr victim hsound
      split at hm
      · rename_i t ht
        split at ht
        · rename_i hvt
          simp at ht hm; subst ht; subst hm
          rw [← hv]; exact hvt
        · simp at ht
      · simp at hm

theorem feedConn_no_up (P : Addr → Bool) (cap : Nat) (s : Sess) (addr victim : Addr) :
    ∀ f, Ev.up f ∉ (feedConn P cap s addr victim).2 := by
  intro f hm
  unfold feedConn at hm
  simp only [writeEvs, List.mem_append] at hm
  rcases hm with hm | hm
  · split at hm <;> simp at hm
  · split at hm <;> simp at hm

theorem feedConn_conn (P : Addr → Bool) (cap : Nat) (s : Sess) (addr victim : Addr) :
    (feedConn P cap s addr victim).1.conn = s.conn ∧ (feedConn P cap s addr victim).1.closed = s.closed := by
  unfold feedConn; simp

theorem feedConn_override (P : Addr → Bool) (cap : Nat) (s : Sess) (addr victim : Addr) :
    (feedConn P cap s addr victim).1.acl.override = s.acl.override ∧
    (feedConn P cap s addr victim).1.acl.original = s.acl.original := by
  unfold feedConn route; split <;> simp

theorem inv_step (P : Addr → Bool) (cap : Nat) (hcap : 1 ≤ cap) (hP : P "" = false) (s : Sess) (op : Op)
    (hc : DialContract P op) (h : Inv P cap s) : Inv P cap (stepOp P cap s op).1 := by
  cases op with
  | reply r => simp only [stepOp]; split <;> exact h
  | dg addr d victim =>
    simp only [stepOp]
    split
    · rename_i hconn; exact inv_feedConn P cap hcap s addr victim hconn h
    · rename_i hconn
      have hconn' : s.conn = false := by simpa using hconn
      split
      · exact h
      · cases d with
        | hookErr => exact ⟨h.sound, h.ovr, h.bounded, h.nodup, fun _ => h.fresh hconn'⟩
        | fail a => exact ⟨h.sound, h.ovr, h.bounded, h.nodup, fun _ => h.fresh hconn'⟩
        | ok a =>
          simp only [DialContract] at hc
          simp only
          apply inv_feedConn P cap hcap _ addr victim rfl
          constructor
          · exact afterDial_sound P hP addr a hc
          · exact afterDial_ovr P addr a hc
          · have := afterDial_len addr a; simp only; omega
          · exact afterDial_nodup addr a
          · intro hcf; simp at hcf

theorem step_writes (P : Addr → Bool) (cap : Nat) (hP : P "" = false) (s : Sess) (op : Op)
    (hc : DialContract P op) (h : Inv P cap s) : ∀ a, Ev.write a ∈ (stepOp P cap s op).2 → P a = true := by
  cases op with
  | reply r =>
    intro a hm; simp only [stepOp] at hm; split at hm <;> simp at hm
  | dg addr d victim =>
    intro a hm
    simp only [stepOp] at hm
    split at hm
    · exact feedConn_writes P cap s addr victim h.sound h.ovr a hm
    · split at hm
      · simp at hm
      · cases d with
        | hookErr => simp at hm
        | fail a' => simp at hm
        | ok a' =>
          simp only [DialContract] at hc
          simp only [List.mem_cons, reduceCtorEq, false_or] at hm
          exact feedConn_writes P cap _ addr victim (afterDial_sound P hP addr a' hc)
            (afterDial_ovr P addr a' hc) a hm

end Hy.UdpAcl

namespace Hy.UdpAcl

/-! ### whole histories -/

def AllContract (P : Addr → Bool) (ops : List Op) : Prop := ∀ op ∈ ops, DialContract P op

theorem inv_run (P : Addr → Bool) (cap : Nat) (hcap : 1 ≤ cap) (hP : P "" = false) (ops : List Op) :
    ∀ s, AllContract P ops → Inv P cap s → Inv P cap (run P cap s ops).1 := by
  induction ops with
  | nil => intro s _ h; exact h
  | cons op rest ih =>
    intro s hc h
    simp only [run]
    exact ih _ (fun o ho => hc o (List.mem_cons_of_mem _ ho))
      (inv_step P cap hcap hP s op (hc op List.mem_cons_self) h)

theorem run_writes (P : Addr → Bool) (cap : Nat) (hcap : 1 ≤ cap) (hP : P "" = false) (ops : List Op) :
    ∀ s, AllContract P ops → Inv P cap s → ∀ a, Ev.write a ∈ (run P cap s ops).2 → P a = true := by
  induction ops with
  | nil => intro s _ _ a hm; simp [run] at hm
  | cons op rest ih =>
    intro s hc h a hm
    simp only [run, List.mem_append] at hm
    rcases hm with hm | hm
    · exact step_writes P cap hP s op (hc op List.mem_cons_self) h a hm
    · exact ih _ (fun o ho => hc o (List.mem_cons_of_mem _ ho))
        (inv_step P cap hcap hP s op (hc op List.mem_cons_self) h) a hm

/-- what a history does once the socket exists: override/original are frozen, every write goes
    to the override (if any), every reply is reported from the original (if any) -/
structure Frozen (s s' : Sess) (evs : List Ev) : Prop where
  conn : s'.conn = true
  ovr  : s'.acl.override = s.acl.override
  org  : s'.acl.original = s.acl.original
  wr   : s.acl.override ≠ "" → ∀ a, Ev.write a ∈ evs → a = s.acl.override
  up   : s.acl.original ≠ "" → ∀ f, Ev.up f ∈ evs → f = s.acl.original
  chk  : s.acl.override ≠ "" → ∀ a, Ev.check a ∉ evs

theorem feedConn_frozen (P : Addr → Bool) (cap : Nat) (s : Sess) (addr victim : Addr) (hconn : s.conn = true) :
    Frozen s (feedConn P cap s addr victim).1 (feedConn P cap s addr victim).2 := by
  have ho := feedConn_override P cap s addr victim
  refine ⟨by rw [(feedConn_conn P cap s addr victim).1, hconn], ho.1, ho.2, ?_, ?_, ?_⟩
  · intro hov a hm
    unfold feedConn route at hm
    rw [if_pos hov] at hm
    simp [writeEvs] at hm; exact hm
  · intro _ f hm; exact absurd hm (feedConn_no_up P cap s addr victim f)
  · intro hov a hm
    unfold feedConn route at hm
    rw [if_pos hov] at hm
    simp [writeEvs] at hm

theorem run_frozen (P : Addr → Bool) (cap : Nat) (ops : List Op) :
    ∀ s, s.conn = true → Frozen s (run P cap s ops).1 (run P cap s ops).2 := by
  induction ops with
  | nil => intro s hc; exact ⟨hc, rfl, rfl, fun _ a h => by simp [run] at h, fun _ f h => by simp [run] at h,
      fun _ a h => by simp [run] at h⟩
  | cons op rest ih =>
    intro s hc
    have h1 : Frozen s (stepOp P cap s op).1 (stepOp P cap s op).2 := by
      cases op with
      | dg addr d victim => simp only [stepOp, hc, if_true]; exact feedConn_frozen P cap s addr victim hc
      | reply r =>
        simp only [stepOp, hc, if_true]
        refine ⟨hc, rfl, rfl, fun _ a h => by simp at h, ?_, fun _ a h => by simp at h⟩
        intro horg f hm
        simp only [List.mem_singleton, Ev.up.injEq] at hm
        subst hm; unfold replyFrom; rw [if_pos horg]
    have h2 := ih _ h1.conn
    simp only [run]
    refine ⟨h2.conn, by rw [h2.ovr, h1.ovr], by rw [h2.org, h1.org], ?_, ?_, ?_⟩
    · intro hov a hm
      rcases List.mem_append.mp hm with hm | hm
      · exact h1.wr hov a hm
      · have := h2.wr (by rw [h1.ovr]; exact hov) a hm; rw [this, h1.ovr]
    · intro horg f hm
      rcases List.mem_append.mp hm with hm | hm
      · exact h1.up horg f hm
      · have := h2.up (by rw [h1.org]; exact horg) f hm; rw [this, h1.org]
    · intro hov a hm
      rcases List.mem_append.mp hm with hm | hm
      · exact h1.chk hov a hm
      · exact h2.chk (by rw [h1.ovr]; exact hov) a hm

/-- From a state without a socket: if the history ends with an override in force, every write of the
    whole history went to it and every reply was reported from the original address. -/
theorem run_override (P : Addr → Bool) (cap : Nat) (ops : List Op) :
    ∀ s, s.conn = false →
      let r := run P cap s ops
      r.1.conn = true → r.1.acl.override ≠ "" →
        (∀ a, Ev.write a ∈ r.2 → a = r.1.acl.override) ∧
        (r.1.acl.original ≠ "" → ∀ f, Ev.up f ∈ r.2 → f = r.1.acl.original) ∧
        (∀ a, Ev.check a ∉ r.2) := by
  induction ops with
  | nil => intro s hc; simp [run, hc]
  | cons op rest ih =>
    intro s hc
    simp only [run]
    cases op with
    | reply r =>
      have : stepOp P cap s (.reply r) = (s, []) := by simp [stepOp, hc]
      rw [this]; simpa using ih s hc
    | dg addr d victim =>
      by_cases hcl : s.closed = true
      · have : stepOp P cap s (.dg addr d victim) = (s, []) := by simp [stepOp, hc, hcl]
        rw [this]; simpa using ih s hc
      · have hcl' : s.closed = false := by simpa using hcl
        cases d with
        | hookErr =>
          have : stepOp P cap s (.dg addr .hookErr victim) = ({ s with closed := true }, []) := by
            simp [stepOp, hc, hcl']
          rw [this]; simpa using ih { s with closed := true } hc
        | fail a =>
          have : stepOp P cap s (.dg addr (.fail a) victim) = ({ s with closed := true }, [Ev.dial a false]) := by
            simp [stepOp, hc, hcl']
          rw [this]
          have := ih { s with closed := true } hc
          intro h1 h2
          obtain ⟨w, u, c⟩ := this h1 h2
          refine ⟨?_, ?_, ?_⟩
          · intro x hx; simp at hx; exact w x hx
          · intro ho f hf; simp at hf; exact u ho f hf
          · intro x hx; simp at hx; exact c x hx
        | ok a =>
          let s1 : Sess := { s with conn := true, acl := afterDial addr a }
          have hst : stepOp P cap s (.dg addr (.ok a) victim) =
              ((feedConn P cap s1 addr victim).1, Ev.dial a true :: (feedConn P cap s1 addr victim).2) := by
            simp [stepOp, hc, hcl', s1]
          rw [hst]
          have f1 := feedConn_frozen P cap s1 addr victim rfl
          have f2 := run_frozen P cap rest _ f1.conn
          intro _ hov
          simp only at hov
          have hov1 : s1.acl.override ≠ "" := by rw [← f1.ovr, ← f2.ovr]; exact hov
          refine ⟨?_, ?_, ?_⟩
          · intro x hx
            simp only [List.cons_append, List.mem_cons, reduceCtorEq, false_or, List.mem_append] at hx
            rw [f2.ovr, f1.ovr]
            rcases hx with hx | hx
            · exact f1.wr hov1 x hx
            · have := f2.wr (by rw [f1.ovr]; exact hov1) x hx; rw [this, f1.ovr]
          · intro horg f hf
            simp only [List.cons_append, List.mem_cons, reduceCtorEq, false_or, List.mem_append] at hf
            have horg1 : s1.acl.original ≠ "" := by rw [← f1.org, ← f2.org]; exact horg
            rw [f2.org, f1.org]
            rcases hf with hf | hf
            · exact f1.up horg1 f hf
            · have := f2.up (by rw [f1.org]; exact horg1) f hf; rw [this, f1.org]
          · intro x hx
            simp only [List.cons_append, List.mem_cons, reduceCtorEq, false_or, List.mem_append] at hx
            rcases hx with hx | hx
            · exact f1.chk hov1 x hx
            · exact f2.chk (by rw [f1.ovr]; exact hov1) x hx

end Hy.UdpAcl
