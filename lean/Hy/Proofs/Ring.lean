/-
  Helper lemmas for C12(a): the RingBuffer model refines a list-deque.
  `Rel r l` = "r is well-formed and holds exactly the queue l".
-/
import Hy.Model.Ring
set_option linter.unusedSimpArgs false
set_option linter.unusedSectionVars false
set_option linter.unusedVariables false
namespace Hy.Ring
open Hy

variable {α : Type} [Inhabited α]

theorem mod2 (x c : Nat) (hc : 0 < c) (hx : x < 2 * c) : x % c = if x < c then x else x - c := by
  split
  · exact Nat.mod_eq_of_lt (by assumption)
  · rw [Nat.mod_eq_sub_mod (by omega)]; exact Nat.mod_eq_of_lt (by omega)

/-- raw slot as a total function -/
def RB.at (r : RB α) (j : Nat) : α := r.ring.getD j default

theorem get_eq (r : RB α) (i : Nat) : r.get i = r.at ((r.head + i) % r.cap) := rfl

theorem getD_set (l : List α) (i j : Nat) (x d : α) :
    (l.set i x).getD j d = if i = j ∧ i < l.length then x else l.getD j d := by
  simp only [List.getD_eq_getElem?_getD, List.getElem?_set]
  by_cases h : i = j
  · subst h
    by_cases hl : i < l.length
    · simp [hl]
    · have : l[i]? = none := by simp; omega
      simp [hl, this]
  · simp [h]

theorem cap_eq (r : RB α) : r.cap = r.ring.length := rfl

theorem head_le (r : RB α) (w : r.WF) : r.head ≤ r.ring.length := by
  by_cases hc : 0 < r.cap
  · have := w.hh hc; rw [cap_eq] at this; omega
  · have := w.h0 (by omega); omega

theorem slot_ok (r : RB α) (j : Nat) (h : j < r.cap) : r.slot j = Res.ok (r.at j) := by
  unfold RB.slot Res.idx RB.at RB.cap at *
  simp [List.getD_eq_getElem?_getD, List.getElem?_eq_getElem h]

theorem len_le_cap (r : RB α) (w : r.WF) : r.len ≤ r.cap := by
  unfold RB.len
  split
  · exact Nat.le_refl _
  · by_cases hc : 0 < r.cap
    · have := w.hh hc; have := w.ht hc; split <;> omega
    · have := w.h0 (by omega); split <;> omega

theorem toList_length (r : RB α) : r.toList.length = r.len := by
  simp [RB.toList]

theorem toList_getElem? (r : RB α) (i : Nat) (h : i < r.len) : r.toList[i]? = some (r.get i) := by
  simp [RB.toList, h]

theorem empty_iff (r : RB α) (w : r.WF) : r.empty = true ↔ r.len = 0 := by
  unfold RB.empty RB.len
  cases hf : r.full
  · simp only [Bool.not_false, Bool.true_and, beq_iff_eq, Bool.false_eq_true, ↓reduceIte]
    by_cases hc : 0 < r.cap
    · have := w.hh hc; have := w.ht hc; split <;> omega
    · have := w.h0 (by omega); split <;> omega
  · have := w.hf hf
    simp; omega

/-- position of queue element `len` is the tail slot (when not full and cap > 0) -/
theorem tail_pos (r : RB α) (w : r.WF) (hnf : r.full = false) (hc : 0 < r.cap) :
    (r.head + r.len) % r.cap = r.tail ∧ r.len < r.cap := by
  have hh := w.hh hc
  have ht := w.ht hc
  have hlen : r.len = if r.tail ≥ r.head then r.tail - r.head else r.tail + r.cap - r.head := by
    simp [RB.len, hnf]
  constructor
  · rw [mod2 _ _ hc (by rw [hlen]; split <;> omega), hlen]; split <;> split <;> omega
  · rw [hlen]; split <;> omega

/-! ### init / clear -/

theorem init_wf (n : Nat) : (init n : RB α).WF := by
  constructor <;> simp [init, RB.cap]

theorem init_toList (n : Nat) : (init n : RB α).toList = [] := by
  simp [init, RB.toList, RB.len]

theorem clear_wf (r : RB α) : r.clear.WF := by
  constructor <;> simp [RB.clear, RB.cap]

theorem clear_toList (r : RB α) : r.clear.toList = [] := by
  simp [RB.clear, RB.toList, RB.len]

/-! ### grow -/

theorem grow_ok (r : RB α) (w : r.WF) :
    ∃ r', r.grow = Res.ok r' ∧
      r'.ring = r.ring.drop r.head ++ r.ring.take r.head ++
                List.replicate ((if r.cap * 2 = 0 then 1 else r.cap * 2) - r.cap) default ∧
      r'.head = 0 ∧ r'.tail = r.cap ∧ r'.full = false := by
  have hle : r.head ≤ r.ring.length := head_le r w
  refine ⟨{ ring := r.ring.drop r.head ++ r.ring.take r.head ++
                List.replicate ((if r.cap * 2 = 0 then 1 else r.cap * 2) - r.cap) default,
            head := 0, tail := r.cap, full := false }, ?_, rfl, rfl, rfl, rfl⟩
  simp only [RB.grow, Res.sliceFrom, Res.sliceTo, hle, ↓reduceIte, Res.bind_eq, Res.bind_ok, Res.pure_eq]
  congr 3
  simp [RB.cap]; omega

theorem grow_at (r : RB α) (r' : RB α) (hle : r.head ≤ r.cap)
    (hr : r'.ring = r.ring.drop r.head ++ r.ring.take r.head ++
                List.replicate ((if r.cap * 2 = 0 then 1 else r.cap * 2) - r.cap) default)
    (i : Nat) (hi : i < r.cap) : r'.at i = r.at ((r.head + i) % r.cap) := by
  have hc : 0 < r.cap := by omega
  unfold RB.at
  rw [hr]
  unfold RB.cap at *
  rw [mod2 _ _ hc (by omega)]
  simp only [List.getD_eq_getElem?_getD]
  have h1 : (r.ring.drop r.head ++ r.ring.take r.head).length = r.ring.length := by
    simp; omega
  rw [List.getElem?_append_left (by omega)]
  by_cases hlt : r.head + i < r.ring.length
  · rw [if_pos hlt, List.getElem?_append_left (by simp; omega), List.getElem?_drop]
  · rw [if_neg hlt, List.getElem?_append_right (by simp; omega)]
    simp only [List.length_drop]
    rw [List.getElem?_take_of_lt (by omega)]
    congr 2; omega

/-- growing changes the representation, not the contents -/
theorem grow_spec (r : RB α) (w : r.WF) (hfull : r.full = true ∨ r.cap = 0) :
    ∃ r', r.grow = Res.ok r' ∧ r'.toList = r.toList ∧ r'.WF ∧ r'.full = false ∧ 0 < r'.cap := by
  obtain ⟨r', hg, hring, hhead, htail, hf⟩ := grow_ok r w
  have hcap' : r'.cap = if r.cap * 2 = 0 then 1 else r.cap * 2 := by
    have := head_le r w
    simp only [cap_eq] at *
    rw [hring]; simp
    by_cases h : r.ring.length * 2 = 0 <;> simp [h] <;> omega
  refine ⟨r', hg, ?_, ?_, hf, ?_⟩
  · rcases hfull with hfl | hc0
    · obtain ⟨hht, hc⟩ := w.hf hfl
      have hlen : r.len = r.cap := by simp [RB.len, hfl]
      have hlen' : r'.len = r.cap := by
        simp only [RB.len, hf, hhead, htail]; simp
      simp only [RB.toList, hlen, hlen']
      apply List.map_congr_left
      intro i hi
      have hi' : i < r.cap := by simpa using hi
      rw [get_eq, get_eq, hhead, Nat.zero_add, Nat.mod_eq_of_lt (by rw [hcap']; split <;> omega)]
      exact grow_at r r' (by have := w.hh hc; omega) hring i hi'
    · obtain ⟨h1, h2, h3⟩ := w.h0 hc0
      have : r'.len = 0 := by simp [RB.len, hf, hhead, htail, hc0]
      have : r.len = 0 := by simp [RB.len, h3, h1, h2]
      simp [RB.toList, *]
  · constructor
    · intro h0; rw [hcap'] at h0; split at h0 <;> omega
    · intro _; rw [hhead]; rw [hcap']; split <;> omega
    · intro _; rw [htail, hcap']; split <;> omega
    · intro h; rw [hf] at h; cases h
  · rw [hcap']; split <;> omega

/-! ### push on a buffer with room -/

def RB.pushRoom (r1 : RB α) (x : α) : RB α :=
  let t1 := r1.tail + 1
  let t2 := if t1 = r1.cap then 0 else t1
  { r1 with ring := r1.ring.set r1.tail x, tail := t2,
            full := if t2 = r1.head then true else r1.full }

theorem pushRoom_spec (r : RB α) (w : r.WF) (x : α) (hnf : r.full = false) (hc : 0 < r.cap) :
    (r.pushRoom x).toList = r.toList ++ [x] ∧ (r.pushRoom x).WF := by
  have hh := w.hh hc
  have ht := w.ht hc
  have hlen : r.len = if r.tail ≥ r.head then r.tail - r.head else r.tail + r.cap - r.head := by
    simp [RB.len, hnf]
  obtain ⟨htailpos, hlt'⟩ := tail_pos r w hnf hc
  have hcap : (r.pushRoom x).cap = r.cap := by simp [RB.pushRoom, RB.cap]
  have hlen' : (r.pushRoom x).len = r.len + 1 := by
    rw [hlen]
    simp only [RB.len, hcap]
    simp only [RB.pushRoom, hnf]
    by_cases hwrap : r.tail + 1 = r.cap
    · simp only [hwrap, ↓reduceIte]
      by_cases hz : (0 : Nat) = r.head
      · simp only [hz, ↓reduceIte]; split <;> omega
      · simp only [hz, Bool.false_eq_true, ↓reduceIte]; split <;> split <;> omega
    · simp only [hwrap, ↓reduceIte]
      by_cases hz : r.tail + 1 = r.head
      · simp only [hz, ↓reduceIte]; split <;> omega
      · simp only [hz, Bool.false_eq_true, ↓reduceIte]; split <;> split <;> omega
  have hat : ∀ j, (r.pushRoom x).at j = if r.tail = j then x else r.at j := by
    intro j
    simp only [RB.at, RB.pushRoom, getD_set]
    unfold RB.cap at ht
    by_cases hj : r.tail = j <;> simp [hj, ht]
    subst hj; intro h; omega
  have hhead : (r.pushRoom x).head = r.head := by simp [RB.pushRoom]
  constructor
  · simp only [RB.toList, hlen', List.range_succ, List.map_append, List.map_cons, List.map_nil]
    congr 1
    · apply List.map_congr_left
      intro i hi
      have hi' : i < r.len := by simpa using hi
      rw [get_eq, get_eq, hat, hcap, hhead]
      have hne : r.tail ≠ (r.head + i) % r.cap := by
        rw [mod2 _ _ hc (by omega)]
        rw [hlen] at hi'
        split <;> split at hi' <;> omega
      rw [if_neg hne]
    · rw [get_eq, hat, hcap, hhead, htailpos]; simp
  · constructor
    · intro h0; rw [hcap] at h0; omega
    · intro _; rw [hcap, hhead]; exact hh
    · intro _; rw [hcap]; simp only [RB.pushRoom]; split <;> omega
    · intro hf
      rw [hcap, hhead]
      simp only [RB.pushRoom, hnf] at hf ⊢
      by_cases h : (if r.tail + 1 = r.cap then 0 else r.tail + 1) = r.head
      · exact ⟨h.symm, hc⟩
      · simp [h] at hf

/-- PushBack refines list append, for every buffer state (full, empty, zero capacity, wrapped),
    and never panics. -/
theorem pushBack_spec (r : RB α) (w : r.WF) (x : α) :
    ∃ r', r.pushBack x = Res.ok r' ∧ r'.toList = r.toList ++ [x] ∧ r'.WF := by
  by_cases hg : r.full = true ∨ r.cap = 0
  · obtain ⟨r1, hgr, hl, hw, hnf, hc⟩ := grow_spec r w hg
    have ht := hw.ht hc
    have hcond : (r.full || r.cap == 0) = true := by
      rcases hg with h | h <;> simp [h]
    refine ⟨r1.pushRoom x, ?_, ?_, ?_⟩
    · simp only [RB.pushBack, hcond, ↓reduceIte, hgr, Res.bind_eq, Res.bind_ok, ht, Res.pure_eq]
      rfl
    · rw [← hl]; exact (pushRoom_spec r1 hw x hnf hc).1
    · exact (pushRoom_spec r1 hw x hnf hc).2
  · have hnf : r.full = false := by
      cases hf : r.full with
      | true => exact absurd (Or.inl hf) hg
      | false => rfl
    have hc : 0 < r.cap := by
      have : r.cap ≠ 0 := fun h => hg (Or.inr h)
      omega
    have ht := w.ht hc
    have hcond : (r.full || r.cap == 0) = false := by simp [hnf]; omega
    refine ⟨r.pushRoom x, ?_, (pushRoom_spec r w x hnf hc).1, (pushRoom_spec r w x hnf hc).2⟩
    simp only [RB.pushBack, hcond, Bool.false_eq_true, ↓reduceIte, Res.pure_eq, Res.bind_eq, Res.bind_ok, ht]
    rfl

/-! ### pop -/

theorem popFront_spec (r : RB α) (w : r.WF) (hne : 0 < r.len) :
    ∃ r', r.popFront = Res.ok (r.get 0, r') ∧ r'.toList = r.toList.tail ∧ r'.WF ∧ r'.len + 1 = r.len := by
  have hle := len_le_cap r w
  have hc : 0 < r.cap := by omega
  have hh := w.hh hc
  have ht := w.ht hc
  have hemp : r.empty = false := by
    cases h : r.empty
    · rfl
    · have := (empty_iff r w).1 h; omega
  let r' : RB α := { r with ring := r.ring.set r.head default,
                            head := if r.head + 1 = r.cap then 0 else r.head + 1, full := false }
  have hcap : r'.cap = r.cap := by simp [r', RB.cap]
  have hlen' : r'.len + 1 = r.len := by
    simp only [RB.len, hcap]
    simp only [r']
    cases hf : r.full
    · have : r.head ≠ r.tail := by
        intro h; simp [RB.empty, hf, h] at hemp
      simp only [Bool.false_eq_true, ↓reduceIte]
      split <;> split <;> split <;> omega
    · obtain ⟨e, _⟩ := w.hf hf
      simp only [Bool.false_eq_true, ↓reduceIte]
      split <;> split <;> omega
  have hat : ∀ j, r'.at j = if r.head = j then default else r.at j := by
    intro j
    simp only [RB.at, r', getD_set]
    unfold RB.cap at hh
    by_cases hj : r.head = j <;> simp [hj, hh]
    subst hj; intro h; omega
  refine ⟨r', ?_, ?_, ?_, hlen'⟩
  · simp only [RB.popFront, hemp, Bool.false_eq_true, ↓reduceIte, slot_ok r r.head hh,
      Res.bind_eq, Res.bind_ok, Res.pure_eq]
    congr 2
    rw [get_eq, Nat.add_zero, Nat.mod_eq_of_lt hh]
  · have hl : r.len = r'.len + 1 := hlen'.symm
    simp only [RB.toList]
    rw [hl, List.range_succ_eq_map]
    simp only [List.map_cons, List.tail_cons, List.map_map]
    apply List.map_congr_left
    intro i hi
    have hi' : i < r'.len := by simpa using hi
    simp only [Function.comp, get_eq, hat, hcap]
    have hidx : ((if r.head + 1 = r.cap then 0 else r.head + 1) + i) % r.cap = (r.head + (i + 1)) % r.cap := by
      split
      · rename_i h
        have : r.head + (i + 1) = r.cap + i := by omega
        rw [this, Nat.add_mod_left, Nat.zero_add]
      · congr 1; omega
    have hhd' : r'.head = if r.head + 1 = r.cap then 0 else r.head + 1 := rfl
    rw [hhd', hidx]
    have hne' : r.head ≠ (r.head + (i + 1)) % r.cap := by
      rw [mod2 _ _ hc (by omega)]
      split <;> omega
    rw [if_neg hne']
  · constructor
    · intro h0; rw [hcap] at h0; omega
    · intro _; rw [hcap]; simp only [r']; split <;> omega
    · intro _; rw [hcap]; exact ht
    · intro hf; simp [r'] at hf

theorem popFront_empty (r : RB α) (w : r.WF) (he : r.len = 0) : r.popFront = Res.panic := by
  have := (empty_iff r w).2 he
  simp [RB.popFront, this]

/-! ### offset / front / back -/

theorem offsetPos_spec (r : RB α) (w : r.WF) (i : Nat) (hi : i < r.len) :
    r.offsetPos (i : Int) = Res.ok ((r.head + i) % r.cap) := by
  have hle := len_le_cap r w
  have hc : 0 < r.cap := by omega
  have hemp : r.empty = false := by
    cases h : r.empty
    · rfl
    · have := (empty_iff r w).1 h; omega
  have hnot : ¬ ((i : Int) ≥ (r.len : Int)) := by omega
  have htm : Int.tmod ((r.head : Int) + (i : Int)) (r.cap : Int) = (((r.head + i) % r.cap : Nat) : Int) := by
    have : (r.head : Int) + (i : Int) = ((r.head + i : Nat) : Int) := by omega
    rw [this, Int.ofNat_tmod]
  have hm : (r.head + i) % r.cap < r.cap := Nat.mod_lt _ hc
  unfold RB.offsetPos
  rw [htm]
  generalize (r.head + i) % r.cap = m at hm
  have h1 : (0 : Int) ≤ (m : Int) ∧ (m : Int).toNat < r.cap := ⟨by omega, by rw [Int.toNat_natCast]; exact hm⟩
  simp only [hemp, Bool.false_or, decide_eq_true_eq, hnot, ↓reduceIte, h1, and_self, Int.toNat_natCast]
  simp [hm]

theorem offset_spec (r : RB α) (w : r.WF) (i : Nat) (hi : i < r.len) :
    r.offset (i : Int) = Res.ok (r.get i) := by
  have hle := len_le_cap r w
  have hc : 0 < r.cap := by omega
  simp only [RB.offset, offsetPos_spec r w i hi, Res.bind_eq, Res.bind_ok]
  rw [slot_ok r _ (Nat.mod_lt _ hc)]; rfl

/-- `Offset` at or past the end, or on an empty buffer: the explicit Go panic -/
theorem offset_oob (r : RB α) (i : Int) (hi : (r.len : Int) ≤ i) : r.offset i = Res.panic := by
  have : (i ≥ (r.len : Int)) := hi
  simp [RB.offset, RB.offsetPos, this]

theorem front_spec (r : RB α) (w : r.WF) (hne : 0 < r.len) : r.front = Res.ok (r.get 0) := by
  have hle := len_le_cap r w
  have hc : 0 < r.cap := by omega
  have hh := w.hh hc
  have hemp : r.empty = false := by
    cases h : r.empty
    · rfl
    · have := (empty_iff r w).1 h; omega
  simp only [RB.front, hemp, Bool.false_eq_true, ↓reduceIte, slot_ok r r.head hh]
  rw [get_eq, Nat.add_zero, Nat.mod_eq_of_lt hh]

theorem front_empty (r : RB α) (w : r.WF) (he : r.len = 0) : r.front = Res.panic := by
  have := (empty_iff r w).2 he
  simp [RB.front, this]

theorem back_spec (r : RB α) (w : r.WF) (hne : 0 < r.len) : r.back = Res.ok (r.get (r.len - 1)) := by
  have hemp : r.empty = false := by
    cases h : r.empty
    · rfl
    · have := (empty_iff r w).1 h; omega
  have : (r.len : Int) - 1 = ((r.len - 1 : Nat) : Int) := by omega
  simp only [RB.back, hemp, Bool.false_eq_true, ↓reduceIte, this]
  exact offset_spec r w _ (by omega)

theorem back_empty (r : RB α) (w : r.WF) (he : r.len = 0) : r.back = Res.panic := by
  have := (empty_iff r w).2 he
  simp [RB.back, this]

/-- a write through `Offset(i)`'s pointer replaces exactly element `i` of the queue -/
theorem modifyOffset_spec (r : RB α) (w : r.WF) (i : Nat) (hi : i < r.len) (f : α → α) :
    ∃ r', r.modifyOffset (i : Int) f = Res.ok r' ∧ r'.toList = r.toList.set i (f (r.get i)) ∧ r'.WF ∧
      r'.len = r.len := by
  have hle := len_le_cap r w
  have hc : 0 < r.cap := by omega
  have hm : (r.head + i) % r.cap < r.cap := Nat.mod_lt _ hc
  let r' : RB α := { r with ring := r.ring.set ((r.head + i) % r.cap) (f (r.get i)) }
  have hcap : r'.cap = r.cap := by simp [r', RB.cap]
  have hlen : r'.len = r.len := by simp only [RB.len, hcap]; rfl
  refine ⟨r', ?_, ?_, ?_, hlen⟩
  · simp only [RB.modifyOffset, offsetPos_spec r w i hi, Res.bind_eq, Res.bind_ok, slot_ok r _ hm, Res.pure_eq]
    rfl
  · apply List.ext_getElem?
    intro k
    by_cases hk : k < r.len
    · rw [toList_getElem? r' k (by omega), List.getElem?_set]
      have hat : r'.get k = if (r.head + i) % r.cap = (r.head + k) % r.cap then f (r.get i) else r.get k := by
        simp only [get_eq, hcap]
        have : r'.head = r.head := rfl
        rw [this]
        simp only [RB.at, r', getD_set]
        have hm' : (r.head + i) % r.cap < r.ring.length := hm
        by_cases hj : (r.head + i) % r.cap = (r.head + k) % r.cap
        · rw [if_pos ⟨hj, hm'⟩, if_pos hj]; rfl
        · rw [if_neg (fun h => hj h.1), if_neg hj]
      rw [hat]
      have hh := w.hh hc
      have hiff : ((r.head + i) % r.cap = (r.head + k) % r.cap) ↔ i = k := by
        rw [mod2 _ _ hc (by omega), mod2 _ _ hc (by omega)]
        constructor
        · intro h; split at h <;> split at h <;> omega
        · intro h; subst h; rfl
      by_cases hik : i = k
      · subst hik; simp [toList_length, hi]
      · have : ¬ ((r.head + i) % r.cap = (r.head + k) % r.cap) := fun h => hik (hiff.1 h)
        rw [if_neg this, if_neg hik, toList_getElem? r k hk]
    · have h1 : r'.toList[k]? = none := by simp [toList_length]; omega
      have h2 : (r.toList.set i (f (r.get i)))[k]? = none := by simp [toList_length]; omega
      rw [h1, h2]
  · constructor
    · intro h0; rw [hcap] at h0; exact w.h0 h0
    · intro h; rw [hcap] at h ⊢; exact w.hh h
    · intro h; rw [hcap] at h ⊢; exact w.ht h
    · intro h; rw [hcap]; exact w.hf h

/-! ### the same facts in relational form: `Rel r l` = r is well-formed and holds the queue `l` -/

def Rel (r : RB α) (l : List α) : Prop := r.WF ∧ r.toList = l

theorem rel_len {r : RB α} {l : List α} (h : Rel r l) : r.len = l.length := by
  rw [← h.2, toList_length]

theorem rel_empty {r : RB α} {l : List α} (h : Rel r l) : r.empty = l.isEmpty := by
  have hl := rel_len h
  cases l with
  | nil =>
    have : r.empty = true := (empty_iff r h.1).2 (by simpa using hl)
    simp [this]
  | cons x xs =>
    cases he : r.empty
    · rfl
    · have := (empty_iff r h.1).1 he; simp at hl; omega

theorem rel_get0 {r : RB α} {x : α} {xs : List α} (h : Rel r (x :: xs)) : r.get 0 = x := by
  have hl := rel_len h
  have := toList_getElem? r 0 (by simp at hl; omega)
  rw [h.2] at this
  simpa using this.symm

theorem rel_getElem {r : RB α} {l : List α} (h : Rel r l) (i : Nat) (hi : i < l.length) : r.get i = l[i] := by
  have hl := rel_len h
  have := toList_getElem? r i (by omega)
  simp only [h.2] at this
  rw [List.getElem?_eq_getElem hi] at this
  exact (Option.some.inj this).symm

theorem rel_init (n : Nat) : Rel (init n : RB α) [] := ⟨init_wf n, init_toList n⟩

theorem rel_clear (r : RB α) : Rel r.clear [] := ⟨clear_wf r, clear_toList r⟩

theorem rel_push {r : RB α} {l : List α} (h : Rel r l) (x : α) :
    ∃ r', r.pushBack x = Res.ok r' ∧ Rel r' (l ++ [x]) := by
  obtain ⟨r', h1, h2, h3⟩ := pushBack_spec r h.1 x
  exact ⟨r', h1, h3, by rw [h2, h.2]⟩

theorem rel_pop {r : RB α} {x : α} {xs : List α} (h : Rel r (x :: xs)) :
    ∃ r', r.popFront = Res.ok (x, r') ∧ Rel r' xs := by
  have hl := rel_len h
  obtain ⟨r', h1, h2, h3, _⟩ := popFront_spec r h.1 (by simp at hl; omega)
  refine ⟨r', ?_, h3, ?_⟩
  · rw [h1, rel_get0 h]
  · rw [h2, h.2]; rfl

theorem rel_pop_nil {r : RB α} (h : Rel r []) : r.popFront = Res.panic :=
  popFront_empty r h.1 (by simpa using rel_len h)

theorem rel_front {r : RB α} {x : α} {xs : List α} (h : Rel r (x :: xs)) : r.front = Res.ok x := by
  have hl := rel_len h
  rw [front_spec r h.1 (by simp at hl; omega), rel_get0 h]

theorem rel_front_nil {r : RB α} (h : Rel r []) : r.front = Res.panic :=
  front_empty r h.1 (by simpa using rel_len h)

theorem rel_offset {r : RB α} {l : List α} (h : Rel r l) (i : Nat) (hi : i < l.length) :
    r.offset (i : Int) = Res.ok l[i] := by
  rw [offset_spec r h.1 i (by rw [rel_len h]; exact hi), rel_getElem h i hi]

theorem rel_offset_oob {r : RB α} {l : List α} (h : Rel r l) (i : Int) (hi : (l.length : Int) ≤ i) :
    r.offset i = Res.panic :=
  offset_oob r i (by rw [rel_len h]; exact hi)

theorem rel_back {r : RB α} {l : List α} (h : Rel r l) (hne : l ≠ []) :
    r.back = Res.ok (l.getLast hne) := by
  have hl := rel_len h
  have hpos : 0 < l.length := List.length_pos_iff.2 hne
  have e : r.len - 1 = l.length - 1 := by omega
  rw [back_spec r h.1 (by omega), rel_getElem h (r.len - 1) (by omega), List.getLast_eq_getElem]
  simp only [e]

theorem rel_back_nil {r : RB α} (h : Rel r []) : r.back = Res.panic :=
  back_empty r h.1 (by simpa using rel_len h)

theorem rel_modify {r : RB α} {l : List α} (h : Rel r l) (i : Nat) (hi : i < l.length) (f : α → α) :
    ∃ r', r.modifyOffset (i : Int) f = Res.ok r' ∧ Rel r' (l.set i (f l[i])) := by
  obtain ⟨r', h1, h2, h3, _⟩ := modifyOffset_spec r h.1 i (by rw [rel_len h]; exact hi) f
  exact ⟨r', h1, h3, by rw [h2, h.2, rel_getElem h i hi]⟩

theorem rel_grow {r : RB α} {l : List α} (h : Rel r l) (hfull : r.full = true ∨ r.cap = 0) :
    ∃ r', r.grow = Res.ok r' ∧ Rel r' l := by
  obtain ⟨r', h1, h2, h3, _, _⟩ := grow_spec r h.1 hfull
  exact ⟨r', h1, h3, by rw [h2, h.2]⟩

/-! ### one step / a run of the ring refines the list-deque -/

/-- outcomes agree: both panic, or both succeed with the same output and related states -/
def Refines (a : Res (RB α × Out α)) (b : Res (List α × Out α)) : Prop :=
  match a, b with
  | .ok (r', o), .ok (l', o') => Rel r' l' ∧ o = o'
  | .panic, .panic => True
  | _, _ => False

theorem step_refines {r : RB α} {l : List α} (h : Rel r l) (op : ROp α) (hd : op.inDomain r) :
    Refines (implStep r op) (specStep l op) := by
  cases op with
  | push x =>
    obtain ⟨r', h1, h2⟩ := rel_push h x
    simp [implStep, specStep, h1, Refines, h2]
  | pop =>
    cases l with
    | nil => simp [implStep, specStep, rel_pop_nil h, Refines]
    | cons x xs =>
      obtain ⟨r', h1, h2⟩ := rel_pop h
      simp [implStep, specStep, h1, Refines, h2]
  | offset i =>
    have hi : 0 ≤ i := hd
    obtain ⟨n, rfl⟩ : ∃ n : Nat, i = (n : Int) := ⟨i.toNat, by omega⟩
    by_cases hn : n < l.length
    · simp [implStep, specStep, rel_offset h n hn, Refines, h, List.getElem?_eq_getElem hn]
    · have : l[n]? = none := by simp; omega
      simp [implStep, specStep, rel_offset_oob h (n : Int) (by omega), Refines, this]
  | front =>
    cases l with
    | nil => simp [implStep, specStep, rel_front_nil h, Refines]
    | cons x xs => simp [implStep, specStep, rel_front h, Refines, h]
  | back =>
    cases hl : l with
    | nil => subst hl; simp [implStep, specStep, rel_back_nil h, Refines]
    | cons x xs =>
      have hne : l ≠ [] := by rw [hl]; simp
      have h1 := rel_back h hne
      have h2 : l.getLast? = some (l.getLast hne) := List.getLast?_eq_some_getLast hne
      subst hl
      simp [implStep, specStep, h1, h2, Refines, h]
  | clear => simp [implStep, specStep, Refines, rel_clear r]
  | len => simp [implStep, specStep, Refines, h, rel_len h]
  | empty => simp [implStep, specStep, Refines, h, rel_empty h]
  | grow =>
    obtain ⟨r', h1, h2⟩ := rel_grow h hd
    simp [implStep, specStep, h1, Refines, h2]

/-- ops of the exported API with a specified index (`grow` is unexported) -/
def ROp.isPublic : ROp α → Bool
  | .grow => false
  | .offset i => decide (0 ≤ i)
  | _ => true

theorem public_inDomain (r : RB α) (op : ROp α) (h : op.isPublic = true) : op.inDomain r := by
  cases op <;> simp_all [ROp.isPublic, ROp.inDomain]

/-- run a sequence, collecting outputs; stops at the first panic -/
def implRun : RB α → List (ROp α) → Res (RB α × List (Out α))
  | r, [] => Res.ok (r, [])
  | r, op :: ops => do
    let (r', o) ← implStep r op
    let (r'', os) ← implRun r' ops
    pure (r'', o :: os)

def specRun : List α → List (ROp α) → Res (List α × List (Out α))
  | l, [] => Res.ok (l, [])
  | l, op :: ops => do
    let (l', o) ← specStep l op
    let (l'', os) ← specRun l' ops
    pure (l'', o :: os)

def RefinesRun (a : Res (RB α × List (Out α))) (b : Res (List α × List (Out α))) : Prop :=
  match a, b with
  | .ok (r', o), .ok (l', o') => Rel r' l' ∧ o = o'
  | .panic, .panic => True
  | _, _ => False

theorem run_refines (ops : List (ROp α)) : ∀ (r : RB α) (l : List α), Rel r l →
    (∀ op ∈ ops, op.isPublic = true) → RefinesRun (implRun r ops) (specRun l ops) := by
  induction ops with
  | nil => intro r l h _; simp [implRun, specRun, RefinesRun, h]
  | cons op ops ih =>
    intro r l h hp
    have hs := step_refines h op (public_inDomain r op (hp op (by simp)))
    simp only [implRun, specRun]
    cases hi : implStep r op with
    | panic =>
      cases hsp : specStep l op with
      | panic => simp [RefinesRun]
      | ok b => rw [hi, hsp] at hs; simp [Refines] at hs
      | reject => rw [hi, hsp] at hs; simp [Refines] at hs
    | reject => rw [hi] at hs; cases hsp : specStep l op <;> rw [hsp] at hs <;> simp [Refines] at hs
    | ok a =>
      obtain ⟨r', o⟩ := a
      cases hsp : specStep l op with
      | panic => rw [hi, hsp] at hs; simp [Refines] at hs
      | reject => rw [hi, hsp] at hs; simp [Refines] at hs
      | ok b =>
        obtain ⟨l', o'⟩ := b
        rw [hi, hsp] at hs
        obtain ⟨hr', ho⟩ : Rel r' l' ∧ o = o' := hs
        subst ho
        have := ih r' l' hr' (fun op' hm => hp op' (by simp [hm]))
        simp only [Res.bind_eq, Res.bind_ok]
        cases h1 : implRun r' ops with
        | panic =>
          cases h2 : specRun l' ops with
          | panic => simp [RefinesRun]
          | ok b => rw [h1, h2] at this; simp [RefinesRun] at this
          | reject => rw [h1, h2] at this; simp [RefinesRun] at this
        | reject => rw [h1] at this; cases h2 : specRun l' ops <;> rw [h2] at this <;> simp [RefinesRun] at this
        | ok a2 =>
          obtain ⟨r2, os⟩ := a2
          cases h2 : specRun l' ops with
          | panic => rw [h1, h2] at this; simp [RefinesRun] at this
          | reject => rw [h1, h2] at this; simp [RefinesRun] at this
          | ok b2 =>
            obtain ⟨l2, os'⟩ := b2
            rw [h1, h2] at this
            obtain ⟨hr2, hos⟩ : Rel r2 l2 ∧ os = os' := this
            subst hos
            simp [RefinesRun, hr2]

end Hy.Ring
