/-
  Helper lemmas for C13 (Salamander).  Everything here holds for an ARBITRARY hash
  function `H`; the only fact about BLAKE2b used anywhere is `blake2b256_length`.
-/
import Hy.Model.Salamander
import Hy.Crypto.Blake2b
set_option linter.unusedSimpArgs false
namespace Hy.Salamander
open Hy

theorem cSalt : Gen.smSaltLen = 8 := by decide
theorem cKey : Gen.smKeyLen = 32 := by decide
theorem cPsk : Gen.smPSKMinLen = 4 := by decide
theorem cBuf : Gen.udpBufferSize = 2048 := by decide

/-! ### the XOR loop -/

theorem xorAt_length (key : Bytes) (p : Bytes) : ∀ i, (xorAt key i p).length = p.length := by
  induction p with
  | nil => intro i; rfl
  | cons c cs ih => intro i; simp [xorAt, ih]

theorem xorAt_cancel (key : Bytes) (p : Bytes) : ∀ i, xorAt key i (xorAt key i p) = p := by
  induction p with
  | nil => intro i; rfl
  | cons c cs ih => intro i; simp [xorAt, bxor_bxor, ih]

/-- position `j` of the loop's output is byte `j` of the input XOR key byte `(i+j) mod 32` -/
theorem xorAt_getElem? (key : Bytes) (p : Bytes) : ∀ i j,
    (xorAt key i p)[j]? = p[j]?.map (fun c => bxor c (key.getD ((i + j) % Gen.smKeyLen) 0)) := by
  induction p with
  | nil => intro i j; simp [xorAt]
  | cons c cs ih =>
    intro i j
    cases j with
    | zero => simp [xorAt]
    | succ j =>
      simp only [xorAt, List.getElem?_cons_succ, ih]
      have : i + 1 + j = i + (j + 1) := by omega
      rw [this]

/-! ### Obfuscate / Deobfuscate -/

theorem obfuscate_fits (H : Bytes → Bytes) (psk salt p : Bytes) (outCap : Nat)
    (h : p.length + 8 ≤ outCap) :
    obfuscate H psk salt p outCap = salt ++ xorAt (H (psk ++ salt)) 0 p := by
  unfold obfuscate keyOf
  rw [if_neg]
  rw [cSalt]; omega

theorem obfuscate_too_big (H : Bytes → Bytes) (psk salt p : Bytes) (outCap : Nat)
    (h : outCap < p.length + 8) : obfuscate H psk salt p outCap = [] := by
  unfold obfuscate
  rw [if_pos]
  rw [cSalt]; exact h

theorem deobfuscate_short (H : Bytes → Bytes) (psk w : Bytes) (cap : Nat) (h : w.length ≤ 8) :
    deobfuscate H psk w cap = none := by
  unfold deobfuscate
  rw [if_pos]
  left; rw [cSalt]; exact h

theorem deobfuscate_long (H : Bytes → Bytes) (psk w : Bytes) (cap : Nat)
    (h : 8 < w.length) (hc : w.length - 8 ≤ cap) :
    deobfuscate H psk w cap = some (xorAt (H (psk ++ w.take 8)) 0 (w.drop 8)) := by
  unfold deobfuscate keyOf
  rw [if_neg]
  · simp only [cSalt]
  · rw [cSalt]; omega

theorem deobfuscate_some_length (H : Bytes → Bytes) (psk w p : Bytes) (cap : Nat)
    (h : deobfuscate H psk w cap = some p) : 8 < w.length ∧ p.length + 8 = w.length ∧ p.length ≤ cap := by
  unfold deobfuscate at h
  split at h
  · cases h
  · rename_i hn
    rw [cSalt] at hn
    injection h with h
    subst h
    simp only [xorAt_length, List.length_drop, cSalt]
    omega

theorem deobfuscate_wire (H : Bytes → Bytes) (psk salt p : Bytes) (cap : Nat)
    (hs : salt.length = 8) (hp : 1 ≤ p.length) (hc : p.length ≤ cap) :
    deobfuscate H psk (salt ++ xorAt (H (psk ++ salt)) 0 p) cap = some p := by
  have hl : (salt ++ xorAt (H (psk ++ salt)) 0 p).length = p.length + 8 := by
    simp [xorAt_length, hs]; omega
  rw [deobfuscate_long H psk _ cap (by omega) (by omega)]
  have ht : (salt ++ xorAt (H (psk ++ salt)) 0 p).take 8 = salt := by
    rw [← hs]; simp
  have hd : (salt ++ xorAt (H (psk ++ salt)) 0 p).drop 8 = xorAt (H (psk ++ salt)) 0 p := by
    rw [← hs]; simp
  rw [ht, hd, xorAt_cancel]

/-! ### the wrapper -/

theorem writeTo_wire (H : Bytes → Bytes) (psk salt p : Bytes) (e : Bool) (hp : p.length ≤ 2040) :
    (writeTo H psk salt p e).wire = salt ++ xorAt (H (psk ++ salt)) 0 p := by
  unfold writeTo
  simp only
  rw [obfuscate_fits]
  rw [cBuf]; omega

theorem take_buf_of_le (w : Bytes) (h : w.length ≤ 2048) : w.take Gen.udpBufferSize = w := by
  rw [cBuf]; exact List.take_of_length_le h

/-- one loop iteration on a datagram of 1..8 bytes that came without an error: try again -/
theorem readStep_junk (H : Bytes → Bytes) (psk : Bytes) (cap : Nat) (w : Bytes) (a : Nat)
    (h1 : 1 ≤ w.length) (h8 : w.length ≤ 8) :
    readStep H psk cap { data := w, addr := a, err := false } = none := by
  unfold readStep
  simp only
  rw [take_buf_of_le w (by omega)]
  rw [if_neg (by omega)]
  rw [deobfuscate_short H psk w cap h8]
  simp

/-- one loop iteration on what a peer's WriteTo put on the wire -/
theorem readStep_sent (H : Bytes → Bytes) (psk salt p : Bytes) (a cap : Nat)
    (hs : salt.length = 8) (hp : 1 ≤ p.length) (hp' : p.length ≤ 2040) (hc : p.length ≤ cap) :
    readStep H psk cap { data := (writeTo H psk salt p false).wire, addr := a, err := false }
      = some { payload := p, n := p.length, addr := a, err := false } := by
  rw [writeTo_wire H psk salt p false hp']
  have hl : (salt ++ xorAt (H (psk ++ salt)) 0 p).length = p.length + 8 := by
    simp [xorAt_length, hs]; omega
  unfold readStep
  simp only
  rw [take_buf_of_le _ (by omega)]
  rw [if_neg (by omega)]
  rw [deobfuscate_wire H psk salt p cap hs hp hc]

theorem readStep_rejected (H : Bytes → Bytes) (psk : Bytes) (cap : Nat) (i : Inc)
    (hne : i.data ≠ []) (herr : i.err = false)
    (hrej : deobfuscate H psk (i.data.take 2048) cap = none) :
    readStep H psk cap i = none := by
  unfold readStep
  simp only [cBuf]
  have : (i.data.take 2048).length ≠ 0 := by
    cases hd : i.data with
    | nil => exact absurd hd hne
    | cons x xs => simp
  rw [if_neg this, hrej, herr]
  simp

/-- whatever one iteration returns: n is the length of what was put into the caller's
    buffer; a positive n comes from a datagram longer than the salt and excludes the salt -/
theorem readStep_some (H : Bytes → Bytes) (psk : Bytes) (cap : Nat) (i : Inc) (d : Delivery)
    (h : readStep H psk cap i = some d) :
    d.n = d.payload.length ∧ d.addr = i.addr ∧ d.n ≤ cap ∧
    (0 < d.n → 8 < i.data.length ∧ d.n + 8 = min i.data.length 2048) := by
  unfold readStep at h
  simp only [cBuf] at h
  split at h
  · injection h with h; subst h; simp
  · split at h
    · rename_i p hp
      injection h with h; subst h
      have := deobfuscate_some_length H psk _ p cap hp
      simp only [List.length_take] at this
      refine ⟨rfl, rfl, this.2.2, fun _ => ?_⟩
      show 8 < i.data.length ∧ p.length + 8 = min i.data.length 2048
      omega
    · split at h
      · injection h with h; subst h; simp
      · cases h

theorem deliveries_eq_filterMap (H : Bytes → Bytes) (psk : Bytes) (cap : Nat) (q : List Inc) :
    deliveries H psk cap q = q.filterMap (readStep H psk cap) := by
  induction q with
  | nil => rfl
  | cons i rest ih =>
    unfold deliveries
    cases h : readStep H psk cap i with
    | none => simp [List.filterMap_cons, h, ih]
    | some d => simp [List.filterMap_cons, h, ih]

/-- `deliveries` is the sequence of results of successive ReadFrom calls -/
theorem deliveries_unfold (H : Bytes → Bytes) (psk : Bytes) (cap : Nat) (q : List Inc) :
    deliveries H psk cap q =
      match readFrom H psk cap q with
      | none => []
      | some (d, rest) => d :: deliveries H psk cap rest := by
  induction q with
  | nil => rfl
  | cons i rest ih =>
    rw [deliveries, readFrom]
    cases h : readStep H psk cap i with
    | none => simpa using ih
    | some d => rfl

/-! ### packets and junk, for "every interleaving" statements -/

/-- what can arrive at a wrapped socket in the property's world: junk too short to hold a
    salt and one payload byte, or what a peer with the same key wrote -/
inductive Ev where
  | junk (w : Bytes) (addr : Nat)
  | pkt (salt p : Bytes) (addr : Nat)

/-- the sizes the property quantifies over; `cap` is the reader's buffer -/
def Ev.ok (cap : Nat) : Ev → Prop
  | .junk w _ => 1 ≤ w.length ∧ w.length ≤ 8
  | .pkt salt p _ => salt.length = 8 ∧ 1 ≤ p.length ∧ p.length ≤ 2040 ∧ p.length ≤ cap

/-- the datagram on the reader's inner socket -/
def Ev.inc (H : Bytes → Bytes) (psk : Bytes) : Ev → Inc
  | .junk w a => { data := w, addr := a, err := false }
  | .pkt salt p a => { data := (writeTo H psk salt p false).wire, addr := a, err := false }

/-- what the reader must see -/
def Ev.expect : Ev → Option Delivery
  | .junk _ _ => none
  | .pkt _ p a => some { payload := p, n := p.length, addr := a, err := false }

theorem readStep_ev (H : Bytes → Bytes) (psk : Bytes) (cap : Nat) (e : Ev) (h : e.ok cap) :
    readStep H psk cap (e.inc H psk) = e.expect := by
  cases e with
  | junk w a => exact readStep_junk H psk cap w a h.1 h.2
  | pkt salt p a => exact readStep_sent H psk salt p a cap h.1 h.2.1 h.2.2.1 h.2.2.2

theorem deliveries_evs (H : Bytes → Bytes) (psk : Bytes) (cap : Nat) (evs : List Ev)
    (h : ∀ e ∈ evs, e.ok cap) :
    deliveries H psk cap (evs.map (Ev.inc H psk)) = evs.filterMap Ev.expect := by
  rw [deliveries_eq_filterMap]
  induction evs with
  | nil => rfl
  | cons e es ih =>
    have he := readStep_ev H psk cap e (h e (by simp))
    have ih' := ih (fun e' he' => h e' (by simp [he']))
    simp only [List.map_cons, List.filterMap_cons, he, ih']

/-! ### concurrent use of one looped-back socket -/

/-- labels the property's world produces: writers send 1..2040 bytes, the network injects
    short junk, readers bring buffers that hold any packet -/
def Label.ok : Label → Prop
  | .send _ salt p _ => salt.length = 8 ∧ 1 ≤ p.length ∧ p.length ≤ 2040
  | .inject i => 1 ≤ i.data.length ∧ i.data.length ≤ 8 ∧ i.err = false
  | .recv _ cap => 2040 ≤ cap

/-- what the writers handed to WriteTo, in the order of their lock regions -/
def sentOf : List Label → List Delivery
  | [] => []
  | .send _ _ p a :: rest => { payload := p, n := p.length, addr := a, err := false } :: sentOf rest
  | _ :: rest => sentOf rest

/-- the byte counts WriteTo must report, per writer, in the same order -/
def countsOf : List Label → List (Nat × Nat)
  | [] => []
  | .send w _ p _ :: rest => (w, p.length) :: countsOf rest
  | _ :: rest => countsOf rest

/-- every queued datagram is read the same way by every reader buffer ≥ 2040 -/
def QueueOk (H : Bytes → Bytes) (psk : Bytes) (q : List Inc) : Prop :=
  ∀ i ∈ q, ∀ cap, 2040 ≤ cap → readStep H psk cap i = readStep H psk 2040 i

def pending (H : Bytes → Bytes) (psk : Bytes) (s : Sys) : List Delivery :=
  s.queue.filterMap (readStep H psk 2040)

theorem step_inv (H : Bytes → Bytes) (psk : Bytes) (s : Sys) (l : Label) (hl : l.ok)
    (hq : QueueOk H psk s.queue) :
    QueueOk H psk (step H psk s l).queue ∧
    (step H psk s l).got.map Prod.snd ++ pending H psk (step H psk s l)
      = s.got.map Prod.snd ++ pending H psk s ++ sentOf [l] ∧
    (step H psk s l).sentN = s.sentN ++ countsOf [l] := by
  cases l with
  | send w salt p a =>
    obtain ⟨hs, hp, hp'⟩ := hl
    have hr : ∀ cap, 2040 ≤ cap →
        readStep H psk cap { data := (writeTo H psk salt p false).wire, addr := a, err := false }
          = some { payload := p, n := p.length, addr := a, err := false } :=
      fun cap hc => readStep_sent H psk salt p a cap hs hp hp' (by omega)
    refine ⟨?_, ?_, ?_⟩
    · intro i hi cap hc
      simp only [step, List.mem_append, List.mem_singleton] at hi
      rcases hi with hi | hi
      · exact hq i hi cap hc
      · subst hi; rw [hr cap hc, hr 2040 (by omega)]
    · simp only [step, pending, List.filterMap_append, List.filterMap_cons, List.filterMap_nil,
        hr 2040 (by omega), sentOf, List.append_assoc]
    · simp [step, countsOf, writeTo]
  | inject i =>
    obtain ⟨h1, h8, he⟩ := hl
    have hr : ∀ cap, readStep H psk cap i = none := by
      intro cap
      have := readStep_junk H psk cap i.data i.addr h1 h8
      cases i with
      | mk d a e => simp only at he; subst he; exact this
    refine ⟨?_, ?_, ?_⟩
    · intro j hj cap hc
      simp only [step, List.mem_append, List.mem_singleton] at hj
      rcases hj with hj | hj
      · exact hq j hj cap hc
      · subst hj; rw [hr cap, hr 2040]
    · simp only [step, pending, List.filterMap_append, List.filterMap_cons, List.filterMap_nil,
        hr 2040, sentOf, List.append_nil]
    · simp [step, countsOf]
  | recv rd cap =>
    have hc : 2040 ≤ cap := hl
    cases hqe : s.queue with
    | nil =>
      have hst : step H psk s (.recv rd cap) = s := by simp [step, hqe]
      rw [hst]
      exact ⟨hq, by simp [sentOf], by simp [countsOf]⟩
    | cons i rest =>
      have hi := hq i (by rw [hqe]; simp) cap hc
      have hrest : QueueOk H psk rest := fun j hj => hq j (by rw [hqe]; simp [hj])
      cases hrs : readStep H psk cap i with
      | none =>
        have hst : step H psk s (.recv rd cap) = { s with queue := rest } := by
          simp [step, hqe, hrs]
        rw [hst]
        rw [hrs] at hi
        refine ⟨hrest, ?_, by simp [countsOf]⟩
        simp only [pending, hqe, List.filterMap_cons, ← hi, sentOf, List.append_nil]
      | some d =>
        have hst : step H psk s (.recv rd cap) = { s with queue := rest, got := s.got ++ [(rd, d)] } := by
          simp [step, hqe, hrs]
        rw [hst]
        rw [hrs] at hi
        refine ⟨hrest, ?_, by simp [countsOf]⟩
        simp only [pending, hqe, List.filterMap_cons, ← hi, sentOf, List.append_nil,
          List.map_append, List.map_cons, List.map_nil, List.append_assoc, List.cons_append,
          List.nil_append]

theorem sentOf_cons (l : Label) (ls : List Label) : sentOf (l :: ls) = sentOf [l] ++ sentOf ls := by
  cases l <;> simp [sentOf]

theorem countsOf_cons (l : Label) (ls : List Label) : countsOf (l :: ls) = countsOf [l] ++ countsOf ls := by
  cases l <;> simp [countsOf]

theorem foldl_inv (H : Bytes → Bytes) (psk : Bytes) (sched : List Label) :
    ∀ (s : Sys), (∀ l ∈ sched, l.ok) → QueueOk H psk s.queue →
    (sched.foldl (step H psk) s).got.map Prod.snd ++ pending H psk (sched.foldl (step H psk) s)
      = s.got.map Prod.snd ++ pending H psk s ++ sentOf sched ∧
    (sched.foldl (step H psk) s).sentN = s.sentN ++ countsOf sched := by
  induction sched with
  | nil => intro s _ _; simp [sentOf, countsOf]
  | cons l ls ih =>
    intro s hok hq
    obtain ⟨hq', hgot, hn⟩ := step_inv H psk s l (hok l (by simp)) hq
    obtain ⟨ih1, ih2⟩ := ih (step H psk s l) (fun l' hl' => hok l' (by simp [hl'])) hq'
    rw [List.foldl_cons]
    refine ⟨?_, ?_⟩
    · rw [ih1, hgot, sentOf_cons l ls]; simp only [List.append_assoc]
    · rw [ih2, hn, countsOf_cons l ls]; simp only [List.append_assoc]

end Hy.Salamander
