/-
  C07 proofs, layer 3: every label preserves the invariant.
-/
import Hy.Proofs.UdpSessionInv
namespace Hy.UdpSession
open Hy.UdpAcl (Addr DialRes)

/-- the skeleton step allocates no entry and adds no table row -/
def NoIns (k k' : Sk) : Prop :=
  (∀ i, k.ce i = none → k'.ce i = none) ∧ (∀ sid, k.tbl sid = none → k'.tbl sid = none)

theorem noIns_refl (k : Sk) : NoIns k k := ⟨fun _ h => h, fun _ h => h⟩

theorem noIns_closeA (k : Sk) (i : Nat) : NoIns k (skCloseA k i) :=
  ⟨fun j h => closeA_none k i j h, fun sid h => by rw [(closeA_tbl k i).1]; exact h⟩

theorem noIns_off (k : Sk) (i : Nat) : NoIns k (skOff k i) := by
  unfold skOff
  split
  · exact noIns_refl k
  · rename_i e he
    refine ⟨?_, fun _ h => h⟩
    intro j hj
    have : j ≠ i := by intro heq; subst heq; rw [he] at hj; simp at hj
    simp only; rw [upd_ne _ _ this]; exact hj

theorem noIns_exitB (k : Sk) (i : Nat) : NoIns k (skExitB k i) := by
  unfold skExitB
  split
  · exact noIns_refl k
  · rename_i e he
    split
    · refine ⟨?_, ?_⟩
      · intro j hj
        have : j ≠ i := by intro heq; subst heq; rw [he] at hj; simp at hj
        simp only; rw [upd_ne _ _ this]; exact hj
      · intro sid hs
        simp only [upd]; split
        · rfl
        · exact hs
    · exact noIns_refl k

theorem noIns_dial (k : Sk) (i : Nat) (e : CoreE) (he : k.ce i = some e) : NoIns k (skDial k i e) := by
  refine ⟨?_, fun _ h => h⟩
  intro j hj
  have : j ≠ i := by intro heq; subst heq; rw [he] at hj; simp at hj
  simp only [skDial]; rw [upd_ne _ _ this]; exact hj

theorem noIns_trans {a b c : Sk} (h1 : NoIns a b) (h2 : NoIns b c) : NoIns a c :=
  ⟨fun i h => h2.1 i (h1.1 i h), fun s h => h2.2 s (h1.2 s h)⟩

/-- the successor satisfies the invariant, and its skeleton is one primitive transition away -/
def Good (s s' : St) : Prop := Inv s' ∧ SkStep (sk s) (sk s')

theorem good_refl {s : St} (h : Inv s) : Good s s := ⟨h, SkStep.same⟩

/-- assemble the invariant of the successor from its parts -/
theorem inv_build (s s' : St) (h : Inv s) (hk : SkStep (sk s) (sk s'))
    (hrl : RlOk (sk s') s'.rl s'.down s'.stopped) (hsw : SwOk (sk s') s'.sw)
    (hstop : s'.stopped = true → s'.rl = .done)
    (hev : ∀ ev, ev ∈ s'.evs → ev ∈ s.evs ∨ EvOk (sk s') ev) : Good s s' := by
  refine ⟨⟨hk.inv h.skI, hrl, hsw, hstop, ?_⟩, hk⟩
  intro ev hm
  rcases hev ev hm with h1 | h1
  · exact evOk_mono (hk.mono h.skI) ev (h.evs ev h1)
  · exact h1

/-- a step that moves no program counter and allocates nothing -/
theorem inv_same_pc (s s' : St) (h : Inv s) (hk : SkStep (sk s) (sk s')) (hn : NoIns (sk s) (sk s'))
    (hrl : s'.rl = s.rl) (hsw : s'.sw = s.sw) (hd : s'.down = s.down) (hst : s'.stopped = s.stopped)
    (hev : ∀ ev, ev ∈ s'.evs → ev ∈ s.evs ∨ EvOk (sk s') ev) : Good s s' := by
  have hm := hk.mono h.skI
  apply inv_build s s' h hk
  · rw [hrl, hd, hst]; exact rlOk_mono hm hn.1 hn.2 h.rl
  · rw [hsw]; exact swOk_mono hm h.sw
  · rw [hrl, hst]; exact h.stop
  · exact hev

theorem mem_emit {s : St} {es : List Ev} {ev : Ev} (h : ev ∈ (emit s es).evs) : ev ∈ s.evs ∨ ev ∈ es := by
  simp only [emit, List.mem_append, List.mem_reverse] at h
  exact h.symm

theorem inv_build' (s s' : St) (k' : Sk) (h : Inv s) (hsk : sk s' = k') (hk : SkStep (sk s) k')
    (hrl : RlOk k' s'.rl s'.down s'.stopped) (hsw : SwOk k' s'.sw)
    (hstop : s'.stopped = true → s'.rl = .done)
    (hev : ∀ ev, ev ∈ s'.evs → ev ∈ s.evs ∨ EvOk k' ev) : Good s s' := by
  subst hsk; exact inv_build s s' h hk hrl hsw hstop hev

theorem sk_dial_state (s : St) (i : Nat) (e e2 : Entry) (rl' : RlPc) (es : List Ev)
    (he2 : e2.core = { e.core with conn := some s.nSock, live := true }) :
    sk (emit { setEnt s i e2 with sock := upd s.sock s.nSock 0, sockEnt := upd s.sockEnt s.nSock i,
                                  nSock := s.nSock + 1, rl := rl' } es) = skDial (sk s) i e.core := by
  rw [sk_emit]
  unfold sk skDial setEnt
  simp only [Sk.mk.injEq, and_true, true_and]
  funext j
  simp only [upd]
  split
  · simp [he2]
  · rfl

/-! ### receive loop -/

theorem inv_recv (c : Cfg) (s : St) (m : Msg) (h : Inv s) : Good s (step c s (.recv m)) := by
  simp only [step]
  split
  · split
    · exact good_refl h
    · rename_i hrl _
      refine inv_build s _ h SkStep.same trivial h.sw ?_ (fun ev hm => Or.inl hm)
      intro hst; have := h.stop hst; rw [hrl] at this; simp at this
  · exact good_refl h

theorem inv_connLost (c : Cfg) (s : St) (h : Inv s) : Good s (step c s .connLost) := by
  simp only [step]
  refine inv_build s _ h SkStep.same ?_ h.sw h.stop (fun ev hm => Or.inl hm)
  have := h.rl
  show RlOk (sk s) s.rl true s.stopped
  cases hrl : s.rl with
  | stopping p => rw [hrl] at this; exact ⟨rfl, this.2⟩
  | done => rw [hrl] at this; exact ⟨rfl, this.2.1, this.2.2⟩
  | create m => rw [hrl] at this; exact this
  | feed i m => rw [hrl] at this; exact this
  | write i m => rw [hrl] at this; exact this
  | idle => trivial
  | got m => trivial
  | closing i => trivial

theorem mem_scan (s : St) (i : Nat) (e : Entry) (hI : InvSk (sk s)) (he : s.ent i = some e)
    (hl : e.closed = false) : i ∈ (List.range s.nEnt).filter (inTbl s) := by
  rw [List.mem_filter, List.mem_range]
  constructor
  · have := hI.fresh i
    by_cases hlt : i < s.nEnt
    · exact hlt
    · have h2 := this (by show s.nEnt ≤ i; omega)
      rw [sk_ce_some he] at h2; simp at h2
  · have := hI.tblU i e.core (sk_ce_some he) (Or.inl hl)
    simp only [inTbl, he]
    show (s.tbl e.sid == some i) = true
    have h3 : s.tbl e.sid = some i := this
    rw [h3]; simp

theorem inv_recvErr (c : Cfg) (s : St) (h : Inv s) : Good s (step c s .recvErr) := by
  simp only [step]
  split
  · rename_i hrl
    split
    · rename_i hd
      refine inv_build s _ h SkStep.same ?_ h.sw ?_ (fun ev hm => Or.inl hm)
      · refine ⟨hd, ?_⟩
        intro i ce hce hcl
        obtain ⟨e, he, hc⟩ := sk_ce_inv hce
        apply mem_scan s i e h.skI he
        rw [← hc] at hcl; exact hcl
      · intro hst; have := h.stop hst; rw [hrl] at this; simp at this
    · exact good_refl h
  · exact good_refl h

theorem inv_lookup (c : Cfg) (s : St) (h : Inv s) : Good s (step c s .lookup) := by
  simp only [step]
  split
  · rename_i m hrl
    have hns : s.stopped = true → False := by
      intro hst; have := h.stop hst; rw [hrl] at this; simp at this
    split
    · rename_i i hi
      refine inv_build s _ h SkStep.same ?_ h.sw (fun hst => (hns hst).elim) (fun ev hm => Or.inl hm)
      obtain ⟨e, he, hs, _⟩ := h.skI.tblT m.sid i hi
      exact ⟨e, he, hs⟩
    · rename_i hi
      exact inv_build s _ h SkStep.same hi h.sw (fun hst => (hns hst).elim) (fun ev hm => Or.inl hm)
  · exact good_refl h

theorem inv_insert (c : Cfg) (s : St) (now : Nat) (h : Inv s) : Good s (step c s (.insert now)) := by
  simp only [step]
  split
  · rename_i m hrl
    have hn : s.tbl m.sid = none := by have := h.rl; rw [hrl] at this; exact this
    have hns : s.stopped = true → False := by
      intro hst; have := h.stop hst; rw [hrl] at this; simp at this
    have hsk : sk { s with ent := upd s.ent s.nEnt (some { sid := m.sid, last := now }), nEnt := s.nEnt + 1,
                            tbl := upd s.tbl m.sid (some s.nEnt), rl := RlPc.feed s.nEnt m } = skInsert (sk s) m.sid := by
      unfold sk skInsert
      simp only [Sk.mk.injEq, and_true, true_and]
      funext j
      simp only [upd]
      split <;> simp [Entry.core]
    have hstep : SkStep (sk s) (skInsert (sk s) m.sid) := SkStep.insert m.sid hn
    apply inv_build s _ h (by rw [hsk]; exact hstep)
    · rw [hsk]
      exact ⟨_, by simp only [skInsert]; exact upd_same _ _ _, rfl⟩
    · rw [hsk]; exact swOk_mono (hstep.mono h.skI) h.sw
    · intro hst; exact (hns hst).elim
    · intro ev hm; exact Or.inl hm
  · exact good_refl h

theorem inv_feedA (c : Cfg) (s : St) (now : Nat) (d : DialRes) (h : Inv s) : Good s (step c s (.feedA now d)) := by
  simp only [step]
  split
  · rename_i i m hrl
    have hns : s.stopped = true → False := by
      intro hst; have := h.stop hst; rw [hrl] at this; simp at this
    have hrlok := h.rl; rw [hrl] at hrlok
    split
    · exact inv_build s _ h SkStep.same trivial h.sw (fun hst => (hns hst).elim) (fun ev hm => Or.inl hm)
    · rename_i e he
      obtain ⟨ce, hce, hsid⟩ := hrlok
      rw [sk_ce_some he] at hce; simp at hce; subst hce
      -- the benign update (last, df)
      have hben : ∀ (rl' : RlPc), sk { setEnt s i { e with last := now, df := (e.df.feed m).1 } with rl := rl' } = sk s := by
        intro rl'
        exact sk_setEnt_benign s i e _ he rfl
      split
      · refine inv_build s _ h (by rw [hben]; exact SkStep.same) trivial (by rw [hben]; exact h.sw)
          (fun hst => (hns hst).elim) (fun ev hm => Or.inl hm)
      · rename_i dm hdm
        have hdsid := defrag_sid e.df m dm hdm
        split
        · rename_i k hconn
          refine inv_build s _ h (by rw [hben]; exact SkStep.same) ?_ (by rw [hben]; exact h.sw)
            (fun hst => (hns hst).elim) (fun ev hm => Or.inl hm)
          rw [hben]
          exact ⟨e.core, sk_ce_some he, by rw [hdsid]; exact hsid, by simp [Entry.core, hconn]⟩
        · rename_i hconn
          split
          · refine inv_build s _ h (by rw [hben]; exact SkStep.same) trivial (by rw [hben]; exact h.sw)
              (fun hst => (hns hst).elim) (fun ev hm => Or.inl hm)
          · rename_i hcl
            have hcl' : e.closed = false := by simpa using hcl
            cases d with
            | ok a =>
              simp only
              -- successful dial
              have hstep : SkStep (sk s) (skDial (sk s) i e.core) :=
                SkStep.dial i e.core (sk_ce_some he) (by simp [Entry.core, hconn]) (by simp [Entry.core, hcl'])
              apply inv_build' s _ (skDial (sk s) i e.core) h (sk_dial_state s i e _ _ _ rfl) hstep
              · exact ⟨_, by simp only [skDial]; exact upd_same _ _ _, by rw [hdsid]; exact hsid, by simp⟩
              · exact swOk_mono (hstep.mono h.skI) h.sw
              · intro hst; exact (hns hst).elim
              · intro ev hm
                rcases mem_emit hm with h1 | h1
                · exact Or.inl h1
                · right
                  simp only [dialEvs, List.mem_cons, List.mem_nil_iff, or_false] at h1
                  rcases h1 with h1 | h1 | h1
                  · subst h1; trivial
                  · subst h1; trivial
                  · subst h1
                    simp [EvOk, Opener, skDial, sk, upd, Entry.core]
            | hookErr =>
              simp only
              refine inv_build s _ h (by rw [sk_emit, hben]; exact SkStep.same) trivial (by rw [sk_emit, hben]; exact h.sw)
                (fun hst => (hns hst).elim) ?_
              intro ev hm
              rcases mem_emit hm with h1 | h1
              · exact Or.inl h1
              · right; simp only [dialEvs, List.mem_singleton] at h1; subst h1; trivial
            | fail a =>
              simp only
              refine inv_build s _ h (by rw [sk_emit, hben]; exact SkStep.same) trivial (by rw [sk_emit, hben]; exact h.sw)
                (fun hst => (hns hst).elim) ?_
              intro ev hm
              rcases mem_emit hm with h1 | h1
              · exact Or.inl h1
              · right
                simp only [dialEvs, List.mem_cons, List.mem_nil_iff, or_false] at h1
                rcases h1 with h1 | h1 | h1 <;> subst h1 <;> trivial
  · exact good_refl h

end Hy.UdpSession
