/- C17, TCP side: Sniffer.TCP's slice arithmetic never faults (the model equals a slice-free
   form), and the transparency / rewriting lemmas proved on that form. -/
import Hy.Proofs.Sniff
set_option linter.unusedSimpArgs false
set_option linter.unusedVariables false
namespace Hy.Sniff
open Hy

def contentLength (got2 : Bytes) : Nat :=
  match got2 with
  | [a, b] => a.val * 256 + b.val
  | _ => 0

/-- what to do with an optional sniffed name (`f` = normalisation of the HTTP Host value) -/
def applyName (f : Bytes → Bytes) (addr : Bytes) (name : Option Bytes) (pb : Bytes) (s : Stream) : Res TcpOut :=
  match name with
  | some n => if n ≠ [] then (rewrite addr (f n)).bind fun a => .ok ⟨pb, a, s⟩ else .ok ⟨pb, addr, s⟩
  | none => .ok ⟨pb, addr, s⟩

/-- Sniffer.TCP with every slice expression replaced by its value -/
def sniffTCPPure (cfg : Cfg) (P : Parsers) (addr : Bytes) (s : Stream) : Res TcpOut :=
  let r1 := s.readFull 3
  if !r1.2.1 then .ok ⟨r1.1, addr, r1.2.2⟩
  else if isHTTP r1.1 then
    let t := runReads ⟨r1.1, [], r1.2.2⟩ P.reads
    applyName (hostOfHeader cfg) addr (P.httpHost t.buf) t.buffer t.s
  else if isTLS r1.1 then
    let r2 := r1.2.2.readFull 2
    if !r2.2.1 then .ok ⟨r1.1 ++ r2.1, addr, r2.2.2⟩
    else
      let r3 := r2.2.2.readFull (contentLength r2.1)
      if !r3.2.1 then .ok ⟨r1.1 ++ r2.1 ++ r3.1, addr, r3.2.2⟩
      else applyName id addr (P.sni r3.1) (r1.1 ++ r2.1 ++ r3.1) r3.2.2
  else .ok ⟨r1.1, addr, r1.2.2⟩

theorem sliceTo_take {α} (l : List α) (j : Nat) (h : j ≤ l.length) : Res.sliceTo l j = .ok (l.take j) := by
  simp [Res.sliceTo, h]

theorem sliceFrom_drop {α} (l : List α) (i : Nat) (h : i ≤ l.length) : Res.sliceFrom l i = .ok (l.drop i) := by
  simp [Res.sliceFrom, h]

theorem idx_ok {α} (l : List α) (i : Nat) (h : i < l.length) : Res.idx l i = .ok l[i] := by
  simp [Res.idx, List.getElem?_eq_getElem h]

theorem sliceTo_pre_filled (pre got : Bytes) (n k : Nat) (hk : k = pre.length + got.length)
    (h : got.length ≤ n) : Res.sliceTo (pre ++ filled n got) k = .ok (pre ++ got) := by
  subst hk
  rw [sliceTo_take _ _ (by simp [filled_length _ _ h]; omega)]
  congr 1
  rw [List.take_append]
  simp [filled, List.take_of_length_le]

theorem len2 (l : Bytes) (h : l.length = 2) : ∃ a b, l = [a, b] := by
  match l, h with
  | [a, b], _ => exact ⟨a, b, rfl⟩

theorem len3 (l : Bytes) (h : l.length = 3) : ∃ a b c, l = [a, b, c] := by
  match l, h with
  | [a, b, c], _ => exact ⟨a, b, c, rfl⟩

/-- the model, slices and all, IS the slice-free form: in particular no slice ever faults -/
theorem sniffTCP_eq_pure (cfg : Cfg) (P : Parsers) (addr : Bytes) (s : Stream) :
    sniffTCP cfg P addr s = sniffTCPPure cfg P addr s := by
  unfold sniffTCP sniffTCPPure
  have l1 := readFull_len s 3
  have o1 := readFull_ok_len s 3
  generalize s.readFull 3 = r1 at l1 o1
  obtain ⟨got, ok, s1⟩ := r1
  simp only at l1 o1 ⊢
  cases ok with
  | false =>
    simp only [Bool.not_false, ↓reduceIte]
    rw [sliceTo_take _ _ (by rw [filled_length _ _ l1]; exact l1), filled_take]
    rfl
  | true =>
    have hlen := o1 rfl
    simp only [Bool.not_true, Bool.false_eq_true, ↓reduceIte, filled_of_len 3 got hlen]
    split
    · -- HTTP
      unfold applyName
      cases hh : P.httpHost (runReads ⟨got, [], s1⟩ P.reads).buf with
      | none => rfl
      | some h =>
        by_cases hne : h = []
        · simp [hne]
        · simp only [ne_eq, hne, not_false_eq_true, ↓reduceIte]
          rfl
    · split
      · -- TLS
        have l2 := readFull_len s1 2
        have o2 := readFull_ok_len s1 2
        generalize s1.readFull 2 = r2 at l2 o2
        obtain ⟨got2, ok2, s2⟩ := r2
        simp only at l2 o2 ⊢
        obtain ⟨x, y, z, rfl⟩ := len3 got hlen
        cases ok2 with
        | false =>
          simp only [Bool.not_false, ↓reduceIte]
          have e : Res.sliceTo ([x, y, z] ++ filled 2 got2) (3 + got2.length) = .ok ([x, y, z] ++ got2) :=
            sliceTo_pre_filled [x, y, z] got2 2 _ rfl l2
          rw [e]; rfl
        | true =>
          have hlen2 := o2 rfl
          obtain ⟨a, b, rfl⟩ := len2 got2 hlen2
          simp only [Bool.not_true, Bool.false_eq_true, ↓reduceIte, filled_of_len 2 [a, b] rfl]
          have i3 : Res.idx ([x, y, z] ++ [a, b]) 3 = .ok a := rfl
          have i4 : Res.idx ([x, y, z] ++ [a, b]) 4 = .ok b := rfl
          simp only [Res.bind_eq, i3, i4, Res.bind_ok]
          have ecl : contentLength [a, b] = a.val * 256 + b.val := rfl
          rw [ecl]
          have l3 := readFull_len s2 (a.val * 256 + b.val)
          have o3 := readFull_ok_len s2 (a.val * 256 + b.val)
          generalize s2.readFull (a.val * 256 + b.val) = r3 at l3 o3
          obtain ⟨got3, ok3, s3⟩ := r3
          simp only at l3 o3 ⊢
          cases ok3 with
          | false =>
            simp only [Bool.not_false, ↓reduceIte]
            rw [sliceTo_pre_filled ([x, y, z] ++ [a, b]) got3 _ (5 + got3.length) rfl l3]
            rfl
          | true =>
            have hlen3 := o3 rfl
            simp only [Bool.not_true, Bool.false_eq_true, ↓reduceIte, filled_of_len _ got3 hlen3]
            rw [sliceFrom_drop _ _ (by simp)]
            have ed : ([x, y, z] ++ [a, b] ++ got3).drop 5 = got3 := rfl
            simp only [Res.bind_ok, ed]
            unfold applyName
            cases hs : P.sni got3 with
            | none => rfl
            | some name =>
              by_cases hne : name = []
              · simp [hne]
              · simp only [ne_eq, hne, not_false_eq_true, ↓reduceIte]
                rfl
      · rfl

/-! ### consequences -/

theorem applyName_noPanic (f : Bytes → Bytes) (addr : Bytes) (name : Option Bytes) (pb : Bytes) (s : Stream) :
    Res.NoPanic (applyName f addr name pb s) := by
  unfold applyName
  split
  · split
    · exact Res.noPanic_bind _ _ (rewrite_noPanic _ _) (fun _ _ => by simp)
    · simp
  · simp

theorem applyName_ok (f : Bytes → Bytes) (addr : Bytes) (name : Option Bytes) (pb : Bytes) (s : Stream)
    (out : TcpOut) (h : applyName f addr name pb s = .ok out) :
    out.putback = pb ∧ out.s = s ∧
    (out.addr = addr ∨ ∃ n h0 p, name = some n ∧ n ≠ [] ∧ splitHostPort addr = some (h0, p)
        ∧ out.addr = joinHostPort (f n) p) := by
  unfold applyName at h
  split at h
  · rename_i n
    split at h
    · rename_i hne
      cases hr : rewrite addr (f n) with
      | ok a =>
        rw [hr] at h
        simp only [Res.bind_ok, Res.ok.injEq] at h
        subst h
        obtain ⟨h0, p, hs, ha⟩ := rewrite_ok _ _ _ hr
        exact ⟨rfl, rfl, Or.inr ⟨n, h0, p, rfl, hne, hs, ha⟩⟩
      | reject => rw [hr] at h; simp at h
      | panic => rw [hr] at h; simp at h
    · simp only [Res.ok.injEq] at h; subst h; exact ⟨rfl, rfl, Or.inl rfl⟩
  · simp only [Res.ok.injEq] at h; subst h; exact ⟨rfl, rfl, Or.inl rfl⟩

theorem applyName_reject (f : Bytes → Bytes) (addr : Bytes) (name : Option Bytes) (pb : Bytes) (s : Stream)
    (h : applyName f addr name pb s = .reject) : splitHostPort addr = none := by
  unfold applyName at h
  split at h
  · rename_i n
    split at h
    · cases hr : rewrite addr (f n) with
      | ok a => rw [hr] at h; simp at h
      | reject => exact rewrite_reject _ _ hr
      | panic => rw [hr] at h; simp at h
    · simp at h
  · simp at h

theorem pure_noPanic (cfg : Cfg) (P : Parsers) (addr : Bytes) (s : Stream) :
    Res.NoPanic (sniffTCPPure cfg P addr s) := by
  unfold sniffTCPPure
  simp only
  split
  · simp
  · split
    · exact applyName_noPanic _ _ _ _ _
    · split
      · split
        · simp
        · split
          · simp
          · exact applyName_noPanic _ _ _ _ _
      · simp

theorem pure_reject (cfg : Cfg) (P : Parsers) (addr : Bytes) (s : Stream)
    (h : sniffTCPPure cfg P addr s = .reject) : splitHostPort addr = none := by
  unfold sniffTCPPure at h
  simp only at h
  split at h
  · simp at h
  · split at h
    · exact applyName_reject _ _ _ _ _ h
    · split at h
      · split at h
        · simp at h
        · split at h
          · simp at h
          · exact applyName_reject _ _ _ _ _ h
      · simp at h

/-- the replay buffer followed by what is still unread is what the client sent -/
theorem pure_transparent (cfg : Cfg) (P : Parsers) (addr : Bytes) (s : Stream) (out : TcpOut)
    (hfirst : ∀ k ks, P.reads = k :: ks → 3 ≤ k)
    (h : sniffTCPPure cfg P addr s = .ok out) : out.putback ++ out.s.unread = s.unread := by
  unfold sniffTCPPure at h
  have f1 := readFull_flat s 3
  have l1 := readFull_len s 3
  simp only at h
  split at h
  · simp only [Res.ok.injEq] at h; subst h; exact f1
  · split at h
    · obtain ⟨h1, h2, _⟩ := applyName_ok _ _ _ _ _ _ h
      rw [h1, h2, http_branch_transparent _ _ _ (fun k ks e => Nat.le_trans l1 (hfirst k ks e))]
      exact f1
    · split at h
      · have f2 := readFull_flat (s.readFull 3).2.2 2
        split at h
        · simp only [Res.ok.injEq] at h; subst h
          simp only [List.append_assoc]; rw [f2, f1]
        · have f3 := readFull_flat ((s.readFull 3).2.2.readFull 2).2.2
            (contentLength ((s.readFull 3).2.2.readFull 2).1)
          split at h
          · simp only [Res.ok.injEq] at h; subst h
            simp only [List.append_assoc]; rw [f3, f2, f1]
          · obtain ⟨h1, h2, _⟩ := applyName_ok _ _ _ _ _ _ h
            rw [h1, h2]
            simp only [List.append_assoc]; rw [f3, f2, f1]
      · simp only [Res.ok.injEq] at h; subst h; exact f1

/-- either the address is untouched, or it is JoinHostPort(name, port of the ORIGINAL address)
    where `name` is what the parser extracted from exactly the bytes that are handed back. -/
theorem pure_rewrite_source (cfg : Cfg) (P : Parsers) (addr : Bytes) (s : Stream) (out : TcpOut)
    (hfirst : ∃ k ks, P.reads = k :: ks ∧ 3 ≤ k)
    (h : sniffTCPPure cfg P addr s = .ok out) :
    out.addr = addr ∨ ∃ h0 p, splitHostPort addr = some (h0, p) ∧
      ((∃ n, P.httpHost out.putback = some n ∧ n ≠ [] ∧ out.addr = joinHostPort (hostOfHeader cfg n) p) ∨
       (∃ n, P.sni (out.putback.drop 5) = some n ∧ n ≠ [] ∧ out.addr = joinHostPort n p)) := by
  unfold sniffTCPPure at h
  have l1 := readFull_len s 3
  have o1 := readFull_ok_len s 3
  simp only at h
  split at h
  · simp only [Res.ok.injEq] at h; subst h; exact Or.inl rfl
  · rename_i hok
    have hlen1 : (s.readFull 3).1.length = 3 := o1 (by simpa using hok)
    split at h
    · obtain ⟨h1, h2, h3⟩ := applyName_ok _ _ _ _ _ _ h
      rcases h3 with h3 | ⟨n, h0, p, hn, hne, hs, ha⟩
      · exact Or.inl h3
      · obtain ⟨k, ks, hr, hk⟩ := hfirst
        refine Or.inr ⟨h0, p, hs, Or.inl ⟨n, ?_, hne, ha⟩⟩
        rw [h1, hr, ← http_handed_eq_buffer _ _ k ks (Nat.le_trans l1 hk), ← hr]
        exact hn
    · split at h
      · have o2 := readFull_ok_len (s.readFull 3).2.2 2
        split at h
        · simp only [Res.ok.injEq] at h; subst h; exact Or.inl rfl
        · rename_i hok2
          have hlen2 : ((s.readFull 3).2.2.readFull 2).1.length = 2 := o2 (by simpa using hok2)
          split at h
          · simp only [Res.ok.injEq] at h; subst h; exact Or.inl rfl
          · obtain ⟨h1, h2, h3⟩ := applyName_ok _ _ _ _ _ _ h
            rcases h3 with h3 | ⟨n, h0, p, hn, hne, hs, ha⟩
            · exact Or.inl h3
            · refine Or.inr ⟨h0, p, hs, Or.inr ⟨n, ?_, hne, ha⟩⟩
              rw [h1, List.drop_append_of_le_length (by simp [hlen1, hlen2])]
              have : ((s.readFull 3).1 ++ ((s.readFull 3).2.2.readFull 2).1).drop 5 = [] := by
                apply List.drop_eq_nil_of_le; simp [hlen1, hlen2]
              rw [this]; exact hn
      · simp only [Res.ok.injEq] at h; subst h; exact Or.inl rfl

end Hy.Sniff
