/- C18 helper lemmas: the manager layer (Hy.Model.MuxMgr). -/
import Hy.Model.MuxMgr
import Hy.Proofs.C18Mux
set_option linter.unusedSimpArgs false
set_option linter.unusedVariables false
namespace Hy.MuxMgr
open Hy Hy.Mux

/-! ### every mux state reached through the manager is a state of the mux transition system -/
theorem stepMux_st (w : MuxW) (l : Label) :
    (stepMux w l).st = w.st ∨ (stepMux w l).st = step fixed w.st l := by
  cases l <;> simp only [stepMux]
  all_goals (repeat' split) <;> simp

theorem stepMux_key (w : MuxW) (l : Label) : (stepMux w l).key = w.key := by
  cases l <;> simp only [stepMux]
  all_goals (repeat' split) <;> rfl

def Reach (w : MuxW) : Prop := ∃ sched, w.st = run fixed init sched

theorem reach_step (w : MuxW) (l : Label) (st' : St) (h : Reach w) (hs : st' = w.st ∨ st' = step fixed w.st l) :
    ∃ sched, st' = run fixed init sched := by
  obtain ⟨sched, hsched⟩ := h
  rcases hs with e | e
  · exact ⟨sched, e ▸ hsched⟩
  · exact ⟨sched ++ [l], by rw [e, hsched, run_append]; rfl⟩

theorem getElem?_setMux (m : MSt) (id : Nat) (w : MuxW) (j : Nat) :
    (setMux m id w).muxes[j]? = if id = j then (if j < m.muxes.length then some w else none) else m.muxes[j]? := by
  simp only [setMux, List.getElem?_set]
  by_cases h : id = j
  · subst h; simp
  · simp [h]

/-- a property of single muxes that every manager step preserves (given it is preserved by
    the three ways a mux changes) holds for every mux in every reachable manager state -/
theorem mux_induction (P : MuxW → Prop) (wake : Bool)
    (hnew : ∀ key, P { key := key })
    (hreg : ∀ w k, P w → P (register wake w k))
    (hcap : ∀ w, P w → P (capture w))
    (hstep : ∀ w l, P w → P (stepMux w l))
    (sched : List MLabel) (id : Nat) (w : MuxW) (h : (mrun wake minit sched).muxes[id]? = some w) : P w := by
  suffices hs : ∀ (sched : List MLabel) (m : MSt), (∀ (id : Nat) (w : MuxW), m.muxes[id]? = some w → P w) →
      ∀ (id : Nat) (w : MuxW), (mrun wake m sched).muxes[id]? = some w → P w by
    exact hs sched minit (by intro id w h; simp [minit] at h) id w h
  clear h
  intro sched
  induction sched with
  | nil => intro m hm; exact hm
  | cons l ls ih =>
    intro m hm
    apply ih
    intro j wj hj
    cases l with
    | call k key ok =>
      simp only [mstep] at hj
      split at hj
      · exact hm j wj hj
      · split at hj
        · simp only [List.getElem?_append] at hj
          split at hj
          · exact hm j wj hj
          · cases hjj : j - m.muxes.length with
            | zero => simp [hjj] at hj; subst hj; exact hnew key
            | succ n => simp [hjj] at hj
        · exact hm j wj hj
    | register i k =>
      simp only [mstep] at hj
      split at hj
      · split at hj
        · rename_i w0 hw0
          simp only [] at hj
          have : (setMux m i (register wake w0 k)).muxes[j]? = some wj := hj
          rw [getElem?_setMux] at this
          split at this
          · split at this
            · simp at this; subst this; exact hreg w0 k (hm i w0 hw0)
            · simp at this
          · exact hm j wj this
        · exact hm j wj hj
      · exact hm j wj hj
    | capture i =>
      simp only [mstep] at hj
      split at hj
      · rename_i w0 hw0
        rw [getElem?_setMux] at hj
        split at hj
        · split at hj
          · simp at hj; subst hj; exact hcap w0 (hm i w0 hw0)
          · simp at hj
        · exact hm j wj hj
      · exact hm j wj hj
    | mux i l' =>
      simp only [mstep] at hj
      split at hj
      · rename_i w0 hw0
        have key : (setMux m i (stepMux w0 l')).muxes[j]? = some wj := by
          split at hj <;> exact hj
        rw [getElem?_setMux] at key
        split at key
        · split at key
          · simp at key; subst key; exact hstep w0 l' (hm i w0 hw0)
          · simp at key
        · exact hm j wj key
      · exact hm j wj hj

theorem mux_reachable (wake : Bool) (sched : List MLabel) (id : Nat) (w : MuxW)
    (h : (mrun wake minit sched).muxes[id]? = some w) : Reach w := by
  refine mux_induction Reach wake ?_ ?_ ?_ ?_ sched id w h
  · intro key; exact ⟨[], rfl⟩
  · intro w k hw; exact reach_step w (.listen k) _ hw (Or.inr rfl)
  · intro w hw; unfold capture; split <;> exact hw
  · intro w l hw; exact reach_step w l _ hw (stepMux_st w l)

/-! ### per-mux facts about release (the code as it is: any `wake`) -/
structure WInv (w : MuxW) : Prop where
  base : w.baseOpen = true ↔ (w.st.phase = .running ∨ w.st.phase = .exiting)
  fresh : w.st.phase = .running → w.st.socks = none → w.st.http = none → w.st.subs = []

/-- mainLoop's view is current: it is at its loop head (it will capture next), or the close
    channels it captured are those of the registered sub-listeners — i.e. every registration
    precedes mainLoop's current capture, or something has woken mainLoop since -/
def CaptureCurrent (w : MuxW) : Prop :=
  w.st.phase = .running → w.atTop = false → w.cap = (w.st.socks, w.st.http)

theorem markClosed_nil_iff (l : List Sub) (t : Nat) : markClosed l t = [] ↔ l = [] := by
  unfold markClosed
  cases l with
  | nil => simp
  | cons a b => cases t <;> simp [List.modify]

theorem winv_new (key : Nat) : WInv { key := key } := by
  refine ⟨by simp, by simp⟩

theorem winv_capture (w : MuxW) (h : WInv w) : WInv (capture w) := by
  unfold capture
  split
  · exact ⟨h.base, h.fresh⟩
  · exact h

theorem winv_register (wake : Bool) (w : MuxW) (k : Kind) (h : WInv w) : WInv (register wake w k) := by
  obtain ⟨hb, hf⟩ := h
  unfold register
  simp only [step, listen]
  refine ⟨?_, ?_⟩
  · (repeat' split) <;> simpa using hb
  · cases k <;> (repeat' split) <;> simp_all [St.slot, St.setSlot]
    all_goals (intro hr; rename_i hx; rcases hx with hx | hx <;> simp [hr] at hx)

theorem winv_stepMux (w : MuxW) (l : Label) (h : WInv w) : WInv (stepMux w l) := by
  obtain ⟨hb, hf⟩ := h
  cases l <;> simp only [stepMux, step]
  all_goals (repeat' split)
  all_goals
    refine ⟨?_, ?_⟩ <;> simp_all [setSlot_slot, notify_fixed, markClosed_nil_iff]

/-- mainLoop's own next steps (capture, see socks closed, capture, see http closed, run the
    deferred function) on one mux -/
def releaseW (w : MuxW) : MuxW :=
  stepMux (stepMux (capture (stepMux (capture w) (.mainSeesSubClosed .socks))) (.mainSeesSubClosed .http)) .exitA

theorem allClosed_slot (w : MuxW) (hi : SlotValid w.st) (hall : allClosed w = true) (k : Kind) (t : Nat)
    (hs : w.st.slot k = some t) : subClosed w.st.subs t = true := by
  obtain ⟨sb, g, _⟩ := hi k t hs
  simp only [allClosed, Bool.and_eq_true, List.all_eq_true] at hall
  have := hall.1 sb (List.mem_of_getElem? g)
  simp [subClosed, g, this]

theorem releaseW_closes (w : MuxW) (hw : WInv w) (hc : CaptureCurrent w) (hi : SlotValid w.st)
    (hall : allClosed w = true) : (releaseW w).baseOpen = false := by
  obtain ⟨hb, hf⟩ := hw
  have hne : w.st.subs ≠ [] := by
    intro h; simp [allClosed, h] at hall
  cases hp : w.st.phase with
  | chanClosed =>
    have : w.baseOpen = false := by
      cases hbo : w.baseOpen with
      | false => rfl
      | true => have := hb.mp hbo; simp [hp] at this
    simp [releaseW, capture, stepMux, hp, this]
  | exited =>
    have : w.baseOpen = false := by
      cases hbo : w.baseOpen with
      | false => rfl
      | true => have := hb.mp hbo; simp [hp] at this
    simp [releaseW, capture, stepMux, hp, this]
  | exiting =>
    simp [releaseW, capture, stepMux, step, hp]
  | running =>
    cases hs : w.st.socks with
    | none =>
      cases hh : w.st.http with
      | none => exact absurd (hf hp hs hh) hne
      | some t2 =>
        have c2 := allClosed_slot w hi hall .http t2 (by simpa [St.slot] using hh)
        cases ha : w.atTop with
        | true =>
          simp [releaseW, capture, stepMux, step, capOf, hp, hs, hh, ha, c2, St.slot, St.setSlot]
        | false =>
          have hcap := hc hp ha
          simp [releaseW, capture, stepMux, step, capOf, hp, hs, hh, ha, c2, hcap, St.slot, St.setSlot]
    | some t1 =>
      have c1 := allClosed_slot w hi hall .socks t1 (by simpa [St.slot] using hs)
      cases hh : w.st.http with
      | none =>
        cases ha : w.atTop with
        | true =>
          simp [releaseW, capture, stepMux, step, capOf, hp, hs, hh, ha, c1, St.slot, St.setSlot]
        | false =>
          have hcap := hc hp ha
          simp [releaseW, capture, stepMux, step, capOf, hp, hs, hh, ha, c1, hcap, St.slot, St.setSlot]
      | some t2 =>
        have c2 := allClosed_slot w hi hall .http t2 (by simpa [St.slot] using hh)
        cases ha : w.atTop with
        | true =>
          simp [releaseW, capture, stepMux, step, capOf, hp, hs, hh, ha, c1, c2, St.slot, St.setSlot]
        | false =>
          have hcap := hc hp ha
          simp [releaseW, capture, stepMux, step, capOf, hp, hs, hh, ha, c1, c2, hcap, St.slot, St.setSlot]

/-! ### the manager's map -/
theorem stepMux_baseOpen (w : MuxW) (l : Label) (h : (stepMux w l).baseOpen = true) : w.baseOpen = true := by
  cases l <;> simp only [stepMux] at h
  all_goals (repeat' split at h) <;> simp_all

theorem capture_key (w : MuxW) : (capture w).key = w.key := by unfold capture; split <;> rfl
theorem capture_baseOpen (w : MuxW) : (capture w).baseOpen = w.baseOpen := by unfold capture; split <;> rfl
theorem capture_st (w : MuxW) : (capture w).st = w.st := by unfold capture; split <;> rfl
theorem register_key (wake : Bool) (w : MuxW) (k : Kind) : (register wake w k).key = w.key := rfl
theorem register_baseOpen (wake : Bool) (w : MuxW) (k : Kind) : (register wake w k).baseOpen = w.baseOpen := rfl

structure MInv (m : MSt) : Prop where
  t1 : ∀ (key id : Nat), m.table key = some id → ∃ w, m.muxes[id]? = some w ∧ w.key = key ∧ w.baseOpen = true
  t2 : ∀ (id : Nat) (w : MuxW), m.muxes[id]? = some w → w.baseOpen = true → m.table w.key = some id

theorem getElem?_lt {α} (l : List α) (i : Nat) (a : α) (h : l[i]? = some a) : i < l.length := by
  rcases Nat.lt_or_ge i l.length with h1 | h1
  · exact h1
  · rw [List.getElem?_eq_none_iff.mpr h1] at h; simp at h

/-- replacing mux id by a mux with the same key whose base is open only if it was -/
theorem minv_setMux (m : MSt) (id : Nat) (w w' : MuxW) (h : MInv m) (hw : m.muxes[id]? = some w)
    (hk : w'.key = w.key) (hbo : w'.baseOpen = w.baseOpen) : MInv (setMux m id w') := by
  have hlt := getElem?_lt _ _ _ hw
  refine ⟨?_, ?_⟩
  · intro key j hj
    obtain ⟨wj, g, gk, gb⟩ := h.t1 key j hj
    by_cases e : id = j
    · subst e
      rw [hw] at g; cases g
      exact ⟨w', by rw [getElem?_setMux]; simp [hlt], hk.trans gk, hbo.trans gb⟩
    · exact ⟨wj, by rw [getElem?_setMux]; simp [e, g], gk, gb⟩
  · intro j wj hj hb
    rw [getElem?_setMux] at hj
    by_cases e : id = j
    · subst e
      simp [hlt] at hj; subst hj
      have := h.t2 id w hw (hbo ▸ hb)
      rw [hk]; exact this
    · simp [e] at hj
      exact h.t2 j wj hj hb

theorem minv_step (wake : Bool) (m : MSt) (l : MLabel) (h : MInv m) : MInv (mstep wake m l) := by
  cases l with
  | call k key ok =>
    simp only [mstep]
    split
    · exact ⟨h.t1, h.t2⟩
    · rename_i hnone
      split
      · refine ⟨?_, ?_⟩
        · intro key' j hj
          simp only at hj
          by_cases e : key' = key
          · subst e
            simp at hj; subst hj
            exact ⟨{ key := key' }, by simp, rfl, rfl⟩
          · simp [e] at hj
            obtain ⟨wj, g, gk, gb⟩ := h.t1 key' j hj
            exact ⟨wj, by simp only; rw [List.getElem?_append_left (getElem?_lt _ _ _ g)]; exact g, gk, gb⟩
        · intro j wj hj hb
          simp only at hj ⊢
          rcases Nat.lt_or_ge j m.muxes.length with hlt | hge
          · rw [List.getElem?_append_left hlt] at hj
            have := h.t2 j wj hj hb
            have hk : wj.key ≠ key := by intro e; rw [e, hnone] at this; simp at this
            simp [hk, this]
          · rw [List.getElem?_append_right hge] at hj
            cases hjj : j - m.muxes.length with
            | zero =>
              simp [hjj] at hj; subst hj
              have : j = m.muxes.length := by omega
              simp [this]
            | succ n => simp [hjj] at hj
      · exact ⟨h.t1, h.t2⟩
  | register i k =>
    simp only [mstep]
    split
    · split
      · rename_i w0 hw0
        have := minv_setMux m i w0 (register wake w0 k) h hw0 rfl rfl
        exact ⟨this.t1, this.t2⟩
      · exact h
    · exact h
  | capture i =>
    simp only [mstep]
    split
    · rename_i w0 hw0
      exact minv_setMux m i w0 (capture w0) h hw0 (capture_key w0) (capture_baseOpen w0)
    · exact h
  | mux i l' =>
    simp only [mstep]
    split
    · rename_i w0 hw0
      have hlt := getElem?_lt _ _ _ hw0
      split
      · -- the deferred function ran: base closed, map entry deleted
        rename_i hflip
        have hk := stepMux_key w0 l'
        refine ⟨?_, ?_⟩
        · intro key j hj
          simp only at hj
          split at hj
          · simp at hj
          · rename_i hne
            have hj' : m.table key = some j := by simpa [setMux] using hj
            obtain ⟨wj, g, gk, gb⟩ := h.t1 key j hj'
            have e : i ≠ j := by
              intro e; subst e; rw [hw0] at g; cases g; exact hne gk.symm
            exact ⟨wj, by simp only; rw [getElem?_setMux]; simp [e, g], gk, gb⟩
        · intro j wj hj hb
          simp only at hj ⊢
          rw [getElem?_setMux] at hj
          by_cases e : i = j
          · subst e
            simp [hlt] at hj; subst hj
            exact absurd hb hflip.2
          · simp [e] at hj
            have hj2 := h.t2 j wj hj hb
            have hk2 : wj.key ≠ w0.key := by
              intro ek
              have := h.t2 i w0 hw0 hflip.1
              rw [ek, this] at hj2; simp at hj2; exact e hj2
            simp [hk2, setMux, hj2]
      · rename_i hnf
        have hbo : (stepMux w0 l').baseOpen = w0.baseOpen := by
          cases hb1 : (stepMux w0 l').baseOpen with
          | true => exact (stepMux_baseOpen w0 l' hb1).symm
          | false =>
            cases hb0 : w0.baseOpen with
            | false => rfl
            | true => exact absurd ⟨hb0, by simp [hb1]⟩ hnf
        exact minv_setMux m i w0 (stepMux w0 l') h hw0 (stepMux_key w0 l') hbo
    · exact h

theorem minv_run (wake : Bool) (m : MSt) (sched : List MLabel) (h : MInv m) : MInv (mrun wake m sched) := by
  induction sched generalizing m with
  | nil => exact h
  | cons l ls ih => exact ih _ (minv_step wake m l h)

theorem minv_init : MInv minit := ⟨by intro k i h; simp [minit] at h, by intro i w h; simp [minit] at h⟩

/-! ### running mainLoop's release steps at manager level -/
theorem mstep_capture_get (wake : Bool) (m : MSt) (id : Nat) (w : MuxW) (h : m.muxes[id]? = some w) :
    (mstep wake m (.capture id)).muxes[id]? = some (capture w) := by
  simp only [mstep, h]
  rw [getElem?_setMux]; simp [getElem?_lt _ _ _ h]

theorem mstep_mux_get (wake : Bool) (m : MSt) (id : Nat) (l : Label) (w : MuxW) (h : m.muxes[id]? = some w) :
    (mstep wake m (.mux id l)).muxes[id]? = some (stepMux w l) := by
  simp only [mstep, h]
  split <;> (show (setMux m id (stepMux w l)).muxes[id]? = _; rw [getElem?_setMux]; simp [getElem?_lt _ _ _ h])

theorem mstep_mux_table (wake : Bool) (m : MSt) (id : Nat) (l : Label) (w : MuxW) (h : m.muxes[id]? = some w)
    (h1 : w.baseOpen = true) (h2 : (stepMux w l).baseOpen = false) :
    (mstep wake m (.mux id l)).table w.key = none := by
  simp only [mstep, h]
  simp [h1, h2]

theorem mainSees_baseOpen (w : MuxW) (k : Kind) : (stepMux w (.mainSeesSubClosed k)).baseOpen = w.baseOpen := by
  simp only [stepMux]; (repeat' split) <;> rfl

theorem release_run (wake : Bool) (m : MSt) (id : Nat) (w : MuxW) (hw : m.muxes[id]? = some w) :
    (mrun wake m (releaseSched id)).muxes[id]? = some (releaseW w) ∧
    (w.baseOpen = true → (releaseW w).baseOpen = false → (mrun wake m (releaseSched id)).table w.key = none) := by
  have g1 := mstep_capture_get wake m id w hw
  have g2 := mstep_mux_get wake _ id (.mainSeesSubClosed .socks) _ g1
  have g3 := mstep_capture_get wake _ id _ g2
  have g4 := mstep_mux_get wake _ id (.mainSeesSubClosed .http) _ g3
  have g5 := mstep_mux_get wake _ id .exitA _ g4
  refine ⟨by simpa [mrun, releaseSched, releaseW] using g5, ?_⟩
  intro hb hc
  have hk : (stepMux (capture (stepMux (capture w) (.mainSeesSubClosed .socks))) (.mainSeesSubClosed .http)).key = w.key := by
    rw [stepMux_key, capture_key, stepMux_key, capture_key]
  have hbo : (stepMux (capture (stepMux (capture w) (.mainSeesSubClosed .socks))) (.mainSeesSubClosed .http)).baseOpen = true := by
    rw [mainSees_baseOpen, capture_baseOpen, mainSees_baseOpen, capture_baseOpen]; exact hb
  have := mstep_mux_table wake _ id .exitA _ g4 hbo (by simpa [releaseW] using hc)
  rw [hk] at this
  simpa [mrun, releaseSched] using this

/-- with the hypothetical wake-up on registration the hypothesis of the release theorem is an
    invariant; in the code as it is (wake = false) it is not (`D16_late_registration_observation`) -/
theorem captureCurrent_wake (sched : List MLabel) (id : Nat) (w : MuxW)
    (h : (mrun true minit sched).muxes[id]? = some w) : CaptureCurrent w := by
  refine mux_induction CaptureCurrent true ?_ ?_ ?_ ?_ sched id w h
  · intro key; simp [CaptureCurrent]
  · intro w k hc
    unfold CaptureCurrent at hc ⊢
    unfold register
    simp only [step, listen]
    (repeat' split) <;> simp_all [setSlot_slot]
    all_goals (intro hr; rename_i hx; rcases hx with hx | hx <;> simp [hr] at hx)
  · intro w hc
    unfold CaptureCurrent at hc ⊢
    unfold capture
    split
    · intro _ _; rfl
    · exact hc
  · intro w l hc
    unfold CaptureCurrent at hc ⊢
    cases l <;> simp only [stepMux, step]
    all_goals (repeat' split)
    all_goals simp_all [setSlot_slot, notify_fixed]

end Hy.MuxMgr
