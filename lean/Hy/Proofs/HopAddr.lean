/-
  Lemmas about Hy.Model.HopAddr (C19): net.SplitHostPort against a declarative description of
  "host:port" / "[host]:port", JoinHostPort re-splits, ResolveUDPHopAddr, addrs().
-/
import Hy.Model.HopAddr
import Hy.Proofs.PortUnion
namespace Hy.HopAddr
open Hy

/-- `cs` is `host:port` (no further colon, no bracket anywhere) or `[host]:port` (no `]`/`[`
    inside the brackets, none after them, no colon in the port) -/
def SplitsAs (cs host port : List Char) : Prop :=
  (cs = host ++ ':' :: port ∧ ':' ∉ host ∧ ':' ∉ port ∧ '[' ∉ cs ∧ ']' ∉ cs) ∨
  (cs = '[' :: host ++ ']' :: ':' :: port ∧ ']' ∉ host ∧ '[' ∉ host ∧
    ':' ∉ port ∧ '[' ∉ port ∧ ']' ∉ port)

/-! ### index functions -/

theorem idxOf_none {c : Char} {l : List Char} : idxOf c l = none ↔ c ∉ l := by
  induction l with
  | nil => simp [idxOf]
  | cons x xs ih =>
    simp only [idxOf]
    by_cases h : x = c
    · simp [h]
    · have h' : ¬ c = x := fun e => h e.symm
      simp [h, h', ih]

theorem idxOf_isSome {c : Char} {l : List Char} : (idxOf c l).isSome = true ↔ c ∈ l := by
  cases h : idxOf c l with
  | none => simp [idxOf_none.mp h]
  | some i =>
    simp only [Option.isSome_some, true_iff]
    exact Classical.byContradiction fun hn => by rw [idxOf_none.mpr hn] at h; cases h

theorem idxOf_append {c : Char} {a : List Char} (h : c ∉ a) (b : List Char) :
    idxOf c (a ++ c :: b) = some a.length := by
  induction a with
  | nil => simp [idxOf]
  | cons x xs ih =>
    have hx : ¬ x = c := fun e => h (by simp [e])
    have hxs : c ∉ xs := fun e => h (by simp [e])
    simp [idxOf, hx, ih hxs]

theorem idxOf_some {c : Char} {l : List Char} {i : Nat} (h : idxOf c l = some i) :
    ∃ a b, l = a ++ c :: b ∧ c ∉ a ∧ a.length = i := by
  induction l generalizing i with
  | nil => simp [idxOf] at h
  | cons x xs ih =>
    simp only [idxOf] at h
    by_cases hx : x = c
    · simp only [hx, if_true, Option.some.injEq] at h
      exact ⟨[], xs, by simp [hx], by simp, by simpa using h⟩
    · simp only [hx, if_false, Option.map_eq_some_iff] at h
      obtain ⟨j, hj, hji⟩ := h
      obtain ⟨a, b, hl, ha, hlen⟩ := ih hj
      refine ⟨x :: a, b, by simp [hl], ?_, by simp [hlen, hji]⟩
      intro hm
      rcases List.mem_cons.mp hm with e | e
      · exact hx e.symm
      · exact ha e

theorem lastIdxOf_none {c : Char} {l : List Char} : lastIdxOf c l = none ↔ c ∉ l := by
  induction l with
  | nil => simp [lastIdxOf]
  | cons x xs ih =>
    simp only [lastIdxOf]
    cases hl : lastIdxOf c xs with
    | some i =>
      have : c ∈ xs := Classical.byContradiction fun hn => by rw [ih.mpr hn] at hl; cases hl
      simp [this]
    | none =>
      have hxs := ih.mp hl
      by_cases h : x = c
      · simp [h]
      · have h' : ¬ c = x := fun e => h e.symm
        simp [h, h', hxs]

theorem lastIdxOf_append {c : Char} (a : List Char) {b : List Char} (h : c ∉ b) :
    lastIdxOf c (a ++ c :: b) = some a.length := by
  induction a with
  | nil => simp [lastIdxOf, lastIdxOf_none.mpr h]
  | cons x xs ih => simp [lastIdxOf, ih]

theorem lastIdxOf_some {c : Char} {l : List Char} {i : Nat} (h : lastIdxOf c l = some i) :
    ∃ a b, l = a ++ c :: b ∧ c ∉ b ∧ a.length = i := by
  induction l generalizing i with
  | nil => simp [lastIdxOf] at h
  | cons x xs ih =>
    simp only [lastIdxOf] at h
    cases hl : lastIdxOf c xs with
    | some j =>
      rw [hl] at h
      simp only [Option.some.injEq] at h
      obtain ⟨a, b, hxs, hb, hlen⟩ := ih hl
      exact ⟨x :: a, b, by simp [hxs], hb, by simp [hlen, h]⟩
    | none =>
      rw [hl] at h
      by_cases hx : x = c
      · simp only [hx, if_true, Option.some.injEq] at h
        exact ⟨[], xs, by simp [hx], lastIdxOf_none.mp hl, by simpa using h⟩
      · simp [hx] at h

/-- two decompositions of one list whose prefix lengths differ by one -/
theorem split_align {l a b a' b' : List Char} {x y : Char}
    (h1 : l = a ++ x :: b) (h2 : l = a' ++ y :: b') (hlen : a.length + 1 = a'.length) :
    a' = a ++ [x] ∧ b = y :: b' := by
  have e : (a ++ [x]) ++ b = a' ++ (y :: b') := by rw [← h2, h1]; simp
  have hl : (a ++ [x]).length = a'.length := by simp [hlen]
  have := List.append_inj e hl
  exact ⟨this.1.symm, this.2⟩

/-! ### SplitHostPort -/

theorem splitHostPort_complete {cs host port : List Char} (h : SplitsAs cs host port) :
    splitHostPort cs = .ok (host, port) := by
  rcases h with ⟨hcs, hh, hp, hob, hcb⟩ | ⟨hcs, hcb, hob, hp, hpo, hpc⟩
  · have hlast : lastIdxOf ':' cs = some host.length := by rw [hcs]; exact lastIdxOf_append host hp
    have hhead : ¬ cs.head? = some '[' := by
      intro e
      cases cs with
      | nil => simp at e
      | cons x xs => simp at e; subst e; exact hob (by simp)
    have htake : cs.take host.length = host := by rw [hcs]; simp
    have hdrop : cs.drop (host.length + 1) = port := by rw [hcs]; simp
    unfold splitHostPort
    rw [hlast]
    simp only [if_neg hhead, htake, hdrop]
    have e1 : (idxOf ':' host).isSome = false := by simp [idxOf_none.mpr hh]
    have e2 : (idxOf '[' cs).isSome = false := by simp [idxOf_none.mpr hob]
    have e3 : (idxOf ']' cs).isSome = false := by simp [idxOf_none.mpr hcb]
    simp [e1, e2, e3]
  · have hcs' : cs = ('[' :: host ++ [']']) ++ ':' :: port := by simp [hcs]
    have hlast : lastIdxOf ':' cs = some (host.length + 2) := by
      rw [hcs', lastIdxOf_append _ hp]; simp
    have hfirst : idxOf ']' cs = some (host.length + 1) := by
      have : ']' ∉ ('[' :: host) := by
        intro hm
        rcases List.mem_cons.mp hm with e | e
        · cases e
        · exact hcb e
      have := idxOf_append this (':' :: port)
      simpa [hcs] using this
    have hhead : cs.head? = some '[' := by rw [hcs]; rfl
    have hlenne : ¬ host.length + 1 + 1 = cs.length := by rw [hcs]; simp
    have hd1 : cs.drop 1 = host ++ ']' :: ':' :: port := by rw [hcs]; simp
    have hd2 : cs.drop (host.length + 1 + 1) = ':' :: port := by
      rw [hcs']
      have : ('[' :: host ++ [']']).length = host.length + 1 + 1 := by simp
      rw [← this, List.drop_left]
    have hd3 : cs.drop (host.length + 2 + 1) = port := by
      rw [hcs']
      have : host.length + 2 + 1 = ('[' :: host ++ [']']).length + 1 := by simp
      rw [this, List.drop_append, List.drop_of_length_le (by simp)]
      simp
    have ht : (cs.take (host.length + 1)).drop 1 = host := by
      rw [hcs]
      have : ('[' :: host ++ ']' :: ':' :: port) = ('[' :: host) ++ (']' :: ':' :: port) := by simp
      rw [this]
      have hl : ('[' :: host).length = host.length + 1 := by simp
      rw [← hl, List.take_left]
      simp
    have e1 : (idxOf '[' (host ++ ']' :: ':' :: port)).isSome = false := by
      have : '[' ∉ host ++ ']' :: ':' :: port := by
        intro hm
        simp only [List.mem_append, List.mem_cons] at hm
        rcases hm with e | e | e | e
        · exact hob e
        · cases e
        · cases e
        · exact hpo e
      simp [idxOf_none.mpr this]
    have e2 : (idxOf ']' (':' :: port)).isSome = false := by
      have : ']' ∉ ':' :: port := by
        intro hm
        rcases List.mem_cons.mp hm with e | e
        · cases e
        · exact hpc e
      simp [idxOf_none.mpr this]
    unfold splitHostPort
    rw [hlast]
    simp only [if_pos hhead, hfirst]
    rw [if_neg hlenne, if_pos trivial, hd1, hd2, hd3, ht]
    simp [e1, e2]

theorem splitHostPort_sound {cs host port : List Char} (h : splitHostPort cs = .ok (host, port)) :
    SplitsAs cs host port := by
  unfold splitHostPort at h
  cases hl : lastIdxOf ':' cs with
  | none => rw [hl] at h; cases h
  | some i =>
    rw [hl] at h
    simp only at h
    obtain ⟨a', b', hcs2, hb', hlen2⟩ := lastIdxOf_some hl
    by_cases hhead : cs.head? = some '['
    · rw [if_pos hhead] at h
      cases hf : idxOf ']' cs with
      | none => rw [hf] at h; cases h
      | some e =>
        rw [hf] at h
        simp only at h
        obtain ⟨a, b, hcs1, ha, hlen1⟩ := idxOf_some hf
        by_cases h1 : e + 1 = cs.length
        · rw [if_pos h1] at h; cases h
        · rw [if_neg h1] at h
          by_cases h2 : e + 1 = i
          · rw [if_pos h2] at h
            by_cases h3 : (idxOf '[' (cs.drop 1)).isSome = true
            · rw [if_pos h3] at h; cases h
            · rw [if_neg h3] at h
              by_cases h4 : (idxOf ']' (cs.drop (e + 1))).isSome = true
              · rw [if_pos h4] at h; cases h
              · rw [if_neg h4] at h
                have hal := split_align hcs1 hcs2 (by omega)
                -- a = '[' :: host'
                cases a with
                | nil =>
                  rw [hcs1] at hhead; simp at hhead
                | cons x host' =>
                  have hx : x = '[' := by rw [hcs1] at hhead; simpa using hhead
                  subst hx
                  have hb : b = ':' :: b' := hal.2
                  subst hb
                  have hd1 : cs.drop 1 = host' ++ ']' :: ':' :: b' := by rw [hcs1]; simp
                  have hd2 : cs.drop (e + 1) = ':' :: b' := by
                    rw [hcs1]
                    have : ('[' :: host' ++ ']' :: ':' :: b') = ('[' :: host' ++ [']']) ++ (':' :: b') := by simp
                    rw [this]
                    have hl' : ('[' :: host' ++ [']']).length = e + 1 := by simp at hlen1 ⊢; omega
                    rw [← hl', List.drop_left]
                  have ht : (cs.take e).drop 1 = host' := by
                    rw [hcs1]
                    have : ('[' :: host' ++ ']' :: ':' :: b') = ('[' :: host') ++ (']' :: ':' :: b') := by simp
                    rw [this, ← hlen1, List.take_left]
                    simp
                  have hd3 : cs.drop (i + 1) = b' := by
                    rw [hcs2]
                    have : a' ++ ':' :: b' = (a' ++ [':']) ++ b' := by simp
                    rw [this]
                    have hl' : (a' ++ [':']).length = i + 1 := by simp [hlen2]
                    rw [← hl', List.drop_left]
                  rw [ht, hd3] at h
                  simp only [Except.ok.injEq, Prod.mk.injEq] at h
                  obtain ⟨hh, hp⟩ := h
                  subst hh; subst hp
                  rw [hd1] at h3
                  rw [hd2] at h4
                  have n3 : '[' ∉ host' ++ ']' :: ':' :: b' := by
                    intro hm; exact h3 (idxOf_isSome.mpr hm)
                  have n4 : ']' ∉ ':' :: b' := by
                    intro hm; exact h4 (idxOf_isSome.mpr hm)
                  right
                  refine ⟨by simpa using hcs1, ?_, ?_, hb', ?_, ?_⟩
                  · intro hm; exact ha (List.mem_cons_of_mem _ hm)
                  · intro hm; exact n3 (by simp [hm])
                  · intro hm; exact n3 (by simp [hm])
                  · intro hm; exact n4 (by simp [hm])
          · rw [if_neg h2] at h
            split at h <;> cases h
    · rw [if_neg hhead] at h
      by_cases h1 : (idxOf ':' (cs.take i)).isSome = true
      · rw [if_pos h1] at h; cases h
      · rw [if_neg h1] at h
        by_cases h2 : (idxOf '[' cs).isSome = true
        · rw [if_pos h2] at h; cases h
        · rw [if_neg h2] at h
          by_cases h3 : (idxOf ']' cs).isSome = true
          · rw [if_pos h3] at h; cases h
          · rw [if_neg h3] at h
            have ht : cs.take i = a' := by rw [hcs2, ← hlen2, List.take_left]
            have hd : cs.drop (i + 1) = b' := by
              rw [hcs2]
              have : a' ++ ':' :: b' = (a' ++ [':']) ++ b' := by simp
              rw [this]
              have hl' : (a' ++ [':']).length = i + 1 := by simp [hlen2]
              rw [← hl', List.drop_left]
            rw [ht, hd] at h
            simp only [Except.ok.injEq, Prod.mk.injEq] at h
            obtain ⟨hh, hp⟩ := h
            subst hh; subst hp
            rw [ht] at h1
            left
            exact ⟨hcs2, fun hm => h1 (idxOf_isSome.mpr hm), hb',
              fun hm => h2 (idxOf_isSome.mpr hm), fun hm => h3 (idxOf_isSome.mpr hm)⟩

theorem splitHostPort_spec (cs host port : List Char) :
    splitHostPort cs = .ok (host, port) ↔ SplitsAs cs host port :=
  ⟨splitHostPort_sound, splitHostPort_complete⟩

/-- the port part of a split address never contains a colon or a bracket -/
theorem SplitsAs.port_clean {cs host port : List Char} (h : SplitsAs cs host port) :
    ':' ∉ port ∧ '[' ∉ port ∧ ']' ∉ port := by
  rcases h with ⟨hcs, _, hp, hob, hcb⟩ | ⟨_, _, _, hp, hpo, hpc⟩
  · refine ⟨hp, ?_, ?_⟩
    · intro hm; exact hob (by rw [hcs]; simp [hm])
    · intro hm; exact hcb (by rw [hcs]; simp [hm])
  · exact ⟨hp, hpo, hpc⟩

/-- JoinHostPort puts brackets exactly when the host has a colon, and the result splits back -/
theorem join_splits {host port : List Char} (hob : '[' ∉ host) (hcb : ']' ∉ host)
    (hp : ':' ∉ port ∧ '[' ∉ port ∧ ']' ∉ port) :
    SplitsAs (joinHostPort host port) host port := by
  unfold joinHostPort
  split
  · right; exact ⟨by simp, hcb, hob, hp.1, hp.2.1, hp.2.2⟩
  · rename_i hc
    have hc' : ':' ∉ host := fun hm => hc (idxOf_isSome.mpr hm)
    left
    refine ⟨rfl, hc', hp.1, ?_, ?_⟩
    · intro hm
      simp only [List.mem_append, List.mem_cons] at hm
      rcases hm with e | e | e
      · exact hob e
      · cases e
      · exact hp.2.1 e
    · intro hm
      simp only [List.mem_append, List.mem_cons] at hm
      rcases hm with e | e | e
      · exact hcb e
      · cases e
      · exact hp.2.2 e

/-! ### ResolveUDPHopAddr -/

theorem resolve_ok_iff (R : List Char → Option IP) (cs : List Char) (a : HopAddr) :
    resolveUDPHopAddr R cs = .ok a ↔
      ∃ host port ip u, SplitsAs cs host port ∧ R host = some ip ∧
        PortUnion.parseChars port = some u ∧ a = ⟨ip, PortUnion.ports u, port⟩ := by
  unfold resolveUDPHopAddr
  constructor
  · intro h
    cases hs : splitHostPort cs with
    | error e => rw [hs] at h; cases h
    | ok hp =>
      obtain ⟨host, port⟩ := hp
      rw [hs] at h
      simp only at h
      cases hr : R host with
      | none => rw [hr] at h; cases h
      | some ip =>
        rw [hr] at h
        simp only at h
        cases hu : PortUnion.parseChars port with
        | none => rw [hu] at h; cases h
        | some u =>
          rw [hu] at h
          simp only [Except.ok.injEq] at h
          exact ⟨host, port, ip, u, splitHostPort_sound hs, hr, hu, h.symm⟩
  · rintro ⟨host, port, ip, u, hs, hr, hu, ha⟩
    rw [splitHostPort_complete hs]
    simp only [hr, hu, ha]

end Hy.HopAddr
