/-
  Helper lemmas for the send paths of C05 (Hy.Model.AutoFrag).
-/
import Hy.Proofs.Frag
import Hy.Model.AutoFrag
set_option linter.unusedSimpArgs false
set_option linter.unusedVariables false
namespace Hy.Frag
open Hy Hy.Varint Hy.Res

theorem pktIDOfDraw_val (draw : Nat) (h : draw < 65535) : (pktIDOfDraw draw).val = draw + 1 := by
  simp only [pktIDOfDraw, u16]; omega

theorem delivered_append (a b : List Handed) : delivered (a ++ b) = delivered a ++ delivered b := by
  simp [delivered]

theorem delivered_nil : delivered [] = [] := rfl

/-- SendMessage on a message that fits the buffer -/
theorem ioSend_fit (logger : Bool) (bufLen : Nat) (f : UDPMessage) (e : Env1) (h : size f ≤ bufLen) :
    ioSend logger bufLen f e =
      if logger ∧ e.logOk = false then ([], some .disconnect)
      else ([⟨serialize f, e.resp⟩], errOfResp e.resp) := by
  unfold ioSend serializeInto
  have : ¬ bufLen < size f := by omega
  by_cases hl : logger ∧ e.logOk = false
  · simp only [hl, and_self, ↓reduceIte]
  · simp only [hl, this, ↓reduceIte]

/-- SendMessage on a message larger than the buffer: nothing reaches SendDatagram -/
theorem ioSend_big (logger : Bool) (bufLen : Nat) (f : UDPMessage) (e : Env1) (h : bufLen < size f) :
    ioSend logger bufLen f e =
      if logger ∧ e.logOk = false then ([], some .disconnect) else ([], none) := by
  unfold ioSend serializeInto
  by_cases hl : logger ∧ e.logOk = false
  · simp only [hl, and_self, ↓reduceIte]
  · simp only [hl, h, ↓reduceIte]

/-- The fragment loop: what was handed to SendDatagram is the serialization of a prefix of the
    fragments, what left is a (shorter or equal) prefix, and no error is returned exactly when
    every fragment left. -/
theorem sendFrags_spec (logger : Bool) (bufLen : Nat) (env : Nat → Env1) (fs : List UDPMessage)
    (hfit : ∀ f ∈ fs, size f ≤ bufLen) (i : Nat) :
    ∃ j k, j ≤ k ∧ k ≤ j + 1 ∧ k ≤ fs.length ∧
      (sendFrags logger bufLen env i fs).1.map (·.bytes) = (fs.take k).map serialize ∧
      delivered (sendFrags logger bufLen env i fs).1 = (fs.take j).map serialize ∧
      ((sendFrags logger bufLen env i fs).2 = none ↔ j = fs.length) := by
  induction fs generalizing i with
  | nil => exact ⟨0, 0, by omega, by omega, by simp, by simp [sendFrags], by simp [sendFrags, delivered], by simp [sendFrags]⟩
  | cons f fs ih =>
    obtain ⟨j, k, hjk, hkj, hk, h1, h2, h3⟩ := ih (fun g hg => hfit g (by simp [hg])) (i + 1)
    rw [sendFrags, ioSend_fit _ _ _ _ (hfit f (by simp))]
    by_cases hl : logger ∧ (env i).logOk = false
    · rw [if_pos hl]
      exact ⟨0, 0, by omega, by omega, by simp, by simp, by simp [delivered], by simp⟩
    · rw [if_neg hl]
      cases hr : (env i).resp with
      | ok =>
        simp only [errOfResp]
        refine ⟨j + 1, k + 1, by omega, by omega, by simp only [List.length_cons]; omega, ?_, ?_, ?_⟩
        · simp only [List.map_append, List.map_cons, List.map_nil, List.take_succ_cons, h1, List.singleton_append]
        · rw [delivered_append, h2]
          simp [delivered]
        · simp only [List.length_cons]; rw [h3]; omega
      | tooLarge L =>
        simp only [errOfResp]
        exact ⟨0, 1, by omega, by omega, by simp, by simp, by simp [delivered], by simp⟩
      | fail =>
        simp only [errOfResp]
        exact ⟨0, 1, by omega, by omega, by simp, by simp, by simp [delivered], by simp⟩

/-- every datagram handed over in the fragment loop is one of the fragments, serialized -/
theorem sendFrags_mem (logger : Bool) (bufLen : Nat) (env : Nat → Env1) (fs : List UDPMessage)
    (hfit : ∀ f ∈ fs, size f ≤ bufLen) (i : Nat) :
    ∀ h ∈ (sendFrags logger bufLen env i fs).1, ∃ f ∈ fs, h.bytes = serialize f := by
  obtain ⟨j, k, _, _, _, h1, _, _⟩ := sendFrags_spec logger bufLen env fs hfit i
  intro h hh
  have : h.bytes ∈ (sendFrags logger bufLen env i fs).1.map (·.bytes) := List.mem_map_of_mem hh
  rw [h1] at this
  obtain ⟨f, hf, e⟩ := List.mem_map.mp this
  exact ⟨f, List.mem_of_mem_take hf, e.symm⟩

/-- when every call succeeds the whole set leaves, in order -/
theorem sendFrags_all_ok (logger : Bool) (bufLen : Nat) (env : Nat → Env1) (fs : List UDPMessage)
    (hfit : ∀ f ∈ fs, size f ≤ bufLen) (i : Nat)
    (hok : ∀ n, i ≤ n → (env n).resp = .ok ∧ (logger = true → (env n).logOk = true)) :
    sendFrags logger bufLen env i fs = (fs.map (fun f => ⟨serialize f, .ok⟩), none) := by
  induction fs generalizing i with
  | nil => rfl
  | cons f fs ih =>
    have := ih (fun g hg => hfit g (by simp [hg])) (i + 1) (fun n hn => hok n (by omega))
    rw [sendFrags, ioSend_fit _ _ _ _ (hfit f (by simp)), this]
    have h0 := hok i (by omega)
    rw [if_neg (by intro ⟨h1, h2⟩; rw [h0.2 h1] at h2; exact absurd h2 (by decide)), h0.1]
    simp [errOfResp]

/-- closed form of the send path -/
theorem autoFrag_spec (logger : Bool) (bufLen : Nat) (m : UDPMessage) (draw : Nat) (env : Nat → Env1) :
    autoFrag logger bufLen m draw env =
      if logger ∧ (env 0).logOk = false then .ok ([], some .disconnect)
      else if bufLen < size m then .ok ([], none)
      else match (env 0).resp with
        | .ok => .ok ([⟨serialize m, .ok⟩], none)
        | .fail => .ok ([⟨serialize m, .fail⟩], some .other)
        | .tooLarge L =>
          (fragUDP { m with packetID := pktIDOfDraw draw } L).bind fun fs =>
            .ok (⟨serialize m, .tooLarge L⟩ :: (sendFrags logger bufLen env 1 fs).1,
                 (sendFrags logger bufLen env 1 fs).2) := by
  unfold autoFrag
  by_cases hl : logger ∧ (env 0).logOk = false
  · rw [if_pos hl]
    by_cases hb : bufLen < size m
    · rw [ioSend_big _ _ _ _ hb, if_pos hl]
    · rw [ioSend_fit _ _ _ _ (by omega), if_pos hl]
  · rw [if_neg hl]
    by_cases hb : bufLen < size m
    · rw [ioSend_big _ _ _ _ hb, if_neg hl, if_pos hb]
    · rw [ioSend_fit _ _ _ _ (by omega), if_neg hl, if_neg hb]
      cases hr : (env 0).resp with
      | ok => simp only [errOfResp]
      | fail => simp only [errOfResp]
      | tooLarge L => simp only [errOfResp, List.singleton_append]

/-- fragments are never larger than the message they were cut from -/
theorem frag_size_le (m : UDPMessage) (L : Int) (fs : List UDPMessage) (h : fragUDP m L = .ok fs) :
    ∀ f ∈ fs, size f ≤ size m := by
  rw [fragUDP_spec] at h
  simp only [ok.injEq] at h
  intro f hf
  split at h
  · subst h; simp only [List.mem_singleton] at hf; subst hf; omega
  · split at h
    · subst h; simp at hf
    · split at h
      · subst h; simp at hf
      · subst h
        obtain ⟨i, c, hc, rfl⟩ := mkFrags_mem _ _ _ _ _ hf
        rename_i hpos _
        have hm : 0 < (L - (headerSize m : Int)).toNat := by omega
        have hmem := List.mem_of_getElem? hc
        -- a chunk is a piece of the payload
        have hflat := chunks_flatten _ hm m.data
        have : c.length ≤ m.data.length := by
          rw [← hflat]
          exact (List.sublist_flatten_of_mem hmem).length_le
        show headerSize m + c.length ≤ headerSize m + m.data.length
        omega

/-! ### the receive side -/

/-- datagrams that are serializations of well-formed messages from `F` parse back to those messages -/
theorem recvAll_serialized (F : List UDPMessage) (hF : ∀ f ∈ F, 1 ≤ f.addr.length ∧ f.addr.length ≤ 2048 ∧ 1 ≤ f.data.length)
    (σ : List Bytes) (hσ : ∀ b ∈ σ, ∃ f ∈ F, b = serialize f) :
    (∀ x ∈ recvAll σ, x ∈ F) ∧ (∀ f ∈ F, serialize f ∈ σ → f ∈ recvAll σ) := by
  have hmax : Gen.MaxMessageLength = 2048 := by decide
  have hp : ∀ f ∈ F, parseUDPMessage (serialize f) = .ok f := fun f hf =>
    parse_serialize f (hF f hf).1 (by rw [hmax]; exact (hF f hf).2.1) (hF f hf).2.2
  constructor
  · intro x hx
    simp only [recvAll, List.mem_filterMap] at hx
    obtain ⟨b, hb, hx⟩ := hx
    obtain ⟨f, hf, rfl⟩ := hσ b hb
    rw [hp f hf] at hx
    simp only [Option.some.injEq] at hx
    exact hx ▸ hf
  · intro f hf hs
    simp only [recvAll, List.mem_filterMap]
    exact ⟨serialize f, hs, by rw [hp f hf]⟩

/-! ### sessions -/

theorem pktIDOfDraw_inj (a b : Nat) (ha : a < 65535) (hb : b < 65535) (h : pktIDOfDraw a = pktIDOfDraw b) : a = b := by
  have h1 := pktIDOfDraw_val a ha
  have h2 := pktIDOfDraw_val b hb
  rw [h] at h1; omega

theorem pairwise_draw_eq (ps : List Pkt) (hd : ps.Pairwise (fun p q => p.draw ≠ q.draw))
    (p q : Pkt) (hp : p ∈ ps) (hq : q ∈ ps) (e : p.draw = q.draw) : p = q := by
  induction ps with
  | nil => simp at hp
  | cons x xs ih =>
    rw [List.pairwise_cons] at hd
    simp only [List.mem_cons] at hp hq
    rcases hp with rfl | hp <;> rcases hq with rfl | hq
    · rfl
    · exact absurd e (hd.1 q hq)
    · exact absurd e.symm (hd.1 p hp)
    · exact ih hd.2 hp hq

/-- every result of a session is the result of sending ONE of its packets on its own, and the
    i-th result belongs to the i-th packet -/
theorem sessionSend_get (logger stop : Bool) (bufLen : Nat) (ps : List Pkt)
    (rs : List (List Handed × Option SendErr)) (h : sessionSend logger stop bufLen ps = .ok rs) :
    rs.length ≤ ps.length ∧
    ∀ (i : Nat) (r : List Handed × Option SendErr), rs[i]? = some r → ∃ p : Pkt, ps[i]? = some p ∧ autoFrag logger bufLen p.m p.draw p.env = .ok r := by
  induction ps generalizing rs with
  | nil =>
    simp only [sessionSend, ok.injEq] at h; subst h
    exact ⟨by simp, by intro i r hr; simp at hr⟩
  | cons p ps ih =>
    rw [sessionSend] at h
    obtain ⟨r0, h0, h⟩ := bind_eq_ok h
    split at h
    · simp only [ok.injEq] at h; subst h
      refine ⟨by simp, ?_⟩
      intro i r hr
      cases i with
      | zero => simp only [List.getElem?_cons_zero, Option.some.injEq] at hr; subst hr; exact ⟨p, by simp, h0⟩
      | succ i => simp at hr
    · obtain ⟨rs', h1, h⟩ := bind_eq_ok h
      simp only [ok.injEq] at h; subst h
      obtain ⟨hl, hg⟩ := ih rs' h1
      refine ⟨by simp only [List.length_cons]; omega, ?_⟩
      intro i r hr
      cases i with
      | zero => simp only [List.getElem?_cons_zero, Option.some.injEq] at hr; subst hr; exact ⟨p, by simp, h0⟩
      | succ i =>
        simp only [List.getElem?_cons_succ] at hr ⊢
        exact hg i r hr

theorem sessionSend_mem (logger stop : Bool) (bufLen : Nat) (ps : List Pkt)
    (rs : List (List Handed × Option SendErr)) (h : sessionSend logger stop bufLen ps = .ok rs)
    (r : List Handed × Option SendErr) (hr : r ∈ rs) :
    ∃ p ∈ ps, autoFrag logger bufLen p.m p.draw p.env = .ok r := by
  obtain ⟨i, hi, e⟩ := List.getElem_of_mem hr
  obtain ⟨p, hp, ha⟩ := (sessionSend_get logger stop bufLen ps rs h).2 i r (by rw [List.getElem?_eq_getElem hi, e])
  exact ⟨p, List.mem_of_getElem? hp, ha⟩

theorem sessionSend_noPanic (logger stop : Bool) (bufLen : Nat) (ps : List Pkt) :
    NoPanic (sessionSend logger stop bufLen ps) := by
  induction ps with
  | nil => simp [sessionSend]
  | cons p ps ih =>
    rw [sessionSend]
    refine noPanic_bind _ _ ?_ fun r _ => ?_
    · rw [autoFrag_spec]
      split
      · simp
      · split
        · simp
        · split
          · simp
          · simp
          · rw [fragUDP_spec]; simp
    · split
      · simp
      · exact noPanic_bind _ _ ih fun _ _ => by simp

/-- the fragment set a packet is cut into (when the transport refuses it whole and the splitter
    produces at least two fragments) -/
def fragSetOf (p : Pkt) : Option (UDPMessage × List UDPMessage) :=
  match (p.env 0).resp with
  | .tooLarge L =>
    match fragUDP p.withID L with
    | .ok fs => if 2 ≤ fs.length then some (p.withID, fs) else none
    | _ => none
  | _ => none

theorem fragSetOf_isFragSet (p : Pkt) (a : UDPMessage × List UDPMessage) (h : fragSetOf p = some a) :
    a.1 = p.withID ∧ IsFragSet a.1 a.2 := by
  unfold fragSetOf at h
  split at h
  · rename_i L hr
    split at h
    · rename_i fs hfs
      split at h
      · rename_i h2
        simp only [Option.some.injEq] at h; subst h
        rcases fragUDP_outcome _ L fs hfs with rfl | ⟨rfl, _⟩ | ⟨hS, _, _⟩
        · simp at h2
        · simp at h2
        · exact ⟨rfl, hS⟩
      · simp at h
    · simp at h
  · simp at h

/-- every datagram of a send that left is the serialization of the whole message (with packet id
    0 or the drawn one) or of a member of the packet's fragment set -/
theorem autoFrag_delivered_cases (logger : Bool) (bufLen : Nat) (p : Pkt)
    (r : List Handed × Option SendErr) (h : autoFrag logger bufLen p.m p.draw p.env = .ok r)
    (b : Bytes) (hb : b ∈ delivered r.1) :
    b = serialize p.m ∨ b = serialize p.withID ∨
      ∃ a, fragSetOf p = some a ∧ ∃ f ∈ a.2, b = serialize f := by
  rw [autoFrag_spec] at h
  split at h
  · simp only [ok.injEq] at h; subst h; simp [delivered] at hb
  · split at h
    · simp only [ok.injEq] at h; subst h; simp [delivered] at hb
    · rename_i hlog hbuf
      split at h
      · simp only [ok.injEq] at h; subst h
        simp [delivered] at hb; exact Or.inl hb
      · simp only [ok.injEq] at h; subst h; simp [delivered] at hb
      · rename_i L hr
        obtain ⟨fs, hfs, h⟩ := bind_eq_ok h
        simp only [ok.injEq] at h; subst h
        have hfs' : fragUDP p.withID L = .ok fs := hfs
        have hsz : size p.withID = size p.m := rfl
        have hfit : ∀ f ∈ fs, size f ≤ bufLen := fun f hf => by
          have := frag_size_le _ L fs hfs' f hf; rw [hsz] at this; omega
        have hb' : b ∈ delivered (sendFrags logger bufLen p.env 1 fs).1 := by
          simpa [delivered] using hb
        obtain ⟨j, k, _, _, _, _, s2, _⟩ := sendFrags_spec logger bufLen p.env fs hfit 1
        rw [s2] at hb'
        obtain ⟨f, hf, e⟩ := List.mem_map.mp hb'
        have hf := List.mem_of_mem_take hf
        rcases fragUDP_outcome _ L fs hfs' with rfl | ⟨rfl, _⟩ | ⟨hS, _, _⟩
        · simp at hf
        · simp only [List.mem_singleton] at hf; subst hf; exact Or.inr (Or.inl e.symm)
        · right; right
          refine ⟨(p.withID, fs), ?_, f, hf, e.symm⟩
          unfold fragSetOf
          simp only [hr, hfs']
          rw [if_pos hS.two]

end Hy.Frag
