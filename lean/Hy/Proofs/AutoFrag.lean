/-
  Helper lemmas for the send paths of C05 (Hy.Model.AutoFrag).
-/
import Hy.Proofs.Frag
import Hy.Model.AutoFrag
set_option linter.unusedSimpArgs false
set_option linter.unusedVariables false
namespace Hy.Frag
open Hy Hy.Varint Hy.Res

theorem pktIDOfDraw_val (draw : Nat) (h : draw < 65535) : (pktIDOfDraw draw).val = draw + 1 := by
  simp only [pktIDOfDraw, u16]; omega

theorem delivered_append (a b : List Handed) : delivered (a ++ b) = delivered a ++ delivered b := by
  simp [delivered]

theorem delivered_nil : delivered [] = [] := rfl

/-- SendMessage on a message that fits the buffer -/
theorem ioSend_fit (logger : Bool) (bufLen : Nat) (f : UDPMessage) (e : Env1) (h : size f ≤ bufLen) :
    ioSend logger bufLen f e =
      if logger ∧ e.logOk = false then ([], some .disconnect)
      else ([⟨serialize f, e.resp⟩], errOfResp e.resp) := by
  unfold ioSend serializeInto
  have : ¬ bufLen < size f := by omega
  by_cases hl : logger ∧ e.logOk = false
  · simp only [hl, and_self, ↓reduceIte]
  · simp only [hl, this, ↓reduceIte]

/-- SendMessage on a message larger than the buffer: nothing reaches SendDatagram -/
theorem ioSend_big (logger : Bool) (bufLen : Nat) (f : UDPMessage) (e : Env1) (h : bufLen < size f) :
    ioSend logger bufLen f e =
      if logger ∧ e.logOk = false then ([], some .disconnect) else ([], none) := by
  unfold ioSend serializeInto
  by_cases hl : logger ∧ e.logOk = false
  · simp only [hl, and_self, ↓reduceIte]
  · simp only [hl, h, ↓reduceIte]

/-- The fragment loop: what was handed to SendDatagram is the serialization of a prefix of the
    fragments, what left is a (shorter or equal) prefix, and no error is returned exactly when
    every fragment left. -/
theorem sendFrags_spec (logger : Bool) (bufLen : Nat) (env : Nat → Env1) (fs : List UDPMessage)
    (hfit : ∀ f ∈ fs, size f ≤ bufLen) (i : Nat) :
    ∃ j k, j ≤ k ∧ k ≤ j + 1 ∧ k ≤ fs.length ∧
      (sendFrags logger bufLen env i fs).1.map (·.bytes) = (fs.take k).map serialize ∧
      delivered (sendFrags logger bufLen env i fs).1 = (fs.take j).map serialize ∧
      ((sendFrags logger bufLen env i fs).2 = none ↔ j = fs.length) := by
  induction fs generalizing i with
  | nil => exact ⟨0, 0, by omega, by omega, by simp, by simp [sendFrags], by simp [sendFrags, delivered], by simp [sendFrags]⟩
  | cons f fs ih =>
    obtain ⟨j, k, hjk, hkj, hk, h1, h2, h3⟩ := ih (fun g hg => hfit g (by simp [hg])) (i + 1)
    rw [sendFrags, ioSend_fit _ _ _ _ (hfit f (by simp))]
    by_cases hl : logger ∧ (env i).logOk = false
    · rw [if_pos hl]
      exact ⟨0, 0, by omega, by omega, by simp, by simp, by simp [delivered], by simp⟩
    · rw [if_neg hl]
      cases hr : (env i).resp with
      | ok =>
        simp only [errOfResp]
        refine ⟨j + 1, k + 1, by omega, by omega, by simp only [List.length_cons]; omega, ?_, ?_, ?_⟩
        · simp only [List.map_append, List.map_cons, List.map_nil, List.take_succ_cons, h1, List.singleton_append]
        · rw [delivered_append, h2]
          simp [delivered]
        · simp only [List.length_cons]; rw [h3]; omega
      | tooLarge L =>
        simp only [errOfResp]
        exact ⟨0, 1, by omega, by omega, by simp, by simp, by simp [delivered], by simp⟩
      | fail =>
        simp only [errOfResp]
        exact ⟨0, 1, by omega, by omega, by simp, by simp, by simp [delivered], by simp⟩

/-- every datagram handed over in the fragment loop is one of the fragments, serialized -/
theorem sendFrags_mem (logger : Bool) (bufLen : Nat) (env : Nat → Env1) (fs : List UDPMessage)
    (hfit : ∀ f ∈ fs, size f ≤ bufLen) (i : Nat) :
    ∀ h ∈ (sendFrags logger bufLen env i fs).1, ∃ f ∈ fs, h.bytes = serialize f := by
  obtain ⟨j, k, _, _, _, h1, _, _⟩ := sendFrags_spec logger bufLen env fs hfit i
  intro h hh
  have : h.bytes ∈ (sendFrags logger bufLen env i fs).1.map (·.bytes) := List.mem_map_of_mem hh
  rw [h1] at this
  obtain ⟨f, hf, e⟩ := List.mem_map.mp this
  exact ⟨f, List.mem_of_mem_take hf, e.symm⟩

/-- when every call succeeds the whole set leaves, in order -/
theorem sendFrags_all_ok (logger : Bool) (bufLen : Nat) (env : Nat → Env1) (fs : List UDPMessage)
    (hfit : ∀ f ∈ fs, size f ≤ bufLen) (i : Nat)
    (hok : ∀ n, i ≤ n → (env n).resp = .ok ∧ (logger = true → (env n).logOk = true)) :
    sendFrags logger bufLen env i fs = (fs.map (fun f => ⟨serialize f, .ok⟩), none) := by
  induction fs generalizing i with
  | nil => rfl
  | cons f fs ih =>
    have := ih (fun g hg => hfit g (by simp [hg])) (i + 1) (fun n hn => hok n (by omega))
    rw [sendFrags, ioSend_fit _ _ _ _ (hfit f (by simp)), this]
    have h0 := hok i (by omega)
    rw [if_neg (by intro ⟨h1, h2⟩; rw [h0.2 h1] at h2; exact absurd h2 (by decide)), h0.1]
    simp [errOfResp]

/-- closed form of the send path -/
theorem autoFrag_spec (logger : Bool) (bufLen : Nat) (m : UDPMessage) (draw : Nat) (env : Nat → Env1) :
    autoFrag logger bufLen m draw env =
      if logger ∧ (env 0).logOk = false then .ok ([], some .disconnect)
      else if bufLen < size m then .ok ([], none)
      else match (env 0).resp with
        | .ok => .ok ([⟨serialize m, .ok⟩], none)
        | .fail => .ok ([⟨serialize m, .fail⟩], some .other)
        | .tooLarge L =>
          (fragUDP { m with packetID := pktIDOfDraw draw } L).bind fun fs =>
            .ok (⟨serialize m, .tooLarge L⟩ :: (sendFrags logger bufLen env 1 fs).1,
                 (sendFrags logger bufLen env 1 fs).2) := by
  unfold autoFrag
  by_cases hl : logger ∧ (env 0).logOk = false
  · rw [if_pos hl]
    by_cases hb : bufLen < size m
    · rw [ioSend_big _ _ _ _ hb, if_pos hl]
    · rw [ioSend_fit _ _ _ _ (by omega), if_pos hl]
  · rw [if_neg hl]
    by_cases hb : bufLen < size m
    · rw [ioSend_big _ _ _ _ hb, if_neg hl, if_pos hb]
    · rw [ioSend_fit _ _ _ _ (by omega), if_neg hl, if_neg hb]
      cases hr : (env 0).resp with
      | ok => simp only [errOfResp]
      | fail => simp only [errOfResp]
      | tooLarge L => simp only [errOfResp, List.singleton_append]

/-- fragments are never larger than the message they were cut from -/
theorem frag_size_le (m : UDPMessage) (L : Int) (fs : List UDPMessage) (h : fragUDP m L = .ok fs) :
    ∀ f ∈ fs, size f ≤ size m := by
  rw [fragUDP_spec] at h
  simp only [ok.injEq] at h
  intro f hf
  split at h
  · subst h; simp only [List.mem_singleton] at hf; subst hf; omega
  · split at h
    · subst h; simp at hf
    · split at h
      · subst h; simp at hf
      · subst h
        obtain ⟨i, c, hc, rfl⟩ := mkFrags_mem _ _ _ _ _ hf
        rename_i hpos _
        have hm : 0 < (L - (headerSize m : Int)).toNat := by omega
        have hmem := List.mem_of_getElem? hc
        -- a chunk is a piece of the payload
        have hflat := chunks_flatten _ hm m.data
        have : c.length ≤ m.data.length := by
          rw [← hflat]
          exact (List.sublist_flatten_of_mem hmem).length_le
        show headerSize m + c.length ≤ headerSize m + m.data.length
        omega

/-! ### the receive side -/

/-- datagrams that are serializations of well-formed messages from `F` parse back to those messages -/
theorem recvAll_serialized (F : List UDPMessage) (hF : ∀ f ∈ F, 1 ≤ f.addr.length ∧ f.addr.length ≤ 2048 ∧ 1 ≤ f.data.length)
    (σ : List Bytes) (hσ : ∀ b ∈ σ, ∃ f ∈ F, b = serialize f) :
    (∀ x ∈ recvAll σ, x ∈ F) ∧ (∀ f ∈ F, serialize f ∈ σ → f ∈ recvAll σ) := by
  have hmax : Gen.MaxMessageLength = 2048 := by decide
  have hp : ∀ f ∈ F, parseUDPMessage (serialize f) = .ok f := fun f hf =>
    parse_serialize f (hF f hf).1 (by rw [hmax]; exact (hF f hf).2.1) (hF f hf).2.2
  constructor
  · intro x hx
    simp only [recvAll, List.mem_filterMap] at hx
    obtain ⟨b, hb, hx⟩ := hx
    obtain ⟨f, hf, rfl⟩ := hσ b hb
    rw [hp f hf] at hx
    simp only [Option.some.injEq] at hx
    exact hx ▸ hf
  · intro f hf hs
    simp only [recvAll, List.mem_filterMap]
    exact ⟨serialize f, hs, by rw [hp f hf]⟩

end Hy.Frag
