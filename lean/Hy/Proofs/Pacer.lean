/-
  Lemmas about Hy.Model.Pacer (C11).  Core Lean only.

  1. under explicit range hypotheses the int64/uint64 wrap-arounds of the model are the
     identity, and Budget / maxBurstSize / TimeUntilSend take their mathematical form;
  2. the announced wake-up time yields a full datagram of budget (ceil division);
  3. token-bucket conservation and the window bound for gated send sequences.
-/
import Hy.Model.Pacer
namespace Hy.Pacer
open Hy

/-! ### wrap-arounds are the identity in range -/

theorem wrap64_id {x : Int} (h1 : -9223372036854775808 ≤ x) (h2 : x < 9223372036854775808) :
    wrap64 x = x := by
  unfold wrap64; omega

theorem wrapU64_id {x : Int} (h1 : 0 ≤ x) (h2 : x < 18446744073709551616) : wrapU64 x = x := by
  unfold wrapU64; omega

theorem burstNs_eq : burstNs = 4000000 := by decide
theorem burstPackets_eq : ((Gen.maxBurstPackets : Nat) : Int) = 10 := by decide
theorem minPacing_eq : ((Gen.MinPacingDelayNs : Nat) : Int) = 1000000 := by decide

/-- the state is within the range in which no int64 operation of the pacer wraps -/
structure Ok (p : Pacer) : Prop where
  b0 : 0 ≤ p.budgetAtLastSent
  bhi : p.budgetAtLastSent ≤ 4611686018427387904          -- 2^62
  m0 : 0 < p.maxDatagramSize
  mhi : p.maxDatagramSize ≤ 4294967296                     -- 2^32
  l0 : 0 ≤ p.lastSentTime
  lhi : p.lastSentTime < 4611686018427387904               -- 2^62

/-- bandwidth values: positive and at most 2^40 B/s (8.8 Tbit/s) -/
def BwOk (bw : Int) : Prop := 0 < bw ∧ bw ≤ 1099511627776

/-- the mathematical burst allowance: max(4 ms · bw, 10 datagrams) -/
def burst (bw mds : Int) : Int := max (4000000 * bw / 1000000000) (10 * mds)

theorem maxBurstSize_inrange {p : Pacer} {bw : Int} (hp : Ok p) (h0 : 0 ≤ bw)
    (hbw : bw ≤ 1099511627776) : maxBurstSize p bw = burst bw p.maxDatagramSize := by
  have := hp.m0; have := hp.mhi
  unfold maxBurstSize burst
  rw [burstNs_eq, burstPackets_eq]
  rw [wrap64_id (by omega) (by omega), wrap64_id (by omega) (by omega)]
  rw [Int.tdiv_eq_ediv_of_nonneg (by omega)]

theorem burst_ge (bw mds : Int) : 10 * mds ≤ burst bw mds := by unfold burst; omega

theorem burst_mono {bw bw' mds mds' : Int} (h1 : bw ≤ bw') (h2 : mds ≤ mds') :
    burst bw mds ≤ burst bw' mds' := by
  unfold burst; omega

/-- the mathematical budget once something has been sent -/
def accrued (p : Pacer) (bw now : Int) : Int :=
  p.budgetAtLastSent + bw * (now - p.lastSentTime) / 1000000000

/-- "rate × gap fits 63 bits": time does not run backwards, and once something has been sent
    (lastSentTime ≠ 0 — before that Budget does not look at the clock) the product of the
    bandwidth and the time since the last send is below 2^63 -/
def GapOk (p : Pacer) (bw now : Int) : Prop :=
  p.lastSentTime ≤ now ∧ now < 4611686018427387904 ∧
  (p.lastSentTime ≠ 0 → bw * (now - p.lastSentTime) < 9223372036854775808)

theorem budget_inrange {p : Pacer} {bw now : Int} (hp : Ok p) (h0 : 0 ≤ bw)
    (hbw : bw ≤ 1099511627776) (hg : GapOk p bw now) :
    budget p bw now =
      if p.lastSentTime = 0 then burst bw p.maxDatagramSize
      else min (burst bw p.maxDatagramSize) (accrued p bw now) := by
  obtain ⟨hle, hnow, hfit⟩ := hg
  have := hp.b0; have := hp.bhi; have := hp.l0; have := hp.lhi
  unfold budget accrued
  rw [maxBurstSize_inrange hp h0 hbw]
  split
  · rfl
  · rename_i hne
    have hfit := hfit hne
    have h1 : wrap64 (now - p.lastSentTime) = now - p.lastSentTime :=
      wrap64_id (by omega) (by omega)
    have hx : 0 ≤ bw * (now - p.lastSentTime) := Int.mul_nonneg h0 (by omega)
    have h2 : wrap64 (bw * (now - p.lastSentTime)) = bw * (now - p.lastSentTime) :=
      wrap64_id (by omega) hfit
    have h3 : Int.tdiv (bw * (now - p.lastSentTime)) 1000000000
        = bw * (now - p.lastSentTime) / 1000000000 := Int.tdiv_eq_ediv_of_nonneg hx
    simp only [h1, h2, h3]
    have h4 : wrap64 (p.budgetAtLastSent + bw * (now - p.lastSentTime) / 1000000000)
        = p.budgetAtLastSent + bw * (now - p.lastSentTime) / 1000000000 :=
      wrap64_id (by omega) (by omega)
    simp only [h4]
    rw [if_neg (by omega)]

theorem budget_nonneg {p : Pacer} {bw now : Int} (hp : Ok p) (h0 : 0 ≤ bw)
    (hbw : bw ≤ 1099511627776) (hg : GapOk p bw now) : 0 ≤ budget p bw now := by
  rw [budget_inrange hp h0 hbw hg]
  have := hp.b0; have := hp.m0
  have hb := burst_ge bw p.maxDatagramSize
  obtain ⟨hle, _, _⟩ := hg
  have hx : 0 ≤ bw * (now - p.lastSentTime) := Int.mul_nonneg h0 (by omega)
  unfold accrued
  split <;> omega

theorem budget_le_burst {p : Pacer} {bw now : Int} (hp : Ok p) (h0 : 0 ≤ bw)
    (hbw : bw ≤ 1099511627776) (hg : GapOk p bw now) :
    budget p bw now ≤ burst bw p.maxDatagramSize := by
  rw [budget_inrange hp h0 hbw hg]
  split <;> omega

/-! ### TimeUntilSend: the ceiling division and the wake-up guarantee -/

/-- ⌈a / b⌉ as computed by TimeUntilSend -/
def ceilDiv (a b : Int) : Int := a / b + (if a % b > 0 then 1 else 0)

theorem ceilDiv_mul_ge (a b : Int) (hb : 0 < b) : a ≤ ceilDiv a b * b := by
  unfold ceilDiv
  have h := Int.mul_ediv_add_emod a b
  have hm := Int.emod_lt_of_pos a hb
  have hn := Int.emod_nonneg a (by omega : b ≠ 0)
  have hc : b * (a / b) = a / b * b := Int.mul_comm _ _
  split
  · rw [Int.add_mul]; omega
  · rw [Int.add_zero]; omega

theorem ceilDiv_nonneg (a b : Int) (ha : 0 ≤ a) (hb : 0 < b) : 0 ≤ ceilDiv a b := by
  unfold ceilDiv
  have := Int.ediv_nonneg ha (by omega : 0 ≤ b)
  split <;> omega

theorem ceilDiv_le (a b : Int) (ha : 0 ≤ a) : ceilDiv a b ≤ a + 1 := by
  unfold ceilDiv
  have := Int.ediv_le_self b ha
  split <;> omega

/-- a smaller divisor gives a later (or equal) time -/
theorem ceilDiv_anti (a b b' : Int) (ha : 0 ≤ a) (hb : 0 < b) (hbb : b ≤ b') :
    ceilDiv a b' ≤ ceilDiv a b := by
  -- a ≤ ceilDiv a b * b ≤ ceilDiv a b * b'; and ceilDiv a b' is the least such multiplier
  have h1 := ceilDiv_mul_ge a b hb
  have hc := ceilDiv_nonneg a b ha hb
  have h2 : ceilDiv a b * b ≤ ceilDiv a b * b' := Int.mul_le_mul_of_nonneg_left hbb hc
  have hb' : 0 < b' := by omega
  -- suppose ceilDiv a b' > ceilDiv a b =: c; then (ceilDiv a b' - 1) * b' < a ≤ c * b'
  apply Int.not_lt.mp
  intro hlt
  have hlow : (ceilDiv a b' - 1) * b' < a := by
    unfold ceilDiv
    have h := Int.mul_ediv_add_emod a b'
    have hm := Int.emod_lt_of_pos a hb'
    have hn := Int.emod_nonneg a (by omega : b' ≠ 0)
    have hcm : b' * (a / b') = a / b' * b' := Int.mul_comm _ _
    split
    · have : a / b' + 1 - 1 = a / b' := by omega
      rw [this]; omega
    · rename_i hz
      have hz0 : a % b' = 0 := by omega
      have : (a / b' + 0 - 1) * b' = a / b' * b' - b' := by
        rw [Int.add_zero, Int.sub_mul, Int.one_mul]
      rw [this]; omega
  have hmono : ceilDiv a b * b' ≤ (ceilDiv a b' - 1) * b' :=
    Int.mul_le_mul_of_nonneg_right (by omega) (by omega)
  omega

/-- the mathematical deadline: lastSentTime + max(MinPacingDelay, ⌈10⁹·(mds − budget)/bw⌉) -/
def deadline (p : Pacer) (bw : Int) : Int :=
  p.lastSentTime +
    max 1000000 (ceilDiv (1000000000 * (p.maxDatagramSize - p.budgetAtLastSent)) bw)

theorem timeUntilSend_inrange {p : Pacer} {bw : Int} (hp : Ok p) (hbw : BwOk bw) :
    timeUntilSend p bw =
      if p.budgetAtLastSent ≥ p.maxDatagramSize then .ok 0 else .ok (deadline p bw) := by
  obtain ⟨hb0, hb1⟩ := hbw
  have := hp.b0; have := hp.bhi; have := hp.m0; have := hp.mhi; have := hp.l0; have := hp.lhi
  unfold timeUntilSend deadline
  split
  · rfl
  · rename_i hlt
    have e1 : wrap64 (p.maxDatagramSize - p.budgetAtLastSent)
        = p.maxDatagramSize - p.budgetAtLastSent := wrap64_id (by omega) (by omega)
    have e2 : wrapU64 (p.maxDatagramSize - p.budgetAtLastSent)
        = p.maxDatagramSize - p.budgetAtLastSent := wrapU64_id (by omega) (by omega)
    have e3 : wrapU64 (1000000000 * (p.maxDatagramSize - p.budgetAtLastSent))
        = 1000000000 * (p.maxDatagramSize - p.budgetAtLastSent) :=
      wrapU64_id (by omega) (by omega)
    have e4 : wrapU64 bw = bw := wrapU64_id (by omega) (by omega)
    simp only [e1, e2, e3, e4]
    rw [if_neg (by omega)]
    generalize hdiff : 1000000000 * (p.maxDatagramSize - p.budgetAtLastSent) = diff
    have hd0 : 0 ≤ diff := by omega
    have hd1 : diff ≤ 4294967296000000000 := by omega
    have e5 : ceilDivU diff bw = ceilDiv diff bw := by
      unfold ceilDivU ceilDiv
      have := Int.ediv_le_self bw hd0
      have := Int.ediv_nonneg hd0 (by omega : 0 ≤ bw)
      split
      · rw [wrapU64_id (by omega) (by omega)]
      · simp
    have hc0 := ceilDiv_nonneg diff bw hd0 hb0
    have hc1 := ceilDiv_le diff bw hd0
    have e6 : wrap64 (ceilDiv diff bw) = ceilDiv diff bw := wrap64_id (by omega) (by omega)
    rw [e5, e6, minPacing_eq, wrap64_id (by omega) (by omega)]

theorem timeUntilSend_noPanic {p : Pacer} {bw : Int} (hp : Ok p) (hbw : BwOk bw) :
    Res.NoPanic (timeUntilSend p bw) := by
  rw [timeUntilSend_inrange hp hbw]; split <;> simp

/-- waiting until the deadline computed with `bw` yields budget for a full datagram at every
    later instant, whatever bandwidth `bw' ≥ bw` is in force then -/
theorem budget_at_deadline {p : Pacer} {bw bw' now : Int} (hp : Ok p) (hbw : BwOk bw)
    (hle : bw ≤ bw') (hbw' : bw' ≤ 1099511627776) (hlt : p.budgetAtLastSent < p.maxDatagramSize)
    (hnow : deadline p bw ≤ now) (hg : GapOk p bw' now) :
    p.maxDatagramSize ≤ budget p bw' now := by
  obtain ⟨hb0, hb1⟩ := hbw
  have := hp.b0; have := hp.m0
  rw [budget_inrange hp (by omega) hbw' hg]
  have hbst := burst_ge bw' p.maxDatagramSize
  split
  · omega
  · unfold accrued
    unfold deadline at hnow
    generalize hdiff : 1000000000 * (p.maxDatagramSize - p.budgetAtLastSent) = diff at hnow
    generalize hd : ceilDiv diff bw = d at hnow
    have h1 : diff ≤ d * bw := by rw [← hd]; exact ceilDiv_mul_ge _ _ hb0
    have hd0 : 0 ≤ d := by rw [← hd]; exact ceilDiv_nonneg _ _ (by omega) hb0
    have h2 : d * bw ≤ d * bw' := Int.mul_le_mul_of_nonneg_left hle hd0
    have h3 : d * bw' ≤ (now - p.lastSentTime) * bw' :=
      Int.mul_le_mul_of_nonneg_right (by omega) (by omega)
    have h4 : (now - p.lastSentTime) * bw' = bw' * (now - p.lastSentTime) := Int.mul_comm _ _
    omega

/-- with at least a datagram of budget left, the budget stays sufficient -/
theorem budget_when_ready {p : Pacer} {bw now : Int} (hp : Ok p) (h0 : 0 ≤ bw)
    (hbw : bw ≤ 1099511627776) (hge : p.maxDatagramSize ≤ p.budgetAtLastSent)
    (hg : GapOk p bw now) : p.maxDatagramSize ≤ budget p bw now := by
  have := hp.m0
  rw [budget_inrange hp h0 hbw hg]
  have hbst := burst_ge bw p.maxDatagramSize
  obtain ⟨hl, _, _⟩ := hg
  have hx : 0 ≤ bw * (now - p.lastSentTime) := Int.mul_nonneg h0 (by omega)
  unfold accrued
  split <;> omega

/-! ### send sequences, gating, token-bucket conservation -/

/-- what happens to a pacer: a packet released by the pacer is sent (`send`, with the
    bandwidth getBandwidth() returned at that moment); a packet the pacer did NOT release is
    reported to it all the same (`usend`: quic-go sends ACK-only packets, PTO probes and
    path-MTU probes while pacing-limited — any size, regardless of the budget); or path-MTU
    discovery changes the datagram size.  Both kinds of send go through the same SentPacket. -/
inductive Ev where
  | send (t size bw : Int)
  | usend (t size bw : Int)
  | setMds (s : Int)
  deriving Repr, DecidableEq

def applyEv (p : Pacer) : Ev → Pacer
  | .send t size bw => sentPacket p bw t size
  | .usend t size bw => sentPacket p bw t size
  | .setMds s => setMaxDatagramSize p s

def run (p : Pacer) (es : List Ev) : Pacer := es.foldl applyEv p

/-- bytes RELEASED BY PACING in a sequence: the paced sends only -/
def total : List Ev → Int
  | [] => 0
  | .send _ size _ :: es => size + total es
  | _ :: es => total es

/-- one event is admissible: any send happens at a positive time not before the previous
    send, its bandwidth is in (0, B] and "rate × gap fits 63 bits"; a PACED send is moreover
    covered by the budget — which is what `HasPacingBudget(t)` plus "at most one datagram"
    give (see `gated_of_hasBudget`) — whereas an UNPACED send has any size ≥ 0 whatever the
    budget; a datagram size is positive and at most M. -/
def Gated (B M : Int) (p : Pacer) : Ev → Prop
  | .send t size bw =>
      0 < t ∧ GapOk p bw t ∧ 0 < bw ∧ bw ≤ B ∧ 0 ≤ size ∧ size ≤ budget p bw t
  | .usend t size bw =>
      0 < t ∧ GapOk p bw t ∧ 0 < bw ∧ bw ≤ B ∧ 0 ≤ size
  | .setMds s => 0 < s ∧ s ≤ M

def AllGated (B M : Int) : Pacer → List Ev → Prop
  | _, [] => True
  | p, e :: es => Gated B M p e ∧ AllGated B M (applyEv p e) es

instance (p : Pacer) (bw now : Int) : Decidable (GapOk p bw now) := by
  unfold GapOk; exact inferInstance

instance (B M : Int) (p : Pacer) (e : Ev) : Decidable (Gated B M p e) := by
  cases e <;> (unfold Gated; exact inferInstance)

instance decAllGated (B M : Int) : ∀ (p : Pacer) (es : List Ev), Decidable (AllGated B M p es)
  | _, [] => isTrue trivial
  | p, e :: es =>
    have := decAllGated B M (applyEv p e) es
    by unfold AllGated; exact inferInstance

theorem gated_of_hasBudget {B M : Int} {p : Pacer} {t size bw : Int}
    (ht : 0 < t) (hg : GapOk p bw t) (hbw : 0 < bw) (hB : bw ≤ B) (hs0 : 0 ≤ size)
    (hs : size ≤ p.maxDatagramSize) (hb : p.maxDatagramSize ≤ budget p bw t) :
    Gated B M p (.send t size bw) :=
  ⟨ht, hg, hbw, hB, hs0, Int.le_trans hs hb⟩

theorem run_cons (p : Pacer) (e : Ev) (es : List Ev) : run p (e :: es) = run (applyEv p e) es := rfl

theorem run_append (p : Pacer) (a b : List Ev) : run p (a ++ b) = run (run p a) b := by
  unfold run; exact List.foldl_append

theorem total_append (a b : List Ev) : total (a ++ b) = total a + total b := by
  induction a with
  | nil => simp [total]
  | cons e es ih =>
    cases e with
    | send t size bw => simp only [List.cons_append, total, ih]; omega
    | usend t size bw => simp only [List.cons_append, total, ih]
    | setMds s => simp only [List.cons_append, total, ih]

theorem allGated_append {B M : Int} (a b : List Ev) :
    ∀ p, AllGated B M p (a ++ b) ↔ AllGated B M p a ∧ AllGated B M (run p a) b := by
  induction a with
  | nil => intro p; simp [AllGated, run]
  | cons e es ih =>
    intro p
    simp only [List.cons_append, AllGated, run_cons, ih, and_assoc]

/-- what SentPacket leaves in the bucket, in range: max(0, Budget − size) -/
theorem sentPacket_budget {p : Pacer} {bw t size : Int} (hp : Ok p) (h0 : 0 ≤ bw)
    (hbw : bw ≤ 1099511627776) (hg : GapOk p bw t) (hs0 : 0 ≤ size) :
    (sentPacket p bw t size).budgetAtLastSent =
      (if size > budget p bw t then 0 else budget p bw t - size) ∧
    (sentPacket p bw t size).lastSentTime = t ∧
    (sentPacket p bw t size).maxDatagramSize = p.maxDatagramSize := by
  have hb := budget_le_burst hp h0 hbw hg
  have hn := budget_nonneg hp h0 hbw hg
  have := hp.m0; have := hp.mhi
  have hbu : burst bw p.maxDatagramSize ≤ 4611686018427387904 := by unfold burst; omega
  refine ⟨?_, rfl, rfl⟩
  simp only [sentPacket]
  split
  · rfl
  · rw [wrap64_id (by omega) (by omega)]

/-- an admissible step keeps the state in range — also an unpaced send of any size, which
    only lowers the budget, floored at 0 -/
theorem ok_applyEv {B M : Int} {p : Pacer} {e : Ev} (hB : B ≤ 1099511627776)
    (hM : M ≤ 4294967296) (hp : Ok p) (hg : Gated B M p e) : Ok (applyEv p e) := by
  have hsend : ∀ t size bw, 0 < t → GapOk p bw t → 0 < bw → bw ≤ B → 0 ≤ size →
      Ok (sentPacket p bw t size) := by
    intro t size bw ht hgap hbw hle hs0
    obtain ⟨h1, h2, h3⟩ := sentPacket_budget hp (by omega : 0 ≤ bw) (by omega) hgap hs0
    have hb := budget_le_burst hp (by omega : 0 ≤ bw) (by omega) hgap
    have hn := budget_nonneg hp (by omega : 0 ≤ bw) (by omega) hgap
    have := hp.m0; have := hp.mhi
    have hbu : burst bw p.maxDatagramSize ≤ 4611686018427387904 := by unfold burst; omega
    obtain ⟨_, htt, _⟩ := hgap
    refine ⟨?_, ?_, by rw [h3]; exact hp.m0, by rw [h3]; exact hp.mhi, by rw [h2]; omega,
      by rw [h2]; omega⟩
    · rw [h1]; split <;> omega
    · rw [h1]; split <;> omega
  cases e with
  | send t size bw =>
    obtain ⟨ht, hgap, hbw, hle, hs0, _⟩ := hg
    exact hsend t size bw ht hgap hbw hle hs0
  | usend t size bw =>
    obtain ⟨ht, hgap, hbw, hle, hs0⟩ := hg
    exact hsend t size bw ht hgap hbw hle hs0
  | setMds s =>
    obtain ⟨h1, h2⟩ := hg
    exact ⟨hp.b0, hp.bhi, h1, by simp only [applyEv, setMaxDatagramSize]; omega, hp.l0, hp.lhi⟩

theorem mds_applyEv {B M : Int} {p : Pacer} {e : Ev} (hm : p.maxDatagramSize ≤ M)
    (hg : Gated B M p e) : (applyEv p e).maxDatagramSize ≤ M := by
  cases e with
  | send t size bw => exact hm
  | usend t size bw => exact hm
  | setMds s => exact hg.2

theorem ok_run {B M : Int} (hB : B ≤ 1099511627776) (hM : M ≤ 4294967296) (es : List Ev) :
    ∀ p, Ok p → p.maxDatagramSize ≤ M → AllGated B M p es →
      Ok (run p es) ∧ (run p es).maxDatagramSize ≤ M := by
  induction es with
  | nil => intro p hp hm _; exact ⟨hp, hm⟩
  | cons e es ih =>
    intro p hp hm h
    rw [run_cons]
    exact ih _ (ok_applyEv hB hM hp h.1) (mds_applyEv hm h.1) h.2

/-- the one-step token-bucket fact for ANY send of size ≥ 0 from a state in which something
    has been sent: what is left is at most what was there plus the accrual at rate ≤ B minus
    — if the send was covered by the budget — its size -/
theorem sent_step {B : Int} {p : Pacer} {t size bw : Int} (hB : B ≤ 1099511627776)
    (hp : Ok p) (hl : p.lastSentTime ≠ 0) (hgap : GapOk p bw t) (hbw : 0 < bw) (hle : bw ≤ B)
    (hs0 : 0 ≤ size) :
    (sentPacket p bw t size).budgetAtLastSent
        ≤ p.budgetAtLastSent + B * (t - p.lastSentTime) / 1000000000 ∧
    (size ≤ budget p bw t →
      size + (sentPacket p bw t size).budgetAtLastSent
        ≤ p.budgetAtLastSent + B * (t - p.lastSentTime) / 1000000000) := by
  obtain ⟨h1, _, _⟩ := sentPacket_budget hp (by omega : 0 ≤ bw) (by omega) hgap hs0
  have hn := budget_nonneg hp (by omega : 0 ≤ bw) (by omega) hgap
  have hbi := budget_inrange hp (by omega : 0 ≤ bw) (by omega) hgap
  rw [if_neg hl] at hbi
  have hacc : budget p bw t ≤ accrued p bw t := by rw [hbi]; omega
  obtain ⟨hlt, _, _⟩ := hgap
  have hmono : bw * (t - p.lastSentTime) / 1000000000 ≤ B * (t - p.lastSentTime) / 1000000000 :=
    Int.ediv_le_ediv (by omega) (Int.mul_le_mul_of_nonneg_right hle (by omega))
  unfold accrued at hacc
  rw [h1]
  constructor
  · split <;> omega
  · intro hs; rw [if_neg (by omega)]; omega

/-- after time T no paced send can happen at a time ≤ T -/
theorem no_paced_after {B M : Int} (T : Int) (es : List Ev) :
    ∀ p, T < p.lastSentTime → AllGated B M p es →
      (∀ t size bw, Ev.send t size bw ∈ es → t ≤ T) → total es = 0 := by
  induction es with
  | nil => intro _ _ _ _; rfl
  | cons e es ih =>
    intro p hT h hall
    obtain ⟨hg, hrest⟩ := h
    have hall' : ∀ t size bw, Ev.send t size bw ∈ es → t ≤ T :=
      fun t size bw hm => hall t size bw (List.mem_cons_of_mem _ hm)
    cases e with
    | send t size bw =>
      have := hall t size bw (List.mem_cons_self ..)
      obtain ⟨_, ⟨hle, _, _⟩, _⟩ := hg
      omega
    | usend t size bw =>
      obtain ⟨_, ⟨hle, _, _⟩, _⟩ := hg
      simp only [total]
      exact ih _ (by show T < t; omega) hrest hall'
    | setMds s =>
      simp only [total]
      exact ih (applyEv p (.setMds s)) hT hrest hall'

/-- conservation: from a state in which something has been sent, the paced bytes up to time
    T are at most what was in the bucket plus the accrual at rate B until T — whatever
    unpaced sends occur in between -/
theorem conservation {B M : Int} (hB : B ≤ 1099511627776) (hM : M ≤ 4294967296) (hB0 : 0 ≤ B)
    (T : Int) (es : List Ev) :
    ∀ p, Ok p → p.lastSentTime ≠ 0 → p.lastSentTime ≤ T → AllGated B M p es →
      (∀ t size bw, Ev.send t size bw ∈ es → t ≤ T) →
      total es ≤ p.budgetAtLastSent + B * (T - p.lastSentTime) / 1000000000 := by
  induction es with
  | nil =>
    intro p hp _ hT _ _
    have := hp.b0
    have hx : 0 ≤ B * (T - p.lastSentTime) := Int.mul_nonneg hB0 (by omega)
    simp only [total]; omega
  | cons e es ih =>
    intro p hp hl hT h hall
    obtain ⟨hg, hrest⟩ := h
    have hok := ok_applyEv hB hM hp hg
    have hall' : ∀ t size bw, Ev.send t size bw ∈ es → t ≤ T :=
      fun t size bw hm => hall t size bw (List.mem_cons_of_mem _ hm)
    have hsplit : ∀ t, B * (T - p.lastSentTime) = B * (t - p.lastSentTime) + B * (T - t) := by
      intro t; rw [← Int.mul_add]; congr 1; omega
    cases e with
    | setMds s =>
      simp only [total]
      exact ih (applyEv p (.setMds s)) hok hl hT hrest hall'
    | send t size bw =>
      have htT := hall t size bw (List.mem_cons_self ..)
      obtain ⟨ht, hgap, hbw, hle, hs0, hs⟩ := hg
      have hstep := (sent_step hB hp hl hgap hbw hle hs0).2 hs
      have hih := ih _ hok (by show t ≠ 0; omega) (by show t ≤ T; exact htT) hrest hall'
      simp only [applyEv] at hih
      have hl2 : (sentPacket p bw t size).lastSentTime = t := rfl
      rw [hl2] at hih
      generalize (sentPacket p bw t size).budgetAtLastSent = b1 at hstep hih
      simp only [total]
      rw [hsplit t]
      omega
    | usend t size bw =>
      obtain ⟨ht, hgap, hbw, hle, hs0⟩ := hg
      simp only [total]
      by_cases htT : t ≤ T
      · have hstep := (sent_step hB hp hl hgap hbw hle hs0).1
        have hih := ih _ hok (by show t ≠ 0; omega) (by show t ≤ T; exact htT) hrest hall'
        simp only [applyEv] at hih
        have hl2 : (sentPacket p bw t size).lastSentTime = t := rfl
        rw [hl2] at hih
        generalize (sentPacket p bw t size).budgetAtLastSent = b1 at hstep hih
        rw [hsplit t]
        omega
      · rw [no_paced_after T es _ (by show T < t; omega) hrest hall']
        have := hp.b0
        have hx : 0 ≤ B * (T - p.lastSentTime) := Int.mul_nonneg hB0 (by omega)
        omega

/-- bytes released by pacing in a sequence all of whose PACED sends lie in [t1, t2], from ANY
    in-range state and with unpaced sends of any size interleaved at will: at most the burst
    allowance at rate B plus B × (t2 − t1) -/
theorem window_bound {B M : Int} (hB : B ≤ 1099511627776) (hM : M ≤ 4294967296)
    (t1 t2 : Int) (ht : t1 ≤ t2) (hB0 : 0 ≤ B) (es : List Ev) :
    ∀ p, Ok p → p.maxDatagramSize ≤ M → AllGated B M p es →
      (∀ t size bw, Ev.send t size bw ∈ es → t1 ≤ t ∧ t ≤ t2) →
      total es ≤ burst B M + B * (t2 - t1) / 1000000000 := by
  induction es with
  | nil =>
    intro p hp _ _ _
    have h1 := burst_ge B M
    have := hp.m0
    have hx : 0 ≤ B * (t2 - t1) := Int.mul_nonneg hB0 (by omega)
    simp only [total]
    omega
  | cons e es ih =>
    intro p hp hm h hwin
    obtain ⟨hg, hrest⟩ := h
    have hok := ok_applyEv hB hM hp hg
    have hwin' : ∀ t size bw, Ev.send t size bw ∈ es → t1 ≤ t ∧ t ≤ t2 :=
      fun t size bw hmem => hwin t size bw (List.mem_cons_of_mem _ hmem)
    cases e with
    | setMds s =>
      simp only [total]
      exact ih _ hok (mds_applyEv hm hg) hrest hwin'
    | usend t size bw =>
      simp only [total]
      exact ih _ hok (mds_applyEv hm hg) hrest hwin'
    | send t size bw =>
      obtain ⟨ht1, ht2⟩ := hwin t size bw (List.mem_cons_self ..)
      obtain ⟨ht0, hgap, hbw, hle, hs0, hs⟩ := hg
      have hbud := budget_le_burst hp (by omega : 0 ≤ bw) (by omega) hgap
      have hbm : burst bw p.maxDatagramSize ≤ burst B M := burst_mono hle hm
      obtain ⟨hb1, _, _⟩ := sentPacket_budget hp (by omega : 0 ≤ bw) (by omega) hgap hs0
      rw [if_neg (by omega)] at hb1
      have hcons := conservation hB hM hB0 t2 es _ hok (by show t ≠ 0; omega)
        (by show t ≤ t2; exact ht2) hrest (fun t size bw hm => (hwin' t size bw hm).2)
      simp only [applyEv] at hcons
      have hl2 : (sentPacket p bw t size).lastSentTime = t := rfl
      rw [hl2, hb1] at hcons
      have hmono : B * (t2 - t) / 1000000000 ≤ B * (t2 - t1) / 1000000000 :=
        Int.ediv_le_ediv (by omega) (Int.mul_le_mul_of_nonneg_left (by omega) hB0)
      simp only [total]
      omega

end Hy.Pacer
