/-
  Helper lemmas for C12(a): packetNumberIndexedQueue over the ring model.
  Everything is proved on the abstraction `q.entries.toList` through the relational ring
  lemmas (`Rel`), so no ring index arithmetic appears here.
-/
import Hy.Model.Pnq
import Hy.Proofs.Ring
set_option linter.unusedSimpArgs false
set_option linter.unusedVariables false
set_option linter.unusedSectionVars false
namespace Hy.Pnq
open Hy Hy.Ring
variable {α : Type} [Inhabited α]

/-- number of present wrappers in a list -/
def nPresent : List (Entry α) → Nat
  | [] => 0
  | e :: l => (if e.present then 1 else 0) + nPresent l

theorem nPresent_append (a b : List (Entry α)) : nPresent (a ++ b) = nPresent a + nPresent b := by
  induction a with
  | nil => simp [nPresent]
  | cons x xs ih => simp [nPresent, ih]; omega

theorem nPresent_replicate (n : Nat) : nPresent (List.replicate n (default : Entry α)) = 0 := by
  induction n with
  | zero => rfl
  | succ k ih => simp [List.replicate_succ, nPresent, ih]

theorem nPresent_take_drop (k : Nat) (l : List (Entry α)) : nPresent (l.take k) + nPresent (l.drop k) = nPresent l := by
  conv => rhs; rw [← List.take_append_drop k l]
  rw [nPresent_append]

theorem nPresent_set_absent (l : List (Entry α)) (i : Nat) (hi : i < l.length) (hp : l[i].present = true)
    (e : Entry α) (he : e.present = false) : nPresent (l.set i e) + 1 = nPresent l := by
  induction l generalizing i with
  | nil => simp at hi
  | cons x xs ih =>
    cases i with
    | zero =>
      simp only [List.getElem_cons_zero] at hp
      simp [nPresent, hp, he]; omega
    | succ j =>
      simp only [List.getElem_cons_succ] at hp
      simp only [List.set_cons_succ, nPresent]
      have := ih j (by simpa using hi) hp
      omega

/-- entries dropped by `clearup` -/
def notPresent (e : Entry α) : Bool := !e.present

theorem nPresent_dropWhile (l : List (Entry α)) : nPresent (l.dropWhile notPresent) = nPresent l := by
  induction l with
  | nil => rfl
  | cons x xs ih =>
    simp only [List.dropWhile_cons, notPresent]
    by_cases hx : x.present = true
    · simp [hx]
    · have hx' : x.present = false := by simpa using hx
      simp [nPresent, hx']; exact ih

theorem dropWhile_head_present (l : List (Entry α)) (e : Entry α) (t : List (Entry α))
    (h : l.dropWhile notPresent = e :: t) : e.present = true := by
  induction l with
  | nil => simp at h
  | cons x xs ih =>
    simp only [List.dropWhile_cons, notPresent] at h
    cases hx : x.present
    · simp [hx] at h; exact ih h
    · simp [hx] at h; rw [← h.1]; exact hx

theorem dropWhile_length_le (l : List (Entry α)) : (l.dropWhile notPresent).length ≤ l.length := by
  induction l with
  | nil => simp
  | cons x xs ih => simp only [List.dropWhile_cons]; split <;> simp <;> omega

/-! ### invariants -/

/-- the part of the invariant that holds between the two loops of `RemoveUpTo` / inside `Remove` -/
structure Inv0 (q : PNQ α) : Prop where
  wf : q.entries.WF
  census : q.present = (nPresent q.entries.toList : Int)
  firstOk : q.entries.toList ≠ [] → 0 ≤ q.first

/-- `pnq_inv`: ring well-formed; present count = census; non-empty ⇒ front present and a valid
    (non-negative) `firstPacket`; empty ⇒ `firstPacket = invalidPacketNumber` -/
structure Inv (q : PNQ α) : Prop extends Inv0 q where
  frontP : ∀ e l, q.entries.toList = e :: l → e.present = true
  firstNil : q.entries.toList = [] → q.first = invalidPn

theorem Inv.rel {q : PNQ α} (h : Inv0 q) : Rel q.entries q.entries.toList := ⟨h.wf, rfl⟩

theorem new_inv (n : Nat) : Inv (new n : PNQ α) := by
  have h := init_toList (α := Entry α) n
  refine { wf := init_wf n, census := ?_, firstOk := ?_, frontP := ?_, firstNil := ?_ }
  · simp [new, h, nPresent]
  · simp [new, h]
  · simp [new, h]
  · intro _; rfl

theorem isEmpty_iff {q : PNQ α} (h : Inv q) : q.isEmpty = true ↔ q.entries.toList = [] := by
  unfold PNQ.isEmpty
  have hc := h.census
  constructor
  · intro he
    have hp : q.present = 0 := by simpa using he
    cases hl : q.entries.toList with
    | nil => rfl
    | cons e l =>
      have := h.frontP e l hl
      rw [hl] at hc
      simp [nPresent, this] at hc
      omega
  · intro hl
    rw [hl] at hc
    simp [nPresent] at hc
    simp [hc]

/-! ### clearup -/

theorem clearupLoop_spec (l : List (Entry α)) : ∀ (fuel : Nat) (q : PNQ α), Rel q.entries l → l.length ≤ fuel →
    ∃ q', clearupLoop fuel q = Res.ok q' ∧ Rel q'.entries (l.dropWhile notPresent) ∧
      q'.present = q.present ∧
      q'.first = q.first + ((l.length - (l.dropWhile notPresent).length : Nat) : Int) := by
  induction l with
  | nil =>
    intro fuel q hr _
    have he : q.entries.empty = true := by rw [rel_empty hr]; rfl
    refine ⟨q, ?_, by simpa using hr, rfl, by simp⟩
    cases fuel <;> simp [clearupLoop, he]
  | cons x xs ih =>
    intro fuel q hr hf
    have he : q.entries.empty = false := by rw [rel_empty hr]; rfl
    have hfr := rel_front hr
    cases hx : x.present with
    | true =>
      refine ⟨q, ?_, ?_, rfl, ?_⟩
      · cases fuel <;> simp [clearupLoop, he, hfr, hx]
      · simpa [List.dropWhile_cons, notPresent, hx] using hr
      · simp [List.dropWhile_cons, notPresent, hx]
    | false =>
      obtain ⟨r', hpop, hr'⟩ := rel_pop hr
      cases fuel with
      | zero => simp at hf
      | succ k =>
        obtain ⟨q', h1, h2, h3, h4⟩ := ih k { q with entries := r', first := q.first + 1 } hr' (by simpa using hf)
        refine ⟨q', ?_, ?_, h3, ?_⟩
        · simp [clearupLoop, he, hfr, hx, hpop, h1]
        · simpa [List.dropWhile_cons, notPresent, hx] using h2
        · rw [h4]
          have := dropWhile_length_le xs
          simp only [List.dropWhile_cons, notPresent, hx, Bool.not_false, ↓reduceIte, List.length_cons]
          omega

/-- `clearup()` restores the full invariant from the partial one -/
theorem clearup_spec {q : PNQ α} (h : Inv0 q) :
    ∃ q', q.clearup = Res.ok q' ∧ Inv q' ∧
      q'.entries.toList = q.entries.toList.dropWhile notPresent ∧
      (q'.entries.toList ≠ [] →
        q'.first = q.first + ((q.entries.toList.length - q'.entries.toList.length : Nat) : Int)) := by
  have hr := Inv.rel h
  obtain ⟨q1, h1, h2, h3, h4⟩ := clearupLoop_spec _ q.entries.len q hr (by rw [toList_length]; exact Nat.le_refl _)
  have hemp := rel_empty h2
  have hdl := dropWhile_length_le q.entries.toList
  let q' : PNQ α := if q1.entries.empty then { q1 with first := invalidPn } else q1
  have hent : q'.entries = q1.entries := by simp only [q']; split <;> rfl
  have hpres : q'.present = q1.present := by simp only [q']; split <;> rfl
  refine ⟨q', ?_, ?_, ?_, ?_⟩
  · simp [PNQ.clearup, h1, q']
  · refine { wf := ?_, census := ?_, firstOk := ?_, frontP := ?_, firstNil := ?_ }
    · rw [hent]; exact h2.1
    · rw [hent, hpres, h2.2, h3, nPresent_dropWhile]; exact h.census
    · rw [hent, h2.2]
      intro hne
      have hne0 : q.entries.toList ≠ [] := by
        intro h0; rw [h0] at hne; simp at hne
      have hne' : q1.entries.empty = false := by
        rw [hemp]; cases hd : List.dropWhile notPresent q.entries.toList with
        | nil => exact absurd hd hne
        | cons _ _ => rfl
      have : q'.first = q1.first := by simp [q', hne']
      rw [this, h4]
      have := h.firstOk hne0
      omega
    · rw [hent, h2.2]
      intro e l hl
      exact dropWhile_head_present _ e l hl
    · rw [hent, h2.2]
      intro hnil
      have : q1.entries.empty = true := by rw [hemp, hnil]; rfl
      simp [q', this]
  · rw [hent, h2.2]
  · rw [hent, h2.2]
    intro hne
    have hne' : q1.entries.empty = false := by
      rw [hemp]; cases hd : List.dropWhile notPresent q.entries.toList with
      | nil => exact absurd hd hne
      | cons _ _ => rfl
    have : q'.first = q1.first := by simp [q', hne']
    rw [this, h4]

/-! ### GetEntry -/

theorem getWrapper_spec {q : PNQ α} (h : Inv q) (pn : Int) :
    q.getWrapper pn = Res.ok none ∨
    ∃ (i : Nat) (hi : i < q.entries.toList.length),
      pn = q.first + (i : Int) ∧ (q.entries.toList[i]).present = true ∧
      q.getWrapper pn = Res.ok (some ((i : Int), q.entries.toList[i])) := by
  unfold PNQ.getWrapper
  by_cases hc : pn = invalidPn ∨ q.isEmpty = true ∨ pn < q.first
  · left; simp [hc]
  · rw [if_neg hc]
    have hlen := toList_length q.entries
    by_cases hoff : pn - q.first ≥ (q.entries.len : Int)
    · left; simp [hoff]
    · have hge : 0 ≤ pn - q.first := by
        have : ¬ pn < q.first := fun h => hc (Or.inr (Or.inr h))
        omega
      obtain ⟨i, hi⟩ : ∃ i : Nat, pn - q.first = (i : Int) := ⟨(pn - q.first).toNat, by omega⟩
      have hil : i < q.entries.toList.length := by omega
      have hoffs := rel_offset (Inv.rel h.toInv0) i hil
      simp only [hoff, ↓reduceIte, hi, hoffs, Res.bind_eq, Res.bind_ok, Res.pure_eq]
      cases hp : (q.entries.toList[i]).present
      · left; simp
      · refine Or.inr ⟨i, hil, by omega, hp, ?_⟩
        have hoff' : ¬ ((i : Int) ≥ (q.entries.len : Int)) := by omega
        simp only [hp, Bool.not_true, Bool.false_eq_true, ↓reduceIte, Res.pure_eq, hoff']

theorem getEntry_noPanic {q : PNQ α} (h : Inv q) (pn : Int) : ∃ v, q.getEntry pn = Res.ok v := by
  unfold PNQ.getEntry
  rcases getWrapper_spec h pn with h1 | ⟨i, hi, _, _, h1⟩ <;> simp [h1]

/-! ### Emplace -/

theorem pushN_spec (n : Nat) : ∀ (r : RB (Entry α)) (l : List (Entry α)), Rel r l →
    ∃ r', pushN n r = Res.ok r' ∧ Rel r' (l ++ List.replicate n default) := by
  induction n with
  | zero => intro r l h; exact ⟨r, rfl, by simpa using h⟩
  | succ k ih =>
    intro r l h
    obtain ⟨r1, h1, h2⟩ := rel_push h default
    obtain ⟨r2, h3, h4⟩ := ih r1 _ h2
    refine ⟨r2, by simp [pushN, h1, h3], ?_⟩
    simpa [List.replicate_succ, List.append_assoc] using h4

theorem lastPacket_eq {q : PNQ α} (h : Inv q) (hne : q.entries.toList ≠ []) :
    q.lastPacket = q.first + (q.entries.toList.length : Int) - 1 := by
  have : q.isEmpty = false := by
    cases he : q.isEmpty
    · rfl
    · exact absurd ((isEmpty_iff h).1 he) hne
  simp [PNQ.lastPacket, this, toList_length]; omega

theorem lastPacket_nil {q : PNQ α} (h : Inv q) (hnil : q.entries.toList = []) : q.lastPacket = invalidPn := by
  have : q.isEmpty = true := (isEmpty_iff h).2 hnil
  simp [PNQ.lastPacket, this]

/-- `Emplace` never panics, keeps the invariant, and on success the new `LastPacket()` is the
    emplaced number (so `LastPacket` is always the last number successfully emplaced) -/
theorem emplace_spec {q : PNQ α} (h : Inv q) (pn : Int) (hpn : -1 ≤ pn) (v : Option α) :
    ∃ b q', q.emplace pn v = Res.ok (b, q') ∧ Inv q' ∧
      (b = false → q' = q) ∧
      (b = true → q'.lastPacket = pn ∧ q.lastPacket < pn ∧ q'.entries.toList ≠ [] ∧
        (q.entries.toList ≠ [] → q'.first = q.first)) := by
  cases v with
  | none => exact ⟨false, q, rfl, h, fun _ => rfl, (fun hb => by cases hb)⟩
  | some v =>
    unfold PNQ.emplace
    by_cases hinv : pn = invalidPn
    · exact ⟨false, q, by simp [hinv], h, fun _ => rfl, (fun hb => by cases hb)⟩
    · have hpos : 0 ≤ pn := by simp [invalidPn] at hinv; omega
      simp only [hinv, ↓reduceIte]
      have hr := Inv.rel h.toInv0
      cases he : q.isEmpty with
      | true =>
        have hnil := (isEmpty_iff h).1 he
        rw [hnil] at hr
        obtain ⟨e, h1, h2⟩ := rel_push hr (⟨true, v⟩ : Entry α)
        let q' : PNQ α := { entries := e, present := 1, first := pn }
        have hl : q'.entries.toList = [⟨true, v⟩] := by simpa using h2.2
        have hi : Inv q' := by
          refine { wf := h2.1, census := ?_, firstOk := fun _ => hpos, frontP := ?_, firstNil := ?_ }
          · rw [hl]; simp [nPresent, q']
          · intro e' l' hl'; rw [hl] at hl'; simp at hl'; rw [← hl'.1]
          · intro h0; rw [hl] at h0; simp at h0
        refine ⟨true, q', by simp [h1, q'], hi, (fun hb => by cases hb), fun _ => ?_⟩
        have hne : q'.entries.toList ≠ [] := by rw [hl]; simp
        refine ⟨?_, ?_, hne, fun h0 => absurd hnil h0⟩
        · rw [lastPacket_eq hi hne, hl]; simp [q']
        · rw [lastPacket_nil h hnil]; simp [invalidPn]; omega
      | false =>
        have hne : q.entries.toList ≠ [] := fun h0 => by
          have := (isEmpty_iff h).2 h0; rw [he] at this; cases this
        simp only [Bool.false_eq_true, ↓reduceIte]
        by_cases hle : pn ≤ q.lastPacket
        · exact ⟨false, q, by simp [hle], h, fun _ => rfl, (fun hb => by cases hb)⟩
        · simp only [hle, ↓reduceIte]
          have hlast := lastPacket_eq h hne
          have hlen := toList_length q.entries
          have hpos' : 0 < q.entries.toList.length := List.length_pos_iff.2 hne
          -- gap = pn - first - len ≥ 0
          obtain ⟨g, hg⟩ : ∃ g : Nat, pn - q.first - (q.entries.len : Int) = (g : Int) :=
            ⟨(pn - q.first - (q.entries.len : Int)).toNat, by omega⟩
          have fin : ∀ e1 : RB (Entry α), Rel e1 (q.entries.toList ++ List.replicate g default) →
              ∃ b q', ((e1.pushBack (⟨true, v⟩ : Entry α)).bind fun e2 =>
                  Res.ok (true, ({ q with entries := e2, present := q.present + 1 } : PNQ α))) = Res.ok (b, q') ∧
                Inv q' ∧ (b = false → q' = q) ∧
                (b = true → q'.lastPacket = pn ∧ q.lastPacket < pn ∧ q'.entries.toList ≠ [] ∧
                  (q.entries.toList ≠ [] → q'.first = q.first)) := by
            intro e1 h2
            obtain ⟨e2, h3, h4⟩ := rel_push h2 (⟨true, v⟩ : Entry α)
            let q' : PNQ α := { q with entries := e2, present := q.present + 1 }
            have hl : q'.entries.toList = q.entries.toList ++ List.replicate g default ++ [⟨true, v⟩] := h4.2
            have hne' : q'.entries.toList ≠ [] := by rw [hl]; simp
            have hi : Inv q' := by
              refine { wf := h4.1, census := ?_, firstOk := fun _ => h.firstOk hne, frontP := ?_, firstNil := ?_ }
              · rw [hl, nPresent_append, nPresent_append, nPresent_replicate]
                have := h.census
                simp [nPresent, q']; omega
              · intro e' l' hl'
                rw [hl] at hl'
                cases hq : q.entries.toList with
                | nil => exact absurd hq hne
                | cons a t =>
                  rw [hq] at hl'
                  simp at hl'
                  rw [← hl'.1]; exact h.frontP a t hq
              · intro h0; exact absurd h0 hne'
            refine ⟨true, q', ?_, hi, (fun hb => by cases hb), fun _ => ⟨?_, by omega, hne', fun _ => rfl⟩⟩
            · rw [h3]; rfl
            · rw [lastPacket_eq hi hne', hl]
              simp [q']; omega
          by_cases hg0 : pn - q.first - (q.entries.len : Int) > 0
          · have : (pn - q.first - (q.entries.len : Int)).toNat = g := by omega
            obtain ⟨e1, h1, h2⟩ := pushN_spec g _ _ hr
            simp only [hg0, ↓reduceIte, this, h1, Res.bind_eq, Res.bind_ok, Res.pure_eq]
            exact fin e1 h2
          · have : g = 0 := by omega
            subst this
            simp only [hg0, ↓reduceIte, Res.bind_eq, Res.bind_ok, Res.pure_eq]
            exact fin q.entries (by simpa using hr)

/-! ### Remove -/

theorem set_ne_nil {α} (l : List α) (i : Nat) (x : α) (h : l ≠ []) : l.set i x ≠ [] := by
  cases l with
  | nil => exact absurd rfl h
  | cons a t => cases i <;> simp

theorem remove_spec {q : PNQ α} (h : Inv q) (pn : Int) :
    ∃ r q', q.remove pn = Res.ok (r, q') ∧ Inv q' ∧ q'.slotsUsed ≤ q.slotsUsed ∧
      (q'.entries.toList ≠ [] → q'.lastPacket = q.lastPacket) := by
  unfold PNQ.remove
  rcases getWrapper_spec h pn with h1 | ⟨i, hi, hpn, hp, h1⟩
  · exact ⟨none, q, by simp [h1], h, Nat.le_refl _, fun _ => rfl⟩
  · have hr := Inv.rel h.toInv0
    obtain ⟨e, h2, h3⟩ := rel_modify hr i hi (fun w => { w with present := false })
    have hne : q.entries.toList ≠ [] := by intro h0; rw [h0] at hi; simp at hi
    let q1 : PNQ α := { q with entries := e, present := q.present - 1 }
    have hl1 : q1.entries.toList = q.entries.toList.set i { q.entries.toList[i] with present := false } := h3.2
    have hlen1 : q1.entries.toList.length = q.entries.toList.length := by rw [hl1]; simp
    have hi0 : Inv0 q1 := by
      refine { wf := h3.1, census := ?_, firstOk := fun _ => h.firstOk hne }
      rw [hl1]
      have hs := nPresent_set_absent q.entries.toList i hi hp { q.entries.toList[i] with present := false } rfl
      have hcs := h.census
      show q.present - 1 = _
      omega
    by_cases hf : pn = q1.first
    · obtain ⟨q2, h4, h5, h6, h7⟩ := clearup_spec hi0
      have hdl := dropWhile_length_le q1.entries.toList
      refine ⟨some (q.entries.toList[i]).val, q2, ?_, h5, ?_, ?_⟩
      · have hf' : pn = q.first := hf
        have h4' : PNQ.clearup { q with entries := e, present := q.present - 1 } = Res.ok q2 := h4
        simp only [h1, Res.bind_eq, Res.bind_ok, h2, Res.pure_eq]
        simp only [hf', ↓reduceIte, h4', Res.bind_ok]
      · simp only [PNQ.slotsUsed, ← toList_length]
        rw [h6]; omega
      · intro hne2
        have hf2 := h7 hne2
        rw [lastPacket_eq h5 hne2, lastPacket_eq h hne, hf2]
        have hl2 : q2.entries.toList.length ≤ q1.entries.toList.length := by rw [h6]; exact hdl
        have : q1.first = q.first := rfl
        omega
    · have hi1 : Inv q1 := by
        have hi_pos : 0 < i := by
          have : q1.first = q.first := rfl
          cases i with
          | zero => simp at hpn; omega
          | succ j => omega
        refine { toInv0 := hi0, frontP := ?_, firstNil := ?_ }
        · intro e' l' hl'
          rw [hl1] at hl'
          cases hq : q.entries.toList with
          | nil => exact absurd hq hne
          | cons a t =>
            have hfp := h.frontP a t hq
            obtain ⟨j, hj⟩ : ∃ j, i = j + 1 := ⟨i - 1, by omega⟩
            subst hj
            simp only [hq, List.set_cons_succ] at hl'
            simp at hl'
            rw [← hl'.1]; exact hfp
        · intro h0
          have := set_ne_nil q.entries.toList i { q.entries.toList[i] with present := false } hne
          rw [← hl1] at this; exact absurd h0 this
      have hne1 : q1.entries.toList ≠ [] := by
        rw [hl1]; exact set_ne_nil _ _ _ hne
      refine ⟨some (q.entries.toList[i]).val, q1, ?_, hi1, ?_, ?_⟩
      · have hf' : ¬ pn = q.first := hf
        simp only [h1, Res.bind_eq, Res.bind_ok, h2, Res.pure_eq, hf', ↓reduceIte]
        rfl
      · simp only [PNQ.slotsUsed, ← toList_length]; omega
      · intro _
        rw [lastPacket_eq hi1 hne1, lastPacket_eq h hne, hlen1]

/-! ### RemoveUpTo -/

theorem removeLoop_spec (n : Int) (l : List (Entry α)) : ∀ (fuel : Nat) (q : PNQ α), Rel q.entries l →
    l.length ≤ fuel → (l ≠ [] → 0 ≤ q.first) →
    ∃ q' k, removeLoop n fuel q = Res.ok q' ∧ k ≤ l.length ∧ Rel q'.entries (l.drop k) ∧
      q'.present = q.present - (nPresent (l.take k) : Int) ∧ q'.first = q.first + (k : Int) ∧
      (l.drop k ≠ [] → n ≤ q'.first) := by
  induction l with
  | nil =>
    intro fuel q hr _ _
    have he : q.entries.empty = true := by rw [rel_empty hr]; rfl
    refine ⟨q, 0, ?_, Nat.le_refl _, by simpa using hr, by simp [nPresent], by simp, by simp⟩
    cases fuel <;> simp [removeLoop, he]
  | cons x xs ih =>
    intro fuel q hr hf hfirst
    have he : q.entries.empty = false := by rw [rel_empty hr]; rfl
    have hfp := hfirst (by simp)
    have hninv : q.first ≠ invalidPn := by simp [invalidPn]; omega
    by_cases hlt : q.first < n
    · obtain ⟨r', hpop, hr'⟩ := rel_pop hr
      have hfr := rel_front hr
      cases fuel with
      | zero => simp at hf
      | succ k =>
        obtain ⟨q', j, h1, h2, h3, h4, h5, h6⟩ :=
          ih k { entries := r', present := (if x.present then q.present - 1 else q.present), first := q.first + 1 }
            hr' (by simpa using hf) (fun _ => by show 0 ≤ q.first + 1; omega)
        refine ⟨q', j + 1, ?_, by simpa using h2, by simpa using h3, ?_, ?_, by simpa using h6⟩
        · simp [removeLoop, he, hninv, hlt, hfr, hpop, h1]
        · rw [h4]; simp only [List.take_succ_cons, nPresent]
          cases x.present <;> simp <;> omega
        · rw [h5]; simp; omega
    · refine ⟨q, 0, ?_, Nat.zero_le _, by simpa using hr, by simp [nPresent], by simp, fun _ => by omega⟩
      cases fuel <;> simp [removeLoop, hlt]

/-- `RemoveUpTo n`: no panic, invariant kept, and afterwards the queue is empty or starts at
    or after `n` while still ending at the same `LastPacket` -/
theorem removeUpTo_spec {q : PNQ α} (h : Inv q) (n : Int) :
    ∃ q', q.removeUpTo n = Res.ok q' ∧ Inv q' ∧ q'.slotsUsed ≤ q.slotsUsed ∧
      (q'.entries.toList ≠ [] → n ≤ q'.first ∧ q'.lastPacket = q.lastPacket) := by
  have hr := Inv.rel h.toInv0
  obtain ⟨q1, k, h1, h2, h3, h4, h5, h6⟩ :=
    removeLoop_spec n _ q.entries.len q hr (by rw [toList_length]; exact Nat.le_refl _) h.firstOk
  have hi0 : Inv0 q1 := by
    refine { wf := h3.1, census := ?_, firstOk := ?_ }
    · rw [h3.2, h4]
      have := nPresent_take_drop k q.entries.toList
      have := h.census
      omega
    · rw [h3.2]; intro hne
      have : q.entries.toList ≠ [] := by intro h0; rw [h0] at hne; simp at hne
      have := h.firstOk this
      omega
  obtain ⟨q2, h7, h8, h9, h10⟩ := clearup_spec hi0
  have hdl := dropWhile_length_le q1.entries.toList
  have hl1 : q1.entries.toList.length = q.entries.toList.length - k := by rw [h3.2]; simp
  refine ⟨q2, by simp [PNQ.removeUpTo, h1, h7], h8, ?_, ?_⟩
  · simp only [PNQ.slotsUsed, ← toList_length]
    rw [h9]; omega
  · intro hne2
    have hne1 : q1.entries.toList ≠ [] := by
      intro h0; rw [h9, h0] at hne2; simp at hne2
    have hne : q.entries.toList ≠ [] := by
      intro h0; rw [h3.2, h0] at hne1; simp at hne1
    have hf2 := h10 hne2
    have hn := h6 (by rw [← h3.2]; exact hne1)
    have hl2 : q2.entries.toList.length ≤ q1.entries.toList.length := by rw [h9]; exact hdl
    refine ⟨by omega, ?_⟩
    rw [lastPacket_eq h8 hne2, lastPacket_eq h hne, hf2, h5]
    have : 0 < q2.entries.toList.length := List.length_pos_iff.2 hne2
    omega

/-! ### every operation: no panic, invariant kept; ghost = last number successfully emplaced -/

theorem nil_iff_slots (q : PNQ α) : q.entries.toList = [] ↔ q.slotsUsed = 0 := by
  rw [← List.length_eq_zero_iff, toList_length]; rfl

/-- ghost variable update: the last packet number for which `Emplace` returned true -/
def ghostNext (last : Int) : Op α → Ret α → Int
  | .emplace pn _, .flag true => pn
  | _, _ => last

/-- invariant with the ghost: `LastPacket()` is the last number successfully emplaced -/
def GInv (q : PNQ α) (last : Int) : Prop :=
  Inv q ∧ -1 ≤ last ∧ (q.entries.toList ≠ [] → q.lastPacket = last)

theorem step_spec {q : PNQ α} {last : Int} (h : GInv q last) (op : Op α) (hw : op.wellFormed) :
    ∃ q' r, q.step op = Res.ok (q', r) ∧ GInv q' (ghostNext last op r) := by
  obtain ⟨hi, hl, hlast⟩ := h
  cases op with
  | emplace pn v =>
    obtain ⟨b, q', h1, h2, h3, h4⟩ := emplace_spec hi pn hw v
    refine ⟨q', .flag b, by simp [PNQ.step, h1], ?_⟩
    cases b with
    | false =>
      have := h3 rfl; subst this
      exact ⟨hi, hl, hlast⟩
    | true =>
      obtain ⟨h5, _, _, _⟩ := h4 rfl
      exact ⟨h2, hw, fun _ => h5⟩
  | getEntry pn =>
    obtain ⟨v, h1⟩ := getEntry_noPanic hi pn
    exact ⟨q, .entry v, by simp [PNQ.step, h1], hi, hl, hlast⟩
  | remove pn =>
    obtain ⟨r, q', h1, h2, h3, h4⟩ := remove_spec hi pn
    refine ⟨q', .entry r, by simp [PNQ.step, h1], h2, hl, ?_⟩
    intro hne
    have hne0 : q.entries.toList ≠ [] := by
      intro h0
      have := (nil_iff_slots q).1 h0
      have : q'.slotsUsed = 0 := by omega
      exact hne ((nil_iff_slots q').2 this)
    rw [h4 hne]; exact hlast hne0
  | removeUpTo n =>
    obtain ⟨q', h1, h2, h3, h4⟩ := removeUpTo_spec hi n
    refine ⟨q', .unit, by simp [PNQ.step, h1], h2, hl, ?_⟩
    intro hne
    have hne0 : q.entries.toList ≠ [] := by
      intro h0
      have := (nil_iff_slots q).1 h0
      have : q'.slotsUsed = 0 := by omega
      exact hne ((nil_iff_slots q').2 this)
    rw [(h4 hne).2]; exact hlast hne0

/-- ghost-instrumented run -/
def runG : PNQ α × Int → List (Op α) → Res (PNQ α × Int)
  | s, [] => Res.ok s
  | s, op :: ops => do
    let (q', r) ← s.1.step op
    runG (q', ghostNext s.2 op r) ops

theorem runG_spec (ops : List (Op α)) : ∀ (q : PNQ α) (last : Int), GInv q last → (∀ op ∈ ops, op.wellFormed) →
    ∃ q' last', runG (q, last) ops = Res.ok (q', last') ∧ GInv q' last' ∧ q.run ops = Res.ok q' := by
  induction ops with
  | nil => intro q last h _; exact ⟨q, last, rfl, h, rfl⟩
  | cons op ops ih =>
    intro q last h hw
    obtain ⟨q1, r, h1, h2⟩ := step_spec h op (hw op (by simp))
    obtain ⟨q2, l2, h3, h4, h5⟩ := ih q1 _ h2 (fun o ho => hw o (by simp [ho]))
    exact ⟨q2, l2, by simp [runG, h1, h3], h4, by simp [PNQ.run, h1, h5]⟩

theorem new_ginv (n : Nat) : GInv (new n : PNQ α) (-1) :=
  ⟨new_inv n, Int.le_refl _, fun h => absurd (init_toList (α := Entry α) n) h⟩

/-- the bound after `RemoveUpTo k` from any state satisfying the ghost invariant -/
theorem removeUpTo_bound {q : PNQ α} {last : Int} (h : GInv q last) (k : Int) :
    ∃ q', q.removeUpTo k = Res.ok q' ∧ GInv q' last ∧ (q'.slotsUsed : Int) ≤ max 0 (last - k + 1) := by
  obtain ⟨hi, hl, hlast⟩ := h
  obtain ⟨q', h1, h2, h3, h4⟩ := removeUpTo_spec hi k
  have hg : GInv q' last := by
    refine ⟨h2, hl, fun hne => ?_⟩
    have hne0 : q.entries.toList ≠ [] := by
      intro h0
      have := (nil_iff_slots q).1 h0
      have : q'.slotsUsed = 0 := by omega
      exact hne ((nil_iff_slots q').2 this)
    rw [(h4 hne).2]; exact hlast hne0
  refine ⟨q', h1, hg, ?_⟩
  by_cases hne : q'.entries.toList = []
  · have := (nil_iff_slots q').1 hne
    omega
  · obtain ⟨h5, _⟩ := h4 hne
    have h6 := hg.2.2 hne
    rw [lastPacket_eq h2 hne, toList_length] at h6
    show (q'.entries.len : Int) ≤ _
    omega

end Hy.Pnq
