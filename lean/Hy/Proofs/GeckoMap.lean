/-
  Association-list lemmas and the bookkeeping invariant of the Gecko receiver
  (census of perSource against the table, both caps), C14.  Core Lean only.
-/
import Hy.Model.Gecko
namespace Hy.Gecko
open Hy

section AL
variable {κ α : Type} [DecidableEq κ]

@[simp] theorem aget_nil (k : κ) : aget ([] : List (κ × α)) k = none := rfl
@[simp] theorem adel_nil (k : κ) : adel ([] : List (κ × α)) k = [] := rfl

theorem aget_cons (k' : κ) (v : α) (r : List (κ × α)) (k : κ) :
    aget ((k', v) :: r) k = if k' = k then some v else aget r k := rfl

theorem adel_cons (k' : κ) (v : α) (r : List (κ × α)) (k : κ) :
    adel ((k', v) :: r) k = if k' = k then r else (k', v) :: adel r k := rfl

theorem mem_akeys_iff (l : List (κ × α)) (k : κ) : k ∈ akeys l ↔ (aget l k).isSome := by
  induction l with
  | nil => simp [akeys]
  | cons x r ih =>
    obtain ⟨k', v⟩ := x
    simp only [akeys, List.map_cons, List.mem_cons, aget_cons]
    by_cases h : k' = k
    · simp [h]
    · have h' : ¬ k = k' := fun e => h e.symm
      simp only [h, h', ↓reduceIte, false_or]
      exact ih

theorem aget_none_iff (l : List (κ × α)) (k : κ) : aget l k = none ↔ k ∉ akeys l := by
  rw [mem_akeys_iff]; cases aget l k <;> simp

theorem aget_mem {l : List (κ × α)} {k : κ} {v : α} (h : aget l k = some v) : (k, v) ∈ l := by
  induction l with
  | nil => simp at h
  | cons x r ih =>
    obtain ⟨k', v'⟩ := x
    rw [aget_cons] at h
    by_cases hk : k' = k
    · simp only [hk, ↓reduceIte, Option.some.injEq] at h; subst h; subst hk; simp
    · simp only [hk, ↓reduceIte] at h; exact List.mem_cons_of_mem _ (ih h)

theorem aget_of_mem {l : List (κ × α)} {k : κ} {v : α} (hn : (akeys l).Nodup) (h : (k, v) ∈ l) :
    aget l k = some v := by
  induction l with
  | nil => simp at h
  | cons x r ih =>
    obtain ⟨k', v'⟩ := x
    simp only [akeys, List.map_cons, List.nodup_cons] at hn
    rw [aget_cons]
    rcases List.mem_cons.mp h with h | h
    · simp only [Prod.mk.injEq] at h; simp [h.1, h.2]
    · have : k ∈ akeys r := List.mem_map.mpr ⟨(k, v), h, rfl⟩
      have hne : ¬ k' = k := fun e => hn.1 (e ▸ this)
      simp only [hne, ↓reduceIte]; exact ih hn.2 h

theorem aget_adel_ne (l : List (κ × α)) (k j : κ) (h : j ≠ k) : aget (adel l k) j = aget l j := by
  induction l with
  | nil => rfl
  | cons x r ih =>
    obtain ⟨k', v⟩ := x
    rw [adel_cons]
    by_cases hk : k' = k
    · have : ¬ k' = j := fun e => h (e ▸ hk ▸ rfl)
      simp [hk, aget_cons]; intro e; exact absurd e.symm h
    · simp only [hk, ↓reduceIte, aget_cons, ih]

theorem akeys_adel_sub (l : List (κ × α)) (k j : κ) (h : j ∈ akeys (adel l k)) : j ∈ akeys l := by
  induction l with
  | nil => simp [akeys] at h
  | cons x r ih =>
    obtain ⟨k', v⟩ := x
    rw [adel_cons] at h
    by_cases hk : k' = k
    · simp only [hk, ↓reduceIte] at h; simp only [akeys, List.map_cons, List.mem_cons]; exact Or.inr h
    · simp only [hk, ↓reduceIte, akeys, List.map_cons, List.mem_cons] at h ⊢
      rcases h with h | h
      · exact Or.inl h
      · exact Or.inr (ih h)

theorem akeys_adel_nodup (l : List (κ × α)) (k : κ) (h : (akeys l).Nodup) : (akeys (adel l k)).Nodup := by
  induction l with
  | nil => simp [akeys]
  | cons x r ih =>
    obtain ⟨k', v⟩ := x
    simp only [akeys, List.map_cons, List.nodup_cons] at h
    rw [adel_cons]
    by_cases hk : k' = k
    · simp only [hk, ↓reduceIte]; exact h.2
    · simp only [hk, ↓reduceIte, akeys, List.map_cons, List.nodup_cons]
      exact ⟨fun hm => h.1 (akeys_adel_sub r k k' hm), ih h.2⟩

theorem aget_adel_self (l : List (κ × α)) (k : κ) (h : (akeys l).Nodup) : aget (adel l k) k = none := by
  induction l with
  | nil => rfl
  | cons x r ih =>
    obtain ⟨k', v⟩ := x
    simp only [akeys, List.map_cons, List.nodup_cons] at h
    rw [adel_cons]
    by_cases hk : k' = k
    · simp only [hk, ↓reduceIte]
      rw [aget_none_iff]; exact hk ▸ h.1
    · simp only [hk, ↓reduceIte, aget_cons]; exact ih h.2

theorem adel_absent (l : List (κ × α)) (k : κ) (h : aget l k = none) : adel l k = l := by
  induction l with
  | nil => rfl
  | cons x r ih =>
    obtain ⟨k', v⟩ := x
    rw [aget_cons] at h
    by_cases hk : k' = k
    · simp [hk] at h
    · simp only [hk, ↓reduceIte] at h
      rw [adel_cons]; simp only [hk, ↓reduceIte, ih h]

theorem length_adel (l : List (κ × α)) (k : κ) (h : (aget l k).isSome) : (adel l k).length + 1 = l.length := by
  induction l with
  | nil => simp at h
  | cons x r ih =>
    obtain ⟨k', v⟩ := x
    rw [aget_cons] at h
    rw [adel_cons]
    by_cases hk : k' = k
    · simp [hk]
    · simp only [hk, ↓reduceIte] at h
      simp only [hk, ↓reduceIte, List.length_cons, ih h]

theorem length_adel_le (l : List (κ × α)) (k : κ) : (adel l k).length ≤ l.length := by
  cases h : aget l k with
  | none => rw [adel_absent l k h]; exact Nat.le_refl _
  | some v => have := length_adel l k (by simp [h]); omega

/-- counting bindings whose KEY satisfies `p`: deleting a present key takes its contribution away -/
theorem countP_adel (l : List (κ × α)) (k : κ) (p : κ → Bool) (h : (aget l k).isSome) :
    (adel l k).countP (fun x => p x.1) + (if p k then 1 else 0) = l.countP (fun x => p x.1) := by
  induction l with
  | nil => simp at h
  | cons x r ih =>
    obtain ⟨k', v⟩ := x
    rw [aget_cons] at h
    rw [adel_cons]
    by_cases hk : k' = k
    · subst hk; simp only [↓reduceIte, List.countP_cons]
    · simp only [hk, ↓reduceIte] at h
      have := ih h
      simp only [hk, ↓reduceIte, List.countP_cons]
      omega

@[simp] theorem aget_aput_self (l : List (κ × α)) (k : κ) (v : α) : aget (aput l k v) k = some v := by
  simp [aput, aget_cons]

theorem aget_aput_ne (l : List (κ × α)) (k j : κ) (v : α) (h : j ≠ k) : aget (aput l k v) j = aget l j := by
  have h' : ¬ k = j := fun e => h e.symm
  simp only [aput, aget_cons, h', ↓reduceIte]; exact aget_adel_ne l k j h

theorem akeys_aput_nodup (l : List (κ × α)) (k : κ) (v : α) (h : (akeys l).Nodup) : (akeys (aput l k v)).Nodup := by
  simp only [aput, akeys, List.map_cons, List.nodup_cons]
  refine ⟨?_, akeys_adel_nodup l k h⟩
  have := aget_adel_self l k h
  rw [aget_none_iff] at this; exact this

theorem length_aput_present (l : List (κ × α)) (k : κ) (v : α) (h : (aget l k).isSome) :
    (aput l k v).length = l.length := by
  simp only [aput, List.length_cons]; exact length_adel l k h

theorem length_aput_absent (l : List (κ × α)) (k : κ) (v : α) (h : aget l k = none) :
    (aput l k v).length = l.length + 1 := by
  simp only [aput, List.length_cons, adel_absent l k h]

theorem countP_aput_present (l : List (κ × α)) (k : κ) (v : α) (p : κ → Bool) (h : (aget l k).isSome) :
    (aput l k v).countP (fun x => p x.1) = l.countP (fun x => p x.1) := by
  have := countP_adel l k p h
  simp only [aput, List.countP_cons]
  split <;> simp_all <;> omega

theorem countP_aput_absent (l : List (κ × α)) (k : κ) (v : α) (p : κ → Bool) (h : aget l k = none) :
    (aput l k v).countP (fun x => p x.1) = l.countP (fun x => p x.1) + (if p k then 1 else 0) := by
  simp only [aput, List.countP_cons, adel_absent l k h]
end AL

/-! ### perSource -/

theorem perGet_perInc (per : List (Nat × Nat)) (s j : Nat) :
    perGet (perInc per s) j = if j = s then perGet per s + 1 else perGet per j := by
  unfold perInc
  by_cases h : j = s
  · subst h; simp [perGet]
  · simp only [h, ↓reduceIte]; unfold perGet; rw [aget_aput_ne _ _ _ _ h]

theorem perGet_perDec (per : List (Nat × Nat)) (s j : Nat) (hn : (akeys per).Nodup) :
    perGet (perDec per s) j = if j = s then perGet per s - 1 else perGet per j := by
  unfold perDec
  by_cases h : j = s
  · subst h
    simp only [↓reduceIte]
    split
    · rename_i hz; simp only [perGet] at hz ⊢; rw [aget_adel_self _ _ hn]; simp; omega
    · simp [perGet]
  · simp only [h, ↓reduceIte]
    split
    · unfold perGet; rw [aget_adel_ne _ _ _ h]
    · unfold perGet; rw [aget_aput_ne _ _ _ _ h]

theorem perInc_nodup (per : List (Nat × Nat)) (s : Nat) (hn : (akeys per).Nodup) : (akeys (perInc per s)).Nodup :=
  akeys_aput_nodup _ _ _ hn

theorem perDec_nodup (per : List (Nat × Nat)) (s : Nat) (hn : (akeys per).Nodup) : (akeys (perDec per s)).Nodup := by
  unfold perDec; dsimp only; split
  · exact akeys_adel_nodup _ _ hn
  · exact akeys_aput_nodup _ _ _ hn

/-! ### the invariant -/

/-- number of pending messages of one source -/
def census (st : St) (s : Nat) : Nat := st.tab.countP (fun ke => decide (ke.1.src = s))

structure Inv (st : St) : Prop where
  nodupT : (akeys st.tab).Nodup
  nodupP : (akeys st.per).Nodup
  census : ∀ s, perGet st.per s = census st s
  perCap : ∀ s, perGet st.per s ≤ maxPerSource
  tabCap : st.tab.length ≤ maxTable
  perPos : ∀ s v, aget st.per s = some v → 0 < v      -- the Go map holds no zero counters

theorem inv_init : Inv {} := by
  constructor <;> simp [census, akeys, perGet]

theorem perPos_perInc (per : List (Nat × Nat)) (s : Nat) (h : ∀ j v, aget per j = some v → 0 < v) :
    ∀ j v, aget (perInc per s) j = some v → 0 < v := by
  intro j v hv
  unfold perInc at hv
  by_cases hj : j = s
  · subst hj; simp only [aget_aput_self, Option.some.injEq] at hv; omega
  · rw [aget_aput_ne _ _ _ _ hj] at hv; exact h j v hv

theorem perPos_perDec (per : List (Nat × Nat)) (s : Nat) (hn : (akeys per).Nodup)
    (h : ∀ j v, aget per j = some v → 0 < v) : ∀ j v, aget (perDec per s) j = some v → 0 < v := by
  intro j v hv
  unfold perDec at hv
  dsimp only at hv
  split at hv
  · by_cases hj : j = s
    · subst hj; rw [aget_adel_self _ _ hn] at hv; simp at hv
    · rw [aget_adel_ne _ _ _ hj] at hv; exact h j v hv
  · by_cases hj : j = s
    · subst hj; simp only [aget_aput_self, Option.some.injEq] at hv; omega
    · rw [aget_aput_ne _ _ _ _ hj] at hv; exact h j v hv

theorem inv_drop (st : St) (k : Key) (h : Inv st) : Inv (dropEntry st k) := by
  unfold dropEntry
  split
  · exact h
  · rename_i e he
    have hs : (aget st.tab k).isSome := by simp [he]
    constructor
    · exact akeys_adel_nodup _ _ h.nodupT
    · exact perDec_nodup _ _ h.nodupP
    · intro s
      simp only [perGet_perDec _ _ _ h.nodupP, census]
      have := countP_adel st.tab k (fun j => decide (j.src = s)) hs
      have hc := h.census s; simp only [census] at hc
      have hc' := h.census k.src; simp only [census] at hc'
      by_cases hsk : s = k.src
      · subst hsk; simp only [decide_true, ↓reduceIte] at this ⊢; omega
      · have hne : ¬ k.src = s := fun e => hsk e.symm
        simp only [hsk, ↓reduceIte, hne, decide_false, Bool.false_eq_true] at this ⊢; omega
    · intro s
      simp only [perGet_perDec _ _ _ h.nodupP]
      split
      · have := h.perCap k.src; omega
      · exact h.perCap s
    · have := length_adel_le st.tab k; have := h.tabCap; simp only; omega
    · exact perPos_perDec _ _ h.nodupP h.perPos

theorem drop_tab_ne (st : St) (k j : Key) (hj : j ≠ k) : aget (dropEntry st k).tab j = aget st.tab j := by
  unfold dropEntry; split
  · rfl
  · exact aget_adel_ne _ _ _ hj

theorem drop_tab_self (st : St) (k : Key) (h : (akeys st.tab).Nodup) : aget (dropEntry st k).tab k = none := by
  unfold dropEntry; split
  · assumption
  · exact aget_adel_self _ _ h

theorem drop_per_le (st : St) (k : Key) (s : Nat) (h : (akeys st.per).Nodup) :
    perGet (dropEntry st k).per s ≤ perGet st.per s := by
  unfold dropEntry; split
  · exact Nat.le_refl _
  · simp only [perGet_perDec _ _ _ h]; split
    · rename_i e; subst e; omega
    · exact Nat.le_refl _

theorem drop_len (st : St) (k : Key) (hm : (aget st.tab k).isSome) :
    (dropEntry st k).tab.length + 1 = st.tab.length := by
  unfold dropEntry
  split
  · rename_i hn; simp [hn] at hm
  · exact length_adel _ _ hm

/-- replacing the entry stored under an existing key does not disturb the bookkeeping -/
theorem inv_replace (st : St) (k : Key) (e' : Ent) (h : Inv st) (hk : (aget st.tab k).isSome) :
    Inv { st with tab := aput st.tab k e' } := by
  constructor
  · exact akeys_aput_nodup _ _ _ h.nodupT
  · exact h.nodupP
  · intro s; simp only [census]
    rw [countP_aput_present st.tab k e' (fun j => decide (j.src = s)) hk]; exact h.census s
  · exact h.perCap
  · simp only [length_aput_present _ _ _ hk]; exact h.tabCap
  · exact h.perPos

theorem inv_insert (st : St) (k : Key) (e : Ent) (h : Inv st) (hk : aget st.tab k = none)
    (hper : perGet st.per k.src < maxPerSource) (hlen : st.tab.length < maxTable) :
    Inv { tab := aput st.tab k e, per := perInc st.per k.src } := by
  constructor
  · exact akeys_aput_nodup _ _ _ h.nodupT
  · exact perInc_nodup _ _ h.nodupP
  · intro s
    simp only [census, perGet_perInc]
    rw [countP_aput_absent st.tab k e (fun j => decide (j.src = s)) hk]
    have hc := h.census s; simp only [census] at hc
    have hc' := h.census k.src; simp only [census] at hc'
    by_cases hs : s = k.src
    · subst hs; simp only [↓reduceIte, decide_true]; omega
    · have hne : ¬ k.src = s := fun e => hs e.symm
      simp only [hs, ↓reduceIte, hne, decide_false, Bool.false_eq_true]; omega
  · intro s; simp only [perGet_perInc]; split
    · omega
    · exact h.perCap s
  · simp only [length_aput_absent _ _ _ hk]; omega
  · exact perPos_perInc _ _ h.perPos

/-- a duplicate-free list contained in another is not longer -/
theorem nodup_subset_length (l m : List Nat) (hn : l.Nodup) (hs : ∀ x ∈ l, x ∈ m) : l.length ≤ m.length := by
  induction l generalizing m with
  | nil => simp
  | cons a r ih =>
    simp only [List.nodup_cons] at hn
    have ha : a ∈ m := hs a (by simp)
    have := ih (m.erase a) hn.2 (by
      intro x hx
      have hxa : x ≠ a := fun e => hn.1 (e ▸ hx)
      exact (List.mem_erase_of_ne hxa).mpr (hs x (List.mem_cons_of_mem _ hx)))
    have hl := List.length_erase_of_mem ha
    have : 0 < m.length := List.length_pos_of_mem ha
    simp only [List.length_cons]; omega

/-- the perSource map is never larger than the table: no counter outlives its source's last message -/
theorem per_le_tab (st : St) (h : Inv st) : st.per.length ≤ st.tab.length := by
  have h1 : (akeys st.per).length ≤ ((akeys st.tab).map Key.src).length := by
    apply nodup_subset_length _ _ h.nodupP
    intro s hs
    rw [mem_akeys_iff] at hs
    cases hv : aget st.per s with
    | none => simp [hv] at hs
    | some v =>
      have hpos := h.perPos s v hv
      have hc := h.census s
      simp only [perGet, hv, Option.getD_some, census] at hc
      have : 0 < st.tab.countP (fun ke => decide (ke.1.src = s)) := by omega
      obtain ⟨ke, hke, hp⟩ := List.countP_pos_iff.mp this
      simp only [decide_eq_true_eq] at hp
      exact List.mem_map.mpr ⟨ke.1, List.mem_map.mpr ⟨ke, hke, rfl⟩, hp⟩
  simpa [akeys] using h1

/-! ### eviction picks an entry that exists, and one with the smallest deadline -/

theorem minDeadline_some (l : List (Key × Ent)) (h : l ≠ []) : ∃ m, minDeadline l = some m := by
  cases l with
  | nil => exact absurd rfl h
  | cons x r => obtain ⟨k, e⟩ := x; simp only [minDeadline]; split <;> exact ⟨_, rfl⟩

theorem minDeadline_le (l : List (Key × Ent)) (m : Nat) (h : minDeadline l = some m) :
    ∀ ke ∈ l, m ≤ ke.2.deadline := by
  induction l generalizing m with
  | nil => simp
  | cons x r ih =>
    obtain ⟨k, e⟩ := x
    simp only [minDeadline] at h
    intro ke hke
    split at h
    · rename_i hr
      cases r with
      | nil =>
        simp only [Option.some.injEq] at h; subst h
        simp only [List.mem_cons, List.not_mem_nil, or_false] at hke; subst hke; exact Nat.le_refl _
      | cons y r' => obtain ⟨k2, e2⟩ := y; simp only [minDeadline] at hr; split at hr <;> simp at hr
    · rename_i m' hr
      simp only [Option.some.injEq] at h; subst h
      rcases List.mem_cons.mp hke with hke | hke
      · subst hke; exact Nat.min_le_left _ _
      · exact Nat.le_trans (Nat.min_le_right _ _) (ih m' hr ke hke)

theorem minDeadline_attained (l : List (Key × Ent)) (m : Nat) (h : minDeadline l = some m) :
    ∃ ke ∈ l, ke.2.deadline = m := by
  induction l generalizing m with
  | nil => simp [minDeadline] at h
  | cons x r ih =>
    obtain ⟨k, e⟩ := x
    simp only [minDeadline] at h
    split at h
    · simp only [Option.some.injEq] at h; exact ⟨(k, e), by simp, h⟩
    · rename_i m' hr
      simp only [Option.some.injEq] at h
      by_cases hle : e.deadline ≤ m'
      · exact ⟨(k, e), by simp, by rw [← h]; exact (Nat.min_eq_left hle).symm⟩
      · obtain ⟨ke, hke, hd⟩ := ih m' hr
        refine ⟨ke, List.mem_cons_of_mem _ hke, ?_⟩
        rw [hd, ← h]; exact (Nat.min_eq_right (by omega)).symm

theorem firstWithDeadline_some (l : List (Key × Ent)) (d : Nat) (h : ∃ ke ∈ l, ke.2.deadline = d) :
    ∃ k e, firstWithDeadline d l = some k ∧ (k, e) ∈ l ∧ e.deadline = d := by
  induction l with
  | nil => simp at h
  | cons x r ih =>
    obtain ⟨k, e⟩ := x
    simp only [firstWithDeadline]
    by_cases hd : e.deadline = d
    · simp only [hd, ↓reduceIte]; exact ⟨k, e, rfl, by simp, hd⟩
    · simp only [hd, ↓reduceIte]
      obtain ⟨ke, hke, hked⟩ := h
      rcases List.mem_cons.mp hke with hke | hke
      · subst hke; exact absurd hked hd
      · obtain ⟨k2, e2, h1, h2, h3⟩ := ih ⟨ke, hke, hked⟩
        exact ⟨k2, e2, h1, List.mem_cons_of_mem _ h2, h3⟩

/-- evictOldestLocked removes an existing entry whose deadline is the smallest in the table -/
theorem victimOf_spec (tab : List (Key × Ent)) (tie : Key) (hne : tab ≠ []) (hn : (akeys tab).Nodup) :
    ∃ k e, victimOf tab tie = some k ∧ aget tab k = some e ∧ ∀ ke ∈ tab, e.deadline ≤ ke.2.deadline := by
  obtain ⟨m, hm⟩ := minDeadline_some tab hne
  have hle := minDeadline_le tab m hm
  obtain ⟨k, e, h1, h2, h3⟩ := firstWithDeadline_some tab m (minDeadline_attained tab m hm)
  unfold victimOf
  simp only [hm]
  split
  · rename_i e' he'
    split
    · rename_i hd; exact ⟨tie, e', rfl, he', fun ke hke => hd ▸ hle ke hke⟩
    · exact ⟨k, e, h1, aget_of_mem hn h2, fun ke hke => h3 ▸ hle ke hke⟩
  · exact ⟨k, e, h1, aget_of_mem hn h2, fun ke hke => h3 ▸ hle ke hke⟩

theorem victimOf_nil (tie : Key) : victimOf [] tie = none := rfl

end Hy.Gecko
