/-
  Helper lemmas for C15 (Hy.Model.Stats).  Core Lean only.
-/
import Hy.Model.Stats
set_option linter.unusedSimpArgs false
set_option linter.unusedSectionVars false
namespace Hy.Stats
variable {Id : Type} [DecidableEq Id]

/-! ### maps -/
@[simp] theorem upd_same {α} (f : Id → α) (i : Id) (v : α) : upd f i v i = v := by simp [upd]
theorem upd_other {α} (f : Id → α) (i j : Id) (v : α) (h : j ≠ i) : upd f i v j = f j := by
  simp [upd, h]

theorem foldl_kick (ids : List Id) (k : Id → Bool) (j : Id) :
    (ids.foldl (fun k id => upd k id true) k) j = (k j || decide (j ∈ ids)) := by
  induction ids generalizing k with
  | nil => simp
  | cons a t ih =>
    simp only [List.foldl_cons, ih, List.mem_cons]
    by_cases h : j = a
    · subst h; simp
    · simp [upd_other _ _ _ _ h, h]

theorem kickIds_kick (s : St Id) (ids : List Id) (j : Id) :
    (kickIds s ids).kick j = (s.kick j || decide (j ∈ ids)) := by
  simp [kickIds, foldl_kick]

@[simp] theorem kickIds_stats (s : St Id) (ids : List Id) : (kickIds s ids).stats = s.stats := rfl
@[simp] theorem kickIds_online (s : St Id) (ids : List Id) : (kickIds s ids).online = s.online := rfl

/-! ### run / trace -/
@[simp] theorem run_nil (s : St Id) : run s [] = s := rfl
@[simp] theorem run_cons (s : St Id) (o : Op Id) (os : List (Op Id)) :
    run s (o :: os) = run (step s o).1 os := rfl
theorem run_append (s : St Id) (a b : List (Op Id)) : run s (a ++ b) = run (run s a) b := by
  simp [run, List.foldl_append]

theorem trace_append (s : St Id) (a b : List (Op Id)) :
    trace s (a ++ b) = trace s a ++ trace (run s a) b := by
  induction a generalizing s with
  | nil => rfl
  | cons o os ih => simp [trace, ih]

theorem trace_length (s : St Id) (ops : List (Op Id)) : (trace s ops).length = ops.length := by
  induction ops generalizing s with
  | nil => rfl
  | cons o os ih => simp [trace, ih]

/-! ### what one report does -/
theorem logTraffic_ret (s : St Id) (id : Id) (tx rx : Nat) :
    (logTraffic s id tx rx).2 = !s.kick id := by
  unfold logTraffic; split <;> simp_all

theorem logTraffic_refused (s : St Id) (id : Id) (tx rx : Nat) (h : s.kick id = true) :
    logTraffic s id tx rx = ({ s with kick := upd s.kick id false }, false) := by
  simp [logTraffic, h]

theorem logTraffic_accepted (s : St Id) (id : Id) (tx rx : Nat) (h : s.kick id = false) :
    logTraffic s id tx rx =
      (St.mk (upd s.stats id (some (Entry.mk (((shown s.stats id).tx + tx) % W)
          (((shown s.stats id).rx + rx) % W)))) s.kick s.online, true) := by
  simp [logTraffic, h, shown]

/-! ### conservation -/

theorem allowed_cons (id : Id) (e : Ev Id) (t : List (Ev Id)) :
    (allowed id (e :: t)).tx = (allowed id [e]).tx + (allowed id t).tx ∧
    (allowed id (e :: t)).rx = (allowed id [e]).rx + (allowed id t).rx := by
  rcases e with ⟨o, r⟩
  cases o <;> cases r
  all_goals first | (simp [allowed]; done) | skip
  rename_i i tx rx b
  cases b
  · simp [allowed]
  · by_cases h : i = id <;> simp [allowed, h] <;> omega

theorem cleared_cons (id : Id) (e : Ev Id) (t : List (Ev Id)) :
    (cleared id (e :: t)).tx = (cleared id [e]).tx + (cleared id t).tx ∧
    (cleared id (e :: t)).rx = (cleared id [e]).rx + (cleared id t).rx := by
  rcases e with ⟨o, r⟩
  cases o <;> cases r
  all_goals first | (simp [cleared]; done) | skip
  rename_i c snap
  cases c
  · simp [cleared]
  · simp [cleared]; omega

theorem refusals_cons (id : Id) (e : Ev Id) (t : List (Ev Id)) :
    refusals id (e :: t) = refusals id [e] + refusals id t := by
  rcases e with ⟨o, r⟩
  cases o <;> cases r
  all_goals first | (simp [refusals]; done) | skip
  rename_i i tx rx b
  cases b <;> simp [refusals]

theorem logOnline_stats (s : St Id) (i : Id) (on : Bool) : (logOnline s i on).stats = s.stats := by
  simp only [logOnline]; split
  · rfl
  · split <;> rfl

theorem logOnline_kick (s : St Id) (i : Id) (on : Bool) : (logOnline s i on).kick = s.kick := by
  simp only [logOnline]; split
  · rfl
  · split <;> rfl

/-- one operation: what a clearing snapshot shows + what is left = what was there + what the
    operation added as allowed, up to a multiple of 2^64 -/
theorem step_account (id : Id) (s : St Id) (o : Op Id) :
    (∃ k, (cleared id [(o, (step s o).2)]).tx + (shown (step s o).1.stats id).tx + W * k
        = (shown s.stats id).tx + (allowed id [(o, (step s o).2)]).tx) ∧
    (∃ k, (cleared id [(o, (step s o).2)]).rx + (shown (step s o).1.stats id).rx + W * k
        = (shown s.stats id).rx + (allowed id [(o, (step s o).2)]).rx) := by
  cases o with
  | log i tx rx =>
    by_cases hk : s.kick i = true
    · simp only [step, logTraffic_refused s i tx rx hk, allowed, cleared]
      exact ⟨⟨0, by simp⟩, ⟨0, by simp⟩⟩
    · have hk' : s.kick i = false := by simpa using hk
      simp only [step, logTraffic_accepted s i tx rx hk', allowed, cleared]
      by_cases hi : i = id
      · subst hi
        simp only [shown, upd_same, Option.getD_some, if_true, Nat.zero_add]
        generalize ((s.stats i).getD ⟨0, 0⟩).tx = a
        generalize ((s.stats i).getD ⟨0, 0⟩).rx = b
        refine ⟨⟨(a + tx) / W, ?_⟩, ⟨(b + rx) / W, ?_⟩⟩
        · have := Nat.div_add_mod (a + tx) W; omega
        · have := Nat.div_add_mod (b + rx) W; omega
      · have hne : id ≠ i := fun h => hi h.symm
        simp only [shown, upd_other _ _ _ _ hne, if_neg hi]
        exact ⟨⟨0, by simp⟩, ⟨0, by simp⟩⟩
  | getTraffic c =>
    cases c with
    | true =>
      simp only [step, getTraffic, allowed, cleared, shown, if_pos, Option.getD_none]
      exact ⟨⟨0, by simp⟩, ⟨0, by simp⟩⟩
    | false =>
      simp only [step, getTraffic, allowed, cleared]
      exact ⟨⟨0, by simp⟩, ⟨0, by simp⟩⟩
  | kick ids =>
    simp only [step, allowed, cleared, kickIds_stats]
    exact ⟨⟨0, by simp⟩, ⟨0, by simp⟩⟩
  | online i on =>
    simp only [step, allowed, cleared, logOnline_stats]
    exact ⟨⟨0, by simp⟩, ⟨0, by simp⟩⟩
  | getOnline =>
    simp only [step, allowed, cleared]
    exact ⟨⟨0, by simp⟩, ⟨0, by simp⟩⟩

/-- the invariant behind `conservation`, from an arbitrary state: what the clearing snapshots
    of the rest of the history show + what is left at the end = what was there + what is
    accepted, up to whole multiples of 2^64 (uint64 wrap-arounds) -/
theorem conservation_from (id : Id) (ops : List (Op Id)) : ∀ s : St Id,
    (∃ k, (cleared id (trace s ops)).tx + (shown (run s ops).stats id).tx + W * k
        = (shown s.stats id).tx + (allowed id (trace s ops)).tx) ∧
    (∃ k, (cleared id (trace s ops)).rx + (shown (run s ops).stats id).rx + W * k
        = (shown s.stats id).rx + (allowed id (trace s ops)).rx) := by
  induction ops with
  | nil => intro s; exact ⟨⟨0, by simp [trace, cleared, allowed]⟩, ⟨0, by simp [trace, cleared, allowed]⟩⟩
  | cons o os ih =>
    intro s
    obtain ⟨⟨k1, h1⟩, ⟨k2, h2⟩⟩ := ih (step s o).1
    obtain ⟨⟨j1, g1⟩, ⟨j2, g2⟩⟩ := step_account id s o
    have ha := allowed_cons id (o, (step s o).2) (trace (step s o).1 os)
    have hc := cleared_cons id (o, (step s o).2) (trace (step s o).1 os)
    simp only [run_cons, trace]
    refine ⟨⟨k1 + j1, ?_⟩, ⟨k2 + j2, ?_⟩⟩
    · rw [ha.1, hc.1, Nat.mul_add]; omega
    · rw [ha.2, hc.2, Nat.mul_add]; omega

/-! ### kick -/

/-- one step of `pendingAfter`'s scan -/
def pendStep (id : Id) (p : Bool) (o : Op Id) : Bool :=
  match o with
  | .kick ids => if id ∈ ids then true else p
  | .log i _ _ => if i = id then false else p
  | _ => p

theorem pendingAfter_eq (id : Id) (ops : List (Op Id)) :
    pendingAfter id ops = ops.foldl (pendStep id) false := rfl

theorem step_kick (id : Id) (s : St Id) (o : Op Id) :
    (step s o).1.kick id = pendStep id (s.kick id) o := by
  cases o with
  | log i tx rx =>
    by_cases hk : s.kick i = true
    · simp only [step, logTraffic_refused s i tx rx hk, pendStep]
      by_cases hi : i = id
      · subst hi; simp
      · have hne : id ≠ i := fun h => hi h.symm
        simp [upd_other _ _ _ _ hne, hi]
    · have hk' : s.kick i = false := by simpa using hk
      simp only [step, logTraffic_accepted s i tx rx hk', pendStep]
      by_cases hi : i = id
      · subst hi; simp [hk']
      · simp [hi]
  | getTraffic c => cases c <;> simp [step, getTraffic, pendStep]
  | kick ids =>
    simp only [step, kickIds_kick, pendStep]
    by_cases h : id ∈ ids <;> simp [h]
  | online i on => simp [step, logOnline_kick, pendStep]
  | getOnline => simp [step, pendStep]

theorem run_kick (id : Id) (ops : List (Op Id)) : ∀ s : St Id,
    (run s ops).kick id = ops.foldl (pendStep id) (s.kick id) := by
  induction ops with
  | nil => intro s; rfl
  | cons o os ih => intro s; simp only [run_cons, List.foldl_cons, ih, step_kick]

/-- one step of `effectiveKicks`' scan -/
def effStep (id : Id) (acc : Nat × Bool) (o : Op Id) : Nat × Bool :=
  match o with
  | .kick ids => if id ∈ ids then (if acc.2 then acc else (acc.1 + 1, true)) else acc
  | .log i _ _ => if i = id then (acc.1, false) else acc
  | _ => acc

theorem effectiveKicks_eq (id : Id) (ops : List (Op Id)) :
    effectiveKicks id ops = ops.foldl (effStep id) (0, false) := rfl

theorem effStep_snd (id : Id) (acc : Nat × Bool) (o : Op Id) :
    (effStep id acc o).2 = pendStep id acc.2 o := by
  cases o with
  | kick ids =>
    simp only [effStep, pendStep]
    by_cases h : id ∈ ids
    · by_cases h2 : acc.2 = true <;> simp [h, h2]
    · simp [h]
  | log i tx rx => simp only [effStep, pendStep]; by_cases h : i = id <;> simp [h]
  | getTraffic c => rfl
  | online i on => rfl
  | getOnline => rfl

def b2n (b : Bool) : Nat := if b then 1 else 0
@[simp] theorem b2n_true : b2n true = 1 := rfl
@[simp] theorem b2n_false : b2n false = 0 := rfl

/-- one operation: refusals it produced + outstanding after = effective kicks it added + outstanding before -/
theorem step_kick_account (id : Id) (s : St Id) (o : Op Id) (n : Nat) :
    refusals id [(o, (step s o).2)] + b2n ((step s o).1.kick id) + n
      = (effStep id (n, s.kick id) o).1 + b2n (s.kick id) := by
  cases o with
  | log i tx rx =>
    by_cases hk : s.kick i = true
    · simp only [step, logTraffic_refused s i tx rx hk, effStep, refusals]
      by_cases hi : i = id
      · subst hi; simp [b2n, hk]; omega
      · have hne : id ≠ i := fun h => hi h.symm
        simp [upd_other _ _ _ _ hne, hi]; omega
    · have hk' : s.kick i = false := by simpa using hk
      simp only [step, logTraffic_accepted s i tx rx hk', effStep, refusals]
      by_cases hi : i = id
      · subst hi; simp [b2n, hk']
      · simp [hi]; omega
  | getTraffic c => cases c <;> simp [step, getTraffic, effStep, refusals] <;> omega
  | kick ids =>
    simp only [step, kickIds_kick, effStep, refusals]
    by_cases h : id ∈ ids
    · by_cases h2 : s.kick id = true <;> simp [h, h2, b2n] <;> omega
    · simp [h]; omega
  | online i on => simp [step, logOnline_kick, effStep, refusals]; omega
  | getOnline => simp [step, effStep, refusals]; omega

theorem kick_account_from (id : Id) (ops : List (Op Id)) : ∀ (s : St Id) (n : Nat),
    refusals id (trace s ops) + b2n ((run s ops).kick id) + n
      = (ops.foldl (effStep id) (n, s.kick id)).1 + b2n (s.kick id) := by
  induction ops with
  | nil => intro s n; simp [trace, refusals]; omega
  | cons o os ih =>
    intro s n
    have h1 := step_kick_account id s o n
    have hsnd : (effStep id (n, s.kick id) o).2 = (step s o).1.kick id := by
      rw [effStep_snd, step_kick]
    have h2 := ih (step s o).1 (effStep id (n, s.kick id) o).1
    rw [← hsnd] at h2
    simp only [Prod.eta] at h2
    simp only [run_cons, trace, List.foldl_cons]
    rw [refusals_cons]
    rw [← hsnd] at h1
    omega

theorem eff_mono (id : Id) (ops : List (Op Id)) : ∀ acc : Nat × Bool,
    acc.1 ≤ (ops.foldl (effStep id) acc).1 := by
  induction ops with
  | nil => intro acc; exact Nat.le_refl _
  | cons o os ih =>
    intro acc
    have h1 : acc.1 ≤ (effStep id acc o).1 := by
      cases o with
      | kick ids =>
        simp only [effStep]
        by_cases h : id ∈ ids
        · by_cases h2 : acc.2 = true <;> simp [h, h2]
        · simp [h]
      | log i tx rx => simp only [effStep]; by_cases h : i = id <;> simp [h]
      | getTraffic c => exact Nat.le_refl _
      | online i on => exact Nat.le_refl _
      | getOnline => exact Nat.le_refl _
    exact Nat.le_trans h1 (ih _)

theorem kickCount_cons (id : Id) (o : Op Id) (os : List (Op Id)) :
    kickCount id (o :: os) = kickCount id [o] + kickCount id os := by
  simp [kickCount, List.countP_cons]; omega

/-- effective kicks ≤ kick requests; at least one if there was a request (or one was outstanding) -/
theorem eff_bounds (id : Id) (ops : List (Op Id)) : ∀ acc : Nat × Bool,
    (ops.foldl (effStep id) acc).1 ≤ acc.1 + kickCount id ops ∧
    (1 ≤ kickCount id ops → acc.1 + 1 ≤ (ops.foldl (effStep id) acc).1 + b2n acc.2) := by
  induction ops with
  | nil => intro acc; simp [kickCount]
  | cons o os ih =>
    intro acc
    obtain ⟨ih1, ih2⟩ := ih (effStep id acc o)
    have hm := eff_mono id os (effStep id acc o)
    rw [kickCount_cons]
    simp only [List.foldl_cons]
    generalize kickCount id os = K at ih1 ih2 ⊢
    generalize (os.foldl (effStep id) (effStep id acc o)).1 = E at ih1 ih2 hm ⊢
    have hb : ∀ b : Bool, b2n b = 0 ∨ b2n b = 1 := by intro b; cases b <;> simp
    rcases acc with ⟨n, p⟩
    cases o with
    | kick ids =>
      by_cases h : id ∈ ids
      · have hk : kickCount id [Op.kick ids] = 1 := by simp [kickCount, h]
        cases p with
        | true =>
          have he : effStep id (n, true) (Op.kick ids) = (n, true) := by simp [effStep, h]
          rw [he] at ih1 ih2 hm; rw [hk]; simp only [b2n_true] at ih2 ⊢; omega
        | false =>
          have he : effStep id (n, false) (Op.kick ids) = (n + 1, true) := by simp [effStep, h]
          rw [he] at ih1 ih2 hm; rw [hk]; simp only [b2n_true, b2n_false] at ih2 ⊢; omega
      · have hk : kickCount id [Op.kick ids] = 0 := by simp [kickCount, h]
        have he : effStep id (n, p) (Op.kick ids) = (n, p) := by simp [effStep, h]
        rw [he] at ih1 ih2 hm; rw [hk]; simp only [Nat.zero_add] at ih1 ih2 ⊢; exact ⟨ih1, ih2⟩
    | log i tx rx =>
      have hk : kickCount id [Op.log i tx rx] = 0 := by simp [kickCount]
      by_cases hi : i = id
      · have he : effStep id (n, p) (Op.log i tx rx) = (n, false) := by simp [effStep, hi]
        rw [he] at ih1 ih2 hm; rw [hk]; simp only [Nat.zero_add, b2n_false] at ih1 ih2 ⊢
        have := hb p
        exact ⟨ih1, fun h => by have := ih2 h; omega⟩
      · have he : effStep id (n, p) (Op.log i tx rx) = (n, p) := by simp [effStep, hi]
        rw [he] at ih1 ih2 hm; rw [hk]; simp only [Nat.zero_add] at ih1 ih2 ⊢; exact ⟨ih1, ih2⟩
    | getTraffic c =>
      have hk : kickCount id [Op.getTraffic c] = 0 := by simp [kickCount]
      have he : effStep id (n, p) (Op.getTraffic c) = (n, p) := rfl
      rw [he] at ih1 ih2 hm; rw [hk]; simp only [Nat.zero_add] at ih1 ih2 ⊢; exact ⟨ih1, ih2⟩
    | online i on =>
      have hk : kickCount id [Op.online i on] = 0 := by simp [kickCount]
      have he : effStep id (n, p) (Op.online i on) = (n, p) := rfl
      rw [he] at ih1 ih2 hm; rw [hk]; simp only [Nat.zero_add] at ih1 ih2 ⊢; exact ⟨ih1, ih2⟩
    | getOnline =>
      have hk : kickCount id [(Op.getOnline : Op Id)] = 0 := by simp [kickCount]
      have he : effStep id (n, p) (Op.getOnline : Op Id) = (n, p) := rfl
      rw [he] at ih1 ih2 hm; rw [hk]; simp only [Nat.zero_add] at ih1 ih2 ⊢; exact ⟨ih1, ih2⟩

/-- with no kick issued while one is outstanding, every kick request is effective -/
theorem eff_solo (id : Id) (ops : List (Op Id)) : ∀ acc : Nat × Bool,
    (∀ pre ids post, ops = pre ++ .kick ids :: post → id ∈ ids →
        pre.foldl (pendStep id) acc.2 = false) →
    (ops.foldl (effStep id) acc).1 = acc.1 + kickCount id ops := by
  induction ops with
  | nil => intro acc _; simp [kickCount]
  | cons o os ih =>
    intro acc hs
    have hs' : ∀ pre ids post, os = pre ++ .kick ids :: post → id ∈ ids →
        pre.foldl (pendStep id) (effStep id acc o).2 = false := by
      intro pre ids post he hin
      have := hs (o :: pre) ids post (by simp [he]) hin
      simpa [List.foldl_cons, effStep_snd] using this
    have ih' := ih (effStep id acc o) hs'
    rw [kickCount_cons]
    simp only [List.foldl_cons, ih']
    cases o with
    | kick ids =>
      by_cases h : id ∈ ids
      · have h2 : acc.2 = false := by simpa using hs [] ids os rfl h
        simp [effStep, h, h2, kickCount]; omega
      · simp [effStep, h, kickCount]
    | log i tx rx => by_cases hi : i = id <;> simp [effStep, hi, kickCount]
    | getTraffic c => simp [effStep, kickCount]
    | online i on => simp [effStep, kickCount]
    | getOnline => simp [effStep, kickCount]

/-! ### online -/

/-- one step of `balance`'s scan -/
def balStep (id : Id) (b : Nat) (o : Op Id) : Nat :=
  match o with
  | .online i on => if i = id then (if on then b + 1 else b - 1) else b
  | _ => b

theorem balance_eq (id : Id) (ops : List (Op Id)) : balance id ops = ops.foldl (balStep id) 0 := rfl

theorem ofCount_getD (n : Nat) : (ofCount n).getD 0 = (n : Int) := by
  unfold ofCount; split
  · simp_all
  · simp

theorem logOnline_same (s : St Id) (id : Id) (on : Bool) (b : Nat) (h : s.online id = ofCount b) :
    (logOnline s id on).online id = ofCount (if on then b + 1 else b - 1) := by
  simp only [logOnline, h, ofCount_getD]
  cases on with
  | true => simp [ofCount]
  | false =>
    simp only [Bool.false_eq_true, if_false]
    split
    · have : b - 1 = 0 := by omega
      simp [ofCount, this]
    · have h1 : ¬ (b - 1 = 0) := by omega
      have h2 : ((b - 1 : Nat) : Int) = (b : Int) - 1 := by omega
      simp [ofCount, h1, h2]

theorem logOnline_other (s : St Id) (i id : Id) (on : Bool) (h : id ≠ i) :
    (logOnline s i on).online id = s.online id := by
  simp only [logOnline]; split
  · simp [upd_other _ _ _ _ h]
  · split <;> simp [upd_other _ _ _ _ h]

theorem logTraffic_online (s : St Id) (i : Id) (tx rx : Nat) :
    (logTraffic s i tx rx).1.online = s.online := by
  unfold logTraffic; split <;> rfl

/-- operations other than `LogOnlineState` leave `OnlineMap` alone -/
theorem step_online_other (s : St Id) (o : Op Id) (h : ∀ i on, o ≠ .online i on) :
    (step s o).1.online = s.online := by
  cases o with
  | log i tx rx => simp [step, logTraffic_online]
  | getTraffic c => cases c <;> simp [step, getTraffic]
  | kick ids => simp [step]
  | online i on => exact absurd rfl (h i on)
  | getOnline => simp [step]

theorem step_online (id : Id) (s : St Id) (o : Op Id) (b : Nat) (h : s.online id = ofCount b) :
    (step s o).1.online id = ofCount (balStep id b o) := by
  cases o with
  | online i on =>
    simp only [step, balStep]
    by_cases hi : i = id
    · subst hi; simp only [if_true]; exact logOnline_same s i on b h
    · have hne : id ≠ i := fun h => hi h.symm
      simp only [if_neg hi, logOnline_other s i id on hne, h]
  | log i tx rx => rw [step_online_other s _ (by intro i on; simp)]; simpa [balStep] using h
  | getTraffic c => rw [step_online_other s _ (by intro i on; simp)]; simpa [balStep] using h
  | kick ids => rw [step_online_other s _ (by intro i on; simp)]; simpa [balStep] using h
  | getOnline => rw [step_online_other s _ (by intro i on; simp)]; simpa [balStep] using h

theorem run_online (id : Id) (ops : List (Op Id)) : ∀ (s : St Id) (b : Nat),
    s.online id = ofCount b → (run s ops).online id = ofCount (ops.foldl (balStep id) b) := by
  induction ops with
  | nil => intro s b h; exact h
  | cons o os ih => intro s b h; exact ih _ _ (step_online id s o b h)

/-- with every offline preceded by its online, the floored count is the plain difference -/
theorem balance_paired (id : Id) (ops : List (Op Id)) : ∀ b0 : Nat,
    (∀ pre, pre <+: ops → offCount id pre ≤ b0 + onCount id pre) →
    ops.foldl (balStep id) b0 + offCount id ops = b0 + onCount id ops := by
  induction ops with
  | nil => intro b0 _; simp [offCount, onCount]
  | cons o os ih =>
    intro b0 hp
    have hcons : ∀ pre, pre <+: os → offCount id (o :: pre) ≤ b0 + onCount id (o :: pre) :=
      fun pre h => hp (o :: pre) ((List.cons_prefix_cons).2 ⟨rfl, h⟩)
    have h1 := hp [o] ((List.cons_prefix_cons).2 ⟨rfl, List.nil_prefix⟩)
    simp only [List.foldl_cons]
    cases o with
    | online i on =>
      by_cases hi : i = id
      · subst hi
        cases on with
        | true =>
          have := ih (b0 + 1) (fun pre h => by
            have := hcons pre h
            simp [offCount, onCount, isNote, List.countP_cons] at this ⊢; omega)
          simp [balStep, offCount, onCount, isNote, List.countP_cons] at this ⊢; omega
        | false =>
          simp [offCount, onCount, isNote, List.countP_cons] at h1
          have := ih (b0 - 1) (fun pre h => by
            have := hcons pre h
            simp [offCount, onCount, isNote, List.countP_cons] at this ⊢; omega)
          simp [balStep, offCount, onCount, isNote, List.countP_cons] at this ⊢; omega
      · have := ih b0 (fun pre h => by
          have := hcons pre h
          simp [offCount, onCount, isNote, List.countP_cons, hi] at this ⊢; omega)
        simp [balStep, offCount, onCount, isNote, List.countP_cons, hi] at this ⊢; omega
    | log i tx rx =>
      have := ih b0 (fun pre h => by
        have := hcons pre h
        simp [offCount, onCount, isNote, List.countP_cons] at this ⊢; omega)
      simp [balStep, offCount, onCount, isNote, List.countP_cons] at this ⊢; omega
    | getTraffic c =>
      have := ih b0 (fun pre h => by
        have := hcons pre h
        simp [offCount, onCount, isNote, List.countP_cons] at this ⊢; omega)
      simp [balStep, offCount, onCount, isNote, List.countP_cons] at this ⊢; omega
    | kick ids =>
      have := ih b0 (fun pre h => by
        have := hcons pre h
        simp [offCount, onCount, isNote, List.countP_cons] at this ⊢; omega)
      simp [balStep, offCount, onCount, isNote, List.countP_cons] at this ⊢; omega
    | getOnline =>
      have := ih b0 (fun pre h => by
        have := hcons pre h
        simp [offCount, onCount, isNote, List.countP_cons] at this ⊢; omega)
      simp [balStep, offCount, onCount, isNote, List.countP_cons] at this ⊢; omega

/-- a finite way to establish `WellPaired` (used for concrete instances) -/
theorem wellPaired_of_takes (id : Id) (ops : List (Op Id))
    (h : ∀ k, k < ops.length + 1 → offCount id (ops.take k) ≤ onCount id (ops.take k)) :
    WellPaired id ops := by
  intro pre hp
  have hl := List.IsPrefix.length_le hp
  rw [List.prefix_iff_eq_take.1 hp]
  exact h _ (by omega)

/-! ### the server's notifications -/
namespace Server

theorem liveCount_upd_ge (conns : Nat → Conn Id) (id : Id) (c : Nat) (v : Conn Id) :
    ∀ n, n ≤ c → liveCount (upd conns c v) id n = liveCount conns id n := by
  intro n
  induction n with
  | zero => intro _; rfl
  | succ n ih =>
    intro h
    have hne : n ≠ c := by omega
    simp only [liveCount, ih (by omega), upd_other _ _ _ _ hne]

theorem liveCount_upd_lt (conns : Nat → Conn Id) (id : Id) (c : Nat) (v : Conn Id) :
    ∀ n, c < n → liveCount (upd conns c v) id n + b2n (live (conns c) id)
                = liveCount conns id n + b2n (live v id) := by
  intro n
  induction n with
  | zero => intro h; omega
  | succ n ih =>
    intro h
    by_cases hc : c = n
    · subst hc
      simp only [liveCount, liveCount_upd_ge conns id c v c (Nat.le_refl _), upd_same, b2n]
      omega
    · have hne : n ≠ c := fun h => hc h.symm
      have := ih (by omega)
      simp only [liveCount, upd_other _ _ _ _ hne]
      omega

def CensusInv (n : Nat) (y : Sys Id) : Prop :=
  ∀ id, y.stats.online id = ofCount (liveCount y.conns id n)

def NotesInv (y : Sys Id) : Prop :=
  ∀ cid, notesOf cid y.notes = expectedNotes (y.conns cid)

theorem notesOf_append_same (cid : Nat) (notes : List (Nat × Id × Bool)) (x : Id × Bool) :
    notesOf cid (notes ++ [(cid, x)]) = notesOf cid notes ++ [x] := by
  simp [notesOf, List.filter_append]

theorem notesOf_append_other (cid c : Nat) (notes : List (Nat × Id × Bool)) (x : Id × Bool)
    (h : c ≠ cid) : notesOf cid (notes ++ [(c, x)]) = notesOf cid notes := by
  simp [notesOf, List.filter_append, h]

/-- what `connStep` can do, as three cases -/
theorem connStep_cases (c : Conn Id) (a : Act Id) :
    (connStep c a = (c, none)) ∨
    (∃ id, c.phase = .serving ∧ c.auth = none ∧
        connStep c a = (Conn.mk c.phase (some id), some (id, true))) ∨
    (c.phase = .serving ∧ connStep c a = (Conn.mk .returned c.auth, none)) ∨
    (c.phase = .returned ∧
        connStep c a = (Conn.mk .done c.auth, c.auth.map (fun id => (id, false)))) := by
  cases a with
  | authReq res =>
    rcases c with ⟨ph, au⟩
    cases ph <;> cases au <;> cases res <;> simp [connStep]
  | serveReturn =>
    rcases c with ⟨ph, au⟩
    cases ph <;> simp [connStep]
  | finish =>
    rcases c with ⟨ph, au⟩
    cases ph <;> simp [connStep]

theorem sysStep_api_conns (n : Nat) (y : Sys Id) (o : Op Id) :
    (sysStep n y (.api o)).conns = y.conns ∧ (sysStep n y (.api o)).notes = y.notes ∧
    (sysStep n y (.api o)).stats.online = y.stats.online := by
  cases o with
  | online i on => simp [sysStep]
  | log i tx rx => simp [sysStep, step_online_other]
  | getTraffic c => simp [sysStep, step_online_other]
  | kick ids => simp [sysStep, step_online_other]
  | getOnline => simp [sysStep, step_online_other]

theorem live_congr (c d : Conn Id) (id : Id) (ha : c.auth = d.auth)
    (hp : (c.phase = .done) ↔ (d.phase = .done)) : live c id = live d id := by
  simp [live, ha, hp]

theorem sysStep_conn_none (n : Nat) (y : Sys Id) (cid : Nat) (a : Act Id) (c' : Conn Id)
    (hlt : cid < n) (h : connStep (y.conns cid) a = (c', none)) :
    sysStep n y (.conn cid a) = { y with conns := upd y.conns cid c' } := by
  simp [sysStep, hlt, h]

theorem sysStep_conn_some (n : Nat) (y : Sys Id) (cid : Nat) (a : Act Id) (c' : Conn Id)
    (id : Id) (on : Bool) (hlt : cid < n) (h : connStep (y.conns cid) a = (c', some (id, on))) :
    sysStep n y (.conn cid a) = { conns := upd y.conns cid c', stats := logOnline y.stats id on,
                                  notes := y.notes ++ [(cid, id, on)] } := by
  simp [sysStep, hlt, h]

theorem sysStep_conn_ge (n : Nat) (y : Sys Id) (cid : Nat) (a : Act Id) (h : ¬ cid < n) :
    sysStep n y (.conn cid a) = y := by
  simp [sysStep, h]

theorem upd_self (conns : Nat → Conn Id) (c : Nat) : upd conns c (conns c) = conns := by
  funext j; by_cases hj : j = c <;> simp [upd, hj]


theorem census_step (n : Nat) (y : Sys Id) (l : Label Id) (h : CensusInv n y) :
    CensusInv n (sysStep n y l) := by
  cases l with
  | api o =>
    obtain ⟨hc, _, ho⟩ := sysStep_api_conns n y o
    intro id; rw [ho, hc]; exact h id
  | conn cid a =>
    by_cases hlt : cid < n
    · rcases connStep_cases (y.conns cid) a with h0 | ⟨id0, hph, hau, h1⟩ | ⟨hph, h2⟩ | ⟨hph, h3⟩
      · -- nothing happens
        rw [sysStep_conn_none n y cid a _ hlt h0, upd_self]; exact h
      · -- accepted auth: online id0
        rw [sysStep_conn_some n y cid a _ id0 true hlt h1]
        intro id
        have hl := liveCount_upd_lt y.conns id cid (Conn.mk (y.conns cid).phase (some id0)) n hlt
        have hb : live (y.conns cid) id = false := by simp [live, hau]
        by_cases hid : id = id0
        · subst hid
          have ha : live (Conn.mk (y.conns cid).phase (some id)) id = true := by simp [live, hph]
          rw [hb, ha] at hl; simp only [b2n_true, b2n_false] at hl
          have := logOnline_same y.stats id true _ (h id)
          simp only [if_true] at this
          show (logOnline y.stats id true).online id = ofCount (liveCount (upd y.conns cid _) id n)
          rw [this]; congr 1; omega
        · have ha : live (Conn.mk (y.conns cid).phase (some id0)) id = false := by
            simp [live]; intro h'; exact absurd h'.symm hid
          rw [hb, ha] at hl; simp only [b2n_true, b2n_false] at hl
          show (logOnline y.stats id0 true).online id = ofCount (liveCount (upd y.conns cid _) id n)
          rw [logOnline_other y.stats id0 id true hid, h id]
          congr 1; omega
      · -- ServeQUICConn returns: nobody's liveness changes
        rw [sysStep_conn_none n y cid a _ hlt h2]
        intro id
        have hl := liveCount_upd_lt y.conns id cid (Conn.mk .returned (y.conns cid).auth) n hlt
        have : live (Conn.mk .returned (y.conns cid).auth) id = live (y.conns cid) id := by
          simp [live, hph]
        rw [this] at hl
        show y.stats.online id = ofCount (liveCount (upd y.conns cid _) id n)
        rw [h id]; congr 1; omega
      · -- handler finished: offline if authenticated
        cases hau : (y.conns cid).auth with
        | none =>
          have h3' : connStep (y.conns cid) a = (Conn.mk .done (y.conns cid).auth, none) := by
            rw [h3, hau]; rfl
          rw [sysStep_conn_none n y cid a _ hlt h3']
          intro id
          have hl := liveCount_upd_lt y.conns id cid (Conn.mk .done (y.conns cid).auth) n hlt
          have h1 : live (Conn.mk .done (y.conns cid).auth) id = false := by simp [live]
          have h2 : live (y.conns cid) id = false := by simp [live, hau]
          rw [h1, h2] at hl; simp only [b2n_true, b2n_false] at hl
          show y.stats.online id = ofCount (liveCount (upd y.conns cid _) id n)
          rw [h id]; congr 1; omega
        | some id0 =>
          have h3' : connStep (y.conns cid) a
              = (Conn.mk .done (y.conns cid).auth, some (id0, false)) := by
            rw [h3, hau]; rfl
          rw [sysStep_conn_some n y cid a _ id0 false hlt h3']
          intro id
          have hl := liveCount_upd_lt y.conns id cid (Conn.mk .done (y.conns cid).auth) n hlt
          have h1 : live (Conn.mk .done (y.conns cid).auth) id = false := by simp [live]
          by_cases hid : id = id0
          · subst hid
            have h2 : live (y.conns cid) id = true := by simp [live, hau, hph]
            rw [h1, h2] at hl; simp only [b2n_true, b2n_false] at hl
            have := logOnline_same y.stats id false _ (h id)
            simp only [Bool.false_eq_true, if_false] at this
            show (logOnline y.stats id false).online id = ofCount (liveCount (upd y.conns cid _) id n)
            rw [this]; congr 1; omega
          · have h2 : live (y.conns cid) id = false := by
              simp [live, hau]; intro h'; exact absurd h'.symm hid
            rw [h1, h2] at hl; simp only [b2n_true, b2n_false] at hl
            show (logOnline y.stats id0 false).online id = ofCount (liveCount (upd y.conns cid _) id n)
            rw [logOnline_other y.stats id0 id false hid, h id]
            congr 1; omega
    · rw [sysStep_conn_ge n y cid a hlt]; exact h

theorem notes_step (n : Nat) (y : Sys Id) (l : Label Id) (h : NotesInv y) :
    NotesInv (sysStep n y l) := by
  cases l with
  | api o =>
    obtain ⟨hc, hn, _⟩ := sysStep_api_conns n y o
    intro cid; rw [hn, hc]; exact h cid
  | conn c a =>
    by_cases hlt : c < n
    · rcases connStep_cases (y.conns c) a with h0 | ⟨id0, hph, hau, h1⟩ | ⟨hph, h2⟩ | ⟨hph, h3⟩
      · rw [sysStep_conn_none n y c a _ hlt h0, upd_self]; exact h
      · rw [sysStep_conn_some n y c a _ id0 true hlt h1]
        intro cid
        by_cases hc : cid = c
        · subst hc
          show notesOf cid (y.notes ++ [(cid, id0, true)]) = expectedNotes (upd y.conns cid _ cid)
          rw [upd_same, notesOf_append_same, h cid]
          simp [expectedNotes, hau, hph]
        · have hne : c ≠ cid := fun h => hc h.symm
          show notesOf cid (y.notes ++ [(c, id0, true)]) = expectedNotes (upd y.conns c _ cid)
          rw [upd_other _ _ _ _ hc, notesOf_append_other _ _ _ _ hne, h cid]
      · rw [sysStep_conn_none n y c a _ hlt h2]
        intro cid
        by_cases hc : cid = c
        · subst hc
          show notesOf cid y.notes = expectedNotes (upd y.conns cid _ cid)
          rw [upd_same, h cid]
          simp [expectedNotes, hph]
        · show notesOf cid y.notes = expectedNotes (upd y.conns c _ cid)
          rw [upd_other _ _ _ _ hc, h cid]
      · cases hau : (y.conns c).auth with
        | none =>
          have h3' : connStep (y.conns c) a = (Conn.mk .done (y.conns c).auth, none) := by
            rw [h3, hau]; rfl
          rw [sysStep_conn_none n y c a _ hlt h3']
          intro cid
          by_cases hc : cid = c
          · subst hc
            show notesOf cid y.notes = expectedNotes (upd y.conns cid _ cid)
            rw [upd_same, h cid]
            simp [expectedNotes, hau]
          · show notesOf cid y.notes = expectedNotes (upd y.conns c _ cid)
            rw [upd_other _ _ _ _ hc, h cid]
        | some id0 =>
          have h3' : connStep (y.conns c) a
              = (Conn.mk .done (y.conns c).auth, some (id0, false)) := by
            rw [h3, hau]; rfl
          rw [sysStep_conn_some n y c a _ id0 false hlt h3']
          intro cid
          by_cases hc : cid = c
          · subst hc
            show notesOf cid (y.notes ++ [(cid, id0, false)]) = expectedNotes (upd y.conns cid _ cid)
            rw [upd_same, notesOf_append_same, h cid]
            simp [expectedNotes, hau, hph]
          · have hne : c ≠ cid := fun h => hc h.symm
            show notesOf cid (y.notes ++ [(c, id0, false)]) = expectedNotes (upd y.conns c _ cid)
            rw [upd_other _ _ _ _ hc, notesOf_append_other _ _ _ _ hne, h cid]
    · rw [sysStep_conn_ge n y c a hlt]; exact h

theorem liveCount_fresh (id : Id) : ∀ n, liveCount (fun _ => (Conn.fresh : Conn Id)) id n = 0 := by
  intro n
  induction n with
  | zero => rfl
  | succ n ih => simp only [liveCount, ih]; simp [live, Conn.fresh]

theorem sysRun_inv (n : Nat) (sched : List (Label Id)) :
    CensusInv n (sysRun n sched) ∧ NotesInv (sysRun n sched) := by
  have : ∀ y : Sys Id, CensusInv n y ∧ NotesInv y →
      CensusInv n (sched.foldl (sysStep n) y) ∧ NotesInv (sched.foldl (sysStep n) y) := by
    induction sched with
    | nil => intro y h; exact h
    | cons l ls ih => intro y h; exact ih _ ⟨census_step n y l h.1, notes_step n y l h.2⟩
  apply this
  constructor
  · intro id; simp [Sys.init, Stats.init, liveCount_fresh, ofCount]
  · intro cid; simp [Sys.init, notesOf, expectedNotes, Conn.fresh]

end Server

end Hy.Stats
