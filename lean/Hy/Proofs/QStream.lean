/- Helper lemmas for the QStream / tcpConn part of C06. -/
import Hy.Model.QStream
import Hy.Proofs.Relay
set_option linter.unusedSimpArgs false
namespace Hy.QStream
open Hy Hy.Relay

theorem op_keeps_open (c : TcpC) (o : COp) (h : c.orig.send = .open) :
    (c.op o).orig.send = .open ∧ (c.op o).orig.sent = c.orig.sent ++ writesOf [o] := by
  cases o <;>
    simp [TcpC.op, exec, QMeth.body, tcpWriteM, tcpSetDeadlineM, tcpSetReadDeadlineM, tcpSetWriteDeadlineM,
      QStream.writeP, QStream.setDeadlineP, QStream.setReadDeadlineP, QStream.setWriteDeadlineP,
      Prim.exec, Q.write, Q.setDeadline, Q.setReadDeadline, Q.setWriteDeadline, writesOf, h]

theorem run_keeps_open (ops : List COp) (c : TcpC) (h : c.orig.send = .open) :
    (c.run ops).orig.send = .open ∧ (c.run ops).orig.sent = c.orig.sent ++ writesOf ops := by
  induction ops generalizing c with
  | nil => simp [TcpC.run, writesOf, h]
  | cons o rest ih =>
    obtain ⟨h1, h2⟩ := op_keeps_open c o h
    obtain ⟨h3, h4⟩ := ih (c.op o) h1
    refine ⟨by simpa [TcpC.run] using h3, ?_⟩
    have : writesOf (o :: rest) = writesOf [o] ++ writesOf rest := by
      cases o <;> simp [writesOf]
    simp only [TcpC.run, List.foldl_cons] at h4 ⊢
    rw [h4, h2, this, List.append_assoc]

/-- the script of a stream that delivers `cs` and then the peer's FIN (an exhausted script
    reads `(0, EOF)`) -/
def srcOfChunks (cs : List Bytes) : List Rd := cs.map (fun c => ⟨c, none⟩)

theorem cleanSrc_of_noerr (l : List Rd) (h : ∀ r ∈ l, r.err = none) : CleanSrc l := by
  induction l with
  | nil => simp [CleanSrc]
  | cons a t ih =>
    cases t with
    | nil => simp [CleanSrc, h a (by simp)]
    | cons b t' =>
      exact ⟨h a (by simp), ih (fun r hr => h r (by simp [hr]))⟩

theorem splitData_noerr (buf f : Nat) (d : Bytes) : ∀ r ∈ splitData buf none f d, r.err = none := by
  induction f generalizing d with
  | zero => intro r hr; simp [splitData] at hr; simp [hr]
  | succ f ih =>
    intro r hr
    unfold splitData at hr
    split at hr
    · simp at hr; simp [hr]
    · simp only [List.mem_cons] at hr
      rcases hr with rfl | hr
      · rfl
      · exact ih _ r hr

theorem deliver_chunks_clean (buf : Nat) (cs : List Bytes) : CleanSrc (deliver buf (srcOfChunks cs)) := by
  apply cleanSrc_of_noerr
  intro r hr
  simp only [deliver, srcOfChunks, List.mem_flatMap, List.mem_map] at hr
  obtain ⟨x, ⟨c, _, rfl⟩, hx⟩ := hr
  exact splitData_noerr buf _ _ r hx

theorem deliver_chunks_data (buf : Nat) (cs : List Bytes) :
    ((deliver buf (srcOfChunks cs)).map (·.data)).flatten = cs.flatten := by
  rw [deliver_data]
  simp [srcOfChunks, List.map_map, Function.comp_def]

end Hy.QStream
