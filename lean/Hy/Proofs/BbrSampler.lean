import Hy.Model.BbrSampler
import Hy.Proofs.Pnq
/-
  C12(c): proofs about the bandwidth-sampler model (Hy/Model/BbrSampler.lean), on top of the ring
  and packet-number-queue lemmas of layer (a).
-/
set_option linter.unusedSimpArgs false
set_option linter.unusedVariables false
set_option linter.unusedSectionVars false
namespace Hy.Sampler
open Hy Hy.Ring Hy.Pnq

/-! ### Go integer arithmetic -/

/-- `x` is an int64 value -/
def inI64 (x : Int) : Prop := -two63 ≤ x ∧ x < two63

theorem u64_i64 (x : Int) : u64 (i64 x) = u64 x := by
  simp only [u64, i64, two63, two64]; omega

theorem u64_le (x : Int) : u64 x ≤ maxU64 := by
  simp only [u64, two64, maxU64]; omega

/-- the only way `Bandwidth(int64 x)` is zero: `x` is a multiple of 2^64 -/
theorem u64_i64_eq_zero_iff (x : Int) : u64 (i64 x) = 0 ↔ x % two64 = 0 := by
  simp only [u64, i64, two63, two64]; omega

theorem u64_i64_ne_zero (x : Int) (h0 : 0 < x) (h1 : x < two64) : u64 (i64 x) ≠ 0 := by
  simp only [u64, i64, two63, two64] at *; omega

theorem u64_pos_i64 (x : Int) (h : ¬ i64 x ≤ 0) : u64 (i64 x) ≠ 0 := by
  simp only [u64, i64, two63, two64] at *; omega

theorem u64_natCast (n : Nat) (h : n < 18446744073709551616) : u64 (n : Int) = n := by
  simp only [u64, two64]; omega

theorem inI64_zero : inI64 0 := by simp only [inI64, two63]; omega

theorem bandwidthFromDelta_ok (bytes delta : Int) (h : u64 delta ≠ 0) :
    ∃ r, bandwidthFromDelta bytes delta = .ok r ∧ r ≤ maxU64 := by
  simp only [bandwidthFromDelta, h, ↓reduceIte]
  exact ⟨_, rfl, u64_le _⟩

theorem bandwidthFromDelta_le (bytes delta : Int) (r : Nat) (h : bandwidthFromDelta bytes delta = .ok r) :
    r ≤ maxU64 := by
  simp only [bandwidthFromDelta] at h
  split at h
  · cases h
  · cases h; exact u64_le _

/-- without wrap-around BandwidthFromDelta is the truncating quotient bytes·10^9/Δt·8 (bits per second) -/
theorem bandwidthFromDelta_exact (bytes delta : Nat) (hd : 0 < delta) (hd2 : delta < 2^63)
    (hb : bytes * 1000000000 < 2^64) (hr : bytes * 1000000000 / delta * 8 < 2^64) :
    bandwidthFromDelta (bytes : Int) (delta : Int) = .ok (bytes * 1000000000 / delta * 8) := by
  have h1 : u64 (delta : Int) = delta := u64_natCast _ (by omega)
  have h2 : u64 (bytes : Int) = bytes := u64_natCast _ (by omega)
  have h3 : u64 (((bytes : Nat) : Int) * 1000000000) = bytes * 1000000000 := by
    have : ((bytes : Nat) : Int) * 1000000000 = ((bytes * 1000000000 : Nat) : Int) := by omega
    rw [this]; exact u64_natCast _ (by omega)
  have h4 : u64 (((bytes * 1000000000 / delta : Nat) : Int) * 8) = bytes * 1000000000 / delta * 8 := by
    have : ((bytes * 1000000000 / delta : Nat) : Int) * 8 = ((bytes * 1000000000 / delta * 8 : Nat) : Int) := by
      omega
    rw [this]; exact u64_natCast _ (by omega)
  have hne : ¬ delta = 0 := by omega
  simp only [bandwidthFromDelta, h1, h2, h3, h4, hne, ↓reduceIte]

/-! ### `OkP P r`: `r` returns a value satisfying `P` -/

def OkP {α : Type} (P : α → Prop) (r : Res α) : Prop := ∃ a, r = .ok a ∧ P a

theorem OkP.ok {α : Type} {P : α → Prop} {a : α} (h : P a) : OkP P (.ok a) := ⟨a, rfl, h⟩

theorem OkP.bind {α β : Type} {Q : α → Prop} {P : β → Prop} {r : Res α} {f : α → Res β}
    (h1 : OkP Q r) (h2 : ∀ a, Q a → OkP P (f a)) : OkP P (r.bind f) := by
  obtain ⟨a, e, q⟩ := h1
  rw [e]; exact h2 a q

theorem bind_eq_ok {α β : Type} (r : Res α) (f : α → Res β) (b : β) :
    r.bind f = .ok b ↔ ∃ a, r = .ok a ∧ f a = .ok b := by
  cases r <;> simp [Res.bind]

/-! ### contents of the packet-number queue (what layer (a)'s specs leave implicit) -/

section Content
variable {α : Type} [Inhabited α]

theorem emplace_content {q : PNQ α} (h : Pnq.Inv q) (pn : Int) (v : α) (b : Bool) (q' : PNQ α)
    (he : q.emplace pn (some v) = .ok (b, q')) :
    ∃ g, q'.entries.toList = q.entries.toList ∨
      q'.entries.toList = q.entries.toList ++ List.replicate g default ++ [⟨true, v⟩] := by
  have hr := Inv.rel h.toInv0
  unfold PNQ.emplace at he
  by_cases hinv : pn = Pnq.invalidPn
  · simp only [hinv, ↓reduceIte] at he; cases he; exact ⟨0, Or.inl rfl⟩
  · simp only [hinv, ↓reduceIte] at he
    cases hemp : q.isEmpty with
    | true =>
      obtain ⟨e, h1, h2⟩ := rel_push hr (⟨true, v⟩ : Entry α)
      simp only [hemp, ↓reduceIte, h1, Res.bind_eq, Res.bind_ok, Res.pure_eq] at he
      cases he
      exact ⟨0, Or.inr (by simpa using h2.2)⟩
    | false =>
      simp only [hemp, Bool.false_eq_true, ↓reduceIte] at he
      by_cases hle : pn ≤ q.lastPacket
      · simp only [hle, ↓reduceIte] at he; cases he; exact ⟨0, Or.inl rfl⟩
      · simp only [hle, ↓reduceIte] at he
        by_cases hg0 : pn - q.first - (q.entries.len : Int) > 0
        · obtain ⟨e1, h1, h2⟩ := pushN_spec (pn - q.first - (q.entries.len : Int)).toNat _ _ hr
          obtain ⟨e2, h3, h4⟩ := rel_push h2 (⟨true, v⟩ : Entry α)
          simp only [hg0, ↓reduceIte, h1, h3, Res.bind_eq, Res.bind_ok, Res.pure_eq] at he
          cases he
          exact ⟨_, Or.inr h4.2⟩
        · obtain ⟨e2, h3, h4⟩ := rel_push hr (⟨true, v⟩ : Entry α)
          simp only [hg0, ↓reduceIte, h3, Res.bind_eq, Res.bind_ok, Res.pure_eq] at he
          cases he
          exact ⟨0, Or.inr (by simpa using h4.2)⟩

theorem removeUpTo_content {q : PNQ α} (h : Pnq.Inv q) (n : Int) (q' : PNQ α)
    (he : q.removeUpTo n = .ok q') : ∀ e ∈ q'.entries.toList, e ∈ q.entries.toList := by
  have hr := Inv.rel h.toInv0
  obtain ⟨q1, k, h1, h2, h3, h4, h5, h6⟩ :=
    removeLoop_spec n _ q.entries.len q hr (by rw [toList_length]; exact Nat.le_refl _) h.firstOk
  have hi0 : Inv0 q1 := by
    refine { wf := h3.1, census := ?_, firstOk := ?_ }
    · rw [h3.2, h4]
      have := nPresent_take_drop k q.entries.toList
      have := h.census
      omega
    · rw [h3.2]; intro hne
      have : q.entries.toList ≠ [] := by intro h0; rw [h0] at hne; simp at hne
      have := h.firstOk this
      omega
  obtain ⟨q2, h7, h8, h9, h10⟩ := clearup_spec hi0
  have : q.removeUpTo n = .ok q2 := by simp [PNQ.removeUpTo, h1, h7]
  rw [this] at he
  cases he
  intro e hmem
  rw [h9, h3.2] at hmem
  exact List.mem_of_mem_drop ((List.dropWhile_sublist _).subset hmem)

theorem getEntry_content {q : PNQ α} (h : Pnq.Inv q) (pn : Int) :
    q.getEntry pn = .ok none ∨
    ∃ e, e ∈ q.entries.toList ∧ e.present = true ∧ q.getEntry pn = .ok (some e.val) := by
  unfold PNQ.getEntry
  rcases getWrapper_spec h pn with h1 | ⟨i, hi, _, hp, h1⟩
  · left; simp [h1]
  · right
    exact ⟨q.entries.toList[i], List.getElem_mem hi, hp, by simp [h1]⟩

end Content

/-! ### the A0-candidate ring loops of `chooseA0Point` -/

theorem len_pos_of_not_empty (r : RB AckPoint) (w : r.WF) (h : r.empty = false) : 0 < r.len := by
  rcases Nat.eq_zero_or_pos r.len with h0 | h0
  · rw [(empty_iff r w).2 h0] at h; cases h
  · exact h0

/-- the search loop only evaluates `Offset(i)` for `i < Len()`; a hit lies in `[start, Len())` -/
theorem findA0_ok (total : Int) (r : RB AckPoint) (w : r.WF) : ∀ (fuel i : Nat),
    ∃ o, findA0 total fuel i r = .ok o ∧ ∀ j, o = some j → i ≤ j ∧ j < r.len := by
  intro fuel
  induction fuel with
  | zero => intro i; exact ⟨none, rfl, fun j h => by cases h⟩
  | succ k ih =>
    intro i
    by_cases hi : i < r.len
    · have ho := offset_spec r w i hi
      simp only [findA0, hi, ↓reduceIte, ho, Res.bind_eq, Res.bind_ok, Res.pure_eq]
      by_cases hp : (r.get i).totalBytesAcked > total
      · simp only [hp, ↓reduceIte]
        exact ⟨some i, rfl, fun j h => by cases h; omega⟩
      · simp only [hp, ↓reduceIte]
        obtain ⟨o, h1, h2⟩ := ih (i + 1)
        exact ⟨o, h1, fun j h => by have := h2 j h; omega⟩
    · exact ⟨none, by simp only [findA0, hi, ↓reduceIte], fun j h => by cases h⟩

theorem popN_ok : ∀ (n : Nat) (r : RB AckPoint), r.WF → n ≤ r.len → ∃ r', popN n r = .ok r' ∧ r'.WF := by
  intro n
  induction n with
  | zero => intro r w _; exact ⟨r, rfl, w⟩
  | succ k ih =>
    intro r w hn
    obtain ⟨r1, h1, _, w1, hl⟩ := popFront_spec r w (by omega)
    obtain ⟨r2, h2, w2⟩ := ih r1 w1 (by omega)
    exact ⟨r2, by simp only [popN, h1, Res.bind_eq, Res.bind_ok, h2], w2⟩

/-- `for k := 0; k < Len()-1; k++ { PopFront() }` never pops an empty buffer -/
theorem popWhileK_ok : ∀ (fuel k : Nat) (r : RB AckPoint), r.WF → ∃ r', popWhileK fuel k r = .ok r' ∧ r'.WF := by
  intro fuel
  induction fuel with
  | zero => intro k r w; exact ⟨r, rfl, w⟩
  | succ f ih =>
    intro k r w
    by_cases hc : (k : Int) < (r.len : Int) - 1
    · obtain ⟨r1, h1, _, w1, _⟩ := popFront_spec r w (by omega)
      obtain ⟨r2, h2, w2⟩ := ih (k + 1) r1 w1
      exact ⟨r2, by simp only [popWhileK, hc, ↓reduceIte, h1, Res.bind_eq, Res.bind_ok, h2], w2⟩
    · exact ⟨r, by simp only [popWhileK, hc, ↓reduceIte], w⟩

/-- `chooseA0Point`: no panic; only the ring changes, and it stays well-formed -/
theorem chooseA0Point_ok (b : Sampler) (w : b.a0.WF) (total : Int) :
    ∃ a p, b.chooseA0Point total = .ok ({ b with a0 := a }, p) ∧ a.WF := by
  unfold Sampler.chooseA0Point
  cases hemp : b.a0.empty with
  | true => exact ⟨b.a0, none, by simp only [↓reduceIte, Res.pure_eq], w⟩
  | false =>
    have hlen : 0 < b.a0.len := len_pos_of_not_empty b.a0 w hemp
    simp only [Bool.false_eq_true, ↓reduceIte]
    by_cases h1 : b.a0.len = 1
    · rw [if_pos h1]
      simp only [front_spec b.a0 w hlen, Res.bind_eq, Res.bind_ok, Res.pure_eq]
      exact ⟨b.a0, _, rfl, w⟩
    · rw [if_neg h1]
      obtain ⟨o, ho, hj⟩ := findA0_ok total b.a0 w b.a0.len 1
      simp only [ho, Res.bind_eq, Res.bind_ok]
      cases o with
      | none =>
        obtain ⟨r', hr', w'⟩ := popWhileK_ok b.a0.len 0 b.a0 w
        simp only [back_spec b.a0 w hlen, hr', Res.bind_ok, Res.pure_eq]
        exact ⟨r', _, rfl, w'⟩
      | some i =>
        obtain ⟨hi1, hi2⟩ := hj i rfl
        have hcast : (i : Int) - 1 = ((i - 1 : Nat) : Int) := by omega
        simp only [hcast, offset_spec b.a0 w (i - 1) (by omega), Res.bind_ok]
        by_cases hgt : i > 1
        · obtain ⟨r', hr', w'⟩ := popN_ok (i - 1) b.a0 w (by omega)
          simp only [hgt, ↓reduceIte, hr', Res.bind_ok, Res.pure_eq]
          exact ⟨r', _, rfl, w'⟩
        · simp only [hgt, ↓reduceIte, Res.pure_eq, Res.bind_ok]
          exact ⟨b.a0, _, rfl, w⟩

/-! ### invariants -/

/-- a stored record carries int64 send times (they are `monotime.Time` values in Go) -/
def EntOk (c : ConnState) : Prop := inI64 c.sentTime ∧ inI64 c.lastAckedPacketSentTime

/-- every present entry of the packet map carries int64 send times -/
def MapOk (q : PNQ ConnState) : Prop := ∀ e ∈ q.entries.toList, e.present = true → EntOk e.val

/-- the sampler's own `lastAckedPacketSentTime` and the send times stored in the map are int64 values -/
def TimesI64 (b : Sampler) : Prop := inI64 b.lastAckedPacketSentTime ∧ MapOk b.map

/-- sampler invariant: the packet map satisfies the queue invariant of layer (a) (with ghost `last` = last packet
    number Emplace accepted), the A0-candidate ring is well-formed, and all stored send times are int64 values
    (third conjunct, needed for the first `BandwidthFromDelta` divisor, see `u64_i64_eq_zero_iff`) -/
def SInv (b : Sampler) (last : Int) : Prop := Pnq.GInv b.map last ∧ b.a0.WF ∧ TimesI64 b

/-- the sampler's API as the sender uses it -/
inductive Call where
  | sent (t pn bytes inflight : Int) (retransmittable : Bool)
  | event (ackTime : Int) (acked lost : List (Int × Int)) (maxBw upper : Nat) (rtc : Nat)
  | appLimited
  | resetTracker (h : Int) (t : Nat)
  | removeObsolete (leastUnacked : Int)

/-- QUIC packet numbers are ≥ 0 (−1 is the invalid marker) and the send time is an int64 value (`monotime.Time`);
    nothing else is required: ack times, sizes, bandwidths, ack/loss lists (any numbers, any order, duplicates,
    unknown packets, both empty) are arbitrary -/
def Call.wellFormed : Call → Prop
  | .sent t pn _ _ _ => -1 ≤ pn ∧ inI64 t
  | _ => True

def Sampler.apply (b : Sampler) : Call → Res Sampler
  | .sent t pn bytes infl r => b.onPacketSent t pn bytes infl r
  | .event t a l mb ub rtc => do let (b', _) ← b.onCongestionEvent t a l mb ub rtc; pure b'
  | .appLimited => .ok b.onAppLimited
  | .resetTracker h t => .ok (b.resetMaxAckHeightTracker h t)
  | .removeObsolete lu => b.removeObsoletePackets lu

def Sampler.runCalls : Sampler → List Call → Res Sampler
  | b, [] => .ok b
  | b, c :: cs => do let b' ← b.apply c; b'.runCalls cs

def maxSent : List Call → Int
  | [] => -1
  | .sent _ pn _ _ _ :: cs => max pn (maxSent cs)
  | _ :: cs => maxSent cs

/-- changing anything but the map, the ring and `lastAckedPacketSentTime` keeps the invariant -/
theorem SInv.frame {b b' : Sampler} {last : Int} (h : SInv b last) (hm : b'.map = b.map) (hw : b'.a0.WF)
    (ht : inI64 b'.lastAckedPacketSentTime) : SInv b' last := by
  refine ⟨?_, hw, ht, ?_⟩
  · rw [hm]; exact h.1
  · rw [hm]; exact h.2.2.2

theorem new_sinv (w m c : Nat) : SInv (Sampler.new w m c) (-1) := by
  refine ⟨new_ginv m, init_wf c, inI64_zero, ?_⟩
  intro e he
  have : (Sampler.new w m c).map.entries.toList = [] := init_toList (α := Entry ConnState) m
  rw [this] at he
  cases he

theorem enableOA_sinv (b : Sampler) (last : Int) (h : SInv b last) : SInv b.enableOverestimateAvoidance last := by
  unfold Sampler.enableOverestimateAvoidance
  split
  · exact h
  · exact h.frame rfl h.2.1 h.2.2.1

theorem setReduce_sinv (b : Sampler) (last : Int) (h : SInv b last) (v : Bool) :
    SInv (b.setReduceExtraAcked v) last :=
  h.frame rfl h.2.1 h.2.2.1

theorem recentUpdate_frame (b : Sampler) (t x : Int) :
    (recentUpdate b t x).map = b.map ∧ (recentUpdate b t x).a0 = b.a0 ∧
    (recentUpdate b t x).lastAckedPacketSentTime = b.lastAckedPacketSentTime ∧
    (recentUpdate b t x).overestimateAvoidance = b.overestimateAvoidance ∧
    (recentUpdate b t x).totalBytesSent = b.totalBytesSent := by
  unfold recentUpdate
  dsimp only
  split
  · exact ⟨rfl, rfl, rfl, rfl, rfl⟩
  · split <;> exact ⟨rfl, rfl, rfl, rfl, rfl⟩

/-! ### OnPacketSent -/

/-- the tail of `OnPacketSent`: build the record and `Emplace` it -/
def sentFin (b : Sampler) (sentTime pn bytes inflight : Int) : Res Sampler :=
  (b.map.emplace pn (some
      { sentTime := sentTime, size := bytes,
        totalBytesSentAtLastAckedPacket := b.totalBytesSentAtLastAckedPacket,
        lastAckedPacketSentTime := b.lastAckedPacketSentTime,
        lastAckedPacketAckTime := b.lastAckedPacketAckTime,
        sts := { isValid := true, isAppLimited := b.isAppLimited, totalBytesSent := b.totalBytesSent,
                 totalBytesAcked := b.totalBytesAcked, totalBytesLost := b.totalBytesLost,
                 bytesInFlight := i64 (inflight + bytes) } })).bind fun x => .ok { b with map := x.2 }

/-- the `inflight == 0 && overestimateAvoidance` branch after `recentAckPoints.Update` -/
def sentOA (b3 : Sampler) (t pn bytes infl : Int) : Res Sampler :=
  (b3.a0.clear.pushBack b3.recent1).bind fun a =>
    sentFin { b3 with a0 := a, totalBytesSentAtLastAckedPacket := b3.totalBytesSent,
                      lastAckedPacketSentTime := t } t pn bytes infl

theorem onPacketSent_eq (b : Sampler) (t pn bytes infl : Int) (r : Bool) :
    b.onPacketSent t pn bytes infl r =
      if !r then .ok { b with lastSentPacket := pn }
      else if infl = 0 then
        if b.overestimateAvoidance then
          sentOA (recentUpdate { b with lastSentPacket := pn, totalBytesSent := i64 (b.totalBytesSent + bytes),
                                        lastAckedPacketAckTime := t, recent0 := default, recent1 := default }
                    t b.totalBytesAcked) t pn bytes infl
        else
          sentFin { b with lastSentPacket := pn, totalBytesSent := i64 (b.totalBytesSent + bytes),
                           lastAckedPacketAckTime := t,
                           totalBytesSentAtLastAckedPacket := i64 (b.totalBytesSent + bytes),
                           lastAckedPacketSentTime := t } t pn bytes infl
      else sentFin { b with lastSentPacket := pn, totalBytesSent := i64 (b.totalBytesSent + bytes) }
             t pn bytes infl := by
  rfl

theorem SInv.recentUpdate {b : Sampler} {last : Int} (h : SInv b last) (t x : Int) :
    SInv (recentUpdate b t x) last := by
  obtain ⟨h1, h2, h3, _, _⟩ := recentUpdate_frame b t x
  exact h.frame h1 (by rw [h2]; exact h.2.1) (by rw [h3]; exact h.2.2.1)

/-- what one call does to the ghost: unchanged, or the packet number just emplaced -/
def SentPost (last pn : Int) (b' : Sampler) : Prop := ∃ last', SInv b' last' ∧ (last' = last ∨ last' = pn)

theorem sentFin_ok (b : Sampler) (last : Int) (h : SInv b last) (t pn bytes infl : Int) (hpn : -1 ≤ pn)
    (ht : inI64 t) : OkP (SentPost last pn) (sentFin b t pn bytes infl) := by
  obtain ⟨⟨hi, hl, hlast⟩, hw, hts, hmo⟩ := h
  unfold sentFin
  obtain ⟨f, q', h1, h2, h3, h4⟩ := emplace_spec hi pn hpn (some
      { sentTime := t, size := bytes,
        totalBytesSentAtLastAckedPacket := b.totalBytesSentAtLastAckedPacket,
        lastAckedPacketSentTime := b.lastAckedPacketSentTime,
        lastAckedPacketAckTime := b.lastAckedPacketAckTime,
        sts := { isValid := true, isAppLimited := b.isAppLimited, totalBytesSent := b.totalBytesSent,
                 totalBytesAcked := b.totalBytesAcked, totalBytesLost := b.totalBytesLost,
                 bytesInFlight := i64 (infl + bytes) } })
  obtain ⟨g, hc⟩ := emplace_content hi pn _ f q' h1
  rw [h1, Res.bind_ok]
  have hmo' : MapOk q' := by
    intro e he hp
    rcases hc with hc | hc
    · rw [hc] at he; exact hmo e he hp
    · rw [hc] at he
      simp only [List.mem_append, List.mem_replicate, List.mem_singleton] at he
      rcases he with (he | ⟨_, he⟩) | he
      · exact hmo e he hp
      · rw [he] at hp; cases hp
      · rw [he]; exact ⟨ht, hts⟩
  cases f with
  | false =>
    have := h3 rfl
    exact OkP.ok ⟨last, ⟨⟨h2, hl, by rw [this]; exact hlast⟩, hw, hts, hmo'⟩, Or.inl rfl⟩
  | true =>
    obtain ⟨h5, _, _, _⟩ := h4 rfl
    exact OkP.ok ⟨pn, ⟨⟨h2, hpn, fun _ => h5⟩, hw, hts, hmo'⟩, Or.inr rfl⟩

theorem sentOA_ok (b : Sampler) (last : Int) (h : SInv b last) (t pn bytes infl : Int) (hpn : -1 ≤ pn)
    (ht : inI64 t) : OkP (SentPost last pn) (sentOA b t pn bytes infl) := by
  unfold sentOA
  obtain ⟨a, ha, _, wa⟩ := pushBack_spec b.a0.clear (clear_wf b.a0) b.recent1
  rw [ha, Res.bind_ok]
  refine sentFin_ok _ last ?_ t pn bytes infl hpn ht
  exact h.frame rfl wa ht

theorem onPacketSent_ok (b : Sampler) (last : Int) (h : SInv b last) (t pn bytes infl : Int) (r : Bool)
    (hpn : -1 ≤ pn) (ht : inI64 t) : OkP (SentPost last pn) (b.onPacketSent t pn bytes infl r) := by
  rw [onPacketSent_eq]
  cases r with
  | false =>
    refine OkP.ok ⟨last, ?_, Or.inl rfl⟩
    exact h.frame rfl h.2.1 h.2.2.1
  | true =>
    simp only [Bool.not_true, Bool.false_eq_true, ↓reduceIte]
    by_cases hz : infl = 0
    · rw [if_pos hz]
      by_cases hoa : b.overestimateAvoidance = true
      · rw [if_pos hoa]
        refine sentOA_ok _ last (SInv.recentUpdate ?_ _ _) t pn bytes infl hpn ht
        exact h.frame rfl h.2.1 h.2.2.1
      · rw [if_neg hoa]
        refine sentFin_ok _ last ?_ t pn bytes infl hpn ht
        exact h.frame rfl h.2.1 ht
    · rw [if_neg hz]
      refine sentFin_ok _ last ?_ t pn bytes infl hpn ht
      exact h.frame rfl h.2.1 h.2.2.1

/-! ### congestion events: the map is only read -/

/-- what every step inside `OnCongestionEvent` keeps: the map is untouched (`= m`), the ring is well-formed and
    `lastAckedPacketSentTime` is an int64 value -/
structure EInv (m : PNQ ConnState) (b : Sampler) : Prop where
  hmap : b.map = m
  wf : b.a0.WF
  ts : inI64 b.lastAckedPacketSentTime

theorem onPacketLost_ok {m : PNQ ConnState} (hm : Pnq.Inv m) (b : Sampler) (hb : EInv m b) (pn bytes : Int) :
    OkP (fun x => EInv m x.1) (b.onPacketLost pn bytes) := by
  obtain ⟨v, hv⟩ := getEntry_noPanic hm pn
  unfold Sampler.onPacketLost
  simp only [Res.bind_eq, Res.pure_eq, hb.hmap, hv, Res.bind_ok]
  cases v <;> exact OkP.ok ⟨rfl, hb.wf, hb.ts⟩

theorem lostLoop_ok {m : PNQ ConnState} (hm : Pnq.Inv m) (l : List (Int × Int)) :
    ∀ (b : Sampler) (st : SendTimeState), EInv m b → OkP (fun x => EInv m x.1) (lostLoop l b st) := by
  induction l with
  | nil => intro b st hb; exact OkP.ok hb
  | cons p rest ih =>
    intro b st hb
    obtain ⟨pn, bytes⟩ := p
    simp only [lostLoop, Res.bind_eq]
    refine OkP.bind (onPacketLost_ok hm b hb pn bytes) ?_
    intro x hx
    obtain ⟨b', s⟩ := x
    exact ih b' _ hx

/-- the loss loop returns a valid send state only if it started with one or saw at least one packet -/
theorem lostLoop_valid (l : List (Int × Int)) (b : Sampler) (st : SendTimeState) (b' : Sampler)
    (st' : SendTimeState) (h : lostLoop l b st = .ok (b', st')) (hv : st'.isValid = true) :
    st.isValid = true ∨ l ≠ [] := by
  cases l with
  | nil => simp only [lostLoop] at h; cases h; exact Or.inl hv
  | cons p rest => exact Or.inr (by simp)

/-! #### onPacketAcknowledged, cut at its join points -/

def ackUpd1 (b : Sampler) (ackTime pn : Int) (c : ConnState) : Sampler :=
  { b with lastAckedPacket := pn,
           totalBytesAcked := i64 (b.totalBytesAcked + c.size),
           totalBytesSentAtLastAckedPacket := c.sts.totalBytesSent,
           lastAckedPacketSentTime := c.sentTime,
           lastAckedPacketAckTime := ackTime }

def ackUpd2 (ackTime : Int) (b : Sampler) : Sampler :=
  if b.overestimateAvoidance then recentUpdate b ackTime b.totalBytesAcked else b

def ackUpd3 (pn : Int) (b : Sampler) : Sampler :=
  if b.isAppLimited ∧ (b.endOfAppLimitedPhase = invalidPn ∨ pn > b.endOfAppLimitedPhase)
  then { b with isAppLimited := false } else b

/-- the sampler state after the bookkeeping part of `onPacketAcknowledged` -/
def ackUpd (b : Sampler) (ackTime pn : Int) (c : ConnState) : Sampler :=
  ackUpd3 pn (ackUpd2 ackTime (ackUpd1 b ackTime pn c))

/-- the ack-rate part -/
def ackFin (ackTime : Int) (c : ConnState) (sendRate : Nat) (b : Sampler) (a0 : AckPoint) :
    Res (Sampler × BandwidthSample) :=
  if i64 (ackTime - a0.ackTime) ≤ 0 then .ok (b, newBandwidthSample)
  else
    (bandwidthFromDelta (i64 (b.totalBytesAcked - a0.totalBytesAcked)) (i64 (ackTime - a0.ackTime))).bind
      fun ackRate =>
        .ok (b, { bandwidth := min sendRate ackRate, rtt := i64 (ackTime - c.sentTime), sendRate := sendRate,
                  stateAtSend := toSendTimeState c })

/-- the choice of the A0 point followed by the ack-rate part -/
def ackRest (ackTime : Int) (c : ConnState) (sendRate : Nat) (b : Sampler) : Res (Sampler × BandwidthSample) :=
  if b.overestimateAvoidance then
    (b.chooseA0Point c.sts.totalBytesAcked).bind fun x =>
      match x.2 with
      | some p => ackFin ackTime c sendRate x.1 p
      | none => ackFin ackTime c sendRate x.1
          { ackTime := c.lastAckedPacketAckTime, totalBytesAcked := c.sts.totalBytesAcked }
  else ackFin ackTime c sendRate b { ackTime := c.lastAckedPacketAckTime, totalBytesAcked := c.sts.totalBytesAcked }

theorem onPacketAcknowledged_eq (b : Sampler) (t pn : Int) :
    b.onPacketAcknowledged t pn =
      (b.map.getEntry pn).bind fun e =>
        match e with
        | none => .ok ({ b with lastAckedPacket := pn }, newBandwidthSample)
        | some c =>
          if c.lastAckedPacketSentTime = 0 then .ok (ackUpd b t pn c, newBandwidthSample)
          else if c.sentTime > c.lastAckedPacketSentTime then
            (bandwidthFromDelta (i64 (c.sts.totalBytesSent - c.totalBytesSentAtLastAckedPacket))
              (i64 (c.sentTime - c.lastAckedPacketSentTime))).bind fun sr => ackRest t c sr (ackUpd b t pn c)
          else ackRest t c infBandwidth (ackUpd b t pn c) := by
  rfl

theorem ackUpd2_frame (t : Int) (b : Sampler) :
    (ackUpd2 t b).map = b.map ∧ (ackUpd2 t b).a0 = b.a0 ∧
    (ackUpd2 t b).lastAckedPacketSentTime = b.lastAckedPacketSentTime := by
  unfold ackUpd2
  split
  · obtain ⟨h1, h2, h3, _, _⟩ := recentUpdate_frame b t b.totalBytesAcked
    exact ⟨h1, h2, h3⟩
  · exact ⟨rfl, rfl, rfl⟩

theorem ackUpd3_frame (pn : Int) (b : Sampler) :
    (ackUpd3 pn b).map = b.map ∧ (ackUpd3 pn b).a0 = b.a0 ∧
    (ackUpd3 pn b).lastAckedPacketSentTime = b.lastAckedPacketSentTime := by
  unfold ackUpd3
  split <;> exact ⟨rfl, rfl, rfl⟩

theorem ackUpd_einv {m : PNQ ConnState} (b : Sampler) (hb : EInv m b) (t pn : Int) (c : ConnState)
    (hc : inI64 c.sentTime) : EInv m (ackUpd b t pn c) := by
  obtain ⟨a1, a2, a3⟩ := ackUpd2_frame t (ackUpd1 b t pn c)
  obtain ⟨b1, b2, b3⟩ := ackUpd3_frame pn (ackUpd2 t (ackUpd1 b t pn c))
  unfold ackUpd
  refine ⟨?_, ?_, ?_⟩
  · rw [b1, a1]; exact hb.hmap
  · rw [b2, a2]; exact hb.wf
  · rw [b3, a3]; exact hc

theorem ackFin_ok {m : PNQ ConnState} (t : Int) (c : ConnState) (sr : Nat) (b : Sampler) (hb : EInv m b)
    (a0 : AckPoint) : OkP (fun x => EInv m x.1) (ackFin t c sr b a0) := by
  unfold ackFin
  by_cases h : i64 (t - a0.ackTime) ≤ 0
  · rw [if_pos h]; exact OkP.ok hb
  · rw [if_neg h]
    obtain ⟨r, hr, _⟩ := bandwidthFromDelta_ok (i64 (b.totalBytesAcked - a0.totalBytesAcked))
      (i64 (t - a0.ackTime)) (u64_pos_i64 _ h)
    rw [hr, Res.bind_ok]
    exact OkP.ok hb

theorem ackRest_ok {m : PNQ ConnState} (t : Int) (c : ConnState) (sr : Nat) (b : Sampler) (hb : EInv m b) :
    OkP (fun x => EInv m x.1) (ackRest t c sr b) := by
  unfold ackRest
  by_cases hoa : b.overestimateAvoidance = true
  · rw [if_pos hoa]
    obtain ⟨a, p, h, wa⟩ := chooseA0Point_ok b hb.wf c.sts.totalBytesAcked
    rw [h, Res.bind_ok]
    have hb' : EInv m { b with a0 := a } := ⟨hb.hmap, wa, hb.ts⟩
    cases p with
    | none => exact ackFin_ok t c sr _ hb' _
    | some p => exact ackFin_ok t c sr _ hb' p
  · rw [if_neg hoa]
    exact ackFin_ok t c sr b hb _

/-- `onPacketAcknowledged`: no panic (both `BandwidthFromDelta` divisors are non-zero) -/
theorem onPacketAcknowledged_ok {m : PNQ ConnState} (hm : Pnq.Inv m) (hmo : MapOk m) (b : Sampler)
    (hb : EInv m b) (t pn : Int) : OkP (fun x => EInv m x.1) (b.onPacketAcknowledged t pn) := by
  rw [onPacketAcknowledged_eq, hb.hmap]
  rcases getEntry_content hm pn with h | ⟨e, hmem, hp, h⟩
  · rw [h, Res.bind_ok]
    exact OkP.ok ⟨rfl, hb.wf, hb.ts⟩
  · rw [h, Res.bind_ok]
    obtain ⟨hc1, hc2⟩ := hmo e hmem hp
    have hU := ackUpd_einv b hb t pn e.val hc1
    show OkP _ (if e.val.lastAckedPacketSentTime = 0 then _ else _)
    by_cases h0 : e.val.lastAckedPacketSentTime = 0
    · rw [if_pos h0]; exact OkP.ok hU
    · rw [if_neg h0]
      by_cases hs : e.val.sentTime > e.val.lastAckedPacketSentTime
      · rw [if_pos hs]
        have hne : u64 (i64 (e.val.sentTime - e.val.lastAckedPacketSentTime)) ≠ 0 := by
          apply u64_i64_ne_zero
          · omega
          · simp only [inI64, two63] at hc1 hc2; simp only [two64]; omega
        obtain ⟨r, hr, _⟩ := bandwidthFromDelta_ok
          (i64 (e.val.sts.totalBytesSent - e.val.totalBytesSentAtLastAckedPacket)) _ hne
        rw [hr, Res.bind_ok]
        exact ackRest_ok t e.val r _ hU
      · rw [if_neg hs]
        exact ackRest_ok t e.val infBandwidth _ hU

theorem ackLoop_ok {m : PNQ ConnState} (hm : Pnq.Inv m) (hmo : MapOk m) (t : Int) (l : List (Int × Int)) :
    ∀ (b : Sampler) (a : AckAcc), EInv m b → OkP (fun x => EInv m x.1) (ackLoop t l b a) := by
  induction l with
  | nil => intro b a hb; exact OkP.ok hb
  | cons p rest ih =>
    intro b a hb
    obtain ⟨pn, bytes⟩ := p
    simp only [ackLoop, Res.bind_eq]
    refine OkP.bind (onPacketAcknowledged_ok hm hmo b hb t pn) ?_
    intro x hx
    obtain ⟨b', s⟩ := x
    dsimp only
    split
    · exact ih b' _ hx
    · exact ih b' _ hx

/-- the ack loop returns a valid send state only if it started with one or saw at least one packet -/
theorem ackLoop_valid (t : Int) (l : List (Int × Int)) (b : Sampler) (a : AckAcc) (b' : Sampler) (a' : AckAcc)
    (h : ackLoop t l b a = .ok (b', a')) (hv : a'.lastAcked.isValid = true) :
    a.lastAcked.isValid = true ∨ l ≠ [] := by
  cases l with
  | nil => simp only [ackLoop] at h; cases h; exact Or.inl hv
  | cons p rest => exact Or.inr (by simp)

/-! #### onAckEventEnd / OnCongestionEvent -/

theorem onAckEventEnd_eq (b : Sampler) (bw : Nat) (nm : Bool) (rtc : Nat) :
    b.onAckEventEnd bw nm rtc =
      if i64 (b.totalBytesAcked - b.totalBytesAckedAfterLastAckEvent) = 0 then .ok (b, 0)
      else
        let u := b.tracker.update bw nm rtc b.lastSentPacket b.lastAckedPacket b.lastAckedPacketAckTime
                  (i64 (b.totalBytesAcked - b.totalBytesAckedAfterLastAckEvent))
        let b2 : Sampler := { b with totalBytesAckedAfterLastAckEvent := b.totalBytesAcked, tracker := u.1 }
        if b2.overestimateAvoidance ∧ u.2 = 0 then
          (b2.a0.pushBack (lessRecent b2)).bind fun a => .ok ({ b2 with a0 := a }, u.2)
        else .ok (b2, u.2) := by
  rfl

theorem onAckEventEnd_ok {m : PNQ ConnState} (b : Sampler) (hb : EInv m b) (bw : Nat) (nm : Bool) (rtc : Nat) :
    OkP (fun x => EInv m x.1) (b.onAckEventEnd bw nm rtc) := by
  rw [onAckEventEnd_eq]
  split
  · exact OkP.ok hb
  · dsimp only
    split
    · obtain ⟨a, ha, _, wa⟩ := pushBack_spec b.a0 hb.wf (lessRecent
        { b with totalBytesAckedAfterLastAckEvent := b.totalBytesAcked,
                 tracker := (b.tracker.update bw nm rtc b.lastSentPacket b.lastAckedPacket b.lastAckedPacketAckTime
                  (i64 (b.totalBytesAcked - b.totalBytesAckedAfterLastAckEvent))).1 })
      rw [ha, Res.bind_ok]
      exact OkP.ok ⟨hb.hmap, wa, hb.ts⟩
    · exact OkP.ok ⟨hb.hmap, hb.wf, hb.ts⟩

/-- the tail of `OnCongestionEvent` once `lastPacketSendState` is known -/
def evFin (b : Sampler) (acc : AckAcc) (maxBandwidth upperBound rtc : Nat) (lps : SendTimeState) :
    Res (Sampler × EventSample) :=
  let es : EventSample := { acc.es with lastPacketSendState := lps }
  let isNewMax := decide (es.sampleMaxBandwidth > maxBandwidth)
  let mb := max maxBandwidth es.sampleMaxBandwidth
  let mb := if b.limitBySendRate then max mb acc.maxSendRate else mb
  (b.onAckEventEnd (min upperBound mb) isNewMax rtc).bind fun x => .ok (x.1, { es with extraAcked := x.2 })

theorem onCongestionEvent_eq (b : Sampler) (t : Int) (acked lost : List (Int × Int)) (mb ub rtc : Nat) :
    b.onCongestionEvent t acked lost mb ub rtc =
      (lostLoop lost b default).bind fun x =>
        if acked.isEmpty then .ok (x.1, { newEventSample with lastPacketSendState := x.2 })
        else
          (ackLoop t acked x.1 { es := newEventSample, lastAcked := default, maxSendRate := 0 }).bind fun y =>
            if !x.2.isValid then evFin y.1 y.2 mb ub rtc y.2.lastAcked
            else if !y.2.lastAcked.isValid then evFin y.1 y.2 mb ub rtc x.2
            else
              match lost.getLast? with
              | some ll =>
                match acked.getLast? with
                | some la => evFin y.1 y.2 mb ub rtc (if ll.1 > la.1 then x.2 else y.2.lastAcked)
                | none => .panic
              | none => .panic := by
  rfl

theorem evFin_ok {m : PNQ ConnState} (b : Sampler) (hb : EInv m b) (acc : AckAcc) (mb ub rtc : Nat)
    (lps : SendTimeState) : OkP (fun x => EInv m x.1) (evFin b acc mb ub rtc lps) := by
  unfold evFin
  dsimp only
  refine OkP.bind (onAckEventEnd_ok b hb _ _ rtc) ?_
  intro x hx
  exact OkP.ok hx

theorem default_sts_invalid : (default : SendTimeState).isValid = false := rfl

/-- `OnCongestionEvent`: no panic — in particular `lostPackets[len-1]` / `ackedPackets[len-1]` are only evaluated
    when both loops produced a valid send state, hence on non-empty lists -/
theorem onCongestionEvent_ok {m : PNQ ConnState} (hm : Pnq.Inv m) (hmo : MapOk m) (b : Sampler) (hb : EInv m b)
    (t : Int) (acked lost : List (Int × Int)) (mb ub rtc : Nat) :
    OkP (fun x => EInv m x.1) (b.onCongestionEvent t acked lost mb ub rtc) := by
  rw [onCongestionEvent_eq]
  obtain ⟨x, hx, hbx⟩ := lostLoop_ok hm lost b default hb
  obtain ⟨b1, lastLost⟩ := x
  rw [hx, Res.bind_ok]
  dsimp only
  split
  · exact OkP.ok hbx
  · obtain ⟨y, hy, hby⟩ := ackLoop_ok hm hmo t acked b1
      { es := newEventSample, lastAcked := default, maxSendRate := 0 } hbx
    obtain ⟨b2, acc⟩ := y
    rw [hy, Res.bind_ok]
    dsimp only
    split
    · exact evFin_ok b2 hby acc mb ub rtc _
    · split
      · exact evFin_ok b2 hby acc mb ub rtc _
      · rename_i hv1 hv2
        have hv1' : lastLost.isValid = true := by simpa using hv1
        have hv2' : acc.lastAcked.isValid = true := by simpa using hv2
        have hl : lost ≠ [] := by
          rcases lostLoop_valid lost b default b1 lastLost hx hv1' with h | h
          · rw [default_sts_invalid] at h; cases h
          · exact h
        have ha : acked ≠ [] := by
          rcases ackLoop_valid t acked b1 _ b2 acc hy hv2' with h | h
          · rw [show (default : SendTimeState).isValid = false from rfl] at h; cases h
          · exact h
        rw [List.getLast?_eq_some_getLast hl, List.getLast?_eq_some_getLast ha]
        exact evFin_ok b2 hby acc mb ub rtc _

/-! ### the API -/

theorem removeObsolete_bound (b : Sampler) (last : Int) (h : SInv b last) (k : Int) :
    ∃ b', b.removeObsoletePackets k = .ok b' ∧ SInv b' last ∧ (b'.map.slotsUsed : Int) ≤ max 0 (last - k + 1) := by
  obtain ⟨hg, hw, hts, hmo⟩ := h
  obtain ⟨q', h1, h2, h3⟩ := removeUpTo_bound hg k
  refine ⟨{ b with map := q' }, ?_, ⟨h2, hw, hts, ?_⟩, h3⟩
  · simp only [Sampler.removeObsoletePackets, h1, Res.bind_eq, Res.bind_ok, Res.pure_eq]
  · intro e he hp
    exact hmo e (removeUpTo_content hg.1 k q' h1 e he) hp

/-- one call, with the ghost tracked: it stays, or becomes the packet number just sent -/
theorem apply_spec_ghost (b : Sampler) (last : Int) (h : SInv b last) (c : Call) (hw : c.wellFormed) :
    ∃ b' last', b.apply c = .ok b' ∧ SInv b' last' ∧ last' ≤ max last (maxSent [c]) := by
  cases c with
  | sent t pn bytes infl r =>
    obtain ⟨b', hb', last', hs, hl⟩ := onPacketSent_ok b last h t pn bytes infl r hw.1 hw.2
    refine ⟨b', last', hb', hs, ?_⟩
    simp only [maxSent]
    omega
  | event t a l mb ub rtc =>
    obtain ⟨x, hx, hbx⟩ := onCongestionEvent_ok h.1.1 h.2.2.2 b ⟨rfl, h.2.1, h.2.2.1⟩ t a l mb ub rtc
    obtain ⟨b', es⟩ := x
    refine ⟨b', last, ?_, h.frame hbx.hmap hbx.wf hbx.ts, ?_⟩
    · simp only [Sampler.apply, hx, Res.bind_eq, Res.bind_ok, Res.pure_eq]
    · simp only [maxSent]; omega
  | appLimited =>
    refine ⟨_, last, rfl, h.frame rfl h.2.1 h.2.2.1, ?_⟩
    simp only [maxSent]; omega
  | resetTracker ht t =>
    refine ⟨_, last, rfl, h.frame rfl h.2.1 h.2.2.1, ?_⟩
    simp only [maxSent]; omega
  | removeObsolete lu =>
    obtain ⟨b', h1, h2, _⟩ := removeObsolete_bound b last h lu
    refine ⟨b', last, h1, h2, ?_⟩
    simp only [maxSent]; omega

/-- one call: no panic site is reached (every ring/queue access is guarded, both BandwidthFromDelta divisors are
    non-zero, the `lostPackets[len-1]`/`ackedPackets[len-1]` indexes are only evaluated on non-empty lists) and the
    invariant is kept, for SOME new ghost value -/
theorem apply_spec (b : Sampler) (last : Int) (h : SInv b last) (c : Call) (hw : c.wellFormed) :
    ∃ b' last', b.apply c = .ok b' ∧ SInv b' last' := by
  obtain ⟨b', last', h1, h2, _⟩ := apply_spec_ghost b last h c hw
  exact ⟨b', last', h1, h2⟩

/-- **sampler_no_panic** -/
theorem sampler_no_panic_run (cs : List Call) : ∀ (b : Sampler) (last : Int), SInv b last →
    (∀ c ∈ cs, c.wellFormed) → ∃ b' last', b.runCalls cs = .ok b' ∧ SInv b' last' := by
  induction cs with
  | nil => intro b last h _; exact ⟨b, last, rfl, h⟩
  | cons c cs ih =>
    intro b last h hw
    obtain ⟨b1, l1, h1, h2⟩ := apply_spec b last h c (hw c (by simp))
    obtain ⟨b2, l2, h3, h4⟩ := ih b1 l1 h2 (fun x hx => hw x (by simp [hx]))
    exact ⟨b2, l2, by simp only [Sampler.runCalls, h1, Res.bind_eq, Res.bind_ok, h3], h4⟩

theorem maxSent_ge (cs : List Call) : -1 ≤ maxSent cs := by
  induction cs with
  | nil => simp only [maxSent]; omega
  | cons c cs ih => cases c <;> simp only [maxSent] <;> omega

theorem maxSent_cons (c : Call) (cs : List Call) : maxSent (c :: cs) = max (maxSent [c]) (maxSent cs) := by
  have := maxSent_ge cs
  cases c <;> simp only [maxSent] <;> omega

theorem ghost_le_maxSent_gen (cs : List Call) : ∀ (b : Sampler) (last M : Int), SInv b last → last ≤ M →
    (∀ x ∈ cs, x.wellFormed) →
    ∃ b' last', b.runCalls cs = .ok b' ∧ SInv b' last' ∧ last' ≤ max M (maxSent cs) := by
  induction cs with
  | nil => intro b last M h hM _; exact ⟨b, last, rfl, h, by omega⟩
  | cons c cs ih =>
    intro b last M h hM hw
    obtain ⟨b1, l1, h1, h2, h3⟩ := apply_spec_ghost b last h c (hw c (by simp))
    obtain ⟨b2, l2, h4, h5, h6⟩ := ih b1 l1 (max M (maxSent [c])) h2 (by omega) (fun x hx => hw x (by simp [hx]))
    refine ⟨b2, l2, by simp only [Sampler.runCalls, h1, Res.bind_eq, Res.bind_ok, h4], h5, ?_⟩
    rw [maxSent_cons]
    omega

/-- the ghost never exceeds the largest packet number announced -/
theorem ghost_le_maxSent (w m c : Nat) (cs : List Call) (hw : ∀ x ∈ cs, x.wellFormed) :
    ∃ b' last', (Sampler.new w m c).runCalls cs = .ok b' ∧ SInv b' last' ∧ last' ≤ maxSent cs := by
  obtain ⟨b', l', h1, h2, h3⟩ := ghost_le_maxSent_gen cs _ (-1) (-1) (new_sinv w m c) (Int.le_refl _) hw
  have := maxSent_ge cs
  exact ⟨b', l', h1, h2, by omega⟩

/-! ### the per-packet sample -/

theorem ackFin_sample (t : Int) (c : ConnState) (sr : Nat) (hsr : sr ≤ maxU64) (b : Sampler) (a0 : AckPoint)
    (b' : Sampler) (s : BandwidthSample) (h : ackFin t c sr b a0 = .ok (b', s)) :
    s.bandwidth ≤ s.sendRate ∧ s.bandwidth ≤ maxU64 := by
  unfold ackFin at h
  split at h
  · cases h; exact ⟨Nat.zero_le _, Nat.zero_le _⟩
  · obtain ⟨ar, _, h2⟩ := (bind_eq_ok _ _ _).1 h
    cases h2
    exact ⟨Nat.min_le_left _ _, Nat.le_trans (Nat.min_le_left _ _) hsr⟩

theorem ackRest_sample (t : Int) (c : ConnState) (sr : Nat) (hsr : sr ≤ maxU64) (b : Sampler)
    (b' : Sampler) (s : BandwidthSample) (h : ackRest t c sr b = .ok (b', s)) :
    s.bandwidth ≤ s.sendRate ∧ s.bandwidth ≤ maxU64 := by
  unfold ackRest at h
  split at h
  · obtain ⟨x, _, h2⟩ := (bind_eq_ok _ _ _).1 h
    obtain ⟨b1, p⟩ := x
    cases p with
    | none => exact ackFin_sample t c sr hsr _ _ b' s h2
    | some p => exact ackFin_sample t c sr hsr _ _ b' s h2
  · exact ackFin_sample t c sr hsr _ _ b' s h

/-- per-packet sample: the bandwidth is the minimum of send rate and ack rate, hence bounded by the send rate,
    and fits uint64 -/
theorem sample_bandwidth_le_sendRate (b : Sampler) (t pn : Int) (b' : Sampler) (s : BandwidthSample)
    (h : b.onPacketAcknowledged t pn = .ok (b', s)) : s.bandwidth ≤ s.sendRate ∧ s.bandwidth ≤ maxU64 := by
  rw [onPacketAcknowledged_eq] at h
  obtain ⟨e, _, h2⟩ := (bind_eq_ok _ _ _).1 h
  cases e with
  | none => cases h2; exact ⟨Nat.zero_le _, Nat.zero_le _⟩
  | some c =>
    dsimp only at h2
    split at h2
    · cases h2; exact ⟨Nat.zero_le _, Nat.zero_le _⟩
    · split at h2
      · obtain ⟨sr, h3, h4⟩ := (bind_eq_ok _ _ _).1 h2
        exact ackRest_sample t c sr (bandwidthFromDelta_le _ _ _ h3) _ b' s h4
      · exact ackRest_sample t c infBandwidth (Nat.le_refl _) _ b' s h2

/-! ### why `Call.wellFormed` asks for int64 send times -/

/-- With only `-1 ≤ pn` required of `.sent`, the model (whose time fields are unbounded `Int`s) does reach the
    first `BandwidthFromDelta` panic: two packets sent exactly 2^64 ns apart make
    `Bandwidth(int64(sentTime − lastAckedPacketSentTime))` zero although `sentTime > lastAckedPacketSentTime`.
    In Go the arguments are `monotime.Time` (int64), so the difference of two of them is a non-zero value
    below 2^64 — that is the hypothesis `inI64 t` of `Call.wellFormed` and the third conjunct of `SInv`. -/
theorem times_must_be_int64 :
    (Sampler.new 10 4 4).runCalls
      [.sent 1 0 1200 0 true, .sent 18446744073709551617 1 1200 1200 true, .event 5 [(1, 1200)] [] 0 0 0]
      = .panic := by
  decide

end Hy.Sampler
