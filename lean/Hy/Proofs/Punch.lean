/-
  Helper lemmas for C20 (Hy.Props.C20): the XOR stream algebra, the exact acceptance
  condition of `decode`, registry lemmas, the reader and the step machine.
-/
import Hy.Model.Punch
set_option linter.unusedSimpArgs false
set_option linter.unusedVariables false
namespace Hy.Punch
open Hy

/-! ### XOR with the repeated mask, as list algebra -/

/-- the mask byte applied at offset `j` -/
def keyAt (M : Bytes) (j : Nat) : Byte := M.getD (j % M.length) 0

/-- `n` mask bytes starting at offset `i` -/
def stream (M : Bytes) (i n : Nat) : Bytes := (List.range n).map fun j => keyAt M (i + j)

def lxor (a b : Bytes) : Bytes := List.zipWith bxor a b

/-- the plain header: magic, type, nonce -/
def hdr (t : Byte) (nonce : Bytes) : Bytes := magic ++ [t] ++ nonce

@[simp] theorem stream_length (M : Bytes) (i n : Nat) : (stream M i n).length = n := by
  simp [stream]

theorem stream_succ (M : Bytes) (i n : Nat) :
    stream M i (n + 1) = keyAt M i :: stream M (i + 1) n := by
  simp only [stream, List.range_succ_eq_map, List.map_cons, List.map_map, Nat.add_zero]
  congr 1
  apply List.map_congr_left
  intro j _
  simp only [Function.comp]
  congr 1
  omega

theorem stream_take (M : Bytes) (i n k : Nat) (h : k ≤ n) : (stream M i n).take k = stream M i k := by
  simp only [stream, ← List.map_take, List.take_range, Nat.min_eq_left h]

@[simp] theorem lxor_nil_left (b : Bytes) : lxor [] b = [] := by simp [lxor]
@[simp] theorem lxor_cons (a : Byte) (as : Bytes) (b : Byte) (bs : Bytes) :
    lxor (a :: as) (b :: bs) = bxor a b :: lxor as bs := by simp [lxor]

theorem lxor_length (a b : Bytes) (h : a.length = b.length) : (lxor a b).length = a.length := by
  simp [lxor, h]

theorem lxor_take (a b : Bytes) (n : Nat) : (lxor a b).take n = lxor (a.take n) (b.take n) := by
  simp [lxor, List.take_zipWith]

theorem bxor_comm (a b : Byte) : bxor a b = bxor b a := by
  simp [bxor, Nat.xor_comm]

theorem bxor_assoc (a b c : Byte) : bxor (bxor a b) c = bxor a (bxor b c) := by
  apply Fin.ext
  have h1 := xor_lt_256 a.isLt b.isLt
  have h2 := xor_lt_256 b.isLt c.isLt
  simp only [bxor, byte_val, Nat.mod_eq_of_lt h1, Nat.mod_eq_of_lt h2, Nat.xor_assoc]

theorem bxor_self (a : Byte) : bxor a a = 0 := by
  apply Fin.ext; simp [bxor]

theorem bxor_zero (a : Byte) : bxor a 0 = a := by
  apply Fin.ext; simp [bxor, Nat.mod_eq_of_lt a.isLt]

theorem bxor_left_cancel (a b c : Byte) : bxor a b = bxor a c ↔ b = c := by
  constructor
  · intro h
    have := congrArg (bxor a) h
    rw [← bxor_assoc, ← bxor_assoc, bxor_self, bxor_comm 0 b, bxor_comm 0 c, bxor_zero, bxor_zero] at this
    exact this
  · intro h; rw [h]

/-- `a ⊕ s = c ↔ a = c ⊕ s` -/
theorem bxor_eq_iff (a s c : Byte) : bxor a s = c ↔ a = bxor c s := by
  constructor
  · intro h; rw [← h, bxor_bxor]
  · intro h; rw [h, bxor_bxor]

theorem lxor_lxor (p s : Bytes) (h : p.length ≤ s.length) : lxor (lxor p s) s = p := by
  induction p generalizing s with
  | nil => simp
  | cons a as ih =>
    cases s with
    | nil => simp at h
    | cons b bs =>
      simp only [List.length_cons, Nat.add_le_add_iff_right] at h
      simp [bxor_bxor, ih bs h]

theorem lxor_eq_iff (a s c : Bytes) (h1 : a.length = s.length) (h2 : c.length = s.length) :
    lxor a s = c ↔ a = lxor c s := by
  induction a generalizing s c with
  | nil =>
    cases s with
    | nil => cases c with
      | nil => simp
      | cons _ _ => simp at h2
    | cons _ _ => simp at h1
  | cons x xs ih =>
    cases s with
    | nil => simp at h1
    | cons y ys =>
      cases c with
      | nil => simp at h2
      | cons z zs =>
        simp only [List.length_cons, Nat.add_right_cancel_iff] at h1 h2
        simp only [lxor_cons, List.cons.injEq, bxor_eq_iff, ih ys zs h1 h2]

theorem lxor_comm (a b : Bytes) : lxor a b = lxor b a := by
  induction a generalizing b with
  | nil => cases b <;> simp [lxor]
  | cons x xs ih =>
    cases b with
    | nil => simp [lxor]
    | cons y ys => simp [bxor_comm x y, ih ys]

theorem lxor_assoc (a b c : Bytes) : lxor (lxor a b) c = lxor a (lxor b c) := by
  induction a generalizing b c with
  | nil => simp
  | cons x xs ih =>
    cases b with
    | nil => simp [lxor]
    | cons y ys =>
      cases c with
      | nil => simp [lxor]
      | cons z zs => simp [bxor_assoc, ih]

theorem lxor_append (a b c d : Bytes) (h : a.length = c.length) :
    lxor (a ++ b) (c ++ d) = lxor a c ++ lxor b d := by
  simp [lxor, List.zipWith_append h]

/-- the checked XOR loop never faults on a non-empty mask, and is the list XOR with the stream -/
theorem xorAt_eq (M : Bytes) (hM : 0 < M.length) :
    ∀ (p : Bytes) (i : Nat), xorAt M i p = .ok (lxor p (stream M i p.length)) := by
  intro p
  induction p with
  | nil => intro i; simp [xorAt, stream]
  | cons c cs ih =>
    intro i
    have hlt : i % M.length < M.length := Nat.mod_lt _ hM
    have hidx : Res.idx M (i % M.length) = .ok (keyAt M i) := by
      simp [Res.idx, keyAt, List.getD, List.getElem?_eq_getElem hlt]
    simp only [xorAt, hidx, ih (i + 1), Res.bind_eq, Res.bind_ok, Res.pure_eq, List.length_cons,
      stream_succ, lxor_cons]

/-! ### metadata -/

theorem decodeHexSize_ok {v : Bytes} {n : Nat} {b : Bytes} (h : decodeHexSize v n = .ok b) :
    b.length = n ∧ unhex v = some b := by
  unfold decodeHexSize at h
  split at h
  · cases h
  · split at h
    · cases h
    · rename_i hb
      cases h
      exact ⟨by simpa using hb, by assumption⟩

theorem decodeHexSize_noPanic (v : Bytes) (n : Nat) : decodeHexSize v n ≠ .panic := by
  unfold decodeHexSize
  split
  · simp
  · split <;> simp

theorem decodeMeta_cases (m : Meta) :
    decodeMeta m = .reject ∨ ∃ nonce key, decodeMeta m = .ok (nonce, key) ∧
      nonce.length = nonceSize ∧ key.length = keySize ∧
      unhex m.nonce = some nonce ∧ unhex m.obfs = some key := by
  unfold decodeMeta
  simp only [Res.bind_eq, Res.pure_eq]
  cases h1 : decodeHexSize m.nonce nonceSize with
  | panic => exact absurd h1 (decodeHexSize_noPanic _ _)
  | reject => left; rfl
  | ok nonce =>
    cases h2 : decodeHexSize m.obfs keySize with
    | panic => exact absurd h2 (decodeHexSize_noPanic _ _)
    | reject => left; rfl
    | ok key =>
      right
      exact ⟨nonce, key, rfl, (decodeHexSize_ok h1).1, (decodeHexSize_ok h2).1,
        (decodeHexSize_ok h1).2, (decodeHexSize_ok h2).2⟩

theorem decodeMeta_ok {m : Meta} {nonce key : Bytes} (h : decodeMeta m = .ok (nonce, key)) :
    nonce.length = 16 ∧ key.length = 32 := by
  rcases decodeMeta_cases m with h' | ⟨n, k, h', hn, hk, _, _⟩
  · rw [h'] at h; cases h
  · rw [h'] at h; cases h; exact ⟨hn, hk⟩

theorem decodeMeta_noPanic (m : Meta) : decodeMeta m ≠ .panic := by
  rcases decodeMeta_cases m with h' | ⟨n, k, h', _⟩ <;> rw [h'] <;> simp

/-! ### the exact acceptance condition of `decode` -/

theorem hdr_length (t : Byte) (nonce : Bytes) (hn : nonce.length = 16) : (hdr t nonce).length = 25 := by
  simp [hdr, magic, hn]

/-- the three header checks of DecodePunchPacket on a plain text of at least 25 bytes -/
theorem header_checks (q : Bytes) (t : Byte) (nonce : Bytes) (hq : 25 ≤ q.length) (hn : nonce.length = 16) :
    (q.take 8 = magic ∧ q[8]? = some t ∧ (q.take 25).drop 9 = nonce) ↔ q.take 25 = hdr t nonce := by
  constructor
  · rintro ⟨h1, h2, h3⟩
    have e1 : q.take 25 = (q.take 25).take 8 ++ (q.take 25).drop 8 := (List.take_append_drop 8 _).symm
    have e2 : (q.take 25).take 8 = q.take 8 := by simp [List.take_take]
    have e3 : (q.take 25).drop 8 = t :: (q.take 25).drop 9 := by
      have hlt : 8 < (q.take 25).length := by simp; omega
      have hg : (q.take 25)[8] = t := by
        have : (q.take 25)[8]? = some t := by rw [List.getElem?_take]; simpa using h2
        rw [List.getElem?_eq_getElem hlt] at this
        exact Option.some.inj this
      rw [← hg]
      exact List.drop_eq_getElem_cons hlt
    rw [e1, e2, e3, h1, h3]
    simp [hdr]
  · intro h
    have hm : magic.length = 8 := rfl
    refine ⟨?_, ?_, ?_⟩
    · have : (q.take 25).take 8 = magic := by rw [h]; simp [hdr, magic]
      simpa [List.take_take] using this
    · have : (q.take 25)[8]? = some t := by rw [h]; simp [hdr, magic]
      rw [List.getElem?_take] at this
      simpa using this
    · rw [h]; simp [hdr, magic]

/-- inside the length window and with valid metadata, `decode` is its three header checks on the
    un-masked body (no slice or index expression can fault) -/
theorem decode_eq (H : Bytes → Bytes) (hH : ∀ x, 0 < (H x).length) (pkt : Bytes) (m : Meta)
    (nonce key : Bytes) (hm : decodeMeta m = .ok (nonce, key))
    (h1 : 33 ≤ pkt.length) (h2 : pkt.length ≤ 1057) :
    decode H pkt m =
      (let q := lxor (pkt.drop 8) (stream (H (key ++ pkt.take 8)) 0 (pkt.length - 8))
       if q.take 8 = magic then
         match q[8]? with
         | some t =>
           if validType t = true then
             if (q.take 25).drop 9 = nonce then .ok (t, q.length - 25) else .reject
           else .reject
         | none => .panic
       else .reject) := by
  have hl : (lxor (pkt.drop 8) (stream (H (key ++ pkt.take 8)) 0 (pkt.length - 8))).length = pkt.length - 8 := by
    rw [lxor_length] <;> simp
  unfold decode
  simp only [check, minWire, maxWire, saltLen, headerLen, Res.bind_eq, Res.pure_eq, hm,
    Res.sliceTo, Res.sliceFrom, Res.slice, Res.idx]
  have e1 : ¬ pkt.length < 33 := by omega
  have e2 : ¬ pkt.length > 1057 := by omega
  have e3 : (8 ≤ pkt.length) := by omega
  simp only [e1, e2, e3, not_false_eq_true, decide_true, ↓reduceIte, Res.bind_ok, xorAt_eq _ (hH _), List.length_drop]
  have hm8 : magic.length = 8 := rfl
  simp only [hm8, hl]
  have e4 : 8 ≤ pkt.length - 8 := by omega
  have e5 : (8 + 1 ≤ 25 ∧ 25 ≤ pkt.length - 8) := by omega
  simp only [e4, e5, ↓reduceIte, and_self, Res.bind_ok]
  generalize lxor (pkt.drop 8) (stream (H (key ++ pkt.take 8)) 0 (pkt.length - 8)) = q at hl ⊢
  by_cases hq : q.take 8 = magic
  · simp only [hq, decide_true, ↓reduceIte, Res.bind_ok]
    cases q[8]? with
    | none => rfl
    | some t =>
      simp only [Res.bind_ok]
      by_cases ht : validType t = true
      · simp only [ht, ↓reduceIte, Res.bind_ok]
        by_cases hn : List.drop 9 (List.take 25 q) = nonce
        · simp [hn]
        · simp [hn]
      · simp [ht]
  · simp [hq]


theorem decode_short (H : Bytes → Bytes) (pkt : Bytes) (m : Meta) (h : pkt.length < 33) :
    decode H pkt m = .reject := by
  unfold decode
  simp [check, minWire, h]

theorem decode_long (H : Bytes → Bytes) (pkt : Bytes) (m : Meta) (h : 1057 < pkt.length) :
    decode H pkt m = .reject := by
  unfold decode
  simp only [check, minWire, maxWire, Res.bind_eq]
  have : ¬ pkt.length < 33 := by omega
  simp [this, h]

theorem decode_badmeta (H : Bytes → Bytes) (pkt : Bytes) (m : Meta) (h : decodeMeta m = .reject) :
    decode H pkt m = .reject := by
  unfold decode
  simp only [check, Res.bind_eq, h, Res.bind_reject]
  split <;> simp
  split <;> simp

/-- the masked header of an accepted packet is determined by salt, type and metadata -/
theorem decode_ok_iff (H : Bytes → Bytes) (hH : ∀ x, 0 < (H x).length) (pkt : Bytes) (m : Meta)
    (t : Byte) (n : Nat) :
    decode H pkt m = .ok (t, n) ↔
      ∃ nonce key, decodeMeta m = .ok (nonce, key) ∧ 33 ≤ pkt.length ∧ pkt.length ≤ 1057 ∧
        validType t = true ∧ n = pkt.length - 33 ∧
        (pkt.drop 8).take 25 = lxor (hdr t nonce) (stream (H (key ++ pkt.take 8)) 0 25) := by
  by_cases h1 : pkt.length < 33
  · rw [decode_short H pkt m h1]
    constructor
    · intro h; cases h
    · rintro ⟨_, _, _, h, _⟩; omega
  by_cases h2 : 1057 < pkt.length
  · rw [decode_long H pkt m h2]
    constructor
    · intro h; cases h
    · rintro ⟨_, _, _, _, h, _⟩; omega
  rcases decodeMeta_cases m with hm | ⟨nonce, key, hm, hn, hk, _, _⟩
  · rw [decode_badmeta H pkt m hm]
    constructor
    · intro h; cases h
    · rintro ⟨_, _, h, _⟩; rw [hm] at h; cases h
  have hn16 : nonce.length = 16 := hn
  rw [decode_eq H hH pkt m nonce key hm (by omega) (by omega)]
  have hq : (lxor (pkt.drop 8) (stream (H (key ++ pkt.take 8)) 0 (pkt.length - 8))).length = pkt.length - 8 := by
    rw [lxor_length] <;> simp
  have hq25 : 25 ≤ (lxor (pkt.drop 8) (stream (H (key ++ pkt.take 8)) 0 (pkt.length - 8))).length := by
    rw [hq]; omega
  have htake : (lxor (pkt.drop 8) (stream (H (key ++ pkt.take 8)) 0 (pkt.length - 8))).take 25
      = lxor ((pkt.drop 8).take 25) (stream (H (key ++ pkt.take 8)) 0 25) := by
    rw [lxor_take, stream_take _ _ _ _ (by omega)]
  have hc := header_checks _ t nonce hq25 hn16
  rw [htake] at hc
  have hcancel := lxor_eq_iff ((pkt.drop 8).take 25) (stream (H (key ++ pkt.take 8)) 0 25) (hdr t nonce)
    (by simp; omega) (by simp [hdr_length t nonce hn16])
  generalize hqdef : lxor (pkt.drop 8) (stream (H (key ++ pkt.take 8)) 0 (pkt.length - 8)) = q at *
  simp only []
  constructor
  · intro h
    split at h
    · rename_i hmg
      split at h
      · rename_i t' ht'
        split at h
        · rename_i hvt
          split at h
          · rename_i hnn
            cases h
            refine ⟨nonce, key, hm, by omega, by omega, hvt, by omega, ?_⟩
            exact hcancel.mp (hc.mp ⟨hmg, ht', by rw [← htake]; exact hnn⟩)
          · cases h
        · cases h
      · cases h
    · cases h
  · rintro ⟨nonce', key', hm', _, _, hvt, hn', hhdr⟩
    rw [hm] at hm'
    obtain ⟨rfl, rfl⟩ : nonce = nonce' ∧ key = key' := by
      injection hm' with h; injection h with ha hb; exact ⟨ha, hb⟩
    have ⟨hmg, ht', hnn⟩ := hc.mpr (hcancel.mpr hhdr)
    rw [← htake] at hnn
    rw [if_pos hmg, ht']
    simp only [hvt, ↓reduceIte, hnn]
    rw [hq, hn']
    have : pkt.length - 8 - 25 = pkt.length - 33 := by omega
    rw [this]


/-- every outcome of `decode` other than acceptance is a plain rejection: no panic -/
theorem decode_noPanic (H : Bytes → Bytes) (hH : ∀ x, 0 < (H x).length) (pkt : Bytes) (m : Meta) :
    decode H pkt m ≠ .panic := by
  by_cases h1 : pkt.length < 33
  · rw [decode_short H pkt m h1]; simp
  by_cases h2 : 1057 < pkt.length
  · rw [decode_long H pkt m h2]; simp
  rcases decodeMeta_cases m with hm | ⟨nonce, key, hm, hn, hk, _, _⟩
  · rw [decode_badmeta H pkt m hm]; simp
  rw [decode_eq H hH pkt m nonce key hm (by omega) (by omega)]
  have hq : (lxor (pkt.drop 8) (stream (H (key ++ pkt.take 8)) 0 (pkt.length - 8))).length = pkt.length - 8 := by
    rw [lxor_length] <;> simp
  generalize lxor (pkt.drop 8) (stream (H (key ++ pkt.take 8)) 0 (pkt.length - 8)) = q at *
  have h8 : 8 < q.length := by omega
  simp only [List.getElem?_eq_getElem h8]
  split
  · split
    · split <;> simp
    · simp
  · simp

theorem encode_eq (H : Bytes → Bytes) (hH : ∀ x, 0 < (H x).length) (t : Byte) (m : Meta)
    (nonce key pad salt : Bytes) (hm : decodeMeta m = .ok (nonce, key)) (ht : validType t = true) :
    encode H t m pad salt =
      .ok (salt ++ lxor (hdr t nonce ++ pad) (stream (H (key ++ salt)) 0 (25 + pad.length))) := by
  have hn := (decodeMeta_ok hm).1
  unfold encode
  simp only [check, ht, ↓reduceIte, Res.bind_eq, Res.bind_ok, hm, xorAt_eq _ (hH _), Res.pure_eq, hdr]
  simp [magic, hn]
  congr 2
  omega

theorem encode_noPanic (H : Bytes → Bytes) (hH : ∀ x, 0 < (H x).length) (t : Byte) (m : Meta)
    (pad salt : Bytes) : encode H t m pad salt ≠ .panic := by
  by_cases ht : validType t = true
  · rcases decodeMeta_cases m with hm | ⟨nonce, key, hm, _⟩
    · unfold encode; simp [check, ht, hm]
    · rw [encode_eq H hH t m nonce key pad salt hm ht]; simp
  · unfold encode; simp [check, ht]

/-- the wire image of a packet: what `decode_ok_iff` looks at -/
theorem wire_take_drop (salt body : Bytes) (hs : salt.length = 8) :
    (salt ++ body).take 8 = salt ∧ (salt ++ body).drop 8 = body := by
  constructor
  · rw [← hs]; simp
  · rw [← hs]; simp

theorem masked_header (t : Byte) (nonce pad M : Bytes) (hn : nonce.length = 16) :
    (lxor (hdr t nonce ++ pad) (stream M 0 (25 + pad.length))).take 25 = lxor (hdr t nonce) (stream M 0 25) := by
  rw [lxor_take, stream_take _ _ _ _ (by omega)]
  congr 1
  rw [List.take_append_of_le_length (by rw [hdr_length t nonce hn]; exact Nat.le_refl _)]
  rw [List.take_of_length_le (by rw [hdr_length t nonce hn]; exact Nat.le_refl _)]

theorem hdr_inj {t t' : Byte} {n n' : Bytes} (h : hdr t n = hdr t' n') : t = t' ∧ n = n' := by
  simp only [hdr, List.append_assoc, List.append_cancel_left_eq, List.singleton_append, List.cons.injEq] at h
  exact h


theorem decode_reject_of_not_ok (H : Bytes → Bytes) (hH : ∀ x, 0 < (H x).length) (pkt : Bytes) (m : Meta)
    (h : ∀ t n, decode H pkt m ≠ .ok (t, n)) : decode H pkt m = .reject := by
  cases hd : decode H pkt m with
  | ok r => exact absurd hd (h r.1 r.2)
  | reject => rfl
  | panic => exact absurd hd (decode_noPanic H hH pkt m)

/-- decode ∘ encode: every type, metadata, padding ≤ 1024 and salt -/
theorem decode_encode_aux (H : Bytes → Bytes) (hH : ∀ x, 0 < (H x).length) (t : Byte) (m : Meta)
    (nonce key pad salt : Bytes) (hm : decodeMeta m = .ok (nonce, key)) (ht : validType t = true)
    (hs : salt.length = 8) (hp : pad.length ≤ 1024) :
    ∃ pkt, encode H t m pad salt = .ok pkt ∧ pkt.length = 33 + pad.length ∧
      decode H pkt m = .ok (t, pad.length) := by
  have hn := (decodeMeta_ok hm).1
  refine ⟨_, encode_eq H hH t m nonce key pad salt hm ht, ?_, ?_⟩
  · rw [List.length_append, lxor_length] <;> simp [hdr_length t nonce hn, hs]; omega
  · rw [decode_ok_iff H hH]
    have hw := wire_take_drop salt (lxor (hdr t nonce ++ pad) (stream (H (key ++ salt)) 0 (25 + pad.length))) hs
    have hlen : (salt ++ lxor (hdr t nonce ++ pad) (stream (H (key ++ salt)) 0 (25 + pad.length))).length
        = 33 + pad.length := by
      rw [List.length_append, lxor_length] <;> simp [hdr_length t nonce hn, hs]; omega
    refine ⟨nonce, key, hm, by omega, by omega, ht, by omega, ?_⟩
    rw [hw.1, hw.2, masked_header t nonce pad _ hn]

theorem lxor_magic_self : lxor magic magic = List.replicate 8 0 := by decide

theorem lxor_hdr_hdr (t t' : Byte) (n n' : Bytes) :
    lxor (hdr t n) (hdr t' n') = List.replicate 8 0 ++ [bxor t t'] ++ lxor n n' := by
  unfold hdr
  rw [lxor_append _ _ _ _ (by simp), lxor_append _ _ _ _ (by simp), lxor_magic_self]
  simp

/-- two masked headers coincide iff the XOR of the two mask streams is the XOR of the headers -/
theorem masked_eq_iff (a b S S' : Bytes) (ha : a.length = 25) (hb : b.length = 25)
    (hS : S.length = 25) (hS' : S'.length = 25) :
    lxor a S = lxor b S' ↔ lxor S S' = lxor a b := by
  rw [lxor_eq_iff a S (lxor b S') (by omega) (by rw [lxor_length] <;> omega), lxor_assoc]
  constructor
  · intro h
    have := (lxor_eq_iff (lxor S' S) b a (by rw [lxor_length] <;> omega) (by omega)).mp
      (by rw [lxor_comm, ← h])
    rw [lxor_comm S S', this]
  · intro h
    have := (lxor_eq_iff (lxor S' S) b a (by rw [lxor_length] <;> omega) (by omega)).mpr
      (by rw [lxor_comm S' S, h])
    rw [← this, lxor_comm]


/-- the encoded packet, as `encode_eq` gives it -/
def wire (H : Bytes → Bytes) (t : Byte) (nonce key pad salt : Bytes) : Bytes :=
  salt ++ lxor (hdr t nonce ++ pad) (stream (H (key ++ salt)) 0 (25 + pad.length))

theorem wire_length (H : Bytes → Bytes) (t : Byte) (nonce key pad salt : Bytes)
    (hn : nonce.length = 16) (hs : salt.length = 8) :
    (wire H t nonce key pad salt).length = 33 + pad.length := by
  unfold wire
  rw [List.length_append, lxor_length] <;> simp [hdr_length t nonce hn, hs]; omega

/-- acceptance of an encoded packet under ANY valid metadata, in terms of the two masks -/
theorem decode_wire_iff (H : Bytes → Bytes) (hH : ∀ x, 0 < (H x).length) (t : Byte)
    (nonce key pad salt : Bytes) (m' : Meta) (nonce' key' : Bytes)
    (hn : nonce.length = 16) (hs : salt.length = 8) (hp : pad.length ≤ 1024)
    (hm' : decodeMeta m' = .ok (nonce', key')) (t' : Byte) (n : Nat) :
    decode H (wire H t nonce key pad salt) m' = .ok (t', n) ↔
      validType t' = true ∧ n = pad.length ∧
      lxor (stream (H (key ++ salt)) 0 25) (stream (H (key' ++ salt)) 0 25)
        = List.replicate 8 0 ++ [bxor t t'] ++ lxor nonce nonce' := by
  have hn' := (decodeMeta_ok hm').1
  have hl := wire_length H t nonce key pad salt hn hs
  have hw := wire_take_drop salt (lxor (hdr t nonce ++ pad) (stream (H (key ++ salt)) 0 (25 + pad.length))) hs
  rw [decode_ok_iff H hH, ← lxor_hdr_hdr,
    ← masked_eq_iff (hdr t nonce) (hdr t' nonce') _ _ (hdr_length _ _ hn) (hdr_length _ _ hn') (by simp) (by simp)]
  constructor
  · rintro ⟨n1, k1, h1, _, _, hv, hnn, hh⟩
    rw [hm'] at h1
    obtain ⟨rfl, rfl⟩ : nonce' = n1 ∧ key' = k1 := by
      injection h1 with h; injection h with ha hb; exact ⟨ha, hb⟩
    refine ⟨hv, by omega, ?_⟩
    unfold wire at hh
    rw [hw.1, hw.2, masked_header t nonce pad _ hn] at hh
    exact hh
  · rintro ⟨hv, hnn, hh⟩
    refine ⟨nonce', key', hm', by omega, by omega, hv, by omega, ?_⟩
    unfold wire
    rw [hw.1, hw.2, masked_header t nonce pad _ hn]
    exact hh

theorem lxor_self_zero (s : Bytes) : lxor s s = List.replicate s.length 0 := by
  induction s with
  | nil => rfl
  | cons a as ih => simp [bxor_self, ih, List.replicate_succ]

theorem lxor_left_cancel (a b c : Bytes) (h1 : a.length = b.length) (h2 : a.length = c.length)
    (h : lxor a b = lxor a c) : b = c := by
  induction a generalizing b c with
  | nil =>
    cases b with
    | nil => cases c with
      | nil => rfl
      | cons _ _ => simp at h2
    | cons _ _ => simp at h1
  | cons x xs ih =>
    cases b with
    | nil => simp at h1
    | cons y ys =>
      cases c with
      | nil => simp at h2
      | cons z zs =>
        simp only [List.length_cons, Nat.add_right_cancel_iff] at h1 h2
        simp only [lxor_cons, List.cons.injEq, bxor_left_cancel] at h
        rw [h.1, ih ys zs h1 h2 h.2]

/-- same key, another nonce: never accepted -/
theorem decode_other_nonce_aux (H : Bytes → Bytes) (hH : ∀ x, 0 < (H x).length) (t : Byte)
    (nonce key pad salt : Bytes) (m' : Meta) (nonce' : Bytes)
    (hn : nonce.length = 16) (hs : salt.length = 8) (hp : pad.length ≤ 1024)
    (hm' : decodeMeta m' = .ok (nonce', key)) (hne : nonce' ≠ nonce) :
    decode H (wire H t nonce key pad salt) m' = .reject := by
  apply decode_reject_of_not_ok H hH
  intro t' n h
  have hn' := (decodeMeta_ok hm').1
  rw [decode_wire_iff H hH t nonce key pad salt m' nonce' key hn hs hp hm'] at h
  obtain ⟨_, _, hh⟩ := h
  rw [lxor_self_zero, stream_length] at hh
  -- 25 zeros = 8 zeros ++ [t ⊕ t'] ++ (nonce ⊕ nonce')
  have h25 : List.replicate 25 (0 : Byte) = List.replicate 8 0 ++ [0] ++ List.replicate 16 0 := by decide
  rw [h25] at hh
  have hh2 := List.append_inj_right hh (by simp)
  have e : lxor nonce nonce' = lxor nonce nonce := by
    rw [lxor_self_zero, hn]; exact hh2.symm
  exact hne (lxor_left_cancel nonce nonce' nonce (by omega) rfl e)


theorem hdr_get_ne8 (t t' : Byte) (n : Bytes) (i : Nat) (h8 : i ≠ 8) :
    (hdr t n)[i]? = (hdr t' n)[i]? := by
  unfold hdr
  have hm : magic.length = 8 := rfl
  simp only [List.append_assoc, List.singleton_append]
  by_cases h : i < 8
  · rw [List.getElem?_append_left (by omega), List.getElem?_append_left (by omega)]
  · rw [List.getElem?_append_right (by omega), List.getElem?_append_right (by omega)]
    obtain ⟨k, hk⟩ : ∃ k, i - magic.length = k + 1 := ⟨i - 9, by omega⟩
    rw [hk]
    simp

theorem hdr_get_8 (t : Byte) (n : Bytes) : (hdr t n)[8]? = some t := by
  simp [hdr, magic]

theorem lxor_get (a s : Bytes) (i : Nat) (x y : Byte) (ha : a[i]? = some x) (hs : s[i]? = some y) :
    (lxor a s)[i]? = some (bxor x y) := by
  simp [lxor, List.getElem?_zipWith, ha, hs]

theorem set_wire (pkt : Bytes) (i : Nat) (b : Byte) :
    (pkt.set (8 + i) b).take 8 = pkt.take 8 ∧
    ((pkt.set (8 + i) b).drop 8).take 25 = ((pkt.drop 8).take 25).set i b := by
  constructor
  · rw [List.take_set_of_le (by omega)]
  · rw [List.drop_set, if_neg (by omega), List.take_set]
    congr 2
    omega

/-- what an accepted packet that differs from an encoded one in header byte `i` must look like -/
theorem flipped_header_aux (H : Bytes → Bytes) (hH : ∀ x, 0 < (H x).length) (t : Byte) (m : Meta)
    (nonce key pad salt : Bytes) (hm : decodeMeta m = .ok (nonce, key))
    (hs : salt.length = 8) (hp : pad.length ≤ 1024) (i : Nat) (hi : i < 25) (b old : Byte)
    (hold : (wire H t nonce key pad salt)[8 + i]? = some old) (t' : Byte) (n' : Nat)
    (hd : decode H ((wire H t nonce key pad salt).set (8 + i) b) m = .ok (t', n')) :
    (i ≠ 8 → b = old) ∧ (i = 8 → t' = bxor t (bxor b old)) := by
  have hn := (decodeMeta_ok hm).1
  have hl := wire_length H t nonce key pad salt hn hs
  rw [decode_ok_iff H hH] at hd
  obtain ⟨n1, k1, h1, _, _, hv, _, hh⟩ := hd
  rw [hm] at h1
  obtain ⟨rfl, rfl⟩ : nonce = n1 ∧ key = k1 := by
    injection h1 with h; injection h with ha hb; exact ⟨ha, hb⟩
  have hsw := set_wire (wire H t nonce key pad salt) i b
  have hw := wire_take_drop salt (lxor (hdr t nonce ++ pad) (stream (H (key ++ salt)) 0 (25 + pad.length))) hs
  rw [hsw.1, hsw.2] at hh
  have hold' : ((wire H t nonce key pad salt).drop 8).take 25 = lxor (hdr t nonce) (stream (H (key ++ salt)) 0 25) := by
    unfold wire; rw [hw.2, masked_header t nonce pad _ hn]
  have htk : (wire H t nonce key pad salt).take 8 = salt := by unfold wire; exact hw.1
  rw [hold', htk] at hh
  -- the i-th byte on both sides
  have hS : ∃ y, (stream (H (key ++ salt)) 0 25)[i]? = some y :=
    ⟨_, List.getElem?_eq_getElem (by simp; exact hi)⟩
  obtain ⟨y, hy⟩ := hS
  have hA : ∃ x, (hdr t nonce)[i]? = some x :=
    ⟨_, List.getElem?_eq_getElem (by rw [hdr_length t nonce hn]; exact hi)⟩
  obtain ⟨x, hx⟩ := hA
  have hA' : ∃ x', (hdr t' nonce)[i]? = some x' :=
    ⟨_, List.getElem?_eq_getElem (by rw [hdr_length t' nonce hn]; exact hi)⟩
  obtain ⟨x', hx'⟩ := hA'
  have hL : ((lxor (hdr t nonce) (stream (H (key ++ salt)) 0 25)).set i b)[i]? = some b := by
    rw [List.getElem?_set_self (by rw [lxor_length] <;> simp [hdr_length t nonce hn]; exact hi)]
  have hR := lxor_get _ _ i x' y hx' hy
  rw [hh] at hL
  rw [hR] at hL
  -- the old byte
  have hO : old = bxor x y := by
    have h0 : (((wire H t nonce key pad salt).drop 8).take 25)[i]? = some old := by
      rw [List.getElem?_take_of_lt hi, List.getElem?_drop]; exact hold
    rw [hold', lxor_get _ _ i x y hx hy] at h0
    exact (Option.some.inj h0).symm
  have hb : b = bxor x' y := (Option.some.inj hL).symm
  constructor
  · intro h8
    have : x' = x := by
      have := hdr_get_ne8 t' t nonce i h8
      rw [hx, hx'] at this
      exact Option.some.inj this
    rw [hb, hO, this]
  · intro h8
    subst h8
    have e1 : x = t := by rw [hdr_get_8] at hx; exact (Option.some.inj hx).symm
    have e2 : x' = t' := by rw [hdr_get_8] at hx'; exact (Option.some.inj hx').symm
    rw [hb, hO, e1, e2]
    -- t' = t ⊕ ((t' ⊕ y) ⊕ (t ⊕ y))
    rw [bxor_comm t y, ← bxor_assoc (bxor t' y) y t, bxor_bxor, ← bxor_assoc, bxor_comm t t', bxor_assoc, bxor_self, bxor_zero]


/-! ### the reader's classification -/

theorem isOk_iff {α} (r : Res α) : isOk r = true ↔ ∃ a, r = .ok a := by
  cases r <;> simp [isOk]

/-- "may be withheld": a STUN binding response, or — from a usable UDP source — a packet that
    decodes under some registered attempt -/
def diverts (H : Bytes → Bytes) (r : Registry) (p : PktIn) : Prop :=
  (decodeStun p.sv).isSome = true ∨
  ((addrToAddrPort p.src).isSome = true ∧ ∃ e ∈ r, isOk (decode H p.data e.2) = true)

theorem diverts_mono (H : Bytes → Bytes) (r r' : Registry) (p : PktIn) (h : ∀ e ∈ r, e ∈ r')
    (hd : diverts H r p) : diverts H r' p := by
  rcases hd with hd | ⟨hs, e, he, hok⟩
  · exact Or.inl hd
  · exact Or.inr ⟨hs, e, h e he, hok⟩

theorem scanPunch_src_none (H : Bytes → Bytes) (r : Registry) (p : PktIn)
    (h : addrToAddrPort p.src = none) : scanPunch H r p = .ok none := by
  unfold scanPunch; rw [h]

theorem any_isPanic_false (H : Bytes → Bytes) (hH : ∀ x, 0 < (H x).length) (r : Registry) (d : Bytes) :
    r.any (fun e => isPanic (decode H d e.2)) = false := by
  rw [List.any_eq_false]
  intro e _
  have := decode_noPanic H hH d e.2
  cases hd : decode H d e.2 <;> simp_all [isPanic]

theorem scanPunch_spec (H : Bytes → Bytes) (hH : ∀ x, 0 < (H x).length) (r : Registry) (p : PktIn)
    (src : AddrPort) (h : addrToAddrPort p.src = some src) :
    ((∀ e ∈ r, isOk (decode H p.data e.2) = false) ∧ scanPunch H r p = .ok none) ∨
    (∃ e ∈ r, ∃ t n, decode H p.data e.2 = .ok (t, n) ∧ scanPunch H r p = .ok (some ⟨e.1, src, t, n⟩)) := by
  unfold scanPunch
  rw [h]
  simp only [any_isPanic_false H hH r p.data, Bool.false_eq_true, ↓reduceIte]
  have hmem : ∀ e, e ∈ matching H r p.data ↔ e ∈ r ∧ isOk (decode H p.data e.2) = true := by
    intro e; simp [matching, List.mem_filter]
  generalize hc : matching H r p.data = c at hmem
  have hpick : ∀ e, pickEntry c p.hint = some e → e ∈ c := by
    intro e he
    unfold pickEntry at he
    split at he
    · rename_i e' hf
      cases he
      exact List.mem_of_find?_eq_some hf
    · exact List.mem_of_head? he
  cases hp : pickEntry c p.hint with
  | none =>
    left
    have hnil : c = [] := by
      unfold pickEntry at hp
      split at hp
      · cases hp
      · exact List.head?_eq_none_iff.mp hp
    refine ⟨?_, by simp⟩
    intro e he
    cases hok : isOk (decode H p.data e.2) with
    | false => rfl
    | true =>
      have : e ∈ c := (hmem e).mpr ⟨he, hok⟩
      rw [hnil] at this; cases this
  | some e =>
    right
    have hec := (hmem e).mp (hpick e hp)
    obtain ⟨⟨t, n⟩, hd⟩ := (isOk_iff _).mp hec.2
    exact ⟨e, hec.1, t, n, hd, by simp [hd]⟩

theorem classify_spec (H : Bytes → Bytes) (hH : ∀ x, 0 < (H x).length) (r : Registry) (p : PktIn) :
    (∃ a, decodeStun p.sv = some a ∧ classify H r p = .ok (.stun a)) ∨
    (decodeStun p.sv = none ∧
      ((¬ diverts H r p ∧ classify H r p = .ok .pass) ∨
       (∃ src e t n, addrToAddrPort p.src = some src ∧ e ∈ r ∧ decode H p.data e.2 = .ok (t, n) ∧
          classify H r p = .ok (.punch ⟨e.1, src, t, n⟩)))) := by
  unfold classify
  cases hs : decodeStun p.sv with
  | some a => left; exact ⟨a, rfl, rfl⟩
  | none =>
    right
    refine ⟨rfl, ?_⟩
    cases ha : addrToAddrPort p.src with
    | none =>
      left
      rw [scanPunch_src_none H r p ha]
      refine ⟨?_, rfl⟩
      rintro (h | ⟨h, _⟩)
      · rw [hs] at h; cases h
      · rw [ha] at h; cases h
    | some src =>
      rcases scanPunch_spec H hH r p src ha with ⟨hno, hsc⟩ | ⟨e, he, t, n, hd, hsc⟩
      · left
        rw [hsc]
        refine ⟨?_, rfl⟩
        rintro (h | ⟨_, e, he, hok⟩)
        · rw [hs] at h; cases h
        · rw [hno e he] at hok; cases hok
      · right
        rw [hsc]
        exact ⟨src, e, t, n, rfl, he, hd, rfl⟩

theorem classify_total (H : Bytes → Bytes) (hH : ∀ x, 0 < (H x).length) (r : Registry) (p : PktIn) :
    ∃ v, classify H r p = .ok v := by
  rcases classify_spec H hH r p with ⟨a, _, h⟩ | ⟨_, ⟨_, h⟩ | ⟨src, e, t, n, _, _, _, h⟩⟩ <;> exact ⟨_, h⟩

/-- withheld ⇔ STUN response, or usable source and a registered attempt decodes it -/
theorem classify_pass_iff (H : Bytes → Bytes) (hH : ∀ x, 0 < (H x).length) (r : Registry) (p : PktIn) :
    classify H r p = .ok .pass ↔ ¬ diverts H r p := by
  rcases classify_spec H hH r p with ⟨a, hs, h⟩ | ⟨hs, ⟨hn, h⟩ | ⟨src, e, t, n, ha, he, hd, h⟩⟩
  · rw [h]
    constructor
    · intro h'; cases h'
    · intro hn; exact absurd (Or.inl (by rw [hs]; rfl)) hn
  · rw [h]; exact ⟨fun _ => hn, fun _ => rfl⟩
  · rw [h]
    constructor
    · intro h'; cases h'
    · intro hn
      exact absurd (Or.inr ⟨by rw [ha]; rfl, e, he, by rw [hd]; rfl⟩) hn


/-- complete description of one ReadFrom call: a (possibly empty) run of diverted packets is
    consumed, then the wrapped conn's error or the first packet that must not be diverted comes
    back — that packet's own bytes and source address; the registry is not touched -/
theorem readFrom_spec (H : Bytes → Bytes) (hH : ∀ x, 0 < (H x).length) :
    ∀ (ins : List Input) (c : Conn), ∃ (pre : List PktIn) (rest : List Input) (c' : Conn),
      ins = pre.map Input.pkt ++ rest ∧ (∀ q ∈ pre, diverts H c.reg q) ∧
      c'.reg = c.reg ∧ c'.cap = c.cap ∧
      ((rest = [] ∧ readFrom H c ins = .ok (c', .err, pre.length)) ∨
       (∃ rest', rest = .err :: rest' ∧ readFrom H c ins = .ok (c', .err, pre.length + 1)) ∨
       (∃ p rest', rest = .pkt p :: rest' ∧ ¬ diverts H c.reg p ∧
          readFrom H c ins = .ok (c', .pkt p.data p.src, pre.length + 1))) := by
  intro ins
  induction ins with
  | nil =>
    intro c
    exact ⟨[], [], c, rfl, by simp, rfl, rfl, Or.inl ⟨rfl, rfl⟩⟩
  | cons i rest ih =>
    intro c
    cases i with
    | err =>
      exact ⟨[], .err :: rest, c, rfl, by simp, rfl, rfl, Or.inr (Or.inl ⟨rest, rfl, rfl⟩)⟩
    | pkt p =>
      obtain ⟨v, hv⟩ := classify_total H hH c.reg p
      have hpass := classify_pass_iff H hH c.reg p
      cases v with
      | pass =>
        refine ⟨[], .pkt p :: rest, c, rfl, by simp, rfl, rfl, Or.inr (Or.inr ⟨p, rest, rfl, hpass.mp hv, ?_⟩)⟩
        simp [readFrom, hv]
      | stun a =>
        have hdiv : diverts H c.reg p := by
          apply Classical.byContradiction; intro hn
          rw [hpass.mpr hn] at hv; cases hv
        obtain ⟨pre, rest', c', hins, hpre, hreg, hcap, hcase⟩ := ih { c with stun := offer c.stun c.cap a }
        refine ⟨p :: pre, rest', c', by simp [hins], ?_, hreg, hcap, ?_⟩
        · intro q hq
          rcases List.mem_cons.mp hq with rfl | hq
          · exact hdiv
          · exact hpre q hq
        · rcases hcase with ⟨h1, h2⟩ | ⟨r', h1, h2⟩ | ⟨p', r', h1, h2, h3⟩
          · exact Or.inl ⟨h1, by simp [readFrom, hv, h2]⟩
          · exact Or.inr (Or.inl ⟨r', h1, by simp [readFrom, hv, h2]⟩)
          · exact Or.inr (Or.inr ⟨p', r', h1, h2, by simp [readFrom, hv, h3]⟩)
      | punch ev =>
        have hdiv : diverts H c.reg p := by
          apply Classical.byContradiction; intro hn
          rw [hpass.mpr hn] at hv; cases hv
        obtain ⟨pre, rest', c', hins, hpre, hreg, hcap, hcase⟩ := ih { c with events := offer c.events c.cap ev }
        refine ⟨p :: pre, rest', c', by simp [hins], ?_, hreg, hcap, ?_⟩
        · intro q hq
          rcases List.mem_cons.mp hq with rfl | hq
          · exact hdiv
          · exact hpre q hq
        · rcases hcase with ⟨h1, h2⟩ | ⟨r', h1, h2⟩ | ⟨p', r', h1, h2, h3⟩
          · exact Or.inl ⟨h1, by simp [readFrom, hv, h2]⟩
          · exact Or.inr (Or.inl ⟨r', h1, by simp [readFrom, hv, h2]⟩)
          · exact Or.inr (Or.inr ⟨p', r', h1, h2, by simp [readFrom, hv, h3]⟩)

/-! ### the registry as a finite map -/

def Uniq (r : Registry) : Prop := r.Pairwise (fun a b => a.1 ≠ b.1)

theorem mem_remove (r : Registry) (id : Id) (e : Id × Meta) :
    e ∈ r.remove id ↔ e ∈ r ∧ e.1 ≠ id := by
  simp [Registry.remove, List.mem_filter]

theorem uniq_remove (r : Registry) (id : Id) (h : Uniq r) : Uniq (r.remove id) :=
  List.Pairwise.filter _ h

theorem uniq_insert (r : Registry) (id : Id) (m : Meta) (h : Uniq r) : Uniq (r.insert id m) := by
  unfold Registry.insert Uniq
  rw [List.pairwise_cons]
  refine ⟨?_, uniq_remove r id h⟩
  intro e he
  exact fun heq => ((mem_remove r id e).mp he).2 heq.symm

theorem get?_eq_some_iff (r : Registry) (h : Uniq r) (id : Id) (m : Meta) :
    r.get? id = some m ↔ (id, m) ∈ r := by
  induction r with
  | nil => simp [Registry.get?]
  | cons e es ih =>
    unfold Uniq at h
    rw [List.pairwise_cons] at h
    have ih' := ih h.2
    unfold Registry.get? at ih' ⊢
    by_cases he : e.1 = id
    · simp only [List.find?_cons, he, beq_self_eq_true, Option.map_some, Option.some.injEq, List.mem_cons]
      constructor
      · intro hm; left; rw [← hm, ← he]
      · rintro (hm | hm)
        · rw [← hm]
        · exact absurd he (by have := h.1 _ hm; simpa using this)
    · have : (e.1 == id) = false := by simpa using he
      simp only [List.find?_cons, this, List.mem_cons]
      rw [ih']
      constructor
      · intro hm; right; exact hm
      · rintro (hm | hm)
        · exact absurd (by rw [← hm]) he
        · exact hm

theorem get?_remove (r : Registry) (h : Uniq r) (id id' : Id) :
    (r.remove id).get? id' = if id' = id then none else r.get? id' := by
  cases hg : (r.remove id).get? id' with
  | none =>
    split
    · rfl
    · rename_i hne
      cases hg' : r.get? id' with
      | none => rfl
      | some m =>
        have hm := (get?_eq_some_iff r h id' m).mp hg'
        have : (id', m) ∈ r.remove id := (mem_remove r id _).mpr ⟨hm, hne⟩
        rw [← get?_eq_some_iff _ (uniq_remove r id h)] at this
        rw [this] at hg; cases hg
  | some m =>
    have hm := (get?_eq_some_iff _ (uniq_remove r id h) id' m).mp hg
    have ⟨h1, h2⟩ := (mem_remove r id _).mp hm
    rw [if_neg h2]
    exact ((get?_eq_some_iff r h id' m).mpr h1).symm

theorem get?_insert (r : Registry) (h : Uniq r) (id id' : Id) (m : Meta) :
    (r.insert id m).get? id' = if id' = id then some m else r.get? id' := by
  unfold Registry.insert Registry.get?
  by_cases he : id' = id
  · simp [he]
  · have : (id == id') = false := by simpa using fun h' => he h'.symm
    simp only [List.find?_cons, this, if_neg he]
    have := get?_remove r h id id'
    unfold Registry.get? at this
    rw [this, if_neg he]


/-! ### goroutines: the registry seen by any scan is a function of the history alone -/

def upd (f : Id → Option Meta) (id : Id) (v : Option Meta) : Id → Option Meta :=
  fun x => if x = id then v else f x

/-- effect of one label on the abstract map id → metadata (what AddPunchAttempt /
    RemovePunchAttempt are meant to do, independent of the list representation) -/
def absStep (f : Id → Option Meta) : Label → (Id → Option Meta)
  | .add id m => if id ≠ [] ∧ isOk (decodeMeta m) = true then upd f id (some m) else f
  | .remove id => upd f id none
  | _ => f

/-- the attempts registered after a history: last successful add of an id not followed by its removal -/
def absReg (hist : List Label) : Id → Option Meta := hist.foldl absStep (fun _ => none)

def divertsAbs (H : Bytes → Bytes) (f : Id → Option Meta) (p : PktIn) : Prop :=
  (decodeStun p.sv).isSome = true ∨
  ((addrToAddrPort p.src).isSome = true ∧ ∃ id m, f id = some m ∧ isOk (decode H p.data m) = true)

structure Inv (s : Sys) (f : Id → Option Meta) : Prop where
  uniq : Uniq s.conn.reg
  agree : ∀ id, s.conn.reg.get? id = f id
  nopanic : s.panicked = false

theorem diverts_iff_abs (H : Bytes → Bytes) (r : Registry) (f : Id → Option Meta) (p : PktIn)
    (hu : Uniq r) (ha : ∀ id, r.get? id = f id) : diverts H r p ↔ divertsAbs H f p := by
  unfold diverts divertsAbs
  constructor
  · rintro (h | ⟨hs, e, he, hok⟩)
    · exact Or.inl h
    · refine Or.inr ⟨hs, e.1, e.2, ?_, hok⟩
      rw [← ha, get?_eq_some_iff r hu]
      exact he
  · rintro (h | ⟨hs, id, m, hf, hok⟩)
    · exact Or.inl h
    · refine Or.inr ⟨hs, (id, m), ?_, hok⟩
      rw [← get?_eq_some_iff r hu, ha]
      exact hf

theorem step_inv (H : Bytes → Bytes) (hH : ∀ x, 0 < (H x).length) (s : Sys) (f : Id → Option Meta)
    (l : Label) (h : Inv s f) : Inv (step H s l) (absStep f l) := by
  cases l with
  | add id m =>
    simp only [step, absStep, addAttempt]
    by_cases hid : id = []
    · simp only [hid, ↓reduceIte, ne_eq, not_true_eq_false, false_and]
      exact h
    · simp only [hid, ↓reduceIte, ne_eq, not_false_eq_true, true_and]
      rcases decodeMeta_cases m with hm | ⟨n, k, hm, _⟩
      · simp only [hm, isOk, Bool.false_eq_true, ↓reduceIte]
        exact h
      · simp only [hm, isOk, ↓reduceIte]
        refine ⟨uniq_insert _ id m h.uniq, ?_, h.nopanic⟩
        intro id'
        simp only [get?_insert _ h.uniq, upd, h.agree]
  | remove id =>
    simp only [step, absStep]
    refine ⟨uniq_remove _ id h.uniq, ?_, h.nopanic⟩
    intro id'
    simp only [get?_remove _ h.uniq, upd, h.agree]
  | recv p =>
    simp only [step, absStep]
    cases s.held with
    | none => exact ⟨h.uniq, h.agree, h.nopanic⟩
    | some _ => exact h
  | scan =>
    simp only [step, absStep]
    cases hh : s.held with
    | none => exact h
    | some p =>
      simp only []
      obtain ⟨v, hv⟩ := classify_total H hH s.conn.reg p
      rw [hv]
      cases v <;> exact ⟨h.uniq, h.agree, h.nopanic⟩

theorem run_inv (H : Bytes → Bytes) (hH : ∀ x, 0 < (H x).length) :
    ∀ (sched : List Label) (s : Sys) (f : Id → Option Meta), Inv s f →
      Inv (run H s sched) (sched.foldl absStep f) := by
  intro sched
  induction sched with
  | nil => intro s f h; exact h
  | cons l ls ih =>
    intro s f h
    simp only [run, List.foldl_cons]
    exact ih _ _ (step_inv H hH s f l h)

theorem init_inv (c : Conn) (hc : c.reg = []) : Inv (Sys.init c) (fun _ => none) := by
  refine ⟨?_, ?_, rfl⟩
  · simp [Sys.init, hc, Uniq]
  · intro id; simp [Sys.init, hc, Registry.get?]

theorem run_append (H : Bytes → Bytes) (s : Sys) (a b : List Label) :
    run H s (a ++ b) = run H (run H s a) b := by
  simp [run, List.foldl_append]

/-- the log only grows -/
theorem log_grows (H : Bytes → Bytes) : ∀ (sched : List Label) (s : Sys),
    ∃ more, (run H s sched).log = s.log ++ more := by
  intro sched
  induction sched with
  | nil => intro s; exact ⟨[], by simp [run]⟩
  | cons l ls ih =>
    intro s
    have h1 : ∃ m1, (step H s l).log = s.log ++ m1 := by
      cases l with
      | add id m =>
        simp only [step]
        cases addAttempt s.conn.reg id m <;> exact ⟨[], by simp⟩
      | remove id => exact ⟨[], by simp [step]⟩
      | recv p =>
        simp only [step]
        cases s.held <;> exact ⟨[], by simp⟩
      | scan =>
        simp only [step]
        cases s.held with
        | none => exact ⟨[], by simp⟩
        | some p =>
          simp only []
          cases classify H s.conn.reg p with
          | ok v => cases v <;> exact ⟨_, rfl⟩
          | reject => exact ⟨[], by simp⟩
          | panic => exact ⟨[], by simp⟩
    obtain ⟨m1, hm1⟩ := h1
    obtain ⟨m2, hm2⟩ := ih (step H s l)
    refine ⟨m1 ++ m2, ?_⟩
    simp only [run, List.foldl_cons] at hm2 ⊢
    rw [hm2, hm1, List.append_assoc]

/-- one scan step: the verdict is the classification under the registry at that moment -/
theorem scan_step (H : Bytes → Bytes) (hH : ∀ x, 0 < (H x).length) (s : Sys) (p : PktIn)
    (hh : s.held = some p) :
    ∃ v, (step H s .scan).log = s.log ++ [(p, v)] ∧ (v = .pass ↔ ¬ diverts H s.conn.reg p) := by
  obtain ⟨v, hv⟩ := classify_total H hH s.conn.reg p
  refine ⟨v, ?_, ?_⟩
  · simp only [step, hh, hv]
    cases v <;> rfl
  · rw [← classify_pass_iff H hH, hv]
    constructor
    · intro h; rw [h]
    · intro h; injection h


/-! ### concurrent registration/removal of "volatile" attempts around a stable set -/

/-- what the writers of the `conc` experiment may do: (re-)register a stable attempt with its own
    metadata, register a volatile attempt whose id is not a stable one, remove a non-stable id -/
def Disciplined (stable vol : Registry) : Label → Prop
  | .add id m => (id, m) ∈ stable ∨ ((id, m) ∈ vol ∧ ∀ e ∈ stable, e.1 ≠ id)
  | .remove id => ∀ e ∈ stable, e.1 ≠ id
  | _ => True

structure Sandwich (H : Bytes → Bytes) (stable vol : Registry) (s : Sys) : Prop where
  lower : ∀ e ∈ stable, e ∈ s.conn.reg
  upper : ∀ e ∈ s.conn.reg, e ∈ stable ++ vol
  logged : ∀ pv ∈ s.log, (diverts H stable pv.1 → pv.2 ≠ .pass) ∧ (pv.2 ≠ .pass → diverts H (stable ++ vol) pv.1)
  nopanic : s.panicked = false

theorem mem_insert (r : Registry) (id : Id) (m : Meta) (e : Id × Meta) :
    e ∈ r.insert id m ↔ e = (id, m) ∨ (e ∈ r ∧ e.1 ≠ id) := by
  simp [Registry.insert, mem_remove]

theorem sandwich_step (H : Bytes → Bytes) (hH : ∀ x, 0 < (H x).length) (stable vol : Registry)
    (hu : Uniq stable) (s : Sys) (l : Label) (hd : Disciplined stable vol l)
    (h : Sandwich H stable vol s) : Sandwich H stable vol (step H s l) := by
  cases l with
  | add id m =>
    simp only [step, addAttempt]
    by_cases hid : id = []
    · simp only [hid, ↓reduceIte]; exact h
    · simp only [hid, ↓reduceIte]
      rcases decodeMeta_cases m with hm | ⟨n, k, hm, _⟩
      · simp only [hm]; exact h
      · simp only [hm]
        refine ⟨?_, ?_, h.logged, h.nopanic⟩
        · intro e he
          rw [mem_insert]
          by_cases hei : e.1 = id
          · left
            rcases hd with hst | ⟨_, hne⟩
            · -- both (id, m) and e are stable entries with the same id
              have := (get?_eq_some_iff stable hu id m).mpr hst
              have h2 := (get?_eq_some_iff stable hu e.1 e.2).mpr he
              rw [hei, this] at h2
              injection h2 with h2
              rw [← hei, h2]
            · exact absurd hei (hne e he)
          · right; exact ⟨h.lower e he, hei⟩
        · intro e he
          rw [mem_insert] at he
          rcases he with rfl | ⟨he, _⟩
          · rcases hd with hst | ⟨hv, _⟩
            · exact List.mem_append_left _ hst
            · exact List.mem_append_right _ hv
          · exact h.upper e he
  | remove id =>
    simp only [step]
    refine ⟨?_, ?_, h.logged, h.nopanic⟩
    · intro e he
      exact (mem_remove _ id e).mpr ⟨h.lower e he, hd e he⟩
    · intro e he
      exact h.upper e ((mem_remove _ id e).mp he).1
  | recv p =>
    simp only [step]
    cases s.held with
    | none => exact ⟨h.lower, h.upper, h.logged, h.nopanic⟩
    | some _ => exact h
  | scan =>
    cases hh : s.held with
    | none => simp only [step, hh]; exact h
    | some p =>
      obtain ⟨v, hv⟩ := classify_total H hH s.conn.reg p
      have hpass := classify_pass_iff H hH s.conn.reg p
      have hlog : (diverts H stable p → v ≠ .pass) ∧ (v ≠ .pass → diverts H (stable ++ vol) p) := by
        constructor
        · intro hdv hvp
          rw [hvp] at hv
          exact (hpass.mp hv) (diverts_mono H stable _ p h.lower hdv)
        · intro hvp
          apply Classical.byContradiction
          intro hnd
          have : ¬ diverts H s.conn.reg p := fun hdv => hnd (diverts_mono H _ _ p h.upper hdv)
          rw [hpass.mpr this] at hv
          injection hv with hv
          exact hvp hv.symm
      have hl : ∀ pv ∈ s.log ++ [(p, v)],
          (diverts H stable pv.1 → pv.2 ≠ .pass) ∧ (pv.2 ≠ .pass → diverts H (stable ++ vol) pv.1) := by
        intro pv hpv
        rcases List.mem_append.mp hpv with hpv | hpv
        · exact h.logged pv hpv
        · rw [List.mem_singleton] at hpv; rw [hpv]; exact hlog
      simp only [step, hh, hv]
      cases v <;> exact ⟨h.lower, h.upper, hl, h.nopanic⟩

theorem sandwich_run (H : Bytes → Bytes) (hH : ∀ x, 0 < (H x).length) (stable vol : Registry)
    (hu : Uniq stable) : ∀ (sched : List Label) (s : Sys),
      (∀ l ∈ sched, Disciplined stable vol l) → Sandwich H stable vol s →
      Sandwich H stable vol (run H s sched) := by
  intro sched
  induction sched with
  | nil => intro s _ h; exact h
  | cons l ls ih =>
    intro s hd h
    simp only [run, List.foldl_cons]
    exact ih _ (fun l' hl' => hd l' (List.mem_cons_of_mem _ hl'))
      (sandwich_step H hH stable vol hu s l (hd l (List.mem_cons_self ..)) h)


/-! ### single-bit flips -/

theorem bxor_swap_cancel (old x : Byte) : bxor (bxor old x) old = x := by
  rw [bxor_assoc, bxor_comm x old, ← bxor_assoc, bxor_self, bxor_comm, bxor_zero]

theorem bit_ne_zero : ∀ k : Fin 8, byte (2 ^ k.val) ≠ 0 := by decide

theorem bit_flip_ne (old : Byte) (k : Fin 8) : bxor old (byte (2 ^ k.val)) ≠ old := by
  intro h
  have h' : bxor old (byte (2 ^ k.val)) = bxor old 0 := by rw [bxor_zero]; exact h
  exact bit_ne_zero k ((bxor_left_cancel _ _ _).mp h')

theorem validType_cases {t : Byte} (h : validType t = true) : t = 1 ∨ t = 2 := by
  simpa [validType, typeHello, typeAck] using h

theorem validType_flip (t : Byte) (k : Fin 8) (h : validType t = true) :
    validType (bxor t (byte (2 ^ k.val))) = false := by
  rcases validType_cases h with rfl | rfl <;> revert k <;> decide

/-! ### removal -/

/-- no later successful registration of `id` -/
def NoAdd (id : Id) (hist : List Label) : Prop := ∀ m, Label.add id m ∉ hist

theorem foldl_absStep_none (id : Id) : ∀ (post : List Label) (f : Id → Option Meta),
    NoAdd id post → f id = none → (post.foldl absStep f) id = none := by
  intro post
  induction post with
  | nil => intro f _ h; exact h
  | cons l ls ih =>
    intro f hna h
    simp only [List.foldl_cons]
    apply ih
    · intro m hm; exact hna m (List.mem_cons_of_mem _ hm)
    · cases l with
      | add id' m =>
        simp only [absStep]
        split
        · simp only [upd]
          split
          · rename_i heq
            exact absurd (by rw [heq]; exact List.mem_cons_self ..) (hna m)
          · exact h
        · exact h
      | remove id' =>
        simp only [absStep, upd]
        split
        · rfl
        · exact h
      | recv _ => exact h
      | scan => exact h

theorem absReg_after_remove (id : Id) (pre post : List Label) (h : NoAdd id post) :
    absReg (pre ++ .remove id :: post) id = none := by
  unfold absReg
  rw [List.foldl_append, List.foldl_cons]
  apply foldl_absStep_none id post _ h
  simp [absStep, upd]

/-! ### the STUN event channel only ever holds events that carry their parsed message -/

def HasMsg (q : List StunEvent) : Prop := ∀ e ∈ q, e.message.isSome = true

theorem decodeStun_message {v : StunView} {e : StunEvent} (h : decodeStun v = some e) :
    e.message.isSome = true := by
  unfold decodeStun at h
  split at h
  · cases h
  · split at h
    · cases h; rfl
    · cases h

theorem classify_stun_message (H : Bytes → Bytes) (hH : ∀ x, 0 < (H x).length) (r : Registry) (p : PktIn)
    (e : StunEvent) (h : classify H r p = .ok (.stun e)) : e.message.isSome = true := by
  rcases classify_spec H hH r p with ⟨a, hs, h'⟩ | ⟨_, ⟨_, h'⟩ | ⟨src, e', t, n, _, _, _, h'⟩⟩
  · rw [h'] at h; injection h with h; injection h with h; subst h
    exact decodeStun_message hs
  · rw [h'] at h; cases h
  · rw [h'] at h; cases h

theorem offer_hasMsg (q : List StunEvent) (cap : Nat) (e : StunEvent) (hq : HasMsg q)
    (he : e.message.isSome = true) : HasMsg (offer q cap e) := by
  unfold offer
  split
  · intro x hx
    rcases List.mem_append.mp hx with hx | hx
    · exact hq x hx
    · rw [List.mem_singleton] at hx; rw [hx]; exact he
  · exact hq

theorem readFrom_hasMsg (H : Bytes → Bytes) (hH : ∀ x, 0 < (H x).length) :
    ∀ (ins : List Input) (c c' : Conn) (r : Ret) (k : Nat), HasMsg c.stun →
      readFrom H c ins = .ok (c', r, k) → HasMsg c'.stun := by
  intro ins
  induction ins with
  | nil => intro c c' r k hc h; simp [readFrom] at h; rw [← h.1]; exact hc
  | cons i rest ih =>
    intro c c' r k hc h
    cases i with
    | err => simp [readFrom] at h; rw [← h.1]; exact hc
    | pkt p =>
      obtain ⟨v, hv⟩ := classify_total H hH c.reg p
      cases v with
      | pass => simp [readFrom, hv] at h; rw [← h.1]; exact hc
      | stun e =>
        have he := classify_stun_message H hH c.reg p e hv
        simp only [readFrom, hv] at h
        cases hr : readFrom H { c with stun := offer c.stun c.cap e } rest with
        | ok x =>
          obtain ⟨c2, r2, k2⟩ := x
          rw [hr] at h
          simp at h
          rw [← h.1]
          exact ih _ c2 r2 k2 (offer_hasMsg _ _ _ hc he) hr
        | reject => rw [hr] at h; cases h
        | panic => rw [hr] at h; cases h
      | punch ev =>
        simp only [readFrom, hv] at h
        cases hr : readFrom H { c with events := offer c.events c.cap ev } rest with
        | ok x =>
          obtain ⟨c2, r2, k2⟩ := x
          rw [hr] at h
          simp at h
          rw [← h.1]
          exact ih { c with events := offer c.events c.cap ev } c2 r2 k2 hc hr
        | reject => rw [hr] at h; cases h
        | panic => rw [hr] at h; cases h

theorem step_hasMsg (H : Bytes → Bytes) (hH : ∀ x, 0 < (H x).length) (s : Sys) (l : Label)
    (h : HasMsg s.conn.stun) : HasMsg (step H s l).conn.stun := by
  cases l with
  | add id m =>
    simp only [step]
    cases addAttempt s.conn.reg id m <;> exact h
  | remove id => exact h
  | recv p =>
    simp only [step]
    cases s.held <;> exact h
  | scan =>
    simp only [step]
    cases hh : s.held with
    | none => exact h
    | some p =>
      simp only []
      obtain ⟨v, hv⟩ := classify_total H hH s.conn.reg p
      rw [hv]
      cases v with
      | pass => exact h
      | punch ev => exact h
      | stun e => exact offer_hasMsg _ _ _ h (classify_stun_message H hH _ p e hv)

theorem run_hasMsg (H : Bytes → Bytes) (hH : ∀ x, 0 < (H x).length) :
    ∀ (sched : List Label) (s : Sys), HasMsg s.conn.stun → HasMsg (run H s sched).conn.stun := by
  intro sched
  induction sched with
  | nil => intro s h; exact h
  | cons l ls ih =>
    intro s h
    simp only [run, List.foldl_cons]
    exact ih _ (step_hasMsg H hH s l h)

/-- on events that carry their message the consumer never faults; what it leaves on the channel
    still carries messages -/
theorem consumeStun_total : ∀ (evs : List StunEvent) (txs : List Bytes) (res : List AddrPort),
    HasMsg evs → ∃ txs' res' left, consumeStun txs res evs = .ok (txs', res', left) ∧ HasMsg left := by
  intro evs
  induction evs with
  | nil =>
    intro txs res h
    cases txs with
    | nil => exact ⟨[], res, [], by simp [consumeStun], h⟩
    | cons t ts => exact ⟨t :: ts, res, [], by simp [consumeStun], h⟩
  | cons ev rest ih =>
    intro txs res h
    have hrest : HasMsg rest := fun e he => h e (List.mem_cons_of_mem _ he)
    cases txs with
    | nil => exact ⟨[], res, ev :: rest, by simp [consumeStun], h⟩
    | cons t ts =>
      have hev := h ev (List.mem_cons_self ..)
      cases hm : ev.message with
      | none => rw [hm] at hev; cases hev
      | some id =>
        simp only [consumeStun, hm]
        split
        · exact ih _ _ hrest
        · exact ih _ _ hrest

theorem discover_total (H : Bytes → Bytes) (hH : ∀ x, 0 < (H x).length) (c : Conn) (txs : List Bytes)
    (answer : Option PktIn) (hc : HasMsg c.stun) :
    ∃ c' r, discover H c txs answer = .ok (c', r) ∧ HasMsg c'.stun ∧ c'.reg = c.reg := by
  obtain ⟨txs1, res1, left1, h1, hl1⟩ := consumeStun_total c.stun txs [] hc
  unfold discover
  rw [h1]
  simp only []
  cases txs1 with
  | nil => exact ⟨_, _, rfl, hl1, rfl⟩
  | cons t ts =>
    cases answer with
    | none => exact ⟨_, _, rfl, hl1, rfl⟩
    | some p =>
      simp only []
      obtain ⟨pre, rest, c2, _, _, hreg, _, hcase⟩ := readFrom_spec H hH [.pkt p] { c with stun := left1 }
      have hr : ∃ r k, readFrom H { c with stun := left1 } [.pkt p] = .ok (c2, r, k) := by
        rcases hcase with ⟨_, h⟩ | ⟨_, _, h⟩ | ⟨_, _, _, _, h⟩ <;> exact ⟨_, _, h⟩
      obtain ⟨r, k, hr⟩ := hr
      have h2 := readFrom_hasMsg H hH _ _ c2 r k (by exact hl1) hr
      obtain ⟨txs2, res2, left2, h3, hl2⟩ := consumeStun_total c2.stun (t :: ts) res1 h2
      rw [hr]
      simp only [h3]
      exact ⟨_, _, rfl, hl2, hreg⟩


end Hy.Punch
