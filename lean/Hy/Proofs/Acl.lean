/-
  Helper lemmas for C09 (Hy.Model.Acl).  Core Lean only.
-/
import Hy.Model.Acl
set_option linter.unusedSimpArgs false
set_option linter.unusedVariables false
namespace Hy.Acl

/-! ### IP canonical form, `ipEqual`, `cidrContains`, the key -/

theorem to4_length {a p : IP} (h : to4 a = some p) : p.length = 4 := by
  unfold to4 at h
  split at h
  · cases h; assumption
  · split at h
    · rename_i h16; cases h
      simp [List.length_drop, h16.1]
    · cases h

theorem to4_of_length4 {p : IP} (h : p.length = 4) : to4 p = some p := by
  simp [to4, h]

theorem canon_idem (a : IP) : canon (canon a) = canon a := by
  unfold canon
  cases h : to4 a with
  | none => simp [h]
  | some p => simp [to4_of_length4 (to4_length h)]

theorem list_eq_iff_take_drop (n : Nat) (x a : List Nat) :
    x = a ↔ x.take n = a.take n ∧ x.drop n = a.drop n := by
  constructor
  · intro h; subst h; exact ⟨rfl, rfl⟩
  · intro ⟨h1, h2⟩
    rw [← List.take_append_drop n x, ← List.take_append_drop n a, h1, h2]

/-- `IP.Equal` sees an address only through its `To4` form -/
theorem ipEqual_canon (x a : IP) : ipEqual x a = ipEqual x (canon a) := by
  unfold canon
  cases h : to4 a with
  | none => rfl
  | some p =>
    simp only [Option.getD_some]
    have hp := to4_length h
    unfold to4 at h
    split at h
    · cases h; rfl
    · rename_i h4
      split at h
      · rename_i h16
        cases h
        obtain ⟨hl, hpre⟩ := h16
        by_cases hx16 : x.length = 16
        · have e1 : ipEqual x a = (x == a) := by simp [ipEqual, hx16, hl]
          have e2 : ipEqual x (a.drop 12) = (x.take 12 == v4InV6Prefix && x.drop 12 == a.drop 12) := by
            simp [ipEqual, hx16, hp]
          rw [e1, e2, Bool.eq_iff_iff]
          simp only [beq_iff_eq, Bool.and_eq_true]
          rw [list_eq_iff_take_drop 12 x a, hpre]
        · by_cases hx4 : x.length = 4
          · have e1 : ipEqual x a = (x == a.drop 12) := by
              simp [ipEqual, hx4, hl, hpre]
            have e2 : ipEqual x (a.drop 12) = (x == a.drop 12) := by
              simp [ipEqual, hx4, hp]
            rw [e1, e2]
          · have e1 : ipEqual x a = false := by simp [ipEqual, hx4, hx16, hl]
            have e2 : ipEqual x (a.drop 12) = false := by simp [ipEqual, hx4, hx16, hp]
            rw [e1, e2]
      · cases h

theorem cidrContains_canon (n m a : IP) : cidrContains n m a = cidrContains n m (canon a) := by
  unfold cidrContains
  simp only [canon_idem]

theorem hostMatch_canon (m : Matcher) (u : Str) (a b : IP) :
    hostMatch m u a b = hostMatch m u (canon a) (canon b) := by
  cases m with
  | all => rfl
  | exact p => rfl
  | wildcard p => rfl
  | suffix p => rfl
  | ip x => simp only [hostMatch]; rw [ipEqual_canon x a, ipEqual_canon x b]
  | cidr n k => simp only [hostMatch]; rw [cidrContains_canon n k a, cidrContains_canon n k b]

/-- the cache key determines the `To4` form of each address -/
theorem ipKey_canon {a b : IP} (h : ipKey a = ipKey b) : canon a = canon b := by
  have key : ∀ x : IP, (ipKey x = .nil ∧ x = []) ∨ (ipKey x = .odd x) ∨
      (∃ p, ipKey x = .v4 p ∧ to4 x = some p) ∨ (ipKey x = .v6 x ∧ to4 x = none) := by
    intro x
    unfold ipKey
    by_cases h0 : x.length = 0
    · left; simp [h0, List.length_eq_zero_iff.mp h0]
    · by_cases hodd : x.length ≠ 4 ∧ x.length ≠ 16
      · right; left; simp [h0, hodd]
      · right; right
        cases ht : to4 x with
        | some p => left; exact ⟨p, by simp [h0, hodd], rfl⟩
        | none => right; simp [h0, hodd]
  rcases key a with ⟨ka, ea⟩ | ka | ⟨p, ka, ta⟩ | ⟨ka, ta⟩ <;>
  rcases key b with ⟨kb, eb⟩ | kb | ⟨p', kb, tb⟩ | ⟨kb, tb⟩ <;>
  rw [ka, kb] at h <;> try (cases h)
  · rw [ea, eb]
  · rfl
  · simp [canon, ta, tb]
  · rfl

theorem key_faithfulG (pok : Nat → Nat → Nat → Bool) (U : Str → Str) (q₁ q₂ : Query)
    (h : key q₁ = key q₂) (r : Rule) : ruleMatchG pok U r q₁ = ruleMatchG pok U r q₂ := by
  unfold key at h
  injection h with hn h4 h6 hp hport
  unfold ruleMatchG
  rw [hn, hp, hport, hostMatch_canon _ _ q₁.v4 q₁.v6, hostMatch_canon _ _ q₂.v4 q₂.v6,
    ipKey_canon h4, ipKey_canon h6]

theorem eval_faithfulG (pok : Nat → Nat → Nat → Bool) (U : Str → Str) (rules : List Rule)
    (q₁ q₂ : Query) (h : key q₁ = key q₂) : evalG pok U rules q₁ = evalG pok U rules q₂ := by
  unfold evalG
  have : (fun r => ruleMatchG pok U r q₁) = (fun r => ruleMatchG pok U r q₂) :=
    funext (key_faithfulG pok U q₁ q₂ h)
  rw [this]

/-! ### the cache is invisible, for any eviction (prototype A.6) -/

/-- every cached decision is the uncached answer of every query that has its key -/
def Sound (pok : Nat → Nat → Nat → Bool) (U : Str → Str) (rules : List Rule) (c : Store) : Prop :=
  ∀ k d, (k, d) ∈ c → ∀ q, key q = k → d = evalG pok U rules q

theorem sound_nil (pok U rules) : Sound pok U rules [] := by
  intro k d h; cases h

theorem lookup_sound {pok U rules} {c : Store} (h : Sound pok U rules c) (q : Query) (d : Dec)
    (hl : lookup c (key q) = some d) : d = evalG pok U rules q := by
  unfold lookup at hl
  cases hf : c.find? (fun e => e.1 == key q) with
  | none => simp [hf] at hl
  | some e =>
    simp [hf] at hl
    have hmem := List.mem_of_find?_eq_some hf
    have hk := List.find?_some hf
    simp at hk
    subst hl
    exact h e.1 e.2 hmem q hk.symm

theorem cachedMatch_answer {pok U rules} {c : Store} (h : Sound pok U rules c) (q : Query)
    (ev : Key → Bool) : (cachedMatchG pok U rules c q ev).2 = evalG pok U rules q := by
  unfold cachedMatchG
  split
  · rename_i d hl; exact lookup_sound h q d hl
  · rfl

theorem cachedMatch_sound {pok U rules} {c : Store} (h : Sound pok U rules c) (q : Query)
    (ev : Key → Bool) : Sound pok U rules (cachedMatchG pok U rules c q ev).1 := by
  unfold cachedMatchG
  split
  · intro k d hm q' hq'
    exact h k d (List.mem_filter.mp hm).1 q' hq'
  · intro k d hm q' hq'
    have := (List.mem_filter.mp hm).1
    simp only [List.mem_cons, Prod.mk.injEq] at this
    rcases this with ⟨hk, hd⟩ | hm'
    · subst hd; exact eval_faithfulG pok U rules q q' (by rw [hq', hk])
    · exact h k d hm' q' hq'

theorem runQueries_eq (U : Str → Str) (rules : List Rule) (hist : List (Query × (Key → Bool))) :
    ∀ c, Sound portOk U rules c → runQueries U rules c hist = hist.map (fun p => eval U rules p.1) := by
  induction hist with
  | nil => intro c _; rfl
  | cons p rest ih =>
    intro c h
    obtain ⟨q, ev⟩ := p
    simp only [runQueries, List.map_cons]
    unfold cachedMatch
    rw [cachedMatch_answer h q ev]
    have := ih _ (cachedMatch_sound h q ev)
    unfold cachedMatch at this
    rw [this]; rfl

/-! ### concurrent lookups: the invariant and its preservation by every step -/

def CInv (pok : Nat → Nat → Nat → Bool) (U : Str → Str) (rules : List Rule) (s : CState) : Prop :=
  Sound pok U rules s.store ∧
  (∀ p ∈ s.pending, p.2.2 = evalG pok U rules p.2.1) ∧
  (∀ a ∈ s.answers, a.2 = evalG pok U rules a.1)

theorem cinv_init (pok U rules) : CInv pok U rules {} :=
  ⟨sound_nil pok U rules, (by intro p h; cases h), (by intro a h; cases h)⟩

theorem cstep_inv {pok U rules} {s : CState} (h : CInv pok U rules s) (l : Step) :
    CInv pok U rules (cstep pok U rules s l) := by
  obtain ⟨hs, hp, ha⟩ := h
  cases l with
  | get t q =>
    simp only [cstep]
    split
    · exact ⟨hs, hp, ha⟩
    · split
      · rename_i d hl
        refine ⟨hs, hp, ?_⟩
        intro a hm
        rcases List.mem_cons.mp hm with e | hm
        · subst e; exact lookup_sound hs q d hl
        · exact ha a hm
      · refine ⟨hs, ?_, ha⟩
        intro p hm
        rcases List.mem_cons.mp hm with e | hm
        · subst e; rfl
        · exact hp p hm
  | add t ev =>
    simp only [cstep]
    split
    · exact ⟨hs, hp, ha⟩
    · rename_i t' q d hf
      have hmem := List.mem_of_find?_eq_some hf
      have hd : d = evalG pok U rules q := hp _ hmem
      refine ⟨?_, ?_, ?_⟩
      · intro k d' hm q' hq'
        have := (List.mem_filter.mp hm).1
        simp only [List.mem_cons, Prod.mk.injEq] at this
        rcases this with ⟨hk, hd'⟩ | hm'
        · rw [hd', hd]; exact eval_faithfulG pok U rules q q' (by rw [hq', hk])
        · exact hs k d' hm' q' hq'
      · intro p hm
        exact hp p (List.mem_filter.mp hm).1
      · intro a hm
        rcases List.mem_cons.mp hm with e | hm
        · subst e; exact hd
        · exact ha a hm

theorem crun_inv {pok U rules} (sched : List Step) :
    ∀ {s : CState}, CInv pok U rules s → CInv pok U rules (crun pok U rules s sched) := by
  induction sched with
  | nil => intro s h; exact h
  | cons l rest ih => intro s h; exact ih (cstep_inv h l)

/-! ### the wildcard matcher against its specification -/

/-- `*` (42) stands for any, possibly empty, run of characters; everything else for itself -/
inductive WMatch : Str → Str → Prop where
  | nil : WMatch [] []
  | lit {c : Nat} {p s : Str} : c ≠ 42 → WMatch p s → WMatch (c :: p) (c :: s)
  | star {p s t : Str} (run : Str) : WMatch p s → t = run ++ s → WMatch (42 :: p) t

theorem starLoop_iff (k : Str → Bool) (s : Str) :
    starLoop k s = true ↔ ∃ run rest, s = run ++ rest ∧ k rest = true := by
  induction s with
  | nil =>
    simp only [starLoop]
    constructor
    · intro h; exact ⟨[], [], rfl, h⟩
    · intro ⟨run, rest, h, hk⟩
      have : rest = [] := by
        cases run with
        | nil => simpa using h.symm
        | cons _ _ => cases h
      subst this; exact hk
  | cons x s ih =>
    simp only [starLoop, Bool.or_eq_true]
    constructor
    · rintro (h | h)
      · exact ⟨[], x :: s, rfl, h⟩
      · obtain ⟨run, rest, hs, hk⟩ := ih.mp h
        exact ⟨x :: run, rest, by rw [hs]; rfl, hk⟩
    · intro ⟨run, rest, hs, hk⟩
      cases run with
      | nil => left; simp at hs; rw [hs]; exact hk
      | cons y run =>
        right
        simp only [List.cons_append, List.cons.injEq] at hs
        exact ih.mpr ⟨run, rest, hs.2, hk⟩

theorem deepMatch_iff (p : Str) : ∀ s, deepMatch p s = true ↔ WMatch p s := by
  induction p with
  | nil =>
    intro s
    simp only [deepMatch]
    constructor
    · intro h
      cases s with
      | nil => exact .nil
      | cons _ _ => simp at h
    · intro h; cases h; rfl
  | cons c ps ih =>
    intro s
    simp only [deepMatch]
    by_cases hc : c = 42
    · subst hc
      simp only [if_true]
      rw [starLoop_iff]
      constructor
      · intro ⟨run, rest, hs, hk⟩
        exact .star run ((ih rest).mp hk) hs
      · intro h
        cases h with
        | lit hne _ => exact absurd rfl hne
        | star run hw hs => exact ⟨run, _, hs, (ih _).mpr hw⟩
    · simp only [hc, if_false]
      cases s with
      | nil =>
        constructor
        · intro h; cases h
        · intro h; cases h with
          | star run hw hs => exact absurd rfl hc
      | cons x s' =>
        simp only [Bool.and_eq_true, beq_iff_eq]
        constructor
        · intro ⟨hx, hm⟩
          subst hx
          exact .lit hc ((ih s').mp hm)
        · intro h
          cases h with
          | lit _ hw => exact ⟨rfl, (ih s').mpr hw⟩
          | star run hw hs => exact absurd rfl hc

/-! ### suffix, port, protocol -/

theorem suffixMatch_iff (p u : Str) (a b : IP) :
    hostMatch (.suffix p) u a b = true ↔ u = p ∨ ∃ pre, u = pre ++ 46 :: p := by
  simp only [hostMatch, Bool.or_eq_true, beq_iff_eq, List.isSuffixOf_iff_suffix]
  constructor
  · rintro (h | ⟨t, ht⟩)
    · exact .inl h
    · exact .inr ⟨t, ht.symm⟩
  · rintro (h | ⟨t, ht⟩)
    · exact .inl h
    · exact .inr ⟨t, ht.symm⟩

theorem portOk_iff (s e port : Nat) :
    portOk s e port = true ↔ (s = 0 ∧ e = 0) ∨ (s ≤ port ∧ port ≤ e) := by
  unfold portOk
  simp only [Bool.not_eq_true', Bool.and_eq_false_iff, Bool.or_eq_false_iff, bne_eq_false_iff_eq,
    decide_eq_false_iff_not, Nat.not_lt]

theorem portOkPinned_iff (s e port : Nat) :
    portOkPinned s e port = true ↔ s = 0 ∨ (s ≤ port ∧ port ≤ e) := by
  unfold portOkPinned
  simp only [Bool.not_eq_true', Bool.and_eq_false_iff, Bool.or_eq_false_iff, bne_eq_false_iff_eq,
    decide_eq_false_iff_not, Nat.not_lt]

theorem protoOk_iff (rp qp : Proto) : protoOk rp qp = true ↔ rp = .both ∨ rp = qp := by
  unfold protoOk
  simp only [Bool.or_eq_true, beq_iff_eq]

/-! ### normalisation: lower case, trailing dots -/

theorem lower_lower (c : Nat) : lower (lower c) = lower c := by
  unfold lower
  split <;> (try split) <;> first | rfl | omega

theorem lower_not_upper (c : Nat) : ¬ (65 ≤ lower c ∧ lower c ≤ 90) := by
  unfold lower
  split <;> omega

theorem lower_eq_dot (c : Nat) : lower c = 46 ↔ c = 46 := by
  unfold lower
  split <;> omega

theorem toLower_idem (s : Str) : toLower (toLower s) = toLower s := by
  unfold toLower
  rw [List.map_map]
  apply List.map_congr_left
  intro c _
  exact lower_lower c

theorem toLower_append (s t : Str) : toLower (s ++ t) = toLower s ++ toLower t := by
  unfold toLower; exact List.map_append

theorem toLower_id {s : Str} (h : ∀ c ∈ s, lower c = c) : toLower s = s := by
  unfold toLower
  induction s with
  | nil => rfl
  | cons c s ih =>
    simp only [List.map_cons]
    rw [h c (List.mem_cons_self), ih (fun d hd => h d (List.mem_cons_of_mem _ hd))]

theorem toLower_dots (k : Nat) : toLower (List.replicate k 46) = List.replicate k 46 := by
  unfold toLower
  simp [List.map_replicate, lower]

theorem trimRightDots_append_dot (s : Str) : trimRightDots (s ++ [46]) = trimRightDots s := by
  induction s with
  | nil => simp [trimRightDots]
  | cons c s ih => simp only [List.cons_append, trimRightDots, ih]

theorem trimRightDots_append_dots (s : Str) (k : Nat) :
    trimRightDots (s ++ List.replicate k 46) = trimRightDots s := by
  induction k with
  | zero => simp
  | succ k ih =>
    rw [List.replicate_succ', ← List.append_assoc, trimRightDots_append_dot, ih]

theorem trimRightDots_spec (s : Str) : ∃ k, s = trimRightDots s ++ List.replicate k 46 := by
  induction s with
  | nil => exact ⟨0, rfl⟩
  | cons c s ih =>
    obtain ⟨k, hk⟩ := ih
    simp only [trimRightDots]
    cases ht : trimRightDots s with
    | nil =>
      rw [ht] at hk
      simp only [List.nil_append] at hk
      by_cases hc : c = 46
      · refine ⟨k + 1, ?_⟩
        simp only [hc, if_true, List.nil_append]
        rw [hk]; rfl
      · refine ⟨k, ?_⟩
        simp only [hc, if_false]
        rw [hk]; simp
    | cons t ts =>
      rw [ht] at hk
      refine ⟨k, ?_⟩
      simp only
      rw [List.cons_append, ← hk]

theorem trimRightDots_last (s : Str) : (trimRightDots s).getLast? ≠ some 46 := by
  induction s with
  | nil => simp [trimRightDots]
  | cons c s ih =>
    simp only [trimRightDots]
    cases ht : trimRightDots s with
    | nil =>
      by_cases hc : c = 46
      · simp [hc]
      · simp only [hc, if_false]
        simp [List.getLast?]
        exact hc
    | cons t ts =>
      rw [ht] at ih
      simp only
      rw [List.getLast?_cons_cons]
      exact ih

theorem trimRightDots_of_last : ∀ (s : Str), s.getLast? ≠ some 46 → trimRightDots s = s
  | [], _ => rfl
  | [c], h => by
    have : c ≠ 46 := by intro hc; apply h; simp [hc]
    simp [trimRightDots, this]
  | c :: d :: s, h => by
    rw [List.getLast?_cons_cons] at h
    have ih := trimRightDots_of_last (d :: s) h
    simp only [trimRightDots] at ih ⊢
    rw [ih]

theorem mem_trimRightDots {s : Str} {c : Nat} (h : c ∈ trimRightDots s) : c ∈ s := by
  obtain ⟨k, hk⟩ := trimRightDots_spec s
  rw [hk]; exact List.mem_append_left _ h

theorem normalise_toLower (s : Str) : normalise (toLower s) = normalise s := by
  unfold normalise; rw [toLower_idem]

theorem normalise_append_dots (s : Str) (k : Nat) :
    normalise (s ++ List.replicate k 46) = normalise s := by
  unfold normalise
  rw [toLower_append, toLower_dots, trimRightDots_append_dots]

theorem normalise_lowercase (s : Str) : ∀ c ∈ normalise s, ¬ (65 ≤ c ∧ c ≤ 90) := by
  intro c hc
  have hm := mem_trimRightDots hc
  unfold toLower at hm
  obtain ⟨d, _, hd⟩ := List.mem_map.mp hm
  rw [← hd]; exact lower_not_upper d

theorem normalise_idem (s : Str) : normalise (normalise s) = normalise s := by
  have h1 : toLower (normalise s) = normalise s := by
    apply toLower_id
    intro c hc
    have := normalise_lowercase s c hc
    unfold lower; split <;> omega
  show trimRightDots (toLower (normalise s)) = normalise s
  rw [h1]
  exact trimRightDots_of_last _ (trimRightDots_last _)

/-! ### parseProtoPort on the documented forms -/

theorem cut_append {sep : Nat} {a : Str} (b : Str) (h : sep ∉ a) :
    cut sep (a ++ sep :: b) = some (a, b) := by
  induction a with
  | nil => simp [cut]
  | cons c a ih =>
    have hc : c ≠ sep := fun e => h (e ▸ List.mem_cons_self)
    have := ih (fun hm => h (List.mem_cons_of_mem _ hm))
    simp [cut, hc, this]

theorem cut_none {sep : Nat} {s : Str} (h : sep ∉ s) : cut sep s = none := by
  induction s with
  | nil => rfl
  | cons c s ih =>
    have hc : c ≠ sep := fun e => h (e ▸ List.mem_cons_self)
    have := ih (fun hm => h (List.mem_cons_of_mem _ hm))
    simp [cut, hc, this]

theorem dropWhile_all_false {p : Nat → Bool} {s : Str} (h : ∀ c ∈ s, p c = false) :
    s.dropWhile p = s := by
  cases s with
  | nil => rfl
  | cons c s => simp [List.dropWhile, h c List.mem_cons_self]

theorem trimSpace_id {s : Str} (h : ∀ c ∈ s, isSpace c = false) : trimSpace s = s := by
  unfold trimSpace
  rw [dropWhile_all_false h, dropWhile_all_false (fun c hc => h c (List.mem_reverse.mp hc)),
    List.reverse_reverse]

/-- a non-empty string of decimal digits -/
def Digits (s : Str) : Prop := s ≠ [] ∧ ∀ c ∈ s, isDigit c = true

theorem digit_range {c : Nat} (h : isDigit c = true) : 48 ≤ c ∧ c ≤ 57 := by
  simpa [isDigit] using h

theorem Digits.all {s : Str} (h : Digits s) : s.all isDigit = true := by
  simpa [List.all_eq_true] using h.2

theorem Digits.not_mem {s : Str} (h : Digits s) {c : Nat} (hc : c < 48 ∨ 57 < c) : c ∉ s := by
  intro hm
  have := digit_range (h.2 c hm)
  omega

theorem parseU16_digits {s : Str} (h : Digits s) (hv : parseDec s ≤ 65535) :
    parseU16 s = some (parseDec s) := by
  unfold parseU16
  rw [if_pos ⟨h.1, h.all, hv⟩]

theorem parseU16_big {s : Str} (hv : 65535 < parseDec s) : parseU16 s = none := by
  unfold parseU16
  rw [if_neg]
  intro ⟨_, _, h⟩; omega

theorem Digits.ne_star {s : Str} (h : Digits s) : s ≠ cStar := by
  intro e
  have := h.2 42 (by rw [e]; simp [cStar])
  simp [isDigit] at this

theorem Digits.no_space {s : Str} (h : Digits s) : ∀ c ∈ s, isSpace c = false := by
  intro c hc
  have := digit_range (h.2 c hc)
  simp [isSpace]; omega

theorem Digits.lower {s : Str} (h : Digits s) : ∀ c ∈ s, lower c = c := by
  intro c hc
  have := digit_range (h.2 c hc)
  unfold Hy.Acl.lower; split <;> omega

/-- `port` -/
theorem parsePorts_single {ds : Str} (h : Digits ds) (hv : parseDec ds ≤ 65535) :
    parsePorts ds = some (parseDec ds, parseDec ds) := by
  unfold parsePorts
  rw [if_neg h.ne_star, trimSpace_id h.no_space, cut_none (h.not_mem (.inl (by decide))),
    parseU16_digits h hv]

theorem range_chars {lo hi : Str} (hl : Digits lo) (hh : Digits hi) :
    ∀ c ∈ lo ++ 45 :: hi, isSpace c = false := by
  intro c hc
  rcases List.mem_append.mp hc with h | h
  · exact hl.no_space c h
  · rcases List.mem_cons.mp h with h | h
    · subst h; decide
    · exact hh.no_space c h

theorem range_ne_star {lo hi : Str} (hl : Digits lo) : lo ++ 45 :: hi ≠ cStar := by
  intro e
  cases lo with
  | nil => exact hl.1 rfl
  | cons c lo =>
    simp [cStar] at e

/-- `lo-hi` with `lo ≤ hi` -/
theorem parsePorts_range {lo hi : Str} (hl : Digits lo) (hh : Digits hi)
    (hle : parseDec lo ≤ parseDec hi) (hv : parseDec hi ≤ 65535) :
    parsePorts (lo ++ 45 :: hi) = some (parseDec lo, parseDec hi) := by
  unfold parsePorts
  rw [if_neg (range_ne_star hl), trimSpace_id (range_chars hl hh),
    cut_append hi (hl.not_mem (.inl (by decide)))]
  simp only
  rw [parseU16_digits hl (by omega), parseU16_digits hh hv]
  simp only
  rw [if_neg (by omega)]

/-- `lo-hi` with `lo > hi` is refused -/
theorem parsePorts_range_reversed {lo hi : Str} (hl : Digits lo) (hh : Digits hi)
    (hlt : parseDec hi < parseDec lo) : parsePorts (lo ++ 45 :: hi) = none := by
  unfold parsePorts
  rw [if_neg (range_ne_star hl), trimSpace_id (range_chars hl hh),
    cut_append hi (hl.not_mem (.inl (by decide)))]
  simp only
  cases h1 : parseU16 lo with
  | none => rfl
  | some a =>
    cases h2 : parseU16 hi with
    | none => rfl
    | some b =>
      simp only
      have ea : a = parseDec lo := by
        unfold parseU16 at h1; split at h1 <;> simp at h1; exact h1.symm
      have eb : b = parseDec hi := by
        unfold parseU16 at h2; split at h2 <;> simp at h2; exact h2.symm
      rw [if_pos (by omega)]

def protoTok : Proto → Str
  | .tcp => cTcp
  | .udp => cUdp
  | .both => cStar

theorem protoOfTok_tok (pr : Proto) : protoOfTok (protoTok pr) = some pr := by
  cases pr <;> decide

theorem protoTok_no_slash (pr : Proto) : 47 ∉ protoTok pr := by
  cases pr <;> decide

theorem protoTok_lower (pr : Proto) : ∀ c ∈ protoTok pr, lower c = c := by
  cases pr <;> decide

/-- `proto/ports` for any port text that is already lower case, contains no `/` handled
    before, and is not the `*/*` special form: the two halves are parsed independently -/
theorem parseProtoPort_slash (pr : Proto) (b : Str) (hb : ∀ c ∈ b, lower c = c) :
    parseProtoPort (protoTok pr ++ 47 :: b) =
      match parsePorts b with
      | some (s, e) => some (pr, s, e)
      | none => none := by
  have hlow : toLower (protoTok pr ++ 47 :: b) = protoTok pr ++ 47 :: b := by
    apply toLower_id
    intro c hc
    rcases List.mem_append.mp hc with h | h
    · exact protoTok_lower pr c h
    · rcases List.mem_cons.mp h with h | h
      · subst h; decide
      · exact hb c h
  unfold parseProtoPort
  simp only [hlow]
  by_cases hspecial : protoTok pr ++ 47 :: b = cStarSlashStar
  · -- "*/*": the early return and the general path agree
    have hpr : pr = .both := by
      cases pr <;> simp [protoTok, cTcp, cUdp, cStar, cStarSlashStar] at hspecial ⊢
    subst hpr
    have hbs : b = cStar := by
      simpa [protoTok, cStar, cStarSlashStar] using hspecial
    subst hbs
    decide
  · have h1 : ¬ (protoTok pr ++ 47 :: b = [] ∨ protoTok pr ++ 47 :: b = cStar ∨
        protoTok pr ++ 47 :: b = cStarSlashStar) := by
      rintro (h | h | h)
      · cases pr <;> simp [protoTok, cTcp, cUdp, cStar] at h
      · cases pr <;> simp [protoTok, cTcp, cUdp, cStar] at h
      · exact hspecial h
    rw [if_neg h1, cut_append b (protoTok_no_slash pr)]
    simp only [protoOfTok_tok]
    cases parsePorts b with
    | none => rfl
    | some se => rfl

theorem parseDec_append_digit (s : Str) (d : Nat) : parseDec (s ++ [d]) = parseDec s * 10 + (d - 48) := by
  unfold parseDec
  rw [List.foldl_append]; rfl

/-- decimal rendering of a number (for stating the specification with numbers) -/
def toDec (n : Nat) : Str :=
  if n < 10 then [48 + n] else toDec (n / 10) ++ [48 + n % 10]
decreasing_by omega

theorem parseDec_toDec (n : Nat) : parseDec (toDec n) = n := by
  induction n using Nat.strongRecOn with
  | _ n ih =>
    rw [toDec]
    split
    · simp [parseDec]
    · rename_i h
      rw [parseDec_append_digit, ih (n / 10) (by omega)]
      omega

theorem toDec_digits (n : Nat) : Digits (toDec n) := by
  induction n using Nat.strongRecOn with
  | _ n ih =>
    rw [toDec]
    split
    · refine ⟨by simp, ?_⟩
      intro c hc
      simp at hc; subst hc
      simp [isDigit]; omega
    · rename_i h
      obtain ⟨h1, h2⟩ := ih (n / 10) (by omega)
      refine ⟨by simp, ?_⟩
      intro c hc
      rcases List.mem_append.mp hc with hm | hm
      · exact h2 c hm
      · simp at hm; subst hm
        simp [isDigit]; omega

end Hy.Acl
