/-
  Reassembly: provenance of every chunk slot (integrity), and delivery of a message
  whose chunks all arrive (reassembly_exact).  C14.
-/
import Hy.Proofs.GeckoInv
import Hy.Proofs.GeckoCodec
set_option linter.unusedSimpArgs false
namespace Hy.Gecko
open Hy

/-- what a successful decode guarantees about the header -/
theorem decodeT_valid (inp : Bytes) (h : Hdr) (pl : Bytes) (hd : decodeT inp = .val (h, pl)) :
    2 ≤ h.total ∧ h.total ≤ 8 ∧ h.idx < h.total ∧ 5 ≤ inp.length ∧ ¬ (inp.getD 0 0).val < 128 := by
  unfold decodeT at hd
  rw [headerSize_eq, minChunks_eq, maxChunks_eq] at hd
  split at hd
  · simp at hd
  · split at hd
    · simp at hd
    · dsimp only at hd
      split at hd
      · simp at hd
      · split at hd
        · simp at hd
        · split at hd
          · simp at hd
          · simp only [Dec.val.injEq, Prod.mk.injEq] at hd
            obtain ⟨h1, _⟩ := hd
            subst h1
            simp only
            omega

/-- provenance predicate `P key idx total chunk`: which chunk contents may sit in which slot -/
structure EntOK (P : Key → Nat → Nat → Bytes → Prop) (k : Key) (e : Ent) : Prop where
  len : e.chunks.length = e.total
  recv : e.received = e.chunks.countP Option.isSome
  opn : e.received < e.total
  prov : ∀ i c, e.chunks[i]? = some (some c) → P k i e.total c

def WF (P : Key → Nat → Nat → Bytes → Prop) (st : St) : Prop := ∀ k e, aget st.tab k = some e → EntOK P k e

variable (P : Key → Nat → Nat → Bytes → Prop)

theorem wf_init : WF P {} := by intro k e h; simp at h

theorem wf_drop (st : St) (j : Key) (hn : (akeys st.tab).Nodup) (h : WF P st) : WF P (dropEntry st j) := by
  intro k e hk
  by_cases hkj : k = j
  · subst hkj; rw [drop_tab_self st k hn] at hk; simp at hk
  · rw [drop_tab_ne st j k hkj] at hk; exact h k e hk

theorem wf_evict (st : St) (tie : Key) (hn : (akeys st.tab).Nodup) (h : WF P st) : WF P (evictOldest st tie) := by
  unfold evictOldest; split
  · exact h
  · exact wf_drop P st _ hn h

theorem countP_replicate_none (n : Nat) : (List.replicate n (none : Option Bytes)).countP Option.isSome = 0 := by
  induction n with
  | zero => rfl
  | succ n ih => simp [List.replicate_succ, ih]

theorem wf_admit (st : St) (k : Key) (total now : Nat) (tie : Key) (hI : Inv st) (hW : WF P st) (ht : 1 ≤ total)
    (s2 : St) (e : Ent) (ha : admitEntry st k total now tie = some (s2, e)) :
    WF P s2 ∧ EntOK P k e ∧ e.total = total := by
  unfold admitEntry at ha
  split at ha
  · rename_i e0 he0
    split at ha
    · simp at ha
    · rename_i hne
      simp only [Option.some.injEq, Prod.mk.injEq] at ha
      obtain ⟨h1, h2⟩ := ha; subst h1; subst h2
      exact ⟨hW, hW k e0 he0, by simpa using hne⟩
  · split at ha
    · simp at ha
    · simp only [Option.some.injEq, Prod.mk.injEq] at ha
      obtain ⟨h1, h2⟩ := ha; subst h1; subst h2
      have hok : EntOK P k { chunks := List.replicate total none, received := 0, total := total, deadline := now + ttl } :=
        ⟨by simp, by simp [countP_replicate_none], by simp; omega, by
          intro i c hc
          simp only [List.getElem?_replicate] at hc
          split at hc <;> simp at hc⟩
      refine ⟨?_, hok, rfl⟩
      have hW1 : WF P (if st.tab.length ≥ maxTable then evictOldest st tie else st) := by
        split
        · exact wf_evict P st tie hI.nodupT hW
        · exact hW
      intro j ej hj
      simp only at hj
      by_cases hjk : j = k
      · subst hjk; simp only [aget_aput_self, Option.some.injEq] at hj; subst hj; exact hok
      · rw [aget_aput_ne _ _ _ _ hjk] at hj; exact hW1 j ej hj

theorem countP_set_none (l : List (Option Bytes)) (i : Nat) (x : Bytes) (h : l[i]? = some none) :
    (l.set i (some x)).countP Option.isSome = l.countP Option.isSome + 1 := by
  induction l generalizing i with
  | nil => simp at h
  | cons a r ih =>
    cases i with
    | zero =>
      simp only [List.getElem?_cons_zero, Option.some.injEq] at h; subst h
      simp [List.countP_cons]
    | succ i =>
      simp only [List.getElem?_cons_succ] at h
      simp only [List.set_cons_succ, List.countP_cons, ih i h]; omega

theorem all_some_of_count (l : List (Option Bytes)) (h : l.length ≤ l.countP Option.isSome) :
    ∀ (i : Nat) (o : Option Bytes), l[i]? = some o → o.isSome := by
  have h1 : l.countP Option.isSome = l.length := Nat.le_antisymm (List.countP_le_length) h
  rw [List.countP_eq_length] at h1
  intro i o hio
  exact h1 o (List.mem_of_getElem? hio)

/-- second half of acceptChunk on a well-formed entry stored under `k` -/
theorem wf_place (s2 : St) (k : Key) (e : Ent) (idx : Nat) (pl : Bytes)
    (hn : (akeys s2.tab).Nodup) (hW : WF P s2) (he : EntOK P k e) (hp : P k idx e.total pl) :
    WF P (place s2 k e idx pl).1 ∧
    ∀ out, (place s2 k e idx pl).2 = some out →
      ∃ cs : List Bytes, out = cs.flatten ∧ cs.length = e.total ∧ ∀ i c, cs[i]? = some c → P k i cs.length c := by
  unfold place
  split
  · rename_i hslot
    dsimp only
    have hrecv : (e.chunks.set idx (some pl)).countP Option.isSome = e.received + 1 := by
      rw [countP_set_none _ _ _ hslot, he.recv]
    have hprov : ∀ i c, (e.chunks.set idx (some pl))[i]? = some (some c) → P k i e.total c := by
      intro i c hc
      rw [List.getElem?_set] at hc
      split at hc
      · rename_i hii; subst hii
        split at hc
        · simp only [Option.some.injEq] at hc; subst hc; exact hp
        · simp at hc
      · exact he.prov i c hc
    split
    · rename_i hlt
      refine ⟨?_, by simp⟩
      intro j ej hj
      simp only at hj
      by_cases hjk : j = k
      · subst hjk; simp only [aget_aput_self, Option.some.injEq] at hj; subst hj
        exact ⟨by simp [he.len], by simp [hrecv], hlt, hprov⟩
      · rw [aget_aput_ne _ _ _ _ hjk] at hj; exact hW j ej hj
    · rename_i hge
      constructor
      · intro j ej hj
        by_cases hjk : j = k
        · subst hjk
          rw [drop_tab_self _ _ (akeys_aput_nodup _ _ _ hn)] at hj; simp at hj
        · rw [drop_tab_ne _ _ _ hjk] at hj
          simp only at hj
          rw [aget_aput_ne _ _ _ _ hjk] at hj; exact hW j ej hj
      · intro out hout
        simp only [Option.some.injEq] at hout
        refine ⟨(e.chunks.set idx (some pl)).map (fun o => o.getD []), by rw [← hout]; rfl, by simp [he.len], ?_⟩
        intro i c hc
        simp only [List.length_map, List.length_set, he.len]
        simp only [List.getElem?_map, Option.map_eq_some_iff] at hc
        obtain ⟨o, ho, hoc⟩ := hc
        have hall := all_some_of_count (e.chunks.set idx (some pl)) (by
          simp only [List.length_set, hrecv, he.len]; omega) i o ho
        cases o with
        | none => simp at hall
        | some c' => simp only [Option.getD_some] at hoc; subst hoc; exact hprov i c' ho
  · exact ⟨hW, by simp⟩


theorem wf_accept (st : St) (k : Key) (h : Hdr) (pl : Bytes) (now : Nat) (tie : Key)
    (hI : Inv st) (hW : WF P st) (ht : 1 ≤ h.total) (hp : P k h.idx h.total pl) :
    WF P (acceptT st k h pl now tie).1 ∧
    ∀ out, (acceptT st k h pl now tie).2 = some out →
      ∃ cs : List Bytes, out = cs.flatten ∧ cs.length = h.total ∧ ∀ i c, cs[i]? = some c → P k i cs.length c := by
  unfold acceptT
  split
  · exact ⟨hW, by simp⟩
  · rename_i s2 e ha
    obtain ⟨hW2, hok, het⟩ := wf_admit P st k h.total now tie hI hW ht s2 e ha
    obtain ⟨hI2, _⟩ := inv_admit st k h.total now tie hI s2 e ha
    have := wf_place P s2 k e h.idx pl hI2.nodupT hW2 hok (het ▸ hp)
    rw [het] at this
    exact this

def Ev.pcap : Ev → Nat
  | .dgram _ _ _ _ pcap => pcap
  | .gc _ => 0

/-- the event brings only chunks allowed by `P` -/
def EvP : Ev → Prop
  | .dgram src d _ _ _ => ∀ h pl, decodeT (d.take bufferSize) = .val (h, pl) → P ⟨src, h.mid⟩ h.idx h.total pl
  | .gc _ => True

/-- what a delivered packet is: the concatenation of `total` chunks, each allowed by `P` for its slot -/
def Delivered (ev : Ev) (k : Key) (data : Bytes) : Prop :=
  (∃ src d now tie pcap, ev = Ev.dgram src d now tie pcap) ∧ ∃ cs : List Bytes, data = cs.flatten.take ev.pcap ∧ 2 ≤ cs.length ∧ ∀ i c, cs[i]? = some c → P k i cs.length c

theorem wf_step (st : St) (ev : Ev) (hI : Inv st) (hW : WF P st) (hE : EvP P ev) :
    WF P (stepT st ev).1 ∧ ∀ k data, (stepT st ev).2 = .msg k data → Delivered P ev k data := by
  cases ev with
  | gc now =>
    refine ⟨?_, by simp [stepT]⟩
    intro k e hk
    simp only [stepT] at hk
    rw [gc_tab st now k hI.nodupT] at hk
    split at hk
    · rename_i e0 he0
      split at hk
      · simp at hk
      · simp only [Option.some.injEq] at hk; subst hk; exact hW k e0 he0
    · simp at hk
  | dgram src d now tie pcap =>
    simp only [stepT, rxT]
    split
    · exact ⟨hW, by simp⟩
    · split
      · exact ⟨hW, by simp⟩
      · split
        · rename_i h pl hdec
          obtain ⟨t1, t2, t3, _, _⟩ := decodeT_valid _ h pl hdec
          obtain ⟨hW', hout⟩ := wf_accept P st ⟨src, h.mid⟩ h pl now tie hI hW (by omega) (hE h pl hdec)
          split
          · rename_i st' heq
            rw [heq] at hW'
            exact ⟨hW', by simp⟩
          · rename_i st' out heq
            rw [heq] at hW' hout
            refine ⟨hW', ?_⟩
            intro k data hkd
            simp only [Out.msg.injEq] at hkd
            obtain ⟨hk, hdata⟩ := hkd
            obtain ⟨cs, h1, h2, h3⟩ := hout out rfl
            subst hk
            exact ⟨⟨_, _, _, _, _, rfl⟩, cs, by rw [← hdata, h1]; rfl, by omega, h3⟩
        · exact ⟨hW, by simp⟩

theorem wf_run : ∀ (evs : List Ev) (st : St), Inv st → WF P st → (∀ ev ∈ evs, EvP P ev) →
    WF P (runT st evs).1 ∧
    ∀ k data, Out.msg k data ∈ (runT st evs).2 → ∃ ev ∈ evs, Delivered P ev k data := by
  intro evs
  induction evs with
  | nil => intro st _ hW _; exact ⟨hW, by simp [runT]⟩
  | cons ev r ih =>
    intro st hI hW hE
    obtain ⟨hW1, hD1⟩ := wf_step P st ev hI hW (hE ev (by simp))
    obtain ⟨hW2, hD2⟩ := ih (stepT st ev).1 (inv_step st ev hI) hW1 (fun e he => hE e (List.mem_cons_of_mem _ he))
    simp only [runT]
    refine ⟨hW2, ?_⟩
    intro k data hm
    rcases List.mem_cons.mp hm with hm | hm
    · exact ⟨ev, by simp, hD1 k data hm.symm⟩
    · obtain ⟨e', he', hd'⟩ := hD2 k data hm
      exact ⟨e', List.mem_cons_of_mem _ he', hd'⟩

/-- states the receiver can be in: any run from the empty table -/
def Reachable (st : St) : Prop := ∃ evs, st = (runT {} evs).1

theorem reachable_inv (st : St) (h : Reachable st) : Inv st := by
  obtain ⟨evs, rfl⟩ := h; exact inv_run evs _ inv_init

theorem reachable_wf (st : St) (h : Reachable st) : WF (fun _ _ _ _ => True) st := by
  obtain ⟨evs, rfl⟩ := h
  exact (wf_run _ evs {} inv_init (wf_init _) (by
    intro ev _; cases ev <;> simp [EvP])).1

theorem reachable_step (st : St) (ev : Ev) (h : Reachable st) : Reachable (stepT st ev).1 := by
  obtain ⟨evs, rfl⟩ := h
  refine ⟨evs ++ [ev], ?_⟩
  have : ∀ (l : List Ev) (s : St), (runT s (l ++ [ev])).1 = (stepT (runT s l).1 ev).1 := by
    intro l; induction l with
    | nil => intro s; simp [runT]
    | cons a r ih => intro s; simp only [List.cons_append, runT]; exact ih _
  exact (this evs {}).symm

theorem wf_mono (Q : Key → Nat → Nat → Bytes → Prop) (st : St) (h : WF P st)
    (hq : ∀ k e, aget st.tab k = some e → ∀ i c, e.chunks[i]? = some (some c) → Q k i e.total c) : WF Q st := by
  intro k e hk
  obtain ⟨a, b, c, _⟩ := h k e hk
  exact ⟨a, b, c, hq k e hk⟩

/-- chunk `c` arrived in `evs` for slot `i` of a message of `n` chunks under key `k` -/
def Arrived (evs : List Ev) (k : Key) (i n : Nat) (c : Bytes) : Prop :=
  ∃ d now tie pcap h, Ev.dgram k.src d now tie pcap ∈ evs ∧ decodeT (d.take bufferSize) = .val (h, c) ∧
    h.mid = k.mid ∧ h.idx = i ∧ h.total = n

/-- integrity: whatever arrives, from whomever, in whatever order: every packet ReadFrom returns as a
    reassembled message is the concatenation, in slot order, of chunks that arrived under ONE key
    (source, msgID) with ONE chunk count — never a mixture across keys. -/
theorem integrity_run (evs : List Ev) (k : Key) (data : Bytes) (h : Out.msg k data ∈ (runT {} evs).2) :
    ∃ (cs : List Bytes) (pcap : Nat), data = cs.flatten.take pcap ∧ 2 ≤ cs.length ∧
      ∀ i c, cs[i]? = some c → Arrived evs k i cs.length c := by
  have := (wf_run (Arrived evs) evs {} inv_init (wf_init _) (by
    intro ev hev
    cases ev with
    | gc now => simp [EvP]
    | dgram src d now tie pcap =>
      intro h pl hd
      exact ⟨d, now, tie, pcap, h, hev, hd, rfl, rfl, rfl⟩)).2 k data h
  obtain ⟨ev, _, _, cs, h1, h2, h3⟩ := this
  exact ⟨cs, ev.pcap, h1, h2, h3⟩


/-- a message: its key (source, msgID) and its chunks in order -/
structure Msg where
  k : Key
  cs : List Bytes

/-- the event is the arrival of chunk `i` of `M` -/
def IsChunk (M : Msg) (i : Nat) : Ev → Prop
  | .dgram src d _ _ _ => src = M.k.src ∧ ∃ h pl, decodeT (d.take bufferSize) = .val (h, pl) ∧
      h.mid = M.k.mid ∧ h.total = M.cs.length ∧ h.idx = i ∧ M.cs[i]? = some pl
  | .gc _ => False

/-- no id reuse: whatever arrives under `M`'s key (source, msgID) is a chunk of `M` -/
def NoForeign (M : Msg) : Ev → Prop
  | .dgram src d _ _ _ => ∀ h pl, src = M.k.src → decodeT (d.take bufferSize) = .val (h, pl) → h.mid = M.k.mid →
      h.total = M.cs.length ∧ M.cs[h.idx]? = some pl
  | .gc _ => True

theorem isChunk_noForeign (M : Msg) (i : Nat) (ev : Ev) (h : IsChunk M i ev) : NoForeign M ev := by
  cases ev with
  | gc now => trivial
  | dgram src d now tie pcap =>
    obtain ⟨_, h0, pl0, hd0, h1, h2, h3, h4⟩ := h
    intro h pl _ hd _
    rw [hd0] at hd
    simp only [Dec.val.injEq, Prod.mk.injEq] at hd
    obtain ⟨e1, e2⟩ := hd; subst e1; subst e2
    exact ⟨h2, h3 ▸ h4⟩

/-- slots under `M`'s key hold `M`'s chunks -/
def PM (M : Msg) : Key → Nat → Nat → Bytes → Prop :=
  fun k i n c => k = M.k → n = M.cs.length ∧ M.cs[i]? = some c

theorem evP_of_noForeign (M : Msg) (ev : Ev) (h : NoForeign M ev) : EvP (PM M) ev := by
  cases ev with
  | gc now => trivial
  | dgram src d now tie pcap =>
    intro hd pl hdec hk
    have hs : src = M.k.src := by rw [← hk]
    have hm : hd.mid = M.k.mid := by rw [← hk]
    exact h hd pl hs hdec hm

/-- a reachable state in which nothing is pending under `M`'s key is well-formed for `M` -/
theorem wf_pm_of_absent (M : Msg) (st : St) (hr : Reachable st) (ha : aget st.tab M.k = none) : WF (PM M) st := by
  apply wf_mono _ (PM M) st (reachable_wf st hr)
  intro k e hk i c _ hkM
  subst hkM; rw [ha] at hk; simp at hk

theorem delivered_pm (M : Msg) (ev : Ev) (data : Bytes) (h : Delivered (PM M) ev M.k data) :
    data = M.cs.flatten.take ev.pcap := by
  obtain ⟨_, cs, h1, h2, h3⟩ := h
  have hlen : cs.length = M.cs.length := by
    have : ∃ c, cs[0]? = some c := ⟨cs[0], by simp [List.getElem?_eq_getElem (show 0 < cs.length by omega)]⟩
    obtain ⟨c, hc⟩ := this
    exact (h3 0 c hc rfl).1
  have : cs = M.cs := by
    apply List.ext_getElem? 
    intro i
    cases hc : cs[i]? with
    | none =>
      have : cs.length ≤ i := by simpa using hc
      symm; simp; omega
    | some c => exact ((h3 i c hc rfl).2).symm
  rw [h1, this]

/-- integrity under the no-id-reuse hypothesis: from a state with nothing pending under `M`'s key, while
    everything that arrives under that key is a chunk of `M`, every packet delivered under the key is `M`. -/
theorem integrity_msg (M : Msg) (st : St) (evs : List Ev) (hr : Reachable st) (ha : aget st.tab M.k = none)
    (hnf : ∀ ev ∈ evs, NoForeign M ev) (data : Bytes) (h : Out.msg M.k data ∈ (runT st evs).2) :
    ∃ ev ∈ evs, (∃ src d now tie pcap, ev = Ev.dgram src d now tie pcap) ∧ data = M.cs.flatten.take ev.pcap := by
  obtain ⟨ev, hev, hd⟩ := (wf_run (PM M) evs st (reachable_inv st hr) (wf_pm_of_absent M st hr ha)
    (fun ev hev => evP_of_noForeign M ev (hnf ev hev))).2 M.k data h
  exact ⟨ev, hev, hd.1, delivered_pm M ev data hd⟩


/-! ### what one datagram does, by cases on the decoder -/

theorem rxT_val (st : St) (src : Nat) (d : Bytes) (now : Nat) (tie : Key) (pcap : Nat) (h : Hdr) (pl : Bytes)
    (hd : decodeT (d.take bufferSize) = .val (h, pl)) :
    rxT st src d now tie pcap =
      ((acceptT st ⟨src, h.mid⟩ h pl now tie).1,
        match (acceptT st ⟨src, h.mid⟩ h pl now tie).2 with
        | none => Out.drop
        | some out => Out.msg ⟨src, h.mid⟩ (out.take pcap)) := by
  obtain ⟨_, _, _, h5, hb⟩ := decodeT_valid _ h pl hd
  unfold rxT
  dsimp only
  rw [if_neg (by omega), if_neg hb, hd]
  dsimp only
  generalize acceptT st _ h pl now tie = r
  obtain ⟨st', o⟩ := r
  cases o <;> rfl

theorem rxT_noval (st : St) (src : Nat) (d : Bytes) (now : Nat) (tie : Key) (pcap : Nat)
    (hd : ∀ h pl, decodeT (d.take bufferSize) ≠ .val (h, pl)) :
    (rxT st src d now tie pcap).1 = st ∧ ∀ k data, (rxT st src d now tie pcap).2 ≠ .msg k data := by
  unfold rxT
  dsimp only
  split
  · exact ⟨rfl, by simp⟩
  · split
    · exact ⟨rfl, by simp⟩
    · split
      · rename_i h pl hdec; exact absurd hdec (hd h pl)
      · exact ⟨rfl, by simp⟩

/-! ### effect of a chunk on OTHER keys -/

theorem place_other (s2 : St) (k' k : Key) (e : Ent) (idx : Nat) (pl : Bytes) (hne : k ≠ k') :
    aget (place s2 k' e idx pl).1.tab k = aget s2.tab k := by
  unfold place
  split
  · dsimp only
    split
    · exact aget_aput_ne _ _ _ _ hne
    · rw [drop_tab_ne _ _ _ hne]; exact aget_aput_ne _ _ _ _ hne
  · rfl

theorem accept_other (st : St) (k' k : Key) (h : Hdr) (pl : Bytes) (now : Nat) (tie : Key) (hne : k ≠ k')
    (hev : aget st.tab k' = none → perGet st.per k'.src < maxPerSource → st.tab.length ≥ maxTable →
      victimOf st.tab tie ≠ some k) :
    aget (acceptT st k' h pl now tie).1.tab k = aget st.tab k := by
  unfold acceptT admitEntry
  split
  · rfl
  · rename_i s2 e ha
    rw [place_other s2 k' k e h.idx pl hne]
    split at ha
    · split at ha
      · simp at ha
      · simp only [Option.some.injEq, Prod.mk.injEq] at ha; rw [← ha.1]
    · rename_i hk'
      split at ha
      · simp at ha
      · rename_i hper
        simp only [Option.some.injEq, Prod.mk.injEq] at ha
        rw [← ha.1]
        simp only
        rw [aget_aput_ne _ _ _ _ hne]
        split
        · rename_i hlen
          have hv := hev hk' (by omega) hlen
          unfold evictOldest
          split
          · rfl
          · rename_i w hw
            have : k ≠ w := by intro e; subst e; exact hv hw
            exact drop_tab_ne _ _ _ this
        · rfl

theorem accept_present (st : St) (k : Key) (h : Hdr) (pl : Bytes) (now : Nat) (tie : Key) (e : Ent)
    (he : aget st.tab k = some e) (ht : e.total = h.total) :
    acceptT st k h pl now tie = place st k e h.idx pl := by
  unfold acceptT admitEntry
  simp [he, ht]


/-- the key that capacity eviction (evictOldestLocked) removes while `ev` is processed, if any -/
def evictsKey (st : St) : Ev → Option Key
  | .dgram src d _ tie _ =>
    match decodeT (d.take bufferSize) with
    | .val (h, _) =>
      if aget st.tab ⟨src, h.mid⟩ = none ∧ perGet st.per src < maxPerSource ∧ st.tab.length ≥ maxTable
      then victimOf st.tab tie else none
    | _ => none
  | .gc _ => none

/-- along the run, the global cap never evicts `k` -/
def NotEvicted (k : Key) : St → List Ev → Prop
  | _, [] => True
  | st, ev :: r => evictsKey st ev ≠ some k ∧ NotEvicted k (stepT st ev).1 r

/-- `M` is pending with deadline `D` -/
def Pend (M : Msg) (D : Nat) (st : St) : Prop :=
  ∃ e, aget st.tab M.k = some e ∧ e.deadline = D ∧ e.total = M.cs.length

def Filled (M : Msg) (st : St) (i : Nat) : Prop :=
  ∃ e c, aget st.tab M.k = some e ∧ e.chunks[i]? = some (some c)

theorem live_step (M : Msg) (D : Nat) (st : St) (ev : Ev) (hI : Inv st) (hW : WF (PM M) st) (hP : Pend M D st)
    (hnf : NoForeign M ev) (hgc : ∀ now, ev = .gc now → now ≤ D) (hne : evictsKey st ev ≠ some M.k) :
    (∃ data, (stepT st ev).2 = .msg M.k data) ∨
    (Pend M D (stepT st ev).1 ∧ ∀ i, (Filled M st i ∨ IsChunk M i ev) → Filled M (stepT st ev).1 i) := by
  obtain ⟨e, he, heD, heT⟩ := hP
  cases ev with
  | gc now =>
    right
    have hle := hgc now rfl
    have hk : aget (stepT st (.gc now)).1.tab M.k = some e := by
      simp only [stepT]
      rw [gc_tab st now M.k hI.nodupT, he]
      simp only
      rw [if_neg (by omega)]
    refine ⟨⟨e, hk, heD, heT⟩, ?_⟩
    intro i hi
    rcases hi with ⟨e2, c, h1, h2⟩ | hi
    · rw [he] at h1; simp only [Option.some.injEq] at h1; subst h1
      exact ⟨e, c, hk, h2⟩
    · exact absurd hi (by simp [IsChunk])
  | dgram src d now tie pcap =>
    simp only [stepT]
    by_cases hdec : ∃ h pl, decodeT (d.take bufferSize) = .val (h, pl)
    · obtain ⟨h, pl, hd⟩ := hdec
      rw [rxT_val st src d now tie pcap h pl hd]
      by_cases hk : (⟨src, h.mid⟩ : Key) = M.k
      · -- a chunk of M
        have hs : src = M.k.src := by rw [← hk]
        have hm : h.mid = M.k.mid := by rw [← hk]
        obtain ⟨hT, hC⟩ := hnf h pl hs hd hm
        obtain ⟨_, _, hidx, _, _⟩ := decodeT_valid _ h pl hd
        rw [hk, accept_present st M.k h pl now tie e he (by omega)]
        have hlen := (hW M.k e he).len
        -- every IsChunk event here is chunk h.idx
        have hchunk : ∀ i, IsChunk M i (.dgram src d now tie pcap) → i = h.idx := by
          intro i hi
          obtain ⟨_, h', pl', hd', _, _, h3, _⟩ := hi
          rw [hd] at hd'; simp only [Dec.val.injEq, Prod.mk.injEq] at hd'
          rw [← h3, ← hd'.1]
        unfold place
        have hlt : h.idx < e.chunks.length := by omega
        cases hslot : e.chunks[h.idx]? with
        | none => rw [List.getElem?_eq_none_iff] at hslot; omega
        | some slot =>
          cases slot with
          | some c =>
            right
            simp only
            refine ⟨⟨e, he, heD, heT⟩, ?_⟩
            intro i hi
            rcases hi with hi | hi
            · exact hi
            · rw [hchunk i hi]; exact ⟨e, c, he, hslot⟩
          | none =>
            dsimp only
            by_cases hrc : e.received + 1 < e.total
            · rw [if_pos hrc]
              right
              refine ⟨⟨_, aget_aput_self _ _ _, heD, heT⟩, ?_⟩
              intro i hi
              refine ⟨_, if i = h.idx then pl else ((e.chunks[i]?).getD none).getD [], aget_aput_self _ _ _, ?_⟩
              simp only [List.getElem?_set]
              by_cases hii : h.idx = i
              · subst hii; simp [hlt]
              · have hii' : ¬ i = h.idx := fun e => hii e.symm
                simp only [hii, hii', ↓reduceIte]
                rcases hi with ⟨e2, c, h1, h2⟩ | hi
                · rw [he] at h1; simp only [Option.some.injEq] at h1; subst h1
                  simp [h2]
                · exact absurd (hchunk i hi) hii'
            · rw [if_neg hrc]
              left
              exact ⟨_, rfl⟩
      · -- a chunk under another key
        right
        have hother : aget (acceptT st ⟨src, h.mid⟩ h pl now tie).1.tab M.k = aget st.tab M.k := by
          apply accept_other st ⟨src, h.mid⟩ M.k h pl now tie (fun e => hk e.symm)
          intro h1 h2 h3
          simp only [evictsKey, hd] at hne
          rw [if_pos ⟨h1, h2, h3⟩] at hne
          exact hne
        refine ⟨⟨e, by rw [hother]; exact he, heD, heT⟩, ?_⟩
        intro i hi
        rcases hi with ⟨e2, c, h1, h2⟩ | hi
        · exact ⟨e2, c, by rw [hother]; exact h1, h2⟩
        · obtain ⟨hs, h', pl', hd', hm, _⟩ := hi
          rw [hd] at hd'; simp only [Dec.val.injEq, Prod.mk.injEq] at hd'
          exfalso; apply hk
          rw [← hd'.1] at hm
          cases hMk : M.k with
          | mk s m => rw [hMk] at hs hm; simp only at hs hm; rw [hs, hm]
    · have hd : ∀ h pl, decodeT (d.take bufferSize) ≠ .val (h, pl) := fun h pl e => hdec ⟨h, pl, e⟩
      obtain ⟨h1, _⟩ := rxT_noval st src d now tie pcap hd
      right
      rw [h1]
      refine ⟨⟨e, he, heD, heT⟩, ?_⟩
      intro i hi
      rcases hi with hi | hi
      · exact hi
      · obtain ⟨_, h', pl', hd', _⟩ := hi
        exact absurd hd' (hd h' pl')


theorem count_all_some (l : List (Option Bytes)) (h : ∀ i, i < l.length → ∃ c, l[i]? = some (some c)) :
    l.countP Option.isSome = l.length := by
  rw [List.countP_eq_length]
  intro a ha
  obtain ⟨i, hi⟩ := List.getElem?_of_mem ha
  have hlt : i < l.length := by
    rcases Nat.lt_or_ge i l.length with h' | h'
    · exact h'
    · rw [List.getElem?_eq_none h'] at hi; simp at hi
  obtain ⟨c, hc⟩ := h i hlt
  rw [hi] at hc; simp only [Option.some.injEq] at hc; subst hc; rfl

theorem live (M : Msg) (D : Nat) : ∀ (post : List Ev) (st : St), Inv st → WF (PM M) st → Pend M D st →
    (∀ ev ∈ post, NoForeign M ev) → (∀ now, Ev.gc now ∈ post → now ≤ D) → NotEvicted M.k st post →
    (∀ i, i < M.cs.length → Filled M st i ∨ ∃ ev ∈ post, IsChunk M i ev) →
    ∃ data, Out.msg M.k data ∈ (runT st post).2 := by
  intro post
  induction post with
  | nil =>
    intro st _ hW hP _ _ _ hcov
    obtain ⟨e, he, _, heT⟩ := hP
    obtain ⟨hlen, hrecv, hopn, _⟩ := hW M.k e he
    exfalso
    have : e.chunks.countP Option.isSome = e.chunks.length := by
      apply count_all_some
      intro i hi
      rcases hcov i (by omega) with ⟨e2, c, h1, h2⟩ | ⟨ev, hev, _⟩
      · rw [he] at h1; simp only [Option.some.injEq] at h1; subst h1; exact ⟨c, h2⟩
      · simp at hev
    omega
  | cons ev rest ih =>
    intro st hI hW hP hnf hgc hne hcov
    simp only [runT]
    rcases live_step M D st ev hI hW hP (hnf ev (by simp)) (fun now e => hgc now (by simp [e])) hne.1 with
      ⟨data, hd⟩ | ⟨hP', hF'⟩
    · exact ⟨data, by rw [hd]; simp⟩
    · obtain ⟨data, hd⟩ := ih (stepT st ev).1 (inv_step st ev hI)
        (wf_step (PM M) st ev hI hW (evP_of_noForeign M ev (hnf ev (by simp)))).1 hP'
        (fun e he => hnf e (List.mem_cons_of_mem _ he)) (fun now h => hgc now (List.mem_cons_of_mem _ h)) hne.2
        (by
          intro i hi
          rcases hcov i hi with hf | ⟨ev', hev', hc⟩
          · exact Or.inl (hF' i (Or.inl hf))
          · rcases List.mem_cons.mp hev' with e | e
            · subst e; exact Or.inl (hF' i (Or.inr hc))
            · exact Or.inr ⟨ev', e, hc⟩)
      exact ⟨data, List.mem_cons_of_mem _ hd⟩

/-- the first chunk of `M` to arrive opens the entry (nothing pending under the key, source below its cap) -/
theorem first_chunk (M : Msg) (st : St) (src : Nat) (d : Bytes) (now : Nat) (tie : Key) (pcap i0 : Nat)
    (ha : aget st.tab M.k = none) (hcap : perGet st.per M.k.src < maxPerSource)
    (hc : IsChunk M i0 (.dgram src d now tie pcap)) :
    Pend M (now + ttl) (stepT st (.dgram src d now tie pcap)).1 ∧
    Filled M (stepT st (.dgram src d now tie pcap)).1 i0 := by
  obtain ⟨hs, h, pl, hd, hm, hT, hi, hC⟩ := hc
  obtain ⟨t2, _, hidx, _, _⟩ := decodeT_valid _ h pl hd
  have hk : (⟨src, h.mid⟩ : Key) = M.k := by
    cases hMk : M.k with
    | mk s m => rw [hMk] at hs hm; simp only at hs hm; rw [hs, hm]
  simp only [stepT]
  rw [rxT_val st src d now tie pcap h pl hd, hk]
  unfold acceptT admitEntry
  simp only [ha]
  rw [if_neg (by omega)]
  dsimp only
  unfold place
  have hslot : (List.replicate h.total (none : Option Bytes))[h.idx]? = some none := by
    simp [List.getElem?_replicate, hidx]
  simp only [hslot]
  rw [if_pos (by simp; omega)]
  dsimp only
  refine ⟨⟨_, aget_aput_self _ _ _, rfl, hT⟩, ⟨_, pl, aget_aput_self _ _ _, ?_⟩⟩
  simp only [List.getElem?_set, List.length_replicate]
  rw [← hi]; simp [hidx]


theorem drop_len_le (st : St) (k : Key) : (dropEntry st k).tab.length ≤ st.tab.length := by
  unfold dropEntry; split
  · exact Nat.le_refl _
  · exact length_adel_le _ _

theorem foldl_drop_len_le (ks : List Key) (st : St) : (ks.foldl dropEntry st).tab.length ≤ st.tab.length := by
  induction ks generalizing st with
  | nil => exact Nat.le_refl _
  | cons k r ih => exact Nat.le_trans (ih _) (drop_len_le st k)

theorem length_aput_le {κ α} [DecidableEq κ] (l : List (κ × α)) (k : κ) (v : α) : (aput l k v).length ≤ l.length + 1 := by
  simp only [aput, List.length_cons]; have := length_adel_le l k; omega

theorem place_len_le (s2 : St) (k : Key) (e : Ent) (idx : Nat) (pl : Bytes) (hk : (aget s2.tab k).isSome) :
    (place s2 k e idx pl).1.tab.length ≤ s2.tab.length := by
  unfold place
  split
  · dsimp only
    split
    · simp only [length_aput_present _ _ _ hk]; exact Nat.le_refl _
    · refine Nat.le_trans (drop_len_le _ _) ?_
      simp only [length_aput_present _ _ _ hk]; exact Nat.le_refl _
  · exact Nat.le_refl _

theorem evict_len_le (st : St) (tie : Key) : (evictOldest st tie).tab.length ≤ st.tab.length := by
  unfold evictOldest; split
  · exact Nat.le_refl _
  · exact drop_len_le _ _

theorem accept_len_le (st : St) (k : Key) (h : Hdr) (pl : Bytes) (now : Nat) (tie : Key) (hI : Inv st) :
    (acceptT st k h pl now tie).1.tab.length ≤ st.tab.length + 1 := by
  unfold acceptT
  split
  · exact Nat.le_succ _
  · rename_i s2 e ha
    obtain ⟨_, hk⟩ := inv_admit st k h.total now tie hI s2 e ha
    refine Nat.le_trans (place_len_le s2 k e h.idx pl (by simp [hk])) ?_
    unfold admitEntry at ha
    split at ha
    · split at ha
      · simp at ha
      · simp only [Option.some.injEq, Prod.mk.injEq] at ha; rw [← ha.1]; omega
    · split at ha
      · simp at ha
      · simp only [Option.some.injEq, Prod.mk.injEq] at ha; rw [← ha.1]
        simp only
        refine Nat.le_trans (length_aput_le _ _ _) ?_
        split
        · have := evict_len_le st tie; omega
        · omega

/-- one event adds at most one pending message -/
theorem step_len_le (st : St) (ev : Ev) (hI : Inv st) : (stepT st ev).1.tab.length ≤ st.tab.length + 1 := by
  cases ev with
  | gc now =>
    simp only [stepT, gcExpired]
    exact Nat.le_trans (foldl_drop_len_le _ st) (Nat.le_succ _)
  | dgram src d now tie pcap =>
    simp only [stepT]
    by_cases hdec : ∃ h pl, decodeT (d.take bufferSize) = .val (h, pl)
    · obtain ⟨h, pl, hd⟩ := hdec
      rw [rxT_val st src d now tie pcap h pl hd]
      exact accept_len_le st _ h pl now tie hI
    · rw [(rxT_noval st src d now tie pcap (fun h pl e => hdec ⟨h, pl, e⟩)).1]; omega

theorem evictsKey_none_of_room (st : St) (ev : Ev) (h : st.tab.length < maxTable) : evictsKey st ev = none := by
  cases ev with
  | gc now => rfl
  | dgram src d now tie pcap =>
    simp only [evictsKey]
    split
    · rw [if_neg (by omega)]
    · rfl

/-- with room for everything that arrives, the global cap never evicts anything -/
theorem notEvicted_of_room (k : Key) : ∀ (post : List Ev) (st : St), Inv st →
    st.tab.length + post.length ≤ maxTable → NotEvicted k st post := by
  intro post
  induction post with
  | nil => intro st _ _; trivial
  | cons ev rest ih =>
    intro st hI hlen
    simp only [List.length_cons] at hlen
    refine ⟨by rw [evictsKey_none_of_room st ev (by omega)]; simp, ?_⟩
    exact ih _ (inv_step st ev hI) (by have := step_len_le st ev hI; omega)


/-! ### TTL -/

theorem gc_removes (st : St) (now : Nat) (k : Key) (e : Ent) (hn : (akeys st.tab).Nodup)
    (he : aget st.tab k = some e) (hd : e.deadline < now) : aget (gcExpired st now).tab k = none := by
  rw [gc_tab st now k hn, he]; simp [hd]

theorem gc_keeps (st : St) (now : Nat) (k : Key) (e : Ent) (hn : (akeys st.tab).Nodup)
    (he : aget st.tab k = some e) (hd : now ≤ e.deadline) : aget (gcExpired st now).tab k = some e := by
  rw [gc_tab st now k hn, he]; simp only; rw [if_neg (by omega)]

theorem gc_complete (st : St) (now : Nat) (k : Key) (e : Ent) (hn : (akeys st.tab).Nodup)
    (he : aget (gcExpired st now).tab k = some e) : now ≤ e.deadline ∧ aget st.tab k = some e := by
  rw [gc_tab st now k hn] at he
  split at he
  · rename_i e0 he0
    split at he
    · simp at he
    · simp only [Option.some.injEq] at he; subst he; exact ⟨by omega, he0⟩
  · simp at he

/-- what `place` leaves under the key it works on -/
theorem place_same (s2 : St) (k : Key) (e : Ent) (idx : Nat) (pl : Bytes) (hk : aget s2.tab k = some e) (e' : Ent)
    (h : aget (place s2 k e idx pl).1.tab k = some e') (hn : (akeys s2.tab).Nodup) :
    e'.deadline = e.deadline ∧ e'.total = e.total := by
  unfold place at h
  split at h
  · dsimp only at h
    split at h
    · simp only [aget_aput_self, Option.some.injEq] at h; subst h; exact ⟨rfl, rfl⟩
    · rw [drop_tab_self _ _ (akeys_aput_nodup _ _ _ hn)] at h; simp at h
  · rw [hk] at h; simp only [Option.some.injEq] at h; subst h; exact ⟨rfl, rfl⟩

/-- other keys: a chunk leaves them alone or (capacity eviction) removes them -/
theorem accept_other_weak (st : St) (k' k : Key) (h : Hdr) (pl : Bytes) (now : Nat) (tie : Key) (hne : k ≠ k')
    (hn : (akeys st.tab).Nodup) :
    aget (acceptT st k' h pl now tie).1.tab k = aget st.tab k ∨ aget (acceptT st k' h pl now tie).1.tab k = none := by
  by_cases hv : victimOf st.tab tie = some k
  · unfold acceptT admitEntry
    split
    · exact Or.inl rfl
    · rename_i s2 e ha
      rw [place_other s2 k' k e h.idx pl hne]
      split at ha
      · split at ha
        · simp at ha
        · simp only [Option.some.injEq, Prod.mk.injEq] at ha; rw [← ha.1]; exact Or.inl rfl
      · split at ha
        · simp at ha
        · simp only [Option.some.injEq, Prod.mk.injEq] at ha
          rw [← ha.1]
          simp only
          rw [aget_aput_ne _ _ _ _ hne]
          split
          · unfold evictOldest
            split
            · exact Or.inl rfl
            · rename_i w hw
              by_cases hwk : k = w
              · subst hwk
                cases hk : aget st.tab k with
                | none => left; unfold dropEntry; simp [hk]
                | some ek =>
                  right
                  unfold dropEntry; simp only [hk]
                  exact aget_adel_self _ _ hn
              · exact Or.inl (drop_tab_ne _ _ _ hwk)
          · exact Or.inl rfl
  · exact Or.inl (accept_other st k' k h pl now tie hne (fun _ _ _ => hv))


/-- no event extends the deadline (or changes the chunk count) of a pending message -/
theorem deadline_fixed (st : St) (ev : Ev) (k : Key) (e e' : Ent) (hI : Inv st)
    (he : aget st.tab k = some e) (he' : aget (stepT st ev).1.tab k = some e') :
    e'.deadline = e.deadline ∧ e'.total = e.total := by
  cases ev with
  | gc now =>
    simp only [stepT] at he'
    have := (gc_complete st now k e' hI.nodupT he').2
    rw [he] at this; simp only [Option.some.injEq] at this; subst this; exact ⟨rfl, rfl⟩
  | dgram src d now tie pcap =>
    simp only [stepT] at he'
    by_cases hdec : ∃ h pl, decodeT (d.take bufferSize) = .val (h, pl)
    · obtain ⟨h, pl, hd⟩ := hdec
      rw [rxT_val st src d now tie pcap h pl hd] at he'
      simp only at he'
      by_cases hk : k = ⟨src, h.mid⟩
      · subst hk
        by_cases ht : e.total = h.total
        · rw [accept_present st _ h pl now tie e he ht] at he'
          exact place_same st _ e h.idx pl he e' he' hI.nodupT
        · have : acceptT st ⟨src, h.mid⟩ h pl now tie = (st, none) := by
            unfold acceptT admitEntry; simp [he, ht]
          rw [this, he] at he'; simp only [Option.some.injEq] at he'; subst he'; exact ⟨rfl, rfl⟩
      · rcases accept_other_weak st ⟨src, h.mid⟩ k h pl now tie hk hI.nodupT with h1 | h1
        · rw [h1, he] at he'; simp only [Option.some.injEq] at he'; subst he'; exact ⟨rfl, rfl⟩
        · rw [h1] at he'; simp at he'
    · rw [(rxT_noval st src d now tie pcap (fun h pl e => hdec ⟨h, pl, e⟩)).1, he] at he'
      simp only [Option.some.injEq] at he'; subst he'; exact ⟨rfl, rfl⟩

/-- a message that becomes pending gets deadline = arrival time + TTL -/
theorem deadline_set (st : St) (src : Nat) (d : Bytes) (now : Nat) (tie : Key) (pcap : Nat) (k : Key) (e' : Ent)
    (hI : Inv st) (he : aget st.tab k = none) (he' : aget (stepT st (.dgram src d now tie pcap)).1.tab k = some e') :
    e'.deadline = now + ttl := by
  simp only [stepT] at he'
  by_cases hdec : ∃ h pl, decodeT (d.take bufferSize) = .val (h, pl)
  · obtain ⟨h, pl, hd⟩ := hdec
    rw [rxT_val st src d now tie pcap h pl hd] at he'
    simp only at he'
    by_cases hk : k = ⟨src, h.mid⟩
    · subst hk
      unfold acceptT admitEntry at he'
      simp only [he] at he'
      split at he'
      · rw [he] at he'; simp at he'
      · rename_i s2 e ha
        split at ha
        · simp at ha
        · simp only [Option.some.injEq, Prod.mk.injEq] at ha
          have hs2 : aget s2.tab ⟨src, h.mid⟩ = some e := by rw [← ha.1, ← ha.2]; simp
          have hn2 : (akeys s2.tab).Nodup := by
            rw [← ha.1]; simp only
            apply akeys_aput_nodup
            split
            · exact (inv_evict st tie hI).nodupT
            · exact hI.nodupT
          have := (place_same s2 _ e h.idx pl hs2 e' he' hn2).1
          rw [this, ← ha.2]
    · rcases accept_other_weak st ⟨src, h.mid⟩ k h pl now tie hk hI.nodupT with h1 | h1
      · rw [h1, he] at he'; simp at he'
      · rw [h1] at he'; simp at he'
  · rw [(rxT_noval st src d now tie pcap (fun h pl e => hdec ⟨h, pl, e⟩)).1, he] at he'
    simp at he'

/-! ### the ticker: gcLoop sweeps every TTL/2 -/

theorem tickPeriod_pos : 0 < tickPeriod := by decide

theorem advanceN_sweeps : ∀ (fuel : Nat) (rx : Rx) (to : Nat), Inv rx.st →
    (∀ k e, aget rx.st.tab k = some e → rx.nextTick ≤ e.deadline + tickPeriod) →
    ∀ k e, aget (advanceN fuel rx to).st.tab k = some e → (advanceN fuel rx to).nextTick ≤ e.deadline + tickPeriod := by
  intro fuel
  induction fuel with
  | zero => intro rx to _ h; exact h
  | succ n ih =>
    intro rx to hI h
    simp only [advanceN]
    split
    · apply ih _ to (inv_gc _ _ hI)
      intro k e he
      have := (gc_complete rx.st rx.nextTick k e hI.nodupT he).1
      simp only; omega
    · exact h

theorem advanceN_reaches : ∀ (fuel : Nat) (rx : Rx) (to : Nat), to < rx.nextTick + fuel * tickPeriod →
    to < (advanceN fuel rx to).nextTick := by
  intro fuel
  induction fuel with
  | zero => intro rx to h; simpa [advanceN] using h
  | succ n ih =>
    intro rx to h
    simp only [advanceN]
    split
    · apply ih; simp only; rw [Nat.add_mul] at h; omega
    · omega


end Hy.Gecko
