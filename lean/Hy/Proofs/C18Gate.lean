/- C18 helper lemmas: the credential gates of the SOCKS5 and HTTP inbounds. -/
import Hy.Proofs.C18Stream
import Hy.Model.Socks5
set_option linter.unusedSimpArgs false
set_option linter.unusedVariables false

namespace Hy.Socks5
open Hy Hy.Conn

/-- an upstream-opening effect -/
def isHy : Eff → Bool
  | .hyTCP _ => true
  | .hyUDP => true
  | _ => false

/-- the RFC 1929 framing  ULEN UNAME PLEN PASSWD  of (u, p) occurs in the client's bytes -/
def CredsIn (cs : Stream) (u p : Bytes) : Prop :=
  ∃ (pre post : Bytes) (ul pl : Byte),
    cs.flatten = pre ++ (ul :: u) ++ (pl :: p) ++ post ∧
    ul.val = u.length ∧ pl.val = p.length ∧ 0 < u.length ∧ 0 < p.length

theorem take_append_getElem {α} (l : List α) (k : Nat) (x : α)
    (hl : l.length = k + 1) (hx : l[k]? = some x) : l = l.take k ++ [x] := by
  have h1 : l = l.take k ++ l.drop k := (List.take_append_drop k l).symm
  have h2 : l.drop k = [x] := by
    have hlen : (l.drop k).length = 1 := by simp [List.length_drop, hl]
    match hd : l.drop k with
    | [] => rw [hd] at hlen; simp at hlen
    | [y] =>
      have : (l.drop k)[0]? = l[k]? := by simp [List.getElem?_drop]
      rw [hd, hx] at this
      simp at this
      rw [this]
    | _ :: _ :: _ => rw [hd] at hlen; simp at hlen
  rw [h2] at h1
  exact h1

theorem readMethods_spec (s : Stream) (ms : Bytes) (s1 : Stream)
    (h : readMethods s = some (ms, s1)) : ∃ pre, s.flatten = pre ++ s1.flatten := by
  unfold readMethods at h
  split at h
  · rename_i v n s0 h2
    split at h
    · simp at h
    · split at h
      · simp at h
      · have a := takeC_flatten _ _ _ _ h2
        have b := takeC_flatten _ _ _ _ h
        exact ⟨[v, n] ++ ms, by rw [a.1, b.1]; simp⟩
  · simp at h

theorem readUserPass_spec (s : Stream) (u p : Bytes) (s3 : Stream)
    (h : readUserPass s = some (u, p, s3)) :
    ∃ (v ul pl : Byte), s.flatten = [v, ul] ++ u ++ [pl] ++ p ++ s3.flatten ∧
      ul.val = u.length ∧ pl.val = p.length ∧ 0 < u.length ∧ 0 < p.length := by
  unfold readUserPass at h
  split at h
  · rename_i v ul s1 h2
    split at h
    · simp at h
    · split at h
      · simp at h
      · rename_i hul
        split at h
        · simp at h
        · rename_i ub s2 h3
          split at h
          · simp at h
          · rename_i pl hpl
            split at h
            · simp at h
            · rename_i hplz
              split at h
              · simp at h
              · rename_i p' s3' h4
                simp at h
                obtain ⟨rfl, rfl, rfl⟩ := h
                have a := takeC_flatten _ _ _ _ h2
                have b := takeC_flatten _ _ _ _ h3
                have c := takeC_flatten _ _ _ _ h4
                have hub := take_append_getElem ub ul.val pl b.2 hpl
                refine ⟨v, ul, pl, ?_, ?_, c.2.symm, ?_, ?_⟩
                · rw [a.1, b.1, c.1]
                  conv => lhs; rw [hub]
                  simp
                · simp [List.length_take, b.2]
                · simp [List.length_take, b.2]; omega
                · rw [c.2]; omega
  · simp at h

/-- a successful negotiation with AuthFunc set went through an accepted AuthFunc call
    on credentials framed in this client's stream, and opened nothing upstream -/
theorem negotiate_ok (c : Cfg) (ha : c.authSet = true) (s s' : Stream) (effs : List Eff)
    (h : negotiate c s = (true, effs, s')) :
    ∃ u p w1 w2, effs = [.write w1, .authCall u p true, .write w2] ∧ c.auth u p = true ∧ CredsIn s u p := by
  unfold negotiate at h
  split at h
  · simp at h
  · rename_i ms s1 hm
    simp only [ha, ↓reduceIte] at h
    split at h
    · simp at h
    · split at h
      · simp at h
      · rename_i u p s2 hup
        split at h
        · rename_i hauth
          simp at h
          obtain ⟨rfl, rfl⟩ := h
          obtain ⟨pre, hpre⟩ := readMethods_spec _ _ _ hm
          obtain ⟨v, ul, pl, hfl, h1, h2, h3, h4⟩ := readUserPass_spec _ _ _ _ hup
          refine ⟨u, p, _, _, rfl, hauth, pre ++ [v], s2.flatten, ul, pl, ?_, h1, h2, h3, h4⟩
          rw [hpre, hfl]; simp
        · simp at h

theorem negotiate_noHy (c : Cfg) (s : Stream) : ∀ e ∈ (negotiate c s).2.1, isHy e = false := by
  unfold negotiate
  split
  · simp
  · by_cases ha : c.authSet = true
    · simp only [ha, ↓reduceIte]
      split
      · simp [isHy]
      · split
        · simp [isHy]
        · split <;> simp [isHy]
    · simp only [ha, Bool.false_eq_true, ↓reduceIte]
      split <;> simp [isHy]

/-- negotiation only writes replies and calls AuthFunc -/
theorem negotiate_effs (c : Cfg) (s : Stream) :
    ∀ e ∈ (negotiate c s).2.1, (∃ w, e = .write w) ∨ (∃ u p r, e = .authCall u p r) := by
  unfold negotiate
  split
  · simp
  · by_cases ha : c.authSet = true
    · simp only [ha, ↓reduceIte]
      split
      · simp
      · split
        · simp
        · split <;> simp
    · simp only [ha, Bool.false_eq_true, ↓reduceIte]
      split <;> simp

/-- the stream a successful negotiation leaves is a suffix of the client's stream -/
theorem negotiate_suffix (c : Cfg) (s s' : Stream) (effs : List Eff)
    (h : negotiate c s = (true, effs, s')) : ∃ pre, s.flatten = pre ++ s'.flatten := by
  unfold negotiate at h
  split at h
  · simp at h
  · rename_i ms s1 hm
    obtain ⟨pre, hpre⟩ := readMethods_spec _ _ _ hm
    by_cases ha : c.authSet = true
    · simp only [ha, ↓reduceIte] at h
      split at h
      · simp at h
      · split at h
        · simp at h
        · rename_i u p s2 hup
          obtain ⟨v, ul, pl, hfl, _⟩ := readUserPass_spec _ _ _ _ hup
          split at h
          · simp at h
            obtain ⟨_, rfl⟩ := h
            exact ⟨pre ++ ([v, ul] ++ u ++ [pl] ++ p), by rw [hpre, hfl]; simp⟩
          · simp at h
    · simp only [ha, Bool.false_eq_true, ↓reduceIte] at h
      split at h
      · simp at h
      · simp at h
        obtain ⟨_, rfl⟩ := h
        exact ⟨pre, hpre⟩

/-- NewRequestFrom consumes a prefix of the stream and leaves the rest untouched -/
theorem readRequest_suffix (s rest : Stream) (r : Req) (h : readRequest s = some (r, rest)) :
    ∃ pre, s.flatten = pre ++ rest.flatten := by
  unfold readRequest at h
  split at h
  · rename_i v cmd rsv atyp s1 h4
    have a := takeC_flatten _ _ _ _ h4
    split at h
    · simp at h
    · simp only at h
      split at h
      · simp at h
      · rename_i addr s4 haddr
        have hmid : ∃ pre', s1.flatten = pre' ++ s4.flatten := by
          split at haddr
          · have b := takeC_flatten _ _ _ _ haddr; exact ⟨addr, b.1⟩
          · split at haddr
            · have b := takeC_flatten _ _ _ _ haddr; exact ⟨addr, b.1⟩
            · split at haddr
              · split at haddr
                · rename_i dl s2 h1
                  split at haddr
                  · simp at haddr
                  · split at haddr
                    · rename_i a' s3 h2
                      simp at haddr
                      obtain ⟨rfl, rfl⟩ := haddr
                      have b := takeC_flatten _ _ _ _ h1
                      have d := takeC_flatten _ _ _ _ h2
                      exact ⟨[dl] ++ a', by rw [b.1, d.1]; simp⟩
                    · simp at haddr
                · simp at haddr
              · simp at haddr
        obtain ⟨pre', hp'⟩ := hmid
        split at h
        · rename_i port s5 hport
          simp at h
          obtain ⟨_, rfl⟩ := h
          have e := takeC_flatten _ _ _ _ hport
          exact ⟨[v, cmd, rsv, atyp] ++ pre' ++ port, by rw [a.1, hp', e.1]; simp⟩
        · simp at h
  · simp at h

/-- list surgery: if `a ++ b = pre ++ e :: post` and `e` does not occur in `a`, then `a` is a prefix of `pre` -/
theorem prefix_of_not_mem {α} (a b pre post : List α) (e : α)
    (h : a ++ b = pre ++ e :: post) (hne : e ∉ a) : ∃ pre', pre = a ++ pre' ∧ b = pre' ++ e :: post := by
  rcases List.append_eq_append_iff.mp h with ⟨a', h1, h2⟩ | ⟨c', h1, h2⟩
  · -- pre = a ++ a'
    exact ⟨a', h1, h2⟩
  · -- a = pre ++ c', e :: post = c' ++ b
    cases c' with
    | nil => simp at h1 h2; exact ⟨[], by simp [h1], h2.symm⟩
    | cons x xs =>
      simp at h2
      obtain ⟨rfl, _⟩ := h2
      exact absurd (by rw [h1]; simp) hne

end Hy.Socks5

namespace Hy.HttpIn
open Hy Hy.Conn

def isHy : Eff → Bool
  | .hyTCP _ => true
  | _ => false

theorem checkAuth_spec (auth : Bytes → Bytes → Bool) (pa : Bytes) :
    ((checkAuth auth pa).2 = true →
      ∃ u p, credsOf pa = some (u, p) ∧ auth u p = true ∧ (checkAuth auth pa).1 = [.authCall u p true]) ∧
    (∀ e ∈ (checkAuth auth pa).1, isHy e = false) := by
  unfold checkAuth
  split
  · simp
  · rename_i u p h
    constructor
    · intro h2
      simp at h2
      exact ⟨u, p, h, h2, by simp [h2]⟩
    · simp [isHy]

/-- in one loop iteration with AuthFunc set, a dial is IMMEDIATELY preceded by the
    accepted AuthFunc call on the credentials of this request's Proxy-Authorization -/
theorem iter_gate (c : Cfg) (ha : c.authSet = true) (r : Req) (pre post : List Eff) (a : Bytes)
    (h : (iter c r).1 = pre ++ .hyTCP a :: post) :
    ∃ u p, pre = [.authCall u p true] ∧ c.auth u p = true ∧ credsOf r.pauth = some (u, p) := by
  unfold iter at h
  simp only [ha, ↓reduceIte] at h
  have hs := checkAuth_spec c.auth r.pauth
  by_cases hok : (checkAuth c.auth r.pauth).2 = true
  · obtain ⟨u, p, hc, hau, heff⟩ := hs.1 hok
    simp only [hok, heff, not_true_eq_false, ↓reduceIte] at h
    refine ⟨u, p, ?_, hau, hc⟩
    by_cases hcon : r.isConnect = true
    · simp only [hcon, ↓reduceIte, handleConnect] at h
      -- [authCall, hyTCP, ...] = pre ++ hyTCP a :: post
      cases pre with
      | nil => simp at h
      | cons x xs =>
        simp at h
        obtain ⟨rfl, h⟩ := h
        cases xs with
        | nil => rfl
        | cons y ys =>
          simp at h
          obtain ⟨rfl, h⟩ := h
          exfalso
          split at h
          · have : Eff.hyTCP a ∈ [Eff.status 200, Eff.upstream (if r.buffered.length > 0 then relayAll { buf := r.buffered, conn := r.connRest } else relayAll { buf := [], conn := r.connRest }), Eff.close] := by
              rw [h]; simp
            simp at this
          · have : Eff.hyTCP a ∈ [Eff.status 502, Eff.close] := by rw [h]; simp
            simp at this
    · simp only [hcon, Bool.false_eq_true, ↓reduceIte, handleRequest] at h
      have key : ∀ (l : List Eff), (l = [] ∨ (∃ d, l = [.hyTCP d, .status 200] ∨ l = [.hyTCP d, .status 502]) ∨ l = [.status 400] ∨ l = [.status 502]) →
          ∀ tail, (∀ e ∈ tail, isHy e = false) → Eff.authCall u p true :: (l ++ tail) = pre ++ .hyTCP a :: post → pre = [.authCall u p true] := by
        intro l hl tail htail heq
        cases pre with
        | nil => simp at heq
        | cons x xs =>
          simp at heq
          obtain ⟨rfl, heq⟩ := heq
          cases xs with
          | nil => rfl
          | cons y ys =>
            exfalso
            have hmem : Eff.hyTCP a ∈ l ++ tail := by rw [heq]; simp
            rcases hl with rfl | ⟨d, rfl | rfl⟩ | rfl | rfl
            · simp at hmem; have := htail _ hmem; simp [isHy] at this
            all_goals
              simp at heq
              first
              | (obtain ⟨rfl, heq⟩ := heq
                 have hmem2 : Eff.hyTCP a ∈ ys ++ Eff.hyTCP a :: post := by simp
                 cases ys with
                 | nil => simp at heq
                 | cons z zs =>
                   simp at heq
                   obtain ⟨rfl, heq⟩ := heq
                   have hm : Eff.hyTCP a ∈ tail := by rw [heq]; simp
                   have := htail _ hm; simp [isHy] at this)
              | (obtain ⟨rfl, heq⟩ := heq
                 have hm : Eff.hyTCP a ∈ tail := by rw [heq]; simp
                 have := htail _ hm; simp [isHy] at this)
      split at h
      · split at h
        · exact key [.status 400] (by simp) [] (by simp) (by simpa using h)
        · exact key [.status 400] (by simp) [.close] (by simp [isHy]) (by simpa using h)
      · split at h
        · split at h
          · exact key [.status 502] (by simp) [] (by simp) (by simpa using h)
          · exact key [.status 502] (by simp) [.close] (by simp [isHy]) (by simpa using h)
        · split at h
          · split at h
            · exact key [.hyTCP r.dialAddr, .status 200] (by simp) [] (by simp) (by simpa using h)
            · exact key [.hyTCP r.dialAddr, .status 200] (by simp) [.close] (by simp [isHy]) (by simpa using h)
          · split at h
            · exact key [.hyTCP r.dialAddr, .status 502] (by simp) [] (by simp) (by simpa using h)
            · exact key [.hyTCP r.dialAddr, .status 502] (by simp) [.close] (by simp [isHy]) (by simpa using h)
  · exfalso
    simp only [hok, Bool.false_eq_true, not_false_eq_true, ↓reduceIte] at h
    have hm : Eff.hyTCP a ∈ (checkAuth c.auth r.pauth).1 ++ [Eff.status 407, Eff.close] := by rw [h]; simp
    simp at hm
    have := hs.2 _ hm
    simp [isHy] at this

end Hy.HttpIn
