/-
  Helper definitions/lemmas for C02: the link between the request-level model (Hy.Model.Masq.serve)
  and the step-level model (Hy.Model.Auth): handling one request to completion.
-/
import Hy.Model.Masq
import Hy.Proofs.Auth
set_option linter.unusedSimpArgs false
set_option linter.unusedVariables false
namespace Hy.Masq
open Hy.Auth

/-- the atomic steps ServeHTTP performs for one request, run back to back on connection `c`
    (`shape` = the request is auth-shaped, `v` = the verdict the authenticator gives) -/
def handleActs (shape : Bool) (cred : String) (v : Bool) : List Act :=
  if shape then [.authBegin cred, .authVerdict v, .authCommit] else [.http]

/-- run acts on one connection, collecting the effects chronologically -/
def crunEff (cfg : Auth.Cfg) (c : ConnId) : Conn → List Act → Conn × List Eff
  | k, [] => (k, [])
  | k, a :: as =>
    let r := cstep cfg c k a
    let r' := crunEff cfg c r.1 as
    (r'.1, r.2 ++ r'.2)

theorem isAuthShape_iff (r : Req) :
    isAuthShape r = true ↔ r.method = Gen.MethodPost ∧ r.host = Gen.URLHost ∧ r.path = Gen.URLPath := by
  simp [isAuthShape, Bool.and_eq_true, and_assoc]

/-- on an idle, open, well-formed connection the step-level model answers a request exactly as
    `serve` does: 233 (and the flag set) iff `serve` answers `authOK`, the masquerade handler iff
    `serve` delegates; the authenticator is called iff `authCalled` -/
theorem handle_agrees_with_serve (masq : Req → Resp) (mcfg : Masq.Cfg) (pad : String) (c : ConnId)
    (k : Conn) (r : Req) (cred : String) (v : Bool)
    (hw : Wf k) (hi : k.phase = .idle) (hc : k.closed = false) :
    let out := crunEff ⟨mcfg.udp⟩ c k (handleActs (isAuthShape r) cred v)
    let sv := serve masq (fun _ => v) mcfg pad k.authed r
    (Eff.resp233 c ∈ out.2 ↔ sv.1 = authOK mcfg pad ∧ isAuthShape r = true ∧ (k.authed = true ∨ v = true)) ∧
    (Eff.masq c ∈ out.2 ↔ ¬ (isAuthShape r = true ∧ (k.authed = true ∨ v = true))) ∧
    out.1.authed = sv.2 ∧
    ((∃ cr, Eff.authCall c cr ∈ out.2) ↔ authCalled k.authed r = true) ∧
    out.1.phase = .idle := by
  cases hs : isAuthShape r <;> cases ha : k.authed <;> cases v <;>
    simp [handleActs, crunEff, cstep, serve, authCalled, hs, ha, hi, hc]
