/- C18 helper lemmas: conn streams, connWithOneByte, cachedConn. -/
import Hy.Model.Conn
import Hy.Model.Mux
import Hy.Model.HttpIn
set_option linter.unusedSimpArgs false
namespace Hy.Conn
open Hy

theorem takeC_flatten (n : Nat) (cs : Stream) (bs : Bytes) (r : Stream)
    (h : takeC n cs = some (bs, r)) : cs.flatten = bs ++ r.flatten ∧ bs.length = n := by
  induction cs generalizing n bs r with
  | nil =>
    simp only [takeC] at h
    split at h
    · simp at h; obtain ⟨rfl, rfl⟩ := h; simp_all
    · simp at h
  | cons c cs ih =>
    simp only [takeC] at h
    split at h
    · rename_i hle
      simp at h; obtain ⟨rfl, rfl⟩ := h
      refine ⟨by simp [← List.append_assoc, List.take_append_drop], ?_⟩
      simp [List.length_take]; omega
    · split at h
      · rename_i bs' r' heq
        simp at h; obtain ⟨rfl, rfl⟩ := h
        have := ih _ _ _ heq
        simp [this.1, this.2]; omega
      · simp at h

theorem readC_flatten (n : Nat) (cs : Stream) :
    (readC n cs).1 ++ (readC n cs).2.flatten = cs.flatten := by
  cases cs with
  | nil => simp [readC]
  | cons c cs =>
    simp only [readC]
    split
    · simp
    · simp [← List.append_assoc, List.take_append_drop]

end Hy.Conn

namespace Hy.Mux
open Hy Hy.Conn

theorem OneByte.read_pending (n : Nat) (s : OneByte) :
    (s.read n).1 ++ (s.read n).2.pending = s.pending := by
  unfold OneByte.read OneByte.pending
  by_cases hb : s.bRead
  · simp [hb, readC_flatten]
  · by_cases hn : n = 0
    · simp [hb, hn]
    · simp [hb, hn]

/-- the detection byte is the first byte of the client's stream under every chunking,
    leading empty chunks included, and the conn is left holding exactly the rest -/
theorem detect_some (cs : Stream) (b : Byte) (rest : Stream) (h : detect cs = some (b, rest)) :
    cs.flatten = b :: rest.flatten := by
  unfold detect at h
  split at h
  · rename_i b' rest' ht
    simp at h; obtain ⟨rfl, rfl⟩ := h
    have := (takeC_flatten _ _ _ _ ht).1
    simpa using this
  · simp at h

theorem takeC_none (n : Nat) (cs : Stream) (h : takeC n cs = none) : cs.flatten.length < n := by
  induction cs generalizing n with
  | nil =>
    simp only [takeC] at h
    split at h
    · simp at h
    · simp; omega
  | cons c cs ih =>
    simp only [takeC] at h
    split at h
    · simp at h
    · rename_i hlt
      split at h
      · simp at h
      · rename_i hn
        have := ih _ hn
        simp only [List.flatten_cons, List.length_append]; omega

/-- the read fails only if the client sent nothing at all -/
theorem detect_none (cs : Stream) (h : detect cs = none) : cs.flatten = [] := by
  unfold detect at h
  split at h
  · simp at h
  · rename_i hne
    cases ht : takeC 1 cs with
    | none =>
      have := takeC_none 1 cs ht
      exact List.eq_nil_of_length_eq_zero (by omega)
    | some p =>
      obtain ⟨bs, r⟩ := p
      have hl := (takeC_flatten _ _ _ _ ht).2
      match bs, hl with
      | [b], _ => exact absurd ht (hne b r)

theorem OneByte.reads_pending (ns : List Nat) (s : OneByte) :
    (OneByte.reads ns s).1.flatten ++ (OneByte.reads ns s).2.pending = s.pending := by
  induction ns generalizing s with
  | nil => simp [OneByte.reads]
  | cons n ns ih =>
    simp only [OneByte.reads, List.flatten_cons, List.append_assoc]
    rw [ih, OneByte.read_pending]

end Hy.Mux

namespace Hy.HttpIn
open Hy Hy.Conn

theorem Cached.read_pending (n : Nat) (s : Cached) :
    (s.read n).1 ++ (s.read n).2.pending = s.pending := by
  unfold Cached.read Cached.pending
  split
  · simp [← List.append_assoc, List.take_append_drop]
  · rename_i h
    have : s.buf = [] := by
      cases hb : s.buf with
      | nil => rfl
      | cons a b => simp [hb] at h
    simp [this, readC_flatten]

theorem Cached.reads_pending (ns : List Nat) (s : Cached) :
    (Cached.reads ns s).1.flatten ++ (Cached.reads ns s).2.pending = s.pending := by
  induction ns generalizing s with
  | nil => simp [Cached.reads]
  | cons n ns ih =>
    simp only [Cached.reads, List.flatten_cons, List.append_assoc]
    rw [ih, Cached.read_pending]

/-- one read with a non-empty buffer makes progress on the measure `fuel` -/
theorem Cached.read_fuel (n : Nat) (hn : 0 < n) (s : Cached) :
    (s.read n).2.fuel < s.fuel ∨ s.fuel = 0 := by
  unfold Cached.read Cached.fuel
  split
  · rename_i h
    left
    simp [List.length_drop]
    omega
  · rename_i h
    have hb : s.buf = [] := by
      cases hb : s.buf with
      | nil => rfl
      | cons a b => simp [hb] at h
    cases hc : s.conn with
    | nil => right; simp [hb]
    | cons c cs =>
      left
      simp only [hb, readC, List.length_nil, Nat.zero_add]
      split
      · simp
      · rename_i h2
        simp [List.length_drop]
        omega

theorem Cached.fuel_zero (s : Cached) (h : s.fuel = 0) : s.pending = [] := by
  unfold Cached.fuel at h
  unfold Cached.pending
  have h1 : s.buf.length = 0 := by omega
  have h2 : (s.conn.map (fun c => c.length + 1)).sum = 0 := by omega
  have : s.conn = [] := by
    cases hc : s.conn with
    | nil => rfl
    | cons c cs => rw [hc] at h2; simp at h2
  simp [this, List.eq_nil_of_length_eq_zero h1]

theorem Cached.reads_fuel (k : Nat) (s : Cached) (h : s.fuel ≤ k) :
    (Cached.reads (List.replicate k 32768) s).2.pending = [] := by
  induction k generalizing s with
  | zero =>
    simp only [List.replicate, Cached.reads]
    exact Cached.fuel_zero s (by omega)
  | succ k ih =>
    simp only [List.replicate, Cached.reads]
    apply ih
    rcases Cached.read_fuel 32768 (by decide) s with h1 | h1
    · omega
    · unfold Cached.fuel at h1
      have hb : s.buf = [] := List.eq_nil_of_length_eq_zero (by omega)
      have hc : s.conn = [] := by
        cases hc : s.conn with
        | nil => rfl
        | cons c cs => rw [hc] at h1; simp at h1
      simp [Cached.read, hb, hc, readC, Cached.fuel]

/-- io.Copy to the end of the stream forwards exactly buffered ++ rest -/
theorem relayAll_eq (s : Cached) : relayAll s = s.pending := by
  unfold relayAll
  have h1 := Cached.reads_pending (List.replicate s.fuel 32768) s
  have h2 := Cached.reads_fuel s.fuel s (Nat.le_refl _)
  rw [h2, List.append_nil] at h1
  exact h1

end Hy.HttpIn
