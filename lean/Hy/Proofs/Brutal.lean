/-
  Lemmas about Hy.Model.Brutal (C11): the five one-second slots hold exactly the events of
  the last five seconds (for every event history with non-decreasing time), the
  loss-compensation factor is always within [4/5, 1], bounds on ⌊bps / ackRate⌋.
-/
import Hy.Model.Brutal
import Hy.Proofs.Pacer
namespace Hy.Brutal
open Hy Hy.Pacer

theorem slotCount_eq : Gen.pktInfoSlotCount = 5 := by decide
theorem minSample_eq : Gen.minSampleCount = 50 := by decide

/-! ### finite sums -/

theorem sumTo_congr {f g : Nat → Nat} : ∀ n, (∀ i, i < n → f i = g i) → sumTo f n = sumTo g n
  | 0, _ => rfl
  | n+1, h => by
    simp only [sumTo]
    rw [sumTo_congr n (fun i hi => h i (by omega)), h n (by omega)]

theorem sumTo_add (f g : Nat → Nat) : ∀ n, sumTo (fun i => f i + g i) n = sumTo f n + sumTo g n
  | 0 => rfl
  | n+1 => by simp only [sumTo]; rw [sumTo_add f g n]; omega

theorem sumTo_zero : ∀ n, sumTo (fun _ => 0) n = 0
  | 0 => rfl
  | n+1 => by simp only [sumTo]; rw [sumTo_zero n]

theorem sumTo_single (r x : Nat) : ∀ n, sumTo (fun i => if r = i then x else 0) n = if r < n then x else 0
  | 0 => by simp [sumTo]
  | n+1 => by
    simp only [sumTo]; rw [sumTo_single r x n]
    by_cases h1 : r < n
    · rw [if_pos h1, if_neg (by omega), if_pos (by omega)]; omega
    · by_cases h2 : r = n
      · rw [if_neg h1, if_pos h2, if_pos (by omega)]; omega
      · rw [if_neg h1, if_neg h2, if_neg (by omega)]

/-! ### event histories of a sender -/

/-- what happens to a BrutalSender -/
inductive SEv where
  | ack (t nAck nLoss : Nat)        -- OnCongestionEventEx at time t (ns) with that many acked / lost packets
  | send (t size bw : Int)          -- OnPacketSent for a packet the pacer released; bw = what getBandwidth() returned
  | usend (t size bw : Int)         -- OnPacketSent for a packet the pacer did not release (ACK-only, PTO / MTU probe)
  | setMds (s : Int)                -- SetMaxDatagramSize

def applySEv (s : Sender) : SEv → Sender
  | .ack t a l => onCongestionEventEx s t a l
  | .send t size bw => onPacketSent s bw t size
  | .usend t size bw => onPacketSent s bw t size
  | .setMds m => setMaxDatagramSize s m

def runS (s : Sender) (es : List SEv) : Sender := es.foldl applySEv s

/-- time does not run backwards between congestion events; `c` is the time of the previous one -/
def Chrono : Nat → List SEv → Prop
  | _, [] => True
  | c, .ack t _ _ :: es => c ≤ t ∧ Chrono t es
  | c, _ :: es => Chrono c es

/-- the ack (π = true) or loss (π = false) count of an event / a slot -/
def pk (π : Bool) (x : PktInfo) : Nat := if π then x.ack else x.loss

/-- Σ of the acked (π = true) / lost (π = false) packet counts over the congestion events of
    the history whose whole-second timestamp satisfies P -/
def sumAck (P : Nat → Prop) [DecidablePred P] (π : Bool) : List SEv → Nat
  | [] => 0
  | .ack t a l :: es => (if P (t / 1000000000) then (if π then a else l) else 0) + sumAck P π es
  | _ :: es => sumAck P π es

theorem sumAck_append (P : Nat → Prop) [DecidablePred P] (π : Bool) (a b : List SEv) :
    sumAck P π (a ++ b) = sumAck P π a + sumAck P π b := by
  induction a with
  | nil => simp [sumAck]
  | cons e es ih =>
    cases e <;> simp only [List.cons_append, sumAck, ih]
    omega

theorem sumAck_zero (P : Nat → Prop) [DecidablePred P] (π : Bool) (h : List SEv)
    (hz : ∀ t a l, SEv.ack t a l ∈ h → ¬ P (t / 1000000000)) : sumAck P π h = 0 := by
  induction h with
  | nil => rfl
  | cons e es ih =>
    have ih' := ih (fun t a l hm => hz t a l (List.mem_cons_of_mem _ hm))
    cases e with
    | ack t a l =>
      simp only [sumAck, ih']
      rw [if_neg (hz t a l (List.mem_cons_self ..))]
    | send t size bw => simpa [sumAck] using ih'
    | usend t size bw => simpa [sumAck] using ih'
    | setMds m => simpa [sumAck] using ih'

theorem sumAck_congr (P Q : Nat → Prop) [DecidablePred P] [DecidablePred Q] (π : Bool)
    (h : List SEv) (hpq : ∀ t a l, SEv.ack t a l ∈ h → (P (t / 1000000000) ↔ Q (t / 1000000000))) :
    sumAck P π h = sumAck Q π h := by
  induction h with
  | nil => rfl
  | cons e es ih =>
    have ih' := ih (fun t a l hm => hpq t a l (List.mem_cons_of_mem _ hm))
    cases e with
    | ack t a l =>
      simp only [sumAck, ih']
      have := hpq t a l (List.mem_cons_self ..)
      by_cases hp : P (t / 1000000000)
      · rw [if_pos hp, if_pos (this.mp hp)]
      · rw [if_neg hp, if_neg (fun hq => hp (this.mpr hq))]
    | send t size bw => simpa [sumAck] using ih'
    | usend t size bw => simpa [sumAck] using ih'
    | setMds m => simpa [sumAck] using ih'

/-- splitting a sum by the residue of the timestamp modulo n -/
theorem sumAck_partition (P : Nat → Prop) [DecidablePred P] (π : Bool) (n : Nat) (hn : 0 < n)
    (h : List SEv) :
    sumTo (fun i => sumAck (fun sc => P sc ∧ sc % n = i) π h) n = sumAck P π h := by
  induction h with
  | nil => simp only [sumAck]; exact sumTo_zero n
  | cons e es ih =>
    cases e with
    | ack t a l =>
      simp only [sumAck]
      rw [sumTo_add, ih]
      congr 1
      by_cases hp : P (t / 1000000000)
      · rw [if_pos hp]
        have : ∀ i, (if P (t / 1000000000) ∧ t / 1000000000 % n = i then (if π then a else l) else 0)
            = (if t / 1000000000 % n = i then (if π then a else l) else 0) := by
          intro i; by_cases hi : t / 1000000000 % n = i <;> simp [hp, hi]
        rw [sumTo_congr n (fun i _ => this i), sumTo_single, if_pos (Nat.mod_lt _ hn)]
      · rw [if_neg hp]
        have : ∀ i, (if P (t / 1000000000) ∧ t / 1000000000 % n = i then (if π then a else l) else 0) = 0 := by
          intro i; simp [hp]
        rw [sumTo_congr n (fun i _ => this i), sumTo_zero]
    | send t size bw => simpa [sumAck] using ih
    | usend t size bw => simpa [sumAck] using ih
    | setMds m => simpa [sumAck] using ih

/-! ### the slot invariant -/

/-- `slots` represents history `h` whose latest congestion event was at time `c` (ns) -/
structure Inv (h : List SEv) (slots : Nat → PktInfo) (c : Nat) : Prop where
  past : ∀ t a l, SEv.ack t a l ∈ h → t ≤ c
  cnt : ∀ i, i < 5 → ∀ π, pk π (slots i) = sumAck (fun sc => sc = (slots i).ts ∧ sc % 5 = i) π h
  newest : ∀ i, i < 5 → ∀ t a l, SEv.ack t a l ∈ h → t / 1000000000 % 5 = i →
    t / 1000000000 ≤ (slots i).ts
  le_now : ∀ i, i < 5 → (slots i).ts ≤ c / 1000000000
  resid : ∀ i, i < 5 → (slots i).ts % 5 = i ∨ ∀ t a l, SEv.ack t a l ∈ h → t / 1000000000 % 5 ≠ i

theorem inv_init (c : Nat) : Inv [] (fun _ => ⟨0, 0, 0⟩) c where
  past := by intro t a l hm; cases hm
  cnt := by intro i _ π; cases π <;> rfl
  newest := by intro i _ t a l hm; cases hm
  le_now := by intro i _; exact Nat.zero_le _
  resid := by intro i _; right; intro t a l hm; cases hm

theorem div_mono {a b : Nat} (h : a ≤ b) : a / 1000000000 ≤ b / 1000000000 :=
  Nat.div_le_div_right h

/-- one congestion event -/
theorem inv_ack {h : List SEv} {slots : Nat → PktInfo} {c : Nat} (hi : Inv h slots c)
    (t a l : Nat) (hc : c ≤ t) :
    Inv (h ++ [.ack t a l]) (rotate slots (t / 1000000000) a l) t ∧
    (rotate slots (t / 1000000000) a l (t / 1000000000 % 5)).ts = t / 1000000000 := by
  generalize hts : t / 1000000000 = ts
  have hcs : c / 1000000000 ≤ ts := by rw [← hts]; exact div_mono hc
  have hj : ts % 5 < 5 := Nat.mod_lt _ (by omega)
  -- the rotated array, slot by slot
  have hrot_other : ∀ i, i ≠ ts % 5 → rotate slots ts a l i = slots i := by
    intro i hne
    unfold rotate
    simp only [slotCount_eq]
    split <;> simp [upd, hne]
  have hrot_same : (slots (ts % 5)).ts = ts →
      rotate slots ts a l (ts % 5) = ⟨ts, (slots (ts % 5)).ack + a, (slots (ts % 5)).loss + l⟩ := by
    intro he
    unfold rotate
    simp only [slotCount_eq]
    rw [if_pos he]; simp [upd]
  have hrot_new : (slots (ts % 5)).ts ≠ ts → rotate slots ts a l (ts % 5) = ⟨ts, a, l⟩ := by
    intro he
    unfold rotate
    simp only [slotCount_eq]
    rw [if_neg he]; simp [upd]
  have hts_slot : (rotate slots ts a l (ts % 5)).ts = ts := by
    by_cases he : (slots (ts % 5)).ts = ts
    · rw [hrot_same he]
    · rw [hrot_new he]
  -- events of the old history are not later than second ts
  have hold : ∀ t' a' l', SEv.ack t' a' l' ∈ h → t' / 1000000000 ≤ ts := by
    intro t' a' l' hm
    have := div_mono (hi.past t' a' l' hm)
    omega
  refine ⟨⟨?_, ?_, ?_, ?_, ?_⟩, hts_slot⟩
  · -- past
    intro t' a' l' hm
    rcases List.mem_append.mp hm with hm | hm
    · have := hi.past t' a' l' hm; omega
    · simp only [List.mem_singleton, SEv.ack.injEq] at hm; omega
  · -- cnt
    intro i hi5 π
    rw [sumAck_append]
    simp only [sumAck, hts, Nat.add_zero]
    by_cases hij : i = ts % 5
    · subst hij
      by_cases he : (slots (ts % 5)).ts = ts
      · rw [hrot_same he]
        have hc := hi.cnt (ts % 5) hj π
        rw [he] at hc
        simp only []
        rw [if_pos (by simp), ← hc]
        cases π <;> simp [pk]
      · rw [hrot_new he]
        simp only []
        rw [if_pos (by simp)]
        rw [sumAck_zero]
        · cases π <;> simp [pk]
        · -- no earlier event carries second ts
          intro t' a' l' hm ⟨h1, _⟩
          have hn := hi.newest (ts % 5) hj t' a' l' hm (by rw [h1])
          have hl := hi.le_now (ts % 5) hj
          omega
    · rw [hrot_other i hij, hi.cnt i hi5 π]
      rw [if_neg (by intro ⟨_, h2⟩; exact hij h2.symm)]
      omega
  · -- newest
    intro i hi5 t' a' l' hm hres
    rcases List.mem_append.mp hm with hm | hm
    · by_cases hij : i = ts % 5
      · subst hij; rw [hts_slot]; exact hold t' a' l' hm
      · rw [hrot_other i hij]; exact hi.newest i hi5 t' a' l' hm hres
    · simp only [List.mem_singleton, SEv.ack.injEq] at hm
      obtain ⟨rfl, _, _⟩ := hm
      rw [hts] at hres
      subst hres
      rw [hts_slot]; omega
  · -- le_now
    intro i hi5
    by_cases hij : i = ts % 5
    · subst hij; rw [hts_slot]; omega
    · rw [hrot_other i hij]; have := hi.le_now i hi5; omega
  · -- resid
    intro i hi5
    by_cases hij : i = ts % 5
    · subst hij; left; rw [hts_slot]
    · rw [hrot_other i hij]
      rcases hi.resid i hi5 with h1 | h1
      · left; exact h1
      · right
        intro t' a' l' hm
        rcases List.mem_append.mp hm with hm | hm
        · exact h1 t' a' l' hm
        · simp only [List.mem_singleton, SEv.ack.injEq] at hm
          obtain ⟨rfl, _, _⟩ := hm
          rw [hts]; omega

/-- the events of seconds (now − 5, now] -/
def InLast5 (now : Nat) (sc : Nat) : Prop := now < sc + 5 ∧ sc ≤ now

instance (now : Nat) : DecidablePred (InLast5 now) := fun sc => by unfold InLast5; exact inferInstance

/-- the totals `updateAckRate` computes from the slots are the totals of the last five seconds -/
theorem window_sum {h : List SEv} {slots : Nat → PktInfo} {c : Nat} (hi : Inv h slots c)
    (hcur : (slots (c / 1000000000 % 5)).ts = c / 1000000000) (π : Bool) :
    sumTo (fun i => if inWindow (c / 1000000000) (slots i) then pk π (slots i) else 0) 5
      = sumAck (InLast5 (c / 1000000000)) π h := by
  generalize hnow : c / 1000000000 = now at hcur
  rw [← sumAck_partition (InLast5 now) π 5 (by omega) h]
  apply sumTo_congr
  intro i hi5
  have hle := hi.le_now i hi5
  rw [hnow] at hle
  have hinw : inWindow now (slots i) = decide (now ≤ (slots i).ts + 5) := by
    unfold inWindow
    simp only [slotCount_eq]
    by_cases hw : now ≤ (slots i).ts + 5
    · simp [hw]; omega
    · simp [hw]; omega
  rw [hinw]
  by_cases hw : now ≤ (slots i).ts + 5
  · simp only [hw, decide_true, if_true]
    rw [hi.cnt i hi5 π]
    apply sumAck_congr
    intro t a l hm
    have hn := hi.newest i hi5 t a l hm
    have hres : (∀ t a l, SEv.ack t a l ∈ h → t / 1000000000 % 5 ≠ i) → t / 1000000000 % 5 ≠ i :=
      fun hr => hr t a l hm
    generalize t / 1000000000 = sc at hn hres ⊢
    constructor
    · intro ⟨h1, h2⟩
      refine ⟨⟨?_, by omega⟩, h2⟩
      -- now = ts + 5 would make this slot the current one, whose timestamp is now
      by_cases heq : now = (slots i).ts + 5
      · have : now % 5 = i := by omega
        rw [this] at hcur; omega
      · omega
    · intro ⟨⟨h1, h2⟩, h3⟩
      have hn' := hn h3
      rcases hi.resid i hi5 with hr | hr
      · exact ⟨by omega, h3⟩
      · exact absurd h3 (hres hr)
  · simp only [hw, decide_false]
    rw [sumAck_zero]
    · rfl
    · intro t a l hm ⟨⟨h1, _⟩, h3⟩
      have := hi.newest i hi5 t a l hm h3
      omega

/-! ### whole histories -/

/-- time of the latest congestion event after `es` (c if there is none) -/
def lastAck : Nat → List SEv → Nat
  | c, [] => c
  | _, .ack t _ _ :: es => lastAck t es
  | c, _ :: es => lastAck c es

theorem runS_cons (s : Sender) (e : SEv) (es : List SEv) :
    runS s (e :: es) = runS (applySEv s e) es := rfl

theorem runS_append (s : Sender) (a b : List SEv) : runS s (a ++ b) = runS (runS s a) b := by
  unfold runS; exact List.foldl_append

theorem chrono_append (a b : List SEv) :
    ∀ c, Chrono c (a ++ b) ↔ Chrono c a ∧ Chrono (lastAck c a) b := by
  induction a with
  | nil => intro c; simp [Chrono, lastAck]
  | cons e es ih =>
    intro c
    cases e <;> simp only [List.cons_append, Chrono, lastAck, ih, and_assoc]

theorem inv_nonack {h : List SEv} {slots : Nat → PktInfo} {c : Nat} (hi : Inv h slots c)
    (e : SEv) (hne : ∀ t a l, e ≠ .ack t a l) : Inv (h ++ [e]) slots c := by
  have hmem : ∀ t a l, SEv.ack t a l ∈ h ++ [e] → SEv.ack t a l ∈ h := by
    intro t a l hm
    rcases List.mem_append.mp hm with hm | hm
    · exact hm
    · simp only [List.mem_singleton] at hm; exact absurd hm.symm (hne t a l)
  have hsum : ∀ (P : Nat → Prop) [DecidablePred P] (π : Bool), sumAck P π (h ++ [e]) = sumAck P π h := by
    intro P _ π
    rw [sumAck_append]
    cases e with
    | ack t a l => exact absurd rfl (hne t a l)
    | send t size bw => simp [sumAck]
    | usend t size bw => simp [sumAck]
    | setMds m => simp [sumAck]
  exact ⟨fun t a l hm => hi.past t a l (hmem t a l hm),
    fun i hi5 π => by rw [hsum]; exact hi.cnt i hi5 π,
    fun i hi5 t a l hm => hi.newest i hi5 t a l (hmem t a l hm),
    hi.le_now,
    fun i hi5 => (hi.resid i hi5).imp id (fun hr t a l hm => hr t a l (hmem t a l hm))⟩

theorem slots_applySEv_ack (s : Sender) (t a l : Nat) :
    (applySEv s (.ack t a l)).slots = rotate s.slots (t / 1000000000) a l := by
  simp only [applySEv, onCongestionEventEx, updateAckRate]
  split <;> rfl

theorem inv_run (es : List SEv) : ∀ (h : List SEv) (s : Sender) (c : Nat),
    Inv h s.slots c → Chrono c es → Inv (h ++ es) (runS s es).slots (lastAck c es) := by
  induction es with
  | nil => intro h s c hi _; simpa [runS, lastAck] using hi
  | cons e es ih =>
    intro h s c hi hc
    rw [runS_cons]
    have happ : h ++ e :: es = (h ++ [e]) ++ es := by simp
    rw [happ]
    cases e with
    | ack t a l =>
      obtain ⟨hct, hrest⟩ := hc
      have := (inv_ack hi t a l hct).1
      rw [← slots_applySEv_ack s t a l] at this
      exact ih _ _ _ this hrest
    | send t size bw =>
      exact ih _ _ _ (inv_nonack hi _ (by intro _ _ _ hh; cases hh)) hc
    | usend t size bw =>
      exact ih _ _ _ (inv_nonack hi _ (by intro _ _ _ hh; cases hh)) hc
    | setMds m =>
      exact ih _ _ _ (inv_nonack hi _ (by intro _ _ _ hh; cases hh)) hc

theorem noComp_run (es : List SEv) : ∀ s : Sender,
    (runS s es).disableLossCompensation = s.disableLossCompensation := by
  induction es with
  | nil => intro s; rfl
  | cons e es ih =>
    intro s
    rw [runS_cons, ih]
    cases e with
    | ack t a l =>
      simp only [applySEv, onCongestionEventEx, updateAckRate]
      split <;> rfl
    | send t size bw => rfl
    | usend t size bw => rfl
    | setMds m => rfl

theorem bps_run (es : List SEv) : ∀ s : Sender, (runS s es).bps = s.bps := by
  induction es with
  | nil => intro s; rfl
  | cons e es ih =>
    intro s
    rw [runS_cons, ih]
    cases e with
    | ack t a l =>
      simp only [applySEv, onCongestionEventEx, updateAckRate]
      split <;> rfl
    | send t size bw => rfl
    | usend t size bw => rfl
    | setMds m => rfl

/-- the factor after a congestion event at time t, as a function of the whole history -/
theorem ackRate_after_event (bps : Nat) (nc : Bool) (pre : List SEv) (t a l : Nat)
    (hc : Chrono 0 (pre ++ [.ack t a l])) :
    (runS (Brutal.new bps nc) (pre ++ [.ack t a l])).ackRate =
      if nc then .one
      else rateOf (sumAck (InLast5 (t / 1000000000)) true (pre ++ [.ack t a l]))
                  (sumAck (InLast5 (t / 1000000000)) false (pre ++ [.ack t a l])) := by
  obtain ⟨hc1, hc2⟩ := (chrono_append pre [.ack t a l] 0).mp hc
  have hct : lastAck 0 pre ≤ t := hc2.1
  have hinv := inv_run pre [] (Brutal.new bps nc) 0 (inv_init 0) hc1
  simp only [List.nil_append] at hinv
  obtain ⟨hinv', hcur⟩ := inv_ack hinv t a l hct
  rw [runS_append]
  generalize hs : runS (Brutal.new bps nc) pre = s at hinv hinv' hcur
  have hnc : s.disableLossCompensation = nc := by rw [← hs, noComp_run]; rfl
  simp only [runS, List.foldl, applySEv, onCongestionEventEx, updateAckRate, hnc]
  cases nc with
  | true => simp
  | false =>
    simp only [Bool.false_eq_true, if_false]
    have hA := window_sum hinv' hcur true
    have hL := window_sum hinv' hcur false
    simp only [pk, if_true, Bool.false_eq_true, if_false] at hA hL
    unfold windowAck windowLoss
    simp only [slotCount_eq]
    rw [hA, hL]

/-- other events leave the factor alone -/
theorem ackRate_nonack (s : Sender) (e : SEv) (hne : ∀ t a l, e ≠ .ack t a l) :
    (applySEv s e).ackRate = s.ackRate := by
  cases e with
  | ack t a l => exact absurd rfl (hne t a l)
  | send t size bw => rfl
  | usend t size bw => rfl
  | setMds m => rfl

/-! ### the factor is always within [4/5, 1] -/

/-- 0 < ackRate, 4/5 ≤ ackRate ≤ 1, as inequalities between numerator and denominator -/
def AckRate.InRange (r : AckRate) : Prop := 0 < r.num ∧ r.num ≤ r.den ∧ 4 * r.den ≤ 5 * r.num

theorem rateOf_inRange (a l : Nat) : (rateOf a l).InRange := by
  unfold rateOf
  simp only [minSample_eq]
  split
  · simp [AckRate.InRange, AckRate.num, AckRate.den]
  · split
    · simp [AckRate.InRange, AckRate.num, AckRate.den]
    · simp only [AckRate.InRange, AckRate.num, AckRate.den]; omega

theorem applySEv_inRange (s : Sender) (e : SEv) (h : s.ackRate.InRange) :
    (applySEv s e).ackRate.InRange := by
  cases e with
  | ack t a l =>
    simp only [applySEv, onCongestionEventEx, updateAckRate]
    split
    · simp [AckRate.InRange, AckRate.num, AckRate.den]
    · exact rateOf_inRange _ _
  | send t size bw => exact h
  | usend t size bw => exact h
  | setMds m => exact h

theorem runS_inRange (es : List SEv) : ∀ s : Sender, s.ackRate.InRange → (runS s es).ackRate.InRange := by
  induction es with
  | nil => intro s h; exact h
  | cons e es ih => intro s h; rw [runS_cons]; exact ih _ (applySEv_inRange s e h)

/-- the value is max(4/5, acked/(acked+lost)): num/den = max(4·T, 5·A)/(5·T) -/
theorem rateOf_value (a l : Nat) (h50 : Gen.minSampleCount ≤ a + l) :
    (rateOf a l).num * (5 * (a + l)) = (rateOf a l).den * max (4 * (a + l)) (5 * a) := by
  unfold rateOf
  rw [if_neg (by omega)]
  split
  · simp only [AckRate.num, AckRate.den]; omega
  · simp only [AckRate.num, AckRate.den]
    rw [Nat.max_eq_right (by omega)]
    ac_rfl

/-! ### ⌊bps / ackRate⌋ lies between bps and ⌊5·bps/4⌋ -/

theorem bandwidthQ_bounds (bps : Nat) (r : AckRate) (h : r.InRange) :
    bps ≤ bandwidthQ bps r ∧ bandwidthQ bps r ≤ bps * 5 / 4 := by
  obtain ⟨h0, h1, h2⟩ := h
  unfold bandwidthQ
  constructor
  · exact (Nat.le_div_iff_mul_le h0).mpr (Nat.mul_le_mul_left bps h1)
  · apply (Nat.le_div_iff_mul_le (by omega)).mpr
    -- x·num ≤ bps·den, 4·den ≤ 5·num  ⇒  (x·4)·num ≤ (bps·5)·num
    have hx : bps * r.den / r.num * r.num ≤ bps * r.den := Nat.div_mul_le_self _ _
    apply Nat.le_of_mul_le_mul_right _ h0
    calc bps * r.den / r.num * 4 * r.num
        = 4 * (bps * r.den / r.num * r.num) := by ac_rfl
      _ ≤ 4 * (bps * r.den) := Nat.mul_le_mul_left 4 hx
      _ = bps * (4 * r.den) := by ac_rfl
      _ ≤ bps * (5 * r.num) := Nat.mul_le_mul_left bps h2
      _ = bps * 5 * r.num := by ac_rfl

/-! ### the window -/

theorem window_ge_datagram (s : Sender) (rtt raw : Int)
    (hm : s.maxDatagramSize ≤ (Gen.brutalNoRttWindow : Nat)) :
    s.maxDatagramSize ≤ getCongestionWindow s rtt raw := by
  unfold getCongestionWindow
  split
  · exact hm
  · split <;> omega

theorem canSend_zero (s : Sender) (rtt raw : Int) (h0 : 0 ≤ s.maxDatagramSize) :
    canSend s rtt raw 0 = true := by
  unfold canSend getCongestionWindow
  have : (0 : Int) ≤ ((Gen.brutalNoRttWindow : Nat) : Int) := Int.natCast_nonneg _
  simp only [decide_eq_true_eq]
  split
  · exact this
  · split <;> omega

/-! ### the sender's pacer sees exactly the send / datagram-size events -/

def pacerEvs : List SEv → List Pacer.Ev
  | [] => []
  | .ack _ _ _ :: es => pacerEvs es
  | .send t size bw :: es => .send t size bw :: pacerEvs es
  | .usend t size bw :: es => .usend t size bw :: pacerEvs es
  | .setMds m :: es => .setMds m :: pacerEvs es

theorem pacerEvs_append (a b : List SEv) : pacerEvs (a ++ b) = pacerEvs a ++ pacerEvs b := by
  induction a with
  | nil => rfl
  | cons e es ih => cases e <;> simp [pacerEvs, ih]

theorem pacer_applySEv_ack (s : Sender) (t a l : Nat) : (applySEv s (.ack t a l)).pacer = s.pacer := by
  simp only [applySEv, onCongestionEventEx, updateAckRate]
  split <;> rfl

theorem mds_applySEv_ack (s : Sender) (t a l : Nat) :
    (applySEv s (.ack t a l)).maxDatagramSize = s.maxDatagramSize := by
  simp only [applySEv, onCongestionEventEx, updateAckRate]
  split <;> rfl

theorem pacer_run (es : List SEv) : ∀ s : Sender,
    (runS s es).pacer = Pacer.run s.pacer (pacerEvs es) := by
  induction es with
  | nil => intro s; rfl
  | cons e es ih =>
    intro s
    rw [runS_cons, ih]
    cases e with
    | ack t a l => rw [pacer_applySEv_ack]; rfl
    | send t size bw => rfl
    | usend t size bw => rfl
    | setMds m => rfl

/-- BrutalSender.maxDatagramSize and its pacer's copy are always equal -/
theorem mds_sync_run (es : List SEv) : ∀ s : Sender,
    s.maxDatagramSize = s.pacer.maxDatagramSize →
    (runS s es).maxDatagramSize = (runS s es).pacer.maxDatagramSize := by
  induction es with
  | nil => intro s h; exact h
  | cons e es ih =>
    intro s h
    rw [runS_cons]
    apply ih
    cases e with
    | ack t a l => rw [pacer_applySEv_ack, mds_applySEv_ack]; exact h
    | send t size bw => exact h
    | usend t size bw => exact h
    | setMds m => rfl

theorem ackRate_noComp_run (es : List SEv) : ∀ s : Sender,
    s.disableLossCompensation = true → s.ackRate = .one → (runS s es).ackRate = .one := by
  induction es with
  | nil => intro s _ h; exact h
  | cons e es ih =>
    intro s hn h
    rw [runS_cons]
    cases e with
    | ack t a l =>
      apply ih
      · simp only [applySEv, onCongestionEventEx, updateAckRate, hn]; rfl
      · simp only [applySEv, onCongestionEventEx, updateAckRate, hn]; rfl
    | send t size bw => exact ih _ hn h
    | usend t size bw => exact ih _ hn h
    | setMds m => exact ih _ hn h

theorem ok_new : Pacer.Ok Pacer.new := by
  refine ⟨?_, ?_, ?_, ?_, ?_, ?_⟩ <;> decide

end Hy.Brutal
