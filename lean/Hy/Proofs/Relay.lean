/-
  Helper lemmas for C06 (Hy.Props.C06): the invariant of one copy goroutine, preserved by
  every atomic step whatever the other parts of the system have closed, and its lifting
  to the two-way relay under every schedule.
-/
import Hy.Model.Relay
set_option linter.unusedSimpArgs false
set_option linter.unusedVariables false
namespace Hy.Relay
open Hy

/-- the chunk the logger was shown and refused -/
def G.vetoed (g : G) : Bytes := g.veto.getD []

/-- bytes read from the source and not forwarded: the chunk in hand, or else the refused
    chunk / the tail the sink rejected -/
def G.rem (g : G) : Bytes :=
  match g.pc with
  | .log d _ => d
  | .write d _ => d
  | _ => g.vetoed ++ g.dropped

/-- every `write n k` in the trace (newest first) directly follows `log n true` -/
def Approved (tr : List Ev) : Prop :=
  ∀ i n k, tr[i]? = some (.write n k) → tr[i + 1]? = some (.log n true)

/-- what the program counter says about the rest of the state -/
def PcOk (g : G) : Prop :=
  match g.pc with
  | .read => g.out = none
  | .log d _ => g.out = none ∧ d ≠ []
  | .write d _ => g.out = none ∧ d ≠ [] ∧ g.trace.head? = some (.log d.length true)
  | .ret o => g.out = some o
  | .fin => g.out ≠ none

structure Inv (buf : Nat) (g : G) : Prop where
  /-- forwarded ++ not-forwarded = everything read, in order -/
  stream : g.written.flatten ++ g.rem = g.consumed
  account : g.logged = g.written.flatten.length + g.pending.length + g.dropped.length
  offer : g.offered = g.logged + g.vetoed.length
  bound : g.rem.length ≤ buf
  srcBound : ∀ r ∈ g.src, r.data.length ≤ buf
  pcOk : PcOk g
  vetoIff : g.veto.isSome ↔ g.out = some .disconnect
  dropOut : g.dropped ≠ [] → g.out = some .writeErr
  vetoHead : ∀ d, g.veto = some d → g.trace.head? = some (.log d.length false)
  approved : Approved g.trace

theorem Inv.quiet {buf g} (h : Inv buf g) (ho : g.out = none) : g.veto = none ∧ g.dropped = [] := by
  constructor
  · cases hv : g.veto with
    | none => rfl
    | some d =>
      have := h.vetoIff.mp (by simp [hv])
      rw [ho] at this; cases this
  · cases hd : g.dropped with
    | nil => rfl
    | cons a l =>
      have := h.dropOut (by simp [hd])
      rw [ho] at this; cases this

/-! ### the environment's read -/

theorem nextRead_data (c : Bool) (src : List Rd) :
    (nextRead c src).1.data ++ ((nextRead c src).2.map (·.data)).flatten = (src.map (·.data)).flatten := by
  unfold nextRead
  split
  · simp
  · cases src <;> simp

theorem nextRead_bound (buf : Nat) (c : Bool) (src : List Rd) (h : ∀ r ∈ src, r.data.length ≤ buf) :
    (nextRead c src).1.data.length ≤ buf ∧ ∀ r ∈ (nextRead c src).2, r.data.length ≤ buf := by
  unfold nextRead
  split
  · exact ⟨by simp, h⟩
  · cases src with
    | nil => simp
    | cons r rs =>
      exact ⟨h r (by simp), fun x hx => h x (by simp [hx])⟩

/-! ### approved-before-forwarded on traces -/

theorem approved_cons_nonwrite {tr : List Ev} (e : Ev) (h : Approved tr) (he : ∀ n k, e ≠ .write n k) :
    Approved (e :: tr) := by
  intro i n k hi
  cases i with
  | zero => simp at hi; exact absurd hi (he n k)
  | succ j => simpa using h j n k (by simpa using hi)

theorem approved_cons_write {tr : List Ev} (n k : Nat) (h : Approved tr)
    (hh : tr.head? = some (.log n true)) : Approved (.write n k :: tr) := by
  intro i n' k' hi
  cases i with
  | zero =>
    simp at hi
    obtain ⟨rfl, rfl⟩ := hi
    cases tr with
    | nil => simp at hh
    | cons a t => simpa using hh
  | succ j => simpa using h j n' k' (by simpa using hi)

/-! ### one step preserves the invariant -/

theorem afterChunk_inv {buf : Nat} (g : G) (e : Option Bool)
    (hs : g.written.flatten ++ (g.vetoed ++ g.dropped) = g.consumed)
    (ha : g.logged = g.written.flatten.length + g.dropped.length)
    (ho : g.offered = g.logged + g.vetoed.length)
    (hb : ∀ r ∈ g.src, r.data.length ≤ buf)
    (hq : g.out = none) (hv : g.veto = none) (hd : g.dropped = [])
    (hap : Approved g.trace) : Inv buf (afterChunk g e) := by
  have hvd : g.vetoed = [] := by simp [G.vetoed, hv]
  cases e with
  | none =>
    refine ⟨?_, ?_, ?_, ?_, hb, ?_, ?_, ?_, ?_, hap⟩
    · simpa [afterChunk, G.rem, G.vetoed] using hs
    · simpa [afterChunk, G.pending] using ha
    · simpa [afterChunk, G.vetoed] using ho
    · simp [afterChunk, G.rem, G.vetoed, hv, hd]
    · simp [afterChunk, PcOk, hq]
    · simp [afterChunk, hv, hq]
    · simp [afterChunk, hd]
    · simp [afterChunk, hv]
  | some b =>
    cases b <;>
    · refine ⟨?_, ?_, ?_, ?_, hb, ?_, ?_, ?_, ?_, hap⟩
      · simpa [afterChunk, finishWith, G.rem, G.vetoed] using hs
      · simpa [afterChunk, finishWith, G.pending] using ha
      · simpa [afterChunk, finishWith, G.vetoed] using ho
      · simp [afterChunk, finishWith, G.rem, G.vetoed, hv, hd]
      · simp [afterChunk, finishWith, PcOk]
      · simp [afterChunk, finishWith, hv]
      · simp [afterChunk, finishWith, hd]
      · simp [afterChunk, finishWith, hv]

theorem stepRead_inv {buf : Nat} (c : Bool) (g : G) (h : Inv buf g) (hpc : g.pc = .read) :
    Inv buf (stepRead c g) := by
  have hq : g.out = none := by have := h.pcOk; simpa [PcOk, hpc] using this
  obtain ⟨hv, hd⟩ := h.quiet hq
  have hvd : g.vetoed = [] := by simp [G.vetoed, hv]
  have hs := h.stream; have ha := h.account; have ho := h.offer
  simp only [G.rem, hpc, hvd, hd, List.append_nil, G.pending, List.length_nil, Nat.add_zero] at hs ha ho
  obtain ⟨hb1, hb2⟩ := nextRead_bound buf c g.src h.srcBound
  unfold stepRead
  dsimp only
  split
  · rename_i hnil
    apply afterChunk_inv
    · simp [G.vetoed, hv, hd, hnil, hs]
    · simp [hd, ha]
    · simp [G.vetoed, hv, ho]
    · exact hb2
    · exact hq
    · exact hv
    · exact hd
    · exact approved_cons_nonwrite _ h.approved (by intro n k; simp)
  · rename_i hne
    refine ⟨?_, ?_, ?_, ?_, hb2, ?_, ?_, ?_, ?_, ?_⟩
    · simp [G.rem, hs]
    · simp [G.pending, hd, ha]
    · simp [G.vetoed, hv, ho]
    · simpa [G.rem] using hb1
    · simp [PcOk, hq]; exact hne
    · simp [hv, hq]
    · simp [hd]
    · simp [hv]
    · exact approved_cons_nonwrite _ h.approved (by intro n k; simp)

theorem stepLog_inv {buf : Nat} (g : G) (d : Bytes) (e : Option Bool) (h : Inv buf g)
    (hpc : g.pc = .log d e) : Inv buf (stepLog g d e) := by
  have hp := h.pcOk
  simp only [PcOk, hpc] at hp
  obtain ⟨hq, hne⟩ := hp
  obtain ⟨hv, hd⟩ := h.quiet hq
  have hvd : g.vetoed = [] := by simp [G.vetoed, hv]
  have hs := h.stream; have ha := h.account; have ho := h.offer; have hb := h.bound
  simp only [G.rem, hpc, hvd, hd, List.append_nil, G.pending, List.length_nil, Nat.add_zero] at hs ha ho hb
  unfold stepLog
  split
  · rename_i hok
    refine ⟨?_, ?_, ?_, ?_, h.srcBound, ?_, ?_, ?_, ?_, ?_⟩
    · simp [G.rem, hs]
    · simp [G.pending, hd, ha]
    · simp [G.vetoed, hv, ho]
    · simpa [G.rem] using hb
    · simp [PcOk, hq, hne, hok]
    · simp [hv, hq]
    · simp [hd]
    · simp [hv]
    · exact approved_cons_nonwrite _ h.approved (by intro n k; simp)
  · rename_i hno
    have hno' : headV g.verd = false := by simpa using hno
    refine ⟨?_, ?_, ?_, ?_, h.srcBound, ?_, ?_, ?_, ?_, ?_⟩
    · simp [finishWith, G.rem, G.vetoed, hd, hs]
    · simp [finishWith, G.pending, hd, ha]
    · simp [finishWith, G.vetoed, ho]
    · simpa [finishWith, G.rem, G.vetoed, hd] using hb
    · simp [finishWith, PcOk]
    · simp [finishWith]
    · simp [finishWith, hd]
    · simp [finishWith, hno']
    · exact approved_cons_nonwrite _ h.approved (by intro n k; simp)

theorem stepWrite_inv {buf : Nat} (c : Bool) (g : G) (d : Bytes) (e : Option Bool) (h : Inv buf g)
    (hpc : g.pc = .write d e) : Inv buf (stepWrite c g d e) := by
  have hp := h.pcOk
  simp only [PcOk, hpc] at hp
  obtain ⟨hq, hne, hhead⟩ := hp
  obtain ⟨hv, hd⟩ := h.quiet hq
  have hvd : g.vetoed = [] := by simp [G.vetoed, hv]
  have hs := h.stream; have ha := h.account; have ho := h.offer; have hb := h.bound
  simp only [G.rem, hpc, hvd, hd, List.append_nil, G.pending, List.length_nil, Nat.add_zero] at hs ha ho hb
  unfold stepWrite
  split
  · apply afterChunk_inv
    · simp [G.vetoed, hv, hd, hs]
    · simp [hd, ha]
    · simp [G.vetoed, hv, ho]
    · exact h.srcBound
    · exact hq
    · exact hv
    · exact hd
    · exact approved_cons_write _ _ h.approved hhead
  · rename_i k hk
    refine ⟨?_, ?_, ?_, ?_, h.srcBound, ?_, ?_, ?_, ?_, ?_⟩
    · simp [finishWith, G.rem, G.vetoed, hv, hs]
    · have : (d.take k).length + (d.drop k).length = d.length := by
        rw [← List.length_append, List.take_append_drop]
      simp only [finishWith, G.pending, List.flatten_append, List.flatten_cons, List.flatten_nil,
        List.append_nil, List.length_append, List.length_nil]
      omega
    · simp [finishWith, G.vetoed, hv, ho]
    · have : (d.drop k).length ≤ d.length := by simp
      simp only [finishWith, G.rem, G.vetoed, hv, Option.getD_none, List.nil_append, List.length_drop] at this ⊢
      omega
    · simp [finishWith, PcOk]
    · simp [finishWith, hv]
    · simp [finishWith]
    · simp [finishWith, hv]
    · exact approved_cons_write _ _ h.approved hhead

theorem gstep_inv {buf : Nat} (sc dc : Bool) (g : G) (h : Inv buf g) : Inv buf (gstep sc dc g).1 := by
  unfold gstep
  split
  · rename_i hpc; exact stepRead_inv sc g h hpc
  · rename_i d e hpc; exact stepLog_inv g d e h hpc
  · rename_i d e hpc; exact stepWrite_inv dc g d e h hpc
  · rename_i o hpc
    have hp := h.pcOk
    simp only [PcOk, hpc] at hp
    refine ⟨?_, ?_, h.offer, ?_, h.srcBound, ?_, h.vetoIff, h.dropOut, h.vetoHead, h.approved⟩
    · have := h.stream; simpa [G.rem, G.vetoed, hpc] using this
    · have := h.account; simpa [G.pending, hpc] using this
    · have := h.bound; simpa [G.rem, G.vetoed, hpc] using this
    · simp [PcOk, hp]
  · exact h

theorem init_inv {buf : Nat} (src : List Rd) (verd : List Bool) (wres : List (Option Nat))
    (hb : ∀ r ∈ src, r.data.length ≤ buf) : Inv buf (G.init src verd wres) := by
  refine ⟨?_, ?_, ?_, ?_, hb, ?_, ?_, ?_, ?_, ?_⟩ <;>
    simp [G.init, G.rem, G.vetoed, G.pending, PcOk, Approved]

/-- the source is never rewritten: what has been read plus what is left is constant -/
theorem gstep_source (sc dc : Bool) (g : G) : (gstep sc dc g).1.source = g.source := by
  unfold gstep
  split
  · have := nextRead_data sc g.src
    unfold stepRead
    dsimp only
    split
    · generalize hr : nextRead sc g.src = r at *
      cases he : r.1.err with
      | none => simp [afterChunk, he, G.source, ← this]
      | some b => cases b <;> simp [afterChunk, finishWith, he, G.source, ← this]
    · simp [G.source, ← this]
  · unfold stepLog; split <;> simp [finishWith, G.source]
  · rename_i d e _
    unfold stepWrite
    split
    · cases e with
      | none => simp [afterChunk, G.source]
      | some b => cases b <;> simp [afterChunk, finishWith, G.source]
    · simp [finishWith, G.source]
  · simp [G.source]
  · rfl

/-! ### what a step does to `out`, `trace`, `logged` (field lemmas) -/

theorem afterChunk_fields (g : G) (e : Option Bool) :
    (afterChunk g e).trace = g.trace ∧ (afterChunk g e).logged = g.logged ∧
    (afterChunk g e).written = g.written ∧ (afterChunk g e).src = g.src ∧
    (afterChunk g e).verd = g.verd ∧ (afterChunk g e).wres = g.wres ∧
    ((afterChunk g e).out = g.out ∧ e = none ∨ (afterChunk g e).out = some .done ∧ e = some true ∨
      (afterChunk g e).out = some .readErr ∧ e = some false) := by
  cases e with
  | none => simp [afterChunk]
  | some b => cases b <;> simp [afterChunk, finishWith]

theorem afterChunk_out (g : G) (e : Option Bool) :
    (afterChunk g e).out = g.out ∨ (afterChunk g e).out = some .done ∨ (afterChunk g e).out = some .readErr := by
  cases e with
  | none => simp [afterChunk]
  | some b => cases b <;> simp [afterChunk, finishWith]

theorem stepRead_out (c : Bool) (g : G) :
    (stepRead c g).out = g.out ∨ (stepRead c g).out = some .done ∨ (stepRead c g).out = some .readErr := by
  unfold stepRead; dsimp only
  split
  · exact afterChunk_out _ _
  · exact Or.inl rfl

theorem stepWrite_out (c : Bool) (g : G) (d : Bytes) (e : Option Bool) :
    (stepWrite c g d e).out = g.out ∨ (stepWrite c g d e).out = some .done ∨
      (stepWrite c g d e).out = some .readErr ∨ (stepWrite c g d e).out = some .writeErr := by
  unfold stepWrite
  split
  · have hx := afterChunk_out ({ g with wres := g.wres.tail, written := g.written ++ [d], trace := .write d.length d.length :: g.trace } : G) e
    rcases hx with h | h | h
    · exact Or.inl h
    · exact Or.inr (Or.inl h)
    · exact Or.inr (Or.inr (Or.inl h))
  · exact Or.inr (Or.inr (Or.inr (by simp [finishWith])))

/-- under the invariant: a result, once there, stays; a new `disconnect` comes with `refused` -/
theorem gstep_out_inv {buf : Nat} (sc dc : Bool) (g : G) (hi : Inv buf g) (o : Out)
    (h : (gstep sc dc g).1.out = some o) :
    g.out = some o ∨ (g.out = none ∧ (o = .disconnect ↔ (gstep sc dc g).2 = .refused)) := by
  have hp := hi.pcOk
  cases hpc : g.pc with
  | read =>
    simp only [PcOk, hpc] at hp
    have e1 : gstep sc dc g = (stepRead sc g, .none) := by simp [gstep, hpc]
    rw [e1] at h ⊢
    simp only at h
    right; refine ⟨hp, ?_⟩
    rcases stepRead_out sc g with h' | h' | h'
    · rw [h', hp] at h; cases h
    · rw [h'] at h; cases h; simp
    · rw [h'] at h; cases h; simp
  | log d e =>
    simp only [PcOk, hpc] at hp
    have e1 : gstep sc dc g = (stepLog g d e, if headV g.verd then .none else .refused) := by
      simp [gstep, hpc]
    rw [e1] at h ⊢
    simp only at h
    right; refine ⟨hp.1, ?_⟩
    unfold stepLog at h
    by_cases hv : headV g.verd = true
    · rw [if_pos hv] at h; simp [hp.1] at h
    · rw [if_neg hv] at h; simp [finishWith] at h; simp [hv, ← h]
  | write d e =>
    simp only [PcOk, hpc] at hp
    have e1 : gstep sc dc g = (stepWrite dc g d e, .none) := by simp [gstep, hpc]
    rw [e1] at h ⊢
    simp only at h
    right; refine ⟨hp.1, ?_⟩
    rcases stepWrite_out dc g d e with h' | h' | h' | h'
    · rw [h', hp.1] at h; cases h
    · rw [h'] at h; cases h; simp
    · rw [h'] at h; cases h; simp
    · rw [h'] at h; cases h; simp
  | ret o' =>
    have e1 : gstep sc dc g = ({ g with pc := .fin }, .sent o') := by simp [gstep, hpc]
    rw [e1] at h
    left; simpa using h
  | fin =>
    have e1 : gstep sc dc g = (g, .none) := by simp [gstep, hpc]
    rw [e1] at h
    left; simpa using h

theorem gstep_keeps_out {buf : Nat} (sc dc : Bool) (g : G) (hi : Inv buf g) (o : Out)
    (h : g.out = some o) : (gstep sc dc g).1.out = some o := by
  have hp := hi.pcOk
  unfold gstep
  split
  · rename_i h1; simp [PcOk, h1, h] at hp
  · rename_i d e h1; simp [PcOk, h1, h] at hp
  · rename_i d e h1; simp [PcOk, h1, h] at hp
  · simpa using h
  · simpa using h

/-! ### the logger calls recorded in the trace -/

structure LInv (buf : Nat) (g : G) : Prop where
  sum : approvedSum (logsOf g.trace) = g.logged
  bnd : ∀ p ∈ logsOf g.trace, 1 ≤ p.1 ∧ p.1 ≤ buf
  tl : ∀ p ∈ (logsOf g.trace).tail, p.2 = true
  hd : g.out ≠ some .disconnect → ∀ p ∈ logsOf g.trace, p.2 = true

theorem LInv.transfer {buf : Nat} {g g' : G} (hl : LInv buf g)
    (htr : logsOf g'.trace = logsOf g.trace) (hlg : g'.logged = g.logged)
    (hout : g.out = some .disconnect → g'.out = some .disconnect) : LInv buf g' := by
  refine ⟨by rw [htr, hlg]; exact hl.sum, by rw [htr]; exact hl.bnd, by rw [htr]; exact hl.tl, ?_⟩
  intro hne
  rw [htr]
  exact hl.hd (fun h => hne (hout h))

theorem stepRead_fields (c : Bool) (g : G) :
    (stepRead c g).trace = .read (nextRead c g.src).1.data.length (nextRead c g.src).1.err :: g.trace ∧
    (stepRead c g).logged = g.logged ∧ (stepRead c g).written = g.written ∧
    (stepRead c g).verd = g.verd ∧ (stepRead c g).wres = g.wres ∧
    (stepRead c g).src = (nextRead c g.src).2 := by
  unfold stepRead; dsimp only
  split
  · obtain ⟨h1, h2, h3, h4, h5, h6, _⟩ := afterChunk_fields
      { g with src := (nextRead c g.src).2, consumed := g.consumed ++ (nextRead c g.src).1.data,
               trace := .read (nextRead c g.src).1.data.length (nextRead c g.src).1.err :: g.trace }
      (nextRead c g.src).1.err
    exact ⟨h1, h2, h3, h5, h6, h4⟩
  · simp

theorem stepWrite_fields (c : Bool) (g : G) (d : Bytes) (e : Option Bool) :
    (∃ k, (stepWrite c g d e).trace = .write d.length k :: g.trace) ∧
    (stepWrite c g d e).logged = g.logged ∧ (stepWrite c g d e).verd = g.verd ∧
    (stepWrite c g d e).src = g.src := by
  unfold stepWrite
  split
  · obtain ⟨h1, h2, _, h4, h5, _, _⟩ := afterChunk_fields
      { g with wres := g.wres.tail, written := g.written ++ [d],
               trace := .write d.length d.length :: g.trace } e
    exact ⟨⟨_, h1⟩, h2, h5, h4⟩
  · exact ⟨⟨_, rfl⟩, rfl, rfl, rfl⟩

theorem gstep_linv {buf : Nat} (sc dc : Bool) (g : G) (hi : Inv buf g) (hl : LInv buf g) :
    LInv buf (gstep sc dc g).1 := by
  have keep := gstep_keeps_out sc dc g hi .disconnect
  cases hpc : g.pc with
  | read =>
    have e : (gstep sc dc g).1 = stepRead sc g := by simp [gstep, hpc]
    rw [e] at keep ⊢
    exact hl.transfer (by rw [(stepRead_fields sc g).1]; simp [logsOf]) (stepRead_fields sc g).2.1 keep
  | write d e =>
    have e' : (gstep sc dc g).1 = stepWrite dc g d e := by simp [gstep, hpc]
    rw [e'] at keep ⊢
    obtain ⟨⟨k, hk⟩, h2, _⟩ := stepWrite_fields dc g d e
    exact hl.transfer (by rw [hk]; simp [logsOf]) h2 keep
  | ret o =>
    have e' : (gstep sc dc g).1 = { g with pc := .fin } := by simp [gstep, hpc]
    rw [e']
    exact hl.transfer rfl rfl (fun h => h)
  | fin =>
    have e' : (gstep sc dc g).1 = g := by simp [gstep, hpc]
    rw [e']; exact hl
  | log d e =>
    have e' : (gstep sc dc g).1 = stepLog g d e := by simp [gstep, hpc]
    rw [e']
    have hp := hi.pcOk
    simp only [PcOk, hpc] at hp
    obtain ⟨hq, hne⟩ := hp
    have hb := hi.bound
    simp only [G.rem, hpc] at hb
    have hpos : 1 ≤ d.length := by
      cases d with
      | nil => exact absurd rfl hne
      | cons a l => simp
    have hall := hl.hd (by rw [hq]; simp)
    unfold stepLog
    split
    · rename_i hv
      refine ⟨?_, ?_, ?_, ?_⟩
      · have := hl.sum; simp [logsOf, approvedSum, hv, this]; omega
      · intro p hp
        simp only [logsOf, List.mem_cons] at hp
        rcases hp with rfl | hp
        · exact ⟨hpos, hb⟩
        · exact hl.bnd p hp
      · intro p hp; simp only [logsOf, List.tail_cons] at hp; exact hall p hp
      · intro _ p hp
        simp only [logsOf, List.mem_cons] at hp
        rcases hp with rfl | hp
        · exact hv
        · exact hall p hp
    · rename_i hv
      have hv' : headV g.verd = false := by simpa using hv
      refine ⟨?_, ?_, ?_, ?_⟩
      · have := hl.sum; simp [finishWith, logsOf, approvedSum, hv', this]
      · intro p hp
        simp only [finishWith, logsOf, List.mem_cons] at hp
        rcases hp with rfl | hp
        · exact ⟨hpos, hb⟩
        · exact hl.bnd p hp
      · intro p hp; simp only [finishWith, logsOf, List.tail_cons] at hp; exact hall p hp
      · intro hne'; simp [finishWith] at hne'

theorem init_linv {buf : Nat} (src : List Rd) (verd : List Bool) (wres : List (Option Nat)) :
    LInv buf (G.init src verd wres) := by
  refine ⟨?_, ?_, ?_, ?_⟩ <;> simp [G.init, logsOf, approvedSum]

/-! ### completeness: a source that ends with EOF, a logger that approves, a sink that accepts -/

/-- no read error; EOF only with the last entry of the script -/
def CleanSrc : List Rd → Prop
  | [] => True
  | [r] => r.err ≠ some false
  | r :: r' :: rs => r.err = none ∧ CleanSrc (r' :: rs)

def PendingOk (g : G) : Prop :=
  match g.pc with
  | .log _ e => e = none ∨ (e = some true ∧ g.src = [])
  | .write _ e => e = none ∨ (e = some true ∧ g.src = [])
  | _ => True

structure Clean (g : G) : Prop where
  src : CleanSrc g.src
  verd : ∀ b ∈ g.verd, b = true
  wres : ∀ w ∈ g.wres, w = none
  pend : PendingOk g
  out : g.out = none ∨ (g.out = some .done ∧ g.src = [])

theorem headV_true {l : List Bool} (h : ∀ b ∈ l, b = true) : headV l = true := by
  cases l with
  | nil => rfl
  | cons b t => exact h b (by simp)

theorem headW_none {l : List (Option Nat)} (h : ∀ w ∈ l, w = none) : headW l = none := by
  cases l with
  | nil => rfl
  | cons b t => exact h b (by simp)

theorem cleanSrc_next {src : List Rd} (h : CleanSrc src) :
    CleanSrc (nextRead false src).2 ∧
    ((nextRead false src).1.err = none ∨ ((nextRead false src).1.err = some true ∧ (nextRead false src).2 = [])) := by
  unfold nextRead
  simp only [Bool.false_eq_true, ↓reduceIte]
  cases src with
  | nil => simp [CleanSrc]
  | cons r rs =>
    cases rs with
    | nil =>
      simp only [CleanSrc] at h
      refine ⟨by simp [CleanSrc], ?_⟩
      cases he : r.err with
      | none => simp
      | some b => cases b <;> simp_all
    | cons r' rs' =>
      simp only [CleanSrc] at h
      exact ⟨h.2, Or.inl h.1⟩

theorem afterChunk_clean (g : G) (e : Option Bool) (hs : CleanSrc g.src)
    (hv : ∀ b ∈ g.verd, b = true) (hw : ∀ w ∈ g.wres, w = none) (ho : g.out = none)
    (he : e = none ∨ (e = some true ∧ g.src = [])) : Clean (afterChunk g e) := by
  rcases he with rfl | ⟨rfl, hnil⟩
  · exact ⟨hs, hv, hw, by simp [afterChunk, PendingOk], Or.inl (by simpa [afterChunk] using ho)⟩
  · exact ⟨hs, hv, hw, by simp [afterChunk, finishWith, PendingOk],
      Or.inr ⟨by simp [afterChunk, finishWith], by simpa [afterChunk, finishWith] using hnil⟩⟩

/-- with nothing closed, a clean direction stays clean -/
theorem gnext_clean {buf : Nat} (g : G) (hi : Inv buf g) (hc : Clean g) : Clean (gstep false false g).1 := by
  have hp := hi.pcOk
  cases hpc : g.pc with
  | read =>
    have e : (gstep false false g).1 = stepRead false g := by simp [gstep, hpc]
    rw [e]
    simp only [PcOk, hpc] at hp
    obtain ⟨hn1, hn2⟩ := cleanSrc_next hc.src
    unfold stepRead; dsimp only
    split
    · exact afterChunk_clean _ _ hn1 hc.verd hc.wres hp hn2
    · exact ⟨hn1, hc.verd, hc.wres, by simpa [PendingOk] using hn2, Or.inl hp⟩
  | log d e =>
    have e' : (gstep false false g).1 = stepLog g d e := by simp [gstep, hpc]
    rw [e']
    simp only [PcOk, hpc] at hp
    have hpe := hc.pend
    simp only [PendingOk, hpc] at hpe
    unfold stepLog
    rw [if_pos (headV_true hc.verd)]
    exact ⟨hc.src, fun b hb => hc.verd b (List.mem_of_mem_tail hb), hc.wres,
      by simpa [PendingOk] using hpe, Or.inl hp.1⟩
  | write d e =>
    have e' : (gstep false false g).1 = stepWrite false g d e := by simp [gstep, hpc]
    rw [e']
    simp only [PcOk, hpc] at hp
    have hpe := hc.pend
    simp only [PendingOk, hpc] at hpe
    unfold stepWrite
    simp only [Bool.false_eq_true, ↓reduceIte, headW_none hc.wres]
    exact afterChunk_clean _ _ hc.src hc.verd (fun w hw => hc.wres w (List.mem_of_mem_tail hw)) hp.1 hpe
  | ret o =>
    have e' : (gstep false false g).1 = { g with pc := .fin } := by simp [gstep, hpc]
    rw [e']
    exact ⟨hc.src, hc.verd, hc.wres, by simp [PendingOk], hc.out⟩
  | fin =>
    have e' : (gstep false false g).1 = g := by simp [gstep, hpc]
    rw [e']; exact hc

theorem init_clean (src : List Rd) (verd : List Bool) (wres : List (Option Nat))
    (hs : CleanSrc src) (hv : ∀ b ∈ verd, b = true) (hw : ∀ w ∈ wres, w = none) :
    Clean (G.init src verd wres) :=
  ⟨hs, hv, hw, by simp [G.init, PendingOk], Or.inl rfl⟩

/-- a clean direction that has returned has forwarded everything its source produced -/
theorem clean_complete {buf : Nat} (g : G) (hi : Inv buf g) (hc : Clean g) (hf : g.out ≠ none) :
    g.out = some .done ∧ g.written.flatten = g.source ∧ g.logged = g.source.length ∧ g.inflight = 0 := by
  rcases hc.out with h | ⟨h, hnil⟩
  · exact absurd h hf
  · have hv : g.veto = none := by
      cases hv : g.veto with
      | none => rfl
      | some d => have := hi.vetoIff.mp (by simp [hv]); rw [h] at this; cases this
    have hd : g.dropped = [] := by
      cases hd : g.dropped with
      | nil => rfl
      | cons a l => have := hi.dropOut (by simp [hd]); rw [h] at this; cases this
    have hp := hi.pcOk
    have hs := hi.stream
    have ha := hi.account
    have hrem : g.rem = [] ∧ g.pending = [] := by
      cases hpc : g.pc with
      | read => simp [PcOk, hpc, h] at hp
      | log d e => simp [PcOk, hpc, h] at hp
      | write d e => simp [PcOk, hpc, h] at hp
      | ret o => simp [G.rem, G.pending, hpc, G.vetoed, hv, hd]
      | fin => simp [G.rem, G.pending, hpc, G.vetoed, hv, hd]
    rw [hrem.1, List.append_nil] at hs
    rw [hrem.2, hd] at ha
    refine ⟨h, ?_, ?_, ?_⟩
    · simp [G.source, hnil, hs]
    · simp [G.source, hnil, ← hs, ha]
    · simp [G.inflight, hrem.2, hd]

/-! ### termination of the loop run alone -/

def measure (g : G) : Nat :=
  3 * g.src.length + (match g.pc with | .log _ _ => 2 | .write _ _ => 1 | _ => 0)

theorem gnext_measure {buf : Nat} (g : G) (hi : Inv buf g) (ho : g.out = none) :
    (gnext g).out ≠ none ∨ measure (gnext g) < measure g := by
  have hp := hi.pcOk
  unfold gnext
  cases hpc : g.pc with
  | read =>
    have e : (gstep false false g).1 = stepRead false g := by simp [gstep, hpc]
    rw [e]
    unfold stepRead; dsimp only
    cases hs : g.src with
    | nil =>
      left
      simp [nextRead, afterChunk, finishWith]
    | cons r rs =>
      simp only [nextRead, Bool.false_eq_true, ↓reduceIte]
      split
      · cases he : r.err with
        | none => right; simp [afterChunk, measure, hpc, hs]
        | some b => left; cases b <;> simp [afterChunk, finishWith]
      · right; simp [measure, hpc, hs]; omega
  | log d e =>
    have e' : (gstep false false g).1 = stepLog g d e := by simp [gstep, hpc]
    rw [e']
    unfold stepLog
    split
    · right; simp [measure, hpc]
    · left; simp [finishWith]
  | write d e =>
    have e' : (gstep false false g).1 = stepWrite false g d e := by simp [gstep, hpc]
    rw [e']
    unfold stepWrite
    split
    · cases e with
      | none => right; simp [afterChunk, measure, hpc]
      | some b => left; cases b <;> simp [afterChunk, finishWith]
    · left; simp [finishWith]
  | ret o => simp [PcOk, hpc, ho] at hp
  | fin => simp [PcOk, hpc, ho] at hp

theorem runG_inv {buf : Nat} (n : Nat) (g : G) (hi : Inv buf g) : Inv buf (runG n g) := by
  induction n generalizing g with
  | zero => exact hi
  | succ n ih => exact ih _ (gstep_inv false false g hi)

theorem runG_linv {buf : Nat} (n : Nat) (g : G) (hi : Inv buf g) (hl : LInv buf g) : LInv buf (runG n g) := by
  induction n generalizing g with
  | zero => exact hl
  | succ n ih => exact ih _ (gstep_inv false false g hi) (gstep_linv false false g hi hl)

theorem runG_clean {buf : Nat} (n : Nat) (g : G) (hi : Inv buf g) (hc : Clean g) : Clean (runG n g) := by
  induction n generalizing g with
  | zero => exact hc
  | succ n ih => exact ih _ (gstep_inv false false g hi) (gnext_clean g hi hc)

theorem runG_source (n : Nat) (g : G) : (runG n g).source = g.source := by
  induction n generalizing g with
  | zero => rfl
  | succ n ih => rw [runG, ih, gnext, gstep_source]

theorem runG_keeps_out {buf : Nat} (n : Nat) (g : G) (hi : Inv buf g) (o : Out) (h : g.out = some o) :
    (runG n g).out = some o := by
  induction n generalizing g with
  | zero => exact h
  | succ n ih => exact ih _ (gstep_inv false false g hi) (gstep_keeps_out false false g hi o h)

theorem runG_returns {buf : Nat} (n : Nat) (g : G) (hi : Inv buf g) (hm : measure g < n) :
    (runG n g).out ≠ none := by
  induction n generalizing g with
  | zero => omega
  | succ n ih =>
    by_cases ho : g.out = none
    · rcases gnext_measure g hi ho with h | h
      · cases hx : (gnext g).out with
        | none => exact absurd hx h
        | some o =>
          rw [runG, runG_keeps_out n (gnext g) (gstep_inv false false g hi) o hx]; simp
      · exact ih _ (gstep_inv false false g hi) (by omega)
    · cases hx : g.out with
      | none => exact absurd hx ho
      | some o => rw [runG_keeps_out (n + 1) g hi o hx]; simp

/-! ### the io.Reader contract -/

theorem splitData_data (buf : Nat) (err : Option Bool) (f : Nat) (d : Bytes) :
    ((splitData buf err f d).map (·.data)).flatten = d := by
  induction f generalizing d with
  | zero => simp [splitData]
  | succ f ih =>
    unfold splitData
    split
    · simp
    · simp [ih]

theorem splitData_bound (buf : Nat) (hb : 1 ≤ buf) (err : Option Bool) (f : Nat) (d : Bytes)
    (h : d.length ≤ f + buf) : ∀ r ∈ splitData buf err f d, r.data.length ≤ buf := by
  induction f generalizing d with
  | zero => intro r hr; simp [splitData] at hr; subst hr; simpa using h
  | succ f ih =>
    intro r hr
    unfold splitData at hr
    split at hr
    · rename_i hle; simp at hr; subst hr; exact hle
    · simp only [List.mem_cons] at hr
      rcases hr with rfl | hr
      · simp; omega
      · exact ih (d.drop buf) (by simp; omega) r hr

theorem deliver_data (buf : Nat) (src : List Rd) :
    ((deliver buf src).map (·.data)).flatten = (src.map (·.data)).flatten := by
  induction src with
  | nil => simp [deliver]
  | cons r rs ih =>
    simp only [deliver, List.flatMap_cons, List.map_append, List.flatten_append, List.map_cons,
      List.flatten_cons] at ih ⊢
    rw [splitData_data, ih]

theorem deliver_bound (buf : Nat) (hb : 1 ≤ buf) (src : List Rd) :
    ∀ r ∈ deliver buf src, r.data.length ≤ buf := by
  intro r hr
  simp only [deliver, List.mem_flatMap] at hr
  obtain ⟨x, _, hx⟩ := hr
  exact splitData_bound buf hb x.err x.data.length x.data (by omega) r hx

/-! ### the two-way relay -/

/-- the relay-level invariant: both directions' invariants, and (with the D11 repair) a
    refusal has closed the connection by the time it is reported -/
structure RInv (buf : Nat) (v : Variant) (s : St) : Prop where
  up : Inv buf s.up
  down : Inv buf s.down
  lup : LInv buf s.up
  ldown : LInv buf s.down
  discUp : v = .fixed → s.up.out = some .disconnect → s.connClosed = true
  discDown : v = .fixed → s.down.out = some .disconnect → s.connClosed = true

theorem applyEff_dirs (v : Variant) (s : St) (e : Eff) :
    (applyEff v s e).up = s.up ∧ (applyEff v s e).down = s.down ∧
    (s.connClosed = true → (applyEff v s e).connClosed = true) ∧
    (v = .fixed → e = .refused → (applyEff v s e).connClosed = true) := by
  cases e with
  | none => simp [applyEff]
  | refused => cases v <;> simp [applyEff]
  | sent o => simp [applyEff]

theorem stepMain_dirs (s : St) :
    (stepMain s).up = s.up ∧ (stepMain s).down = s.down ∧
    (s.connClosed = true → (stepMain s).connClosed = true) := by
  unfold stepMain
  split
  · split <;> simp
  all_goals simp

theorem step_rinv {buf : Nat} (v : Variant) (s : St) (l : Label) (h : RInv buf v s) :
    RInv buf v (step v s l) := by
  cases l with
  | main =>
    obtain ⟨h1, h2, h3⟩ := stepMain_dirs s
    simp only [step]
    exact ⟨by rw [h1]; exact h.up, by rw [h2]; exact h.down, by rw [h1]; exact h.lup,
      by rw [h2]; exact h.ldown, fun hv ho => h3 (h.discUp hv (by rw [← h1]; exact ho)),
      fun hv ho => h3 (h.discDown hv (by rw [← h2]; exact ho))⟩
  | up =>
    simp only [step]
    generalize hr : gstep (s.streamClosed || s.connClosed) s.targetClosed s.up = r
    obtain ⟨h1, h2, h3, h4⟩ := applyEff_dirs v { s with up := r.1 } r.2
    have hi : Inv buf r.1 := by rw [← hr]; exact gstep_inv _ _ _ h.up
    have hl : LInv buf r.1 := by rw [← hr]; exact gstep_linv _ _ _ h.up h.lup
    refine ⟨by rw [h1]; exact hi, by rw [h2]; exact h.down, by rw [h1]; exact hl,
      by rw [h2]; exact h.ldown, ?_, ?_⟩
    · intro hv ho
      rw [h1] at ho
      have ho' : (gstep (s.streamClosed || s.connClosed) s.targetClosed s.up).1.out = some .disconnect := by
        rw [hr]; exact ho
      rcases gstep_out_inv _ _ _ h.up _ ho' with hold | ⟨_, hnew⟩
      · exact h3 (h.discUp hv hold)
      · exact h4 hv (by rw [← hr]; exact hnew.mp rfl)
    · intro hv ho
      rw [h2] at ho
      exact h3 (h.discDown hv ho)
  | down =>
    simp only [step]
    generalize hr : gstep s.targetClosed (s.streamClosed || s.connClosed) s.down = r
    obtain ⟨h1, h2, h3, h4⟩ := applyEff_dirs v { s with down := r.1 } r.2
    have hi : Inv buf r.1 := by rw [← hr]; exact gstep_inv _ _ _ h.down
    have hl : LInv buf r.1 := by rw [← hr]; exact gstep_linv _ _ _ h.down h.ldown
    refine ⟨by rw [h1]; exact h.up, by rw [h2]; exact hi, by rw [h1]; exact h.lup,
      by rw [h2]; exact hl, ?_, ?_⟩
    · intro hv ho
      rw [h1] at ho
      exact h3 (h.discUp hv ho)
    · intro hv ho
      rw [h2] at ho
      have ho' : (gstep s.targetClosed (s.streamClosed || s.connClosed) s.down).1.out = some .disconnect := by
        rw [hr]; exact ho
      rcases gstep_out_inv _ _ _ h.down _ ho' with hold | ⟨_, hnew⟩
      · exact h3 (h.discDown hv hold)
      · exact h4 hv (by rw [← hr]; exact hnew.mp rfl)

theorem run_rinv {buf : Nat} (v : Variant) (sched : List Label) (s : St) (h : RInv buf v s) :
    RInv buf v (run v s sched) := by
  induction sched generalizing s with
  | nil => exact h
  | cons l rest ih => exact ih _ (step_rinv v s l h)

theorem init_rinv {buf : Nat} (v : Variant) (up down : G)
    (hu : Inv buf up) (hd : Inv buf down) (lu : LInv buf up) (ld : LInv buf down)
    (ou : up.out = none) (od : down.out = none) : RInv buf v (St.init up down) :=
  ⟨hu, hd, lu, ld, fun _ h => by simp [St.init, ou] at h, fun _ h => by simp [St.init, od] at h⟩

theorem step_source (v : Variant) (s : St) (l : Label) :
    (step v s l).up.source = s.up.source ∧ (step v s l).down.source = s.down.source := by
  cases l with
  | main => obtain ⟨h1, h2, _⟩ := stepMain_dirs s; simp only [step]; rw [h1, h2]; exact ⟨rfl, rfl⟩
  | up =>
    simp only [step]
    obtain ⟨h1, h2, _⟩ := applyEff_dirs v
      { s with up := (gstep (s.streamClosed || s.connClosed) s.targetClosed s.up).1 }
      (gstep (s.streamClosed || s.connClosed) s.targetClosed s.up).2
    rw [h1, h2]; exact ⟨gstep_source _ _ _, rfl⟩
  | down =>
    simp only [step]
    obtain ⟨h1, h2, _⟩ := applyEff_dirs v
      { s with down := (gstep s.targetClosed (s.streamClosed || s.connClosed) s.down).1 }
      (gstep s.targetClosed (s.streamClosed || s.connClosed) s.down).2
    rw [h1, h2]; exact ⟨rfl, gstep_source _ _ _⟩

theorem run_source (v : Variant) (sched : List Label) (s : St) :
    (run v s sched).up.source = s.up.source ∧ (run v s sched).down.source = s.down.source := by
  induction sched generalizing s with
  | nil => exact ⟨rfl, rfl⟩
  | cons l rest ih =>
    obtain ⟨a, b⟩ := ih (step v s l)
    obtain ⟨c, d⟩ := step_source v s l
    exact ⟨by simp only [run, List.foldl_cons] at a ⊢; rw [a, c], by simp only [run, List.foldl_cons] at b ⊢; rw [b, d]⟩

/-! ### consequences of the invariants, for an arbitrary direction state -/

theorem Inv.prefix_source {buf : Nat} {g : G} (hi : Inv buf g) : g.written.flatten <+: g.source := by
  have hs := hi.stream
  unfold G.source
  rw [← hs, List.append_assoc]
  exact List.prefix_append _ _

theorem Inv.out_none_of_pc {buf : Nat} {g : G} (hi : Inv buf g) :
    (g.pc = .read ∨ (∃ d e, g.pc = .log d e) ∨ (∃ d e, g.pc = .write d e)) → g.out = none := by
  have hp := hi.pcOk
  rintro (h | ⟨d, e, h⟩ | ⟨d, e, h⟩) <;> simp only [PcOk, h] at hp
  · exact hp
  · exact hp.1
  · exact hp.1

theorem Inv.accounting {buf : Nat} {g : G} (hi : Inv buf g) :
    g.logged = g.written.flatten.length + g.inflight ∧
    g.inflight ≤ buf ∧
    (g.out ≠ none → g.inflight ≠ 0 → g.out = some .writeErr) ∧
    g.offered = g.logged + g.vetoed.length ∧ g.vetoed.length ≤ buf := by
  have ha := hi.account
  have hb := hi.bound
  refine ⟨by unfold G.inflight; omega, ?_, ?_, hi.offer, ?_⟩
  · unfold G.inflight G.pending
    cases hpc : g.pc with
    | write d e =>
      have hq := hi.out_none_of_pc (Or.inr (Or.inr ⟨d, e, hpc⟩))
      have hd := (hi.quiet hq).2
      simp only [G.rem, hpc] at hb
      simp only [hd, List.length_nil, Nat.add_zero]; exact hb
    | read => simp only [G.rem, hpc, List.length_append] at hb; simp only [List.length_nil]; omega
    | log d e =>
      have hq := hi.out_none_of_pc (Or.inr (Or.inl ⟨d, e, hpc⟩))
      have hd := (hi.quiet hq).2
      simp [hd]
    | ret o => simp only [G.rem, hpc, List.length_append] at hb; simp only [List.length_nil]; omega
    | fin => simp only [G.rem, hpc, List.length_append] at hb; simp only [List.length_nil]; omega
  · intro ho hne
    have hpend : g.pending = [] := by
      unfold G.pending
      cases hpc : g.pc with
      | write d e => exact absurd (hi.out_none_of_pc (Or.inr (Or.inr ⟨d, e, hpc⟩))) ho
      | _ => rfl
    apply hi.dropOut
    intro hd
    apply hne
    simp [G.inflight, hpend, hd]
  · cases hpc : g.pc with
    | read => simp only [G.rem, hpc, List.length_append] at hb; omega
    | ret o => simp only [G.rem, hpc, List.length_append] at hb; omega
    | fin => simp only [G.rem, hpc, List.length_append] at hb; omega
    | log d e =>
      have hq := hi.out_none_of_pc (Or.inr (Or.inl ⟨d, e, hpc⟩))
      simp [G.vetoed, (hi.quiet hq).1]
    | write d e =>
      have hq := hi.out_none_of_pc (Or.inr (Or.inr ⟨d, e, hpc⟩))
      simp [G.vetoed, (hi.quiet hq).1]

theorem Inv.disconnect_facts {buf : Nat} {g : G} (hi : Inv buf g) (hl : LInv buf g)
    (ho : g.out = some .disconnect) :
    ∃ d, g.veto = some d ∧ g.written.flatten ++ d = g.consumed ∧
      g.trace.head? = some (.log d.length false) ∧ (∀ p ∈ (logsOf g.trace).tail, p.2 = true) := by
  have hsome := hi.vetoIff.mpr ho
  cases hv : g.veto with
  | none => rw [hv] at hsome; cases hsome
  | some d =>
    have hd : g.dropped = [] := by
      cases hd : g.dropped with
      | nil => rfl
      | cons a t => have := hi.dropOut (by simp [hd]); rw [ho] at this; cases this
    have hs := hi.stream
    have hrem : g.rem = d := by
      unfold G.rem
      cases hpc : g.pc with
      | read => have := hi.out_none_of_pc (Or.inl hpc); rw [ho] at this; cases this
      | log d' e => have := hi.out_none_of_pc (Or.inr (Or.inl ⟨d', e, hpc⟩)); rw [ho] at this; cases this
      | write d' e => have := hi.out_none_of_pc (Or.inr (Or.inr ⟨d', e, hpc⟩)); rw [ho] at this; cases this
      | ret o => simp [G.vetoed, hv, hd]
      | fin => simp [G.vetoed, hv, hd]
    rw [hrem] at hs
    exact ⟨d, rfl, hs, hi.vetoHead d hv, hl.tl⟩

theorem obs_check_of_inv {buf : Nat} {g : G} (hi : Inv buf g) (hl : LInv buf g) :
    g.obs.check buf 0 = none ∧ g.obs.check buf 1 = none ∧ (g.inflight = 0 → g.obs.check buf 2 = none) := by
  have hpre := hi.prefix_source
  obtain ⟨ha, hb, _, _, _⟩ := hi.accounting
  have h1 : g.obs.got.isPrefixOf g.obs.sent = true := by
    simp only [G.obs]; exact List.isPrefixOf_iff_prefix.mpr hpre
  have h2 : g.obs.logs.all (fun p => decide (1 ≤ p.1 ∧ p.1 ≤ buf)) = true := by
    simp only [G.obs, List.all_eq_true, decide_eq_true_eq]
    exact hl.bnd
  have h3 : g.obs.logs.tail.all (·.2) = true := by
    simp only [G.obs, List.all_eq_true]
    exact hl.tl
  have h4 : g.obs.got.length ≤ approvedSum g.obs.logs := by
    simp only [G.obs]; rw [hl.sum]; omega
  have h5 : approvedSum g.obs.logs ≤ g.obs.got.length + buf := by
    simp only [G.obs]; rw [hl.sum]; omega
  have h4' := decide_eq_true h4
  have h5' := decide_eq_true h5
  refine ⟨?_, ?_, ?_⟩
  · simp only [Obs.check, h1, h2, h3, h4', h5']; rfl
  · simp only [Obs.check, h1, h2, h3, h4', h5']; rfl
  · intro h0
    have h6 : approvedSum g.obs.logs = g.obs.got.length := by
      simp only [G.obs]; rw [hl.sum]; omega
    have h6' := decide_eq_true h6
    simp only [Obs.check, h1, h2, h3, h4', h5', h6']; rfl

/-! ### the relay started from its scripts; facts about every reachable state -/

/-! ### the relay's inputs -/

/-- everything the environment of one relay decides: per direction the source's read
    results, the logger's verdicts, the sink's write results -/
structure Scripts where
  upSrc : List Rd
  upVerd : List Bool
  upW : List (Option Nat)
  downSrc : List Rd
  downVerd : List Bool
  downW : List (Option Nat)

/-- io.Reader contract: no Read returns more than the buffer it was given -/
def Scripts.Contract (sc : Scripts) : Prop :=
  (∀ r ∈ sc.upSrc, r.data.length ≤ Gen.copyBufSize) ∧ (∀ r ∈ sc.downSrc, r.data.length ≤ Gen.copyBufSize)

def start (sc : Scripts) : St :=
  St.init (G.init sc.upSrc sc.upVerd sc.upW) (G.init sc.downSrc sc.downVerd sc.downW)

/-- the bytes the source of direction `l` produces -/
def Scripts.data (sc : Scripts) : Label → Bytes
  | .down => (sc.downSrc.map (·.data)).flatten
  | _ => (sc.upSrc.map (·.data)).flatten

theorem reachable (v : Variant) (sc : Scripts) (hc : sc.Contract) (sched : List Label) :
    RInv Gen.copyBufSize v (run v (start sc) sched) :=
  run_rinv v sched _ (init_rinv v _ _ (init_inv _ _ _ hc.1) (init_inv _ _ _ hc.2)
    (init_linv _ _ _) (init_linv _ _ _) rfl rfl)

theorem reachable_dir (v : Variant) (sc : Scripts) (hc : sc.Contract) (sched : List Label) (l : Label) :
    Inv Gen.copyBufSize ((run v (start sc) sched).dir l) ∧ LInv Gen.copyBufSize ((run v (start sc) sched).dir l) := by
  have h := reachable v sc hc sched
  cases l <;> exact ⟨by first | exact h.up | exact h.down, by first | exact h.lup | exact h.ldown⟩

theorem source_of_run (v : Variant) (sc : Scripts) (sched : List Label) (l : Label) :
    ((run v (start sc) sched).dir l).source = sc.data l := by
  obtain ⟨h1, h2⟩ := run_source v sched (start sc)
  cases l <;> simp only [St.dir, Scripts.data] <;> (first | rw [h1] | rw [h2]) <;>
    simp [start, St.init, G.init, G.source]


theorem run_flags_mono (v : Variant) (sched : List Label) (s : St) :
    (s.targetClosed = true → (run v s sched).targetClosed = true) ∧
    (s.streamClosed = true → (run v s sched).streamClosed = true) ∧
    (s.connClosed = true → (run v s sched).connClosed = true) := by
  induction sched generalizing s with
  | nil => exact ⟨id, id, id⟩
  | cons l rest ih =>
    obtain ⟨a, b, c⟩ := ih (step v s l)
    have hstep : (s.targetClosed = true → (step v s l).targetClosed = true) ∧
        (s.streamClosed = true → (step v s l).streamClosed = true) ∧
        (s.connClosed = true → (step v s l).connClosed = true) := by
      cases l with
      | main =>
        simp only [step, stepMain]
        split
        · split <;> simp
        all_goals simp_all
      | up =>
        simp only [step]
        generalize gstep (s.streamClosed || s.connClosed) s.targetClosed s.up = r
        cases hr : r.2 with
        | none => simp [applyEff]
        | refused => cases v <;> simp [applyEff]
        | sent o => simp [applyEff]
      | down =>
        simp only [step]
        generalize gstep s.targetClosed (s.streamClosed || s.connClosed) s.down = r
        cases hr : r.2 with
        | none => simp [applyEff]
        | refused => cases v <;> simp [applyEff]
        | sent o => simp [applyEff]
    exact ⟨fun h => a (hstep.1 h), fun h => b (hstep.2.1 h), fun h => c (hstep.2.2 h)⟩

theorem run_clean (v : Variant) (sched : List Label) (s : St) (l : Label)
    (hr : RInv Gen.copyBufSize v s) (hc : Clean (s.dir l))
    (h1 : (run v s sched).targetClosed = false) (h2 : (run v s sched).streamClosed = false)
    (h3 : (run v s sched).connClosed = false) : Clean ((run v s sched).dir l) := by
  induction sched generalizing s with
  | nil => exact hc
  | cons x rest ih =>
    obtain ⟨m1, m2, m3⟩ := run_flags_mono v rest (step v s x)
    have f1 : (step v s x).targetClosed = false := by
      cases h : (step v s x).targetClosed with
      | false => rfl
      | true => have := m1 h; simp only [run, List.foldl_cons] at h1; simp only [run] at this; rw [this] at h1; cases h1
    have f2 : (step v s x).streamClosed = false := by
      cases h : (step v s x).streamClosed with
      | false => rfl
      | true => have := m2 h; simp only [run, List.foldl_cons] at h2; simp only [run] at this; rw [this] at h2; cases h2
    have f3 : (step v s x).connClosed = false := by
      cases h : (step v s x).connClosed with
      | false => rfl
      | true => have := m3 h; simp only [run, List.foldl_cons] at h3; simp only [run] at this; rw [this] at h3; cases h3
    obtain ⟨n1, n2, n3⟩ := run_flags_mono v [x] s
    have g1 : s.targetClosed = false := by
      cases h : s.targetClosed with
      | false => rfl
      | true => have := n1 h; simp only [run, List.foldl_cons, List.foldl_nil] at this; rw [this] at f1; cases f1
    have g2 : s.streamClosed = false := by
      cases h : s.streamClosed with
      | false => rfl
      | true => have := n2 h; simp only [run, List.foldl_cons, List.foldl_nil] at this; rw [this] at f2; cases f2
    have g3 : s.connClosed = false := by
      cases h : s.connClosed with
      | false => rfl
      | true => have := n3 h; simp only [run, List.foldl_cons, List.foldl_nil] at this; rw [this] at f3; cases f3
    apply ih (step v s x) (step_rinv v s x hr) _ h1 h2 h3
    -- one step keeps the direction clean
    cases x with
    | main =>
      obtain ⟨a, b, _⟩ := stepMain_dirs s
      cases l <;> simp only [St.dir, step] at hc ⊢ <;> (first | (rw [a]; exact hc) | (rw [b]; exact hc))
    | up =>
      simp only [step]
      obtain ⟨a, b, _⟩ := applyEff_dirs v
        { s with up := (gstep (s.streamClosed || s.connClosed) s.targetClosed s.up).1 }
        (gstep (s.streamClosed || s.connClosed) s.targetClosed s.up).2
      cases l with
      | down => simp only [St.dir] at hc ⊢; rw [b]; exact hc
      | up =>
        simp only [St.dir] at hc ⊢; rw [a]
        simp only [g1, g2, g3, Bool.or_self]
        exact gnext_clean s.up hr.up hc
      | main =>
        simp only [St.dir] at hc ⊢; rw [a]
        simp only [g1, g2, g3, Bool.or_self]
        exact gnext_clean s.up hr.up hc
    | down =>
      simp only [step]
      obtain ⟨a, b, _⟩ := applyEff_dirs v
        { s with down := (gstep s.targetClosed (s.streamClosed || s.connClosed) s.down).1 }
        (gstep s.targetClosed (s.streamClosed || s.connClosed) s.down).2
      cases l with
      | up => simp only [St.dir] at hc ⊢; rw [a]; exact hc
      | main => simp only [St.dir] at hc ⊢; rw [a]; exact hc
      | down =>
        simp only [St.dir] at hc ⊢; rw [b]
        simp only [g1, g2, g3, Bool.or_self]
        exact gnext_clean s.down hr.down hc

/-- the three script components of direction `l` -/
def Scripts.src (sc : Scripts) : Label → List Rd
  | .down => sc.downSrc
  | _ => sc.upSrc
def Scripts.verd (sc : Scripts) : Label → List Bool
  | .down => sc.downVerd
  | _ => sc.upVerd
def Scripts.wres (sc : Scripts) : Label → List (Option Nat)
  | .down => sc.downW
  | _ => sc.upW


def MainOk (s : St) : Prop :=
  match s.mpc with
  | .recv => s.targetClosed = false ∧ s.streamClosed = false ∧ s.ret = none
  | .closeTarget => s.ret ≠ none ∧ s.streamClosed = false
  | .closeStream => s.ret ≠ none ∧ s.targetClosed = true
  | .closeConn => s.ret = some .disconnect ∧ s.targetClosed = true ∧ s.streamClosed = true
  | .done => s.ret ≠ none ∧ s.targetClosed = true ∧ s.streamClosed = true ∧
      (s.ret = some .disconnect → s.connClosed = true)

theorem step_mainOk (v : Variant) (s : St) (l : Label) (h : MainOk s) : MainOk (step v s l) := by
  cases l with
  | main =>
    simp only [step, stepMain]
    cases hm : s.mpc with
    | recv =>
      simp only [MainOk, hm] at h
      cases hch : s.chan with
      | nil => simpa [MainOk, hm] using h
      | cons o rest => simp [MainOk, h.2.1]
    | closeTarget => simp only [MainOk, hm] at h; simp [MainOk, h.1]
    | closeStream =>
      simp only [MainOk, hm] at h
      by_cases hd : s.ret = some .disconnect
      · simp [MainOk, hd, h.2]
      · simp [MainOk, hd, h.1, h.2]
    | closeConn => simp only [MainOk, hm] at h; simp [MainOk, h.1, h.2.1, h.2.2]
    | done => simpa [MainOk, hm] using h
  | up =>
    simp only [step]
    generalize gstep (s.streamClosed || s.connClosed) s.targetClosed s.up = r
    cases hr : r.2 with
    | none => simpa [applyEff, MainOk] using h
    | sent o => simpa [applyEff, MainOk] using h
    | refused =>
      cases v with
      | pinned => simpa [applyEff, MainOk] using h
      | fixed =>
        simp only [applyEff, MainOk] at h ⊢
        cases hm : s.mpc <;> simp only [hm] at h ⊢ <;> simp_all
  | down =>
    simp only [step]
    generalize gstep s.targetClosed (s.streamClosed || s.connClosed) s.down = r
    cases hr : r.2 with
    | none => simpa [applyEff, MainOk] using h
    | sent o => simpa [applyEff, MainOk] using h
    | refused =>
      cases v with
      | pinned => simpa [applyEff, MainOk] using h
      | fixed =>
        simp only [applyEff, MainOk] at h ⊢
        cases hm : s.mpc <;> simp only [hm] at h ⊢ <;> simp_all


/-! ### the client's conn over several Reads -/

theorem appReads_established_prefix (evs : List RdEv) (c : TcpConn) (he : c.established = true) :
    dataOf (appReads c evs) <+: c.stream.flatten := by
  induction evs generalizing c with
  | nil => simp [appReads, dataOf]
  | cons e es ih =>
    cases e with
    | timeout => simpa [appReads, connRead, dataOf] using ih c he
    | go =>
      cases hs : c.stream with
      | nil =>
        have := ih ⟨true, []⟩ rfl
        simpa [appReads, connRead, he, hs, nextChunk, dataOf] using this
      | cons d r =>
        have := ih ⟨true, r⟩ rfl
        simp only [appReads, connRead, he, hs, nextChunk, dataOf, ↓reduceIte, List.flatten_cons]
        exact (List.prefix_append_right_inj d).mpr this

theorem clientOpen_established_read {cs rest : List Bytes} (h : clientOpen cs = .established rest) :
    ∃ m, Frame.readResponse Frame.chunked cs = .ok (true, m) rest := by
  unfold clientOpen at h
  split at h <;> simp_all

theorem clientOpen_dialError_read {cs : List Bytes} {m : Bytes} (h : clientOpen cs = .dialError m) :
    ∃ rest, Frame.readResponse Frame.chunked cs = .ok (false, m) rest := by
  unfold clientOpen at h
  split at h <;> simp_all

theorem appReads_fresh_prefix (evs : List RdEv) (cs rest : List Bytes)
    (h : clientOpen cs = .established rest) :
    dataOf (appReads ⟨false, cs⟩ evs) <+: rest.flatten := by
  obtain ⟨m, hm⟩ := clientOpen_established_read h
  induction evs with
  | nil => simp [appReads, dataOf]
  | cons e es ih =>
    cases e with
    | timeout => simpa [appReads, connRead, dataOf] using ih
    | go =>
      cases hr : rest with
      | nil =>
        have := appReads_established_prefix es ⟨true, []⟩ rfl
        simpa [appReads, connRead, hm, hr, nextChunk, dataOf] using this
      | cons d r =>
        have := appReads_established_prefix es ⟨true, r⟩ rfl
        simp only [appReads, connRead, hm, hr, nextChunk, dataOf, List.flatten_cons, Bool.false_eq_true, ↓reduceIte]
        exact (List.prefix_append_right_inj d).mpr this

end Hy.Relay
