/-
  C07 proofs, layer 3 (continued): the remaining labels, and the invariant over every schedule.
-/
import Hy.Proofs.UdpSessionStep
namespace Hy.UdpSession
open Hy.UdpAcl (Addr DialRes)

theorem closeA_pcs (s : St) (i : Nat) (b : Bool) :
    (closeA s i b).rl = s.rl ∧ (closeA s i b).sw = s.sw ∧ (closeA s i b).down = s.down ∧
    (closeA s i b).stopped = s.stopped := by
  unfold closeA
  split
  · simp
  · split
    · simp
    · split <;> simp [setEnt, emit]

theorem closeA_evs (s : St) (i : Nat) (b : Bool) (ev : Ev) (h : ev ∈ (closeA s i b).evs) :
    ev ∈ s.evs ∨ ∃ k, ev = .close k := by
  unfold closeA at h
  split at h
  · exact Or.inl h
  · split at h
    · exact Or.inl h
    · split at h
      · exact Or.inl h
      · rename_i k _
        rcases mem_emit h with h1 | h1
        · exact Or.inl h1
        · simp at h1; exact Or.inr ⟨k, h1⟩

theorem closeA_evOk (s : St) (i : Nat) (b : Bool) (k' : Sk) (ev : Ev) (h : ev ∈ (closeA s i b).evs) :
    ev ∈ s.evs ∨ EvOk k' ev := by
  rcases closeA_evs s i b ev h with h1 | ⟨k, h1⟩
  · exact Or.inl h1
  · subst h1; exact Or.inr trivial

/-- closeA i from a state where entry i exists leaves it closed (skeleton view) -/
theorem skCloseA_closed_of_some (k : Sk) (i : Nat) (e' : CoreE) (h : (skCloseA k i).ce i = some e') :
    e'.closed = true := by
  cases hk : k.ce i with
  | none => rw [closeA_none k i i hk] at h; simp at h
  | some e =>
    obtain ⟨e2, he2, hc⟩ := closeA_closed k i e hk
    rw [h] at he2; simp at he2; subst he2; exact hc

theorem inv_rlCloseA (c : Cfg) (s : St) (h : Inv s) : Good s (step c s .rlCloseA) := by
  simp only [step]
  split
  · rename_i i hrl
    have hp := closeA_pcs s i true
    have hns : s.stopped = true → False := by
      intro hst; have := h.stop hst; rw [hrl] at this; simp at this
    have hstep : SkStep (sk s) (skCloseA (sk s) i) := SkStep.closeA i
    refine inv_build' s _ (skCloseA (sk s) i) h ?_ hstep ?_ ?_ ?_ ?_
    · exact sk_closeA s i true
    · trivial
    · show SwOk _ (closeA s i true).sw
      rw [hp.2.1]; exact swOk_mono (hstep.mono h.skI) h.sw
    · intro hst
      have : (closeA s i true).stopped = true := hst
      rw [hp.2.2.2] at this; exact (hns this).elim
    · intro ev hm; exact closeA_evOk s i true _ ev hm
  · exact good_refl h

theorem inv_feedB (c : Cfg) (s : St) (v : Addr) (wok : Bool) (h : Inv s) : Good s (step c s (.feedB v wok)) := by
  simp only [step]
  split
  · rename_i i m hrl
    have hns : s.stopped = true → False := by
      intro hst; have := h.stop hst; rw [hrl] at this; simp at this
    have hrlok := h.rl; rw [hrl] at hrlok
    split
    · exact inv_build s _ h SkStep.same trivial h.sw (fun hst => (hns hst).elim) (fun ev hm => Or.inl hm)
    · rename_i e he
      split
      · exact inv_build s _ h SkStep.same trivial h.sw (fun hst => (hns hst).elim) (fun ev hm => Or.inl hm)
      · rename_i k hconn
        obtain ⟨ce, hce, hsid, _⟩ := hrlok
        rw [sk_ce_some he] at hce; simp at hce; subst hce
        obtain ⟨hk1, hk2, _⟩ := h.skI.conn i e.core k (sk_ce_some he) (by simp [Entry.core, hconn])
        have hop : Opener (sk s) k m.sid := ⟨hk1, e.core, by rw [hk2]; exact sk_ce_some he, hsid⟩
        have hben : sk { setEnt s i { e with acl := (UdpAcl.route c.P c.cap e.acl m.addr v).1 } with rl := RlPc.idle } = sk s :=
          sk_setEnt_benign s i e _ he rfl
        try dsimp only
        split
        · refine inv_build' s _ (sk s) h (by rw [sk_emit]; exact hben) SkStep.same trivial h.sw
            (fun hst => (hns hst).elim) ?_
          intro ev hm
          rcases mem_emit hm with h1 | h1
          · exact Or.inl h1
          · right; split at h1
            · simp at h1; subst h1; trivial
            · simp at h1
        · refine inv_build' s _ (sk s) h (by rw [sk_emit]; exact hben) SkStep.same trivial h.sw
            (fun hst => (hns hst).elim) ?_
          intro ev hm
          rcases mem_emit hm with h1 | h1
          · exact Or.inl h1
          · right
            rw [List.mem_append] at h1
            rcases h1 with h1 | h1
            · split at h1
              · simp at h1; subst h1; trivial
              · simp at h1
            · simp at h1; subst h1; exact hop
  · exact good_refl h

theorem inv_rlStopClose (c : Cfg) (s : St) (i : Nat) (h : Inv s) : Good s (step c s (.rlStopClose i)) := by
  simp only [step]
  split
  · rename_i p hrl
    split
    · rename_i hmem
      have hp := closeA_pcs s i false
      have hns : s.stopped = true → False := by
        intro hst; have := h.stop hst; rw [hrl] at this; simp at this
      have hrlok := h.rl; rw [hrl] at hrlok
      have hstep : SkStep (sk s) (skCloseA (sk s) i) := SkStep.closeA i
      refine inv_build' s _ (skCloseA (sk s) i) h ?_ hstep ?_ ?_ ?_ ?_
      · exact sk_closeA s i false
      · show RlOk _ (RlPc.stopping (p.erase i)) (closeA s i false).down (closeA s i false).stopped
        rw [hp.2.2.1]
        refine ⟨hrlok.1, ?_⟩
        intro j e' hj hcl
        by_cases hji : j = i
        · subst hji
          have := skCloseA_closed_of_some (sk s) j e' hj
          rw [hcl] at this; simp at this
        · rw [closeA_other _ i j hji] at hj
          exact (List.mem_erase_of_ne hji).mpr (hrlok.2 j e' hj hcl)
      · show SwOk _ (closeA s i false).sw
        rw [hp.2.1]; exact swOk_mono (hstep.mono h.skI) h.sw
      · intro hst
        have : (closeA s i false).stopped = true := hst
        rw [hp.2.2.2] at this; exact (hns this).elim
      · intro ev hm; exact closeA_evOk s i false _ ev hm
    · exact good_refl h
  · exact good_refl h

theorem inv_rlStopDone (c : Cfg) (s : St) (h : Inv s) : Good s (step c s .rlStopDone) := by
  simp only [step]
  split
  · rename_i hrl
    have hrlok := h.rl; rw [hrl] at hrlok
    refine inv_build s _ h SkStep.same ?_ h.sw (fun _ => rfl) (fun ev hm => Or.inl hm)
    refine ⟨hrlok.1, rfl, ?_⟩
    intro i e he
    cases hc : e.closed with
    | true => rfl
    | false => have := hrlok.2 i e he hc; simp at this
  · exact good_refl h

/-! ### sweeper -/

theorem inv_tick (c : Cfg) (s : St) (now : Nat) (h : Inv s) : Good s (step c s (.tick now)) := by
  simp only [step]
  split
  · refine inv_build s _ h SkStep.same h.rl ⟨?_, fun _ hi => hi⟩ h.stop (fun ev hm => Or.inl hm)
    intro i hi
    rw [List.mem_filter] at hi
    have h2 := hi.2
    unfold idleAt at h2
    cases he : s.ent i with
    | none => rw [he] at h2; simp at h2
    | some e => exact ⟨e.core, sk_ce_some he, Or.inl (List.mem_filter.mpr hi)⟩
  · exact good_refl h

theorem inv_swClose (c : Cfg) (s : St) (i : Nat) (h : Inv s) : Good s (step c s (.swClose i)) := by
  simp only [step]
  split
  · rename_i now sel p hsw
    split
    · rename_i hmem
      have hp := closeA_pcs s i false
      have hswok := h.sw; rw [hsw] at hswok
      have hstep : SkStep (sk s) (skCloseA (sk s) i) := SkStep.closeA i
      have hm := hstep.mono h.skI
      refine inv_build' s _ (skCloseA (sk s) i) h ?_ hstep ?_ ?_ ?_ ?_
      · exact sk_closeA s i false
      · show RlOk _ (closeA s i false).rl (closeA s i false).down (closeA s i false).stopped
        rw [hp.1, hp.2.2.1, hp.2.2.2]
        exact rlOk_mono hm (noIns_closeA _ i).1 (noIns_closeA _ i).2 h.rl
      · show SwOk _ (SwPc.closing now sel (p.erase i))
        refine ⟨?_, fun j hj => hswok.2 j (List.mem_of_mem_erase hj)⟩
        intro j hj
        obtain ⟨e, he, hd⟩ := hswok.1 j hj
        by_cases hji : j = i
        · subst hji
          obtain ⟨e2, he2, hc2⟩ := closeA_closed (sk s) j e he
          exact ⟨e2, he2, Or.inr hc2⟩
        · refine ⟨e, by rw [closeA_other _ i j hji]; exact he, ?_⟩
          rcases hd with hd | hd
          · exact Or.inl ((List.mem_erase_of_ne hji).mpr hd)
          · exact Or.inr hd
      · intro hst
        have h1 : (closeA s i false).stopped = true := hst
        rw [hp.2.2.2] at h1
        show (closeA s i false).rl = RlPc.done
        rw [hp.1]; exact h.stop h1
      · intro ev hm'; exact closeA_evOk s i false _ ev hm'
    · exact good_refl h
  · exact good_refl h

theorem inv_swDone (c : Cfg) (s : St) (h : Inv s) : Good s (step c s .swDone) := by
  simp only [step]
  split
  · exact inv_build s _ h SkStep.same h.rl trivial h.stop (fun ev hm => Or.inl hm)
  · exact good_refl h

theorem inv_swStop (c : Cfg) (s : St) (h : Inv s) : Good s (step c s .swStop) := by
  simp only [step]
  split
  · split
    · exact inv_build s _ h SkStep.same h.rl trivial h.stop (fun ev hm => Or.inl hm)
    · exact good_refl h
  · exact good_refl h

/-! ### second half of CloseWithErr -/

theorem sk_exitB_state (s : St) (i : Nat) (e : Entry) (es : List Ev) (he : s.ent i = some e)
    (hp : e.exitPending = true) :
    sk (emit { setEnt s i { e with exitPending := false } with tbl := upd s.tbl e.sid none } es) = skExitB (sk s) i := by
  rw [sk_emit]
  unfold skExitB
  rw [sk_ce_some he]
  simp only [Entry.core, hp, if_true]
  unfold sk setEnt
  simp only [Sk.mk.injEq, and_true]
  funext j
  simp only [upd]
  split <;> simp [Entry.core]

theorem inv_exitB (c : Cfg) (s : St) (i : Nat) (h : Inv s) : Good s (step c s (.exitB i)) := by
  simp only [step]
  split
  · rename_i e he
    split
    · rename_i hp
      have hstep : SkStep (sk s) (skExitB (sk s) i) := SkStep.exitB i
      apply inv_build' s _ (skExitB (sk s) i) h (sk_exitB_state s i e _ he hp) hstep
      · exact rlOk_mono (hstep.mono h.skI) (noIns_exitB _ i).1 (noIns_exitB _ i).2 h.rl
      · exact swOk_mono (hstep.mono h.skI) h.sw
      · exact h.stop
      · intro ev hm
        rcases mem_emit hm with h1 | h1
        · exact Or.inl h1
        · simp at h1; subst h1; exact Or.inr trivial
    · exact good_refl h
  · exact good_refl h

/-! ### reply loops -/

theorem inv_loopRead (c : Cfg) (s : St) (i now : Nat) (pkt : Option (Addr × String)) (h : Inv s) :
    Good s (step c s (.loopRead i now pkt)) := by
  simp only [step]
  split
  · rename_i e he
    split
    · rename_i k hlp hconn
      obtain ⟨hk1, hk2, _⟩ := h.skI.conn i e.core k (sk_ce_some he) (by simp [Entry.core, hconn])
      have hop : Opener (sk s) k e.sid := ⟨hk1, e.core, by rw [hk2]; exact sk_ce_some he, rfl⟩
      split
      · rename_i src data
        split
        · have hben : sk (setEnt s i { e with last := now, lp := LoopPc.send }) = sk s :=
            sk_setEnt_benign s i e _ he (by simp only [Entry.core, hlp]; rfl)
          refine inv_build' s _ (sk s) h (by rw [sk_emit]; exact hben) SkStep.same h.rl h.sw h.stop ?_
          intro ev hm
          rcases mem_emit hm with h1 | h1
          · exact Or.inl h1
          · simp at h1; subst h1; exact Or.inr hop
        · exact good_refl h
      · have hben : sk (setEnt s i { e with lp := LoopPc.closing }) = sk s :=
          sk_setEnt_benign s i e _ he (by simp only [Entry.core, hlp]; rfl)
        exact inv_build' s _ (sk s) h hben SkStep.same h.rl h.sw h.stop (fun ev hm => Or.inl hm)
    · exact good_refl h
  · exact good_refl h

theorem inv_loopSent (c : Cfg) (s : St) (i : Nat) (ok : Bool) (h : Inv s) : Good s (step c s (.loopSent i ok)) := by
  simp only [step]
  split
  · rename_i e he
    split
    · rename_i hlp
      have hben : sk (setEnt s i { e with lp := if (ok && !s.down) = true then LoopPc.read else LoopPc.closing }) = sk s := by
        apply sk_setEnt_benign s i e _ he
        simp only [Entry.core, hlp]
        split <;> rfl
      exact inv_build' s _ (sk s) h hben SkStep.same h.rl h.sw h.stop (fun ev hm => Or.inl hm)
    · exact good_refl h
  · exact good_refl h

theorem sk_off_state (s1 : St) (i : Nat) (e1 : Entry) (he : s1.ent i = some e1) :
    sk (setEnt s1 i { e1 with lp := LoopPc.off }) = skOff (sk s1) i := by
  unfold skOff
  rw [sk_ce_some he]
  simp only
  rw [sk_setEnt]
  simp [Entry.core]

theorem inv_loopCloseA (c : Cfg) (s : St) (i : Nat) (h : Inv s) : Good s (step c s (.loopCloseA i)) := by
  simp only [step]
  split
  · rename_i e he
    split
    · rename_i hlp
      have hp := closeA_pcs s i true
      have hstepA : SkStep (sk s) (skCloseA (sk s) i) := SkStep.closeA i
      split
      · rename_i e1 he1
        have hstep : SkStep (sk s) (skOff (skCloseA (sk s) i) i) := SkStep.closeOff i
        have hsk : sk (setEnt (closeA s i true) i { e1 with lp := LoopPc.off }) = skOff (skCloseA (sk s) i) i := by
          rw [sk_off_state _ i e1 he1, sk_closeA]
        have hm := hstep.mono h.skI
        have hn : NoIns (sk s) (skOff (skCloseA (sk s) i) i) := noIns_trans (noIns_closeA _ i) (noIns_off _ i)
        apply inv_build' s _ _ h hsk hstep
        · show RlOk _ (closeA s i true).rl (closeA s i true).down (closeA s i true).stopped
          rw [hp.1, hp.2.2.1, hp.2.2.2]; exact rlOk_mono hm hn.1 hn.2 h.rl
        · show SwOk _ (closeA s i true).sw
          rw [hp.2.1]; exact swOk_mono hm h.sw
        · intro hst
          have h1 : (closeA s i true).stopped = true := hst
          rw [hp.2.2.2] at h1
          show (closeA s i true).rl = RlPc.done
          rw [hp.1]; exact h.stop h1
        · intro ev hm'; exact closeA_evOk s i true _ ev hm'
      · -- unreachable (closeA keeps the entry), but harmless
        have hm := hstepA.mono h.skI
        apply inv_build' s _ _ h (sk_closeA s i true) hstepA
        · rw [hp.1, hp.2.2.1, hp.2.2.2]; exact rlOk_mono hm (noIns_closeA _ i).1 (noIns_closeA _ i).2 h.rl
        · rw [hp.2.1]; exact swOk_mono hm h.sw
        · intro hst; rw [hp.2.2.2] at hst; rw [hp.1]; exact h.stop hst
        · intro ev hm'; exact closeA_evOk s i true _ ev hm'
    · exact good_refl h
  · exact good_refl h

/-! ### every label, every schedule -/

theorem good_step (c : Cfg) (s : St) (l : Label) (h : Inv s) : Good s (step c s l) := by
  cases l with
  | recv m => exact inv_recv c s m h
  | connLost => exact inv_connLost c s h
  | recvErr => exact inv_recvErr c s h
  | lookup => exact inv_lookup c s h
  | insert now => exact inv_insert c s now h
  | feedA now d => exact inv_feedA c s now d h
  | rlCloseA => exact inv_rlCloseA c s h
  | feedB v wok => exact inv_feedB c s v wok h
  | rlStopClose i => exact inv_rlStopClose c s i h
  | rlStopDone => exact inv_rlStopDone c s h
  | tick now => exact inv_tick c s now h
  | swClose i => exact inv_swClose c s i h
  | swDone => exact inv_swDone c s h
  | swStop => exact inv_swStop c s h
  | exitB i => exact inv_exitB c s i h
  | loopRead i now pkt => exact inv_loopRead c s i now pkt h
  | loopSent i ok => exact inv_loopSent c s i ok h
  | loopCloseA i => exact inv_loopCloseA c s i h

theorem inv_step (c : Cfg) (s : St) (l : Label) (h : Inv s) : Inv (step c s l) := (good_step c s l h).1

theorem mono_step (c : Cfg) (s : St) (l : Label) (h : Inv s) : Mono (sk s) (sk (step c s l)) :=
  (good_step c s l h).2.mono h.skI

theorem inv_run (c : Cfg) (sched : List Label) : ∀ s, Inv s → Inv (run c s sched) := by
  induction sched with
  | nil => intro s h; exact h
  | cons l rest ih => intro s h; exact ih _ (inv_step c s l h)

theorem mono_run (c : Cfg) (sched : List Label) : ∀ s, Inv s → Mono (sk s) (sk (run c s sched)) := by
  induction sched with
  | nil => intro s _; exact Mono.refl _
  | cons l rest ih => intro s h; exact (mono_step c s l h).trans (ih _ (inv_step c s l h))

theorem run_append (c : Cfg) (s : St) (a b : List Label) : run c s (a ++ b) = run c (run c s a) b := by
  simp [run, List.foldl_append]

end Hy.UdpSession
