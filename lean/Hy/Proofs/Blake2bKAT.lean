/-
  Kernel-checked known answers for the Lean BLAKE2b (Hy/Crypto/Blake2b.lean): the kernel
  itself evaluates the function (`decide +kernel`: plain definitional unfolding, no
  native code, no extra axiom).  One-block inputs only — each costs the kernel ~10 s; the
  multi-block answers are checked by `#guard` in Blake2b.lean and differentially on every
  run (driver op `hash`, and tools/hv/props/C13.py against hashlib).
-/
import Hy.Crypto.Blake2b
namespace Hy.Blake2b

/-- RFC 7693, Appendix A: BLAKE2b-512("abc") -/
theorem kat_rfc7693_abc : toHex (hash 64 (bytesOfString "abc")) =
    "ba80a53f981c4d0d6a2797b69f12f6e94c212f14685ac4b74b12bb6fdbffa2d17d87c5392aab792dc252d5de4533cc9518d38aa8dbf1925ab92386edd4009923" := by
  decide +kernel

/-- hashlib.blake2b(b"abc", digest_size=32) -/
theorem kat_256_abc : toHex (blake2b256 (bytesOfString "abc")) =
    "bddd813c634239723171ef3fee98579b94964e3bb1cb3e427262c8c068d52319" := by
  decide +kernel

end Hy.Blake2b
