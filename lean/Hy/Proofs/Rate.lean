/-
  Helper lemmas for C10 (Hy.Model.Rate): decimal codec round trip, ParseUint range,
  case analysis of the two rate rules.
-/
import Hy.Model.Rate
namespace Hy.Rate
open Hy

/-! ### decimal digits -/

/-- left-to-right Horner value of a digit list -/
def valOf (acc : Nat) (ds : List Nat) : Nat := ds.foldl (fun a d => a * 10 + d) acc

@[simp] theorem valOf_nil (acc : Nat) : valOf acc [] = acc := rfl
@[simp] theorem valOf_cons (acc d : Nat) (ds : List Nat) :
    valOf acc (d :: ds) = valOf (acc * 10 + d) ds := rfl

theorem valOf_append (acc : Nat) (xs ys : List Nat) :
    valOf acc (xs ++ ys) = valOf (valOf acc xs) ys := by
  simp [valOf, List.foldl_append]

theorem valOf_ge (acc : Nat) (ds : List Nat) : acc ≤ valOf acc ds := by
  induction ds generalizing acc with
  | nil => simp
  | cons d ds ih =>
    have := ih (acc * 10 + d)
    simp only [valOf_cons]; omega

theorem decDigits_lt (n : Nat) : ∀ d ∈ decDigits n, d < 10 := by
  induction n using Nat.strongRecOn with
  | _ n ih =>
    intro d hd
    rw [decDigits] at hd
    split at hd
    · simp at hd; omega
    · rename_i h
      rcases List.mem_append.mp hd with h1 | h1
      · exact ih (n / 10) (by omega) d h1
      · simp at h1; omega

theorem decDigits_ne_nil (n : Nat) : decDigits n ≠ [] := by
  rw [decDigits]; split <;> simp

theorem valOf_decDigits (n : Nat) : valOf 0 (decDigits n) = n := by
  induction n using Nat.strongRecOn with
  | _ n ih =>
    rw [decDigits]
    split
    · simp
    · rename_i h
      rw [valOf_append, ih (n / 10) (by omega)]
      simp only [valOf_cons, valOf_nil]; omega

theorem digitByte_val {d : Nat} (h : d < 10) : (digitByte d).val = 48 + d := by
  simp only [digitByte, byte_val]; omega

/-! ### ParseUint on digit strings -/

theorem parseGo_digits (ds : List Nat) : ∀ (acc : Nat), (∀ d ∈ ds, d < 10) →
    valOf acc ds ≤ U64Max → parseGo acc (ds.map digitByte) = (valOf acc ds, .none) := by
  induction ds with
  | nil => intro acc _ _; rfl
  | cons d ds ih =>
    intro acc hd hv
    have hd10 : d < 10 := hd d (by simp)
    have hge := valOf_ge (acc * 10 + d) ds
    simp only [valOf_cons] at hv
    have hb := digitByte_val hd10
    simp only [List.map_cons, parseGo, hb]
    have h1 : ¬ cutoff ≤ acc := by simp only [cutoff, U64Max] at *; omega
    have h2 : ¬ U64Max < acc * 10 + (48 + d - 48) := by simp only [U64Max] at *; omega
    rw [if_pos (by omega), if_neg h1]
    simp only [h2, if_false]
    have : 48 + d - 48 = d := by omega
    rw [this, valOf_cons]
    exact ih _ (fun x hx => hd x (by simp [hx])) hv

/-- every value ParseUint can return fits uint64 -/
theorem parseGo_le (s : Bytes) : ∀ acc, acc ≤ U64Max → (parseGo acc s).1 ≤ U64Max := by
  induction s with
  | nil => intro acc h; exact h
  | cons c cs ih =>
    intro acc h
    simp only [parseGo]
    split
    · split
      · exact Nat.le_refl _
      · split
        · exact Nat.le_refl _
        · exact ih _ (by omega)
    · exact Nat.zero_le _

theorem parseUintE_format (n : Nat) (h : n ≤ U64Max) : parseUintE (formatUint n) = (n, .none) := by
  have hne : formatUint n ≠ [] := by
    simp only [formatUint, ne_eq, List.map_eq_nil_iff]; exact decDigits_ne_nil n
  unfold parseUintE
  rw [if_neg hne]
  unfold formatUint
  rw [parseGo_digits _ 0 (decDigits_lt n) (by rw [valOf_decDigits]; exact h), valOf_decDigits]

theorem formatUint_all_digits (n : Nat) : ∀ b ∈ formatUint n, 48 ≤ b.val ∧ b.val ≤ 57 := by
  intro b hb
  simp only [formatUint, List.mem_map] at hb
  obtain ⟨d, hd, rfl⟩ := hb
  have := decDigits_lt n d hd
  rw [digitByte_val this]; omega

theorem formatUint_ne_auto (n : Nat) : formatUint n ≠ autoStr := by
  intro h
  have := formatUint_all_digits n (byte 97) (by rw [h]; simp [autoStr])
  simp at this

/-- a string that has a non-digit before any overflow parses to 0 (syntax error) -/
theorem parseGo_nondigit_first (acc : Nat) (c : Byte) (cs : Bytes) (h : ¬ (48 ≤ c.val ∧ c.val ≤ 57)) :
    parseGo acc (c :: cs) = (0, .syntax) := by
  simp only [parseGo, if_neg h]

/-- digit strings whose value does not fit: range error, 2^64-1 -/
theorem parseGo_overflow (ds : List Nat) : ∀ (acc : Nat), (∀ d ∈ ds, d < 10) → acc ≤ U64Max →
    U64Max < valOf acc ds → parseGo acc (ds.map digitByte) = (U64Max, .range) := by
  induction ds with
  | nil => intro acc _ h1 h2; simp at h2; omega
  | cons d ds ih =>
    intro acc hd ha hv
    have hd10 : d < 10 := hd d (by simp)
    have hb := digitByte_val hd10
    simp only [List.map_cons, parseGo, hb]
    rw [if_pos (by omega)]
    split
    · rfl
    · have : 48 + d - 48 = d := by omega
      rw [this]
      split
      · rfl
      · rename_i h2
        exact ih _ (fun x hx => hd x (by simp [hx])) (by omega) (by simpa using hv)

/-! ### the rules -/

theorem serverTx_cases (clientRx maxTx : Nat) (ignore : Bool) :
    serverTx clientRx maxTx ignore =
      if ignore then { ctl := .configured, reported := 0 }
      else if clientRx = 0 then { ctl := .configured, reported := 0 }
      else if maxTx = 0 then { ctl := .brutal clientRx, reported := clientRx }
      else { ctl := .brutal (min clientRx maxTx), reported := min clientRx maxTx } := by
  unfold serverTx
  cases ignore
  · simp only [Bool.false_eq_true, if_false]
    by_cases h0 : clientRx = 0
    · subst h0; simp
    · by_cases hm : maxTx = 0
      · subst hm
        have : 0 < clientRx := by omega
        simp [h0, this]
      · by_cases hlt : maxTx < clientRx
        · have h1 : min clientRx maxTx = maxTx := by omega
          have h2 : 0 < maxTx := by omega
          simp [h0, hm, hlt, h1, h2]
        · have h1 : min clientRx maxTx = clientRx := by omega
          have h2 : 0 < clientRx := by omega
          simp [h0, hm, hlt, h1, h2]
  · rfl

theorem clientTx_cases (resp : AuthResp) (maxTx : Nat) :
    clientTx resp maxTx =
      if resp.rxAuto then { ctl := .configured, reported := 0 }
      else if maxTx = 0 then { ctl := .configured, reported := 0 }
      else if resp.rx = 0 then { ctl := .brutal maxTx, reported := maxTx }
      else { ctl := .brutal (min resp.rx maxTx), reported := min resp.rx maxTx } := by
  unfold clientTx
  cases resp.rxAuto
  · simp only [Bool.false_eq_true, if_false]
    by_cases hm : maxTx = 0
    · subst hm
      have : (resp.rx = 0 ∨ 0 < resp.rx) := by omega
      simp [this]
    · have hm' : 0 < maxTx := by omega
      by_cases h0 : resp.rx = 0
      · simp [h0, hm, hm']
      · by_cases hlt : maxTx < resp.rx
        · have h1 : min resp.rx maxTx = maxTx := by omega
          simp [h0, hm, hlt, h1, hm']
        · have h1 : min resp.rx maxTx = resp.rx := by omega
          have h2 : 0 < resp.rx := by omega
          simp [h0, hm, hlt, h1, h2]
  · rfl

end Hy.Rate
