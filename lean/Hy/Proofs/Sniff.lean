/- Helper lemmas for C17 (TCP side): address split/join, stream reads, tee reader. -/
import Hy.Model.Sniff
set_option linter.unusedSimpArgs false
set_option linter.unusedVariables false
namespace Hy.Sniff
open Hy

/-! ### splitLast / splitHostPort / joinHostPort -/

theorem splitLast_spec : ∀ (s a b : Bytes), splitLast s = some (a, b) → s = a ++ cColon :: b ∧ cColon ∉ b := by
  intro s
  induction s with
  | nil => intro a b h; simp [splitLast] at h
  | cons c r ih =>
    intro a b h
    simp only [splitLast] at h
    split at h
    · rename_i a' b' heq
      simp only [Option.some.injEq, Prod.mk.injEq] at h
      obtain ⟨rfl, rfl⟩ := h
      obtain ⟨h1, h2⟩ := ih a' b' heq
      exact ⟨by rw [h1]; rfl, h2⟩
    · rename_i hnone
      split at h
      · rename_i hc
        simp only [Option.some.injEq, Prod.mk.injEq] at h
        obtain ⟨rfl, rfl⟩ := h
        refine ⟨by rw [hc]; rfl, ?_⟩
        -- no colon in r, otherwise splitLast r would have succeeded
        intro hmem
        have : ∀ (r : Bytes), cColon ∈ r → splitLast r ≠ none := by
          intro r
          induction r with
          | nil => intro h; simp at h
          | cons d r' ih' =>
            intro hm
            simp only [splitLast]
            cases hs : splitLast r' with
            | some p => simp
            | none =>
              simp only
              rcases List.mem_cons.mp hm with h1 | h1
              · simp [h1]
              · exact absurd hs (ih' h1)
        exact this _ hmem hnone
      · simp at h

theorem splitLast_none_of_not_mem : ∀ (p : Bytes), cColon ∉ p → splitLast p = none := by
  intro p
  induction p with
  | nil => intro _; rfl
  | cons c r ih =>
    intro h
    have h1 : c ≠ cColon := fun e => h (by simp [e])
    have h2 : cColon ∉ r := fun e => h (by simp [e])
    simp [splitLast, ih h2, h1]

theorem splitLast_append : ∀ (a p : Bytes), cColon ∉ p → splitLast (a ++ cColon :: p) = some (a, p) := by
  intro a
  induction a with
  | nil => intro p h; simp [splitLast, splitLast_none_of_not_mem p h]
  | cons c r ih => intro p h; simp [splitLast, ih p h]

/-- a byte string without brackets -/
def Clean (x : Bytes) : Prop := cLB ∉ x ∧ cRB ∉ x

instance (x : Bytes) : Decidable (Clean x) := by unfold Clean; exact inferInstance

/-- what net.SplitHostPort returns as the port has no colon and no bracket -/
theorem splitHostPort_port (s h p : Bytes) (hs : splitHostPort s = some (h, p)) :
    cColon ∉ p ∧ Clean p := by
  unfold splitHostPort at hs
  split at hs
  · simp at hs
  · rename_i a port hl
    obtain ⟨hsa, hnc⟩ := splitLast_spec _ _ _ hl
    split at hs
    · rename_i c rest
      split at hs
      · split at hs
        · rename_i hc
          simp only [Option.some.injEq, Prod.mk.injEq] at hs
          obtain ⟨_, rfl⟩ := hs
          exact ⟨hnc, hc.2.2.2.1, hc.2.2.2.2⟩
        · simp at hs
      · split at hs
        · simp at hs
        · rename_i hc
          simp only [Option.some.injEq, Prod.mk.injEq] at hs
          obtain ⟨_, rfl⟩ := hs
          refine ⟨hnc, ?_, ?_⟩
          · intro hm; apply hc; right; left; rw [hsa]; simp [hm]
          · intro hm; apply hc; right; right; rw [hsa]; simp [hm]
    · split at hs
      · simp at hs
      · rename_i hc
        simp only [Option.some.injEq, Prod.mk.injEq] at hs
        obtain ⟨_, rfl⟩ := hs
        exact ⟨hnc, fun hm => hc (Or.inl hm), fun hm => hc (Or.inr hm)⟩

theorem cColon_ne_cLB : cColon ≠ cLB := by decide
theorem cColon_ne_cRB : cColon ≠ cRB := by decide
theorem cLB_ne_cRB : cLB ≠ cRB := by decide

/-- JoinHostPort followed by SplitHostPort gives back host and port, for a bracket-free host
    and a port as SplitHostPort produces it. -/
theorem split_join (h p : Bytes) (hh : Clean h) (hp1 : cColon ∉ p) (hp : Clean p) :
    splitHostPort (joinHostPort h p) = some (h, p) := by
  obtain ⟨hh1, hh2⟩ := hh
  obtain ⟨hp2, hp3⟩ := hp
  unfold joinHostPort
  split
  · -- bracketed form
    rename_i hc
    have e : cLB :: (h ++ cRB :: cColon :: p) = (cLB :: (h ++ [cRB])) ++ cColon :: p := by simp
    unfold splitHostPort
    rw [e, splitLast_append _ _ hp1]
    simp only [↓reduceIte]
    have hl : (h ++ [cRB]).getLast? = some cRB := by simp
    have hd : (h ++ [cRB]).dropLast = h := by simp
    rw [hl, hd]
    simp [hh1, hh2, hp2, hp3]
  · rename_i hc
    unfold splitHostPort
    rw [splitLast_append _ _ hp1]
    cases h with
    | nil => simp [hp2, hp3]
    | cons c rest =>
      have hcne : c ≠ cLB := fun e => hh1 (by simp [e])
      simp only [hcne, ↓reduceIte]
      have : ¬ (cColon ∈ c :: rest ∨ cLB ∈ (c :: rest) ++ cColon :: p ∨ cRB ∈ (c :: rest) ++ cColon :: p) := by
        intro hx
        rcases hx with hx | hx | hx
        · exact hc hx
        · rcases List.mem_append.mp hx with h1 | h1
          · exact hh1 h1
          · rcases List.mem_cons.mp h1 with h2 | h2
            · exact cColon_ne_cLB h2.symm
            · exact hp2 h2
        · rcases List.mem_append.mp hx with h1 | h1
          · exact hh2 h1
          · rcases List.mem_cons.mp h1 with h2 | h2
            · exact cColon_ne_cRB h2.symm
            · exact hp3 h2
      simp only [this, ↓reduceIte]

/-- `rewrite` keeps the port of the original address (for a bracket-free host) -/
theorem rewrite_port (addr host addr' h p : Bytes) (hs : splitHostPort addr = some (h, p))
    (hc : Clean host) (hr : rewrite addr host = .ok addr') :
    splitHostPort addr' = some (host, p) := by
  unfold rewrite at hr
  rw [hs] at hr
  simp only [Res.ok.injEq] at hr
  subst hr
  obtain ⟨h1, h2⟩ := splitHostPort_port _ _ _ hs
  exact split_join host p hc h1 h2

theorem rewrite_reject (addr host : Bytes) (hr : rewrite addr host = .reject) :
    splitHostPort addr = none := by
  unfold rewrite at hr
  split at hr
  · assumption
  · simp at hr

theorem rewrite_noPanic (addr host : Bytes) : Res.NoPanic (rewrite addr host) := by
  unfold rewrite; split <;> simp

theorem rewrite_ok (addr host addr' : Bytes) (hr : rewrite addr host = .ok addr') :
    ∃ h p, splitHostPort addr = some (h, p) ∧ addr' = joinHostPort host p := by
  unfold rewrite at hr
  split at hr
  · simp at hr
  · rename_i h p hs
    simp only [Res.ok.injEq] at hr
    exact ⟨h, p, hs, hr.symm⟩

/-! ### the stream -/

theorem read_flat (s : Stream) (k : Nat) :
    (s.read k).1 ++ (s.read k).2.2.unread = s.unread := by
  unfold Stream.read
  split
  · rfl
  · split
    · rfl
    · rename_i c rest hcs
      simp only [Stream.unread, hcs]
      split
      · rename_i hn
        have : c.take (min k c.length) = c := by rw [hn]; simp
        simp [this]
      · simp only [List.flatten_cons]; rw [← List.append_assoc, List.take_append_drop]

theorem read_len (s : Stream) (k : Nat) : (s.read k).1.length ≤ k := by
  unfold Stream.read
  split
  · simp
  · split
    · simp
    · simp; omega

theorem readFullAux_spec : ∀ (fuel need : Nat) (s : Stream),
    (readFullAux fuel need s).1 ++ (readFullAux fuel need s).2.2.unread = s.unread
    ∧ (readFullAux fuel need s).1.length ≤ need
    ∧ ((readFullAux fuel need s).2.1 = true → (readFullAux fuel need s).1.length = need) := by
  intro fuel
  induction fuel with
  | zero =>
    intro need s
    cases need <;> simp [readFullAux]
  | succ f ih =>
    intro need s
    cases need with
    | zero => simp [readFullAux]
    | succ n =>
      have hf := read_flat s (n + 1)
      have hl := read_len s (n + 1)
      simp only [readFullAux]
      generalize hrd : s.read (n + 1) = rd at hf hl
      obtain ⟨bs, err, s'⟩ := rd
      simp only at hf hl ⊢
      split
      · rename_i hge
        refine ⟨hf, hl, fun _ => ?_⟩
        show bs.length = n + 1
        omega
      · rename_i hlt
        split
        · exact ⟨hf, hl, fun h => by simp at h⟩
        · obtain ⟨i1, i2, i3⟩ := ih (n + 1 - bs.length) s'
          generalize hrr : readFullAux f (n + 1 - bs.length) s' = rr at i1 i2 i3
          obtain ⟨bs2, ok, s''⟩ := rr
          simp only at i1 i2 i3 ⊢
          refine ⟨?_, ?_, ?_⟩
          · rw [List.append_assoc, i1, hf]
          · simp only [List.length_append]; omega
          · intro hok; simp only [List.length_append]; have := i3 hok; omega

theorem readFull_flat (s : Stream) (need : Nat) :
    (s.readFull need).1 ++ (s.readFull need).2.2.unread = s.unread :=
  (readFullAux_spec _ need s).1

theorem readFull_len (s : Stream) (need : Nat) : (s.readFull need).1.length ≤ need :=
  (readFullAux_spec _ need s).2.1

theorem readFull_ok_len (s : Stream) (need : Nat) (h : (s.readFull need).2.1 = true) :
    (s.readFull need).1.length = need :=
  (readFullAux_spec _ need s).2.2 h

theorem filled_of_len (n : Nat) (got : Bytes) (h : got.length = n) : filled n got = got := by
  simp [filled, h]

theorem filled_length (n : Nat) (got : Bytes) (h : got.length ≤ n) : (filled n got).length = n := by
  simp [filled]; omega

theorem filled_take (n : Nat) (got : Bytes) : (filled n got).take got.length = got := by
  simp [filled]

/-! ### tee reader -/

theorem tee_read_inv (t : Tee) (k : Nat) (hp : t.pre = []) :
    (t.read k).pre = [] ∧ (t.read k).buf ++ (t.read k).s.unread = t.buf ++ t.s.unread := by
  have hf := read_flat t.s k
  unfold Tee.read
  rw [hp]
  simp only
  generalize t.s.read k = rd at hf
  obtain ⟨bs, e, s'⟩ := rd
  simp only at hf ⊢
  exact ⟨trivial, by rw [List.append_assoc, hf]⟩

theorem runReads_inv (ks : List Nat) : ∀ t : Tee, t.pre = [] →
    (runReads t ks).pre = [] ∧
    (runReads t ks).buf ++ (runReads t ks).s.unread = t.buf ++ t.s.unread := by
  induction ks with
  | nil => intro t hp; exact ⟨hp, rfl⟩
  | cons k ks ih =>
    intro t hp
    obtain ⟨h1, h2⟩ := tee_read_inv t k hp
    obtain ⟨h3, h4⟩ := ih (t.read k) h1
    simp only [runReads]
    exact ⟨h3, by rw [h4, h2]⟩

/-- first read covers the probe: afterwards the probe is in `buf` and `Pre` is empty -/
theorem tee_first_read (pre : Bytes) (s : Stream) (k : Nat) (hk : pre.length ≤ k) (hne : pre ≠ []) :
    (Tee.read ⟨pre, [], s⟩ k) = ⟨[], pre, s⟩ := by
  unfold Tee.read
  cases pre with
  | nil => exact absurd rfl hne
  | cons p ps =>
    simp only
    have : min k (p :: ps).length = (p :: ps).length := by omega
    rw [this]; simp

/-- HTTP branch: Buffer() ++ unread = probe ++ unread-before, whatever the parser reads -/
theorem http_branch_transparent (pre : Bytes) (s : Stream) (ks : List Nat)
    (hfirst : ∀ k ks', ks = k :: ks' → pre.length ≤ k) :
    (runReads ⟨pre, [], s⟩ ks).buffer ++ (runReads ⟨pre, [], s⟩ ks).s.unread = pre ++ s.unread := by
  cases ks with
  | nil => simp [runReads, Tee.buffer]
  | cons k ks' =>
    have hk := hfirst k ks' rfl
    simp only [runReads]
    by_cases hne : pre = []
    · subst hne
      obtain ⟨h1, h2⟩ := runReads_inv ks' (Tee.read ⟨[], [], s⟩ k) (tee_read_inv ⟨[], [], s⟩ k rfl).1
      have h3 := (tee_read_inv ⟨[], [], s⟩ k rfl).2
      simp only [Tee.buffer, h1, List.nil_append]
      rw [h2, h3]; rfl
    · rw [tee_first_read pre s k hk hne]
      obtain ⟨h1, h2⟩ := runReads_inv ks' ⟨[], pre, s⟩ rfl
      simp only [Tee.buffer, h1, List.nil_append]
      exact h2

/-- … and when the parser reads at all, what it was handed IS the replay buffer -/
theorem http_handed_eq_buffer (pre : Bytes) (s : Stream) (k : Nat) (ks : List Nat)
    (hk : pre.length ≤ k) :
    (runReads ⟨pre, [], s⟩ (k :: ks)).buf = (runReads ⟨pre, [], s⟩ (k :: ks)).buffer := by
  simp only [runReads]
  by_cases hne : pre = []
  · subst hne
    obtain ⟨h1, _⟩ := runReads_inv ks (Tee.read ⟨[], [], s⟩ k) (tee_read_inv ⟨[], [], s⟩ k rfl).1
    simp [Tee.buffer, h1]
  · rw [tee_first_read pre s k hk hne]
    obtain ⟨h1, _⟩ := runReads_inv ks ⟨[], pre, s⟩ rfl
    simp [Tee.buffer, h1]

end Hy.Sniff
