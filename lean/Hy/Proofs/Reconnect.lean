/-
  C16 — helper lemmas: the invariant of the repaired reconnecting client and its
  preservation by every label; frame lemmas for `reconnect`. Core Lean only.
-/
import Hy.Model.Reconnect
namespace Hy.Reconnect

@[simp] theorem upd_same {α} (f : Nat → α) (i : Nat) (v : α) : upd f i v i = v := by simp [upd]
theorem upd_other {α} (f : Nat → α) (i j : Nat) (v : α) (h : j ≠ i) : upd f i v j = f j := by simp [upd, h]
theorem upd_apply {α} (f : Nat → α) (i j : Nat) (v : α) : upd f i v j = if j = i then v else f j := rfl

/-- Invariant of the repaired code (every reachable state, every schedule). -/
structure Inv (s : St) : Prop where
  /-- an open factory socket is the current client's -/
  live  : ∀ x, s.sock x = some true → s.client = some x
  /-- after Close nothing is open -/
  fin   : s.closed = true → ∀ x, s.sock x ≠ some true
  alloc : ∀ x, s.nextId ≤ x → s.sock x = none
  used  : ∀ x, x < s.nextId → s.sock x ≠ none
  cur   : ∀ c, s.client = some c → c < s.nextId
  cs    : s.closed = true → s.started = true
  /-- connectedFunc has been called with 1, 2, …, count, in that order -/
  cnt   : connArgs s.log = countdown s.count
  /-- the factory's sockets are numbered 0 … nextId-1 in the order they were obtained -/
  socks : newSocks s.log = (List.range s.nextId).reverse

theorem inv_init : Inv init := by
  constructor <;> simp [init, connArgs, countdown, newSocks]

/-! #### `attempt`, answer by answer (all by running Hy.Connect.newClient) -/

theorem attempt_cfgErr (s : St) : attempt s .cfgErr = ({ s with log := .cfg :: s.log }, some .cfgErr) := rfl

theorem attempt_badCfg (s : St) :
    attempt s .badCfg = ({ s with client := none, log := .cfg :: s.log }, some .badCfg) := rfl

theorem attempt_newErr (s : St) :
    attempt s .newErr = ({ s with client := none, log := .cfg :: s.log }, some .newErr) := rfl

/-- the answers on which connect() fails AFTER the factory returned a socket -/
def Att.failsWithSocket (a : Att) : Prop := a = .dialErr ∨ a = .rtErr ∨ a = .authErr

theorem attempt_failSock (s : St) (a : Att) (ha : a.failsWithSocket) :
    attempt s a =
      ({ s with client := none, nextId := s.nextId + 1, sock := upd s.sock s.nextId (some false),
                res := upd s.res s.nextId (some (Connect.connect a.exit).1),
                log := .new s.nextId :: .cfg :: s.log }, some .connErr) := by
  rcases ha with h | h | h <;> subst h <;> rfl

theorem attempt_ok (s : St) :
    attempt s .ok =
      ({ s with client := some s.nextId, nextId := s.nextId + 1, sock := upd s.sock s.nextId (some true),
                res := upd s.res s.nextId (some Connect.owned), count := s.count + 1,
                log := .connected (s.count + 1) :: .new s.nextId :: .cfg :: s.log }, none) := rfl

/-- every answer is one of the five shapes -/
theorem att_cases (a : Att) : a = .cfgErr ∨ a = .badCfg ∨ a = .newErr ∨ a.failsWithSocket ∨ a = .ok := by
  cases a <;> simp [Att.failsWithSocket]

/-! #### frame lemmas for `reconnect` -/

theorem attempt_frame (s : St) (a : Att) :
    (attempt s a).1.started = s.started ∧ (attempt s a).1.closed = s.closed ∧
    (attempt s a).1.pc = s.pc ∧ (attempt s a).1.dead = s.dead ∧
    cfgCount (attempt s a).1.log = cfgCount s.log + 1 := by
  rcases att_cases a with h | h | h | h | h
  · subst h; rw [attempt_cfgErr]; simp [cfgCount]
  · subst h; rw [attempt_badCfg]; simp [cfgCount]
  · subst h; rw [attempt_newErr]; simp [cfgCount]
  · rw [attempt_failSock s a h]; simp [cfgCount]
  · subst h; rw [attempt_ok]; simp [cfgCount]

theorem closeOld_frame0 (s : St) :
    (closeOld s).started = s.started ∧ (closeOld s).closed = s.closed ∧ (closeOld s).pc = s.pc ∧
    (closeOld s).dead = s.dead ∧ (closeOld s).log = s.log := by
  unfold closeOld closeSock; cases s.client <;> exact ⟨rfl, rfl, rfl, rfl, rfl⟩

theorem reconnect_started (s : St) (a : Att) : (reconnect s a).1.started = s.started := by
  unfold reconnect; rw [(attempt_frame _ a).1, (closeOld_frame0 s).1]

theorem reconnect_closed (s : St) (a : Att) : (reconnect s a).1.closed = s.closed := by
  unfold reconnect; rw [(attempt_frame _ a).2.1, (closeOld_frame0 s).2.1]

theorem reconnect_pc (s : St) (a : Att) : (reconnect s a).1.pc = s.pc := by
  unfold reconnect; rw [(attempt_frame _ a).2.2.1, (closeOld_frame0 s).2.2.1]

theorem reconnect_dead (s : St) (a : Att) : (reconnect s a).1.dead = s.dead := by
  unfold reconnect; rw [(attempt_frame _ a).2.2.2.1, (closeOld_frame0 s).2.2.2.1]

/-- exactly one configFunc evaluation per attempt -/
theorem reconnect_cfgCount (s : St) (a : Att) : cfgCount (reconnect s a).1.log = cfgCount s.log + 1 := by
  unfold reconnect; rw [(attempt_frame _ a).2.2.2.2, (closeOld_frame0 s).2.2.2.2]

/-- the attempt succeeds exactly on `Att.ok` -/
theorem attempt_err (s : St) (a : Att) : (attempt s a).2 = none ↔ a = .ok := by
  rcases att_cases a with h | h | h | h | h
  · subst h; simp [attempt_cfgErr]
  · subst h; simp [attempt_badCfg]
  · subst h; simp [attempt_newErr]
  · rw [attempt_failSock s a h]
    rcases h with h | h | h <;> subst h <;> simp
  · subst h; simp [attempt_ok]

theorem reconnect_err (s : St) (a : Att) : (reconnect s a).2 = none ↔ a = .ok := by
  unfold reconnect; exact attempt_err _ a

theorem closeOld_none (s : St) (h : s.client = none) : closeOld s = s := by
  simp [closeOld, h]

/-- what a successful attempt from `client = none` does -/
theorem reconnect_ok_none (s : St) (h : s.client = none) :
    reconnect s .ok =
      ({ s with client := some s.nextId, nextId := s.nextId + 1, sock := upd s.sock s.nextId (some true),
                res := upd s.res s.nextId (some Connect.owned), count := s.count + 1,
                log := .connected (s.count + 1) :: .new s.nextId :: .cfg :: s.log }, none) := by
  unfold reconnect; rw [closeOld_none s h, attempt_ok]

/-- a failed attempt from `client = none`: client stays none, count and connectedFunc calls unchanged,
    no socket is open afterwards that was not open before -/
theorem reconnect_fail_none (s : St) (a : Att) (h : s.client = none) (ha : a ≠ .ok) :
    (reconnect s a).1.client = none ∧ (reconnect s a).1.count = s.count ∧
    connArgs (reconnect s a).1.log = connArgs s.log ∧
    (∀ x, (reconnect s a).1.sock x = some true → s.sock x = some true) ∧
    (reconnect s a).2 ≠ none := by
  unfold reconnect; rw [closeOld_none s h]
  rcases att_cases a with h' | h' | h' | h' | h'
  · subst h'; rw [attempt_cfgErr]; simp [connArgs, h]
  · subst h'; rw [attempt_badCfg]; simp [connArgs]
  · subst h'; rw [attempt_newErr]; simp [connArgs]
  · rw [attempt_failSock s a h']
    refine ⟨rfl, rfl, by simp [connArgs], ?_, by simp⟩
    intro x hx
    simp only [upd_apply] at hx
    split at hx
    · simp at hx
    · exact hx
  · exact absurd h' ha

/-- with the allocation mark in place the set of open sockets is exactly unchanged -/
theorem reconnect_fail_none_open (s : St) (a : Att) (h : s.client = none) (ha : a ≠ .ok)
    (hal : ∀ x, s.nextId ≤ x → s.sock x = none) (x : Nat) :
    (reconnect s a).1.sock x = some true ↔ s.sock x = some true := by
  refine ⟨(reconnect_fail_none s a h ha).2.2.2.1 x, ?_⟩
  intro hx
  unfold reconnect; rw [closeOld_none s h]
  rcases att_cases a with h' | h' | h' | h' | h'
  · subst h'; rw [attempt_cfgErr]; exact hx
  · subst h'; rw [attempt_badCfg]; exact hx
  · subst h'; rw [attempt_newErr]; exact hx
  · rw [attempt_failSock s a h']
    simp only [upd_apply]
    split
    · rename_i hc
      have := hal x (by omega)
      rw [this] at hx; cases hx
    · exact hx
  · exact absurd h' ha

/-! #### the invariant is preserved -/

/-- no factory socket is open -/
def Quiet (s : St) : Prop := ∀ x, s.sock x ≠ some true

theorem inv_closeSock_cur (s : St) (c : Nat) (h : Inv s) (hc : s.client = some c) :
    Inv (closeSock s c) ∧ Quiet (closeSock s c) := by
  have hlt := h.cur c hc
  refine ⟨⟨?_, ?_, ?_, ?_, h.cur, h.cs, h.cnt, h.socks⟩, ?_⟩
  · intro x hx
    simp only [closeSock, upd_apply] at hx
    split at hx
    · simp at hx
    · exact h.live x hx
  · intro hcl x hx
    simp only [closeSock, upd_apply] at hx
    split at hx
    · simp at hx
    · exact h.fin hcl x hx
  · intro x hx
    simp only [closeSock, upd_apply]
    have : x ≠ c := by simp only [closeSock] at hx; omega
    simp only [this, if_false]
    exact h.alloc x hx
  · intro x hx
    simp only [closeSock, upd_apply]
    split
    · simp
    · exact h.used x hx
  · intro x hx
    simp only [closeSock, upd_apply] at hx
    split at hx
    · simp at hx
    · rename_i hne
      have := h.live x hx
      rw [hc] at this
      exact hne (Option.some.inj this).symm

theorem inv_closeOld (s : St) (h : Inv s) (hq : s.client = none → Quiet s) :
    Inv (closeOld s) ∧ Quiet (closeOld s) := by
  unfold closeOld
  cases hc : s.client with
  | none => exact ⟨h, hq hc⟩
  | some c => exact inv_closeSock_cur s c h hc

theorem quiet_of_none (s : St) (h : Inv s) (hc : s.client = none) : Quiet s := by
  intro x hx
  have := h.live x hx
  rw [hc] at this
  cases this

theorem inv_attempt (s : St) (a : Att) (h : Inv s) (hq : Quiet s) (hc : s.closed = false) :
    Inv (attempt s a).1 := by
  rcases att_cases a with h' | h' | h' | h' | h'
  · subst h'; rw [attempt_cfgErr]
    exact ⟨h.live, h.fin, h.alloc, h.used, h.cur, h.cs, by simpa [connArgs] using h.cnt,
      by simpa [newSocks] using h.socks⟩
  · subst h'; rw [attempt_badCfg]
    refine ⟨?_, h.fin, h.alloc, h.used, ?_, h.cs, by simpa [connArgs] using h.cnt,
      by simpa [newSocks] using h.socks⟩
    · intro x hx; exact absurd hx (hq x)
    · intro c hc; simp at hc
  · subst h'; rw [attempt_newErr]
    refine ⟨?_, h.fin, h.alloc, h.used, ?_, h.cs, by simpa [connArgs] using h.cnt,
      by simpa [newSocks] using h.socks⟩
    · intro x hx; exact absurd hx (hq x)
    · intro c hc; simp at hc
  · rw [attempt_failSock s a h']
    refine ⟨?_, ?_, ?_, ?_, ?_, h.cs, by simpa [connArgs] using h.cnt, ?_⟩
    · intro x hx
      simp only [upd_apply] at hx
      split at hx
      · simp at hx
      · exact absurd hx (hq x)
    · intro _ x hx
      simp only [upd_apply] at hx
      split at hx
      · simp at hx
      · exact absurd hx (hq x)
    · intro x hx
      simp only [upd_apply] at hx ⊢
      have : x ≠ s.nextId := by omega
      simp only [this, if_false]
      exact h.alloc x (by omega)
    · intro x hx
      simp only [upd_apply] at hx ⊢
      split
      · simp
      · exact h.used x (by omega)
    · intro c hc; simp at hc
    · simp only [newSocks, h.socks, List.range_succ, List.reverse_append, List.reverse_cons,
        List.reverse_nil, List.nil_append, List.singleton_append]
  · subst h'; rw [attempt_ok]
    refine ⟨?_, ?_, ?_, ?_, ?_, h.cs, ?_, ?_⟩
    · intro x hx
      simp only [upd_apply] at hx ⊢
      split at hx
      · rename_i hx'; rw [hx']
      · exact absurd hx (hq x)
    · intro hcl; simp only at hcl; rw [hc] at hcl; cases hcl
    · intro x hx
      simp only [upd_apply] at hx ⊢
      have : x ≠ s.nextId := by omega
      simp only [this, if_false]
      exact h.alloc x (by omega)
    · intro x hx
      simp only [upd_apply] at hx ⊢
      split
      · simp
      · exact h.used x (by omega)
    · intro c hc
      simp only [Option.some.injEq] at hc ⊢
      omega
    · simp only [connArgs, countdown, h.cnt]
    · simp only [newSocks, h.socks, List.range_succ, List.reverse_append, List.reverse_cons,
        List.reverse_nil, List.nil_append, List.singleton_append]

theorem closeOld_closed (s : St) : (closeOld s).closed = s.closed := by
  unfold closeOld closeSock; cases s.client <;> rfl

theorem inv_reconnect (s : St) (a : Att) (h : Inv s) (hc : s.closed = false) : Inv (reconnect s a).1 := by
  unfold reconnect
  have h1 := inv_closeOld s h (quiet_of_none s h)
  exact inv_attempt _ a h1.1 h1.2 (by rw [closeOld_closed]; exact hc)

theorem inv_enter (s : St) (g : Nat) (h : Inv s) : Inv (enter s g) := by
  unfold enter
  split
  · exact ⟨h.live, h.fin, h.alloc, h.used, h.cur, h.cs, h.cnt, h.socks⟩
  · exact h

theorem inv_step (s : St) (l : Label) (h : Inv s) : Inv (step fixed s l) := by
  cases l with
  | start lazy a =>
    simp only [step]
    split
    · exact h
    · rename_i hs
      have hcl : s.closed = false := by
        cases hc : s.closed with
        | false => rfl
        | true => exact absurd (h.cs hc) hs
      split
      · exact ⟨h.live, h.fin, h.alloc, h.used, h.cur, fun _ => rfl, by simpa [connArgs] using h.cnt,
          by simpa [newSocks] using h.socks⟩
      · have hr := inv_reconnect s a h hcl
        split
        · rename_i s' heq
          have : s' = (reconnect s a).1 := by rw [heq]
          subst this
          exact ⟨hr.live, hr.fin, hr.alloc, hr.used, hr.cur, fun _ => rfl, by simpa [connArgs] using hr.cnt,
            by simpa [newSocks] using hr.socks⟩
        · rename_i s' e heq
          have : s' = (reconnect s a).1 := by rw [heq]
          subst this
          exact ⟨hr.live, hr.fin, hr.alloc, hr.used, hr.cur, hr.cs, by simpa [connArgs] using hr.cnt,
            by simpa [newSocks] using hr.socks⟩
  | callBegin g a =>
    simp only [step]
    split
    · exact h
    · split
      · exact h
      · split
        · exact ⟨h.live, h.fin, h.alloc, h.used, h.cur, h.cs, by simpa [connArgs] using h.cnt,
            by simpa [newSocks] using h.socks⟩
        · rename_i hcl
          have hcl : s.closed = false := by simpa using hcl
          split
          · exact inv_enter s g h
          · have hr := inv_reconnect s a h hcl
            split
            · rename_i s' e heq
              have : s' = (reconnect s a).1 := by rw [heq]
              subst this
              exact ⟨hr.live, hr.fin, hr.alloc, hr.used, hr.cur, hr.cs, by simpa [connArgs] using hr.cnt,
                by simpa [newSocks] using hr.socks⟩
            · rename_i s' heq
              have : s' = (reconnect s a).1 := by rw [heq]
              subst this
              exact inv_enter _ g hr
  | callEnd g r =>
    simp only [step]
    split
    · exact h
    · rename_i c hpc
      have h1 : Inv { s with pc := upd s.pc g .idle, log := .ret g r.toRet :: s.log } :=
        ⟨h.live, h.fin, h.alloc, h.used, h.cur, h.cs, by simpa [connArgs] using h.cnt,
          by simpa [newSocks] using h.socks⟩
      split
      · split
        · rename_i hcur
          simp only [fixed, if_true]
          have h2 := (inv_closeSock_cur _ c h1 hcur)
          refine ⟨?_, h2.1.fin, h2.1.alloc, h2.1.used, ?_, h2.1.cs, h2.1.cnt, h2.1.socks⟩
          · intro x hx; exact absurd hx (h2.2 x)
          · intro c' hc'; cases hc'
        · exact h1
      · exact h1
  | kill c =>
    simp only [step]
    split
    · exact ⟨h.live, h.fin, h.alloc, h.used, h.cur, h.cs, h.cnt, h.socks⟩
    · exact h
  | close =>
    simp only [step]
    split
    · exact h
    · rename_i hs
      have hs : s.started = true := by simpa using hs
      split
      · rename_i c hc
        have h2 := inv_closeSock_cur s c h hc
        refine ⟨?_, ?_, ?_, ?_, ?_, fun _ => hs, ?_, ?_⟩
        · exact h2.1.live
        · intro _ x hx; exact h2.2 x hx
        · exact h2.1.alloc
        · exact h2.1.used
        · exact h2.1.cur
        · exact h2.1.cnt
        · exact h2.1.socks
      · rename_i hc
        have hq := quiet_of_none s h hc
        exact ⟨h.live, fun _ => hq, h.alloc, h.used, h.cur, fun _ => hs, h.cnt, h.socks⟩

theorem inv_run (tr : List Label) : ∀ s, Inv s → Inv (run fixed s tr) := by
  induction tr with
  | nil => intro s h; exact h
  | cons l tr ih => intro s h; exact ih _ (inv_step s l h)

/-! #### the open list -/

theorem mem_openList (s : St) (h : Inv s) (x : Nat) : x ∈ openList s ↔ s.sock x = some true := by
  simp only [openList, List.mem_filter, List.mem_range, beq_iff_eq]
  constructor
  · exact fun hx => hx.2
  · intro hx
    refine ⟨?_, hx⟩
    apply Nat.lt_of_not_le
    intro hle
    have := h.alloc x hle
    rw [this] at hx
    cases hx

theorem openList_nodup (s : St) : (openList s).Nodup :=
  List.Nodup.sublist List.filter_sublist List.nodup_range

theorem length_le_one_of_all_eq (l : List Nat) (c : Nat) (hn : l.Nodup) (h : ∀ x ∈ l, x = c) : l.length ≤ 1 := by
  match l, hn, h with
  | [], _, _ => simp
  | [_], _, _ => simp
  | a :: b :: t, hn, h =>
    exfalso
    have ha := h a (by simp)
    have hb := h b (by simp)
    rw [ha, hb] at hn
    simp at hn

theorem openList_nil_of_quiet (s : St) (hq : ∀ x, s.sock x ≠ some true) : openList s = [] := by
  simp only [openList, List.filter_eq_nil_iff, beq_iff_eq]
  intro x _
  exact hq x

theorem openList_le_one (s : St) (h : Inv s) : (openList s).length ≤ 1 := by
  cases hc : s.client with
  | none =>
    rw [openList_nil_of_quiet s (quiet_of_none s h hc)]; simp
  | some c =>
    apply length_le_one_of_all_eq _ c (openList_nodup s)
    intro x hx
    have := h.live x ((mem_openList s h x).mp hx)
    rw [hc] at this
    exact (Option.some.inj this).symm

theorem openList_eq_singleton (s : St) (h : Inv s) (c : Nat) (hc : s.sock c = some true) : openList s = [c] := by
  have hm := (mem_openList s h c).mpr hc
  have hl := openList_le_one s h
  match hs : openList s, hm, hl with
  | [a], hm, _ => simp at hm; rw [hm]
  | [], hm, _ => simp at hm
  | _ :: _ :: _, _, hl => simp at hl

theorem openList_congr (s' s : St) (h' : Inv s') (h : Inv s)
    (hsock : ∀ x, s'.sock x = some true ↔ s.sock x = some true) : openList s' = openList s := by
  have hl := openList_le_one s h
  match hs : openList s, hl with
  | [], _ =>
    apply openList_nil_of_quiet
    intro x hx
    have := (mem_openList s h x).mpr ((hsock x).mp hx)
    rw [hs] at this; cases this
  | [a], _ =>
    have : a ∈ openList s := by rw [hs]; simp
    exact openList_eq_singleton s' h' a ((hsock a).mpr ((mem_openList s h a).mp this))
  | _ :: _ :: _, hl => simp at hl

/-! #### frame facts of single steps (any variant of the code) -/

theorem step_started_mono (cfg : Cfg) (s : St) (l : Label) (hs : s.started = true) :
    (step cfg s l).started = true := by
  cases l with
  | start lazy a => simp [step, hs]
  | callBegin g a =>
    simp only [step, hs, Bool.not_true, Bool.false_eq_true, if_false]
    split
    · first | exact hs | rfl
    · split
      · first | exact hs | rfl
      · split
        · unfold enter; split <;> first | exact hs | rfl
        · have := reconnect_started s a
          split
          · rename_i s' e heq; rw [heq] at this; exact this.trans hs
          · rename_i s' heq; rw [heq] at this
            unfold enter; split <;> exact this.trans hs
  | callEnd g r =>
    simp only [step]
    split
    · first | exact hs | rfl
    · split
      · split
        · split <;> first | exact hs | rfl
        · first | exact hs | rfl
      · first | exact hs | rfl
  | kill c => simp only [step]; split <;> first | exact hs | rfl
  | close =>
    simp only [step, hs, Bool.not_true, Bool.false_eq_true, if_false]
    split <;> first | exact hs | rfl

theorem callEnd_closed (cfg : Cfg) (s : St) (g : Nat) (r : FRes) : (step cfg s (.callEnd g r)).closed = s.closed := by
  simp only [step]
  split
  · rfl
  · split
    · split
      · split <;> rfl
      · rfl
    · rfl

theorem callEnd_nextId (cfg : Cfg) (s : St) (g : Nat) (r : FRes) : (step cfg s (.callEnd g r)).nextId = s.nextId := by
  simp only [step]
  split
  · rfl
  · split
    · split
      · split <;> rfl
      · rfl
    · rfl

/-- after Close (any variant): the flag stays, and no step evaluates configFunc, calls
    connectedFunc, obtains a socket or bumps the count -/
theorem closed_step (cfg : Cfg) (s : St) (l : Label) (hc : s.closed = true) (hs : s.started = true) :
    (step cfg s l).closed = true ∧ (step cfg s l).started = true ∧
    cfgCount (step cfg s l).log = cfgCount s.log ∧ connArgs (step cfg s l).log = connArgs s.log ∧
    (step cfg s l).nextId = s.nextId ∧ (step cfg s l).count = s.count := by
  refine ⟨?_, step_started_mono cfg s l hs, ?_⟩
  · cases l with
    | start lazy a => simp [step, hs, hc]
    | callBegin g a =>
      simp only [step, hs, Bool.not_true, Bool.false_eq_true, if_false]
      split
      · exact hc
      · simp only [hc, if_true]
    | callEnd g r => rw [callEnd_closed]; exact hc
    | kill c => simp only [step]; split <;> exact hc
    | close => simp only [step, hs, Bool.not_true, Bool.false_eq_true, if_false]; split <;> rfl
  · cases l with
    | start lazy a => simp [step, hs]
    | callBegin g a =>
      simp only [step, hs, Bool.not_true, Bool.false_eq_true, if_false]
      split
      · simp
      · simp [hc, cfgCount, connArgs]
    | callEnd g r =>
      simp only [step]
      split
      · simp
      · split
        · split
          · split <;> simp [closeSock, cfgCount, connArgs]
          · simp [cfgCount, connArgs]
        · simp [cfgCount, connArgs]
    | kill c => simp only [step]; split <;> simp
    | close => simp only [step, hs, Bool.not_true, Bool.false_eq_true, if_false]; split <;> simp [closeSock]

theorem closed_run (cfg : Cfg) (tr : List Label) : ∀ s, s.closed = true → s.started = true →
    (run cfg s tr).closed = true ∧ (run cfg s tr).started = true ∧
    cfgCount (run cfg s tr).log = cfgCount s.log ∧ connArgs (run cfg s tr).log = connArgs s.log ∧
    (run cfg s tr).nextId = s.nextId ∧ (run cfg s tr).count = s.count := by
  induction tr with
  | nil => intro s hc hs; exact ⟨hc, hs, rfl, rfl, rfl, rfl⟩
  | cons l tr ih =>
    intro s hc hs
    have h1 := closed_step cfg s l hc hs
    have h2 := ih (step cfg s l) h1.1 h1.2.1
    exact ⟨h2.1, h2.2.1, h2.2.2.1.trans h1.2.2.1, h2.2.2.2.1.trans h1.2.2.2.1,
      h2.2.2.2.2.1.trans h1.2.2.2.2.1, h2.2.2.2.2.2.trans h1.2.2.2.2.2⟩

/-! #### before anything was handed out -/

/-- nothing was handed out yet: nobody is in a call, there is no client, nothing is open -/
def Fresh (s : St) : Prop :=
  s.started = false → (∀ g, s.pc g = .idle) ∧ s.client = none ∧ (∀ x, s.sock x ≠ some true)

theorem fresh_step (cfg : Cfg) (s : St) (l : Label) (h : Fresh s) : Fresh (step cfg s l) := by
  cases hs : s.started with
  | true => intro hn; rw [step_started_mono cfg s l hs] at hn; cases hn
  | false =>
    obtain ⟨hpc, hcl, hq⟩ := h hs
    cases l with
    | start lazy a =>
      simp only [step, hs, Bool.false_eq_true, if_false]
      split
      · intro hn; cases hn
      · cases ha : decide (a = .ok) with
        | true =>
          have ha : a = .ok := by simpa using ha
          subst ha
          rw [reconnect_ok_none s hcl]
          intro hn; cases hn
        | false =>
          have ha : a ≠ .ok := by simpa using ha
          obtain ⟨h1, _, _, h4, h5⟩ := reconnect_fail_none s a hcl ha
          cases hr : reconnect s a with
          | mk s1 e1 =>
            rw [hr] at h1 h4 h5
            cases e1 with
            | none => exact absurd rfl h5
            | some e1 =>
              intro _
              refine ⟨?_, h1, fun x hx => hq x (h4 x hx)⟩
              have := reconnect_pc s a
              rw [hr] at this
              intro g
              show s1.pc g = .idle
              rw [this]; exact hpc g
    | callBegin g a => simp only [step, hs, Bool.not_false, if_true]; exact h
    | callEnd g r => simp only [step, hpc g]; exact h
    | kill c =>
      simp only [step]
      split
      · rename_i hx; exact absurd hx (hq c)
      · exact h
    | close => simp only [step, hs, Bool.not_false, if_true]; exact h

theorem fresh_run (cfg : Cfg) (tr : List Label) : ∀ s, Fresh s → Fresh (run cfg s tr) := by
  induction tr with
  | nil => intro s h; exact h
  | cons l tr ih => intro s h; exact ih _ (fresh_step cfg s l h)

theorem fresh_init : Fresh init := by
  intro _; simp [init]

theorem started_of_using (cfg : Cfg) (tr : List Label) (g c : Nat)
    (hg : (run cfg init tr).pc g = .using c) : (run cfg init tr).started = true := by
  cases hs : (run cfg init tr).started with
  | true => rfl
  | false =>
    have := (fresh_run cfg tr init fresh_init hs).1 g
    rw [this] at hg; cases hg

theorem never_started_quiet (cfg : Cfg) (tr : List Label) (hs : (run cfg init tr).started = false) :
    ∀ x, (run cfg init tr).sock x ≠ some true :=
  (fresh_run cfg tr init fresh_init hs).2.2

theorem never_started_client (cfg : Cfg) (tr : List Label) (hs : (run cfg init tr).started = false) :
    (run cfg init tr).client = none :=
  (fresh_run cfg tr init fresh_init hs).2.1

/-! #### a call whose attempt fails -/

theorem callBegin_fail_open (cfg : Cfg) (s : St) (g : Nat) (a : Att) (h : Inv s) (ha : a ≠ .ok) :
    ∀ x, (step cfg s (.callBegin g a)).sock x = some true ↔ s.sock x = some true := by
  intro x
  simp only [step]
  split
  · exact Iff.rfl
  · split
    · exact Iff.rfl
    · split
      · exact Iff.rfl
      · split
        · unfold enter; split <;> exact Iff.rfl
        · rename_i hn
          have := reconnect_fail_none_open s a hn ha h.alloc x
          split
          · rename_i s' e heq; rw [heq] at this; exact this
          · rename_i s' heq; rw [heq] at this
            unfold enter; split <;> exact this

theorem callBegin_fail_rest (cfg : Cfg) (s : St) (g : Nat) (a : Att) (ha : a ≠ .ok) :
    (step cfg s (.callBegin g a)).client = s.client ∧ (step cfg s (.callBegin g a)).count = s.count ∧
    connArgs (step cfg s (.callBegin g a)).log = connArgs s.log := by
  simp only [step]
  split
  · exact ⟨rfl, rfl, rfl⟩
  · split
    · exact ⟨rfl, rfl, rfl⟩
    · split
      · exact ⟨rfl, rfl, rfl⟩
      · split
        · unfold enter; split <;> exact ⟨rfl, rfl, rfl⟩
        · rename_i hn
          obtain ⟨h1, h2, h3, _, h5⟩ := reconnect_fail_none s a hn ha
          split
          · rename_i s' e heq; rw [heq] at h1 h2 h3
            exact ⟨h1.trans hn.symm, h2, by simpa [connArgs] using h3⟩
          · rename_i s' heq; rw [heq] at h5; exact absurd rfl h5

/-! #### the count moves only on a successful attempt -/

theorem attempt_count (s : St) (a : Att) :
    ((attempt s a).1.count = s.count ∧ connArgs (attempt s a).1.log = connArgs s.log ∧ (attempt s a).2 ≠ none) ∨
    (a = .ok ∧ (attempt s a).2 = none ∧ (attempt s a).1.count = s.count + 1 ∧
      connArgs (attempt s a).1.log = (s.count + 1) :: connArgs s.log ∧
      (attempt s a).1.client = some s.nextId ∧ (attempt s a).1.sock s.nextId = some true ∧
      (attempt s a).1.nextId = s.nextId + 1) := by
  rcases att_cases a with h | h | h | h | h
  · subst h; rw [attempt_cfgErr]; simp [connArgs]
  · subst h; rw [attempt_badCfg]; simp [connArgs]
  · subst h; rw [attempt_newErr]; simp [connArgs]
  · rw [attempt_failSock s a h]; simp [connArgs]
  · subst h; rw [attempt_ok]; simp [connArgs]

theorem closeOld_frame (s : St) :
    (closeOld s).count = s.count ∧ (closeOld s).log = s.log ∧ (closeOld s).nextId = s.nextId := by
  unfold closeOld closeSock; cases s.client <;> exact ⟨rfl, rfl, rfl⟩

theorem reconnect_count (s : St) (a : Att) :
    ((reconnect s a).1.count = s.count ∧ connArgs (reconnect s a).1.log = connArgs s.log ∧ (reconnect s a).2 ≠ none) ∨
    (a = .ok ∧ (reconnect s a).2 = none ∧ (reconnect s a).1.count = s.count + 1 ∧
      connArgs (reconnect s a).1.log = (s.count + 1) :: connArgs s.log ∧
      (reconnect s a).1.client = some s.nextId ∧ (reconnect s a).1.sock s.nextId = some true ∧
      (reconnect s a).1.nextId = s.nextId + 1) := by
  unfold reconnect
  obtain ⟨h1, h2, h3⟩ := closeOld_frame s
  have := attempt_count (closeOld s) a
  rw [h1, h2, h3] at this
  exact this

theorem count_step_aux (cfg : Cfg) (s : St) (l : Label) :
    ((step cfg s l).count = s.count ∧ connArgs (step cfg s l).log = connArgs s.log) ∨
    ((step cfg s l).count = s.count + 1 ∧ connArgs (step cfg s l).log = (s.count + 1) :: connArgs s.log ∧
      ((∃ g, l = .callBegin g .ok) ∨ l = .start false .ok) ∧
      (step cfg s l).client = some s.nextId ∧ (step cfg s l).sock s.nextId = some true ∧
      (step cfg s l).nextId = s.nextId + 1) := by
  cases l with
  | start lazy a =>
    simp only [step]
    split
    · exact Or.inl ⟨rfl, rfl⟩
    · split
      · exact Or.inl ⟨rfl, by simp [connArgs]⟩
      · rename_i hl
        have hl : lazy = false := by simpa using hl
        rcases reconnect_count s a with h | h
        · left
          split
          · rename_i s' heq; rw [heq] at h; exact absurd rfl h.2.2
          · rename_i s' e heq; rw [heq] at h; exact ⟨h.1, by simpa [connArgs] using h.2.1⟩
        · right
          obtain ⟨ha, h2, h3, h4, h5, h6, h7⟩ := h
          split
          · rename_i s' heq; rw [heq] at h3 h4 h5 h6 h7
            exact ⟨h3, by simpa [connArgs] using h4, Or.inr (by rw [hl, ha]), h5, h6, h7⟩
          · rename_i s' e heq; rw [heq] at h2; cases h2
  | callBegin g a =>
    simp only [step]
    split
    · exact Or.inl ⟨rfl, rfl⟩
    · split
      · exact Or.inl ⟨rfl, rfl⟩
      · split
        · exact Or.inl ⟨rfl, by simp [connArgs]⟩
        · split
          · left; unfold enter; split <;> exact ⟨rfl, rfl⟩
          · rcases reconnect_count s a with h | h
            · left
              split
              · rename_i s' e heq; rw [heq] at h; exact ⟨h.1, by simpa [connArgs] using h.2.1⟩
              · rename_i s' heq; rw [heq] at h; exact absurd rfl h.2.2
            · right
              obtain ⟨ha, h2, h3, h4, h5, h6, h7⟩ := h
              split
              · rename_i s' e heq; rw [heq] at h2; cases h2
              · rename_i s' heq; rw [heq] at h3 h4 h5 h6 h7
                unfold enter
                split
                · exact ⟨h3, h4, Or.inl ⟨g, by rw [ha]⟩, h5, h6, h7⟩
                · exact ⟨h3, h4, Or.inl ⟨g, by rw [ha]⟩, h5, h6, h7⟩
  | callEnd g r =>
    left
    simp only [step]
    split
    · exact ⟨rfl, rfl⟩
    · split
      · split
        · split <;> exact ⟨rfl, by simp [closeSock, connArgs]⟩
        · exact ⟨rfl, by simp [connArgs]⟩
      · exact ⟨rfl, by simp [connArgs]⟩
  | kill c => left; simp only [step]; split <;> exact ⟨rfl, rfl⟩
  | close =>
    left
    simp only [step]
    split
    · exact ⟨rfl, rfl⟩
    · split <;> exact ⟨rfl, rfl⟩

/-! #### the three resources behind every factory socket (Hy.Connect) -/

theorem held_close (r : Connect.R3) : Connect.held (Connect.close r) = false := by
  cases r with
  | mk p t c nd =>
    cases p <;> cases t <;> cases c <;>
      simp [Connect.close, Connect.closePkt, Connect.closeTr, Connect.closeConn, Connect.held]

theorem held_connect (e : Connect.Exit) : Connect.held (Connect.connect e).1 = decide (e = .ok) := by
  cases e <;> decide

theorem close_clean (r : Connect.R3) (h1 : r.nilDeref = false) (hp : r.pkt ≠ none) (ht : r.tr ≠ none)
    (hc : r.conn ≠ none) :
    (Connect.close r).nilDeref = false ∧ (Connect.close r).pkt ≠ none ∧ (Connect.close r).tr ≠ none ∧
    (Connect.close r).conn ≠ none := by
  cases r with
  | mk p t c nd =>
    cases p <;> cases t <;> cases c <;>
      simp_all [Connect.close, Connect.closePkt, Connect.closeTr, Connect.closeConn]

/-- invariant tying the open/closed census to the resources: the census bit IS `Connect.held`,
    an open socket's client owns all three unclosed, no recorded run went through a nil pointer -/
structure RInv (s : St) : Prop where
  link  : ∀ x, s.sock x = (s.res x).map Connect.held
  owns  : ∀ x, s.sock x = some true → s.res x = some Connect.owned
  clean : ∀ x r, s.res x = some r → r.nilDeref = false ∧ r.pkt ≠ none ∧ r.tr ≠ none
  full  : ∀ c, s.client = some c → ∀ r, s.res c = some r → r.conn ≠ none

theorem rinv_init : RInv init := by
  constructor <;> simp [init]

theorem rinv_closeSock_cur (s : St) (c : Nat) (h : Inv s) (hr : RInv s) (hc : s.client = some c) :
    RInv (closeSock s c) := by
  have hne : s.sock c ≠ none := h.used c (h.cur c hc)
  obtain ⟨r, hrc⟩ : ∃ r, s.res c = some r := by
    have := hr.link c
    cases hres : s.res c with
    | none => rw [hres] at this; exact absurd this hne
    | some r => exact ⟨r, rfl⟩
  have hcl := hr.clean c r hrc
  have hfu := hr.full c hc r hrc
  have hcc := close_clean r hcl.1 hcl.2.1 hcl.2.2 hfu
  refine ⟨?_, ?_, ?_, ?_⟩
  · intro x
    simp only [closeSock, upd_apply]
    split
    · rename_i hx; subst hx; rw [hrc]; simp [held_close]
    · exact hr.link x
  · intro x hx
    simp only [closeSock, upd_apply] at hx ⊢
    split at hx
    · simp at hx
    · rename_i hne'; simp only [hne', if_false]; exact hr.owns x hx
  · intro x r' hx
    simp only [closeSock, upd_apply] at hx
    split at hx
    · rename_i hx'; subst hx'
      rw [hrc] at hx
      simp only [Option.map_some, Option.some.injEq] at hx
      subst hx
      exact ⟨hcc.1, hcc.2.1, hcc.2.2.1⟩
    · exact hr.clean x r' hx
  · intro c' hc' r' hx
    have hcc' : c' = c := by
      simp only [closeSock] at hc'; rw [hc] at hc'; exact (Option.some.inj hc').symm
    subst hcc'
    simp only [closeSock, upd_apply, if_true, hrc, Option.map_some, Option.some.injEq] at hx
    subst hx
    exact hcc.2.2.2

theorem rinv_closeOld (s : St) (h : Inv s) (hr : RInv s) : RInv (closeOld s) := by
  unfold closeOld
  cases hc : s.client with
  | none => exact hr
  | some c => exact rinv_closeSock_cur s c h hr hc

theorem closeOld_alloc (s : St) (h : Inv s) : ∀ x, (closeOld s).nextId ≤ x → (closeOld s).res x = s.res x := by
  intro x hx
  unfold closeOld at hx ⊢
  cases hc : s.client with
  | none => rfl
  | some c =>
    simp only [hc, closeSock] at hx ⊢
    have := h.cur c hc
    simp only [upd_apply]
    have : x ≠ c := by omega
    simp [this]

theorem connect_fail_clean (a : Att) (ha : a.failsWithSocket) :
    (Connect.connect a.exit).1.nilDeref = false ∧ (Connect.connect a.exit).1.pkt ≠ none ∧
    (Connect.connect a.exit).1.tr ≠ none ∧ Connect.held (Connect.connect a.exit).1 = false := by
  rcases ha with h | h | h <;> subst h <;> decide

theorem rinv_attempt (s : St) (a : Att) (hr : RInv s) : RInv (attempt s a).1 := by
  rcases att_cases a with h' | h' | h' | h' | h'
  · subst h'; rw [attempt_cfgErr]; exact ⟨hr.link, hr.owns, hr.clean, hr.full⟩
  · subst h'; rw [attempt_badCfg]; exact ⟨hr.link, hr.owns, hr.clean, fun c hc => by simp at hc⟩
  · subst h'; rw [attempt_newErr]; exact ⟨hr.link, hr.owns, hr.clean, fun c hc => by simp at hc⟩
  · rw [attempt_failSock s a h']
    have hcf := connect_fail_clean a h'
    refine ⟨?_, ?_, ?_, fun c hc => by simp at hc⟩
    · intro x
      simp only [upd_apply]
      split
      · simp [hcf.2.2.2]
      · exact hr.link x
    · intro x hx
      simp only [upd_apply] at hx ⊢
      split at hx
      · simp at hx
      · rename_i hne; simp only [hne, if_false]; exact hr.owns x hx
    · intro x r hx
      simp only [upd_apply] at hx
      split at hx
      · simp only [Option.some.injEq] at hx; subst hx; exact ⟨hcf.1, hcf.2.1, hcf.2.2.1⟩
      · exact hr.clean x r hx
  · subst h'; rw [attempt_ok]
    refine ⟨?_, ?_, ?_, ?_⟩
    · intro x
      simp only [upd_apply]
      split
      · simp [Connect.held, Connect.owned]
      · exact hr.link x
    · intro x hx
      simp only [upd_apply] at hx ⊢
      split at hx
      · rename_i he; simp [he]
      · rename_i hne; simp only [hne, if_false]; exact hr.owns x hx
    · intro x r hx
      simp only [upd_apply] at hx
      split at hx
      · simp only [Option.some.injEq] at hx; subst hx; simp [Connect.owned]
      · exact hr.clean x r hx
    · intro c hc r hx
      simp only [Option.some.injEq] at hc
      subst hc
      simp only [upd_apply, if_true, Option.some.injEq] at hx
      subst hx; simp [Connect.owned]

theorem rinv_reconnect (s : St) (a : Att) (h : Inv s) (hr : RInv s) : RInv (reconnect s a).1 := by
  unfold reconnect
  exact rinv_attempt _ a (rinv_closeOld s h hr)

theorem rinv_enter (s : St) (g : Nat) (hr : RInv s) : RInv (enter s g) := by
  unfold enter
  split
  · exact ⟨hr.link, hr.owns, hr.clean, hr.full⟩
  · exact hr

theorem rinv_step (s : St) (l : Label) (h : Inv s) (hr : RInv s) : RInv (step fixed s l) := by
  cases l with
  | start lazy a =>
    simp only [step]
    split
    · exact hr
    · split
      · exact ⟨hr.link, hr.owns, hr.clean, hr.full⟩
      · have h2 := rinv_reconnect s a h hr
        split
        · rename_i s' heq
          have : s' = (reconnect s a).1 := by rw [heq]
          subst this
          exact ⟨h2.link, h2.owns, h2.clean, h2.full⟩
        · rename_i s' e heq
          have : s' = (reconnect s a).1 := by rw [heq]
          subst this
          exact ⟨h2.link, h2.owns, h2.clean, h2.full⟩
  | callBegin g a =>
    simp only [step]
    split
    · exact hr
    · split
      · exact hr
      · split
        · exact ⟨hr.link, hr.owns, hr.clean, hr.full⟩
        · split
          · exact rinv_enter s g hr
          · have h2 := rinv_reconnect s a h hr
            split
            · rename_i s' e heq
              have : s' = (reconnect s a).1 := by rw [heq]
              subst this
              exact ⟨h2.link, h2.owns, h2.clean, h2.full⟩
            · rename_i s' heq
              have : s' = (reconnect s a).1 := by rw [heq]
              subst this
              exact rinv_enter _ g h2
  | callEnd g r =>
    simp only [step]
    split
    · exact hr
    · rename_i c hpc
      have h1 : Inv { s with pc := upd s.pc g .idle, log := .ret g r.toRet :: s.log } :=
        ⟨h.live, h.fin, h.alloc, h.used, h.cur, h.cs, by simpa [connArgs] using h.cnt,
          by simpa [newSocks] using h.socks⟩
      have hr1 : RInv { s with pc := upd s.pc g .idle, log := .ret g r.toRet :: s.log } :=
        ⟨hr.link, hr.owns, hr.clean, hr.full⟩
      split
      · split
        · rename_i hcur
          simp only [fixed, if_true]
          have h2 := rinv_closeSock_cur _ c h1 hr1 hcur
          exact ⟨h2.link, h2.owns, h2.clean, fun c' hc' => by cases hc'⟩
        · exact hr1
      · exact hr1
  | kill c =>
    simp only [step]
    split
    · exact ⟨hr.link, hr.owns, hr.clean, hr.full⟩
    · exact hr
  | close =>
    simp only [step]
    split
    · exact hr
    · split
      · rename_i c hc
        have h2 := rinv_closeSock_cur s c h hr hc
        exact ⟨h2.link, h2.owns, h2.clean, h2.full⟩
      · exact ⟨hr.link, hr.owns, hr.clean, hr.full⟩

theorem inv_rinv_run (tr : List Label) : ∀ s, Inv s → RInv s → Inv (run fixed s tr) ∧ RInv (run fixed s tr) := by
  induction tr with
  | nil => intro s h hr; exact ⟨h, hr⟩
  | cons l tr ih => intro s h hr; exact ih _ (inv_step s l h) (rinv_step s l h hr)

end Hy.Reconnect
