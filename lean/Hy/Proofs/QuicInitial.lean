/- Helper lemmas for the QUIC sniffer chain: totality (C03) and buffer preservation (C17). -/
import Hy.Model.QuicInitial
set_option linter.unusedSimpArgs false
set_option linter.unusedVariables false
namespace Hy.Quic
open Hy Hy.Res

/-! ### header.go: nothing in the header parser can fault -/

theorem readByte_noPanic (r : Bytes) : NoPanic (readByte r) := by
  unfold readByte; split <;> simp

theorem beUint32_noPanic (r : Bytes) : NoPanic (beUint32 r) := by
  unfold beUint32; split <;> simp

theorem readConnID_noPanic (n : Nat) (r : Bytes) : NoPanic (readConnID n r) := by
  unfold readConnID; split
  · simp
  · split <;> simp

theorem readVarint_noPanic (r : Bytes) : NoPanic (readVarint r) := by
  unfold readVarint; split <;> simp

theorem parseLongHeader_noPanic (data : Bytes) : NoPanic (parseLongHeader data) := by
  unfold parseLongHeader
  simp only [Res.bind_eq]
  refine noPanic_bind _ _ (readByte_noPanic _) ?_
  intro x0 _
  refine noPanic_bind _ _ (beUint32_noPanic _) ?_
  intro x1 _
  split
  · simp
  refine noPanic_bind _ _ (readByte_noPanic _) ?_
  intro x2 _
  refine noPanic_bind _ _ (readConnID_noPanic _ _) ?_
  intro x3 _
  refine noPanic_bind _ _ (readByte_noPanic _) ?_
  intro x4 _
  refine noPanic_bind _ _ (readConnID_noPanic _ _) ?_
  intro x5 _
  refine noPanic_bind _ _ ?_ ?_
  · generalize (if x1.fst = V2 then 1 else 0) = it
    split
    · refine noPanic_bind _ _ (readVarint_noPanic _) ?_
      intro x6 _
      split <;> simp
    · simp
  intro x7 _
  refine noPanic_bind _ _ (readVarint_noPanic _) ?_
  intro x8 _
  simp

/-! ### packet_protector.go -/

theorem idx_ok {α} (l : List α) (i : Nat) (h : i < l.length) : Res.idx l i = .ok l[i] := by
  simp [Res.idx, List.getElem?_eq_getElem h]

theorem slice_ok {α} (l : List α) (i j : Nat) (h1 : i ≤ j) (h2 : j ≤ l.length) :
    Res.slice l i j = .ok ((l.take j).drop i) := by
  simp [Res.slice, h1, h2]

theorem pnLoop_ok (m : Bytes) (len pnOffset : Nat) : ∀ (n i : Nat) (arr : Bytes) (pn : Nat),
    i + n ≤ 4 → pnOffset + 4 ≤ len → len ≤ arr.length → 5 ≤ m.length →
    ∃ arr' pn', pnLoop m len pnOffset n i arr pn = .ok (arr', pn') ∧ arr'.length = arr.length := by
  intro n
  induction n with
  | zero => intro i arr pn _ _ _ _; exact ⟨arr, pn, rfl, rfl⟩
  | succ n ih =>
    intro i arr pn h1 h2 h3 h4
    unfold pnLoop
    have c1 : ¬ pnOffset > len := by omega
    have c2 : ¬ i ≥ len - pnOffset := by omega
    simp only [c1, c2, ↓reduceIte, Res.bind_eq]
    rw [idx_ok arr (pnOffset + i) (by omega), idx_ok m (1 + i) (by omega)]
    simp only [Res.bind_ok]
    obtain ⟨arr', pn', e, hl⟩ := ih (i + 1) (arr.set (pnOffset + i) (bxor arr[pnOffset + i] m[1 + i]))
      (pn * 256 + (bxor arr[pnOffset + i] m[1 + i]).val) (by omega) h2 (by simpa using h3) h4
    exact ⟨arr', pn', e, by simpa using hl⟩

/-- the repaired UnProtect never faults: any packet, any offset, any crypto behaviour
    (the mask function returns at least the 5 bytes the code indexes; AES gives 16) -/
theorem unprotect_noPanic (cfg : Cfg) (C : Crypto) (ver : Nat) (dcid arr : Bytes) (len pnOffset pnMax : Nat)
    (hcfg : cfg.checkAll = true) (hlen : 0 < len) (hcap : len ≤ arr.length)
    (hmask : ∀ v d s, 5 ≤ (C.mask v d s).length) :
    ∃ x, unprotect cfg C ver dcid arr len pnOffset pnMax = .ok x := by
  unfold unprotect
  have c0 : ¬ len = 0 := by omega
  simp only [c0, ↓reduceIte, Res.bind_eq, hcfg, Bool.or_true, Bool.true_and]
  rw [idx_ok arr 0 (by omega)]
  simp only [Res.bind_ok]
  split
  · exact ⟨_, rfl⟩
  · rename_i hge
    have hge' : pnOffset + 4 + 16 ≤ len := by simpa using hge
    rw [slice_ok arr _ _ (by omega) (by omega)]
    simp only [Res.bind_ok]
    generalize hm : C.mask ver dcid _ = m
    have hm5 : 5 ≤ m.length := by rw [← hm]; exact hmask _ _ _
    rw [idx_ok m 0 (by omega)]
    simp only [Res.bind_ok]
    generalize hb : bxor arr[0] (byte (m[0].val % if decide (arr[0].val ≥ 128) = true then 16 else 32)) = b0'
    have hpl : b0'.val % 4 + 1 ≤ 4 := by omega
    obtain ⟨arr', pn', e, hl⟩ := pnLoop_ok m len pnOffset (b0'.val % 4 + 1) 0 (arr.set 0 b0') 0
      (by omega) (by omega) (by simpa using hcap) hm5
    rw [e]
    simp only [Res.bind_ok]
    have hl' : arr'.length = arr.length := by simpa using hl
    rw [slice_ok arr' 0 _ (by omega) (by omega)]
    simp only [Res.bind_ok]
    have c1 : ¬ pnOffset > len := by omega
    have c2 : ¬ b0'.val % 4 + 1 > len - pnOffset := by omega
    simp only [c1, c2, ↓reduceIte]
    split
    · exact ⟨_, rfl⟩
    · split <;> exact ⟨_, rfl⟩

theorem unprotect_noPanic' (cfg : Cfg) (C : Crypto) (ver : Nat) (dcid arr : Bytes) (len pnOffset pnMax : Nat)
    (hcfg : cfg.checkAll = true) (hlen : 0 < len) (hcap : len ≤ arr.length)
    (hmask : ∀ v d s, 5 ≤ (C.mask v d s).length) :
    NoPanic (unprotect cfg C ver dcid arr len pnOffset pnMax) := by
  obtain ⟨x, hx⟩ := unprotect_noPanic cfg C ver dcid arr len pnOffset pnMax hcfg hlen hcap hmask
  rw [hx]; simp

/-! ### payload.go -/

theorem extractAux_noPanic : ∀ (fuel : Nat) (r : Bytes) (acc : List Frame), NoPanic (extractAux fuel r acc) := by
  intro fuel
  induction fuel with
  | zero => intro r acc; simp [extractAux]
  | succ f ih =>
    intro r acc
    unfold extractAux
    split
    · simp
    · simp only [Res.bind_eq]
      refine noPanic_bind _ _ (readVarint_noPanic _) ?_
      intro x0 _
      split
      · exact ih _ _
      · split
        · simp
        · refine noPanic_bind _ _ (readVarint_noPanic _) ?_
          intro x1 _
          refine noPanic_bind _ _ (readVarint_noPanic _) ?_
          intro x2 _
          split
          · simp
          · split
            · simp
            · exact ih _ _

theorem extractCryptoFrames_noPanic (r : Bytes) : NoPanic (extractCryptoFrames r) :=
  extractAux_noPanic _ _ _

/-- in a contiguous list every frame starts at or before the last one -/
theorem contiguous_le_last : ∀ (fs : List Frame) (last : Frame), contiguous fs = true →
    fs.getLast? = some last → ∀ f ∈ fs, f.offset ≤ last.offset := by
  intro fs
  induction fs with
  | nil => intro last _ _ f hf; simp at hf
  | cons a rest ih =>
    intro last hc hl f hf
    cases rest with
    | nil =>
      simp at hl hf
      subst hl; subst hf; exact Nat.le_refl _
    | cons b rest' =>
      simp only [contiguous, Bool.and_eq_true, beq_iff_eq] at hc
      have hl' : (b :: rest').getLast? = some last := by
        simpa [List.getLast?_cons_cons] using hl
      have hb := ih last hc.2 hl'
      rcases List.mem_cons.mp hf with h1 | h1
      · subst h1
        have := hb b (by simp)
        omega
      · exact hb f h1

theorem copyFrames_noPanic : ∀ (fs : List Frame) (data : Bytes),
    (∀ f ∈ fs, f.offset ≤ data.length) → NoPanic (copyFrames fs data) := by
  intro fs
  induction fs with
  | nil => intro data _; simp [copyFrames]
  | cons f rest ih =>
    intro data h
    unfold copyFrames
    have hf : f.offset ≤ data.length := h f (by simp)
    simp only [Res.bind_eq, Res.sliceFrom, hf, ↓reduceIte, Res.bind_ok]
    apply ih
    intro g hg
    have := h g (by simp [hg])
    simp only [List.length_append, List.length_take, List.length_drop]
    omega

theorem assemble_noPanic (sortFn : List Frame → List Frame) (frames : List Frame)
    (hsort : ∀ l, (sortFn l).length = l.length) :
    NoPanic (assembleCryptoFrames sortFn frames) := by
  unfold assembleCryptoFrames
  split
  · simp
  · simp
  · rename_i f1 f2 rest
    simp only [Res.bind_eq]
    have hlen := hsort (f1 :: f2 :: rest)
    generalize sortFn (f1 :: f2 :: rest) = fs at hlen
    simp only [List.length_cons] at hlen
    split
    · simp
    · rename_i hc
      have hc' : contiguous fs = true := by simpa using hc
      have h0 : ¬ fs.length = 0 := by omega
      simp only [h0, ↓reduceIte]
      have hlt : fs.length - 1 < fs.length := by omega
      rw [idx_ok fs _ hlt]
      simp only [Res.bind_ok]
      split
      · simp
      · split
        · simp
        · apply copyFrames_noPanic
          intro f hf
          have hl : fs.getLast? = some fs[fs.length - 1] := by
            rw [List.getLast?_eq_getElem?]; simp [List.getElem?_eq_getElem hlt]
          have := contiguous_le_last fs _ hc' hl f hf
          simp only [List.length_replicate]
          omega

theorem catchReject_ok {α} (r : Res α) (h : NoPanic r) : ∃ o, catchReject r = .ok o := by
  cases r with
  | ok a => exact ⟨some a, rfl⟩
  | reject => exact ⟨none, rfl⟩
  | panic => exact absurd rfl h

/-- with both repairs ReadCryptoPayload never faults AND hands the caller's slice back unchanged -/
theorem readCryptoPayload_spec (C : Crypto) (sortFn : List Frame → List Frame) (data : Bytes)
    (hsort : ∀ l, (sortFn l).length = l.length) (hmask : ∀ v d s, 5 ≤ (C.mask v d s).length) :
    ∃ pl, readCryptoPayload fixed C sortFn data = .ok (data, pl) := by
  unfold readCryptoPayload
  simp only [Res.bind_eq, fixed]
  obtain ⟨o, ho⟩ := catchReject_ok _ (parseLongHeader_noPanic data)
  rw [ho]
  simp only [Res.bind_ok]
  cases o with
  | none => exact ⟨none, rfl⟩
  | some hr =>
    obtain ⟨hdr, rest⟩ := hr
    simp only
    split
    · exact ⟨none, rfl⟩
    split
    · exact ⟨none, rfl⟩
    rename_i hz
    split
    · exact ⟨none, rfl⟩
    rename_i hge
    generalize hn : data.length - rest.length + hdr.length = n at hge hz ⊢
    have hn1 : n ≤ data.length := by omega
    have hn0 : 0 < n := by omega
    simp only [Res.sliceTo, hn1, ↓reduceIte, Res.bind_ok]
    obtain ⟨x, hu⟩ := unprotect_noPanic ⟨true, true⟩ C hdr.version hdr.dcid (data.take n) n
      (data.length - rest.length) 2 rfl hn0 (by simp; omega) hmask
    rw [hu]
    · obtain ⟨arr', r⟩ := x
      simp only [Res.bind_ok]
      cases r with
      | none => exact ⟨none, rfl⟩
      | some dec =>
        simp only
        obtain ⟨o1, ho1⟩ := catchReject_ok _ (extractCryptoFrames_noPanic dec)
        rw [ho1]
        simp only [Res.bind_ok]
        cases o1 with
        | none => exact ⟨none, rfl⟩
        | some frs =>
          simp only
          obtain ⟨o2, ho2⟩ := catchReject_ok _ (assemble_noPanic sortFn frs hsort)
          rw [ho2]
          simp only [Res.bind_ok]
          cases o2 with
          | none => exact ⟨none, rfl⟩
          | some pl => exact ⟨some pl, rfl⟩

/-- Sniffer.UDP with both repairs: never faults, the packet is handed back as it came, and the
    address is either untouched or JoinHostPort(server name found in the decrypted CRYPTO
    payload, port of the original address). -/
theorem sniffUDP_spec (C : Crypto) (sortFn : List Frame → List Frame) (sni : Bytes → Option Bytes)
    (addr data : Bytes)
    (hsort : ∀ l, (sortFn l).length = l.length) (hmask : ∀ v d s, 5 ≤ (C.mask v d s).length) :
    ∃ addr' err, sniffUDP fixed C sortFn sni addr data = .ok ⟨data, addr', err⟩ ∧
      (addr' = addr ∨ ∃ pl n h p, readCryptoPayload fixed C sortFn data = .ok (data, some pl)
          ∧ sni pl = some n ∧ n ≠ [] ∧ Sniff.splitHostPort addr = some (h, p)
          ∧ addr' = Sniff.joinHostPort n p ∧ err = false) := by
  obtain ⟨pl, hpl⟩ := readCryptoPayload_spec C sortFn data hsort hmask
  unfold sniffUDP
  simp only [Res.bind_eq, hpl, Res.bind_ok]
  cases pl with
  | none => exact ⟨addr, false, rfl, Or.inl rfl⟩
  | some pl =>
    simp only
    split
    · exact ⟨addr, false, rfl, Or.inl rfl⟩
    · rename_i h4
      rw [idx_ok pl 0 (by omega)]
      simp only [Res.bind_ok]
      split
      · exact ⟨addr, false, rfl, Or.inl rfl⟩
      · cases hs : sni pl with
        | none => exact ⟨addr, false, rfl, Or.inl rfl⟩
        | some n =>
          simp only
          split
          · rename_i hne
            cases hsp : Sniff.splitHostPort addr with
            | none => exact ⟨addr, true, rfl, Or.inl rfl⟩
            | some hp =>
              obtain ⟨h, p⟩ := hp
              exact ⟨_, false, rfl, Or.inr ⟨pl, n, h, p, rfl, hs, hne, rfl, rfl, rfl⟩⟩
          · exact ⟨addr, false, rfl, Or.inl rfl⟩

end Hy.Quic
