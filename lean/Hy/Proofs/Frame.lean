import Hy.Model.Frame
set_option linter.unusedSimpArgs false
namespace Hy.Frame
open Hy Hy.Varint

/-! ## the generic varint reader on the flat stream is `Varint.dec` -/

theorem varint_flat (bs : Bytes) : varint flat bs = Varint.dec bs := by
  cases bs with
  | nil => rfl
  | cons b rest =>
    simp only [varint, flat, rbF, Varint.dec]
    by_cases h0 : b.val / 64 = 0
    · simp [h0, rbN]
    · by_cases h1 : b.val / 64 = 1
      · simp only [h1, show ¬ (1 = 0) by decide, ↓reduceIte]
        cases rest with
        | nil => simp [rbN, rbF]
        | cons b2 r => simp [rbN, rbF]; omega
      · by_cases h2 : b.val / 64 = 2
        · simp only [h2, show ¬ (2 = 0) by decide, show ¬ (2 = 1) by decide, ↓reduceIte]
          match rest with
          | [] => simp [rbN, rbF]
          | [_] => simp [rbN, rbF]
          | [_, _] => simp [rbN, rbF]
          | b2 :: b3 :: b4 :: r => simp [rbN, rbF]; omega
        · simp only [h0, h1, h2, ↓reduceIte]
          match rest with
          | [] => simp [rbN, rbF]
          | [_] => simp [rbN, rbF]
          | [_, _] => simp [rbN, rbF]
          | [_, _, _] => simp [rbN, rbF]
          | [_, _, _, _] => simp [rbN, rbF]
          | [_, _, _, _, _] => simp [rbN, rbF]
          | [_, _, _, _, _, _] => simp [rbN, rbF]
          | b2 :: b3 :: b4 :: b5 :: b6 :: b7 :: b8 :: r => simp [rbN, rbF]; omega

/-! ## simulation between two stream implementations -/

/-- `f` maps concrete stream states to abstract ones and commutes with both primitives -/
structure Sim {σ τ : Type} (O : Ops σ) (P : Ops τ) (f : σ → τ) : Prop where
  rb : ∀ s, (O.rb s).map (fun p => (p.1, f p.2)) = P.rb (f s)
  take : ∀ n s, (O.take n s).map (fun p => (p.1, f p.2)) = P.take n (f s)

def Rd.map {σ τ α} (f : σ → τ) : Rd σ α → Rd τ α
  | .ok a s => .ok a (f s)
  | .eof => .eof
  | .proto s => .proto (f s)

theorem rbN_sim {σ τ} {O : Ops σ} {P : Ops τ} {f : σ → τ} (h : Sim O P f) (k acc : Nat) (s : σ) :
    (rbN O k acc s).map (fun p => (p.1, f p.2)) = rbN P k acc (f s) := by
  induction k generalizing acc s with
  | zero => simp [rbN]
  | succ k ih =>
    simp only [rbN]
    have := h.rb s
    cases hO : O.rb s with
    | none => rw [hO] at this; simp at this; rw [← this]; simp
    | some p =>
      rw [hO] at this; simp only [Option.map_some] at this; rw [← this]
      simpa using ih _ _

theorem varint_sim {σ τ} {O : Ops σ} {P : Ops τ} {f : σ → τ} (h : Sim O P f) (s : σ) :
    (varint O s).map (fun p => (p.1, f p.2)) = varint P (f s) := by
  unfold varint
  have := h.rb s
  cases hO : O.rb s with
  | none => rw [hO] at this; simp at this; rw [← this]; simp
  | some p =>
    rw [hO] at this; simp only [Option.map_some] at this; rw [← this]
    simpa using rbN_sim h _ _ _

/-- helper: case analysis on a simulated option-valued primitive -/
theorem sim_cases {σ τ α} {f : σ → τ} {x : Option (α × σ)} {y : Option (α × τ)}
    (h : x.map (fun p => (p.1, f p.2)) = y) :
    (x = none ∧ y = none) ∨ (∃ a s, x = some (a, s) ∧ y = some (a, f s)) := by
  cases x with
  | none => left; simp at h; exact ⟨rfl, h.symm⟩
  | some p => right; exact ⟨p.1, p.2, rfl, by simpa using h.symm⟩

theorem readRequest_sim {σ τ} {O : Ops σ} {P : Ops τ} {f : σ → τ} (h : Sim O P f) (s : σ) :
    (readRequest O s).map f = readRequest P (f s) := by
  unfold readRequest
  rcases sim_cases (varint_sim h s) with ⟨e1, e2⟩ | ⟨n, s1, e1, e2⟩
  · rw [e1, e2]; rfl
  rw [e1, e2]; simp only
  split
  · rfl
  rcases sim_cases (h.take n s1) with ⟨e3, e4⟩ | ⟨a, s2, e3, e4⟩
  · rw [e3, e4]; rfl
  rw [e3, e4]; simp only
  rcases sim_cases (varint_sim h s2) with ⟨e5, e6⟩ | ⟨pl, s3, e5, e6⟩
  · rw [e5, e6]; rfl
  rw [e5, e6]; simp only
  split
  · rfl
  split
  · rcases sim_cases (h.take pl s3) with ⟨e7, e8⟩ | ⟨_, s4, e7, e8⟩
    · rw [e7, e8]; rfl
    · rw [e7, e8]; rfl
  · rfl

theorem requestAlloc_sim {σ τ} {O : Ops σ} {P : Ops τ} {f : σ → τ} (h : Sim O P f) (s : σ) :
    requestAlloc O s = requestAlloc P (f s) := by
  unfold requestAlloc
  rcases sim_cases (varint_sim h s) with ⟨e1, e2⟩ | ⟨n, s1, e1, e2⟩
  · rw [e1, e2]
  · rw [e1, e2]

theorem readResponse_sim {σ τ} {O : Ops σ} {P : Ops τ} {f : σ → τ} (h : Sim O P f) (s : σ) :
    (readResponse O s).map f = readResponse P (f s) := by
  unfold readResponse
  rcases sim_cases (h.take 1 s) with ⟨e, e'⟩ | ⟨st, s0, e, e'⟩
  · rw [e, e']; rfl
  rw [e, e']; simp only
  rcases sim_cases (varint_sim h s0) with ⟨e1, e2⟩ | ⟨n, s1, e1, e2⟩
  · rw [e1, e2]; rfl
  rw [e1, e2]; simp only
  split
  · rfl
  have hm : (if n > 0 then O.take n s1 else some ([], s1)).map (fun p => (p.1, f p.2))
      = (if n > 0 then P.take n (f s1) else some ([], f s1)) := by
    split
    · exact h.take n s1
    · rfl
  rcases sim_cases hm with ⟨e3, e4⟩ | ⟨a, s2, e3, e4⟩
  · rw [e3, e4]; rfl
  rw [e3, e4]; simp only
  rcases sim_cases (varint_sim h s2) with ⟨e5, e6⟩ | ⟨pl, s3, e5, e6⟩
  · rw [e5, e6]; rfl
  rw [e5, e6]; simp only
  split
  · rfl
  split
  · rcases sim_cases (h.take pl s3) with ⟨e7, e8⟩ | ⟨_, s4, e7, e8⟩
    · rw [e7, e8]; rfl
    · rw [e7, e8]; rfl
  · rfl

theorem readFramedRequest_sim {σ τ} {O : Ops σ} {P : Ops τ} {f : σ → τ} (h : Sim O P f) (s : σ) :
    (readFramedRequest O s).map f = readFramedRequest P (f s) := by
  unfold readFramedRequest
  rcases sim_cases (varint_sim h s) with ⟨e1, e2⟩ | ⟨n, s1, e1, e2⟩
  · rw [e1, e2]; rfl
  rw [e1, e2]; simp only
  split
  · exact readRequest_sim h s1
  · rfl

/-! ## the chunked stream simulates the flat one via `flatten` -/

theorem rbC_flat (cs : List Bytes) :
    (rbC cs).map (fun p => (p.1, p.2.flatten)) = rbF cs.flatten := by
  induction cs with
  | nil => rfl
  | cons c cs ih =>
    cases c with
    | nil => simpa [rbC] using ih
    | cons b c => simp [rbC, rbF]

theorem takeC_flat (n : Nat) (cs : List Bytes) :
    (takeC n cs).map (fun p => (p.1, p.2.flatten)) = takeF n cs.flatten := by
  induction cs generalizing n with
  | nil =>
    simp only [takeC, takeF, List.flatten_nil, List.length_nil, Nat.le_zero_eq]
    split <;> simp_all
  | cons c cs ih =>
    simp only [takeC, List.flatten_cons]
    split
    · rename_i h
      simp only [Option.map_some, List.flatten_cons, takeF, List.length_append]
      rw [if_pos (by omega)]
      simp [List.take_append_of_le_length h, List.drop_append_of_le_length h]
    · rename_i h
      have ih' := ih (n - c.length)
      unfold takeF at ih' ⊢
      simp only [List.length_append]
      cases hT : takeC (n - c.length) cs with
      | none =>
        rw [hT] at ih'
        simp only [Option.map_none] at ih' ⊢
        split at ih'
        · simp at ih'
        · rw [if_neg (by omega)]
      | some p =>
        rw [hT] at ih'
        simp only [Option.map_some] at ih' ⊢
        split at ih'
        · rw [if_pos (by omega)]
          simp only [Option.some.injEq, Prod.mk.injEq] at ih' ⊢
          rw [List.take_append, List.drop_append]
          have h1 : List.take n c = c := List.take_of_length_le (by omega)
          have h2 : List.drop n c = [] := List.drop_of_length_le (by omega)
          rw [h1, h2, ih'.1, ih'.2]; simp
        · simp at ih'

theorem chunked_sim : Sim chunked flat List.flatten :=
  ⟨rbC_flat, takeC_flat⟩

/-! ## round trips on the flat stream -/

theorem takeF_append (a rest : Bytes) : takeF a.length (a ++ rest) = some (a, rest) := by
  simp [takeF]

theorem readRequest_writeW (w1 w2 : Nat) (addr pad rest : Bytes)
    (ha : 1 ≤ addr.length) (ha' : addr.length ≤ Gen.MaxAddressLength)
    (hp : pad.length ≤ Gen.MaxPaddingLength)
    (f1 : fits w1 addr.length) (f2 : fits w2 pad.length) :
    readRequest flat (writeRequestW w1 w2 addr pad ++ rest) = .ok addr rest := by
  unfold readRequest writeRequestW
  simp only [varint_flat, List.append_assoc]
  rw [dec_encW _ _ _ f1]
  simp only
  rw [if_neg (by omega)]
  simp only [flat, takeF_append]
  have : varint { rb := rbF, take := takeF } = varint flat := rfl
  simp only [dec_encW _ _ _ f2]
  rw [if_neg (by omega)]
  split
  · simp [takeF_append]
  · have : pad = [] := by
      cases pad with
      | nil => rfl
      | cons _ _ => simp at *
    simp [this]

theorem readResponse_writeW (w1 w2 : Nat) (ok : Bool) (msg pad rest : Bytes)
    (hm : msg.length ≤ Gen.MaxMessageLength)
    (hp : pad.length ≤ Gen.MaxPaddingLength)
    (f1 : fits w1 msg.length) (f2 : fits w2 pad.length) :
    readResponse flat (writeResponseW w1 w2 ok msg pad ++ rest) = .ok (ok, msg) rest := by
  unfold readResponse writeResponseW
  have hflat : varint { rb := rbF, take := takeF } = varint flat := rfl
  have hst : decide ([if ok = true then byte 0 else byte 1] = [byte 0]) = ok := by
    cases ok <;> decide
  generalize (if ok = true then byte 0 else byte 1) = stb at hst ⊢
  simp only [List.append_assoc, List.cons_append, List.nil_append, flat]
  simp only [show takeF 1 (stb :: (encW w1 msg.length ++ (msg ++ (encW w2 pad.length ++ (pad ++ rest)))))
      = some ([stb], encW w1 msg.length ++ (msg ++ (encW w2 pad.length ++ (pad ++ rest)))) by simp [takeF]]
  simp only [hflat, varint_flat, dec_encW _ _ _ f1, hst]
  rw [if_neg (by omega)]
  have hpad : ¬ pad.length > 0 → pad = [] := by
    intro h
    cases pad with
    | nil => rfl
    | cons _ _ => simp at h
  by_cases hm0 : msg.length > 0
  · simp only [hm0, ↓reduceIte, takeF_append, dec_encW _ _ _ f2]
    rw [if_neg (by omega)]
    split
    · simp only [takeF_append]
    · rename_i h; simp only [hpad h, List.nil_append]
  · have : msg = [] := by
      cases msg with
      | nil => rfl
      | cons _ _ => simp at hm0
    subst this
    simp only [List.length_nil, Nat.lt_irrefl, gt_iff_lt, ↓reduceIte, List.nil_append, dec_encW _ _ _ f2]
    rw [if_neg (by omega)]
    split
    · simp only [takeF_append]
    · rename_i h; simp only [hpad h, List.nil_append]

end Hy.Frame
