/-
  C07 proofs, layer 2: the model refines the skeleton; the full invariant (skeleton invariant +
  program-counter facts + every logged event is attributed to the socket's opener) is preserved
  by every label, hence holds after every schedule.
-/
import Hy.Proofs.UdpSessionSk
namespace Hy.UdpSession
open Hy.UdpAcl (Addr DialRes)

def Entry.core (e : Entry) : CoreE := ⟨e.sid, e.conn, e.closed, e.exitPending, e.lp != .off⟩

def sk (s : St) : Sk := ⟨fun i => (s.ent i).map Entry.core, s.nEnt, s.tbl, s.sock, s.sockEnt, s.nSock⟩

@[simp] theorem sk_emit (s : St) (es : List Ev) : sk (emit s es) = sk s := rfl

theorem sk_ce (s : St) (i : Nat) : (sk s).ce i = (s.ent i).map Entry.core := rfl

theorem sk_ce_some {s : St} {i : Nat} {e : Entry} (h : s.ent i = some e) : (sk s).ce i = some e.core := by
  simp [sk_ce, h]

theorem sk_ce_none {s : St} {i : Nat} (h : s.ent i = none) : (sk s).ce i = none := by
  simp [sk_ce, h]

theorem sk_ce_inv {s : St} {i : Nat} {ce : CoreE} (h : (sk s).ce i = some ce) :
    ∃ e, s.ent i = some e ∧ e.core = ce := by
  rw [sk_ce] at h
  cases he : s.ent i with
  | none => rw [he] at h; simp at h
  | some e => rw [he] at h; simp at h; exact ⟨e, rfl, h⟩

/-- an update that leaves the five lifecycle fields alone is invisible in the skeleton -/
theorem sk_setEnt_benign (s : St) (i : Nat) (e e' : Entry) (h : s.ent i = some e) (hc : e'.core = e.core) :
    sk (setEnt s i e') = sk s := by
  unfold sk setEnt
  simp only [Sk.mk.injEq, and_true]
  funext j
  simp only [upd]
  split
  · rename_i hji; subst hji; simp [h, hc]
  · rfl

theorem sk_setEnt (s : St) (i : Nat) (e' : Entry) :
    sk (setEnt s i e') = { sk s with ce := upd (sk s).ce i (some e'.core) } := by
  unfold sk setEnt
  simp only [Sk.mk.injEq, and_true]
  funext j
  simp only [upd]
  split <;> simp

theorem sk_closeA (s : St) (i : Nat) (b : Bool) : sk (closeA s i b) = skCloseA (sk s) i := by
  unfold closeA skCloseA
  cases he : s.ent i with
  | none => simp [sk_ce, he]
  | some e =>
    simp only [sk_ce, he, Option.map_some]
    by_cases hc : e.closed = true
    · simp [hc, Entry.core]
    · have hc' : e.closed = false := by simpa using hc
      simp only [hc', Entry.core, Bool.false_eq_true, if_false]
      cases hconn : e.conn with
      | none =>
        simp only
        rw [sk_setEnt]; rfl
      | some c =>
        simp only [sk_emit]
        show sk { setEnt s i _ with sock := _ } = _
        unfold sk setEnt
        simp only [Sk.mk.injEq, and_true, true_and]
        funext j
        simp only [upd]
        split <;> simp [Entry.core, hconn]

/-- what a label can do to the skeleton -/
inductive SkStep (k : Sk) : Sk → Prop
  | same : SkStep k k
  | insert (sid : Nat) : k.tbl sid = none → SkStep k (skInsert k sid)
  | dial (i : Nat) (e : CoreE) : k.ce i = some e → e.conn = none → e.closed = false → SkStep k (skDial k i e)
  | closeA (i : Nat) : SkStep k (skCloseA k i)
  | closeOff (i : Nat) : SkStep k (skOff (skCloseA k i) i)
  | exitB (i : Nat) : SkStep k (skExitB k i)

theorem SkStep.inv {k k' : Sk} (h : SkStep k k') (hi : InvSk k) : InvSk k' := by
  cases h with
  | same => exact hi
  | insert sid hn => exact invSk_insert k sid hi hn
  | dial i e he hc hcl => exact invSk_dial k i e hi he hc hcl
  | closeA i => exact invSk_closeA k i hi
  | closeOff i => exact invSk_off _ i (invSk_closeA k i hi)
  | exitB i => exact invSk_exitB k i hi

theorem SkStep.mono {k k' : Sk} (h : SkStep k k') (hi : InvSk k) : Mono k k' := by
  cases h with
  | same => exact Mono.refl k
  | insert sid hn => exact mono_insert k sid hi
  | dial i e he hc hcl => exact mono_dial k i e he hc hcl
  | closeA i => exact mono_closeA k i
  | closeOff i => exact (mono_closeA k i).trans (mono_off _ i)
  | exitB i => exact mono_exitB k i

/-! ### Defragger: the datagram handed on belongs to the session of the fragment that completed it -/

theorem defrag_sid (d : Defrag) (m dm : Msg) (h : (d.feed m).2 = some dm) : dm.sid = m.sid := by
  unfold Defrag.feed at h
  split at h
  · simp at h; rw [← h]
  · split at h
    · simp at h
    · split at h
      · simp at h
      · split at h
        · dsimp only at h
          split at h
          · simp at h; rw [← h]
          · simp at h
        · simp at h

/-! ### program-counter facts and event attribution, over the skeleton -/

def RlOk (k : Sk) (rl : RlPc) (down stopped : Bool) : Prop :=
  match rl with
  | .create m => k.tbl m.sid = none
  | .feed i m => ∃ e, k.ce i = some e ∧ e.sid = m.sid
  | .write i m => ∃ e, k.ce i = some e ∧ e.sid = m.sid ∧ e.conn.isSome = true
  | .stopping p => down = true ∧ ∀ i e, k.ce i = some e → e.closed = false → i ∈ p
  | .done => down = true ∧ stopped = true ∧ ∀ i e, k.ce i = some e → e.closed = true
  | _ => True

def SwOk (k : Sk) (sw : SwPc) : Prop :=
  match sw with
  | .closing _ sel p => (∀ i, i ∈ sel → ∃ e, k.ce i = some e ∧ (i ∈ p ∨ e.closed = true)) ∧ (∀ i, i ∈ p → i ∈ sel)
  | _ => True

/-- the socket's opener is session `sid` -/
def Opener (k : Sk) (c sid : Nat) : Prop := c < k.nSock ∧ ∃ e, k.ce (k.sockEnt c) = some e ∧ e.sid = sid

def EvOk (k : Sk) : Ev → Prop
  | .write c ms _ _ _ => Opener k c ms
  | .up c sid _ _ => Opener k c sid
  | .dial sid _ (some c) => Opener k c sid
  | _ => True

def EvsOk (k : Sk) (evs : List Ev) : Prop := ∀ ev, ev ∈ evs → EvOk k ev

theorem opener_mono {k k' : Sk} (h : Mono k k') {c sid : Nat} (ho : Opener k c sid) : Opener k' c sid := by
  obtain ⟨hc, e, he, hs⟩ := ho
  obtain ⟨e', he', hs', _, _⟩ := h.ent _ e he
  exact ⟨Nat.lt_of_lt_of_le hc h.nS, e', by rw [h.sE c hc]; exact he', by rw [hs', hs]⟩

theorem evOk_mono {k k' : Sk} (h : Mono k k') (ev : Ev) (ho : EvOk k ev) : EvOk k' ev := by
  cases ev with
  | write c ms a d ok => exact opener_mono h ho
  | up c sid a d => exact opener_mono h ho
  | dial sid a c =>
    cases c with
    | none => trivial
    | some c => exact opener_mono h ho
  | _ => trivial

theorem evsOk_mono {k k' : Sk} (h : Mono k k') {evs : List Ev} (ho : EvsOk k evs) : EvsOk k' evs :=
  fun ev hm => evOk_mono h ev (ho ev hm)

theorem swOk_mono {k k' : Sk} (h : Mono k k') {sw : SwPc} (ho : SwOk k sw) : SwOk k' sw := by
  cases sw with
  | closing now sel p =>
    refine ⟨?_, ho.2⟩
    intro i hi
    obtain ⟨e, he, hd⟩ := ho.1 i hi
    obtain ⟨e', he', _, _, hcl⟩ := h.ent i e he
    refine ⟨e', he', ?_⟩
    rcases hd with hd | hd
    · exact Or.inl hd
    · exact Or.inr (hcl hd).1
  | _ => trivial

theorem rlOk_mono {k k' : Sk} (h : Mono k k') {rl : RlPc} {down stopped : Bool}
    (hdom : ∀ i, k.ce i = none → k'.ce i = none) (htbl : ∀ sid, k.tbl sid = none → k'.tbl sid = none)
    (ho : RlOk k rl down stopped) : RlOk k' rl down stopped := by
  cases rl with
  | create m => exact htbl _ ho
  | feed i m =>
    obtain ⟨e, he, hs⟩ := ho
    obtain ⟨e', he', hs', _, _⟩ := h.ent i e he
    exact ⟨e', he', by rw [hs', hs]⟩
  | write i m =>
    obtain ⟨e, he, hs, hc⟩ := ho
    obtain ⟨e', he', hs', hc', _⟩ := h.ent i e he
    exact ⟨e', he', by rw [hs', hs], by rw [hc' hc]; exact hc⟩
  | stopping p =>
    refine ⟨ho.1, ?_⟩
    intro i e' he' hcl
    cases hk : k.ce i with
    | none => rw [hdom i hk] at he'; simp at he'
    | some e =>
      obtain ⟨e2, he2, _, _, hc2⟩ := h.ent i e hk
      rw [he'] at he2; simp at he2; subst he2
      apply ho.2 i e hk
      cases hce : e.closed with
      | false => rfl
      | true => have := (hc2 hce).1; rw [hcl] at this; simp at this
  | done =>
    refine ⟨ho.1, ho.2.1, ?_⟩
    intro i e' he'
    cases hk : k.ce i with
    | none => rw [hdom i hk] at he'; simp at he'
    | some e =>
      obtain ⟨e2, he2, _, _, hc2⟩ := h.ent i e hk
      rw [he'] at he2; simp at he2; subst he2
      exact (hc2 (ho.2.2 i e hk)).1
  | _ => trivial

/-! ### the invariant -/

structure Inv (s : St) : Prop where
  skI  : InvSk (sk s)
  rl   : RlOk (sk s) s.rl s.down s.stopped
  sw   : SwOk (sk s) s.sw
  stop : s.stopped = true → s.rl = .done
  evs  : EvsOk (sk s) s.evs

theorem inv_init : Inv {} := by
  refine ⟨?_, trivial, trivial, fun h => by simp at h, fun ev h => by simp at h⟩
  have : sk {} = sk0 := rfl
  rw [this]; exact invSk_init

end Hy.UdpSession
