/-
  Lemmas about Hy.Model.Hop (C19): the socket-census invariant, preserved by every step of
  every schedule, and what Close leaves behind.
-/
import Hy.Model.Hop
namespace Hy.Hop
open Hy

/-- the label's random draw respects `rand.Intn(n)`'s contract `0 ≤ result < n` -/
def LabelOK (n : Nat) : Label → Prop
  | .hop _ idx => idx < n
  | _ => True

def SchedOK (n : Nat) (sched : List Label) : Prop := ∀ l ∈ sched, LabelOK n l

/-- census invariant; `P` is the address list the connection was created with -/
structure Inv (P : List HopAddr.Dest) (s : St) : Prop where
  cur_newest : s.cur + 1 = s.mark
  prev_lt : ∀ k, s.prev = some k → k < s.cur
  open_sub : ∀ k, k < s.mark → (s.sock k).closed = false → k = s.cur ∨ s.prev = some k
  live_open : s.closed = false →
    (s.sock s.cur).closed = false ∧ ∀ k, s.prev = some k → (s.sock k).closed = false
  dead_all : s.closed = true → ∀ k, k < s.mark → (s.sock k).closed = true
  ports_eq : s.closed = false → s.ports = P
  idx_ok : s.closed = false → s.addrIndex < P.length

/-- the fields the census is about -/
def SameCensus (s t : St) : Prop :=
  t.ports = s.ports ∧ t.prev = s.prev ∧ t.cur = s.cur ∧ t.addrIndex = s.addrIndex ∧
  t.closed = s.closed ∧ t.mark = s.mark ∧ ∀ k, (t.sock k).closed = (s.sock k).closed

theorem SameCensus.refl (s : St) : SameCensus s s := ⟨rfl, rfl, rfl, rfl, rfl, rfl, fun _ => rfl⟩

theorem Inv.of_same {P : List HopAddr.Dest} {s t : St} (h : Inv P s) (e : SameCensus s t) : Inv P t := by
  obtain ⟨e1, e2, e3, e4, e5, e6, e7⟩ := e
  constructor
  · rw [e3, e6]; exact h.cur_newest
  · rw [e2, e3]; exact h.prev_lt
  · intro k; rw [e6, e7, e3, e2]; exact h.open_sub k
  · rw [e5, e7, e3, e2]; intro hc
    refine ⟨(h.live_open hc).1, ?_⟩
    intro k hk; rw [e7]; exact (h.live_open hc).2 k hk
  · rw [e5, e6]; intro hc k hk; rw [e7]; exact h.dead_all hc k hk
  · rw [e5, e1]; exact h.ports_eq
  · rw [e5, e4]; exact h.idx_ok

/-! ### upd -/

@[simp] theorem upd_same (f : Nat → Sock) (k : Nat) (v : Sock) : upd f k v k = v := by simp [upd]
theorem upd_other (f : Nat → Sock) {k i : Nat} (v : Sock) (h : i ≠ k) : upd f k v i = f i := by
  simp [upd, h]

theorem closeSock_closed (f : Nat → Sock) (k i : Nat) :
    (closeSock f k i).closed = (if i = k then true else (f i).closed) := by
  unfold closeSock upd; split <;> simp

theorem applyCfg_closed (s : St) (k : Sock) : (applyCfg s k).closed = k.closed := by
  unfold applyCfg
  simp only
  repeat' split
  all_goals rfl

/-! ### steps that do not touch the census -/

theorem write_same (s : St) : (write s).1 = s := by
  unfold write; repeat' split
  all_goals rfl

theorem recv_same (s : St) (k : Nat) (d : Bytes) : SameCensus s (recv s k d).1 := by
  unfold recv; repeat' split
  all_goals exact ⟨rfl, rfl, rfl, rfl, rfl, rfl, fun _ => rfl⟩

theorem rtimeout_same (s : St) (k : Nat) : SameCensus s (rtimeout s k).1 := by
  unfold rtimeout; split
  all_goals exact ⟨rfl, rfl, rfl, rfl, rfl, rfl, fun _ => rfl⟩

theorem readBegin_same (b : Bool) (s : St) : SameCensus s (readBeginG b s).1 := by
  unfold readBeginG; repeat' split
  all_goals exact ⟨rfl, rfl, rfl, rfl, rfl, rfl, fun _ => rfl⟩

theorem deliver_same (s : St) (it : Item) (q : List Item) (n : Nat) :
    SameCensus s (deliver s it q n).1 := by
  unfold deliver; split
  all_goals exact ⟨rfl, rfl, rfl, rfl, rfl, rfl, fun _ => rfl⟩

theorem readSelect_same (s : St) (p : Bool) (n : Nat) : SameCensus s (readSelect s p n).1 := by
  unfold readSelect
  split
  · exact SameCensus.refl s
  · split
    · split
      · exact ⟨rfl, rfl, rfl, rfl, rfl, rfl, fun _ => rfl⟩
      · exact SameCensus.refl s
    · split
      · exact ⟨rfl, rfl, rfl, rfl, rfl, rfl, fun _ => rfl⟩
      · exact deliver_same s _ _ n

theorem setPrev_closed (s : St) (f : Sock → Sock) (hf : ∀ k, (f k).closed = k.closed) (i : Nat) :
    (setPrev s f i).closed = (s.sock i).closed := by
  unfold setPrev
  cases s.prev with
  | none => rfl
  | some k =>
    simp only
    split
    · rfl
    · by_cases hi : i = k
      · subst hi; rw [upd_same, hf]
      · rw [upd_other _ _ hi]

/-- `setOn` changes settings only, never which sockets are closed -/
theorem setOn_same (s : St) (f : Sock → Sock) (hf : ∀ k, (f k).closed = k.closed) :
    SameCensus s (setOn s f).1 := by
  unfold setOn
  split
  · exact ⟨rfl, rfl, rfl, rfl, rfl, rfl, setPrev_closed s f hf⟩
  · refine ⟨rfl, rfl, rfl, rfl, rfl, rfl, ?_⟩
    intro i
    simp only
    by_cases hi : i = s.cur
    · subst hi; rw [upd_same, hf]; exact setPrev_closed s f hf _
    · rw [upd_other _ _ hi]; exact setPrev_closed s f hf i

/-! ### hop -/

theorem closePrev_closed (s : St) (i : Nat) :
    (closePrev s i).closed = (if s.prev = some i then true else (s.sock i).closed) := by
  unfold closePrev
  cases hp : s.prev with
  | none => simp
  | some k =>
    simp only [closeSock_closed, Option.some.injEq]
    by_cases h : i = k
    · subst h; simp
    · have : ¬ k = i := fun e => h e.symm
      simp [h, this]

theorem hop_fail_same (s : St) (idx : Nat) : (hop s false idx).1 = s := by
  unfold hop; split <;> simp

theorem hop_closed_same (s : St) (ok : Bool) (idx : Nat) (h : s.closed = true) :
    hop s ok idx = (s, .hopClosed) := by
  unfold hop; simp [h]

theorem hop_inv {P : List HopAddr.Dest} {s : St} (h : Inv P s) (ok : Bool) (idx : Nat)
    (hidx : idx < P.length) : Inv P (hop s ok idx).1 := by
  unfold hop
  by_cases hc : s.closed = true
  · simp only [hc, if_true]; exact h
  · have hc' : s.closed = false := by simpa using hc
    simp only [hc', Bool.false_eq_true, if_false]
    cases ok with
    | false => simp only [Bool.not_false, if_true]; exact h
    | true =>
      simp only [Bool.not_true, Bool.false_eq_true, if_false]
      have hidx0 : s.addrIndex < s.ports.length := by rw [h.ports_eq hc']; exact h.idx_ok hc'
      rw [if_pos hidx0]
      have hlive := h.live_open hc'
      have hnew : ∀ i, (upd (closePrev s) s.mark (applyCfg s Sock.fresh) i).closed =
          (if i = s.mark then false else if s.prev = some i then true else (s.sock i).closed) := by
        intro i
        by_cases hi : i = s.mark
        · subst hi; rw [upd_same, applyCfg_closed]; simp [Sock.fresh]
        · rw [upd_other _ _ hi, closePrev_closed]; simp [hi]
      constructor
      · rfl
      · intro k hk
        simp only [Option.some.injEq] at hk
        subst hk
        have := h.cur_newest
        simp only; omega
      · intro k hk hopen
        simp only at hk hopen ⊢
        rw [hnew] at hopen
        by_cases hi : k = s.mark
        · exact Or.inl hi
        · simp only [hi, if_false] at hopen
          by_cases hp : s.prev = some k
          · simp [hp] at hopen
          · simp only [hp, if_false] at hopen
            rcases h.open_sub k (by omega) hopen with e | e
            · exact Or.inr (by rw [e])
            · exact absurd e hp
      · intro _
        simp only
        refine ⟨by rw [hnew]; simp, ?_⟩
        intro k hk
        simp only [Option.some.injEq] at hk
        subst hk
        rw [hnew]
        have := h.cur_newest
        have hne : ¬ s.cur = s.mark := by omega
        simp only [hne, if_false]
        have hnp : ¬ s.prev = some s.cur := by
          intro e; have := h.prev_lt _ e; omega
        simp only [hnp, if_false]
        exact hlive.1
      · intro hcl; simp only at hcl; cases hcl
      · intro _; exact h.ports_eq hc'
      · intro _; exact hidx

theorem hop_queue (s : St) (ok : Bool) (idx : Nat) : (hop s ok idx).1.queue = s.queue := by
  unfold hop; repeat' split
  all_goals rfl

/-! ### close -/

theorem close_sock_closed (s : St) (i : Nat) :
    (closeSock (closePrev s) s.cur i).closed =
      (if i = s.cur then true else if s.prev = some i then true else (s.sock i).closed) := by
  rw [closeSock_closed, closePrev_closed]

theorem close_inv {P : List HopAddr.Dest} {s : St} (h : Inv P s) : Inv P (close s).1 := by
  unfold close
  by_cases hc : s.closed = true
  · simp only [hc, if_true]; exact h
  · have hc' : s.closed = false := by simpa using hc
    simp only [hc', Bool.false_eq_true, if_false]
    constructor
    · exact h.cur_newest
    · exact h.prev_lt
    · intro k hk hopen
      simp only at hk hopen
      rw [close_sock_closed] at hopen
      by_cases h1 : k = s.cur
      · simp [h1] at hopen
      · by_cases h2 : s.prev = some k
        · simp [h2] at hopen
        · simp only [h1, h2, if_false] at hopen
          exact h.open_sub k hk hopen
    · intro hcl; simp at hcl
    · intro _ k hk
      simp only at hk ⊢
      rw [close_sock_closed]
      by_cases h1 : k = s.cur
      · simp [h1]
      · by_cases h2 : s.prev = some k
        · simp [h2]
        · simp only [h1, h2, if_false]
          cases hcl : (s.sock k).closed with
          | true => rfl
          | false =>
            rcases h.open_sub k hk hcl with e | e
            · exact absurd e h1
            · exact absurd e h2
    · intro hcl; simp at hcl
    · intro hcl; simp at hcl

theorem close_closed (s : St) : (close s).1.closed = true := by
  unfold close; split
  · assumption
  · rfl

theorem close_mark (s : St) : (close s).1.mark = s.mark := by
  unfold close; split <;> rfl

/-! ### every step, every schedule -/

theorem step_inv {P : List HopAddr.Dest} (b : Bool) {s : St} (h : Inv P s) (l : Label)
    (hl : LabelOK P.length l) : Inv P (stepG b s l).1 := by
  cases l with
  | hop ok idx => exact hop_inv h ok idx hl
  | write => simp only [stepG, write_same]; exact h
  | recv k d => exact h.of_same (recv_same s k d)
  | rtimeout k => exact h.of_same (rtimeout_same s k)
  | readBegin => exact h.of_same (readBegin_same b s)
  | readSelect p n => exact h.of_same (readSelect_same s p n)
  | setDeadline t =>
    exact (h.of_same (t := { s with dl := t, rdl := t, wdl := t }) ⟨rfl, rfl, rfl, rfl, rfl, rfl, fun _ => rfl⟩).of_same
      (setOn_same _ _ (fun _ => rfl))
  | setReadDeadline t =>
    exact (h.of_same (t := { s with dl := 0, rdl := t }) ⟨rfl, rfl, rfl, rfl, rfl, rfl, fun _ => rfl⟩).of_same
      (setOn_same _ _ (fun _ => rfl))
  | setWriteDeadline t =>
    exact (h.of_same (t := { s with dl := 0, wdl := t }) ⟨rfl, rfl, rfl, rfl, rfl, rfl, fun _ => rfl⟩).of_same
      (setOn_same _ _ (fun _ => rfl))
  | setReadBuffer n =>
    exact (h.of_same (t := { s with rbuf := n }) ⟨rfl, rfl, rfl, rfl, rfl, rfl, fun _ => rfl⟩).of_same
      (setOn_same _ _ (fun _ => rfl))
  | setWriteBuffer n =>
    exact (h.of_same (t := { s with wbuf := n }) ⟨rfl, rfl, rfl, rfl, rfl, rfl, fun _ => rfl⟩).of_same
      (setOn_same _ _ (fun _ => rfl))
  | localAddr => exact h
  | close => exact close_inv h

theorem run_inv {P : List HopAddr.Dest} (b : Bool) {s : St} (h : Inv P s) (sched : List Label)
    (hs : SchedOK P.length sched) : Inv P (runG b s sched) := by
  induction sched generalizing s with
  | nil => exact h
  | cons l ls ih =>
    simp only [runG, List.foldl_cons]
    exact ih (step_inv b h l (hs l (by simp))) (fun x hx => hs x (List.mem_cons_of_mem _ hx))

theorem init_inv {P : List HopAddr.Dest} {idx : Nat} (h : idx < P.length) : Inv P (initSt P idx) := by
  constructor
  · rfl
  · intro k hk; cases hk
  · intro k hk _; simp only [initSt] at hk ⊢; omega
  · intro _; exact ⟨rfl, fun k hk => by cases hk⟩
  · intro hc; cases hc
  · intro _; rfl
  · intro _; exact h

theorem runG_append (b : Bool) (s : St) (a c : List Label) :
    runG b s (a ++ c) = runG b (runG b s a) c := by
  simp [runG, List.foldl_append]

/-! ### once closed, always closed; nothing new is opened -/

theorem step_closed_mono (b : Bool) (s : St) (l : Label) (h : s.closed = true) :
    (stepG b s l).1.closed = true ∧ (stepG b s l).1.mark = s.mark := by
  cases l with
  | hop ok idx => rw [show stepG b s (.hop ok idx) = hop s ok idx from rfl, hop_closed_same s ok idx h]; exact ⟨h, rfl⟩
  | write => simp only [stepG, write_same]; exact ⟨h, trivial⟩
  | recv k d => have := recv_same s k d; exact ⟨this.2.2.2.2.1.trans h, this.2.2.2.2.2.1⟩
  | rtimeout k => have := rtimeout_same s k; exact ⟨this.2.2.2.2.1.trans h, this.2.2.2.2.2.1⟩
  | readBegin => have := readBegin_same b s; exact ⟨this.2.2.2.2.1.trans h, this.2.2.2.2.2.1⟩
  | readSelect p n => have := readSelect_same s p n; exact ⟨this.2.2.2.2.1.trans h, this.2.2.2.2.2.1⟩
  | setDeadline t => have := setOn_same { s with dl := t, rdl := t, wdl := t } (fun k => { k with rdl := t, wdl := t }) (fun _ => rfl); exact ⟨this.2.2.2.2.1.trans h, this.2.2.2.2.2.1⟩
  | setReadDeadline t => have := setOn_same { s with dl := 0, rdl := t } (fun k => { k with rdl := t }) (fun _ => rfl); exact ⟨this.2.2.2.2.1.trans h, this.2.2.2.2.2.1⟩
  | setWriteDeadline t => have := setOn_same { s with dl := 0, wdl := t } (fun k => { k with wdl := t }) (fun _ => rfl); exact ⟨this.2.2.2.2.1.trans h, this.2.2.2.2.2.1⟩
  | setReadBuffer n => have := setOn_same { s with rbuf := n } (fun k => { k with rbuf := n }) (fun _ => rfl); exact ⟨this.2.2.2.2.1.trans h, this.2.2.2.2.2.1⟩
  | setWriteBuffer n => have := setOn_same { s with wbuf := n } (fun k => { k with wbuf := n }) (fun _ => rfl); exact ⟨this.2.2.2.2.1.trans h, this.2.2.2.2.2.1⟩
  | localAddr => exact ⟨h, rfl⟩
  | close => exact ⟨close_closed s, close_mark s⟩

theorem run_closed_mono (b : Bool) (s : St) (sched : List Label) (h : s.closed = true) :
    (runG b s sched).closed = true ∧ (runG b s sched).mark = s.mark := by
  induction sched generalizing s with
  | nil => exact ⟨h, rfl⟩
  | cons l ls ih =>
    simp only [runG, List.foldl_cons]
    have h1 := step_closed_mono b s l h
    have h2 := ih (stepG b s l).1 h1.1
    exact ⟨h2.1, h2.2.trans h1.2⟩

/-! ### after Close, a read that starts fails (repaired code) -/

/-- closed and no reader parked at the select -/
def Quiet (s : St) : Prop := s.closed = true ∧ s.atSelect = false

theorem setOn_atSelect (s : St) (f : Sock → Sock) : (setOn s f).1.atSelect = s.atSelect := by
  unfold setOn; split <;> rfl

theorem step_quiet (s : St) (l : Label) (h : Quiet s) :
    Quiet (step s l).1 ∧ ∀ d, (step s l).2 ≠ .readPkt d ∧ (step s l).2 ≠ .readTimeout := by
  obtain ⟨hc, ha⟩ := h
  cases l with
  | hop ok idx =>
    rw [show step s (.hop ok idx) = hop s ok idx from rfl, hop_closed_same s ok idx hc]
    exact ⟨⟨hc, ha⟩, fun d => ⟨by simp, by simp⟩⟩
  | write =>
    have : step s .write = (s, .writeClosed) := by simp [step, stepG, write, hc]
    rw [this]; exact ⟨⟨hc, ha⟩, fun d => ⟨by simp, by simp⟩⟩
  | recv k d =>
    simp only [step, stepG, recv]
    repeat' split
    all_goals exact ⟨⟨hc, ha⟩, fun d => ⟨by simp, by simp⟩⟩
  | rtimeout k =>
    simp only [step, stepG, rtimeout]
    split
    all_goals exact ⟨⟨hc, ha⟩, fun d => ⟨by simp, by simp⟩⟩
  | readBegin =>
    have : step s .readBegin = (s, .readErrClosed) := by simp [step, stepG, readBeginG, hc, ha]
    rw [this]; exact ⟨⟨hc, ha⟩, fun d => ⟨by simp, by simp⟩⟩
  | readSelect p n =>
    have : step s (.readSelect p n) = (s, .idle) := by simp [step, stepG, readSelect, ha]
    rw [this]; exact ⟨⟨hc, ha⟩, fun d => ⟨by simp, by simp⟩⟩
  | setDeadline t =>
    simp only [step, stepG]
    have h1 := (setOn_same { s with dl := t, rdl := t, wdl := t } (fun k => { k with rdl := t, wdl := t }) (fun _ => rfl)).2.2.2.2.1
    refine ⟨⟨h1.trans hc, (setOn_atSelect _ _).trans ha⟩, fun d => ?_⟩
    unfold setOn; split <;> exact ⟨by simp, by simp⟩
  | setReadDeadline t =>
    simp only [step, stepG]
    have h1 := (setOn_same { s with dl := 0, rdl := t } (fun k => { k with rdl := t }) (fun _ => rfl)).2.2.2.2.1
    refine ⟨⟨h1.trans hc, (setOn_atSelect _ _).trans ha⟩, fun d => ?_⟩
    unfold setOn; split <;> exact ⟨by simp, by simp⟩
  | setWriteDeadline t =>
    simp only [step, stepG]
    have h1 := (setOn_same { s with dl := 0, wdl := t } (fun k => { k with wdl := t }) (fun _ => rfl)).2.2.2.2.1
    refine ⟨⟨h1.trans hc, (setOn_atSelect _ _).trans ha⟩, fun d => ?_⟩
    unfold setOn; split <;> exact ⟨by simp, by simp⟩
  | setReadBuffer n =>
    simp only [step, stepG]
    have h1 := (setOn_same { s with rbuf := n } (fun k => { k with rbuf := n }) (fun _ => rfl)).2.2.2.2.1
    refine ⟨⟨h1.trans hc, (setOn_atSelect _ _).trans ha⟩, fun d => ?_⟩
    unfold setOn; split <;> exact ⟨by simp, by simp⟩
  | setWriteBuffer n =>
    simp only [step, stepG]
    have h1 := (setOn_same { s with wbuf := n } (fun k => { k with wbuf := n }) (fun _ => rfl)).2.2.2.2.1
    refine ⟨⟨h1.trans hc, (setOn_atSelect _ _).trans ha⟩, fun d => ?_⟩
    unfold setOn; split <;> exact ⟨by simp, by simp⟩
  | localAddr => exact ⟨⟨hc, ha⟩, fun d => ⟨by simp [step, stepG], by simp [step, stepG]⟩⟩
  | close =>
    have : step s .close = (s, .closeAgain) := by simp [step, stepG, close, hc]
    rw [this]; exact ⟨⟨hc, ha⟩, fun d => ⟨by simp, by simp⟩⟩

theorem trace_quiet (s : St) (sched : List Label) (h : Quiet s) :
    ∀ o ∈ traceG true s sched, ∀ d, o ≠ .readPkt d ∧ o ≠ .readTimeout := by
  induction sched generalizing s with
  | nil => intro o ho; cases ho
  | cons l ls ih =>
    intro o ho
    simp only [traceG, List.mem_cons] at ho
    have hs := step_quiet s l h
    rcases ho with e | e
    · subst e; exact hs.2
    · exact ih _ hs.1 o e

theorem run_quiet (s : St) (sched : List Label) (h : Quiet s) : Quiet (run s sched) := by
  induction sched generalizing s with
  | nil => exact h
  | cons l ls ih =>
    show Quiet (run (step s l).1 ls)
    exact ih _ (step_quiet s l h).1

/-! ### no panic -/

theorem step_no_panic {P : List HopAddr.Dest} (b : Bool) {s : St} (h : Inv P s) (l : Label) :
    (stepG b s l).2 ≠ .panic := by
  cases l with
  | hop ok idx =>
    simp only [stepG, hop]
    by_cases hc : s.closed = true
    · simp [hc]
    · have hc' : s.closed = false := by simpa using hc
      have := h.idx_ok hc'
      rw [← h.ports_eq hc'] at this
      cases ok <;> simp [hc', this]
  | write =>
    simp only [stepG, write]
    by_cases hc : s.closed = true
    · simp [hc]
    · have hc' : s.closed = false := by simpa using hc
      have := h.idx_ok hc'
      rw [← h.ports_eq hc'] at this
      simp only [hc', Bool.false_eq_true, if_false]
      rw [List.getElem?_eq_getElem this]
      simp only
      split <;> simp
  | recv k d => simp only [stepG, recv]; repeat' split
                all_goals simp
  | rtimeout k => simp only [stepG, rtimeout]; split <;> simp
  | readBegin => simp only [stepG, readBeginG]; repeat' split
                 all_goals simp
  | readSelect p n =>
    simp only [stepG, readSelect, deliver]
    repeat' split
    all_goals simp
  | setDeadline t => simp only [stepG, setOn]; split <;> simp
  | setReadDeadline t => simp only [stepG, setOn]; split <;> simp
  | setWriteDeadline t => simp only [stepG, setOn]; split <;> simp
  | setReadBuffer n => simp only [stepG, setOn]; split <;> simp
  | setWriteBuffer n => simp only [stepG, setOn]; split <;> simp
  | localAddr => simp [stepG]
  | close => simp only [stepG, close]; repeat' split
             all_goals simp

/-! ### counting open sockets -/

/-- number of sockets created so far that are not closed -/
def openCount (s : St) : Nat := (List.range s.mark).countP (fun k => !(s.sock k).closed)

theorem countP_eq_le_one (a n : Nat) : (List.range n).countP (fun k => k == a) ≤ 1 := by
  have : ∀ n, (List.range n).countP (fun k => k == a) = if a < n then 1 else 0 := by
    intro n
    induction n with
    | zero => simp
    | succ n ih =>
      rw [List.range_succ, List.countP_append, ih]
      simp only [List.countP_cons, List.countP_nil, beq_iff_eq]
      by_cases h1 : a < n
      · have : ¬ n = a := by omega
        simp [h1, this]; omega
      · by_cases h2 : n = a
        · simp [h2]
        · have : ¬ a < n + 1 := by omega
          simp [h1, h2, this]
  rw [this]; split <;> omega

theorem countP_or_le (p q : Nat → Bool) (l : List Nat) :
    l.countP (fun x => p x || q x) ≤ l.countP p + l.countP q := by
  induction l with
  | nil => simp
  | cons a l ih =>
    simp only [List.countP_cons]
    cases p a <;> cases q a <;> simp <;> omega

theorem openCount_le_two {P : List HopAddr.Dest} {s : St} (h : Inv P s) : openCount s ≤ 2 := by
  unfold openCount
  have hsub : ∀ k ∈ List.range s.mark, (!(s.sock k).closed) = true →
      ((k == s.cur) || (k == s.prev.getD s.cur)) = true := by
    intro k hk ho
    have hk' : k < s.mark := List.mem_range.mp hk
    have ho' : (s.sock k).closed = false := by simpa using ho
    rcases h.open_sub k hk' ho' with e | e
    · simp [e]
    · simp [e]
  have h1 := List.countP_mono_left hsub
  have h2 := countP_or_le (fun k => k == s.cur) (fun k => k == s.prev.getD s.cur) (List.range s.mark)
  have h3 := countP_eq_le_one s.cur s.mark
  have h4 := countP_eq_le_one (s.prev.getD s.cur) s.mark
  omega

end Hy.Hop
