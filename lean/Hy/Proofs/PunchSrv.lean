/-
  Helper lemmas for the ServerPuncher part of C20 (Hy.Props.C20): the ownership invariant
  (who holds which attempt id; what the conn's registry therefore is), the per-call log of conn
  operations and sends, and the provenance of events and acks — each preserved by every step
  of Hy.Model.PunchSrv, hence by every schedule.
-/
import Hy.Model.PunchSrv
import Hy.Proofs.Punch
set_option linter.unusedSimpArgs false
set_option linter.unusedVariables false
namespace Hy.Punch
open Hy

def inFlight : Pc → Bool
  | .needConnAdd | .rollback | .running | .removing1 _ | .removing2 _ => true
  | _ => false

def onConn : Pc → Bool
  | .running | .removing1 _ => true
  | _ => false

def argsChecked : Pc → Bool
  | .validated | .needConnAdd => true
  | _ => false

/-- what the conn's registry must be, given who holds which id -/
def regOf (s : Srv) (id : Id) : Option Meta :=
  match s.pmap id with
  | some k => if onConn (s.procs k).pc = true then some (s.procs k).md else none
  | none => none

structure Own (s : Srv) : Prop where
  holds : ∀ id k, s.pmap id = some k → (s.procs k).id = id ∧ inFlight (s.procs k).pc = true
  held : ∀ k, inFlight (s.procs k).pc = true → s.pmap (s.procs k).id = some k
  uniq : Uniq s.sys.conn.reg
  reg : ∀ id, s.sys.conn.reg.get? id = regOf s id
  nopanic : s.sys.panicked = false
  args : ∀ k, argsChecked (s.procs k).pc = true →
    (s.procs k).id ≠ [] ∧ isOk (decodeMeta (s.procs k).md) = true

theorem own_call (H : Bytes → Bytes) (s : Srv) (h : Own s) (k : Nat) (id : Id) (m : Meta)
    (cands : List AddrPort) (cfg : Bool) : Own (sstep H s (.call k id m cands cfg)) := by
  simp only [sstep]
  split
  · rename_i hpc
    have hnk : ∀ id', s.pmap id' ≠ some k := by
      intro id' hp
      have := (h.holds id' k hp).2
      rw [hpc] at this; simp [inFlight] at this
    refine ⟨?_, ?_, h.uniq, ?_, h.nopanic, ?_⟩
    · intro id' k' hp
      have hne : k' ≠ k := fun e => hnk id' (e ▸ hp)
      simpa [setProc, hne] using h.holds id' k' hp
    · intro k' hf
      by_cases hk : k' = k
      · subst hk
        simp only [setProc, ↓reduceIte] at hf
        split at hf <;> simp [inFlight] at hf
      · simp only [setProc, hk, ↓reduceIte] at hf ⊢
        exact h.held k' hf
    · intro id'
      rw [h.reg id']
      simp only [regOf]
      cases hp : s.pmap id' with
      | none => rfl
      | some k' =>
        have hne : k' ≠ k := fun e => hnk id' (e ▸ hp)
        simp [setProc, hne]
    · intro k' ha
      by_cases hk : k' = k
      · subst hk
        simp only [setProc, ↓reduceIte] at ha ⊢
        split at ha
        · rename_i hok; exact ⟨hok.1, hok.2.1⟩
        · simp [argsChecked] at ha
      · simp only [setProc, hk, ↓reduceIte] at ha ⊢
        exact h.args k' ha
  · exact h

/-- a step that changes only call k's record, keeping id, metadata and the three classifications of its pc -/
theorem own_same (s s' : Srv) (k : Nat) (p' : Proc) (h : Own s)
    (hsys : s'.sys = s.sys) (hpm : s'.pmap = s.pmap) (hpr : s'.procs = setProc s.procs k p')
    (hid : p'.id = (s.procs k).id) (hmd : p'.md = (s.procs k).md)
    (hf : inFlight p'.pc = inFlight (s.procs k).pc) (hc : onConn p'.pc = onConn (s.procs k).pc)
    (ha : argsChecked p'.pc = true → argsChecked (s.procs k).pc = true) : Own s' := by
  have hproc : ∀ k', (s'.procs k').id = (s.procs k').id ∧ (s'.procs k').md = (s.procs k').md ∧
      inFlight (s'.procs k').pc = inFlight (s.procs k').pc ∧ onConn (s'.procs k').pc = onConn (s.procs k').pc ∧
      (argsChecked (s'.procs k').pc = true → argsChecked (s.procs k').pc = true) := by
    intro k'
    rw [hpr]
    by_cases hk : k' = k
    · subst hk; simp only [setProc, ↓reduceIte]; exact ⟨hid, hmd, hf, hc, ha⟩
    · simp [setProc, hk]
  refine ⟨?_, ?_, ?_, ?_, ?_, ?_⟩
  · intro id k' hp
    rw [hpm] at hp
    have := h.holds id k' hp
    rw [(hproc k').1, (hproc k').2.2.1]; exact this
  · intro k' hfl
    rw [(hproc k').2.2.1] at hfl
    rw [hpm, (hproc k').1]; exact h.held k' hfl
  · rw [hsys]; exact h.uniq
  · intro id
    rw [hsys, h.reg id]
    simp only [regOf, hpm]
    cases s.pmap id with
    | none => rfl
    | some k' => simp only [(hproc k').2.1, (hproc k').2.2.2.1]
  · rw [hsys]; exact h.nopanic
  · intro k' hak
    have := h.args k' ((hproc k').2.2.2.2 hak)
    rw [(hproc k').1, (hproc k').2.1]; exact this

/-- a step of the conn's reader or of the dispatcher's receive: registry, puncher map and calls untouched -/
theorem own_sys (s s' : Srv) (h : Own s) (hpm : s'.pmap = s.pmap) (hpr : s'.procs = s.procs)
    (hreg : s'.sys.conn.reg = s.sys.conn.reg) (hp : s'.sys.panicked = false) : Own s' := by
  refine ⟨?_, ?_, ?_, ?_, hp, ?_⟩
  · intro id k hpk; rw [hpm] at hpk; rw [hpr]; exact h.holds id k hpk
  · intro k hf; rw [hpr] at hf; rw [hpm, hpr]; exact h.held k hf
  · rw [hreg]; exact h.uniq
  · intro id; rw [hreg, h.reg id]; simp only [regOf, hpm, hpr]
  · intro k ha; rw [hpr] at ha ⊢; exact h.args k ha

theorem step_reg_panicked (H : Bytes → Bytes) (hH : ∀ x, 0 < (H x).length) (y : Sys) (l : Label)
    (hl : (∃ p, l = .recv p) ∨ l = .scan) (hp : y.panicked = false) :
    (step H y l).conn.reg = y.conn.reg ∧ (step H y l).panicked = false := by
  rcases hl with ⟨p, rfl⟩ | rfl
  · simp only [step]
    cases y.held <;> exact ⟨rfl, hp⟩
  · simp only [step]
    cases hh : y.held with
    | none => exact ⟨rfl, hp⟩
    | some p =>
      simp only []
      obtain ⟨v, hv⟩ := classify_total H hH y.conn.reg p
      rw [hv]
      cases v <;> exact ⟨rfl, hp⟩

theorem addAttempt_ok (r : Registry) (id : Id) (m : Meta) (hid : id ≠ [])
    (hm : isOk (decodeMeta m) = true) : addAttempt r id m = .ok (r.insert id m) := by
  obtain ⟨x, hx⟩ := (isOk_iff _).mp hm
  simp [addAttempt, hid, hx]

/-- addAttempt's first lock region when the id is free -/
theorem own_take (s s' : Srv) (k : Nat) (h : Own s) (hpc : (s.procs k).pc = .validated)
    (hfree : s.pmap (s.procs k).id = none)
    (hsys : s'.sys = s.sys) (hpm : s'.pmap = setMap s.pmap (s.procs k).id (some k))
    (hpr : s'.procs = setProc s.procs k { s.procs k with pc := .needConnAdd }) : Own s' := by
  have hnk : ∀ id', s.pmap id' ≠ some k := by
    intro id' hp
    have := (h.holds id' k hp).2
    rw [hpc] at this; simp [inFlight] at this
  refine ⟨?_, ?_, ?_, ?_, ?_, ?_⟩
  · intro id k' hp
    rw [hpm] at hp
    simp only [setMap] at hp
    split at hp
    · rename_i hid
      injection hp with hp; subst hp
      rw [hpr]; simp [setProc, hid, inFlight]
    · have hne : k' ≠ k := fun e => hnk id (e ▸ hp)
      rw [hpr]; simpa [setProc, hne] using h.holds id k' hp
  · intro k' hf
    rw [hpr] at hf ⊢
    rw [hpm]
    by_cases hk : k' = k
    · subst hk; simp [setProc, setMap]
    · simp only [setProc, hk, ↓reduceIte] at hf ⊢
      have := h.held k' hf
      simp only [setMap]
      split
      · rename_i hid; rw [hid, hfree] at this; cases this
      · exact this
  · rw [hsys]; exact h.uniq
  · intro id
    rw [hsys, h.reg id]
    simp only [regOf, hpm, hpr, setMap]
    by_cases hid : id = (s.procs k).id
    · subst hid
      simp [hfree, setProc, onConn]
    · simp only [hid, ↓reduceIte]
      cases hp : s.pmap id with
      | none => rfl
      | some k' =>
        have hne : k' ≠ k := fun e => hnk id (e ▸ hp)
        simp [setProc, hne]
  · rw [hsys]; exact h.nopanic
  · intro k' ha
    rw [hpr] at ha ⊢
    by_cases hk : k' = k
    · subst hk
      simp only [setProc, ↓reduceIte]
      exact h.args k' (by rw [hpc]; rfl)
    · simp only [setProc, hk, ↓reduceIte] at ha ⊢
      exact h.args k' ha

/-- conn.AddPunchAttempt by the call that holds the id -/
theorem own_connAdd (s s' : Srv) (k : Nat) (h : Own s) (hpc : (s.procs k).pc = .needConnAdd)
    (hreg : s'.sys.conn.reg = s.sys.conn.reg.insert (s.procs k).id (s.procs k).md)
    (hpan : s'.sys.panicked = s.sys.panicked) (hpm : s'.pmap = s.pmap)
    (hpr : s'.procs = setProc s.procs k { s.procs k with pc := .running }) : Own s' := by
  have hk : s.pmap (s.procs k).id = some k := h.held k (by rw [hpc]; rfl)
  refine ⟨?_, ?_, ?_, ?_, ?_, ?_⟩
  · intro id k' hp
    rw [hpm] at hp
    rw [hpr]
    by_cases hkk : k' = k
    · subst hkk
      have := h.holds id k' hp
      simp [setProc, this.1, inFlight]
    · simpa [setProc, hkk] using h.holds id k' hp
  · intro k' hf
    rw [hpr] at hf ⊢
    rw [hpm]
    by_cases hkk : k' = k
    · subst hkk; simpa [setProc] using hk
    · simp only [setProc, hkk, ↓reduceIte] at hf ⊢
      exact h.held k' hf
  · rw [hreg]; exact uniq_insert _ _ _ h.uniq
  · intro id
    rw [hreg, get?_insert _ h.uniq, h.reg id]
    simp only [regOf, hpm, hpr]
    split
    · rename_i hid
      subst hid
      simp [hk, setProc, onConn]
    · rename_i hid
      cases hp : s.pmap id with
      | none => rfl
      | some k' =>
        have hne : k' ≠ k := by
          intro e; subst e
          exact hid (h.holds id k' hp).1.symm
        simp [setProc, hne]
  · rw [hpan]; exact h.nopanic
  · intro k' ha
    rw [hpr] at ha ⊢
    by_cases hkk : k' = k
    · subst hkk; simp [setProc, argsChecked] at ha
    · simp only [setProc, hkk, ↓reduceIte] at ha ⊢
      exact h.args k' ha

/-- conn.RemovePunchAttempt by the call that holds the id -/
theorem own_connRemove (s s' : Srv) (k : Nat) (o : Outcome) (h : Own s) (hpc : (s.procs k).pc = .removing1 o)
    (hreg : s'.sys.conn.reg = s.sys.conn.reg.remove (s.procs k).id)
    (hpan : s'.sys.panicked = s.sys.panicked) (hpm : s'.pmap = s.pmap)
    (hpr : s'.procs = setProc s.procs k { s.procs k with pc := .removing2 o }) : Own s' := by
  have hk : s.pmap (s.procs k).id = some k := h.held k (by rw [hpc]; rfl)
  refine ⟨?_, ?_, ?_, ?_, ?_, ?_⟩
  · intro id k' hp
    rw [hpm] at hp
    rw [hpr]
    by_cases hkk : k' = k
    · subst hkk
      have := h.holds id k' hp
      simp [setProc, this.1, inFlight]
    · simpa [setProc, hkk] using h.holds id k' hp
  · intro k' hf
    rw [hpr] at hf ⊢
    rw [hpm]
    by_cases hkk : k' = k
    · subst hkk; simpa [setProc] using hk
    · simp only [setProc, hkk, ↓reduceIte] at hf ⊢
      exact h.held k' hf
  · rw [hreg]; exact uniq_remove _ _ h.uniq
  · intro id
    rw [hreg, get?_remove _ h.uniq, h.reg id]
    simp only [regOf, hpm, hpr]
    split
    · rename_i hid
      subst hid
      simp [hk, setProc, onConn]
    · rename_i hid
      cases hp : s.pmap id with
      | none => rfl
      | some k' =>
        have hne : k' ≠ k := by
          intro e; subst e
          exact hid (h.holds id k' hp).1.symm
        simp [setProc, hne]
  · rw [hpan]; exact h.nopanic
  · intro k' ha
    rw [hpr] at ha ⊢
    by_cases hkk : k' = k
    · subst hkk; simp [setProc, argsChecked] at ha
    · simp only [setProc, hkk, ↓reduceIte] at ha ⊢
      exact h.args k' ha

/-- delete(p.attempts, id) by the call that holds the id and is no longer on the conn -/
theorem own_release (s s' : Srv) (k : Nat) (o : Outcome) (h : Own s)
    (hfl : inFlight (s.procs k).pc = true) (hoc : onConn (s.procs k).pc = false)
    (hsys : s'.sys = s.sys) (hpm : s'.pmap = setMap s.pmap (s.procs k).id none)
    (hpr : s'.procs = setProc s.procs k { s.procs k with pc := .returned o }) : Own s' := by
  have hk : s.pmap (s.procs k).id = some k := h.held k hfl
  refine ⟨?_, ?_, ?_, ?_, ?_, ?_⟩
  · intro id k' hp
    rw [hpm] at hp
    simp only [setMap] at hp
    split at hp
    · cases hp
    · rename_i hid
      have hne : k' ≠ k := by
        intro e; subst e
        exact hid (h.holds id k' hp).1.symm
      rw [hpr]; simpa [setProc, hne] using h.holds id k' hp
  · intro k' hf
    rw [hpr] at hf ⊢
    rw [hpm]
    by_cases hkk : k' = k
    · subst hkk; simp [setProc, inFlight] at hf
    · simp only [setProc, hkk, ↓reduceIte] at hf ⊢
      have := h.held k' hf
      simp only [setMap]
      split
      · rename_i hid
        rw [hid, hk] at this
        injection this with this
        exact absurd this.symm hkk
      · exact this
  · rw [hsys]; exact h.uniq
  · intro id
    rw [hsys, h.reg id]
    simp only [regOf, hpm, hpr, setMap]
    by_cases hid : id = (s.procs k).id
    · subst hid
      simp [hk, hoc]
    · simp only [hid, ↓reduceIte]
      cases hp : s.pmap id with
      | none => rfl
      | some k' =>
        have hne : k' ≠ k := by
          intro e; subst e
          exact hid (h.holds id k' hp).1.symm
        simp [setProc, hne]
  · rw [hsys]; exact h.nopanic
  · intro k' ha
    rw [hpr] at ha ⊢
    by_cases hkk : k' = k
    · subst hkk; simp [setProc, argsChecked] at ha
    · simp only [setProc, hkk, ↓reduceIte] at ha ⊢
      exact h.args k' ha

theorem own_step (H : Bytes → Bytes) (hH : ∀ x, 0 < (H x).length) (s : Srv) (l : SLabel) (h : Own s) :
    Own (sstep H s l) := by
  cases l with
  | call k id m cands cfg => exact own_call H s h k id m cands cfg
  | reg k =>
    simp only [sstep]
    split
    · rename_i hpc
      split
      · exact own_same s _ k _ h rfl rfl rfl rfl rfl (by rw [hpc]; rfl) (by rw [hpc]; rfl)
          (by intro ha; simp [argsChecked] at ha)
      · rename_i hfree
        exact own_take s _ k h hpc hfree rfl rfl rfl
    · exact h
  | connAdd k =>
    simp only [sstep]
    split
    · rename_i hpc
      have ha := h.args k (by rw [hpc]; rfl)
      rw [addAttempt_ok _ _ _ ha.1 ha.2]
      exact own_connAdd s _ k h hpc rfl rfl rfl rfl
    · exact h
  | rollback k =>
    simp only [sstep]
    split
    · rename_i hpc
      exact own_release s _ k .addFailed h (by rw [hpc]; rfl) (by rw [hpc]; rfl) rfl rfl rfl
    · exact h
  | hello k =>
    simp only [sstep]
    split
    · exact own_sys s _ h rfl rfl rfl h.nopanic
    · exact h
  | event k =>
    simp only [sstep]
    split
    · rename_i hpc _
      exact own_same s _ k _ h rfl rfl rfl rfl rfl (by rw [hpc]; rfl) (by rw [hpc]; rfl)
        (by intro ha; simp [argsChecked] at ha)
    · exact h
  | timeout k =>
    simp only [sstep]
    split
    · rename_i hpc
      exact own_same s _ k _ h rfl rfl rfl rfl rfl (by rw [hpc]; rfl) (by rw [hpc]; rfl)
        (by intro ha; simp [argsChecked] at ha)
    · exact h
  | cancel k =>
    simp only [sstep]
    split
    · rename_i hpc
      exact own_same s _ k _ h rfl rfl rfl rfl rfl (by rw [hpc]; rfl) (by rw [hpc]; rfl)
        (by intro ha; simp [argsChecked] at ha)
    · exact h
  | connRemove k =>
    simp only [sstep]
    split
    · rename_i o hpc
      exact own_connRemove s _ k o h hpc rfl rfl rfl rfl
    · exact h
  | pmapDelete k =>
    simp only [sstep]
    split
    · rename_i o hpc
      exact own_release s _ k o h (by rw [hpc]; rfl) (by rw [hpc]; rfl) rfl rfl rfl
    · exact h
  | recv p =>
    have := step_reg_panicked H hH s.sys (.recv p) (Or.inl ⟨p, rfl⟩) h.nopanic
    exact own_sys s _ h rfl rfl this.1 this.2
  | scan =>
    have := step_reg_panicked H hH s.sys .scan (Or.inr rfl) h.nopanic
    exact own_sys s _ h rfl rfl this.1 this.2
  | dispTake =>
    simp only [sstep]
    split
    · exact own_sys s _ h rfl rfl rfl h.nopanic
    · exact h
  | dispLookup =>
    simp only [sstep]
    split
    · exact own_sys s _ h rfl rfl rfl h.nopanic
    · exact h
  | dispSend =>
    simp only [sstep]
    split
    · rename_i ev k _
      exact own_same s _ k _ h rfl rfl rfl rfl rfl rfl rfl (fun ha => ha)
    · exact own_sys s _ h rfl rfl rfl h.nopanic
    · exact h

theorem own_init (c : Conn) (hc : c.reg = []) : Own (Srv.init c) := by
  refine ⟨?_, ?_, ?_, ?_, rfl, ?_⟩
  · intro id k hp; simp [Srv.init] at hp
  · intro k hf; simp [Srv.init, Proc.idle, inFlight] at hf
  · simp [Srv.init, Sys.init, hc, Uniq]
  · intro id; simp [Srv.init, Sys.init, hc, Registry.get?, regOf]
  · intro k ha; simp [Srv.init, Proc.idle, argsChecked] at ha

theorem own_run (H : Bytes → Bytes) (hH : ∀ x, 0 < (H x).length) :
    ∀ (sched : List SLabel) (s : Srv), Own s → Own (srun H s sched) := by
  intro sched
  induction sched with
  | nil => intro s h; exact h
  | cons l ls ih =>
    intro s h
    simp only [srun, List.foldl_cons]
    exact ih _ (own_step H hH s l h)


/-! ### per-call log of registry operations on the conn, and of sends -/

def opsOf (k : Nat) (ops : List ConnOp) : List ConnOp := ops.filter (fun o => o.k == k)

def addedOutcome : Outcome → Bool
  | .success _ _ | .timeout | .cancelled => true
  | _ => false

/-- the call has performed conn.AddPunchAttempt -/
def wasAdded : Pc → Bool
  | .running | .removing1 _ | .removing2 _ => true
  | .returned o => addedOutcome o
  | _ => false

/-- the call has performed conn.RemovePunchAttempt -/
def wasRemoved : Pc → Bool
  | .removing2 _ => true
  | .returned o => addedOutcome o
  | _ => false

def expectedOps (k : Nat) (p : Proc) : List ConnOp :=
  if wasRemoved p.pc then [⟨k, true, p.id⟩, ⟨k, false, p.id⟩]
  else if wasAdded p.pc then [⟨k, true, p.id⟩]
  else []

/-- the outcomes carried through the removal steps are those of calls that were added -/
def pcOutcomeOk : Pc → Bool
  | .removing1 o | .removing2 o => addedOutcome o
  | _ => true

structure Logs (s : Srv) : Prop where
  ops : ∀ k, opsOf k s.connOps = expectedOps k (s.procs k)
  sends : ∀ x ∈ s.sent, wasAdded (s.procs x.k).pc = true
  outc : ∀ k, pcOutcomeOk (s.procs k).pc = true

theorem opsOf_append (k : Nat) (a b : List ConnOp) : opsOf k (a ++ b) = opsOf k a ++ opsOf k b := by
  simp [opsOf]

/-- a step that appends nothing to the logs and changes only call k's record to one with the same
    id and the same log-relevant classification -/
theorem logs_same (s s' : Srv) (k : Nat) (p' : Proc) (h : Logs s)
    (hops : s'.connOps = s.connOps) (hsent : s'.sent = s.sent) (hpr : s'.procs = setProc s.procs k p')
    (he : expectedOps k p' = expectedOps k (s.procs k))
    (hw : wasAdded (s.procs k).pc = true → wasAdded p'.pc = true)
    (ho : pcOutcomeOk p'.pc = true) : Logs s' := by
  refine ⟨?_, ?_, ?_⟩
  · intro k'
    rw [hops, hpr]
    by_cases hk : k' = k
    · subst hk; simp only [setProc, ↓reduceIte]; rw [he]; exact h.ops k'
    · simp only [setProc, hk, ↓reduceIte]; exact h.ops k'
  · intro x hx
    rw [hsent] at hx
    have := h.sends x hx
    rw [hpr]
    by_cases hk : x.k = k
    · simp only [setProc, hk, ↓reduceIte]; rw [hk] at this; exact hw this
    · simp only [setProc, hk, ↓reduceIte]; exact this
  · intro k'
    rw [hpr]
    by_cases hk : k' = k
    · subst hk; simp only [setProc, ↓reduceIte]; exact ho
    · simp only [setProc, hk, ↓reduceIte]; exact h.outc k'

theorem logs_frame (s s' : Srv) (h : Logs s) (hops : s'.connOps = s.connOps) (hsent : s'.sent = s.sent)
    (hpr : s'.procs = s.procs) : Logs s' :=
  ⟨fun k => by rw [hops, hpr]; exact h.ops k, fun x hx => by rw [hsent] at hx; rw [hpr]; exact h.sends x hx,
   fun k => by rw [hpr]; exact h.outc k⟩

theorem logs_step (H : Bytes → Bytes) (s : Srv) (l : SLabel) (h : Logs s) : Logs (sstep H s l) := by
  cases l with
  | call k id m cands cfg =>
    simp only [sstep]
    split
    · rename_i hpc
      refine logs_same s _ k _ h rfl rfl rfl ?_ (by rw [hpc]; intro x; simp [wasAdded] at x) ?_
      · simp only [expectedOps, hpc]
        split <;> simp [wasRemoved, wasAdded, addedOutcome]
      · simp only []; split <;> rfl
    · exact h
  | reg k =>
    simp only [sstep]
    split
    · rename_i hpc
      split
      · exact logs_same s _ k _ h rfl rfl rfl (by simp [expectedOps, hpc, wasRemoved, wasAdded, addedOutcome])
          (by rw [hpc]; intro x; simp [wasAdded] at x) rfl
      · exact logs_same s _ k _ h rfl rfl rfl (by simp [expectedOps, hpc, wasRemoved, wasAdded, addedOutcome])
          (by rw [hpc]; intro x; simp [wasAdded] at x) rfl
    · exact h
  | connAdd k =>
    simp only [sstep]
    split
    · rename_i hpc
      split
      · -- success: one `add` by k is appended, k's hellos are sent
        refine ⟨?_, ?_, ?_⟩
        · intro k'
          simp only [withPc, opsOf_append]
          by_cases hk : k' = k
          · subst hk
            have hops : opsOf k' s.connOps = [] := by
              have := h.ops k'
              simpa [expectedOps, hpc, wasRemoved, wasAdded] using this
            rw [hops]
            simp [opsOf, setProc, expectedOps, wasRemoved, wasAdded]
          · have : opsOf k' [(⟨k, true, (s.procs k).id⟩ : ConnOp)] = [] := by
              simp [opsOf]; exact fun e => hk e.symm
            simp only [this, List.append_nil, setProc, hk, ↓reduceIte]
            exact h.ops k'
        · intro x hx
          simp only [withPc] at hx ⊢
          rcases List.mem_append.mp hx with hx | hx
          · have := h.sends x hx
            by_cases hk : x.k = k
            · simp [setProc, hk, wasAdded]
            · simp only [setProc, hk, ↓reduceIte]; exact this
          · simp only [hellos, List.mem_map] at hx
            obtain ⟨a, _, rfl⟩ := hx
            simp [setProc, wasAdded]
        · intro k'
          simp only [withPc]
          by_cases hk : k' = k
          · subst hk; simp [setProc, pcOutcomeOk]
          · simp only [setProc, hk, ↓reduceIte]; exact h.outc k'
      · exact logs_same s _ k _ h rfl rfl rfl (by simp [expectedOps, hpc, wasRemoved, wasAdded])
          (by rw [hpc]; intro x; simp [wasAdded] at x) rfl
      · exact logs_same s _ k _ h rfl rfl rfl (by simp [expectedOps, hpc, wasRemoved, wasAdded])
          (by rw [hpc]; intro x; simp [wasAdded] at x) rfl
    · exact h
  | rollback k =>
    simp only [sstep]
    split
    · rename_i hpc
      exact logs_same s _ k _ h rfl rfl rfl (by simp [expectedOps, hpc, wasRemoved, wasAdded, addedOutcome])
        (by rw [hpc]; intro x; simp [wasAdded] at x) rfl
    · exact h
  | hello k =>
    simp only [sstep]
    split
    · rename_i hpc
      refine ⟨h.ops, ?_, h.outc⟩
      intro x hx
      rcases List.mem_append.mp hx with hx | hx
      · exact h.sends x hx
      · simp only [hellos, List.mem_map] at hx
        obtain ⟨a, _, rfl⟩ := hx
        simp [hpc, wasAdded]
    · exact h
  | event k =>
    simp only [sstep]
    split
    · rename_i ev rest hpc hq
      refine ⟨?_, ?_, ?_⟩
      · intro k'
        by_cases hk : k' = k
        · subst hk
          have := h.ops k'
          simp only [expectedOps, hpc, wasRemoved, wasAdded] at this
          simp [this, setProc, expectedOps, wasRemoved, wasAdded]
        · simp only [setProc, hk, ↓reduceIte]; exact h.ops k'
      · intro x hx
        have hold : ∀ y ∈ s.sent, wasAdded ((setProc s.procs k
            { s.procs k with pc := .removing1 (.success ev.src ev.type), queue := rest }) y.k).pc = true := by
          intro y hy
          have := h.sends y hy
          by_cases hk : y.k = k
          · simp [setProc, hk, wasAdded]
          · simp only [setProc, hk, ↓reduceIte]; exact this
        split at hx
        · rcases List.mem_append.mp hx with hx | hx
          · exact hold x hx
          · rw [List.mem_singleton] at hx; subst hx; simp [setProc, wasAdded]
        · exact hold x hx
      · intro k'
        by_cases hk : k' = k
        · subst hk; simp [setProc, pcOutcomeOk, addedOutcome]
        · simp only [setProc, hk, ↓reduceIte]; exact h.outc k'
    · exact h
  | timeout k =>
    simp only [sstep]
    split
    · rename_i hpc
      exact logs_same s _ k _ h rfl rfl rfl (by simp [expectedOps, hpc, wasRemoved, wasAdded])
        (by intro _; rfl) rfl
    · exact h
  | cancel k =>
    simp only [sstep]
    split
    · rename_i hpc
      exact logs_same s _ k _ h rfl rfl rfl (by simp [expectedOps, hpc, wasRemoved, wasAdded])
        (by intro _; rfl) rfl
    · exact h
  | connRemove k =>
    simp only [sstep]
    split
    · rename_i o hpc
      have ho := h.outc k
      rw [hpc] at ho
      refine ⟨?_, ?_, ?_⟩
      · intro k'
        simp only [withPc, opsOf_append]
        by_cases hk : k' = k
        · subst hk
          have hops : opsOf k' s.connOps = [⟨k', true, (s.procs k').id⟩] := by
            have := h.ops k'
            simpa [expectedOps, hpc, wasRemoved, wasAdded] using this
          rw [hops]
          simp [opsOf, setProc, expectedOps, wasRemoved]
        · have : opsOf k' [(⟨k, false, (s.procs k).id⟩ : ConnOp)] = [] := by
            simp [opsOf]; exact fun e => hk e.symm
          simp only [this, List.append_nil, setProc, hk, ↓reduceIte]
          exact h.ops k'
      · intro x hx
        simp only [withPc] at hx ⊢
        have := h.sends x hx
        by_cases hk : x.k = k
        · simp [setProc, hk, wasAdded]
        · simp only [setProc, hk, ↓reduceIte]; exact this
      · intro k'
        simp only [withPc]
        by_cases hk : k' = k
        · subst hk; simpa [setProc, pcOutcomeOk] using ho
        · simp only [setProc, hk, ↓reduceIte]; exact h.outc k'
    · exact h
  | pmapDelete k =>
    simp only [sstep]
    split
    · rename_i o hpc
      have ho := h.outc k
      rw [hpc] at ho
      simp only [pcOutcomeOk] at ho
      exact logs_same s _ k _ h rfl rfl rfl (by simp [expectedOps, hpc, wasRemoved, wasAdded, ho])
        (by intro _; simp [wasAdded, ho]) rfl
    · exact h
  | recv p => exact logs_frame s _ h rfl rfl rfl
  | scan => exact logs_frame s _ h rfl rfl rfl
  | dispTake =>
    simp only [sstep]
    split
    · exact logs_frame s _ h rfl rfl rfl
    · exact h
  | dispLookup =>
    simp only [sstep]
    split
    · exact logs_frame s _ h rfl rfl rfl
    · exact h
  | dispSend =>
    simp only [sstep]
    split
    · rename_i ev k _
      exact logs_same s _ k _ h rfl rfl rfl rfl (fun x => x) (h.outc k)
    · exact logs_frame s _ h rfl rfl rfl
    · exact h

theorem logs_init (c : Conn) : Logs (Srv.init c) :=
  ⟨fun k => by simp [Srv.init, opsOf, expectedOps, Proc.idle, wasRemoved, wasAdded],
   fun x hx => by simp [Srv.init] at hx, fun k => rfl⟩

theorem logs_run (H : Bytes → Bytes) : ∀ (sched : List SLabel) (s : Srv), Logs s → Logs (srun H s sched) := by
  intro sched
  induction sched with
  | nil => intro s h; exact h
  | cons l ls ih => intro s h; simp only [srun, List.foldl_cons]; exact ih _ (logs_step H s l h)


/-! ### provenance: every event and every ack goes back to a classified packet -/

def punchOf : PktIn × Verdict → Option PunchEvent
  | (_, .punch ev) => some ev
  | _ => none

/-- the punch events the conn's reader has produced so far -/
def emitted (s : Srv) : List PunchEvent := s.sys.log.filterMap punchOf

def dispEv : Disp → Option PunchEvent
  | .took ev => some ev
  | .found ev _ => some ev
  | .idle => none

structure Prov (H : Bytes → Bytes) (s : Srv) : Prop where
  chan : ∀ ev ∈ s.sys.conn.events, ev ∈ emitted s
  hand : ∀ ev, dispEv s.disp = some ev → ev ∈ emitted s
  route : ∀ ev k, s.disp = .found ev (some k) → ev.id = (s.procs k).id ∧ (s.procs k).pc ≠ .idle
  queue : ∀ k, ∀ ev ∈ (s.procs k).queue, ev ∈ emitted s ∧ ev.id = (s.procs k).id
  acks : ∀ x ∈ s.sent, x.type = typeAck → (s.procs x.k).pc ≠ .idle ∧
    ∃ ev ∈ emitted s, ev.id = (s.procs x.k).id ∧ ev.type = typeHello ∧ ev.src = x.dst
  sound : ∀ p ev, (p, Verdict.punch ev) ∈ s.sys.log → ∃ k, (s.procs k).id = ev.id ∧
    wasAdded (s.procs k).pc = true ∧ decode H p.data (s.procs k).md = .ok (ev.type, ev.padLen) ∧
    addrToAddrPort p.src = some ev.src

theorem wasAdded_ne_idle {pc : Pc} (h : wasAdded pc = true) : pc ≠ .idle := by
  intro e; rw [e] at h; simp [wasAdded] at h

/-- a step that changes only the pc of call k (monotonically) and nothing the provenance looks at -/
theorem prov_pc (H : Bytes → Bytes) (s s' : Srv) (k : Nat) (p' : Proc) (h : Prov H s)
    (hlog : s'.sys.log = s.sys.log) (hev : s'.sys.conn.events = s.sys.conn.events)
    (hdisp : s'.disp = s.disp) (hsent : s'.sent = s.sent) (hpr : s'.procs = setProc s.procs k p')
    (hid : p'.id = (s.procs k).id) (hmd : p'.md = (s.procs k).md) (hq : p'.queue = (s.procs k).queue)
    (hni : (s.procs k).pc ≠ .idle → p'.pc ≠ .idle)
    (hwa : wasAdded (s.procs k).pc = true → wasAdded p'.pc = true) : Prov H s' := by
  have hem : emitted s' = emitted s := by simp [emitted, hlog]
  have hproc : ∀ k', (s'.procs k').id = (s.procs k').id ∧ (s'.procs k').md = (s.procs k').md ∧
      (s'.procs k').queue = (s.procs k').queue ∧ ((s.procs k').pc ≠ .idle → (s'.procs k').pc ≠ .idle) ∧
      (wasAdded (s.procs k').pc = true → wasAdded (s'.procs k').pc = true) := by
    intro k'
    rw [hpr]
    by_cases hk : k' = k
    · subst hk; simp only [setProc, ↓reduceIte]; exact ⟨hid, hmd, hq, hni, hwa⟩
    · simp [setProc, hk]
  refine ⟨?_, ?_, ?_, ?_, ?_, ?_⟩
  · intro ev he; rw [hev] at he; rw [hem]; exact h.chan ev he
  · intro ev he; rw [hdisp] at he; rw [hem]; exact h.hand ev he
  · intro ev k' hd
    rw [hdisp] at hd
    have := h.route ev k' hd
    exact ⟨by rw [(hproc k').1]; exact this.1, (hproc k').2.2.2.1 this.2⟩
  · intro k' ev he
    rw [(hproc k').2.2.1] at he
    have := h.queue k' ev he
    rw [hem, (hproc k').1]; exact this
  · intro x hx ht
    rw [hsent] at hx
    obtain ⟨h1, ev, he, h2, h3, h4⟩ := h.acks x hx ht
    exact ⟨(hproc x.k).2.2.2.1 h1, ev, by rw [hem]; exact he, by rw [(hproc x.k).1]; exact h2, h3, h4⟩
  · intro p ev hl
    rw [hlog] at hl
    obtain ⟨k', h1, h2, h3, h4⟩ := h.sound p ev hl
    exact ⟨k', by rw [(hproc k').1]; exact h1, (hproc k').2.2.2.2 h2, by rw [(hproc k').2.1]; exact h3, h4⟩

/-- more sends that are not acks -/
theorem prov_hellos (H : Bytes → Bytes) (s s' : Srv) (k : Nat) (cands : List AddrPort) (h : Prov H s)
    (hsys : s'.sys = s.sys) (hdisp : s'.disp = s.disp) (hpr : s'.procs = s.procs)
    (hsent : s'.sent = s.sent ++ hellos k cands) : Prov H s' := by
  have hem : emitted s' = emitted s := by simp [emitted, hsys]
  refine ⟨?_, ?_, ?_, ?_, ?_, ?_⟩
  · intro ev he; rw [hsys] at he; rw [hem]; exact h.chan ev he
  · intro ev he; rw [hdisp] at he; rw [hem]; exact h.hand ev he
  · intro ev k' hd; rw [hdisp] at hd; rw [hpr]; exact h.route ev k' hd
  · intro k' ev he; rw [hpr] at he; rw [hem, hpr]; exact h.queue k' ev he
  · intro x hx ht
    rw [hsent] at hx
    rcases List.mem_append.mp hx with hx | hx
    · rw [hpr, hem]; exact h.acks x hx ht
    · simp only [hellos, List.mem_map] at hx
      obtain ⟨a, _, rfl⟩ := hx
      exact absurd (show typeHello = typeAck from ht) (by decide)
  · intro p ev hl; rw [hsys] at hl; rw [hpr]; exact h.sound p ev hl

theorem prov_frame (H : Bytes → Bytes) (s s' : Srv) (h : Prov H s)
    (hlog : s'.sys.log = s.sys.log) (hev : s'.sys.conn.events = s.sys.conn.events)
    (hdisp : s'.disp = s.disp) (hsent : s'.sent = s.sent) (hpr : s'.procs = s.procs) : Prov H s' := by
  have hem : emitted s' = emitted s := by simp [emitted, hlog]
  exact ⟨fun ev he => by rw [hev] at he; rw [hem]; exact h.chan ev he,
    fun ev he => by rw [hdisp] at he; rw [hem]; exact h.hand ev he,
    fun ev k hd => by rw [hdisp] at hd; rw [hpr]; exact h.route ev k hd,
    fun k ev he => by rw [hpr] at he; rw [hem, hpr]; exact h.queue k ev he,
    fun x hx ht => by rw [hsent] at hx; rw [hpr, hem]; exact h.acks x hx ht,
    fun p ev hl => by rw [hlog] at hl; rw [hpr]; exact h.sound p ev hl⟩

theorem prov_call (H : Bytes → Bytes) (s : Srv) (h : Prov H s) (k : Nat) (id : Id) (m : Meta)
    (cands : List AddrPort) (cfg : Bool) : Prov H (sstep H s (.call k id m cands cfg)) := by
  simp only [sstep]
  split
  · rename_i hpc
    refine ⟨h.chan, h.hand, ?_, ?_, ?_, ?_⟩
    · intro ev k' hd
      have := h.route ev k' hd
      have hne : k' ≠ k := by intro e; subst e; exact this.2 hpc
      simpa [setProc, hne] using this
    · intro k' ev he
      by_cases hk : k' = k
      · subst hk; simp [setProc] at he
      · simp only [setProc, hk, ↓reduceIte] at he ⊢
        exact h.queue k' ev he
    · intro x hx ht
      have := h.acks x hx ht
      have hne : x.k ≠ k := by intro e; rw [e] at this; exact this.1 hpc
      simpa [setProc, hne, emitted] using this
    · intro p ev hl
      obtain ⟨k', h1, h2, h3, h4⟩ := h.sound p ev hl
      have hne : k' ≠ k := by intro e; subst e; exact wasAdded_ne_idle h2 hpc
      exact ⟨k', by simpa [setProc, hne] using h1, by simpa [setProc, hne] using h2,
        by simpa [setProc, hne] using h3, h4⟩
  · exact h

theorem emitted_append (s s' : Srv) (extra : List (PktIn × Verdict)) (hlog : s'.sys.log = s.sys.log ++ extra) :
    emitted s' = emitted s ++ extra.filterMap punchOf := by
  simp [emitted, hlog]

theorem mem_offer {α} (q : List α) (cap : Nat) (a x : α) (h : x ∈ offer q cap a) : x ∈ q ∨ x = a := by
  unfold offer at h
  split at h
  · rcases List.mem_append.mp h with h | h
    · exact Or.inl h
    · exact Or.inr (List.mem_singleton.mp h)
  · exact Or.inl h

theorem onConn_wasAdded {pc : Pc} (h : onConn pc = true) : wasAdded pc = true := by
  cases pc <;> simp_all [onConn, wasAdded]

/-- one more classified packet: the log grows by one entry, the event channel by at most that entry's event -/
theorem prov_log (H : Bytes → Bytes) (s s' : Srv) (p : PktIn) (v : Verdict) (h : Prov H s)
    (hlog : s'.sys.log = s.sys.log ++ [(p, v)])
    (hev : ∀ ev ∈ s'.sys.conn.events, ev ∈ s.sys.conn.events ∨ v = .punch ev)
    (hdisp : s'.disp = s.disp) (hsent : s'.sent = s.sent) (hpr : s'.procs = s.procs)
    (hsound : ∀ ev, v = .punch ev → ∃ k, (s.procs k).id = ev.id ∧ wasAdded (s.procs k).pc = true ∧
      decode H p.data (s.procs k).md = .ok (ev.type, ev.padLen) ∧ addrToAddrPort p.src = some ev.src) :
    Prov H s' := by
  have hem : emitted s' = emitted s ++ [(p, v)].filterMap punchOf := emitted_append s s' _ hlog
  have hsub : ∀ ev, ev ∈ emitted s → ev ∈ emitted s' := fun ev he => by rw [hem]; exact List.mem_append_left _ he
  refine ⟨?_, fun ev he => by rw [hdisp] at he; exact hsub ev (h.hand ev he),
    fun ev k hd => by rw [hdisp] at hd; rw [hpr]; exact h.route ev k hd,
    fun k ev he => by rw [hpr] at he; rw [hpr]; exact ⟨hsub ev (h.queue k ev he).1, (h.queue k ev he).2⟩, ?_, ?_⟩
  · intro ev he
    rcases hev ev he with he | he
    · exact hsub ev (h.chan ev he)
    · rw [hem, he]; simp [punchOf]
  · intro x hx ht
    rw [hsent] at hx
    obtain ⟨h1, ev, he, h2⟩ := h.acks x hx ht
    rw [hpr]
    exact ⟨h1, ev, hsub ev he, h2⟩
  · intro p' ev hl
    rw [hlog] at hl
    rw [hpr]
    rcases List.mem_append.mp hl with hl | hl
    · exact h.sound p' ev hl
    · rw [List.mem_singleton] at hl
      injection hl with hp hv
      subst hp
      exact hsound ev hv.symm

/-- the reader classifies the held packet; a punch verdict is sound with respect to the call that
    holds the id at this moment -/
theorem prov_scan (H : Bytes → Bytes) (hH : ∀ x, 0 < (H x).length) (s : Srv) (h : Prov H s) (ho : Own s) :
    Prov H (sstep H s .scan) := by
  simp only [sstep, step]
  cases hh : s.sys.held with
  | none => exact prov_frame H s _ h (by simp [hh]) (by simp [hh]) rfl rfl rfl
  | some p =>
    simp only []
    rcases classify_spec H hH s.sys.conn.reg p with ⟨a, _, hv⟩ | ⟨_, ⟨_, hv⟩ | ⟨src, e, t, n, ha, he, hd, hv⟩⟩
    · rw [hv]
      exact prov_log H s _ p (.stun a) h rfl (fun ev he => Or.inl he) rfl rfl rfl (fun ev hv => by cases hv)
    · rw [hv]
      exact prov_log H s _ p .pass h rfl (fun ev he => Or.inl he) rfl rfl rfl (fun ev hv => by cases hv)
    · rw [hv]
      refine prov_log H s _ p (.punch ⟨e.1, src, t, n⟩) h rfl ?_ rfl rfl rfl ?_
      · intro ev he
        rcases mem_offer _ _ _ _ he with he | he
        · exact Or.inl he
        · exact Or.inr (by rw [he])
      · intro ev hev
        injection hev with hev
        subst hev
        have hget : s.sys.conn.reg.get? e.1 = some e.2 := (get?_eq_some_iff _ ho.uniq e.1 e.2).mpr he
        rw [ho.reg e.1] at hget
        simp only [regOf] at hget
        cases hp : s.pmap e.1 with
        | none => rw [hp] at hget; cases hget
        | some k =>
          rw [hp] at hget
          simp only [] at hget
          split at hget
          · rename_i hoc
            injection hget with hmd
            exact ⟨k, (ho.holds e.1 k hp).1, onConn_wasAdded hoc, by rw [hmd]; exact hd, ha⟩
          · cases hget

theorem prov_step (H : Bytes → Bytes) (hH : ∀ x, 0 < (H x).length) (s : Srv) (l : SLabel)
    (h : Prov H s) (ho : Own s) (hl : Logs s) : Prov H (sstep H s l) := by
  cases l with
  | call k id m cands cfg => exact prov_call H s h k id m cands cfg
  | reg k =>
    simp only [sstep]
    split
    · rename_i hpc
      split
      · exact prov_pc H s _ k _ h rfl rfl rfl rfl rfl rfl rfl rfl (fun _ => by simp)
          (by rw [hpc]; intro x; simp [wasAdded] at x)
      · exact prov_pc H s _ k _ h rfl rfl rfl rfl rfl rfl rfl rfl (fun _ => by simp)
          (by rw [hpc]; intro x; simp [wasAdded] at x)
    · exact h
  | connAdd k =>
    simp only [sstep]
    split
    · rename_i hpc
      split
      · rename_i r _
        -- first the pc and the registry, then the hello burst
        let s1 : Srv := { withPc s k .running with sys := { s.sys with conn := { s.sys.conn with reg := r } } }
        have h1 : Prov H s1 := prov_pc H s s1 k _ h rfl rfl rfl rfl rfl rfl rfl rfl (fun _ => by simp)
          (fun _ => rfl)
        exact prov_hellos H s1 _ k (s.procs k).cands h1 rfl rfl rfl rfl
      · exact prov_pc H s _ k _ h rfl rfl rfl rfl rfl rfl rfl rfl (fun _ => by simp)
          (by rw [hpc]; intro x; simp [wasAdded] at x)
      · exact prov_pc H s _ k _ h rfl rfl rfl rfl rfl rfl rfl rfl (fun _ => by simp)
          (by rw [hpc]; intro x; simp [wasAdded] at x)
    · exact h
  | rollback k =>
    simp only [sstep]
    split
    · rename_i hpc
      exact prov_pc H s _ k _ h rfl rfl rfl rfl rfl rfl rfl rfl (fun _ => by simp)
        (by rw [hpc]; intro x; simp [wasAdded] at x)
    · exact h
  | hello k =>
    simp only [sstep]
    split
    · exact prov_hellos H s _ k (s.procs k).cands h rfl rfl rfl rfl
    · exact h
  | event k =>
    simp only [sstep]
    split
    · rename_i ev rest hpc hq
      have hevq := h.queue k ev (by rw [hq]; exact List.mem_cons_self ..)
      refine ⟨h.chan, h.hand, ?_, ?_, ?_, ?_⟩
      · intro ev' k' hd
        have := h.route ev' k' hd
        by_cases hk : k' = k
        · subst hk; simp [setProc, this.1]
        · simpa [setProc, hk] using this
      · intro k' ev' he
        by_cases hk : k' = k
        · subst hk
          simp only [setProc, ↓reduceIte] at he ⊢
          exact h.queue k' ev' (by rw [hq]; exact List.mem_cons_of_mem _ he)
        · simp only [setProc, hk, ↓reduceIte] at he ⊢
          exact h.queue k' ev' he
      · intro x hx ht
        have hold : ∀ y ∈ s.sent, y.type = typeAck →
            ((setProc s.procs k { s.procs k with pc := .removing1 (.success ev.src ev.type), queue := rest }) y.k).pc ≠ .idle ∧
            ∃ e ∈ emitted s, e.id = ((setProc s.procs k { s.procs k with pc := .removing1 (.success ev.src ev.type), queue := rest }) y.k).id ∧
              e.type = typeHello ∧ e.src = y.dst := by
          intro y hy hty
          have := h.acks y hy hty
          by_cases hk : y.k = k
          · rw [hk] at this; simpa [setProc, hk] using this.2
          · simpa [setProc, hk] using this
        split at hx
        · rename_i hty
          rcases List.mem_append.mp hx with hx | hx
          · exact hold x hx ht
          · rw [List.mem_singleton] at hx
            subst hx
            exact ⟨by simp [setProc], ev, hevq.1, by simp [setProc, hevq.2], hty, rfl⟩
        · exact hold x hx ht
      · intro p ev' hlg
        obtain ⟨k', h1, h2, h3, h4⟩ := h.sound p ev' hlg
        by_cases hk : k' = k
        · subst hk
          exact ⟨k', by simpa [setProc] using h1, by simp [setProc, wasAdded], by simpa [setProc] using h3, h4⟩
        · exact ⟨k', by simpa [setProc, hk] using h1, by simpa [setProc, hk] using h2,
            by simpa [setProc, hk] using h3, h4⟩
    · exact h
  | timeout k =>
    simp only [sstep]
    split
    · exact prov_pc H s _ k _ h rfl rfl rfl rfl rfl rfl rfl rfl (fun _ => by simp) (fun _ => rfl)
    · exact h
  | cancel k =>
    simp only [sstep]
    split
    · exact prov_pc H s _ k _ h rfl rfl rfl rfl rfl rfl rfl rfl (fun _ => by simp) (fun _ => rfl)
    · exact h
  | connRemove k =>
    simp only [sstep]
    split
    · exact prov_pc H s _ k _ h rfl rfl rfl rfl rfl rfl rfl rfl (fun _ => by simp) (fun _ => rfl)
    · exact h
  | pmapDelete k =>
    simp only [sstep]
    split
    · rename_i o hpc
      have hoc := hl.outc k
      rw [hpc] at hoc
      exact prov_pc H s _ k _ h rfl rfl rfl rfl rfl rfl rfl rfl (fun _ => by simp)
        (fun _ => by simpa [wasAdded, pcOutcomeOk] using hoc)
    · exact h
  | recv p =>
    simp only [sstep, step]
    cases s.sys.held <;> exact prov_frame H s _ h rfl rfl rfl rfl rfl
  | scan => exact prov_scan H hH s h ho
  | dispTake =>
    simp only [sstep]
    split
    · rename_i ev rest hd hq
      refine ⟨?_, ?_, ?_, h.queue, h.acks, h.sound⟩
      · intro ev' he
        exact h.chan ev' (by rw [hq]; exact List.mem_cons_of_mem _ he)
      · intro ev' he
        simp only [dispEv] at he
        injection he with he; subst he
        exact h.chan ev (by rw [hq]; exact List.mem_cons_self ..)
      · intro ev' k' hd'; cases hd'
    · exact h
  | dispLookup =>
    simp only [sstep]
    split
    · rename_i ev hd
      refine ⟨h.chan, ?_, ?_, h.queue, h.acks, h.sound⟩
      · intro ev' he
        simp only [dispEv] at he
        injection he with he; subst he
        exact h.hand ev (by rw [hd]; rfl)
      · intro ev' k' hd'
        injection hd' with he hk
        subst he
        have := ho.holds ev.id k' hk
        refine ⟨this.1.symm, ?_⟩
        intro e; rw [e] at this; simp [inFlight] at this
    · exact h
  | dispSend =>
    simp only [sstep]
    split
    · rename_i ev k hd
      have hr := h.route ev k hd
      have hev := h.hand ev (by rw [hd]; rfl)
      refine ⟨h.chan, ?_, ?_, ?_, ?_, ?_⟩
      · intro ev' he; cases he
      · intro ev' k' hd'; cases hd'
      · intro k' ev' he
        by_cases hk : k' = k
        · subst hk
          simp only [setProc, ↓reduceIte] at he ⊢
          rcases mem_offer _ _ _ _ he with he | he
          · exact h.queue k' ev' he
          · rw [he]; exact ⟨hev, hr.1⟩
        · simp only [setProc, hk, ↓reduceIte] at he ⊢
          exact h.queue k' ev' he
      · intro x hx ht
        have := h.acks x hx ht
        by_cases hk : x.k = k
        · rw [hk] at this; simpa [setProc, hk, emitted] using this
        · simpa [setProc, hk, emitted] using this
      · intro p ev' hlg
        obtain ⟨k', h1, h2, h3, h4⟩ := h.sound p ev' hlg
        by_cases hk : k' = k
        · subst hk
          exact ⟨k', by simpa [setProc] using h1, by simpa [setProc] using h2, by simpa [setProc] using h3, h4⟩
        · exact ⟨k', by simpa [setProc, hk] using h1, by simpa [setProc, hk] using h2,
            by simpa [setProc, hk] using h3, h4⟩
    · rename_i ev hd
      refine ⟨h.chan, ?_, ?_, h.queue, h.acks, h.sound⟩
      · intro ev' he; cases he
      · intro ev' k' hd'; cases hd'
    · exact h

theorem prov_init (H : Bytes → Bytes) (c : Conn) (hc : c.events = []) : Prov H (Srv.init c) := by
  refine ⟨?_, ?_, ?_, ?_, ?_, ?_⟩
  · intro ev he; simp [Srv.init, Sys.init, hc] at he
  · intro ev he; simp [Srv.init, dispEv] at he
  · intro ev k hd; simp [Srv.init] at hd
  · intro k ev he; simp [Srv.init, Proc.idle] at he
  · intro x hx; simp [Srv.init] at hx
  · intro p ev hl; simp [Srv.init, Sys.init] at hl

/-- the three invariants together, along any schedule -/
theorem srv_run (H : Bytes → Bytes) (hH : ∀ x, 0 < (H x).length) :
    ∀ (sched : List SLabel) (s : Srv), Own s → Logs s → Prov H s →
      Own (srun H s sched) ∧ Logs (srun H s sched) ∧ Prov H (srun H s sched) := by
  intro sched
  induction sched with
  | nil => intro s h1 h2 h3; exact ⟨h1, h2, h3⟩
  | cons l ls ih =>
    intro s h1 h2 h3
    simp only [srun, List.foldl_cons]
    exact ih _ (own_step H hH s l h1) (logs_step H s l h2) (prov_step H hH s l h3 h1 h2)


/-! ### consequences used by the property theorems -/

theorem reg_nil_of_get? (r : Registry) (h : ∀ id, r.get? id = none) : r = [] := by
  cases r with
  | nil => rfl
  | cons e es =>
    have := h e.1
    simp [Registry.get?] at this

theorem mem_emitted (s : Srv) (ev : PunchEvent) (h : ev ∈ emitted s) : ∃ p, (p, Verdict.punch ev) ∈ s.sys.log := by
  simp only [emitted, List.mem_filterMap] at h
  obtain ⟨⟨p, v⟩, hm, hv⟩ := h
  cases v with
  | punch ev' =>
    simp only [punchOf] at hv
    injection hv with hv; subst hv
    exact ⟨p, hm⟩
  | stun _ => simp [punchOf] at hv
  | pass => simp [punchOf] at hv

theorem srv_init_run (H : Bytes → Bytes) (hH : ∀ x, 0 < (H x).length) (n : Int) (sched : List SLabel) :
    Own (srun H (Srv.init (Conn.new n)) sched) ∧ Logs (srun H (Srv.init (Conn.new n)) sched) ∧
    Prov H (srun H (Srv.init (Conn.new n)) sched) :=
  srv_run H hH sched _ (own_init _ rfl) (logs_init _) (prov_init H _ rfl)

end Hy.Punch
