/-
  Helper lemmas for C05 (UDP fragmentation).  Sections:
    1. codec: Serialize/ParseUDPMessage round trip, totality, shape of accepted datagrams
    2. splitter specification `chunksOf` (appendix A.15)
    3. the FragUDPMessage loop: closed forms of the repaired and of the pinned function
    4. Defragger: representation invariant `WFD`, panic-free form `feedP`, `feed = ok ∘ feedP`
    5. histories, slot invariant (appendix A.5), emission soundness, no mixing
    6. one fragment set in any arrival order with duplicates
    7. what FragUDPMessage produces is a fragment set
-/
import Hy.Model.Frag
set_option linter.unusedSimpArgs false
set_option linter.unusedVariables false
namespace Hy.Frag
open Hy Hy.Varint Hy.Res

/-! ## 1. codec -/

theorem serialize_length (m : UDPMessage) : (serialize m).length = size m := by
  simp only [serialize, size, headerSize, be32, be16, enc, List.length_append, List.length_cons,
    List.length_nil, encW_length]

theorem takeN_append (a b : Bytes) (n : Nat) (h : a.length = n) : takeN n (a ++ b) = .ok (a, b) := by
  subst h
  simp [takeN]

theorem u32_beNat (n : U32) : u32 (beNat (be32 n.val)) = n := by
  apply Fin.ext
  have := n.isLt
  simp only [u32, beNat, be32, List.foldl, byte_val]
  omega

theorem u16_beNat (n : U16) : u16 (beNat (be16 n.val)) = n := by
  apply Fin.ext
  have := n.isLt
  simp only [u16, beNat, be16, List.foldl, byte_val]
  omega

theorem byte_beNat (b : Byte) : byte (beNat [b]) = b := by
  apply Fin.ext
  have := b.isLt
  simp only [beNat, List.foldl, byte_val]
  omega

theorem parse_serialize (m : UDPMessage) (ha : 1 ≤ m.addr.length)
    (ha' : m.addr.length ≤ Gen.MaxMessageLength) (hd : 1 ≤ m.data.length) :
    parseUDPMessage (serialize m) = .ok m := by
  have h2048 : Gen.MaxMessageLength = 2048 := by decide
  unfold parseUDPMessage serialize
  simp only [List.append_assoc]
  rw [takeN_append _ _ 4 (by simp [be32])]
  simp only [bind_ok]
  rw [takeN_append _ _ 2 (by simp [be16])]
  simp only [bind_ok]
  have e1 : ([m.fragID, m.fragCount] ++ (enc m.addr.length ++ (m.addr ++ m.data)))
      = [m.fragID] ++ ([m.fragCount] ++ (enc m.addr.length ++ (m.addr ++ m.data))) := by simp
  rw [e1, takeN_append _ _ 1 (by simp)]
  simp only [bind_ok]
  rw [takeN_append _ _ 1 (by simp)]
  simp only [bind_ok]
  rw [dec_enc _ _ (by unfold maxVarInt8; omega)]
  simp only
  rw [if_neg (by omega), if_neg (by simp only [List.length_append]; omega)]
  simp only [sliceTo, sliceFrom, List.length_append]
  rw [if_pos (by omega), if_pos (by omega)]
  simp only [bind_ok, List.take_left', List.drop_left', u32_beNat, u16_beNat, byte_beNat]

theorem takeN_noPanic (n : Nat) (bs : Bytes) : NoPanic (takeN n bs) := by
  unfold takeN; split <;> simp

theorem parse_noPanic (bs : Bytes) : NoPanic (parseUDPMessage bs) := by
  unfold parseUDPMessage
  refine noPanic_bind _ _ (takeN_noPanic _ _) fun p1 _ => ?_
  refine noPanic_bind _ _ (takeN_noPanic _ _) fun p2 _ => ?_
  refine noPanic_bind _ _ (takeN_noPanic _ _) fun p3 _ => ?_
  refine noPanic_bind _ _ (takeN_noPanic _ _) fun p4 _ => ?_
  split
  · simp
  · split
    · simp
    · split
      · simp
      · rename_i h
        simp only [sliceTo, sliceFrom]
        rw [if_pos (by omega), if_pos (by omega)]
        simp


theorem takeN_ok {n : Nat} {bs : Bytes} {p : Bytes × Bytes} (h : takeN n bs = .ok p) :
    bs = p.1 ++ p.2 ∧ p.1.length = n := by
  unfold takeN at h
  split at h
  · simp only [ok.injEq] at h
    subst h
    simp only [List.take_append_drop, List.length_take, true_and]
    omega
  · simp at h

theorem bind_eq_ok {α β} {r : Res α} {f : α → Res β} {b : β} (h : r.bind f = .ok b) :
    ∃ a, r = .ok a ∧ f a = .ok b := by
  cases r with
  | ok a => exact ⟨a, rfl, h⟩
  | reject => simp at h
  | panic => simp at h


/-- a successful varint decode returns a suffix of its input -/
theorem dec_some_suffix {bs : Bytes} {n : Nat} {r : Bytes} (h : Varint.dec bs = some (n, r)) :
    ∃ pre, bs = pre ++ r := by
  unfold Varint.dec at h
  split at h
  · simp at h
  · rename_i b rest
    simp only at h
    split at h
    · simp only [Option.some.injEq, Prod.mk.injEq] at h; obtain ⟨_, rfl⟩ := h; exact ⟨[b], rfl⟩
    · split at h
      · split at h
        · rename_i b2 r'
          simp only [Option.some.injEq, Prod.mk.injEq] at h; obtain ⟨_, rfl⟩ := h; exact ⟨[b, b2], rfl⟩
        · simp at h
      · split at h
        · split at h
          · rename_i b2 b3 b4 r'
            simp only [Option.some.injEq, Prod.mk.injEq] at h; obtain ⟨_, rfl⟩ := h
            exact ⟨[b, b2, b3, b4], rfl⟩
          · simp at h
        · split at h
          · rename_i b2 b3 b4 b5 b6 b7 b8 r'
            simp only [Option.some.injEq, Prod.mk.injEq] at h; obtain ⟨_, rfl⟩ := h
            exact ⟨[b, b2, b3, b4, b5, b6, b7, b8], rfl⟩
          · simp at h

/-- what an accepted datagram looks like -/
theorem parse_ok (bs : Bytes) (m : UDPMessage) (h : parseUDPMessage bs = .ok m) :
    1 ≤ m.addr.length ∧ m.addr.length ≤ Gen.MaxMessageLength ∧ 1 ≤ m.data.length ∧
    ∃ hdr, bs = hdr ++ m.addr ++ m.data ∧ 9 ≤ hdr.length ∧ hdr.length ≤ 16 := by
  unfold parseUDPMessage at h
  obtain ⟨p1, h1, h⟩ := bind_eq_ok h
  obtain ⟨p2, h2, h⟩ := bind_eq_ok h
  obtain ⟨p3, h3, h⟩ := bind_eq_ok h
  obtain ⟨p4, h4, h⟩ := bind_eq_ok h
  obtain ⟨e1, l1⟩ := takeN_ok h1
  obtain ⟨e2, l2⟩ := takeN_ok h2
  obtain ⟨e3, l3⟩ := takeN_ok h3
  obtain ⟨e4, l4⟩ := takeN_ok h4
  split at h
  · simp at h
  · rename_i lAddr rest hdec
    have hl := dec_some_length hdec
    split at h
    · simp at h
    · split at h
      · simp at h
      · rename_i hz hlen
        simp only [sliceTo, sliceFrom] at h
        rw [if_pos (by omega), if_pos (by omega)] at h
        simp only [bind_ok, ok.injEq] at h
        subst h
        simp only [List.length_take, List.length_drop]
        refine ⟨by omega, by omega, by omega, ?_⟩
        -- the header is everything before `rest`
        obtain ⟨pre, hpre⟩ := dec_some_suffix hdec
        have hprelen : p4.2.length = pre.length + rest.length := by rw [hpre]; simp
        refine ⟨p1.1 ++ p2.1 ++ p3.1 ++ p4.1 ++ pre, ?_, ?_, ?_⟩
        · rw [e1, e2, e3, e4, hpre]; simp [List.take_append_drop]
        · simp only [List.length_append]; omega
        · simp only [List.length_append]; omega

/-! ## 2–3. splitter -/

/-! ## the splitter specification -/

theorem chunksOf_nil (n : Nat) : chunksOf n [] = [] := by
  rw [chunksOf, dif_pos (Or.inr rfl)]

theorem chunksOf_cons (n : Nat) (hn : 0 < n) (l : Bytes) (hl : l ≠ []) :
    chunksOf n l = l.take n :: chunksOf n (l.drop n) := by
  rw [chunksOf, dif_neg]
  intro h; rcases h with h | h
  · omega
  · exact hl h

theorem chunks_flatten (n : Nat) (hn : 0 < n) (l : Bytes) : (chunksOf n l).flatten = l := by
  induction l using chunksOf.induct n with
  | case1 l h =>
    rw [chunksOf, dif_pos h]
    rcases h with h | h
    · omega
    · simp [h]
  | case2 l h ih =>
    rw [chunksOf, dif_neg h]
    simp [ih]

theorem chunks_size (n : Nat) (l : Bytes) :
    ∀ c ∈ chunksOf n l, 1 ≤ c.length ∧ c.length ≤ n := by
  induction l using chunksOf.induct n with
  | case1 l h => rw [chunksOf, dif_pos h]; simp
  | case2 l h ih =>
    rw [chunksOf, dif_neg h]
    intro c hc
    simp only [List.mem_cons] at hc
    rcases hc with hc | hc
    · subst hc
      have hl : l ≠ [] := fun e => h (Or.inr e)
      have : 0 < l.length := List.length_pos_iff.mpr hl
      have hn : n ≠ 0 := fun e => h (Or.inl e)
      simp only [List.length_take]; omega
    · exact ih c hc

theorem chunks_count (n : Nat) (hn : 0 < n) (l : Bytes) :
    (chunksOf n l).length = (l.length + n - 1) / n := by
  induction l using chunksOf.induct n with
  | case1 l h =>
    rw [chunksOf, dif_pos h]
    rcases h with h | h
    · omega
    · subst h; simp; exact (Nat.div_eq_of_lt (by omega)).symm
  | case2 l h ih =>
    rw [chunksOf, dif_neg h]
    have hl : l ≠ [] := fun e => h (Or.inr e)
    have hpos : 0 < l.length := List.length_pos_iff.mpr hl
    simp only [List.length_cons, ih, List.length_drop]
    by_cases hle : l.length ≤ n
    · have h1 : l.length - n = 0 := by omega
      rw [h1]
      have : (0 + n - 1) / n = 0 := Nat.div_eq_of_lt (by omega)
      rw [this]
      have : (l.length + n - 1) / n = 1 := by
        apply Nat.div_eq_of_lt_le <;> omega
      omega
    · have : l.length + n - 1 = (l.length - n + n - 1) + n := by omega
      rw [this, Nat.add_div_right _ hn]

/-! ## the loop -/

theorem mkFrags_length (m : UDPMessage) (cnt : Byte) (k : Nat) (cs : List Bytes) :
    (mkFrags m cnt k cs).length = cs.length := by
  induction cs generalizing k with
  | nil => rfl
  | cons c cs ih => simp [mkFrags, ih]

/-- one iteration's slice is the next chunk -/
theorem slice_chunk (data : Bytes) (off mps ps : Nat) (hoff : off < data.length)
    (hps : ps = if data.length - off > mps then mps else data.length - off) :
    Res.slice data off (off + ps) = .ok ((data.drop off).take mps) ∧
    data.drop (off + ps) = (data.drop off).drop mps := by
  have hps' : ps = min mps (data.length - off) := by
    rw [hps]; split <;> omega
  constructor
  · unfold Res.slice
    rw [if_pos (by omega)]
    congr 1
    rw [List.drop_take]
    have : off + ps - off = ps := by omega
    rw [this, hps']
    rw [List.take_eq_take_iff]
    simp only [List.length_drop]
    omega
  · rw [List.drop_drop]
    by_cases h : data.length - off > mps
    · have : ps = mps := by omega
      rw [this]
    · rw [List.drop_eq_nil_of_le (by omega), List.drop_eq_nil_of_le (by omega)]

theorem set_done (done : List UDPMessage) (cap : Nat) (f : UDPMessage) (h : done.length < cap) :
    (done ++ List.replicate (cap - done.length) zeroMsg).set done.length f
      = (done ++ [f]) ++ List.replicate (cap - (done ++ [f]).length) zeroMsg := by
  have : cap - done.length = (cap - (done.length + 1)) + 1 := by omega
  rw [this, List.replicate_succ]
  simp [List.set_append_right]

/-- The loop, started after `done.length = k` fragments have been stored in a slice of
    capacity `cap ≤ 255`: it stores the remaining chunks when they fit and faults on the
    first index ≥ cap otherwise. -/
theorem fragLoop_spec (m : UDPMessage) (mps : Nat) (hm : 0 < mps) (cnt : Byte) (cap : Nat) (hcap : cap ≤ 255) :
    ∀ (fuel off : Nat) (done : List UDPMessage),
      off ≤ m.data.length → m.data.length - off < fuel → done.length ≤ cap →
      fragLoop m mps cnt fuel off (byte done.length) (done ++ List.replicate (cap - done.length) zeroMsg) =
        if done.length + (chunksOf mps (m.data.drop off)).length ≤ cap then
          .ok (done ++ mkFrags m cnt done.length (chunksOf mps (m.data.drop off))
                ++ List.replicate (cap - done.length - (chunksOf mps (m.data.drop off)).length) zeroMsg)
        else .panic := by
  intro fuel
  induction fuel with
  | zero => intro off done _ h; omega
  | succ fuel ih =>
    intro off done hoff hfuel hdone
    rw [fragLoop]
    by_cases hlt : off < m.data.length
    · rw [if_pos hlt]
      obtain ⟨hs, hd⟩ := slice_chunk m.data off mps _ hlt rfl
      simp only [hs, bind_ok]
      have hne : m.data.drop off ≠ [] := by
        intro e
        have := congrArg List.length e
        simp only [List.length_drop, List.length_nil] at this
        omega
      rw [chunksOf_cons mps hm _ hne]
      have hbv : (byte done.length).val = done.length := by
        simp only [byte_val]; omega
      simp only [hbv, List.length_cons]
      by_cases hfull : done.length < cap
      · -- there is room for this fragment
        unfold setIdx
        rw [if_pos (by simp only [List.length_append, List.length_replicate]; omega)]
        simp only [bind_ok]
        generalize hf : ({ m with fragID := byte done.length, fragCount := cnt, data := (m.data.drop off).take mps } : UDPMessage) = f
        rw [set_done done cap f hfull]
        have hlen : (done ++ [f]).length = done.length + 1 := by simp
        have := ih (off + (if m.data.length - off > mps then mps else m.data.length - off)) (done ++ [f])
          (by split <;> omega) (by split <;> omega) (by rw [hlen]; omega)
        rw [hlen] at this
        rw [hlen, this, hd]
        have e1 : done.length + 1 + (chunksOf mps ((m.data.drop off).drop mps)).length
            = done.length + ((chunksOf mps ((m.data.drop off).drop mps)).length + 1) := by omega
        rw [e1]
        split
        · simp only [mkFrags, List.append_assoc, List.cons_append, List.nil_append, hf]
          rw [show cap - (done.length + 1) - (chunksOf mps (List.drop mps (List.drop off m.data))).length
            = cap - done.length - ((chunksOf mps (List.drop mps (List.drop off m.data))).length + 1) by omega]
        · rfl
      · -- index cap: out of range
        unfold setIdx
        rw [if_neg (by simp only [List.length_append, List.length_replicate]; omega)]
        simp only [bind_panic]
        rw [if_neg (by omega)]
    · rw [if_neg hlt]
      have : m.data.drop off = [] := List.drop_eq_nil_of_le (by omega)
      simp only [this, chunksOf_nil, List.length_nil, mkFrags, List.append_nil, Nat.add_zero, Nat.sub_zero]
      rw [if_pos hdone]

/-! ## FragUDPMessage as a function of its arguments -/

/-- closed form of the repaired FragUDPMessage -/
theorem fragUDP_spec (m : UDPMessage) (L : Int) :
    fragUDP m L =
      .ok (if (size m : Int) ≤ L then [m]
           else if L - (headerSize m : Int) ≤ 0 then []
           else if fragCountOf m (L - (headerSize m : Int)).toNat > 255 then []
           else mkFrags m (byte (fragCountOf m (L - (headerSize m : Int)).toNat)) 0
                  (chunksOf (L - (headerSize m : Int)).toNat m.data)) := by
  unfold fragUDP
  split
  · rfl
  · simp only
    split
    · rfl
    · rename_i hpos
      split
      · rfl
      · rename_i hc
        have hm : 0 < (L - (headerSize m : Int)).toNat := by omega
        have hcnt := chunks_count _ hm m.data
        have := fragLoop_spec m _ hm (byte (fragCountOf m (L - (headerSize m : Int)).toNat))
          (fragCountOf m (L - (headerSize m : Int)).toNat) (by omega) (m.data.length + 1) 0 []
          (by omega) (by omega) (by simp)
        simp only [List.length_nil, List.nil_append, List.drop_zero, Nat.sub_zero, Nat.zero_add] at this
        rw [show (0 : Byte) = byte 0 from rfl, this, hcnt]
        unfold fragCountOf
        simp

/-- closed form of the pinned FragUDPMessage: it faults exactly when 256 or more fragments are needed -/
theorem fragUDPPinned_spec (m : UDPMessage) (L : Int) :
    fragUDPPinned m L =
      if (size m : Int) ≤ L then .ok [m]
      else if L - (headerSize m : Int) ≤ 0 then .ok []
      else if fragCountOf m (L - (headerSize m : Int)).toNat > 255 then .panic
      else .ok (mkFrags m (byte (fragCountOf m (L - (headerSize m : Int)).toNat)) 0
                  (chunksOf (L - (headerSize m : Int)).toNat m.data)) := by
  unfold fragUDPPinned
  split
  · rfl
  · simp only
    split
    · rfl
    · rename_i hpos
      have hm : 0 < (L - (headerSize m : Int)).toNat := by omega
      have hcnt := chunks_count _ hm m.data
      have := fragLoop_spec m _ hm (byte (fragCountOf m (L - (headerSize m : Int)).toNat))
        (byte (fragCountOf m (L - (headerSize m : Int)).toNat)).val (by have := (byte (fragCountOf m (L - (headerSize m : Int)).toNat)).isLt; omega) (m.data.length + 1) 0 []
        (by omega) (by omega) (by simp)
      simp only [List.length_nil, List.nil_append, List.drop_zero, Nat.sub_zero, Nat.zero_add] at this
      rw [show (0 : Byte) = byte 0 from rfl, this, hcnt]
      unfold fragCountOf
      simp only [byte_val]
      generalize (m.data.length + (L - ↑(headerSize m)).toNat - 1) / (L - ↑(headerSize m)).toNat = c
      by_cases hc : c > 255
      · have h1 : ¬ c ≤ c % 256 := by omega
        simp only [h1, hc, ↓reduceIte]
      · have h1 : c ≤ c % 256 := by omega
        have h2 : c % 256 - c = 0 := by omega
        simp only [h1, hc, h2, ↓reduceIte, List.replicate_zero, List.append_nil]

/-! ## 4–7. defragger -/

/-! ## Defragger: a panic-free description of Feed on well-formed states -/

def somes (fr : List (Option UDPMessage)) : Nat := (fr.filter Option.isSome).length

def dataLen : List (Option UDPMessage) → Nat
  | [] => 0
  | none :: r => dataLen r
  | some f :: r => f.data.length + dataLen r

def assemble (fr : List (Option UDPMessage)) : Bytes :=
  (fr.map (fun o => match o with | some m => m.data | none => [])).flatten

/-- the representation invariant of the Defragger: fewer than 256 slots, `count` = number of
    occupied slots, `size` = bytes held -/
structure WFD (d : Defragger) : Prop where
  len : d.frags.length < 256
  count : d.count = somes d.frags
  size : d.size = dataLen d.frags

theorem somes_le (fr : List (Option UDPMessage)) : somes fr ≤ fr.length := by
  simp only [somes]; exact List.length_filter_le _ _

theorem somes_cons_none (r : List (Option UDPMessage)) : somes (none :: r) = somes r := by
  simp [somes, List.filter]

theorem somes_cons_some (f : UDPMessage) (r : List (Option UDPMessage)) : somes (some f :: r) = somes r + 1 := by
  simp [somes, List.filter]

theorem somes_replicate_none (n : Nat) : somes (List.replicate n (none : Option UDPMessage)) = 0 := by
  induction n with
  | zero => rfl
  | succ n ih => rw [List.replicate_succ, somes_cons_none, ih]

theorem dataLen_replicate_none (n : Nat) : dataLen (List.replicate n (none : Option UDPMessage)) = 0 := by
  induction n with
  | zero => rfl
  | succ n ih => rw [List.replicate_succ, dataLen, ih]

theorem somes_set (fr : List (Option UDPMessage)) (i : Nat) (m : UDPMessage)
    (h : fr[i]? = some none) : somes (fr.set i (some m)) = somes fr + 1 := by
  induction fr generalizing i with
  | nil => simp at h
  | cons x xs ih =>
    cases i with
    | zero =>
      simp only [List.getElem?_cons_zero, Option.some.injEq] at h; subst h
      rw [List.set_cons_zero, somes_cons_some, somes_cons_none]
    | succ j =>
      simp only [List.getElem?_cons_succ] at h
      rw [List.set_cons_succ]
      cases x with
      | none => rw [somes_cons_none, somes_cons_none, ih j h]
      | some f => rw [somes_cons_some, somes_cons_some, ih j h]

theorem dataLen_set (fr : List (Option UDPMessage)) (i : Nat) (m : UDPMessage)
    (h : fr[i]? = some none) : dataLen (fr.set i (some m)) = dataLen fr + m.data.length := by
  induction fr generalizing i with
  | nil => simp at h
  | cons x xs ih =>
    cases i with
    | zero =>
      simp only [List.getElem?_cons_zero, Option.some.injEq] at h; subst h
      rw [List.set_cons_zero, dataLen, dataLen]; omega
    | succ j =>
      simp only [List.getElem?_cons_succ] at h
      rw [List.set_cons_succ]
      cases x with
      | none => rw [dataLen, dataLen, ih j h]
      | some f => rw [dataLen, dataLen, ih j h]; omega

theorem assemble_cons_none (r : List (Option UDPMessage)) : assemble (none :: r) = assemble r := by
  simp [assemble]

theorem assemble_cons_some (f : UDPMessage) (r : List (Option UDPMessage)) :
    assemble (some f :: r) = f.data ++ assemble r := by
  simp [assemble]

theorem assemble_length (fr : List (Option UDPMessage)) : (assemble fr).length = dataLen fr := by
  induction fr with
  | nil => rfl
  | cons x xs ih =>
    cases x with
    | none => rw [assemble_cons_none, dataLen, ih]
    | some f => rw [assemble_cons_some, dataLen, List.length_append, ih]

/-- a table whose every slot is counted has no nil slot: the reassembly loop does not fault -/
theorem allData_of_full (fr : List (Option UDPMessage)) (h : somes fr = fr.length) :
    allData fr = .ok (assemble fr) := by
  induction fr with
  | nil => rfl
  | cons x xs ih =>
    cases x with
    | none =>
      rw [somes_cons_none, List.length_cons] at h
      have := somes_le xs; omega
    | some f =>
      rw [somes_cons_some, List.length_cons] at h
      rw [allData, ih (by omega), bind_ok, assemble_cons_some]

theorem fitTo_self (flat : Bytes) : fitTo flat.length flat = flat := by
  simp [fitTo]

theorem full_of_somes_eq_length (fr : List (Option UDPMessage)) (h : somes fr = fr.length) :
    ∀ i, i < fr.length → ∃ f, fr[i]? = some (some f) := by
  induction fr with
  | nil => intro i hi; simp at hi
  | cons x xs ih =>
    cases x with
    | none =>
      rw [somes_cons_none, List.length_cons] at h
      have := somes_le xs; omega
    | some f =>
      rw [somes_cons_some, List.length_cons] at h
      intro i hi
      cases i with
      | zero => exact ⟨f, by simp⟩
      | succ j =>
        have := ih (by omega) j (by simpa using hi)
        simpa using this

/-- Feed without the panics and without the 8-bit arithmetic -/
def feedP (d : Defragger) (m : UDPMessage) : Defragger × Option UDPMessage :=
  if m.fragCount.val ≤ 1 then (d, some m)
  else if m.fragID.val ≥ m.fragCount.val then (d, none)
  else if m.packetID ≠ d.pktID ∨ m.fragCount.val ≠ d.frags.length then
    ({ pktID := m.packetID, frags := (List.replicate m.fragCount.val none).set m.fragID.val (some m),
       count := 1, size := m.data.length }, none)
  else
    match d.frags[m.fragID.val]? with
    | some none =>
      let fr := d.frags.set m.fragID.val (some m)
      let d' : Defragger := { d with frags := fr, count := d.count + 1, size := d.size + m.data.length }
      if d.count + 1 = fr.length then
        (d', some { m with data := assemble fr, fragID := 0, fragCount := 1 })
      else (d', none)
    | _ => (d, none)

theorem wfd_init : WFD {} := ⟨by decide, rfl, rfl⟩

theorem wfd_feedP (d : Defragger) (m : UDPMessage) (h : WFD d) : WFD (feedP d m).1 := by
  unfold feedP
  split
  · exact h
  · split
    · exact h
    · rename_i h1 h2
      split
      · have hget : (List.replicate m.fragCount.val (none : Option UDPMessage))[m.fragID.val]? = some none := by
          simp only [List.getElem?_replicate]; rw [if_pos (by omega)]
        refine ⟨?_, ?_, ?_⟩
        · simp only [List.length_set, List.length_replicate]; exact m.fragCount.isLt
        · simp only; rw [somes_set _ _ _ hget, somes_replicate_none]
        · simp only; rw [dataLen_set _ _ _ hget, dataLen_replicate_none]; omega
      · split
        · rename_i hslot
          have key : WFD { d with frags := d.frags.set m.fragID.val (some m), count := d.count + 1,
                                   size := d.size + m.data.length } := by
            refine ⟨?_, ?_, ?_⟩
            · simp only [List.length_set]; exact h.len
            · simp only; rw [somes_set _ _ _ hslot, h.count]
            · simp only; rw [dataLen_set _ _ _ hslot, h.size]
          dsimp only
          split <;> exact key
        · exact h

/-- on a well-formed state the Go function computes `feedP` and does not panic -/
theorem feed_eq (d : Defragger) (m : UDPMessage) (h : WFD d) : feed d m = .ok (feedP d m) := by
  unfold feed feedP
  have hlen := h.len
  have hmod : d.frags.length % 256 = d.frags.length := Nat.mod_eq_of_lt hlen
  rw [hmod]
  split
  · rfl
  · split
    · rfl
    · rename_i h1 h2
      split
      · unfold setIdx
        rw [if_pos (by simp only [List.length_replicate]; omega)]
        rfl
      · rename_i h3
        have hcnt : m.fragCount.val = d.frags.length := by
          by_cases e : m.fragCount.val = d.frags.length
          · exact e
          · exact absurd (Or.inr e) h3
        have hi : m.fragID.val < d.frags.length := by omega
        unfold Res.idx
        rw [List.getElem?_eq_getElem hi]
        simp only [bind_ok]
        cases hs : d.frags[m.fragID.val] with
        | some f => rfl
        | none =>
          have hslot : d.frags[m.fragID.val]? = some none := by
            rw [List.getElem?_eq_getElem hi, hs]
          simp only
          unfold setIdx
          rw [if_pos hi]
          simp only [bind_ok]
          have hs1 := somes_set d.frags m.fragID.val m hslot
          have hle := somes_le (d.frags.set m.fragID.val (some m))
          simp only [List.length_set] at hle ⊢
          have hc : (d.count + 1) % 256 = d.count + 1 := by
            apply Nat.mod_eq_of_lt; rw [h.count]; omega
          rw [hc]
          split
          · rename_i hfull
            have hfull' : somes (d.frags.set m.fragID.val (some m)) = (d.frags.set m.fragID.val (some m)).length := by
              rw [hs1, List.length_set, ← h.count]; exact hfull
            rw [allData_of_full _ hfull']
            simp only [bind_ok]
            have : d.size + m.data.length = (assemble (d.frags.set m.fragID.val (some m))).length := by
              rw [assemble_length, dataLen_set _ _ _ hslot, h.size]
            rw [this, fitTo_self]
          · rfl

/-! ## histories -/

def runP : Defragger → List UDPMessage → Defragger × List (Option UDPMessage)
  | d, [] => (d, [])
  | d, m :: ms => ((runP (feedP d m).1 ms).1, (feedP d m).2 :: (runP (feedP d m).1 ms).2)

theorem wfd_runP (d : Defragger) (ms : List UDPMessage) (h : WFD d) : WFD (runP d ms).1 := by
  induction ms generalizing d with
  | nil => exact h
  | cons m ms ih => exact ih _ (wfd_feedP d m h)

theorem feedAll_eq (d : Defragger) (ms : List UDPMessage) (h : WFD d) :
    feedAll d ms = .ok (runP d ms) := by
  induction ms generalizing d with
  | nil => rfl
  | cons m ms ih =>
    rw [feedAll, feed_eq d m h, bind_ok, ih _ (wfd_feedP d m h), bind_ok, runP]

theorem runP_length (d : Defragger) (ms : List UDPMessage) : (runP d ms).2.length = ms.length := by
  induction ms generalizing d with
  | nil => rfl
  | cons m ms ih => simp [runP, ih]

theorem runP_append (d : Defragger) (a b : List UDPMessage) :
    runP d (a ++ b) = ((runP (runP d a).1 b).1, (runP d a).2 ++ (runP (runP d a).1 b).2) := by
  induction a generalizing d with
  | nil => rfl
  | cons m ms ih => simp [runP, ih]

theorem reachable_wfd {d : Defragger} (h : Reachable d) : WFD d := by
  obtain ⟨ms, outs, h⟩ := h
  rw [feedAll_eq _ _ wfd_init] at h
  simp only [ok.injEq] at h
  have := wfd_runP {} ms wfd_init
  rw [h] at this; exact this

/-! ## slot invariant (appendix A.5) -/

/-- every occupied slot `i` holds a fragment from the universe `U` of fragments actually
    sent, with index `i`, the table's packet id and the table's length as count -/
def Inv (U : UDPMessage → Prop) (d : Defragger) : Prop :=
  ∀ i f, d.frags[i]? = some (some f) →
    U f ∧ f.fragID.val = i ∧ f.packetID = d.pktID ∧ f.fragCount.val = d.frags.length

theorem inv_init (U : UDPMessage → Prop) : Inv U {} := by
  intro i f h; simp at h

theorem inv_feedP (U : UDPMessage → Prop) (d : Defragger) (m : UDPMessage)
    (hU : 1 < m.fragCount.val → U m) (h : Inv U d) : Inv U (feedP d m).1 := by
  unfold feedP
  split
  · exact h
  · rename_i h1
    have hU := hU (by omega)
    split
    · exact h
    · split
      · intro i f hf
        simp only at hf
        rw [List.getElem?_set] at hf
        split at hf
        · rename_i heq
          split at hf
          · simp only [Option.some.injEq] at hf; subst hf; subst heq
            refine ⟨hU, rfl, rfl, ?_⟩; simp
          · simp at hf
        · simp [List.getElem?_replicate] at hf
      · rename_i hfid hk
        have hpid : m.packetID = d.pktID := by
          by_cases e : m.packetID = d.pktID
          · exact e
          · exact absurd (Or.inl e) hk
        have hcnt : m.fragCount.val = d.frags.length := by
          by_cases e : m.fragCount.val = d.frags.length
          · exact e
          · exact absurd (Or.inr e) hk
        split
        · rename_i hslot
          have key : Inv U { d with frags := d.frags.set m.fragID.val (some m), count := d.count + 1,
                                    size := d.size + m.data.length } := by
            intro i f hf
            simp only at hf
            rw [List.getElem?_set] at hf
            split at hf
            · rename_i heq
              split at hf
              · simp only [Option.some.injEq] at hf; subst hf; subst heq
                refine ⟨hU, rfl, hpid, ?_⟩; simp [hcnt]
              · simp at hf
            · have := h i f hf
              simpa using this
          dsimp only
          split <;> exact key
        · exact h

/-- what an emission of a fragmented message consists of -/
theorem emit_sound (U : UDPMessage → Prop) (d : Defragger) (m out : UDPMessage) (d' : Defragger)
    (hU : U m) (hI : Inv U d) (hC : WFD d) (hcnt : 1 < m.fragCount.val)
    (hf : feedP d m = (d', some out)) :
    out = { m with data := assemble d'.frags, fragID := 0, fragCount := 1 } ∧
    somes d'.frags = d'.frags.length ∧ d'.frags.length = m.fragCount.val ∧
    d'.pktID = m.packetID ∧ Inv U d' := by
  have hI' : Inv U d' := by
    have := inv_feedP U d m (fun _ => hU) hI; rw [hf] at this; exact this
  have hC' : WFD d' := by
    have := wfd_feedP d m hC; rw [hf] at this; exact this
  unfold feedP at hf
  rw [if_neg (by omega)] at hf
  split at hf
  · simp at hf
  · split at hf
    · simp at hf
    · rename_i hk
      have hpid : m.packetID = d.pktID := by
        by_cases e : m.packetID = d.pktID
        · exact e
        · exact absurd (Or.inl e) hk
      have hcnt' : m.fragCount.val = d.frags.length := by
        by_cases e : m.fragCount.val = d.frags.length
        · exact e
        · exact absurd (Or.inr e) hk
      split at hf
      · dsimp only at hf
        split at hf
        · rename_i hfull
          simp only [Prod.mk.injEq, Option.some.injEq] at hf
          obtain ⟨hd, ho⟩ := hf
          subst hd; subst ho
          refine ⟨rfl, ?_, ?_, hpid.symm, hI'⟩
          · have := hC'.count
            simp only at this hfull ⊢
            omega
          · simp only [List.length_set]; exact hcnt'.symm
        · simp at hf
      · simp at hf

/-! ## fragment sets -/

theorem assemble_map_some (fs : List UDPMessage) :
    assemble (fs.map some) = (fs.map (·.data)).flatten := by
  induction fs with
  | nil => rfl
  | cons f fs ih => rw [List.map_cons, assemble_cons_some, ih]; simp

theorem IsFragSet.index {m : UDPMessage} {fs : List UDPMessage} (h : IsFragSet m fs) {f : UDPMessage}
    (hf : f ∈ fs) : ∃ hi : f.fragID.val < fs.length, fs[f.fragID.val] = f := by
  obtain ⟨j, hj, rfl⟩ := List.getElem_of_mem hf
  have := h.fid j hj
  exact ⟨by omega, by simp only [this]⟩

/-- two fragments of a set with the same index are the same fragment -/
theorem IsFragSet.inj {m : UDPMessage} {fs : List UDPMessage} (h : IsFragSet m fs) {f g : UDPMessage}
    (hf : f ∈ fs) (hg : g ∈ fs) (e : f.fragID.val = g.fragID.val) : f = g := by
  obtain ⟨h1, e1⟩ := h.index hf
  obtain ⟨h2, e2⟩ := h.index hg
  rw [← e1, ← e2]; simp only [e]

/-- A full table all of whose slots satisfy the slot invariant over a universe made of
    fragment sets with pairwise distinct packet ids IS one of those sets. -/
theorem full_table_is_set (sets : List (UDPMessage × List UDPMessage))
    (hsets : ∀ p ∈ sets, IsFragSet p.1 p.2)
    (hdist : ∀ p ∈ sets, ∀ q ∈ sets, p.1.packetID = q.1.packetID → p = q)
    (d : Defragger) (hI : Inv (fun f => ∃ p ∈ sets, f ∈ p.2) d)
    (hfull : somes d.frags = d.frags.length) (hpos : 0 < d.frags.length) :
    ∃ p ∈ sets, d.frags = p.2.map some ∧ p.1.packetID = d.pktID := by
  have full := full_of_somes_eq_length d.frags hfull
  obtain ⟨f0, hf0⟩ := full 0 hpos
  obtain ⟨⟨p, hp, hf0p⟩, _, hpid0, hcnt0⟩ := hI 0 f0 hf0
  have hS := hsets p hp
  have hlen : p.2.length = d.frags.length := by rw [← hS.cnt f0 hf0p]; exact hcnt0
  refine ⟨p, hp, ?_, by rw [← hS.pid f0 hf0p]; exact hpid0⟩
  apply List.ext_getElem?
  intro i
  by_cases hi : i < d.frags.length
  · obtain ⟨f, hf⟩ := full i hi
    obtain ⟨⟨q, hq, hfq⟩, hfid, hpid, _⟩ := hI i f hf
    have hqp : q = p := by
      apply hdist q hq p hp
      rw [← (hsets q hq).pid f hfq, ← hS.pid f0 hf0p, hpid, hpid0]
    subst hqp
    obtain ⟨hi', e⟩ := hS.index hfq
    rw [hf, List.getElem?_map, List.getElem?_eq_getElem (by omega)]
    simp only [Option.map_some, Option.some.injEq]
    subst hfid
    exact e.symm
  · rw [List.getElem?_eq_none (by omega), List.getElem?_eq_none (by simp only [List.length_map]; omega)]

/-- soundness of one emission: under the slot invariant over fragment sets with distinct
    packet ids, an emitted reassembly is one of the original messages -/
theorem emit_is_original (sets : List (UDPMessage × List UDPMessage))
    (hsets : ∀ p ∈ sets, IsFragSet p.1 p.2)
    (hdist : ∀ p ∈ sets, ∀ q ∈ sets, p.1.packetID = q.1.packetID → p = q)
    (d : Defragger) (m out : UDPMessage) (d' : Defragger)
    (hU : ∃ p ∈ sets, m ∈ p.2) (hI : Inv (fun f => ∃ p ∈ sets, f ∈ p.2) d) (hC : WFD d)
    (hcnt : 1 < m.fragCount.val) (hf : feedP d m = (d', some out)) :
    ∃ p ∈ sets, out = reassembled p.1 := by
  obtain ⟨ho, hfull, hlen, hpid, hI'⟩ := emit_sound _ d m out d' hU hI hC hcnt hf
  obtain ⟨p, hp, htab, hppid⟩ := full_table_is_set sets hsets hdist d' hI' hfull (by omega)
  obtain ⟨q, hq, hmq⟩ := hU
  have hqp : q = p := by
    apply hdist q hq p hp
    rw [← (hsets q hq).pid m hmq, hppid, hpid]
  subst hqp
  have hS := hsets q hq
  refine ⟨q, hq, ?_⟩
  rw [ho, htab, assemble_map_some, hS.data, reassembled]
  cases hq1 : q.1
  simp only [UDPMessage.mk.injEq, and_true, true_and]
  have h1 := hS.sid m hmq
  have h2 := hS.pid m hmq
  have h3 := hS.addr m hmq
  rw [hq1] at h1 h2 h3
  exact ⟨h1, h2, h3⟩

/-- `defrag_no_mixing`, on the panic-free form: any sequence of unfragmented messages and of
    fragments drawn from fragment sets with pairwise distinct packet ids -/
theorem no_mixing_runP (sets : List (UDPMessage × List UDPMessage))
    (hsets : ∀ p ∈ sets, IsFragSet p.1 p.2)
    (hdist : ∀ p ∈ sets, ∀ q ∈ sets, p.1.packetID = q.1.packetID → p = q)
    (σ : List UDPMessage) (hσ : ∀ x ∈ σ, x.fragCount.val ≤ 1 ∨ ∃ p ∈ sets, x ∈ p.2)
    (d : Defragger) (hI : Inv (fun f => ∃ p ∈ sets, f ∈ p.2) d) (hC : WFD d) :
    ∀ out ∈ emitted (runP d σ).2,
      (out ∈ σ ∧ out.fragCount.val ≤ 1) ∨ ∃ p ∈ sets, out = reassembled p.1 := by
  induction σ generalizing d with
  | nil => intro out h; simp [runP, emitted] at h
  | cons x σ ih =>
    intro out hout
    have hx := hσ x (by simp)
    have hU : 1 < x.fragCount.val → ∃ p ∈ sets, x ∈ p.2 := by
      intro h; rcases hx with hx | hx
      · omega
      · exact hx
    have hI' := inv_feedP _ d x hU hI
    have hC' := wfd_feedP d x hC
    have ih' := ih (fun y hy => hσ y (by simp [hy])) _ hI' hC'
    simp only [runP, emitted, List.filterMap_cons] at hout
    cases ho : (feedP d x).2 with
    | none =>
      rw [ho] at hout
      simp only [id] at hout
      rcases ih' out hout with ⟨h1, h2⟩ | h
      · exact Or.inl ⟨by simp [h1], h2⟩
      · exact Or.inr h
    | some o =>
      rw [ho] at hout
      simp only [id, List.mem_cons] at hout
      rcases hout with rfl | hout
      · by_cases hc : x.fragCount.val ≤ 1
        · left
          have : feedP d x = (d, some x) := by unfold feedP; rw [if_pos hc]
          rw [this] at ho
          simp only [Option.some.injEq] at ho
          subst ho
          exact ⟨by simp, hc⟩
        · right
          exact emit_is_original sets hsets hdist d x out (feedP d x).1 (hU (by omega)) hI hC (by omega)
            (by rw [← ho])
      · rcases ih' out hout with ⟨h1, h2⟩ | h
        · exact Or.inl ⟨by simp [h1], h2⟩
        · exact Or.inr h

/-! ## one fragment set, any arrival order with duplicates -/

/-- the table after the fragments `pre` of `fs` have arrived -/
def tableOf (fs pre : List UDPMessage) : List (Option UDPMessage) :=
  fs.map (fun f => if f ∈ pre then some f else none)

theorem tableOf_length (fs pre : List UDPMessage) : (tableOf fs pre).length = fs.length := by
  simp [tableOf]

theorem tableOf_nil (fs : List UDPMessage) : tableOf fs [] = List.replicate fs.length none := by
  induction fs with
  | nil => rfl
  | cons f fs ih =>
    simp only [tableOf, List.map_cons, List.not_mem_nil, ↓reduceIte, List.length_cons, List.replicate_succ,
      List.cons.injEq, true_and]
    exact ih

theorem tableOf_snoc_mem (fs pre : List UDPMessage) (x : UDPMessage) (hx : x ∈ pre) :
    tableOf fs (pre ++ [x]) = tableOf fs pre := by
  unfold tableOf
  apply List.map_congr_left
  intro f _
  by_cases hf : f ∈ pre
  · simp [hf]
  · have : f ≠ x := fun e => hf (e ▸ hx)
    simp [hf, this]

theorem tableOf_snoc_new {m : UDPMessage} {fs : List UDPMessage} (hS : IsFragSet m fs) (pre : List UDPMessage)
    (x : UDPMessage) (hx : x ∈ fs) :
    tableOf fs (pre ++ [x]) = (tableOf fs pre).set x.fragID.val (some x) := by
  obtain ⟨hj, ej⟩ := hS.index hx
  apply List.ext_getElem?
  intro i
  rw [List.getElem?_set]
  simp only [tableOf, List.getElem?_map, List.length_map]
  by_cases hi : i < fs.length
  · rw [List.getElem?_eq_getElem hi]
    simp only [Option.map_some]
    by_cases hij : x.fragID.val = i
    · subst hij
      rw [if_pos rfl, if_pos hj, ej]
      simp
    · rw [if_neg hij]
      have hne : fs[i] ≠ x := by
        intro e
        have := hS.fid i hi
        rw [e] at this; exact hij this
      simp [hne]
  · rw [List.getElem?_eq_none (by omega)]
    simp only [Option.map_none]
    split
    · rename_i h; omega
    · rfl

theorem tableOf_get {m : UDPMessage} {fs : List UDPMessage} (hS : IsFragSet m fs) (pre : List UDPMessage)
    (x : UDPMessage) (hx : x ∈ fs) :
    (tableOf fs pre)[x.fragID.val]? = some (if x ∈ pre then some x else none) := by
  obtain ⟨hj, ej⟩ := hS.index hx
  simp only [tableOf, List.getElem?_map, List.getElem?_eq_getElem hj, ej, Option.map_some]

theorem somes_tableOf (fs pre : List UDPMessage) :
    somes (tableOf fs pre) = fs.length ↔ Complete fs pre := by
  induction fs with
  | nil => simp [tableOf, somes, Complete]
  | cons f fs ih =>
    have hle := somes_le (tableOf fs pre)
    rw [tableOf_length] at hle
    unfold Complete at ih ⊢
    simp only [tableOf, List.map_cons, List.length_cons, List.mem_cons, forall_eq_or_imp]
    by_cases hf : f ∈ pre
    · rw [if_pos hf, somes_cons_some]
      constructor
      · intro h; exact ⟨hf, ih.mp (by unfold tableOf; omega)⟩
      · intro h; have := ih.mpr h.2; unfold tableOf at this; omega
    · rw [if_neg hf, somes_cons_none]
      constructor
      · intro h; unfold tableOf at hle; omega
      · intro h; exact absurd h.1 hf

theorem tableOf_complete (fs pre : List UDPMessage) (h : Complete fs pre) : tableOf fs pre = fs.map some := by
  unfold tableOf
  apply List.map_congr_left
  intro f hf
  rw [if_pos (h f hf)]

/-- a single fragment is never the whole set (the set has at least two distinct fragments) -/
theorem not_complete_single {m : UDPMessage} {fs : List UDPMessage} (hS : IsFragSet m fs) (x : UDPMessage) :
    ¬ Complete fs [x] := by
  intro h
  have h2 := hS.two
  have l0 : 0 < fs.length := by omega
  have l1 : 1 < fs.length := by omega
  have h0 := h fs[0] (List.getElem_mem l0)
  have h1 := h fs[1] (List.getElem_mem l1)
  simp only [List.mem_singleton] at h0 h1
  have e0 := hS.fid 0 l0
  have e1 := hS.fid 1 l1
  rw [h0] at e0; rw [h1] at e1; omega

/-- the defragger is reassembling `fs` and has seen exactly the fragments in `pre` -/
structure Tracks (m : UDPMessage) (fs pre : List UDPMessage) (d : Defragger) : Prop where
  wf : WFD d
  pid : d.pktID = m.packetID
  tab : d.frags = tableOf fs pre

/-- a fresh Defragger is never in the middle of a fragment set -/
theorem fresh_not_holding (m : UDPMessage) (fs : List UDPMessage) (hS : IsFragSet m fs) :
    ({} : Defragger).pktID ≠ m.packetID ∨ ({} : Defragger).frags.length ≠ fs.length := by
  right; have := hS.two; simp only [List.length_nil]; omega

/-- the first fragment of `fs` fed to a defragger that is not holding (packet id, count) of `fs` -/
theorem feedP_first {m : UDPMessage} {fs : List UDPMessage} (hS : IsFragSet m fs) (d : Defragger) (hC : WFD d)
    (hnot : d.pktID ≠ m.packetID ∨ d.frags.length ≠ fs.length) (x : UDPMessage) (hx : x ∈ fs) :
    (feedP d x).2 = none ∧ Tracks m fs [x] (feedP d x).1 := by
  have hwf := wfd_feedP d x hC
  obtain ⟨hj, ej⟩ := hS.index hx
  have hcnt := hS.cnt x hx
  have hpid := hS.pid x hx
  have h2 := hS.two
  unfold feedP at hwf ⊢
  rw [if_neg (by omega), if_neg (by omega)] at hwf ⊢
  rw [if_pos (by rcases hnot with h | h
                 · left; rw [hpid]; exact fun e => h e.symm
                 · right; omega)] at hwf ⊢
  refine ⟨rfl, hwf, hpid, ?_⟩
  simp only
  have := tableOf_snoc_new hS [] x hx
  rw [List.nil_append, tableOf_nil] at this
  rw [this, hcnt]

/-- a further fragment of `fs` -/
theorem feedP_next {m : UDPMessage} {fs : List UDPMessage} (hS : IsFragSet m fs) (pre : List UDPMessage)
    (d : Defragger) (hT : Tracks m fs pre d) (x : UDPMessage) (hx : x ∈ fs) :
    (feedP d x).2 = (if x ∉ pre ∧ Complete fs (pre ++ [x]) then some (reassembled m) else none) ∧
    Tracks m fs (pre ++ [x]) (feedP d x).1 := by
  have hwf := wfd_feedP d x hT.wf
  obtain ⟨hj, ej⟩ := hS.index hx
  have hcnt := hS.cnt x hx
  have hpid := hS.pid x hx
  have h2 := hS.two
  have hlen : d.frags.length = fs.length := by rw [hT.tab, tableOf_length]
  have hget := tableOf_get hS pre x hx
  rw [← hT.tab] at hget
  unfold feedP at hwf ⊢
  rw [if_neg (by omega), if_neg (by omega)] at hwf ⊢
  rw [if_neg (by rw [hpid, hT.pid, hlen, hcnt]; simp)] at hwf ⊢
  rw [hget] at hwf ⊢
  by_cases hpre : x ∈ pre
  · rw [if_pos hpre] at hwf ⊢
    simp only at hwf ⊢
    refine ⟨?_, hwf, hT.pid, ?_⟩
    · rw [if_neg (by simp [hpre])]
    · rw [tableOf_snoc_mem _ _ _ hpre]; exact hT.tab
  · rw [if_neg hpre] at hwf hget ⊢
    simp only at hwf ⊢
    have htab : d.frags.set x.fragID.val (some x) = tableOf fs (pre ++ [x]) := by
      rw [tableOf_snoc_new hS pre x hx, hT.tab]
    have hsomes : d.count + 1 = somes (tableOf fs (pre ++ [x])) := by
      rw [← htab, somes_set _ _ _ hget, hT.wf.count]
    by_cases hcomp : Complete fs (pre ++ [x])
    · have hfull : d.count + 1 = (d.frags.set x.fragID.val (some x)).length := by
        rw [hsomes, (somes_tableOf fs _).mpr hcomp, List.length_set, hlen]
      rw [if_pos hfull] at hwf ⊢
      refine ⟨?_, hwf, hT.pid, htab⟩
      rw [if_pos ⟨hpre, hcomp⟩]
      simp only [Option.some.injEq]
      rw [htab, tableOf_complete _ _ hcomp, assemble_map_some, hS.data, reassembled]
      have h1 := hS.sid x hx
      have h3 := hS.addr x hx
      cases hm : m
      rw [hm] at h1 hpid h3
      simp only [UDPMessage.mk.injEq, and_true, true_and]
      exact ⟨h1, hpid, h3⟩
    · have hnfull : ¬ d.count + 1 = (d.frags.set x.fragID.val (some x)).length := by
        rw [hsomes, List.length_set, hlen]
        exact fun e => hcomp ((somes_tableOf fs _).mp e)
      rw [if_neg hnfull] at hwf ⊢
      refine ⟨?_, hwf, hT.pid, htab⟩
      rw [if_neg (fun h => hcomp h.2)]

/-- what a history of fragments of `fs` returns after the prefix `pre` -/
def expectOuts (m : UDPMessage) (fs : List UDPMessage) : List UDPMessage → List UDPMessage → List (Option UDPMessage)
  | _, [] => []
  | pre, x :: rest =>
    (if x ∉ pre ∧ Complete fs (pre ++ [x]) then some (reassembled m) else none) :: expectOuts m fs (pre ++ [x]) rest

theorem runP_tracks {m : UDPMessage} {fs : List UDPMessage} (hS : IsFragSet m fs) (rest : List UDPMessage)
    (hrest : ∀ x ∈ rest, x ∈ fs) (pre : List UDPMessage) (d : Defragger) (hT : Tracks m fs pre d) :
    (runP d rest).2 = expectOuts m fs pre rest := by
  induction rest generalizing pre d with
  | nil => rfl
  | cons x rest ih =>
    obtain ⟨ho, hT'⟩ := feedP_next hS pre d hT x (hrest x (by simp))
    rw [runP, expectOuts, ho, ih (fun y hy => hrest y (by simp [hy])) _ _ hT']

theorem complete_mono {fs a b : List UDPMessage} (h : Complete fs a) (hab : ∀ x ∈ a, x ∈ b) : Complete fs b :=
  fun f hf => hab f (h f hf)

/-- exactly one emission, and only if the history completes the set -/
theorem emitted_expectOuts (m : UDPMessage) (fs rest : List UDPMessage) (hrest : ∀ x ∈ rest, x ∈ fs)
    (pre : List UDPMessage) :
    emitted (expectOuts m fs pre rest) =
      if Complete fs pre then [] else if Complete fs (pre ++ rest) then [reassembled m] else [] := by
  induction rest generalizing pre with
  | nil =>
    simp only [expectOuts, emitted, List.filterMap_nil, List.append_nil]
    split <;> rfl
  | cons x rest ih =>
    have ih' := ih (fun y hy => hrest y (by simp [hy])) (pre ++ [x])
    have hx := hrest x (by simp)
    have happ : pre ++ [x] ++ rest = pre ++ x :: rest := by simp
    rw [happ] at ih'
    simp only [expectOuts, emitted, List.filterMap_cons] at ih' ⊢
    by_cases hc : Complete fs pre
    · have hc' : Complete fs (pre ++ [x]) := complete_mono hc (by simp +contextual)
      rw [if_neg (fun h => h.1 (hc x hx)), if_pos hc]
      simp only [id]
      rw [ih', if_pos hc']
    · rw [if_neg hc]
      by_cases hcond : x ∉ pre ∧ Complete fs (pre ++ [x])
      · rw [if_pos hcond]
        simp only [id]
        rw [ih', if_pos hcond.2, if_pos (complete_mono hcond.2 (by
          intro y hy; simp only [List.mem_append, List.mem_singleton] at hy
          simp only [List.mem_append, List.mem_cons]
          rcases hy with hy | hy
          · exact Or.inl hy
          · exact Or.inr (Or.inl hy)))]
      · rw [if_neg hcond]
        simp only [id]
        have hnc : ¬ Complete fs (pre ++ [x]) := by
          intro h
          by_cases hxp : x ∈ pre
          · exact hc (complete_mono h (by
              intro y hy; simp only [List.mem_append, List.mem_singleton] at hy
              rcases hy with hy | hy
              · exact hy
              · exact hy ▸ hxp))
          · exact hcond ⟨hxp, h⟩
        rw [ih', if_neg hnc]

theorem expectOuts_split (m : UDPMessage) (fs : List UDPMessage) (a : List UDPMessage) (y : UDPMessage)
    (b pre : List UDPMessage) :
    (expectOuts m fs pre (a ++ y :: b))[a.length]? =
      some (if y ∉ pre ++ a ∧ Complete fs (pre ++ a ++ [y]) then some (reassembled m) else none) := by
  induction a generalizing pre with
  | nil => simp [expectOuts]
  | cons z a ih =>
    simp only [List.cons_append, expectOuts, List.length_cons, List.getElem?_cons_succ]
    rw [ih (pre ++ [z])]
    simp [List.append_assoc]

/-- "the fragment that arrives is new and completes the set" = "the set is complete now and was not before" -/
theorem new_and_complete_iff {fs a : List UDPMessage} {y : UDPMessage} (hy : y ∈ fs) :
    (y ∉ a ∧ Complete fs (a ++ [y])) ↔ (Complete fs (a ++ [y]) ∧ ¬ Complete fs a) := by
  constructor
  · intro ⟨h1, h2⟩; exact ⟨h2, fun h => h1 (h y hy)⟩
  · intro ⟨h1, h2⟩
    refine ⟨fun hya => h2 (complete_mono h1 ?_), h1⟩
    intro z hz
    simp only [List.mem_append, List.mem_singleton] at hz
    rcases hz with hz | hz
    · exact hz
    · exact hz ▸ hya

/-- `defrag_any_order` on the panic-free form -/
theorem any_order_runP {m : UDPMessage} {fs : List UDPMessage} (hS : IsFragSet m fs) (d : Defragger) (hC : WFD d)
    (hnot : d.pktID ≠ m.packetID ∨ d.frags.length ≠ fs.length)
    (a : List UDPMessage) (y : UDPMessage) (b : List UDPMessage) (hσ : ∀ x ∈ a ++ y :: b, x ∈ fs) :
    (runP d (a ++ y :: b)).2[a.length]? =
        some (if Complete fs (a ++ [y]) ∧ ¬ Complete fs a then some (reassembled m) else none) ∧
    emitted (runP d (a ++ y :: b)).2 = (if Complete fs (a ++ y :: b) then [reassembled m] else []) := by
  have hy : y ∈ fs := hσ y (by simp)
  cases a with
  | nil =>
    obtain ⟨ho, hT⟩ := feedP_first hS d hC hnot y hy
    have hrun := runP_tracks hS b (fun x hx => hσ x (by simp [hx])) [y] _ hT
    simp only [List.nil_append, runP, List.length_nil, List.getElem?_cons_zero, ho, hrun]
    constructor
    · rw [if_neg (fun h => not_complete_single hS y h.1)]
    · simp only [emitted, List.filterMap_cons, id]
      have := emitted_expectOuts m fs b (fun x hx => hσ x (by simp [hx])) [y]
      simp only [emitted] at this
      rw [this, if_neg (not_complete_single hS y)]
      rfl
  | cons z a =>
    have hz : z ∈ fs := hσ z (by simp)
    obtain ⟨ho, hT⟩ := feedP_first hS d hC hnot z hz
    have hrest : ∀ x ∈ a ++ y :: b, x ∈ fs := fun x hx => hσ x (by simp only [List.cons_append, List.mem_cons]; exact Or.inr hx)
    have hrun := runP_tracks hS (a ++ y :: b) hrest [z] _ hT
    simp only [List.cons_append, runP, List.length_cons, List.getElem?_cons_succ, ho, hrun]
    constructor
    · rw [expectOuts_split]
      congr 1
      have := @new_and_complete_iff fs (z :: a) y hy
      simp only [List.cons_append, List.singleton_append, List.nil_append] at this ⊢
      by_cases h : y ∉ z :: a ∧ Complete fs (z :: (a ++ [y]))
      · rw [if_pos h, if_pos (this.mp h)]
      · rw [if_neg h, if_neg (fun h' => h (this.mpr h'))]
    · simp only [emitted, List.filterMap_cons, id]
      have := emitted_expectOuts m fs (a ++ y :: b) hrest [z]
      simp only [emitted] at this
      rw [this, if_neg (not_complete_single hS z)]
      rfl

/-! ## the fragments FragUDPMessage produces form a fragment set -/

theorem mkFrags_getElem? (m : UDPMessage) (cnt : Byte) (k : Nat) (cs : List Bytes) (i : Nat) :
    (mkFrags m cnt k cs)[i]? = cs[i]?.map (fun c => { m with fragID := byte (k + i), fragCount := cnt, data := c }) := by
  induction cs generalizing k i with
  | nil => simp [mkFrags]
  | cons c cs ih =>
    cases i with
    | zero => simp [mkFrags]
    | succ i =>
      simp only [mkFrags, List.getElem?_cons_succ, ih]
      congr 1
      funext c
      congr 2
      omega

theorem mkFrags_mem (m : UDPMessage) (cnt : Byte) (k : Nat) (cs : List Bytes) (f : UDPMessage)
    (hf : f ∈ mkFrags m cnt k cs) :
    ∃ i c, cs[i]? = some c ∧ f = { m with fragID := byte (k + i), fragCount := cnt, data := c } := by
  obtain ⟨i, hi, e⟩ := List.getElem_of_mem hf
  have := mkFrags_getElem? m cnt k cs i
  rw [List.getElem?_eq_getElem hi, e] at this
  cases hc : cs[i]? with
  | none => rw [hc] at this; simp at this
  | some c =>
    rw [hc] at this
    simp only [Option.map_some, Option.some.injEq] at this
    exact ⟨i, c, hc, this⟩

theorem mkFrags_data (m : UDPMessage) (cnt : Byte) (k : Nat) (cs : List Bytes) :
    (mkFrags m cnt k cs).map (·.data) = cs := by
  induction cs generalizing k with
  | nil => rfl
  | cons c cs ih => simp [mkFrags, ih]

theorem mkFrags_isFragSet (m : UDPMessage) (cs : List Bytes) (h2 : 2 ≤ cs.length) (h255 : cs.length ≤ 255)
    (hd : cs.flatten = m.data) : IsFragSet m (mkFrags m (byte cs.length) 0 cs) := by
  have hlen := mkFrags_length m (byte cs.length) 0 cs
  refine ⟨by omega, by omega, ?_, ?_, ?_, ?_, ?_, ?_⟩
  · intro i hi
    have := mkFrags_getElem? m (byte cs.length) 0 cs i
    rw [List.getElem?_eq_getElem hi, List.getElem?_eq_getElem (by omega)] at this
    simp only [Option.map_some, Option.some.injEq] at this
    rw [this]
    simp only [byte_val]; omega
  · intro f hf
    obtain ⟨i, c, _, rfl⟩ := mkFrags_mem _ _ _ _ _ hf
    simp only [byte_val, hlen]; omega
  · intro f hf; obtain ⟨i, c, _, rfl⟩ := mkFrags_mem _ _ _ _ _ hf; rfl
  · intro f hf; obtain ⟨i, c, _, rfl⟩ := mkFrags_mem _ _ _ _ _ hf; rfl
  · intro f hf; obtain ⟨i, c, _, rfl⟩ := mkFrags_mem _ _ _ _ _ hf; rfl
  · rw [mkFrags_data, hd]

/-- the whole outcome of the repaired FragUDPMessage (property theorem `frag_outcome`) -/
theorem fragUDP_outcome (m : UDPMessage) (L : Int) (fs : List UDPMessage) (h : fragUDP m L = .ok fs) :
    fs = [] ∨ (fs = [m] ∧ (size m : Int) ≤ L) ∨
    (IsFragSet m fs ∧ (∀ f ∈ fs, 1 ≤ f.data.length ∧ (size f : Int) ≤ L) ∧
      fs.length = fragCountOf m (L - (headerSize m : Int)).toNat) := by
  rw [fragUDP_spec] at h
  simp only [ok.injEq] at h
  split at h
  · right; left; exact ⟨h.symm, by assumption⟩
  · split at h
    · left; exact h.symm
    · split at h
      · left; exact h.symm
      · rename_i hfit hpos hcnt
        right; right
        have hm : 0 < (L - (headerSize m : Int)).toNat := by omega
        have hc := chunks_count _ hm m.data
        have hflat := chunks_flatten _ hm m.data
        have hsz := chunks_size (L - (headerSize m : Int)).toNat m.data
        have hcount : fragCountOf m (L - (headerSize m : Int)).toNat = (chunksOf (L - (headerSize m : Int)).toNat m.data).length := by
          unfold fragCountOf; exact hc.symm
        -- at least two fragments: the message did not fit whole
        have h2 : 2 ≤ (chunksOf (L - (headerSize m : Int)).toNat m.data).length := by
          rw [hc]
          have : (L - (headerSize m : Int)).toNat < m.data.length := by unfold size at hfit; omega
          apply (Nat.le_div_iff_mul_le hm).mpr
          omega
        rw [hcount] at h hcnt
        subst h
        refine ⟨mkFrags_isFragSet m _ h2 (by omega) hflat, ?_, by rw [mkFrags_length, hcount]⟩
        intro f hf
        obtain ⟨i, c, hc', rfl⟩ := mkFrags_mem _ _ _ _ _ hf
        have := hsz c (List.mem_of_getElem? hc')
        refine ⟨this.1, ?_⟩
        show ((headerSize m + c.length : Nat) : Int) ≤ L
        omega


end Hy.Frag
