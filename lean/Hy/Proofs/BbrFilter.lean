import Hy.Model.BbrSampler
/-
  C12 — specification of the windowed (max) filter `Hy.Sampler.WFilter`
  (Go: core/internal/congestion/bbr/windowed_filter.go).  Core Lean only.
-/
set_option linter.unusedVariables false
namespace Hy.Sampler
open Hy

/-- feed a list of (sample, time) pairs -/
def WFilter.feed {V} (key : V → Int) (kz : Int) (f : WFilter V) : List (V × Nat) → WFilter V
  | [] => f
  | (v, t) :: xs => WFilter.feed key kz (WFilter.update key kz f v t) xs

/-- times are non-decreasing along the list, start at or after `t0`, and fit uint64 -/
def TimesOk {V} : Nat → List (V × Nat) → Prop
  | _, [] => True
  | t0, (_, t) :: xs => t0 ≤ t ∧ t < 18446744073709551616 ∧ TimesOk t xs

namespace WFilter
variable {V : Type}

/-- uint64 subtraction is ordinary subtraction when it does not wrap -/
theorem age_eq {t et : Nat} (h1 : et ≤ t) (h2 : t < 18446744073709551616) : age t et = t - et := by
  unfold age u64 two64
  have h : ((t : Int) - (et : Int)) = ((t - et : Nat) : Int) := by omega
  rw [h, Int.emod_eq_of_lt (by omega) (by omega)]
  simp

/-- `e` is one of the samples of `hist`, dominates every later sample, and is not newer than `tl` -/
def Good (key : V → Int) (hist : List (V × Nat)) (tl : Nat) (e : V × Nat) : Prop :=
  (∃ pre post, hist = pre ++ e :: post ∧ ∀ x ∈ post, key x.1 ≤ key e.1) ∧ e.2 ≤ tl

theorem Good.newest (key : V → Int) (hist : List (V × Nat)) (v : V) (t : Nat) :
    Good key (hist ++ [(v, t)]) t (v, t) :=
  ⟨⟨hist, [], rfl, by simp⟩, Nat.le_refl _⟩

theorem Good.keep {key : V → Int} {hist : List (V × Nat)} {tl : Nat} {e : V × Nat}
    (h : Good key hist tl e) {v : V} {t : Nat} (hv : key v ≤ key e.1) (ht : tl ≤ t) :
    Good key (hist ++ [(v, t)]) t e := by
  obtain ⟨⟨pre, post, rfl, hd⟩, hle⟩ := h
  refine ⟨⟨pre, post ++ [(v, t)], by simp, ?_⟩, by omega⟩
  intro x hx
  rcases List.mem_append.1 hx with hx | hx
  · exact hd x hx
  · simp at hx; subst hx; exact hv

/-- the invariant carried through `feed`: `hist` = samples fed so far (non-empty, last time `tl`) -/
structure Inv (key : V → Int) (W : Nat) (hist : List (V × Nat)) (tl : Nat) (f : WFilter V) : Prop where
  wl : f.windowLength = W
  lastT : hist.getLast?.map Prod.snd = some tl
  g0 : Good key hist tl f.e0
  g1 : Good key hist tl f.e1
  g2 : Good key hist tl f.e2
  fresh : tl - f.e0.2 ≤ W

/-- first half of the non-reset path of `Update` -/
def stage1 (key : V → Int) (f : WFilter V) (v : V) (t : Nat) : WFilter V :=
  if key v ≥ key f.e1.1 then { f with e1 := (v, t), e2 := (v, t) }
  else if key v ≥ key f.e2.1 then { f with e2 := (v, t) } else f

/-- second half (expiry / quarter / half window) -/
def stage2 (key : V → Int) (f : WFilter V) (v : V) (t : Nat) : WFilter V :=
  if age t f.e0.2 > f.windowLength then
    let f := { f with e0 := f.e1, e1 := f.e2, e2 := (v, t) }
    if age t f.e0.2 > f.windowLength then { f with e0 := f.e1, e1 := f.e2 } else f
  else if key f.e1.1 = key f.e0.1 ∧ age t f.e1.2 > f.windowLength / 4 then
    { f with e1 := (v, t), e2 := (v, t) }
  else if key f.e2.1 = key f.e1.1 ∧ age t f.e2.2 > f.windowLength / 2 then
    { f with e2 := (v, t) }
  else f

theorem update_eq (key : V → Int) (kz : Int) (f : WFilter V) (v : V) (t : Nat) :
    update key kz f v t =
      if key f.e0.1 = kz ∨ key v ≥ key f.e0.1 ∨ age t f.e2.2 > f.windowLength then f.reset v t
      else stage2 key (stage1 key f v t) v t := rfl

/-- what holds between the two halves -/
structure Mid (key : V → Int) (W : Nat) (hist : List (V × Nat)) (t : Nat) (f : WFilter V) : Prop where
  wl : f.windowLength = W
  g0 : Good key hist t f.e0
  g1 : Good key hist t f.e1
  g2 : Good key hist t f.e2
  fresh2 : t - f.e2.2 ≤ W

theorem stage1_mid {key : V → Int} {W : Nat} {hist : List (V × Nat)} {tl : Nat} {f : WFilter V}
    (h : Inv key W hist tl f) {v : V} {t : Nat} (ht : tl ≤ t) (h64 : t < 18446744073709551616)
    (hv0 : key v < key f.e0.1) (ha2 : ¬ age t f.e2.2 > f.windowLength) :
    Mid key W (hist ++ [(v, t)]) t (stage1 key f v t) := by
  have hwl := h.wl
  have he2 := h.g2.2
  rw [age_eq (by omega) h64] at ha2
  have k0 := h.g0.keep (v := v) (t := t) (by omega) ht
  unfold stage1
  split
  · exact ⟨hwl, k0, Good.newest .., Good.newest .., by simp⟩
  · have k1 := h.g1.keep (v := v) (t := t) (by omega) ht
    split
    · exact ⟨hwl, k0, k1, Good.newest .., by simp⟩
    · have k2 := h.g2.keep (v := v) (t := t) (by omega) ht
      exact ⟨hwl, k0, k1, k2, by omega⟩

theorem stage2_inv {key : V → Int} {W : Nat} {init : List (V × Nat)} {f : WFilter V} {v : V} {t : Nat}
    (h : Mid key W (init ++ [(v, t)]) t f) (h64 : t < 18446744073709551616) :
    Inv key W (init ++ [(v, t)]) t (stage2 key f v t) := by
  have hwl := h.wl
  have hl : (init ++ [(v, t)]).getLast?.map Prod.snd = some t := by simp
  have n := Good.newest key init v t
  have a0 := age_eq h.g0.2 h64
  have a1 := age_eq h.g1.2 h64
  have f2 := h.fresh2
  unfold stage2
  split
  · simp only []
    split
    · exact ⟨hwl, hl, h.g2, n, n, f2⟩
    · next hh =>
      have hh' : ¬ age t f.e1.2 > f.windowLength := hh
      exact ⟨hwl, hl, h.g1, h.g2, n, by show t - f.e1.2 ≤ W; omega⟩
  · next hh =>
    have fr : t - f.e0.2 ≤ W := by omega
    split
    · exact ⟨hwl, hl, h.g0, n, n, fr⟩
    · split
      · exact ⟨hwl, hl, h.g0, h.g1, n, fr⟩
      · exact ⟨hwl, hl, h.g0, h.g1, h.g2, fr⟩

theorem reset_inv (key : V → Int) {W : Nat} (hist : List (V × Nat)) {f : WFilter V}
    (hwl : f.windowLength = W) (v : V) (t : Nat) :
    Inv key W (hist ++ [(v, t)]) t (f.reset v t) := by
  have n := Good.newest key hist v t
  exact ⟨hwl, by simp, n, n, n, by simp [reset]⟩

/-- one `Update` preserves the invariant -/
theorem update_inv {key : V → Int} (kz : Int) {W : Nat} {hist : List (V × Nat)} {tl : Nat} {f : WFilter V}
    (h : Inv key W hist tl f) {v : V} {t : Nat} (ht : tl ≤ t) (h64 : t < 18446744073709551616) :
    Inv key W (hist ++ [(v, t)]) t (update key kz f v t) := by
  rw [update_eq]
  split
  · exact reset_inv key hist h.wl v t
  · next hc =>
    have hv0 : key v < key f.e0.1 := by omega
    have ha2 : ¬ age t f.e2.2 > f.windowLength := by omega
    exact stage2_inv (stage1_mid h ht h64 hv0 ha2) h64

theorem feed_inv {key : V → Int} (kz : Int) {W : Nat} (xs : List (V × Nat)) :
    ∀ {hist : List (V × Nat)} {tl : Nat} {f : WFilter V}, Inv key W hist tl f → TimesOk tl xs →
      ∃ tl', Inv key W (hist ++ xs) tl' (feed key kz f xs) := by
  induction xs with
  | nil => intro hist tl f h _; exact ⟨tl, by simpa [feed] using h⟩
  | cons x xs ih =>
    obtain ⟨v, t⟩ := x
    intro hist tl f h hto
    obtain ⟨h1, h2, h3⟩ := hto
    obtain ⟨tl', hi⟩ := ih (update_inv kz h h1 h2) h3
    exact ⟨tl', by simpa [feed] using hi⟩

end WFilter

open WFilter in
/-- the invariant holds for the filter obtained from the constructor state by any non-empty feed -/
theorem windowed_filter_inv {V} (key : V → Int) (kz : Int) (zero : V) (hz : key zero = kz) (W : Nat)
    (xs : List (V × Nat)) (hne : xs ≠ []) (ht : TimesOk 0 xs) :
    ∃ tl, Inv key W xs tl (WFilter.feed key kz (WFilter.new zero W) xs) := by
  match xs, hne, ht with
  | (v, t) :: rest, _, ⟨_, h64, hrest⟩ =>
    have hfirst : update key kz (WFilter.new zero W) v t = (WFilter.new zero W).reset v t := by
      rw [update_eq]; simp [WFilter.new, hz]
    have h1 : Inv key W ([] ++ [(v, t)]) t (update key kz (WFilter.new zero W) v t) := by
      rw [hfirst]; exact reset_inv key [] (f := WFilter.new zero W) rfl v t
    obtain ⟨tl, hi⟩ := feed_inv kz rest h1 hrest
    exact ⟨tl, by simpa [WFilter.feed] using hi⟩

/-- **windowed_filter_spec** (max filter; a min filter is the same statement for the negated key).
    Start from the constructor state `WFilter.new zero W` with `key zero = kz`; feed any NON-EMPTY
    list `xs` of samples at non-decreasing times.  Then the best estimate `(v, t) = f.e0` of the
    resulting filter
      (i)   is one of the samples fed:  xs = pre ++ (v, t) :: post  for some pre, post,
      (ii)  dominates every later sample:  ∀ x ∈ post, key x.1 ≤ key v,
      (iii) is fresh:  tlast - t ≤ W  where tlast is the time of the last sample fed.
    (`hk` is not needed by the proof: the very first `Update` always resets.) -/
theorem windowed_filter_spec {V} (key : V → Int) (kz : Int) (zero : V) (hz : key zero = kz) (W : Nat)
    (xs : List (V × Nat)) (hne : xs ≠ []) (hk : ∀ x ∈ xs, kz ≤ key x.1) (ht : TimesOk 0 xs) :
    let f := WFilter.feed key kz (WFilter.new zero W) xs
    ∃ pre post, xs = pre ++ (f.e0.1, f.e0.2) :: post ∧ (∀ x ∈ post, key x.1 ≤ key f.e0.1) ∧
      (xs.getLast hne).2 - f.e0.2 ≤ W := by
  intro f
  obtain ⟨tl, hi⟩ := windowed_filter_inv key kz zero hz W xs hne ht
  obtain ⟨⟨pre, post, hsplit, hdom⟩, _⟩ := hi.g0
  have hl := hi.lastT
  rw [List.getLast?_eq_some_getLast hne] at hl
  simp at hl
  refine ⟨pre, post, hsplit, hdom, ?_⟩
  rw [hl]; exact hi.fresh

/-- corollary: the best estimate is at least the newest sample -/
theorem windowed_filter_best_ge_newest {V} (key : V → Int) (kz : Int) (zero : V) (hz : key zero = kz)
    (W : Nat) (xs : List (V × Nat)) (hne : xs ≠ []) (hk : ∀ x ∈ xs, kz ≤ key x.1) (ht : TimesOk 0 xs) :
    key (xs.getLast hne).1 ≤ key (WFilter.feed key kz (WFilter.new zero W) xs).e0.1 := by
  obtain ⟨pre, post, hsplit, hdom, _⟩ := windowed_filter_spec key kz zero hz W xs hne hk ht
  have hmem : xs.getLast hne ∈ xs := List.getLast_mem hne
  generalize hf : WFilter.feed key kz (WFilter.new zero W) xs = f at *
  match post, hsplit, hdom with
  | [], hsplit, _ =>
    have : xs.getLast hne = (f.e0.1, f.e0.2) := by
      simp [hsplit]
    rw [this]; exact Int.le_refl _
  | p :: ps, hsplit, hdom =>
    apply hdom
    have : xs.getLast hne = (p :: ps).getLast (by simp) := by
      simp [hsplit]
    rw [this]; exact List.getLast_mem _

/-- the filter is NOT the exact maximum over the window -/
theorem windowed_filter_not_exact_max :
    (WFilter.feed (fun n : Nat => (n : Int)) 0 (WFilter.new 0 10) [(10, 0), (9, 2), (5, 3), (1, 11)]).e0
      = (5, 3) := by decide

end Hy.Sampler
