/-
  C12(b): proofs about the BBR control-logic model (Hy/Model/BbrCore.lean).
  The invariant `Inv` holds at event boundaries; every sub-step of OnCongestionEventEx gets a
  frame lemma (`Fr`) and the steps are composed through generalized intermediate states.
-/
import Hy.Model.BbrCore
set_option linter.unusedSimpArgs false
set_option linter.unusedVariables false
namespace Hy.Bbr
open Hy

/-- invariant at event boundaries -/
structure Inv (s : S) : Prop where
  mdsPos : 0 < s.mds
  minEq : s.minCwnd = minPk * s.mds
  maxEq : s.maxCwnd = maxPk * s.mds
  initEq : s.initCwnd = initPk * s.mds
  cw : s.minCwnd ≤ s.cwnd ∧ s.cwnd ≤ s.maxCwnd
  rw : s.rcv ≠ .none → s.minCwnd ≤ s.recWnd
  off : s.cycleOffset < cycleLen

/-! ### generic helpers -/

theorem Res.bind_eq_ok {α β} (r : Res α) (f : α → Res β) (b : β) :
    r.bind f = .ok b ↔ ∃ a, r = .ok a ∧ f a = .ok b := by
  cases r with
  | ok a => simp [Res.bind]
  | reject => simp [Res.bind]
  | panic => simp [Res.bind]

theorem cycleLen_eq : cycleLen = 8 := rfl

theorem mod_cycleLen_lt (x : Nat) : x % cycleLen < cycleLen := Nat.mod_lt _ (by decide)

/-! ### construction, outputs, OnPacketSent -/

theorem new_inv (cfg : Cfg) (mds : Nat) (h : 0 < mds) : Inv (new cfg mds) := by
  refine { mdsPos := h, minEq := rfl, maxEq := rfl, initEq := rfl, cw := ?_, rw := ?_, off := ?_ }
  · simp only [new, minPk, maxPk, initPk, Gen.bbr_minCongestionWindowPackets,
      Gen.bbr_initialCongestionWindowPackets, Gen.quic_MaxCongestionWindowPackets]
    omega
  · intro hr; exact absurd rfl hr
  · simp [new, cycleLen, Gen.bbr_gainCycleLength]

theorem bounds_of_inv (s : S) (h : Inv s) :
    minPk * s.mds ≤ getCwnd s ∧ getCwnd s ≤ maxPk * s.mds := by
  unfold getCwnd
  have := h.cw; have := h.minEq; have := h.maxEq
  split
  · simp only [minPk, maxPk, Gen.bbr_minCongestionWindowPackets, Gen.quic_MaxCongestionWindowPackets] at *
    omega
  · split
    · rename_i hr; have := h.rw hr
      simp only [minPk, maxPk, Gen.bbr_minCongestionWindowPackets, Gen.quic_MaxCongestionWindowPackets] at *
      omega
    · omega

theorem canSend_zero (s : S) (h : Inv s) : canSend s 0 = true := by
  have hb := (bounds_of_inv s h).1
  have hp := h.mdsPos
  simp only [minPk, Gen.bbr_minCongestionWindowPackets] at hb
  simp only [canSend, decide_eq_true_eq]
  omega

theorem onPacketSent_inv (s : S) (h : Inv s) (inflight : Nat) (pn : Int) :
    Inv (onPacketSent s inflight pn) ∧ (onPacketSent s inflight pn).mds = s.mds := by
  refine ⟨?_, rfl⟩
  exact { mdsPos := h.mdsPos, minEq := h.minEq, maxEq := h.maxEq, initEq := h.initEq, cw := h.cw,
          rw := h.rw, off := h.off }

/-! ### SetMaxDatagramSize -/

theorem scale_exact (k a n : Nat) (ha : 0 < a) : (k * a) * n / a = k * n := by
  rw [Nat.mul_right_comm, Nat.mul_div_cancel _ ha]

theorem scaleWnd_exact (k a n : Nat) (ha : 0 < a) : scaleWnd (k * a) a n = .ok (k * n) := by
  unfold scaleWnd
  split
  · rename_i he; rw [he]
  · rw [if_neg (by omega), scale_exact _ _ _ ha]

theorem scaleWnd_ok (w a n : Nat) (ha : 0 < a) : ∃ v, scaleWnd w a n = .ok v := by
  unfold scaleWnd
  split
  · exact ⟨_, rfl⟩
  · rw [if_neg (by omega)]; exact ⟨_, rfl⟩

/-- SetMaxDatagramSize with a non-decreasing size: no panic, invariant kept (the rescaling of
    max/initial windows is exact: (k*a)*n/a = k*n) -/
theorem setMds_spec (s : S) (h : Inv s) (n : Nat) (hn : s.mds ≤ n) :
    ∃ s', setMds s n = .ok s' ∧ Inv s' ∧ s'.mds = n := by
  have hp := h.mdsPos
  have hnpos : 0 < n := by omega
  have h1 : scaleWnd s.initCwnd s.mds n = .ok (initPk * n) := by
    rw [h.initEq]; exact scaleWnd_exact _ _ _ hp
  have h2 : scaleWnd s.maxCwnd s.mds n = .ok (maxPk * n) := by
    rw [h.maxEq]; exact scaleWnd_exact _ _ _ hp
  obtain ⟨v3, h3⟩ := scaleWnd_ok s.cwndForMinPacing s.mds n hp
  obtain ⟨v4, h4⟩ := scaleWnd_ok s.maxCwndAdjusted s.mds n hp
  have heq : setMds s n = .ok
      { s with mds := n, initCwnd := initPk * n, maxCwnd := maxPk * n, minCwnd := minPk * n,
               cwndForMinPacing := v3, maxCwndAdjusted := v4,
               cwnd := if s.cwnd = s.minCwnd then minPk * n
                       else if s.cwnd = s.initCwnd then initPk * n
                       else min (maxPk * n) (max s.cwnd (minPk * n)),
               recWnd := min (maxPk * n) (max s.recWnd (minPk * n)) } := by
    simp only [setMds, Res.bind_eq, Res.pure_eq, h1, h2, h3, h4, Res.bind_ok]
    rw [if_neg (by omega)]
  refine ⟨_, heq, ?_, ?_⟩
  · refine { mdsPos := hnpos, minEq := rfl, maxEq := rfl, initEq := rfl, cw := ?_, rw := ?_, off := h.off }
    · simp only [minPk, maxPk, initPk, Gen.bbr_minCongestionWindowPackets,
        Gen.bbr_initialCongestionWindowPackets, Gen.quic_MaxCongestionWindowPackets]
      split <;> (try split) <;> omega
    · intro _
      simp only [minPk, maxPk, initPk, Gen.bbr_minCongestionWindowPackets,
        Gen.bbr_initialCongestionWindowPackets, Gen.quic_MaxCongestionWindowPackets]
      omega
  · rfl

/-- whenever SetMaxDatagramSize returns at all, the invariant holds afterwards -/
theorem setMds_ok_inv (s : S) (h : Inv s) (n : Nat) (s' : S) (hs : setMds s n = .ok s') :
    Inv s' ∧ s'.mds = n := by
  have hn : s.mds ≤ n := by
    apply Nat.le_of_not_lt
    intro hlt
    simp only [setMds, Res.bind_eq, Res.pure_eq] at hs
    rw [if_pos hlt] at hs
    cases hs
  obtain ⟨s'', e1, e2, e3⟩ := setMds_spec s h n hn
  rw [e1] at hs
  cases hs
  exact ⟨e2, e3⟩

/-! ### frame relation for the sub-steps of OnCongestionEventEx -/

/-- `s'` agrees with `s` on the datagram size and the window fields, and keeps the gain-cycle
    offset in range -/
def Fr (s s' : S) : Prop :=
  s'.mds = s.mds ∧ s'.minCwnd = s.minCwnd ∧ s'.maxCwnd = s.maxCwnd ∧ s'.initCwnd = s.initCwnd ∧
  s'.cwnd = s.cwnd ∧ (s.cycleOffset < cycleLen → s'.cycleOffset < cycleLen)

theorem Fr.refl (s : S) : Fr s s := ⟨rfl, rfl, rfl, rfl, rfl, id⟩

theorem Fr.trans {a b c : S} (h1 : Fr a b) (h2 : Fr b c) : Fr a c := by
  obtain ⟨a1, a2, a3, a4, a5, a6⟩ := h1
  obtain ⟨b1, b2, b3, b4, b5, b6⟩ := h2
  exact ⟨b1.trans a1, b2.trans a2, b3.trans a3, b4.trans a4, b5.trans a5, fun h => b6 (a6 h)⟩

/-- closes `Fr s t` when `t` is `s` or a record update of `s` that leaves the tracked fields alone -/
macro "fr_rfl" : tactic =>
  `(tactic| first | exact Fr.refl _ | exact ⟨rfl, rfl, rfl, rfl, rfl, id⟩)

/-- case-split every `if`/`match` of an unfolded pure step, then `fr_rfl` -/
macro "fr_auto" : tactic =>
  `(tactic| ((repeat' (first | split | (dsimp only; split))) <;> fr_rfl))

theorem updateRoundTripCounter_fr (s : S) (a : Int) : Fr s (updateRoundTripCounter s a).1 := by
  unfold updateRoundTripCounter
  fr_auto

theorem updateRecoveryState_fr (s : S) (a : Int) (hl rs : Bool) :
    Fr s (updateRecoveryState s a hl rs) := by
  unfold updateRecoveryState
  fr_auto

theorem maybeUpdateMinRtt_fr (s : S) (now r : Nat) : Fr s (maybeUpdateMinRtt s now r).1 := by
  unfold maybeUpdateMinRtt
  fr_auto

theorem checkIfFullBandwidthReached_fr (s : S) (e : Ev) : Fr s (checkIfFullBandwidthReached s e) := by
  unfold checkIfFullBandwidthReached
  fr_auto

theorem enterStartup_fr (s : S) : Fr s (enterStartup s) := ⟨rfl, rfl, rfl, rfl, rfl, id⟩

/-! ### the Res-valued steps: total, and framed -/

theorem gainAt_ok (i : Nat) (h : i < cycleLen) : ∃ g, gainAt i = .ok g := by
  have h8 : i = 0 ∨ i = 1 ∨ i = 2 ∨ i = 3 ∨ i = 4 ∨ i = 5 ∨ i = 6 ∨ i = 7 := by
    simp only [cycleLen_eq] at h; omega
  rcases h8 with rfl | rfl | rfl | rfl | rfl | rfl | rfl | rfl <;> exact ⟨_, rfl⟩

/-- `r` returns a state framed w.r.t. `s` -/
def OkFr (s : S) (r : Res S) : Prop := ∃ s', r = .ok s' ∧ Fr s s'

theorem OkFr.ok {s t : S} (h : Fr s t) : OkFr s (.ok t) := ⟨t, rfl, h⟩

theorem OkFr.trans {s t : S} {r : Res S} (h1 : Fr s t) (h2 : OkFr t r) : OkFr s r := by
  obtain ⟨s', e1, e2⟩ := h2
  exact ⟨s', e1, h1.trans e2⟩

theorem OkFr.bind {s : S} {r : Res S} {f : S → Res S} (h1 : OkFr s r) (h2 : ∀ t, OkFr t (f t)) :
    OkFr s (r.bind f) := by
  obtain ⟨t, e1, e2⟩ := h1
  rw [e1]
  exact OkFr.trans e2 (h2 t)

theorem updateGainCyclePhase_ok (s : S) (e : Ev) (hl : Bool) : OkFr s (updateGainCyclePhase s e hl) := by
  obtain ⟨g, hg⟩ := gainAt_ok _ (mod_cycleLen_lt (s.cycleOffset + 1))
  simp only [updateGainCyclePhase, Res.bind_eq, Res.pure_eq, hg, Res.bind_ok]
  (repeat' split) <;>
    first
    | exact OkFr.ok (Fr.refl _)
    | exact ⟨_, rfl, rfl, rfl, rfl, rfl, rfl, fun _ => mod_cycleLen_lt _⟩

theorem probeOff_lt (r : Nat) :
    (if r % (cycleLen - 1) ≥ 1 then r % (cycleLen - 1) + 1 else r % (cycleLen - 1)) < cycleLen := by
  have h : r % (cycleLen - 1) < cycleLen - 1 := Nat.mod_lt _ (by decide)
  have h8 := cycleLen_eq
  by_cases hc : r % (cycleLen - 1) ≥ 1
  · rw [if_pos hc]; omega
  · rw [if_neg hc]; omega

theorem enterProbeBw_ok (s : S) (now rnd : Nat) : OkFr s (enterProbeBw s now rnd) := by
  have hlt := probeOff_lt (rnd % Gen.quic_PacketsPerConnectionID)
  obtain ⟨g, hg⟩ := gainAt_ok _ hlt
  simp only [enterProbeBw, Res.bind_eq, Res.pure_eq, hg, Res.bind_ok]
  exact ⟨_, rfl, rfl, rfl, rfl, rfl, rfl, fun _ => hlt⟩

/-- closes `OkFr s r` after all case splits: `r` is `.ok t` or `enterProbeBw t _ _` with `t` a
    harmless update of `s` -/
macro "okfr_close" : tactic =>
  `(tactic| first
    | exact OkFr.ok (by fr_rfl)
    | exact OkFr.trans (by fr_rfl) (enterProbeBw_ok _ _ _))

theorem maybeExitStartupOrDrain_ok (s : S) (e : Ev) : OkFr s (maybeExitStartupOrDrain s e) := by
  simp only [maybeExitStartupOrDrain, Res.bind_eq, Res.pure_eq]
  (repeat' (first | split | (dsimp only; split))) <;> okfr_close

theorem maybeEnterOrExitProbeRtt_ok (s : S) (e : Ev) (rs mre : Bool) :
    OkFr s (maybeEnterOrExitProbeRtt s e rs mre) := by
  simp only [maybeEnterOrExitProbeRtt, enterStartup, Res.bind_eq, Res.pure_eq, Res.bind_ok]
  (repeat' (first | split | (dsimp only; split))) <;>
    first
    | exact OkFr.ok (by fr_rfl)
    | exact OkFr.trans (by fr_rfl)
        (OkFr.bind (enterProbeBw_ok _ _ _) (fun t => OkFr.ok (by fr_rfl)))

theorem calculatePacingRate_panic_or (s : S) (e : Ev) :
    calculatePacingRate s e = .panic ∨ OkFr s (calculatePacingRate s e) := by
  simp only [calculatePacingRate, bandwidthFromDelta, Res.bind_eq, Res.pure_eq]
  (repeat' (first | split | (dsimp only; split))) <;>
    first
    | exact Or.inr (OkFr.ok (by fr_rfl))
    | exact Or.inl rfl

theorem calculatePacingRate_fr (s : S) (e : Ev) (s' : S) (hs : calculatePacingRate s e = .ok s') :
    Fr s s' := by
  rcases calculatePacingRate_panic_or s e with h | ⟨t, h1, h2⟩
  · rw [h] at hs; cases hs
  · rw [h1] at hs; cases hs; exact h2

theorem calculatePacingRate_ok (s : S) (e : Ev) (h : e.env.bw ≠ 0 → e.env.rttMin ≠ 0) :
    ∃ s', calculatePacingRate s e = .ok s' := by
  simp only [calculatePacingRate, bandwidthFromDelta, Res.bind_eq, Res.pure_eq]
  by_cases hbw : e.env.bw = 0
  · rw [if_pos hbw]; exact ⟨_, rfl⟩
  · have hr := h hbw
    rw [if_neg hbw]
    simp only [hr, ↓reduceIte]
    (repeat' split) <;> exact ⟨_, rfl⟩

end Hy.Bbr
